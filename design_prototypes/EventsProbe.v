(* Feasibility probe for DESIGN.md (C02 / Appendix A.2): crossing events of the sign
   sequence, their characterisation and the adjacency lemma.  Not part of the framework. *)
From Coq Require Import List Arith Lia Bool.
Import ListNotations.

(* crossing events of the sign sequence p: (i, k) means p[i] = negb k, p[i+1] = k *)
Fixpoint events (i : nat) (l : list bool) : list (nat * bool) :=
  match l with
  | x :: t =>
      match t with
      | y :: _ => if Bool.eqb x y then events (S i) t else (i, y) :: events (S i) t
      | [] => []
      end
  | [] => []
  end.

Definition bit (p : list bool) (j : nat) := nth j p false.

Lemma events_in i l e k :
  In (e, k) (events i l) <->
  (i <= e /\ S (e - i) < length l /\ bit l (e - i) = negb k /\ bit l (S (e - i)) = k).
Proof.
  revert i; induction l as [|x t IH]; intros i; cbn [events].
  - split; [intros []|]. cbn. lia.
  - destruct t as [|y t'].
    + split; [intros []|]. cbn [length]. lia.
    + destruct (Bool.eqb x y) eqn:E.
      * rewrite IH. apply eqb_prop in E. subst y. unfold bit. split.
        -- intros (H1 & H2 & H3 & H4). replace (e - i) with (S (e - S i)) by lia.
           cbn [length nth] in *. repeat split; try lia; assumption.
        -- intros (H1 & H2 & H3 & H4).
           destruct (Nat.eq_dec e i) as [->|Hne].
           ++ rewrite Nat.sub_diag in *. cbn [nth] in *. rewrite H3 in H4. destruct k; discriminate.
           ++ replace (e - i) with (S (e - S i)) in * by lia. cbn [length nth] in *.
              repeat split; try lia; assumption.
      * cbn [In]. rewrite IH. apply eqb_false_iff in E. unfold bit. split.
        -- intros [H|(H1 & H2 & H3 & H4)].
           ++ inversion H; subst. rewrite Nat.sub_diag. cbn [length nth]. repeat split; try lia.
              destruct x, k; try reflexivity; congruence.
           ++ replace (e - i) with (S (e - S i)) by lia. cbn [length nth] in *.
              repeat split; try lia; assumption.
        -- intros (H1 & H2 & H3 & H4).
           destruct (Nat.eq_dec e i) as [->|Hne].
           ++ left. rewrite Nat.sub_diag in *. cbn [nth] in *. subst. reflexivity.
           ++ right. replace (e - i) with (S (e - S i)) in * by lia. cbn [length nth] in *.
              repeat split; try lia; assumption.
Qed.
Print Assumptions events_in.

Lemma bit_skipn l n j : bit (skipn n l) j = bit l (n + j).
Proof. unfold bit. revert l; induction n as [|n IH]; intros l; cbn [skipn plus]; auto.
  destruct l as [|x t]; cbn [skipn nth]. - destruct j; reflexivity. - apply IH. Qed.

Lemma events_head i l a k rest :
  events i l = (a, k) :: rest ->
  i <= a /\ (forall j, i <= j <= a -> bit l (j - i) = negb k) /\ bit l (S a - i) = k /\
  rest = events (S a) (skipn (S a - i) l).
Proof.
  revert i; induction l as [|x t IH]; intros i; cbn [events]; [discriminate|].
  destruct t as [|y t']; [discriminate|].
  destruct (Bool.eqb x y) eqn:E.
  - intros H. apply IH in H as (H1 & H2 & H3 & H4). apply eqb_prop in E; subst y.
    split; [lia|]. split; [|split].
    + intros j Hj. destruct (Nat.eq_dec j i) as [->|Hne].
      * rewrite Nat.sub_diag. specialize (H2 (S i) ltac:(lia)).
        replace (S i - S i) with 0 in H2 by lia. unfold bit in *. cbn [nth] in *. exact H2.
      * specialize (H2 j ltac:(lia)). replace (j - i) with (S (j - S i)) by lia.
        unfold bit in *. cbn [nth]. exact H2.
    + replace (S a - i) with (S (S a - S i)) by lia. unfold bit in *. cbn [nth]. exact H3.
    + rewrite H4. replace (S a - i) with (S (S a - S i)) by lia. reflexivity.
  - intros H. inversion H; subst. apply eqb_false_iff in E.
    split; [lia|]. split; [|split].
    + intros j Hj. replace j with a by lia. rewrite Nat.sub_diag. unfold bit; cbn [nth].
      destruct x, k; try reflexivity; congruence.
    + replace (S a - a) with 1 by lia. reflexivity.
    + replace (S a - a) with 1 by lia. reflexivity.
Qed.

(* two adjacent events: opposite kinds, and the bits strictly between are constant *)
Lemma events_adjacent i l a k b k' rest :
  events i l = (a, k) :: (b, k') :: rest ->
  a < b /\ k' = negb k /\ forall j, a < j <= b -> bit l (j - i) = k.
Proof.
  intros H. destruct (events_head _ _ _ _ _ H) as (H1 & H2 & H3 & H4).
  symmetry in H4. destruct (events_head _ _ _ _ _ H4) as (G1 & G2 & G3 & G5).
  assert (Hk : k' = negb k).
  { specialize (G2 (S a) ltac:(lia)). rewrite bit_skipn in G2.
    replace (S a - i + (S a - S a)) with (S a - i) in G2 by lia. rewrite H3 in G2.
    destruct k, k'; try reflexivity; discriminate. }
  split; [lia|]. split; [exact Hk|].
  intros j Hj. specialize (G2 j ltac:(lia)). rewrite bit_skipn in G2.
  replace (S a - i + (j - S a)) with (j - i) in G2 by lia. rewrite G2, Hk. apply negb_involutive.
Qed.
Print Assumptions events_adjacent.
