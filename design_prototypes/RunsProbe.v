(* Feasibility probe for DESIGN.md (C08 / Appendix A.1): the run filter and its window
   characterisation, proved axiom-free.  Not part of the framework. *)
From Coq Require Import List Arith Lia Bool.
Import ListNotations.

Fixpoint go (n run : nat) (l : list bool) : list bool :=
  match l with
  | [] => repeat (n <=? run) run
  | true :: t => go n (S run) t
  | false :: t => repeat (n <=? run) run ++ false :: go n 0 t
  end.
Definition minrun n l := go n 0 l.

Lemma go_length n r l : length (go n r l) = r + length l.
Proof.
  revert r; induction l as [|[|] t IH]; intros r; cbn [go length].
  - rewrite repeat_length; lia.
  - rewrite IH; lia.
  - rewrite app_length, repeat_length; cbn [length]; rewrite IH; lia.
Qed.

(* all-true window [a,b) in l, of length >= n, containing i *)
Definition window (l : list bool) (n i : nat) : Prop :=
  exists a b, a <= i < b /\ b <= length l /\ n <= b - a /\
              forall j, a <= j < b -> nth j l false = true.

Lemma nth_repeat_true (b : bool) k j : nth j (repeat b k) false = (j <? k) && b.
Proof.
  revert j; induction k as [|k IH]; intros j; destruct j as [|j]; cbn [repeat nth].
  - reflexivity.
  - reflexivity.
  - destruct b; reflexivity.
  - rewrite IH. reflexivity.
Qed.

(* key lemma: go n r l = what minrun would give on (repeat true r ++ l) *)
Lemma go_prefix n r l : go n r l = minrun n (repeat true r ++ l).
Proof.
  unfold minrun. 
  assert (H: forall r0, go n r0 (repeat true r ++ l) = go n (r0 + r) l).
  { induction r as [|r IH]; intros r0; cbn [repeat app go].
    - f_equal; lia.
    - rewrite IH. f_equal; lia. }
  rewrite H. reflexivity.
Qed.

Lemma window_nil n i : ~ window [] n i.
Proof. intros (a & b & Hi & Hb & _). cbn in Hb. lia. Qed.

Theorem minrun_spec n l i : nth i (minrun n l) false = true <-> window l n i.
Proof.
  unfold minrun.
  (* generalise: go n r l vs window over (repeat true r ++ l) *)
  enough (G : forall r, nth i (go n r l) false = true <-> window (repeat true r ++ l) n i)
    by (apply (G 0)).
  induction l as [|[|] t IH] in i |- *; intros r.
  - cbn [go]. rewrite app_nil_r, nth_repeat_true. split.
    + intros H. apply andb_true_iff in H as [H1 H2].
      apply Nat.ltb_lt in H1. apply Nat.leb_le in H2.
      exists 0, r. rewrite repeat_length. repeat split; try lia.
      intros j Hj. rewrite nth_repeat_true. apply andb_true_iff; split; auto. apply Nat.ltb_lt; lia.
    + intros (a & b & Hi & Hb & Hn & _). rewrite repeat_length in Hb.
      apply andb_true_iff; split; [apply Nat.ltb_lt|apply Nat.leb_le]; lia.
  - cbn [go]. rewrite IH.
    replace (repeat true (S r) ++ t) with (repeat true r ++ true :: t); [reflexivity|].
    change (true :: t) with ([true] ++ t). rewrite app_assoc. f_equal.
    change [true] with (repeat true 1). rewrite <- repeat_app. f_equal; lia.
  - cbn [go].
    destruct (Nat.lt_ge_cases i r) as [Hlt|Hge].
    + (* inside the leading run *)
      rewrite app_nth1 by (rewrite repeat_length; lia). rewrite nth_repeat_true.
      split.
      * intros H. apply andb_true_iff in H as [_ H2]. apply Nat.leb_le in H2.
        exists 0, r. rewrite app_length, repeat_length. repeat split; try lia.
        intros j Hj. rewrite app_nth1 by (rewrite repeat_length; lia).
        rewrite nth_repeat_true. apply andb_true_iff; split; auto. apply Nat.ltb_lt; lia.
      * intros (a & b & Hi & Hb & Hn & Hall).
        assert (b <= r).
        { destruct (Nat.le_gt_cases b r); auto.
          specialize (Hall r ltac:(lia)). rewrite app_nth2 in Hall by (rewrite repeat_length; lia).
          rewrite repeat_length, Nat.sub_diag in Hall. discriminate. }
        apply andb_true_iff; split; [apply Nat.ltb_lt|apply Nat.leb_le]; lia.
    + rewrite app_nth2 by (rewrite repeat_length; lia). rewrite repeat_length.
      destruct (i - r) as [|k] eqn:Ek.
      * cbn [nth]. split; [discriminate|].
        intros (a & b & Hi & Hb & Hn & Hall). specialize (Hall i Hi).
        rewrite app_nth2 in Hall by (rewrite repeat_length; lia). rewrite repeat_length, Ek in Hall. discriminate.
      * cbn [nth]. rewrite (IH k 0). cbn [repeat app].
        split; intros (a & b & Hi & Hb & Hn & Hall).
        -- exists (a + S r), (b + S r). rewrite app_length, repeat_length. cbn [length]. repeat split; try lia.
           intros j Hj. rewrite app_nth2 by (rewrite repeat_length; lia). rewrite repeat_length.
           replace (j - r) with (S (j - S r)) by lia. cbn [nth]. apply Hall. lia.
        -- rewrite app_length, repeat_length in Hb. cbn [length] in Hb.
           assert (Ha : S r <= a).
           { destruct (Nat.le_gt_cases (S r) a); auto.
             specialize (Hall r ltac:(lia)). rewrite app_nth2 in Hall by (rewrite repeat_length; lia).
             rewrite repeat_length, Nat.sub_diag in Hall. discriminate. }
           exists (a - S r), (b - S r). repeat split; try lia.
           intros j Hj. specialize (Hall (j + S r) ltac:(lia)).
           rewrite app_nth2 in Hall by (rewrite repeat_length; lia). rewrite repeat_length in Hall.
           replace (j + S r - r) with (S j) in Hall by lia. exact Hall.
Qed.
Print Assumptions minrun_spec.

Theorem minrun_mono n n' l l' : n <= n' -> length l = length l' ->
  (forall i, nth i l false = true -> nth i l' false = true) ->
  forall i, nth i (minrun n' l) false = true -> nth i (minrun n l') false = true.
Proof.
  intros Hn Hlen Hsub i H. apply minrun_spec in H. apply minrun_spec.
  destruct H as (a & b & Hi & Hb & Hw & Hall). exists a, b. repeat split; try lia. auto.
Qed.
Eval vm_compute in minrun 3 [true;true;false;true;true;true;false;true].
