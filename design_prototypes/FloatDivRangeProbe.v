(* Feasibility probe for DESIGN.md §1.2: binary64 order laws and the [0,1] range of a
   quotient of ordered positive floats, via Flocq 4.1.  Not part of the framework. *)
From Coq Require Import ZArith Reals Lra Lia.
From Coq Require Import Floats.PrimFloat Floats.FloatAxioms Floats.FloatOps.
From Flocq Require Import Core.Core IEEE754.BinarySingleNaN IEEE754.PrimFloat.
Open Scope float_scope.
#[local] Instance Hprec53 : FLX.Prec_gt_0 53 := eq_refl _.
#[local] Instance Hmax1024 : Prec_lt_emax 53 1024 := eq_refl _.
#[local] Instance Vexp : Generic_fmt.Valid_exp (SpecFloat.fexp 53 1024) := fexp_correct 53 1024 Hprec53.

Definition finite (x : PrimFloat.float) : bool := is_finite (Prim2B x).
Definition FR (x : PrimFloat.float) : R := B2R (Prim2B x).

Lemma ltb_R x y : finite x = true -> finite y = true -> (x <? y) = Rlt_bool (FR x) (FR y).
Proof. intros; rewrite ltb_equiv; now apply Bltb_correct. Qed.
Lemma leb_R x y : finite x = true -> finite y = true -> (x <=? y) = Rle_bool (FR x) (FR y).
Proof. intros; rewrite leb_equiv; now apply Bleb_correct. Qed.

Lemma ltb_trans x y z : finite x = true -> finite y = true -> finite z = true ->
  (x <? y) = true -> (y <? z) = true -> (x <? z) = true.
Proof.
 intros Fx Fy Fz. rewrite !ltb_R by assumption.
 do 3 case Rlt_bool_spec; intros; try easy; lra.
Qed.
Lemma ltb_total x y : finite x = true -> finite y = true -> (x <? y) = negb (y <=? x).
Proof.
 intros Fx Fy. rewrite ltb_R, leb_R by assumption.
 case Rlt_bool_spec; case Rle_bool_spec; intros; try easy; lra.
Qed.

Lemma div_range x y : finite x = true -> finite y = true ->
  (0 <? x) = true -> (x <=? y) = true ->
  (0 <=? x / y) = true /\ (x / y <=? 1) = true.
Proof.
 intros Fx Fy Hx Hxy.
 assert (F0 : finite 0 = true) by reflexivity.
 assert (F1 : finite 1 = true) by reflexivity.
 rewrite ltb_R in Hx by assumption. rewrite leb_R in Hxy by assumption.
 revert Hx Hxy. case Rlt_bool_spec; try easy. intros Hx _. case Rle_bool_spec; try easy. intros Hxy _.
 assert (R0 : FR 0 = 0%R) by (unfold FR; change 0 with zero; rewrite zero_equiv, Prim2B_B2Prim; reflexivity).
 rewrite R0 in Hx.
 assert (Hy : (0 < FR y)%R) by lra.
 assert (Hynz : FR y <> 0%R) by lra.
 generalize (Bdiv_correct 53 1024 eq_refl eq_refl mode_NE (Prim2B x) (Prim2B y) Hynz).
 fold (FR x) (FR y).
 set (q := (FR x / FR y)%R).
 assert (Hq : (0 <= q <= 1)%R).
 { unfold q. split. apply Rlt_le, Rdiv_lt_0_compat; lra.
   apply Rmult_le_reg_r with (FR y); [lra|]. unfold Rdiv. rewrite Rmult_assoc, Rinv_l by lra. lra. }
 assert (R1 : FR 1 = 1%R).
 { unfold FR. change 1 with one. rewrite one_equiv, Prim2B_B2Prim. apply Bone_correct. }
 set (rnd := Generic_fmt.round radix2 (SpecFloat.fexp 53 1024) (round_mode mode_NE)).
 assert (Hr : (0 <= rnd q <= 1)%R).
 { split.
   - rewrite <- (Generic_fmt.round_0 radix2 (SpecFloat.fexp 53 1024) (round_mode mode_NE)).
     apply Generic_fmt.round_le; try typeclasses eauto. apply Hq.
   - rewrite <- (Generic_fmt.round_generic radix2 (SpecFloat.fexp 53 1024) (round_mode mode_NE) 1%R).
     apply Generic_fmt.round_le; try typeclasses eauto. apply Hq.
     rewrite <- R1. apply generic_format_B2R. }
 rewrite Rlt_bool_true.
 2:{ apply Rle_lt_trans with 1%R. rewrite Rabs_pos_eq; apply Hr. apply (bpow_lt radix2 0 1024). lia. }
 intros (Hv & Hfin & _).
 assert (Fq : finite (x / y) = true).
 { unfold finite. rewrite div_equiv. etransitivity; [exact Hfin|exact Fx]. }
 assert (Vq : FR (x / y) = rnd q).
 { unfold FR. rewrite div_equiv. exact Hv. }
 rewrite !leb_R by assumption. rewrite R0, R1, Vq.
 split; apply Rle_bool_true; apply Hr.
Qed.
Print Assumptions div_range.
