#!/bin/sh
cd /verif
for i in 01 02 03 04 05 06 07 08 09 10 11 12 13 14 15 16 17 18 19 20; do
  /usr/bin/time -f "C$i wall=%es maxrss=%MkB" ./check C$i --tier thorough 2>&1 | grep -v "^Proceeding\|tqdm" | tail -4 | cut -c1-300
done
echo ALLDONE
