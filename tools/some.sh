#!/bin/sh
# usage: some.sh "seed list" prop...
cd /verif
seeds="$1"; shift
for s in $seeds; do
  for p in "$@"; do
    VERIF_SEED=$s ./check $p --tier quick 2>&1 | grep -v "^Proceeding\|tqdm" | tail -3 | sed "s/^/seed=$s /" | cut -c1-260
  done
done
