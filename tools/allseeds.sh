#!/bin/sh
# usage: allseeds.sh seed...
cd /verif
for s in "$@"; do
  for i in 01 02 03 04 05 06 07 08 09 10 11 12 13 14 15 16 17 18 19 20; do
    VERIF_SEED=$s ./check C$i --tier quick 2>&1 | grep -v "^Proceeding" | tail -3 | sed "s/^/seed=$s /" | cut -c1-260
  done
done
