"""Dev-time helper: write one sub-agent prompt per property for a seeded round (see notes/mutant_prompt_example_C01_round6.txt).
usage: python3 tools/mkprompts.py <round-number> <outdir>   (worktrees /tmp/wt<r>_Cxx, outputs /tmp/out<r>_Cxx)"""
import json, os, sys, glob, re
r, out = sys.argv[1], sys.argv[2]
os.makedirs(out, exist_ok=True)
tmpl = open('/verif/notes/mutant_prompt_example_C01_round6.txt').read()
head, rest = tmpl.split('THE PROPERTY (C01', 1)
_, tail = rest.split('WHAT TO PRODUCE\n', 1)
tail0, tail1 = tail.split('0. IMPORTANT:', 1)
general = tail1[tail1.index('Also already studied in general'):]
for line in open('/verif/properties.jsonl'):
    p = json.loads(line)
    pid = p['id']
    prev = []
    for d in sorted(glob.glob('/verif/seeded/%s*' % pid)):
        n = os.path.join(d, 'notes.md')
        if os.path.exists(n):
            t = re.sub(r'\s+', ' ', open(n).read())[:420]
            prev.append('(%d) %s' % (len(prev) + 1, t))
    files = p.get('anchors', {}).get('files', [])
    q = p.get('quantifier', {})
    qt = q.get('text', '') if isinstance(q, dict) else str(q)
    body = (head.replace('wt6_C01', 'wt%s_%s' % (r, pid)).replace('out6_C01', 'out%s_%s' % (r, pid))
            + 'THE PROPERTY (%s: %s):\n%s\n\nIt is meant to hold for: %s\nRelevant source files: %s\n\nWHAT TO PRODUCE\n' % (pid, p.get('title', ''), p['statement'], qt, ', '.join(files))
            + '0. IMPORTANT: six previous studies already covered these mechanisms: ' + '; '.join(prev) + '. '
            + general.replace('wt6_C01', 'wt%s_%s' % (r, pid)).replace('out6_C01', 'out%s_%s' % (r, pid)))
    open(os.path.join(out, pid + '.txt'), 'w').write(body)
print('ok')
