(* Facts that tie the table-level correspondence entry points of Model/TableRuns.v to the
   theorems about the models (C06 fixed-table monotonicity, C08 entry point). *)
From Coq Require Import List Bool Arith ZArith Lia Floats.PrimFloat.
Import ListNotations.
From ByC Require Import Base.Result Base.FloatFacts Model.Runs Model.Labels Model.Cycles Model.Features
  Model.TableRuns.
From ByC Require Proofs.Runs Proofs.RunsCode Proofs.Labels Proofs.LabelsOrder Proofs.FeaturesSpec.
Import ByC.Proofs.LabelsOrder ByC.Proofs.FeaturesSpec.
Close Scope float_scope.
Open Scope nat_scope.

(* ---- C08 ------------------------------------------------------------------------------- *)

(* on the property's domain (a numpy array, min_n_cycles >= 0) the entry point is the run filter *)
Theorem check_min_valid l n : (0 <= n)%Z ->
  check_min_burst_cycles NdArray l n = Ok (minrun (Z.to_nat n) l).
Proof.
  intros Hn. unfold check_min_burst_cycles, check_min_with.
  destruct l as [|x t]; [reflexivity|].
  destruct (Z.ltb_spec n 0) as [H|_]; [lia|reflexivity].
Qed.

(* it is rejected exactly when the argument is not an array, or the array is non-empty and
   min_n_cycles is negative (the model pins this; the property does not speak about it) *)
Theorem check_min_err k l n :
  (exists e, check_min_burst_cycles k l n = Err e) <-> (k = PyList \/ (l <> [] /\ (n < 0)%Z)).
Proof.
  unfold check_min_burst_cycles, check_min_with. destruct k.
  - destruct l as [|x t].
    + split; [intros (e & H); discriminate H|].
      intros [H|(H & _)]; [discriminate H|contradiction].
    + destruct (Z.ltb_spec n 0) as [H|H].
      * split; [intros _; right; split; [discriminate|exact H]|intros _; eexists; reflexivity].
      * split; [intros (e & E); discriminate E|].
        intros [E|(_ & E)]; [discriminate E|lia].
  - split; [intros _; left; reflexivity|intros _; eexists; reflexivity].
Qed.

(* the code-shaped variant of the entry point is the same function *)
Theorem check_min_code_eq k l n : check_min_burst_cycles_code k l n = check_min_burst_cycles k l n.
Proof.
  unfold check_min_burst_cycles_code, check_min_burst_cycles, check_min_with.
  rewrite ByC.Proofs.RunsCode.minrun_code_eq. reflexivity.
Qed.

(* ---- C06: a fixed table ------------------------------------------------------------------ *)

(* calling the detector again on the table returned by compute_features, with thresholds and
   min_n_cycles not lower than those used for it, can only remove labels of THAT table *)
Theorem relabel_returned_table c raw k b t n t' n' out lab' :
  thr_finite t -> thr_finite t' -> thr_le t t' -> (n <= n')%Z ->
  compute_features c raw k b (Cycles t n) = Ok out ->
  labels_cycles t' n' (map feat_of_row out) = Ok lab' ->
  length lab' = length out /\
  forall i, nth i lab' false = true -> r_is_burst (nth i out frow0) = true.
Proof.
  intros Ft Ft' Hle Hn H H'. split.
  - rewrite (ByC.Proofs.Labels.labels_cycles_length _ _ _ _ H'). apply map_length.
  - intros i Hi. rewrite <- nth_is_burst.
    apply compute_features_cycles_self in H.
    exact (labels_cycles_mono _ _ _ _ _ _ _ Ft Ft' Hle Hn H H' i Hi).
Qed.

(* the two-call entry point: when both calls succeed and the second uses raised settings, the
   second label column is contained in the first *)
Theorem two_calls_cycles_mono t n t' n' rows lab lab' :
  thr_finite (mk_thr t) -> thr_finite (mk_thr t') -> thr_le (mk_thr t) (mk_thr t') -> (n <= n')%Z ->
  run_labels_cycles2 (t, n, (t', n'), rows) = (Ok lab, Some (Ok lab')) ->
  forall i, nth i lab' false = true -> nth i lab false = true.
Proof.
  intros Ft Ft' Hle Hn H. unfold run_labels_cycles2, two_calls in H. cbn [fst snd] in H.
  destruct (labels_cycles (mk_thr t) n (map mk_feat rows)) as [l|e] eqn:E1; [|discriminate H].
  injection H as H1 H2. subst l.
  exact (labels_cycles_mono _ _ _ _ _ _ _ Ft Ft' Hle Hn E1 H2).
Qed.

(* the same for the amplitude rule: raising burst_fraction_threshold never adds a label *)
Theorem two_calls_amp_mono t n t' rows lab lab' :
  finite t = true -> finite t' = true -> PrimFloat.leb t t' = true ->
  run_labels_amp2 (t, n, (t', n), rows) = (Ok lab, Some (Ok lab')) ->
  forall i, nth i lab' false = true -> nth i lab false = true.
Proof.
  intros Ft Ft' Hle H. unfold run_labels_amp2, two_calls in H. cbn [fst snd] in H.
  destruct (labels_amp t n rows) as [l|e] eqn:E1; [|discriminate H].
  injection H as H1 H2. subst l.
  exact (labels_amp_mono _ _ _ _ _ _ Ft Ft' Hle E1 H2).
Qed.
