(* Proofs about the minimum-run filter (C08). No axioms. *)
From Coq Require Import List Arith Lia Bool.
Import ListNotations.
From ByC Require Import Model.Runs.

Lemma go_length n r l : length (go n r l) = r + length l.
Proof.
  revert r; induction l as [|[|] t IH]; intros r; cbn [go length].
  - rewrite repeat_length; lia.
  - rewrite IH; lia.
  - rewrite app_length, repeat_length; cbn [length]; rewrite IH; lia.
Qed.

Lemma minrun_length n l : length (minrun n l) = length l.
Proof. unfold minrun; now rewrite go_length. Qed.

Lemma nth_repeat_b (b : bool) k j : nth j (repeat b k) false = (j <? k) && b.
Proof.
  revert j; induction k as [|k IH]; intros j; destruct j as [|j]; cbn [repeat nth].
  - reflexivity.
  - reflexivity.
  - destruct b; reflexivity.
  - rewrite IH. reflexivity.
Qed.

Lemma go_prefix n r l : go n r l = minrun n (repeat true r ++ l).
Proof.
  unfold minrun.
  assert (H: forall r0, go n r0 (repeat true r ++ l) = go n (r0 + r) l).
  { induction r as [|r IH]; intros r0; cbn [repeat app go].
    - f_equal; lia.
    - rewrite IH. f_equal; lia. }
  rewrite H. reflexivity.
Qed.

Theorem minrun_spec n l i : nth i (minrun n l) false = true <-> window l n i.
Proof.
  unfold minrun.
  enough (G : forall r, nth i (go n r l) false = true <-> window (repeat true r ++ l) n i)
    by (apply (G 0)).
  induction l as [|[|] t IH] in i |- *; intros r.
  - cbn [go]. rewrite app_nil_r, nth_repeat_b. split.
    + intros H. apply andb_true_iff in H as [H1 H2].
      apply Nat.ltb_lt in H1. apply Nat.leb_le in H2.
      exists 0, r. rewrite repeat_length. repeat split; try lia.
      intros j Hj. rewrite nth_repeat_b. apply andb_true_iff; split; auto. apply Nat.ltb_lt; lia.
    + intros (a & b & Hi & Hb & Hn & _). rewrite repeat_length in Hb.
      apply andb_true_iff; split; [apply Nat.ltb_lt|apply Nat.leb_le]; lia.
  - cbn [go]. rewrite IH.
    replace (repeat true (S r) ++ t) with (repeat true r ++ true :: t); [reflexivity|].
    change (true :: t) with ([true] ++ t). rewrite app_assoc. f_equal.
    change [true] with (repeat true 1). rewrite <- repeat_app. f_equal; lia.
  - cbn [go].
    destruct (Nat.lt_ge_cases i r) as [Hlt|Hge].
    + rewrite app_nth1 by (rewrite repeat_length; lia). rewrite nth_repeat_b.
      split.
      * intros H. apply andb_true_iff in H as [_ H2]. apply Nat.leb_le in H2.
        exists 0, r. rewrite app_length, repeat_length. repeat split; try lia.
        intros j Hj. rewrite app_nth1 by (rewrite repeat_length; lia).
        rewrite nth_repeat_b. apply andb_true_iff; split; auto. apply Nat.ltb_lt; lia.
      * intros (a & b & Hi & Hb & Hn & Hall).
        assert (b <= r).
        { destruct (Nat.le_gt_cases b r); auto.
          specialize (Hall r ltac:(lia)). rewrite app_nth2 in Hall by (rewrite repeat_length; lia).
          rewrite repeat_length, Nat.sub_diag in Hall. discriminate. }
        apply andb_true_iff; split; [apply Nat.ltb_lt|apply Nat.leb_le]; lia.
    + rewrite app_nth2 by (rewrite repeat_length; lia). rewrite repeat_length.
      destruct (i - r) as [|k] eqn:Ek.
      * cbn [nth]. split; [discriminate|].
        intros (a & b & Hi & Hb & Hn & Hall). specialize (Hall i Hi).
        rewrite app_nth2 in Hall by (rewrite repeat_length; lia). rewrite repeat_length, Ek in Hall. discriminate.
      * cbn [nth]. rewrite (IH k 0). cbn [repeat app].
        split; intros (a & b & Hi & Hb & Hn & Hall).
        -- exists (a + S r), (b + S r). rewrite app_length, repeat_length. cbn [length]. repeat split; try lia.
           intros j Hj. rewrite app_nth2 by (rewrite repeat_length; lia). rewrite repeat_length.
           replace (j - r) with (S (j - S r)) by lia. cbn [nth]. apply Hall. lia.
        -- rewrite app_length, repeat_length in Hb. cbn [length] in Hb.
           assert (Ha : S r <= a).
           { destruct (Nat.le_gt_cases (S r) a); auto.
             specialize (Hall r ltac:(lia)). rewrite app_nth2 in Hall by (rewrite repeat_length; lia).
             rewrite repeat_length, Nat.sub_diag in Hall. discriminate. }
           exists (a - S r), (b - S r). repeat split; try lia.
           intros j Hj. specialize (Hall (j + S r) ltac:(lia)).
           rewrite app_nth2 in Hall by (rewrite repeat_length; lia). rewrite repeat_length in Hall.
           replace (j + S r - r) with (S j) in Hall by lia. exact Hall.
Qed.

(* no False ever becomes True *)
Theorem minrun_le n l i : nth i (minrun n l) false = true -> nth i l false = true.
Proof. intros H. apply minrun_spec in H as (a & b & Hi & _ & _ & Hall). now apply Hall. Qed.

Theorem minrun_mono n n' l l' : n <= n' ->
  (forall i, nth i l false = true -> nth i l' false = true) -> length l <= length l' ->
  forall i, nth i (minrun n' l) false = true -> nth i (minrun n l') false = true.
Proof.
  intros Hn Hsub Hlen i H. apply minrun_spec in H. apply minrun_spec.
  destruct H as (a & b & Hi & Hb & Hw & Hall). exists a, b. repeat split; try lia. auto.
Qed.

Lemma bool_list_ext (l1 l2 : list bool) : length l1 = length l2 ->
  (forall i, nth i l1 false = true <-> nth i l2 false = true) -> l1 = l2.
Proof.
  intros Hl H. apply nth_ext with (d := false) (d' := false); [exact Hl|].
  intros i _. specialize (H i).
  destruct (nth i l1 false), (nth i l2 false); try reflexivity; intuition congruence.
Qed.

Theorem minrun_idem n l : minrun n (minrun n l) = minrun n l.
Proof.
  apply bool_list_ext; [now rewrite !minrun_length|].
  intros i; split.
  - apply minrun_le.
  - intros H. apply minrun_spec. apply minrun_spec in H as (a & b & Hi & Hb & Hn & Hall).
    exists a, b. rewrite minrun_length. repeat split; try lia.
    intros j Hj. apply minrun_spec. exists a, b. repeat split; try lia. exact Hall.
Qed.

Theorem minrun_small n l : n <= 1 -> minrun n l = l.
Proof.
  intros Hn. apply bool_list_ext; [apply minrun_length|].
  intros i; split; [apply minrun_le|].
  intros H. apply minrun_spec.
  assert (i < length l).
  { destruct (Nat.lt_ge_cases i (length l)); auto. rewrite nth_overflow in H by lia. discriminate. }
  exists i, (S i). repeat split; try lia.
  intros j Hj. replace j with i by lia. exact H.
Qed.

Theorem minrun_large n l i : length l < n -> nth i (minrun n l) false = false.
Proof.
  intros Hn. destruct (nth i (minrun n l) false) eqn:E; [|reflexivity].
  apply minrun_spec in E as (a & b & ? & ? & ? & _). lia.
Qed.

(* splitting at a False: the two sides are filtered independently *)
Lemma go_split n r pre post :
  go n r (pre ++ false :: post) = go n r pre ++ false :: go n 0 post.
Proof.
  revert r; induction pre as [|[|] t IH]; intros r; cbn [app go].
  - reflexivity.
  - apply IH.
  - rewrite IH, <- app_assoc. reflexivity.
Qed.

Theorem minrun_split n pre post :
  minrun n (pre ++ false :: post) = minrun n pre ++ false :: minrun n post.
Proof. apply go_split. Qed.

Lemma go_trues n r k : go n r (repeat true k) = repeat (n <=? r + k) (r + k).
Proof.
  revert r; induction k as [|k IH]; intros r; cbn [repeat go].
  - now rewrite Nat.add_0_r.
  - rewrite IH. now replace (S r + k) with (r + S k) by lia.
Qed.

(* a maximal run of k Trues bounded by False (or by an end of the array) on each side is
   kept entirely when k >= n and cleared entirely otherwise; everything else is
   filtered independently of it *)
Definition ends_clean (pre : list bool) : Prop := pre = [] \/ exists p, pre = p ++ [false].
Definition starts_clean (post : list bool) : Prop := post = [] \/ exists p, post = false :: p.

Theorem minrun_maximal_run n pre k post : ends_clean pre -> starts_clean post ->
  minrun n (pre ++ repeat true k ++ post) =
  minrun n pre ++ repeat (n <=? k) k ++ minrun n post.
Proof.
  intros Hpre Hpost.
  assert (Hmid : minrun n (repeat true k ++ post) = repeat (n <=? k) k ++ minrun n post).
  { destruct Hpost as [->|[p ->]].
    - rewrite !app_nil_r. unfold minrun. now rewrite go_trues.
    - rewrite minrun_split. unfold minrun. rewrite go_trues. cbn [plus go repeat app].
      reflexivity. }
  destruct Hpre as [->|[p ->]].
  - exact Hmid.
  - rewrite <- !app_assoc. cbn [app]. rewrite !minrun_split, Hmid.
    unfold minrun at 4. cbn [go repeat app]. rewrite <- app_assoc. reflexivity.
Qed.

(* runs touching either end are treated like interior runs *)
Theorem minrun_edge_neutral n l :
  minrun n (false :: l ++ [false]) = false :: minrun n l ++ [false].
Proof.
  change (false :: l ++ [false]) with ([] ++ false :: (l ++ [false])).
  rewrite minrun_split, minrun_split. reflexivity.
Qed.

Lemma window_rev l n i : i < length l -> window l n i -> window (rev l) n (length l - 1 - i).
Proof.
  intros Hi (a & b & Hab & Hb & Hn & Hall).
  exists (length l - b), (length l - a). rewrite rev_length. repeat split; try lia.
  intros j Hj. rewrite rev_nth by lia. apply Hall. lia.
Qed.

Theorem minrun_rev n l : minrun n (rev l) = rev (minrun n l).
Proof.
  apply bool_list_ext; [now rewrite rev_length, !minrun_length, rev_length|].
  intros i.
  destruct (Nat.lt_ge_cases i (length l)) as [Hi|Hi].
  2:{ rewrite !nth_overflow by (rewrite ?rev_length, ?minrun_length, ?rev_length; lia). reflexivity. }
  rewrite rev_nth by (rewrite minrun_length; lia). rewrite minrun_length.
  rewrite !minrun_spec. split; intros H.
  - apply window_rev in H; [|rewrite rev_length; lia].
    rewrite rev_involutive, rev_length in H.
    replace (length l - S i) with (length l - 1 - i) by lia. exact H.
  - apply window_rev in H; [|lia].
    replace (length l - 1 - (length l - S i)) with i in H by lia. exact H.
Qed.

(* non-vacuity: runs at both ends, one long, one short *)
Example minrun_example :
  minrun 3 [true;true;false;true;true;true;false;true] =
           [false;false;false;true;true;true;false;false]
  /\ minrun_code 3 [true;true;false;true;true;true;false;true] =
           [false;false;false;true;true;true;false;false].
Proof. split; reflexivity. Qed.
