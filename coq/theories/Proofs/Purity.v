(* C15, clean-room design: a library whose every call is a function of the argument values gives,
   after ANY history (calls interleaved with arbitrary user edits of the environment, from any
   hidden state), the result of the clean-room call on the current environment; conversely a
   library that passes the clean-room comparison on every history is a value function on every
   hidden state a history can reach; caches keyed by object identity / by a partial key and a
   module-level flag are refuted by 3-step histories. *)
From Coq Require Import List Bool Arith ZArith Lia.
Import ListNotations.
From ByC Require Import Base.Result Harness.Compare Model.Objects Model.Purity.

Section CleanRoomProofs.
Context {St Env Arg Res Mut : Type}.
Variable lib : St -> Env -> Arg -> St * Env * Res.
Variable s0 : St.
Variable user : Mut -> Env -> Env.

Notation hstep := (@hstep Arg Mut).
Notation run_hist := (run_hist lib user).
Notation hist_state := (hist_state lib user).
Notation hist_env := (hist_env lib user).
Notation hist_trace := (hist_trace lib user).
Notation cleanroom := (cleanroom lib s0).
Notation value_function := (value_function lib s0).
Notation history_clean := (history_clean lib s0 user).
Notation user_env := (user_env user).
Notation user_calls := (user_calls user).

Lemma run_hist_call (s : St) (e : Env) (a : Arg) (t : list hstep) :
  run_hist s e (HCall a :: t) =
  (hist_state (lib_st lib s e a) (lib_env lib s e a) t,
   hist_env (lib_st lib s e a) (lib_env lib s e a) t,
   (e, a, lib_res lib s e a) :: hist_trace (lib_st lib s e a) (lib_env lib s e a) t).
Proof.
  unfold hist_state, hist_env, hist_trace. cbn [Purity.run_hist].
  destruct (run_hist (lib_st lib s e a) (lib_env lib s e a) t) as [[s2 e2] tr]. reflexivity.
Qed.

Lemma run_hist_mut (s : St) (e : Env) (m : Mut) (t : list hstep) :
  run_hist s e (HMut m :: t) = run_hist s (user m e) t.
Proof. reflexivity. Qed.

(* the main theorem: from ANY hidden state, after ANY history *)
Theorem value_function_history_clean (Hvf : value_function) :
  forall (l : list hstep) (s : St) (e : Env), history_clean s e l.
Proof.
  induction l as [|[a|m] t IH]; intros s e.
  - split; reflexivity.
  - destruct (Hvf s e a) as [Hres Henv].
    destruct (IH (lib_st lib s e a) e) as [IHt IHe].
    unfold Purity.history_clean, Purity.hist_trace, Purity.hist_env in *.
    rewrite run_hist_call. cbn [fst snd Purity.user_calls Purity.user_env map].
    rewrite Henv, Hres. unfold Purity.hist_trace, Purity.hist_env. split; [f_equal; exact IHt|exact IHe].
  - destruct (IH s (user m e)) as [IHt IHe].
    unfold Purity.history_clean, Purity.hist_trace, Purity.hist_env in *.
    rewrite run_hist_mut. cbn [Purity.user_calls Purity.user_env]. split; assumption.
Qed.

(* every single call of a history equals its clean-room reference *)
Corollary value_function_every_call (Hvf : value_function) (s : St) (e : Env) (l : list hstep) i ei ai ri :
  nth_error (hist_trace s e l) i = Some (ei, ai, ri) ->
  ri = cleanroom ei ai /\ nth_error (user_calls e l) i = Some (ei, ai).
Proof.
  intros Hn. destruct (value_function_history_clean Hvf l s e) as [Ht _].
  rewrite Ht, nth_error_map in Hn.
  destruct (nth_error (user_calls e l) i) as [[e1 a1]|] eqn:Hu; cbn in Hn; [|discriminate Hn].
  inversion Hn; subst. split; reflexivity.
Qed.

(* equal calls on equal argument values return equal results wherever they occur *)
Corollary value_function_equal_calls_agree (Hvf : value_function) (s : St) (e : Env) (l : list hstep) i j ea r1 r2 :
  nth_error (hist_trace s e l) i = Some (ea, r1) ->
  nth_error (hist_trace s e l) j = Some (ea, r2) -> r1 = r2.
Proof.
  destruct ea as [e1 a1]. intros H1 H2.
  apply (value_function_every_call Hvf) in H1. apply (value_function_every_call Hvf) in H2.
  destruct H1 as [-> _], H2 as [-> _]. reflexivity.
Qed.

(* histories compose *)
Lemma run_hist_app (l1 l2 : list hstep) : forall (s : St) (e : Env),
  run_hist s e (l1 ++ l2) =
  (hist_state (hist_state s e l1) (hist_env s e l1) l2,
   hist_env (hist_state s e l1) (hist_env s e l1) l2,
   hist_trace s e l1 ++ hist_trace (hist_state s e l1) (hist_env s e l1) l2).
Proof.
  induction l1 as [|[a|m] t IH]; intros s e.
  - cbn [app]. unfold Purity.hist_state, Purity.hist_env, Purity.hist_trace. cbn [Purity.run_hist fst snd app].
    destruct (run_hist s e l2) as [[s2 e2] tr]. reflexivity.
  - cbn [app]. rewrite run_hist_call.
    unfold Purity.hist_state, Purity.hist_env, Purity.hist_trace. rewrite run_hist_call, IH. cbn [fst snd].
    unfold Purity.hist_state, Purity.hist_env, Purity.hist_trace. reflexivity.
  - cbn [app]. rewrite run_hist_mut, IH.
    unfold Purity.hist_state, Purity.hist_env, Purity.hist_trace. rewrite run_hist_mut. reflexivity.
Qed.

Lemma user_env_app (l1 l2 : list hstep) : forall e, user_env e (l1 ++ l2) = user_env (user_env e l1) l2.
Proof. induction l1 as [|[a|m] t IH]; intros e; cbn; auto. Qed.

Lemma user_calls_app (l1 l2 : list hstep) : forall e,
  user_calls e (l1 ++ l2) = user_calls e l1 ++ user_calls (user_env e l1) l2.
Proof. induction l1 as [|[a|m] t IH]; intros e; cbn; [reflexivity|rewrite IH; reflexivity|apply IH]. Qed.

(* the converse: the clean-room comparison over all histories started in a fresh process is
   COMPLETE — it leaves no hidden state reachable by any history on which a call could differ.
   (The user can put any values into the argument objects.) *)
Theorem clean_histories_give_value_function
  (Htotal : forall e e' : Env, exists m, user m e = e')
  (Hclean : forall (e : Env) (l : list hstep), history_clean s0 e l) :
  forall s, reachable lib s0 user s -> forall e a, lib_res lib s e a = cleanroom e a /\ lib_env lib s e a = e.
Proof.
  intros s (e1 & l1 & Hs) e a.
  destruct (Htotal (hist_env s0 e1 l1) e) as [m Hm].
  destruct (Hclean e1 l1) as [Ht1 He1].
  destruct (Hclean e1 (l1 ++ [HMut m; HCall a])) as [Ht He].
  unfold Purity.hist_trace, Purity.hist_env in Ht, He. rewrite run_hist_app in Ht, He. cbn [fst snd] in Ht, He.
  rewrite Hs in Ht, He.
  rewrite user_calls_app in Ht. rewrite user_env_app in He.
  unfold Purity.hist_trace in Ht at 2. unfold Purity.hist_env in He at 1.
  rewrite run_hist_mut, Hm, run_hist_call in Ht, He. cbn [fst snd] in Ht, He.
  cbn [Purity.user_calls Purity.user_env] in Ht, He.
  rewrite <- He1, Hm in Ht, He.
  rewrite map_app, Ht1 in Ht. apply app_inv_head in Ht.
  unfold Purity.hist_trace, Purity.hist_env in Ht, He. cbn [Purity.run_hist fst snd map] in Ht, He.
  injection Ht as Hr. split; [exact Hr|exact He].
Qed.
End CleanRoomProofs.

(* ---------------------------------------------------------------- refutations (vm_compute witnesses) *)
(* cache keyed by object identity: analyse, scale the array in place, analyse again *)
Definition idc_history : list (@hstep nat Z) := [HCall 3; HMut 2%Z; HCall 3].
Theorem identity_cache_refuted :
  length idc_history = 3 /\
  trace_results (hist_trace idc_lib idc_user [] (7, 5%Z) idc_history) = [8%Z; 8%Z] /\
  map (fun ea => cleanroom idc_lib [] (fst ea) (snd ea)) (user_calls idc_user (7, 5%Z) idc_history) = [8%Z; 13%Z] /\
  ~ history_clean idc_lib [] idc_user [] (7, 5%Z) idc_history /\
  ~ value_function idc_lib [].
Proof.
  assert (Hn : ~ history_clean idc_lib [] idc_user [] (7, 5%Z) idc_history).
  { intros [Ht _]. vm_compute in Ht. discriminate Ht. }
  repeat split; try (vm_compute; reflexivity); [exact Hn|].
  intros Hvf. exact (Hn (value_function_history_clean idc_lib [] idc_user Hvf _ _ _)).
Qed.

(* cache keyed by the contents but not by the setting: n_cycles 3, then 7, then 3 on the same array *)
Definition pkc_history : list (@hstep nat Z) := [HCall 3; HCall 7; HCall 3].
Theorem partial_key_cache_refuted :
  length pkc_history = 3 /\
  trace_results (hist_trace pkc_lib idc_user [] (7, 5%Z) pkc_history) = [8%Z; 8%Z; 8%Z] /\
  map (fun ea => cleanroom pkc_lib [] (fst ea) (snd ea)) (user_calls idc_user (7, 5%Z) pkc_history) = [8%Z; 12%Z; 8%Z] /\
  ~ history_clean pkc_lib [] idc_user [] (7, 5%Z) pkc_history /\
  ~ value_function pkc_lib [].
Proof.
  assert (Hn : ~ history_clean pkc_lib [] idc_user [] (7, 5%Z) pkc_history).
  { intros [Ht _]. vm_compute in Ht. discriminate Ht. }
  repeat split; try (vm_compute; reflexivity); [exact Hn|].
  intros Hvf. exact (Hn (value_function_history_clean pkc_lib [] idc_user Hvf _ _ _)).
Qed.

(* module-level flag set by a helper: the two analyses after it agree with EACH OTHER (the comparison
   of equal calls within one history is blind) and both differ from the clean-room reference *)
Definition flag_history : list (@hstep nat Z) := [HCall 0; HCall 3; HCall 3].
Theorem module_flag_refuted_only_by_cleanroom :
  length flag_history = 3 /\
  trace_results (hist_trace flag_lib idc_user false (7, 5%Z) flag_history) = [0%Z; 9%Z; 9%Z] /\
  nth_error (trace_results (hist_trace flag_lib idc_user false (7, 5%Z) flag_history)) 1 =
  nth_error (trace_results (hist_trace flag_lib idc_user false (7, 5%Z) flag_history)) 2 /\
  hist_env flag_lib idc_user false (7, 5%Z) flag_history = (7, 5%Z) /\
  map (fun ea => cleanroom flag_lib false (fst ea) (snd ea)) (user_calls idc_user (7, 5%Z) flag_history) = [0%Z; 8%Z; 8%Z] /\
  ~ history_clean flag_lib false idc_user false (7, 5%Z) flag_history /\
  ~ value_function flag_lib false.
Proof.
  assert (Hn : ~ history_clean flag_lib false idc_user false (7, 5%Z) flag_history).
  { intros [Ht _]. vm_compute in Ht. discriminate Ht. }
  repeat split; try (vm_compute; reflexivity); [exact Hn|].
  intros Hvf. exact (Hn (value_function_history_clean flag_lib false idc_user Hvf _ _ _)).
Qed.

(* ---------------------------------------------------------------- the correspondence instance *)
Lemma list_eqb_Z_refl (l : list Z) : list_eqb Z.eqb l l = true.
Proof. induction l as [|x t IH]; [reflexivity|]. cbn. rewrite Z.eqb_refl, IH. reflexivity. Qed.

Theorem ci_lib_value_function : value_function ci_lib tt.
Proof. intros [] e a. split; reflexivity. Qed.

(* the model evaluated by the correspondence check answers "equal to the clean-room result" and
   "argument objects unchanged" for every call of every history *)
Theorem run_cleanroom_all_flags_true (x : list Z * list (@hstep nat (list Z))) :
  Forall (fun r : nat * bool * bool => snd (fst r) = true /\ snd r = true) (snd (run_cleanroom x)).
Proof.
  destruct x as [e0 steps]. unfold run_cleanroom. cbn [snd].
  unfold ci_records. apply Forall_forall. intros r Hin. apply in_map_iff in Hin.
  destruct Hin as ([[e a] res] & <- & Hin). cbn [fst snd].
  apply In_nth_error in Hin. destruct Hin as [i Hi].
  apply (value_function_every_call ci_lib tt ci_user ci_lib_value_function) in Hi. destruct Hi as [-> _].
  unfold ci_res_eqb, cleanroom, lib_res, lib_env, ci_lib. cbn [fst snd].
  rewrite Nat.eqb_refl, !list_eqb_Z_refl. split; reflexivity.
Qed.

Theorem run_cleanroom_final_env (e0 : list Z) (steps : list (@hstep nat (list Z))) :
  fst (run_cleanroom (e0, steps)) = user_env ci_user e0 steps.
Proof.
  unfold run_cleanroom. cbn [fst].
  exact (proj2 (value_function_history_clean ci_lib tt ci_user ci_lib_value_function steps tt e0)).
Qed.
