(* C14 / C15 proofs.  No axioms. *)
From Coq Require Import List Bool Arith ZArith String Lia Floats.PrimFloat.
Import ListNotations.
From ByC Require Import Base.Result Model.Objects.
Local Open Scope string_scope.

(* ---------------------------------------------------------------- histories *)
Lemma step_settings o p o' : step o p = Ok o' -> o_set o' = intended (o_set o) [p].
Proof.
  destruct p; cbn [step step_gen intended]; try (intros [= <-]; reflexivity).
  destruct (o_df o); [intros [= <-]; reflexivity|discriminate].
Qed.

Lemma intended_app s l1 l2 : intended s (l1 ++ l2)%list = intended (intended s l1) l2.
Proof.
  revert s; induction l1 as [|p t IH]; intros s; [reflexivity|].
  destruct p; cbn [app intended]; apply IH.
Qed.

(* stored settings = what the user set: constructor settings with the edits applied, whatever
   fits / recomputations / loads happened in between *)
Theorem run_settings o ops o' : run o ops = Ok o' -> o_set o' = intended (o_set o) ops.
Proof.
  revert o; induction ops as [|p t IH]; intros o; cbn [run run_gen].
  - intros [= <-]. reflexivity.
  - destruct (step o p) as [o1|e] eqn:E; cbn [bind]; [|discriminate].
    intros H. apply IH in H. rewrite H. apply step_settings in E. rewrite E.
    change (p :: t) with ([p] ++ t)%list. now rewrite intended_app.
Qed.

(* a fit after ANY history yields compute_features of the current settings ... *)
Theorem fit_after_history s ops o sig o' :
  run (construct s) ops = Ok o -> step o (OFit sig) = Ok o' ->
  o_df o' = Some (TFit (intended (o_set (construct s)) ops) sig) /\ o_set o' = o_set o.
Proof.
  intros H E. apply run_settings in H. cbn [step step_gen] in E. injection E as <-.
  cbn [o_df o_set]. now rewrite H.
Qed.

(* ... which is what an object whose settings ARE the current ones yields on its first fit *)
Theorem fit_equals_fresh_object s ops o sig o' :
  run (construct s) ops = Ok o -> step o (OFit sig) = Ok o' ->
  forall fresh, o_set fresh = o_set o -> forall f', step fresh (OFit sig) = Ok f' -> o_df f' = o_df o'.
Proof.
  intros H E fresh Hs f' Ef. cbn [step step_gen] in E, Ef. injection E as <-. injection Ef as <-.
  cbn [o_df]. now rewrite Hs.
Qed.

(* recompute_edges(r): functional edge recomputation with every *_threshold lowered by r;
   the stored thresholds are not touched *)
Theorem recompute_spec o r o' : step o (ORecompute r) = Ok o' ->
  o_set o' = o_set o /\ exists t, o_df o = Some t /\ o_df o' = Some (TEdges t (reduce_thresholds (st_thr (o_set o)) r)).
Proof.
  cbn [step step_gen]. destruct (o_df o) as [t|]; [|discriminate]. intros [= <-]. split; [reflexivity|].
  exists t. split; reflexivity.
Qed.

Lemma lookup_reduce d r k :
  lookup (reduce_thresholds d r) k =
  match lookup d k with Some v => Some (if ends_with k "threshold" then (v - r)%Z else v) | None => None end.
Proof.
  induction d as [|[k' v] t IH]; [reflexivity|].
  unfold reduce_thresholds in *. cbn [map fst snd].
  destruct (ends_with k' "threshold") eqn:E; cbn [lookup]; destruct (String.eqb k k') eqn:K.
  - apply String.eqb_eq in K. subst k'. now rewrite E.
  - exact IH.
  - apply String.eqb_eq in K. subst k'. now rewrite E.
  - exact IH.
Qed.

(* the binary64 version used by the correspondence runner bad_reduce: same keys in the same order, every
   key ending in "threshold" holds exactly the binary64 difference v - r (None = 0), the rest is copied *)
Lemma flookup_reduce_f d r k :
  flookup (reduce_thresholds_f d r) k =
  match flookup d k with
  | Some v => Some (if ends_with k "threshold" then (v - match r with Some x => x | None => 0 end)%float else v)
  | None => None
  end.
Proof.
  induction d as [|[k' v] t IH]; [reflexivity|].
  unfold reduce_thresholds_f in *. cbn [map fst snd].
  destruct (ends_with k' "threshold") eqn:E; cbn [flookup]; destruct (String.eqb k k') eqn:K.
  - apply String.eqb_eq in K. subst k'. now rewrite E.
  - exact IH.
  - apply String.eqb_eq in K. subst k'. now rewrite E.
  - exact IH.
Qed.
Lemma reduce_f_keys d r : map fst (reduce_thresholds_f d r) = map fst d.
Proof.
  unfold reduce_thresholds_f. rewrite map_map. apply map_ext. intros [k v]. cbn [fst snd].
  destruct (ends_with k "threshold"); reflexivity.
Qed.

Theorem reduce_leaves_min_n_cycles d r : lookup (reduce_thresholds d r) "min_n_cycles" = lookup d "min_n_cycles".
Proof. rewrite lookup_reduce. destruct (lookup d "min_n_cycles"); reflexivity. Qed.

Theorem reduce_lowers_thresholds d r k v : ends_with k "threshold" = true -> lookup d k = Some v ->
  lookup (reduce_thresholds d r) k = Some (v - r)%Z.
Proof. intros E H. now rewrite lookup_reduce, H, E. Qed.

(* ---------------------------------------------------------------- shorthand *)
Lemma ends_with_refl s : ends_with s s = true.
Proof. destruct s as [|c t]; cbn [ends_with]; rewrite String.eqb_refl; reflexivity. Qed.

Lemma ends_with_app p s : ends_with (p ++ s) s = true.
Proof.
  induction p as [|c p IH]; [apply ends_with_refl|].
  cbn [append ends_with]. destruct (String.eqb (String c (p ++ s)) s); [reflexivity|exact IH].
Qed.

Theorem expand_key_idem k : expand_key (expand_key k) = expand_key k.
Proof.
  unfold expand_key. destruct (ends_with k "_threshold" || String.eqb k "min_n_cycles") eqn:E.
  - now rewrite E.
  - rewrite ends_with_app. reflexivity.
Qed.

Theorem expand_key_shorthand :
  expand_key "monotonicity" = "monotonicity_threshold" /\
  expand_key "amp_fraction" = "amp_fraction_threshold" /\
  expand_key "amp_consistency" = "amp_consistency_threshold" /\
  expand_key "period_consistency" = "period_consistency_threshold" /\
  expand_key "burst_fraction" = "burst_fraction_threshold" /\
  expand_key "min_n_cycles" = "min_n_cycles" /\
  expand_key "monotonicity_threshold" = "monotonicity_threshold".
Proof. repeat split; reflexivity. Qed.

(* a dictionary whose keys are all in long form is left alone by the constructor *)
Lemma expand_fold_fixed (l acc : dict) :
  (forall k v, In (k, v) l -> expand_key k = k) ->
  fold_left (fun acc kv => let k := fst kv in
                           if String.eqb (expand_key k) k then acc
                           else match lookup acc k with
                                | Some v => set (remove acc k) (expand_key k) v
                                | None => acc
                                end) l acc = acc.
Proof.
  revert acc; induction l as [|[k v] t IH]; intros acc H; [reflexivity|].
  cbn [fold_left fst]. rewrite (H k v (or_introl eq_refl)), String.eqb_refl.
  apply IH. intros k' v' Hin. apply (H k' v'). now right.
Qed.

Theorem expand_thresholds_fixed d : (forall k v, In (k, v) d -> expand_key k = k) -> expand_thresholds d = d.
Proof. apply expand_fold_fixed. Qed.

(* ---------------------------------------------------------------- legacy *)
(* with compute_features writing into its arguments, a later edit of min_n_cycles is lost:
   history [fit; thresholds['min_n_cycles'] = 6; fit], amplitude method *)
Definition legacy_settings : settings :=
  {| st_center := true; st_amp := true; st_bk := []; st_thr := [("burst_fraction_threshold", 1000%Z); ("min_n_cycles", 3%Z)];
     st_fek := 0%Z; st_rs := true |}.
Definition legacy_history : list op := [OFit 1; OEditThr "min_n_cycles" 6; OFit 1].

Theorem legacy_stale_state_refuted :
  exists o o', run_legacy (construct legacy_settings) legacy_history = Ok o /\
               run (construct legacy_settings) legacy_history = Ok o' /\
               lookup (st_bk (o_set o)) "min_n_cycles" = Some 3%Z /\      (* stale count left in the burst options *)
               lookup (st_thr (o_set o)) "min_n_cycles" = Some 3%Z /\     (* the user's edit (6) was overwritten *)
               lookup (st_thr (o_set o')) "min_n_cycles" = Some 6%Z /\
               lookup (st_bk (o_set o')) "min_n_cycles" = None.
Proof. eexists. eexists. repeat split; vm_compute; reflexivity. Qed.

(* ---------------------------------------------------------------- constructor defaults *)
Theorem default_thr_values :
  lookup (default_thr false) "amp_fraction_threshold" = Some 0%Z /\
  lookup (default_thr false) "amp_consistency_threshold" = Some 500%Z /\
  lookup (default_thr false) "period_consistency_threshold" = Some 500%Z /\
  lookup (default_thr false) "monotonicity_threshold" = Some 800%Z /\
  lookup (default_thr false) "min_n_cycles" = Some 3%Z /\
  lookup (default_thr true) "burst_fraction_threshold" = Some 1000%Z /\
  lookup (default_thr true) "min_n_cycles" = Some 3%Z.
Proof. repeat split; reflexivity. Qed.

Lemma expand_default_thr amp : expand_thresholds (default_thr amp) = default_thr amp.
Proof. destruct amp; vm_compute; reflexivity. Qed.

(* thresholds=None: the stored thresholds are the documented defaults of the method *)
Theorem construct_default_thresholds a : ca_thr a = None ->
  st_thr (o_set (construct_args a)) = default_thr (match ca_amp a with Some b => b | None => false end).
Proof.
  intros Hnone. unfold construct_args, construct, settings_of_args. cbn [o_set st_thr].
  rewrite Hnone. apply expand_default_thr.
Qed.

(* thresholds given: exactly the caller's dictionary with shorthand names expanded; nothing is filled in *)
Theorem construct_given_thresholds a d : ca_thr a = Some d ->
  st_thr (o_set (construct_args a)) = expand_thresholds d.
Proof.
  intros Hd. unfold construct_args, construct, settings_of_args. cbn [o_set st_thr]. now rewrite Hd.
Qed.

(* Bycycle() with no argument at all *)
Theorem construct_no_args :
  construct_args no_args =
  {| o_set := {| st_center := true; st_amp := false; st_bk := []; st_thr := default_thr false; st_fek := 0%Z; st_rs := true |};
     o_sig := None; o_df := None |}.
Proof. vm_compute. reflexivity. Qed.

(* every other argument: the given value, else the documented default *)
Theorem construct_other_settings a :
  let s := o_set (construct_args a) in
  st_center s = match ca_center a with Some c => c | None => true end /\
  st_amp s = match ca_amp a with Some b => b | None => false end /\
  st_bk s = match ca_bk a with Some d => d | None => [] end /\
  st_fek s = match ca_fek a with Some f => f | None => 0%Z end /\
  st_rs s = match ca_rs a with Some r => r | None => true end.
Proof. repeat split; reflexivity. Qed.

(* ---------------------------------------------------------------- groups *)
Lemma mapM_recompute r : forall ms ms',
  mapM (fun m => step m (ORecompute r)) ms = Ok ms' ->
  map o_sig ms' = map o_sig ms /\ map o_set ms' = map o_set ms /\
  map o_df ms' = map Some (some_tables ms') /\
  forall ts, map o_df ms = map Some ts ->
    some_tables ms' = map (fun mt => TEdges (snd mt) (reduce_thresholds (st_thr (o_set (fst mt))) r)) (combine ms ts).
Proof.
  induction ms as [|m t IH]; intros ms' Hm; cbn [mapM] in Hm.
  - injection Hm as <-. split; [reflexivity|]. split; [reflexivity|]. split; [reflexivity|].
    intros [|x ts] Hts; [reflexivity|discriminate Hts].
  - destruct (step m (ORecompute r)) as [m1|e] eqn:E1; cbn [bind] in Hm; [|discriminate Hm].
    destruct (mapM (fun m0 => step m0 (ORecompute r)) t) as [t1|e] eqn:E2; cbn [bind] in Hm; [|discriminate Hm].
    injection Hm as <-. destruct (IH t1 eq_refl) as (Hs & Hset & Hdf & Hts).
    cbn [step step_gen] in E1. destruct (o_df m) as [tb|] eqn:Edf; [|discriminate E1]. injection E1 as <-.
    cbn [map o_sig o_set o_df some_tables flat_map app]. fold (some_tables t1).
    rewrite Hs, Hset, Hdf. repeat split.
    intros [|x ts] Hx; [discriminate Hx|]. cbn [map] in Hx. injection Hx as Hx1 Hx2.
    rewrite Edf in Hx1. injection Hx1 as <-. cbn [combine map fst snd]. now rewrite (Hts ts Hx2).
Qed.

(* one group operation preserves the mirror property *)
Theorem group_mirror_step g p g' : mirror g -> gstep g p = Ok g' -> mirror g'.
Proof.
  intros (Hdf & Hsig) Hp. destruct p as [arr sh|k v|k v|r|d|d|c|a|f|b]; cbn [gstep gstep_gen] in Hp.
  - injection Hp as <-. unfold mirror. cbn [g_models g_dfs g_sigs]. rewrite !map_map. split; reflexivity.
  - injection Hp as <-. unfold mirror. cbn [g_models g_dfs g_sigs]. destruct (g_shthr g); [|split; assumption].
    rewrite !map_map. split; [rewrite <- Hdf|rewrite <- Hsig]; apply map_ext; intros m; reflexivity.
  - injection Hp as <-. unfold mirror. cbn [g_models g_dfs g_sigs]. destruct (g_shbk g); [|split; assumption].
    rewrite !map_map. split; [rewrite <- Hdf|rewrite <- Hsig]; apply map_ext; intros m; reflexivity.
  - destruct (g_models g) as [|m0 ms0] eqn:Em; [discriminate Hp|]. rewrite <- Em in Hp.
    destruct (mapM (fun m => step m (ORecompute r)) (g_models g)) as [ms|e] eqn:E; cbn [bind] in Hp; [|discriminate Hp].
    injection Hp as <-. destruct (mapM_recompute r _ _ E) as (Hs & _ & Hd & _).
    unfold mirror. cbn [g_models g_dfs g_sigs]. split; [exact Hd|]. rewrite Hs, Em. exact Hsig.
  - injection Hp as <-. split; assumption.
  - injection Hp as <-. split; assumption.
  - injection Hp as <-. split; assumption.
  - injection Hp as <-. split; assumption.
  - injection Hp as <-. split; assumption.
  - injection Hp as <-. split; assumption.
Qed.

Lemma grun_app st g l1 l2 : grun_gen st g (l1 ++ l2)%list = (do g1 <- grun_gen st g l1; grun_gen st g1 l2).
Proof.
  revert g; induction l1 as [|p t IH]; intros g; [reflexivity|].
  cbn [app grun_gen]. destruct (st g p) as [g1|e]; cbn [bind]; [apply IH|reflexivity].
Qed.

Theorem group_mirror_run g ops g' : mirror g -> grun g ops = Ok g' -> mirror g'.
Proof.
  revert g; induction ops as [|p t IH]; intros g Hm Hr; cbn [grun grun_gen] in Hr.
  - injection Hr as <-. exact Hm.
  - destruct (gstep g p) as [g1|e] eqn:E; cbn [bind] in Hr; [|discriminate Hr].
    exact (IH g1 (group_mirror_step _ _ _ Hm E) Hr).
Qed.

(* after ANY history of group operations (attribute assignments included) the models mirror df_features and sigs *)
Theorem group_mirror a ops g : grun (construct_group a) ops = Ok g -> mirror g.
Proof. apply group_mirror_run. split; reflexivity. Qed.

(* what the mirror property says position by position *)
Theorem mirror_pointwise g : mirror g ->
  List.length (g_models g) = List.length (g_dfs g) /\ List.length (g_models g) = List.length (g_sigs g) /\
  forall i m, nth_error (g_models g) i = Some m ->
    exists t sg, nth_error (g_dfs g) i = Some t /\ o_df m = Some t /\
                 nth_error (g_sigs g) i = Some sg /\ o_sig m = Some sg.
Proof.
  intros (Hdf & Hsig). split; [|split].
  - apply (f_equal (@List.length _)) in Hdf. now rewrite !map_length in Hdf.
  - apply (f_equal (@List.length _)) in Hsig. now rewrite !map_length in Hsig.
  - intros i m Hi.
    assert (H1 : nth_error (map o_df (g_models g)) i = Some (o_df m)) by now rewrite nth_error_map, Hi.
    assert (H2 : nth_error (map o_sig (g_models g)) i = Some (o_sig m)) by now rewrite nth_error_map, Hi.
    rewrite Hdf, nth_error_map in H1. rewrite Hsig, nth_error_map in H2.
    destruct (nth_error (g_dfs g) i) as [t|]; [|discriminate H1].
    destruct (nth_error (g_sigs g) i) as [sg|]; [|discriminate H2].
    cbn [option_map] in H1, H2. injection H1 as H1. injection H2 as H2.
    exists t, sg. repeat split; congruence.
Qed.

(* stored settings of the group = constructor settings with the item edits AND attribute assignments applied *)
Lemma group_set_step g p g' : gstep g p = Ok g' -> g_set g' = gintended (g_set g) [p].
Proof.
  intros Hp. destruct p as [arr sh|k v|k v|r|d|d|c|a|f|b]; cbn [gstep gstep_gen] in Hp;
    try (injection Hp as <-; reflexivity).
  destruct (g_models g) as [|m0 ms0]; [discriminate Hp|].
  destruct (mapM (fun m => step m (ORecompute r)) (m0 :: ms0)) as [ms|e]; cbn [bind] in Hp; [|discriminate Hp].
  injection Hp as <-. reflexivity.
Qed.

Lemma gintended_app s l1 l2 : gintended s (l1 ++ l2)%list = gintended (gintended s l1) l2.
Proof.
  revert s; induction l1 as [|p t IH]; intros s; [reflexivity|].
  destruct p; cbn [app gintended]; apply IH.
Qed.

Theorem group_settings_run g ops g' : grun g ops = Ok g' -> g_set g' = gintended (g_set g) ops.
Proof.
  revert g; induction ops as [|p t IH]; intros g Hr; cbn [grun grun_gen] in Hr.
  - injection Hr as <-. reflexivity.
  - destruct (gstep g p) as [g1|e] eqn:E; cbn [bind] in Hr; [|discriminate Hr].
    rewrite (IH g1 Hr), (group_set_step _ _ _ E). change (p :: t) with ([p] ++ t)%list. now rewrite gintended_app.
Qed.

Theorem group_settings a ops g : grun (construct_group a) ops = Ok g ->
  g_set g = gintended (g_set (construct_group a)) ops.
Proof. apply group_settings_run. Qed.

(* every model holds the group's settings - and shares its dictionaries - from a fit until the user assigns
   a new value to a settings attribute of the group (the models are rebuilt by the next fit only) *)
Definition models_current (g : group) : Prop := Forall (fun m => o_set m = g_set g) (g_models g).
Definition synced (g : group) : Prop := g_shthr g = true /\ g_shbk g = true /\ models_current g.

Lemma group_synced_step g p g' : synced g -> no_assignment p = true -> gstep g p = Ok g' -> synced g'.
Proof.
  unfold synced, models_current. intros (Ht & Hb & Hc) Hna Hp.
  destruct p as [arr sh|k v|k v|r|d|d|c|a|f|b]; try discriminate Hna; cbn [gstep gstep_gen] in Hp.
  - injection Hp as <-. cbn [g_set g_models g_shthr g_shbk]. split; [reflexivity|]. split; [reflexivity|].
    apply Forall_forall. intros m Hin. apply in_map_iff in Hin as (q & <- & _). reflexivity.
  - injection Hp as <-. cbn [g_set g_models g_shthr g_shbk]. split; [exact Ht|]. split; [exact Hb|].
    rewrite Ht. apply Forall_forall. intros m Hin. apply in_map_iff in Hin as (q & <- & Hq).
    rewrite Forall_forall in Hc. unfold edit_model_thr, set_settings. cbn [o_set]. now rewrite (Hc q Hq).
  - injection Hp as <-. cbn [g_set g_models g_shthr g_shbk]. split; [exact Ht|]. split; [exact Hb|].
    rewrite Hb. apply Forall_forall. intros m Hin. apply in_map_iff in Hin as (q & <- & Hq).
    rewrite Forall_forall in Hc. unfold edit_model_bk, set_settings. cbn [o_set]. now rewrite (Hc q Hq).
  - destruct (g_models g) as [|m0 ms0] eqn:Em; [discriminate Hp|]. rewrite <- Em in Hp, Hc.
    destruct (mapM (fun m => step m (ORecompute r)) (g_models g)) as [ms|e] eqn:E; cbn [bind] in Hp; [|discriminate Hp].
    injection Hp as <-. destruct (mapM_recompute r _ _ E) as (_ & Hset & _ & _).
    cbn [g_set g_models g_shthr g_shbk]. split; [exact Ht|]. split; [exact Hb|].
    apply Forall_forall. intros m Hin.
    assert (Hin' : In (o_set m) (map o_set ms)) by (apply in_map; exact Hin).
    rewrite Hset in Hin'. apply in_map_iff in Hin' as (m' & <- & Hm'). rewrite Forall_forall in Hc. now apply Hc.
Qed.

Theorem group_synced_run g ops g' : synced g -> forallb no_assignment ops = true -> grun g ops = Ok g' -> synced g'.
Proof.
  revert g; induction ops as [|p t IH]; intros g Hs Hna Hr; cbn [grun grun_gen] in Hr.
  - injection Hr as <-. exact Hs.
  - cbn [forallb] in Hna. apply andb_prop in Hna as (Hp & Ht).
    destruct (gstep g p) as [g1|e] eqn:E; cbn [bind] in Hr; [|discriminate Hr].
    exact (IH g1 (group_synced_step _ _ _ Hs Hp E) Ht Hr).
Qed.

(* after ANY history, a fit followed by operations that assign no settings attribute (item edits, edge
   recomputations, further fits): every model holds the group's current settings *)
Theorem group_models_current_since_fit a ops arr sh rest g :
  grun (construct_group a) (ops ++ GFit arr sh :: rest) = Ok g -> forallb no_assignment rest = true ->
  models_current g.
Proof.
  intros Hr Hna. unfold grun in Hr. rewrite grun_app in Hr.
  destruct (grun_gen gstep (construct_group a) ops) as [g1|e]; cbn [bind] in Hr; [|discriminate Hr].
  cbn [grun_gen] in Hr. destruct (gstep g1 (GFit arr sh)) as [g2|e] eqn:E; cbn [bind] in Hr; [|discriminate Hr].
  assert (Hs : synced g2).
  { cbn [gstep gstep_gen] in E. injection E as <-. unfold synced, models_current. cbn [g_set g_models g_shthr g_shbk].
    split; [reflexivity|]. split; [reflexivity|].
    apply Forall_forall. intros m Hin. apply in_map_iff in Hin as (q & <- & _). reflexivity. }
  exact (proj2 (proj2 (group_synced_run g2 rest g Hs Hna Hr))).
Qed.

(* the restriction is needed: an attribute assignment changes the group's setting only; the models of the
   last fit keep theirs until the next fit *)
Theorem group_assignment_leaves_models_behind :
  exists g, grun (construct_group no_args) [GFit 1 (G2Rows 2); GSetCenter false] = Ok g /\ ~ models_current g /\ mirror g.
Proof.
  eexists. split; [vm_compute; reflexivity|]. split.
  - intros Hc. inversion Hc as [|m l Hm Hl]. discriminate Hm.
  - split; reflexivity.
Qed.

(* a group fit after ANY history (assignments included): one model per position, each with the table of the
   CURRENT settings for its position and its own signal; nothing of an earlier fit (other shape, other
   settings) survives *)
Theorem group_fit_after_history a ops g arr sh g' :
  grun (construct_group a) ops = Ok g -> gstep g (GFit arr sh) = Ok g' ->
  let s := gintended (g_set (construct_group a)) ops in
  g_set g' = s /\
  g_sigs g' = map (cell_id arr) (seq 0 (npos sh)) /\
  g_dfs g' = map (table_at s arr sh) (seq 0 (npos sh)) /\
  g_models g' = map (fun p => load_model s (cell_id arr p) (table_at s arr sh p)) (seq 0 (npos sh)).
Proof.
  intros Hr Hf. apply group_settings in Hr as Hs. cbn [gstep gstep_gen] in Hf. injection Hf as <-.
  cbn [g_set g_sigs g_dfs g_models]. rewrite Hs. repeat split.
Qed.

(* group recompute_edges(r): every table becomes the functional edge recomputation of the table at
   its position with the group's thresholds lowered by r — in df_features AND in the models *)
Theorem group_recompute g r g' : mirror g -> models_current g -> gstep g (GRecompute r) = Ok g' ->
  g_dfs g' = map (fun t => TEdges t (reduce_thresholds (st_thr (g_set g)) r)) (g_dfs g) /\
  map o_df (g_models g') = map Some (g_dfs g') /\ g_sigs g' = g_sigs g /\ g_set g' = g_set g.
Proof.
  intros (Hdf & Hsig) Hc Hp. cbn [gstep gstep_gen] in Hp.
  destruct (g_models g) as [|m0 ms0] eqn:Em; [discriminate Hp|]. rewrite <- Em in Hp, Hdf. clear Em.
  destruct (mapM (fun m => step m (ORecompute r)) (g_models g)) as [ms|e] eqn:E; cbn [bind] in Hp; [|discriminate Hp].
  injection Hp as <-. destruct (mapM_recompute r _ _ E) as (_ & _ & Hd & Hts).
  cbn [g_dfs g_models g_sigs g_set]. split; [|split; [exact Hd|split; reflexivity]].
  rewrite (Hts _ Hdf). unfold models_current in Hc. revert Hc Hdf. generalize (g_dfs g) as ts. generalize (g_models g) as l.
  induction l as [|m l IH]; intros [|t ts] Hc Hdf; try discriminate Hdf; [reflexivity|].
  cbn [combine map fst snd]. inversion Hc as [|? ? Hm Hl]; subst. cbn [map] in Hdf. injection Hdf as _ Hdf.
  rewrite Hm. f_equal. exact (IH ts Hl Hdf).
Qed.

(* Legacy (before the repair): recompute_edges updated the models only; two operations suffice to
   leave the group's df_features stale *)
Definition legacy_group_history : list gop := [GFit 1 (G2Rows 2); GRecompute 100].
Theorem group_legacy_refuted :
  exists g g', grun_legacy (construct_group no_args) legacy_group_history = Ok g /\ ~ mirror g /\
               grun (construct_group no_args) legacy_group_history = Ok g' /\ mirror g'.
Proof.
  eexists. eexists. split; [vm_compute; reflexivity|]. split; [|split; [vm_compute; reflexivity|]].
  - intros (Hdf & _). vm_compute in Hdf. discriminate Hdf.
  - split; vm_compute; reflexivity.
Qed.

(* ---------------------------------------------------------------- purity (C15) *)
Section PurityProofs.
Context {Env Arg Res : Type}.
Variable call : Env -> Arg -> Res.

Theorem run_calls_pure (e : Env) (l : list Arg) : run_calls call e l = (e, map (call e) l).
Proof.
  induction l as [|a t IH]; [reflexivity|].
  cbn [run_calls pure_step]. rewrite IH. reflexivity.
Qed.

(* equal calls return equal results wherever they occur in a history *)
Theorem repeated_calls_agree (e : Env) (l : list Arg) i j a :
  nth_error l i = Some a -> nth_error l j = Some a ->
  nth_error (snd (run_calls call e l)) i = nth_error (snd (run_calls call e l)) j.
Proof.
  intros Hi Hj. rewrite run_calls_pure. cbn [snd].
  rewrite !nth_error_map, Hi, Hj. reflexivity.
Qed.
End PurityProofs.

Example history_example :
  rmap (fun o => lookup (st_thr (o_set o)) "monotonicity_threshold")
       (run (construct {| st_center := true; st_amp := false; st_bk := []; st_thr := [("monotonicity", 800%Z); ("min_n_cycles", 3%Z)];
                          st_fek := 0%Z; st_rs := true |})
            [OFit 1; ORecompute 100; OEditThr "monotonicity_threshold" 500; OFit 2]) = Ok (Some 500%Z).
Proof. vm_compute. reflexivity. Qed.
