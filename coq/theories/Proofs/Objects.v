(* C14 / C15 proofs.  No axioms. *)
From Coq Require Import List Bool Arith ZArith String Lia.
Import ListNotations.
From ByC Require Import Base.Result Model.Objects.
Local Open Scope string_scope.

(* ---------------------------------------------------------------- histories *)
Lemma step_settings o p o' : step o p = Ok o' -> o_set o' = intended (o_set o) [p].
Proof.
  destruct p; cbn [step step_gen intended]; try (intros [= <-]; reflexivity).
  destruct (o_df o); [intros [= <-]; reflexivity|discriminate].
Qed.

Lemma intended_app s l1 l2 : intended s (l1 ++ l2)%list = intended (intended s l1) l2.
Proof.
  revert s; induction l1 as [|p t IH]; intros s; [reflexivity|].
  destruct p; cbn [app intended]; apply IH.
Qed.

(* stored settings = what the user set: constructor settings with the edits applied, whatever
   fits / recomputations / loads happened in between *)
Theorem run_settings o ops o' : run o ops = Ok o' -> o_set o' = intended (o_set o) ops.
Proof.
  revert o; induction ops as [|p t IH]; intros o; cbn [run run_gen].
  - intros [= <-]. reflexivity.
  - destruct (step o p) as [o1|e] eqn:E; cbn [bind]; [|discriminate].
    intros H. apply IH in H. rewrite H. apply step_settings in E. rewrite E.
    change (p :: t) with ([p] ++ t)%list. now rewrite intended_app.
Qed.

(* a fit after ANY history yields compute_features of the current settings ... *)
Theorem fit_after_history s ops o sig o' :
  run (construct s) ops = Ok o -> step o (OFit sig) = Ok o' ->
  o_df o' = Some (TFit (intended (o_set (construct s)) ops) sig) /\ o_set o' = o_set o.
Proof.
  intros H E. apply run_settings in H. cbn [step step_gen] in E. injection E as <-.
  cbn [o_df o_set]. now rewrite H.
Qed.

(* ... which is what an object whose settings ARE the current ones yields on its first fit *)
Theorem fit_equals_fresh_object s ops o sig o' :
  run (construct s) ops = Ok o -> step o (OFit sig) = Ok o' ->
  forall fresh, o_set fresh = o_set o -> forall f', step fresh (OFit sig) = Ok f' -> o_df f' = o_df o'.
Proof.
  intros H E fresh Hs f' Ef. cbn [step step_gen] in E, Ef. injection E as <-. injection Ef as <-.
  cbn [o_df]. now rewrite Hs.
Qed.

(* recompute_edges(r): functional edge recomputation with every *_threshold lowered by r;
   the stored thresholds are not touched *)
Theorem recompute_spec o r o' : step o (ORecompute r) = Ok o' ->
  o_set o' = o_set o /\ exists t, o_df o = Some t /\ o_df o' = Some (TEdges t (reduce_thresholds (st_thr (o_set o)) r)).
Proof.
  cbn [step step_gen]. destruct (o_df o) as [t|]; [|discriminate]. intros [= <-]. split; [reflexivity|].
  exists t. split; reflexivity.
Qed.

Lemma lookup_reduce d r k :
  lookup (reduce_thresholds d r) k =
  match lookup d k with Some v => Some (if ends_with k "threshold" then (v - r)%Z else v) | None => None end.
Proof.
  induction d as [|[k' v] t IH]; [reflexivity|].
  unfold reduce_thresholds in *. cbn [map fst snd].
  destruct (ends_with k' "threshold") eqn:E; cbn [lookup]; destruct (String.eqb k k') eqn:K.
  - apply String.eqb_eq in K. subst k'. now rewrite E.
  - exact IH.
  - apply String.eqb_eq in K. subst k'. now rewrite E.
  - exact IH.
Qed.

Theorem reduce_leaves_min_n_cycles d r : lookup (reduce_thresholds d r) "min_n_cycles" = lookup d "min_n_cycles".
Proof. rewrite lookup_reduce. destruct (lookup d "min_n_cycles"); reflexivity. Qed.

Theorem reduce_lowers_thresholds d r k v : ends_with k "threshold" = true -> lookup d k = Some v ->
  lookup (reduce_thresholds d r) k = Some (v - r)%Z.
Proof. intros E H. now rewrite lookup_reduce, H, E. Qed.

(* ---------------------------------------------------------------- shorthand *)
Lemma ends_with_refl s : ends_with s s = true.
Proof. destruct s as [|c t]; cbn [ends_with]; rewrite String.eqb_refl; reflexivity. Qed.

Lemma ends_with_app p s : ends_with (p ++ s) s = true.
Proof.
  induction p as [|c p IH]; [apply ends_with_refl|].
  cbn [append ends_with]. destruct (String.eqb (String c (p ++ s)) s); [reflexivity|exact IH].
Qed.

Theorem expand_key_idem k : expand_key (expand_key k) = expand_key k.
Proof.
  unfold expand_key. destruct (ends_with k "_threshold" || String.eqb k "min_n_cycles") eqn:E.
  - now rewrite E.
  - rewrite ends_with_app. reflexivity.
Qed.

Theorem expand_key_shorthand :
  expand_key "monotonicity" = "monotonicity_threshold" /\
  expand_key "amp_fraction" = "amp_fraction_threshold" /\
  expand_key "amp_consistency" = "amp_consistency_threshold" /\
  expand_key "period_consistency" = "period_consistency_threshold" /\
  expand_key "burst_fraction" = "burst_fraction_threshold" /\
  expand_key "min_n_cycles" = "min_n_cycles" /\
  expand_key "monotonicity_threshold" = "monotonicity_threshold".
Proof. repeat split; reflexivity. Qed.

(* a dictionary whose keys are all in long form is left alone by the constructor *)
Lemma expand_fold_fixed (l acc : dict) :
  (forall k v, In (k, v) l -> expand_key k = k) ->
  fold_left (fun acc kv => let k := fst kv in
                           if String.eqb (expand_key k) k then acc
                           else match lookup acc k with
                                | Some v => set (remove acc k) (expand_key k) v
                                | None => acc
                                end) l acc = acc.
Proof.
  revert acc; induction l as [|[k v] t IH]; intros acc H; [reflexivity|].
  cbn [fold_left fst]. rewrite (H k v (or_introl eq_refl)), String.eqb_refl.
  apply IH. intros k' v' Hin. apply (H k' v'). now right.
Qed.

Theorem expand_thresholds_fixed d : (forall k v, In (k, v) d -> expand_key k = k) -> expand_thresholds d = d.
Proof. apply expand_fold_fixed. Qed.

(* ---------------------------------------------------------------- legacy *)
(* with compute_features writing into its arguments, a later edit of min_n_cycles is lost:
   history [fit; thresholds['min_n_cycles'] = 6; fit], amplitude method *)
Definition legacy_settings : settings :=
  {| st_center := true; st_amp := true; st_bk := []; st_thr := [("burst_fraction_threshold", 1000%Z); ("min_n_cycles", 3%Z)];
     st_fek := 0%Z; st_rs := true |}.
Definition legacy_history : list op := [OFit 1; OEditThr "min_n_cycles" 6; OFit 1].

Theorem legacy_stale_state_refuted :
  exists o o', run_legacy (construct legacy_settings) legacy_history = Ok o /\
               run (construct legacy_settings) legacy_history = Ok o' /\
               lookup (st_bk (o_set o)) "min_n_cycles" = Some 3%Z /\      (* stale count left in the burst options *)
               lookup (st_thr (o_set o)) "min_n_cycles" = Some 3%Z /\     (* the user's edit (6) was overwritten *)
               lookup (st_thr (o_set o')) "min_n_cycles" = Some 6%Z /\
               lookup (st_bk (o_set o')) "min_n_cycles" = None.
Proof. eexists. eexists. repeat split; vm_compute; reflexivity. Qed.

(* ---------------------------------------------------------------- purity (C15) *)
Section PurityProofs.
Context {Env Arg Res : Type}.
Variable call : Env -> Arg -> Res.

Theorem run_calls_pure (e : Env) (l : list Arg) : run_calls call e l = (e, map (call e) l).
Proof.
  induction l as [|a t IH]; [reflexivity|].
  cbn [run_calls pure_step]. rewrite IH. reflexivity.
Qed.

(* equal calls return equal results wherever they occur in a history *)
Theorem repeated_calls_agree (e : Env) (l : list Arg) i j a :
  nth_error l i = Some a -> nth_error l j = Some a ->
  nth_error (snd (run_calls call e l)) i = nth_error (snd (run_calls call e l)) j.
Proof.
  intros Hi Hj. rewrite run_calls_pure. cbn [snd].
  rewrite !nth_error_map, Hi, Hj. reflexivity.
Qed.
End PurityProofs.

Example history_example :
  rmap (fun o => lookup (st_thr (o_set o)) "monotonicity_threshold")
       (run (construct {| st_center := true; st_amp := false; st_bk := []; st_thr := [("monotonicity", 800%Z); ("min_n_cycles", 3%Z)];
                          st_fek := 0%Z; st_rs := true |})
            [OFit 1; ORecompute 100; OEditThr "monotonicity_threshold" 500; OFit 2]) = Ok (Some 500%Z).
Proof. vm_compute. reflexivity. Qed.
