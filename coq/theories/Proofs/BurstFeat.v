(* Proofs about the burst-feature model (Model/BurstFeat.v): amp_fraction, amp_consistency,
   period_consistency, monotonicity, burst_fraction.  Float facts come from Base/FloatFacts.v
   (Flocq 4.1 bridge).  After the imports bare [float] is Flocq's: we write PrimFloat.float. *)
From Coq Require Import List Bool Arith ZArith Lia Reals Lra.
From Coq Require Import Floats.SpecFloat Floats.PrimFloat Floats.FloatAxioms Floats.FloatOps.
From Flocq Require Import Core.Core IEEE754.BinarySingleNaN IEEE754.PrimFloat.
Import ListNotations.
From ByC Require Import Base.Result Base.ListAux Base.FloatBase Base.FloatFacts
  Harness.Compare Model.Cycles Model.BurstFeat.

#[local] Instance Hprec53 : FLX.Prec_gt_0 53 := eq_refl _.
#[local] Instance Hmax1024 : Prec_lt_emax 53 1024 := eq_refl _.
#[local] Instance Vexp : Generic_fmt.Valid_exp (SpecFloat.fexp 53 1024) := fexp_correct 53 1024 Hprec53.

Local Open Scope nat_scope.

Lemma Z2F_same z : FloatBase.Z2F z = FloatFacts.Z2F z.
Proof. reflexivity. Qed.

(* ------------------------------------------------------------------ *)
(* B1: ends_nan, lengths, NaN ends                                      *)

Lemma nth_map_seq {A} (g : nat -> A) n c d : c < n -> nth c (map g (seq 0 n)) d = g c.
Proof.
  intros Hc.
  rewrite (nth_indep _ d (g 0)) by (rewrite map_length, seq_length; exact Hc).
  rewrite map_nth. rewrite seq_nth by exact Hc. reflexivity.
Qed.

Lemma ends_nan_ok n f : n <> 0 ->
  ends_nan n f = Ok (map (fun c => if Nat.eqb c 0 || Nat.eqb c (n - 1) then fnan else f c) (seq 0 n)).
Proof. intros Hn. destruct n as [|m]; [contradiction|reflexivity]. Qed.

Lemma ends_nan_spec n f l : ends_nan n f = Ok l ->
  length l = n /\
  (forall c, c < n -> nth c l 0%float = if Nat.eqb c 0 || Nat.eqb c (n - 1) then fnan else f c).
Proof.
  intros H. destruct (Nat.eq_dec n 0) as [E|E]; [subst n; discriminate H|].
  rewrite (ends_nan_ok n f E) in H.
  assert (El : l = map (fun c => if Nat.eqb c 0 || Nat.eqb c (n - 1) then fnan else f c) (seq 0 n))
    by congruence.
  subst l. split.
  - rewrite map_length, seq_length. reflexivity.
  - intros c Hc. rewrite nth_map_seq by exact Hc. reflexivity.
Qed.

Lemma ends_nan_err n f : ends_nan n f = Err EIndex <-> n = 0.
Proof.
  split; intros H.
  - destruct n as [|m]; [reflexivity|discriminate H].
  - subst n. reflexivity.
Qed.

(* ends_nan never fails in any other way *)
Lemma ends_nan_total n f : n <> 0 -> exists l, ends_nan n f = Ok l.
Proof.
  intros Hn. destruct n as [|m]; [contradiction|]. eexists. reflexivity.
Qed.

Lemma isnan_fnan : isnan fnan = true.
Proof. reflexivity. Qed.

Lemma clamp0_fnan : clamp0 fnan = fnan.
Proof. unfold clamp0, fnan. rewrite ltb_nan_l. reflexivity. Qed.

Lemma clamp0_nonneg x : (x <? 0)%float = false -> clamp0 x = x.
Proof. intros H. unfold clamp0. rewrite H. reflexivity. Qed.
Lemma clamp0_neg x : (x <? 0)%float = true -> clamp0 x = 0%float.
Proof. intros H. unfold clamp0. rewrite H. reflexivity. Qed.

(* clamp0 is NaN exactly on NaN *)
Lemma isnan_is_nan x : isnan x = PrimFloat.is_nan x.
Proof. reflexivity. Qed.

Lemma clamp0_isnan x : isnan (clamp0 x) = isnan x.
Proof.
  unfold clamp0. destruct (x <? 0)%float eqn:E; [|reflexivity].
  destruct (isnan x) eqn:N; [|reflexivity].
  rewrite isnan_is_nan in N. rewrite (ltb_isnan_l x 0%float N) in E. discriminate E.
Qed.

Lemma amp_consistency_spec peak d rises decays l :
  amp_consistency peak d rises decays = Ok l ->
  length l = length rises /\
  (forall c, c < length rises ->
     nth c l 0%float = if Nat.eqb c 0 || Nat.eqb c (length rises - 1) then fnan
                       else clamp0 (amp_cons_at peak d rises decays c)).
Proof.
  unfold amp_consistency. intros H.
  destruct (ends_nan (length rises) (amp_cons_at peak d rises decays)) as [l0|e] eqn:E;
    [|discriminate H].
  cbn [rmap] in H. injection H as <-.
  destruct (ends_nan_spec _ _ _ E) as (Hlen & Hnth).
  split.
  - rewrite map_length. exact Hlen.
  - intros c Hc.
    rewrite (nth_indep _ 0%float (clamp0 0%float)) by (rewrite map_length, Hlen; exact Hc).
    rewrite map_nth, (Hnth c Hc).
    destruct (Nat.eqb c 0 || Nat.eqb c (length rises - 1)); [apply clamp0_fnan|reflexivity].
Qed.

Lemma amp_consistency_length peak d rises decays l :
  amp_consistency peak d rises decays = Ok l -> length l = length rises.
Proof. intros H. apply (amp_consistency_spec _ _ _ _ _ H). Qed.

Lemma amp_consistency_err peak d rises decays :
  amp_consistency peak d rises decays = Err EIndex <-> rises = [].
Proof.
  unfold amp_consistency. split; intros H.
  - destruct rises as [|x t]; [reflexivity|]. discriminate H.
  - subst rises. reflexivity.
Qed.

Lemma amp_consistency_ends_nan peak d rises decays l :
  amp_consistency peak d rises decays = Ok l ->
  isnan (nth 0 l 0%float) = true /\ isnan (nth (length rises - 1) l 0%float) = true.
Proof.
  intros H. destruct (amp_consistency_spec _ _ _ _ _ H) as (Hlen & Hnth).
  assert (Hn : length rises <> 0).
  { intros E. unfold amp_consistency in H. rewrite E in H. discriminate H. }
  split.
  - rewrite Hnth by lia. reflexivity.
  - rewrite Hnth by lia. rewrite Nat.eqb_refl, orb_true_r. reflexivity.
Qed.

Lemma amp_consistency_interior peak d rises decays l c :
  amp_consistency peak d rises decays = Ok l -> 1 <= c -> c + 1 < length rises ->
  nth c l 0%float = clamp0 (amp_cons_at peak d rises decays c).
Proof.
  intros H H1 H2. destruct (amp_consistency_spec _ _ _ _ _ H) as (_ & Hnth).
  rewrite Hnth by lia.
  destruct (Nat.eqb_spec c 0) as [E|_]; [lia|].
  destruct (Nat.eqb_spec c (length rises - 1)) as [E|_]; [lia|]. reflexivity.
Qed.

Lemma period_consistency_spec d periods l :
  period_consistency d periods = Ok l ->
  length l = length periods /\
  (forall c, c < length periods ->
     nth c l 0%float = if Nat.eqb c 0 || Nat.eqb c (length periods - 1) then fnan
                       else period_cons_at d periods c).
Proof. unfold period_consistency. apply ends_nan_spec. Qed.

Lemma period_consistency_length d periods l :
  period_consistency d periods = Ok l -> length l = length periods.
Proof. intros H. apply (period_consistency_spec _ _ _ H). Qed.

Lemma period_consistency_err d periods :
  period_consistency d periods = Err EIndex <-> periods = [].
Proof.
  unfold period_consistency. rewrite ends_nan_err. apply length_zero_iff_nil.
Qed.

Lemma period_consistency_ends_nan d periods l :
  period_consistency d periods = Ok l ->
  isnan (nth 0 l 0%float) = true /\ isnan (nth (length periods - 1) l 0%float) = true.
Proof.
  intros H. destruct (period_consistency_spec _ _ _ H) as (Hlen & Hnth).
  assert (Hn : length periods <> 0).
  { intros E. unfold period_consistency in H. rewrite E in H. discriminate H. }
  split.
  - rewrite Hnth by lia. reflexivity.
  - rewrite Hnth by lia. rewrite Nat.eqb_refl, orb_true_r. reflexivity.
Qed.

Lemma period_consistency_interior d periods l c :
  period_consistency d periods = Ok l -> 1 <= c -> c + 1 < length periods ->
  nth c l 0%float = period_cons_at d periods c.
Proof.
  intros H H1 H2. destruct (period_consistency_spec _ _ _ H) as (_ & Hnth).
  rewrite Hnth by lia.
  destruct (Nat.eqb_spec c 0) as [E|_]; [lia|].
  destruct (Nat.eqb_spec c (length periods - 1)) as [E|_]; [lia|]. reflexivity.
Qed.

(* ------------------------------------------------------------------ *)
(* B6 (definitional part) and slices                                    *)

Lemma burst_fraction_row_def mask r :
  burst_fraction_row mask r = frac_true (zslice mask (s_last r) (s_next r + 1)).
Proof. reflexivity. Qed.

Lemma zslice_length {A} (l : list A) (a b : Z) :
  (0 <= a)%Z -> (a <= b)%Z -> (b < Z.of_nat (length l))%Z ->
  length (zslice l a (b + 1)) = Z.to_nat (b - a + 1).
Proof.
  intros H0 Hab Hb. unfold zslice, slice.
  rewrite firstn_length, skipn_length. lia.
Qed.

(* ------------------------------------------------------------------ *)
(* steps: definitional lemmas                                           *)

Lemma steps_cons2 up x y t :
  steps up (x :: y :: t) = (if up then (x <? y)%float else (y <? x)%float) :: steps up (y :: t).
Proof. reflexivity. Qed.

Lemma steps_length up l : length (steps up l) = length l - 1.
Proof.
  induction l as [|x t IH]; [reflexivity|].
  destruct t as [|y t']; [reflexivity|].
  rewrite steps_cons2. cbn [length] in *. rewrite IH. lia.
Qed.

Lemma steps_spec up l k : S k < length l ->
  nth k (steps up l) false =
  if up then (nth k l 0 <? nth (S k) l 0)%float else (nth (S k) l 0 <? nth k l 0)%float.
Proof.
  revert k. induction l as [|x t IH]; intros k Hk.
  - cbn [length] in Hk. lia.
  - destruct t as [|y t'].
    + cbn [length] in Hk. lia.
    + rewrite steps_cons2. destruct k as [|k'].
      * reflexivity.
      * cbn [length] in Hk.
        change (nth (S k') ((if up then (x <? y)%float else (y <? x)%float) :: steps up (y :: t')) false)
          with (nth k' (steps up (y :: t')) false).
        rewrite IH by (cbn [length]; lia). reflexivity.
Qed.

(* ------------------------------------------------------------------ *)
(* B3 (definitional part): rank formula                                 *)

Definition n_less (va : list PrimFloat.float) (v : PrimFloat.float) : Z :=
  Z.of_nat (length (filter (fun w => (w <? v)%float) va)).
Definition n_eq (va : list PrimFloat.float) (v : PrimFloat.float) : Z :=
  Z.of_nat (length (filter (fun w => (w =? v)%float) va)).

Lemma amp_fraction_length va : length (amp_fraction va) = length va.
Proof. unfold amp_fraction. apply map_length. Qed.

Lemma amp_fraction_nth va i : i < length va ->
  fnth (amp_fraction va) i =
  if isnan (fnth va i) then fnan
  else ((FloatBase.Z2F (2 * n_less va (fnth va i) + n_eq va (fnth va i) + 1) / 2)
          / FloatBase.Z2F (Z.of_nat (length va)))%float.
Proof.
  intros Hi. unfold fnth, amp_fraction.
  set (g := fun v : PrimFloat.float => if isnan v then fnan else _).
  rewrite (nth_indep _ 0%float (g 0%float)) by (rewrite map_length; exact Hi).
  rewrite map_nth. reflexivity.
Qed.

Lemma amp_fraction_spec va i : i < length va -> isnan (fnth va i) = false ->
  fnth (amp_fraction va) i =
  ((FloatBase.Z2F (2 * n_less va (fnth va i) + n_eq va (fnth va i) + 1) / 2)
     / FloatBase.Z2F (Z.of_nat (length va)))%float.
Proof.
  intros Hi Hn. rewrite amp_fraction_nth by exact Hi. rewrite Hn. reflexivity.
Qed.

Lemma amp_fraction_nan va i : i < length va -> isnan (fnth va i) = true ->
  fnth (amp_fraction va) i = fnan.
Proof.
  intros Hi Hn. rewrite amp_fraction_nth by exact Hi. rewrite Hn. reflexivity.
Qed.
