(* Proofs about the burst-feature model (Model/BurstFeat.v): amp_fraction, amp_consistency,
   period_consistency, monotonicity, burst_fraction.  Float facts come from Base/FloatFacts.v
   (Flocq 4.1 bridge).  After the imports bare [float] is Flocq's: we write PrimFloat.float. *)
From Coq Require Import List Bool Arith ZArith Lia Reals Lra.
From Coq Require Import Floats.SpecFloat Floats.PrimFloat Floats.FloatAxioms Floats.FloatOps.
From Flocq Require Import Core.Core IEEE754.BinarySingleNaN IEEE754.PrimFloat.
Import ListNotations.
From ByC Require Import Base.Result Base.ListAux Base.FloatBase Base.FloatFacts
  Harness.Compare Model.Cycles Model.BurstFeat.

#[local] Instance Hprec53 : FLX.Prec_gt_0 53 := eq_refl _.
#[local] Instance Hmax1024 : Prec_lt_emax 53 1024 := eq_refl _.
#[local] Instance Vexp : Generic_fmt.Valid_exp (SpecFloat.fexp 53 1024) := fexp_correct 53 1024 Hprec53.

Local Open Scope nat_scope.

Lemma Z2F_same z : FloatBase.Z2F z = FloatFacts.Z2F z.
Proof. reflexivity. Qed.

(* ------------------------------------------------------------------ *)
(* B1: ends_nan, lengths, NaN ends                                      *)

Lemma nth_map_seq {A} (g : nat -> A) n c d : c < n -> nth c (map g (seq 0 n)) d = g c.
Proof.
  intros Hc.
  rewrite (nth_indep _ d (g 0)) by (rewrite map_length, seq_length; exact Hc).
  rewrite map_nth. rewrite seq_nth by exact Hc. reflexivity.
Qed.

Lemma ends_nan_ok n f : n <> 0 ->
  ends_nan n f = Ok (map (fun c => if Nat.eqb c 0 || Nat.eqb c (n - 1) then fnan else f c) (seq 0 n)).
Proof. intros Hn. destruct n as [|m]; [contradiction|reflexivity]. Qed.

Lemma ends_nan_spec n f l : ends_nan n f = Ok l ->
  length l = n /\
  (forall c, c < n -> nth c l 0%float = if Nat.eqb c 0 || Nat.eqb c (n - 1) then fnan else f c).
Proof.
  intros H. destruct (Nat.eq_dec n 0) as [E|E]; [subst n; discriminate H|].
  rewrite (ends_nan_ok n f E) in H.
  assert (El : l = map (fun c => if Nat.eqb c 0 || Nat.eqb c (n - 1) then fnan else f c) (seq 0 n))
    by congruence.
  subst l. split.
  - rewrite map_length, seq_length. reflexivity.
  - intros c Hc. rewrite nth_map_seq by exact Hc. reflexivity.
Qed.

Lemma ends_nan_err n f : ends_nan n f = Err EIndex <-> n = 0.
Proof.
  split; intros H.
  - destruct n as [|m]; [reflexivity|discriminate H].
  - subst n. reflexivity.
Qed.

(* ends_nan never fails in any other way *)
Lemma ends_nan_total n f : n <> 0 -> exists l, ends_nan n f = Ok l.
Proof.
  intros Hn. destruct n as [|m]; [contradiction|]. eexists. reflexivity.
Qed.

Lemma isnan_fnan : isnan fnan = true.
Proof. reflexivity. Qed.

Lemma clamp0_fnan : clamp0 fnan = fnan.
Proof. unfold clamp0, fnan. rewrite ltb_nan_l. reflexivity. Qed.

Lemma clamp0_nonneg x : (x <? 0)%float = false -> clamp0 x = x.
Proof. intros H. unfold clamp0. rewrite H. reflexivity. Qed.
Lemma clamp0_neg x : (x <? 0)%float = true -> clamp0 x = 0%float.
Proof. intros H. unfold clamp0. rewrite H. reflexivity. Qed.

(* clamp0 is NaN exactly on NaN *)
Lemma isnan_is_nan x : isnan x = PrimFloat.is_nan x.
Proof. reflexivity. Qed.

Lemma clamp0_isnan x : isnan (clamp0 x) = isnan x.
Proof.
  unfold clamp0. destruct (x <? 0)%float eqn:E; [|reflexivity].
  destruct (isnan x) eqn:N; [|reflexivity].
  rewrite isnan_is_nan in N. rewrite (ltb_isnan_l x 0%float N) in E. discriminate E.
Qed.

Lemma amp_consistency_spec peak d rises decays l :
  amp_consistency peak d rises decays = Ok l ->
  length l = length rises /\
  (forall c, c < length rises ->
     nth c l 0%float = if Nat.eqb c 0 || Nat.eqb c (length rises - 1) then fnan
                       else clamp0 (amp_cons_at peak d rises decays c)).
Proof.
  unfold amp_consistency. intros H.
  destruct (ends_nan (length rises) (amp_cons_at peak d rises decays)) as [l0|e] eqn:E;
    [|discriminate H].
  cbn [rmap] in H. injection H as <-.
  destruct (ends_nan_spec _ _ _ E) as (Hlen & Hnth).
  split.
  - rewrite map_length. exact Hlen.
  - intros c Hc.
    rewrite (nth_indep _ 0%float (clamp0 0%float)) by (rewrite map_length, Hlen; exact Hc).
    rewrite map_nth, (Hnth c Hc).
    destruct (Nat.eqb c 0 || Nat.eqb c (length rises - 1)); [apply clamp0_fnan|reflexivity].
Qed.

Lemma amp_consistency_length peak d rises decays l :
  amp_consistency peak d rises decays = Ok l -> length l = length rises.
Proof. intros H. apply (amp_consistency_spec _ _ _ _ _ H). Qed.

Lemma amp_consistency_err peak d rises decays :
  amp_consistency peak d rises decays = Err EIndex <-> rises = [].
Proof.
  unfold amp_consistency. split; intros H.
  - destruct rises as [|x t]; [reflexivity|]. discriminate H.
  - subst rises. reflexivity.
Qed.

Lemma amp_consistency_ends_nan peak d rises decays l :
  amp_consistency peak d rises decays = Ok l ->
  isnan (nth 0 l 0%float) = true /\ isnan (nth (length rises - 1) l 0%float) = true.
Proof.
  intros H. destruct (amp_consistency_spec _ _ _ _ _ H) as (Hlen & Hnth).
  assert (Hn : length rises <> 0).
  { intros E. unfold amp_consistency in H. rewrite E in H. discriminate H. }
  split.
  - rewrite Hnth by lia. reflexivity.
  - rewrite Hnth by lia. rewrite Nat.eqb_refl, orb_true_r. reflexivity.
Qed.

Lemma amp_consistency_interior peak d rises decays l c :
  amp_consistency peak d rises decays = Ok l -> 1 <= c -> c + 1 < length rises ->
  nth c l 0%float = clamp0 (amp_cons_at peak d rises decays c).
Proof.
  intros H H1 H2. destruct (amp_consistency_spec _ _ _ _ _ H) as (_ & Hnth).
  rewrite Hnth by lia.
  destruct (Nat.eqb_spec c 0) as [E|_]; [lia|].
  destruct (Nat.eqb_spec c (length rises - 1)) as [E|_]; [lia|]. reflexivity.
Qed.

Lemma period_consistency_spec d periods l :
  period_consistency d periods = Ok l ->
  length l = length periods /\
  (forall c, c < length periods ->
     nth c l 0%float = if Nat.eqb c 0 || Nat.eqb c (length periods - 1) then fnan
                       else period_cons_at d periods c).
Proof. unfold period_consistency. apply ends_nan_spec. Qed.

Lemma period_consistency_length d periods l :
  period_consistency d periods = Ok l -> length l = length periods.
Proof. intros H. apply (period_consistency_spec _ _ _ H). Qed.

Lemma period_consistency_err d periods :
  period_consistency d periods = Err EIndex <-> periods = [].
Proof.
  unfold period_consistency. rewrite ends_nan_err. apply length_zero_iff_nil.
Qed.

Lemma period_consistency_ends_nan d periods l :
  period_consistency d periods = Ok l ->
  isnan (nth 0 l 0%float) = true /\ isnan (nth (length periods - 1) l 0%float) = true.
Proof.
  intros H. destruct (period_consistency_spec _ _ _ H) as (Hlen & Hnth).
  assert (Hn : length periods <> 0).
  { intros E. unfold period_consistency in H. rewrite E in H. discriminate H. }
  split.
  - rewrite Hnth by lia. reflexivity.
  - rewrite Hnth by lia. rewrite Nat.eqb_refl, orb_true_r. reflexivity.
Qed.

Lemma period_consistency_interior d periods l c :
  period_consistency d periods = Ok l -> 1 <= c -> c + 1 < length periods ->
  nth c l 0%float = period_cons_at d periods c.
Proof.
  intros H H1 H2. destruct (period_consistency_spec _ _ _ H) as (_ & Hnth).
  rewrite Hnth by lia.
  destruct (Nat.eqb_spec c 0) as [E|_]; [lia|].
  destruct (Nat.eqb_spec c (length periods - 1)) as [E|_]; [lia|]. reflexivity.
Qed.

(* ------------------------------------------------------------------ *)
(* B6 (definitional part) and slices                                    *)

Lemma burst_fraction_row_def mask r :
  burst_fraction_row mask r = frac_true (zslice mask (s_last r) (s_next r + 1)).
Proof. reflexivity. Qed.

Lemma zslice_length {A} (l : list A) (a b : Z) :
  (0 <= a)%Z -> (a <= b)%Z -> (b < Z.of_nat (length l))%Z ->
  length (zslice l a (b + 1)) = Z.to_nat (b - a + 1).
Proof.
  intros H0 Hab Hb. unfold zslice, slice.
  rewrite firstn_length, skipn_length. lia.
Qed.

(* ------------------------------------------------------------------ *)
(* steps: definitional lemmas                                           *)

Lemma steps_cons2 up x y t :
  steps up (x :: y :: t) = (if up then (x <? y)%float else (y <? x)%float) :: steps up (y :: t).
Proof. reflexivity. Qed.

Lemma steps_length up l : length (steps up l) = length l - 1.
Proof.
  induction l as [|x t IH]; [reflexivity|].
  destruct t as [|y t']; [reflexivity|].
  rewrite steps_cons2. cbn [length] in *. rewrite IH. lia.
Qed.

Lemma steps_spec up l k : S k < length l ->
  nth k (steps up l) false =
  if up then (nth k l 0 <? nth (S k) l 0)%float else (nth (S k) l 0 <? nth k l 0)%float.
Proof.
  revert k. induction l as [|x t IH]; intros k Hk.
  - cbn [length] in Hk. lia.
  - destruct t as [|y t'].
    + cbn [length] in Hk. lia.
    + rewrite steps_cons2. destruct k as [|k'].
      * reflexivity.
      * cbn [length] in Hk.
        change (nth (S k') ((if up then (x <? y)%float else (y <? x)%float) :: steps up (y :: t')) false)
          with (nth k' (steps up (y :: t')) false).
        rewrite IH by (cbn [length]; lia). reflexivity.
Qed.

(* ------------------------------------------------------------------ *)
(* B3 (definitional part): rank formula                                 *)

Definition n_less (va : list PrimFloat.float) (v : PrimFloat.float) : Z :=
  Z.of_nat (length (filter (fun w => (w <? v)%float) va)).
Definition n_eq (va : list PrimFloat.float) (v : PrimFloat.float) : Z :=
  Z.of_nat (length (filter (fun w => (w =? v)%float) va)).

Lemma amp_fraction_length va : length (amp_fraction va) = length va.
Proof. unfold amp_fraction. apply map_length. Qed.

Lemma amp_fraction_nth va i : i < length va ->
  fnth (amp_fraction va) i =
  if isnan (fnth va i) then fnan
  else ((FloatBase.Z2F (2 * n_less va (fnth va i) + n_eq va (fnth va i) + 1) / 2)
          / FloatBase.Z2F (Z.of_nat (length va)))%float.
Proof.
  intros Hi. unfold fnth, amp_fraction.
  set (g := fun v : PrimFloat.float => if isnan v then fnan else _).
  rewrite (nth_indep _ 0%float (g 0%float)) by (rewrite map_length; exact Hi).
  rewrite map_nth. reflexivity.
Qed.

Lemma amp_fraction_spec va i : i < length va -> isnan (fnth va i) = false ->
  fnth (amp_fraction va) i =
  ((FloatBase.Z2F (2 * n_less va (fnth va i) + n_eq va (fnth va i) + 1) / 2)
     / FloatBase.Z2F (Z.of_nat (length va)))%float.
Proof.
  intros Hi Hn. rewrite amp_fraction_nth by exact Hi. rewrite Hn. reflexivity.
Qed.

Lemma amp_fraction_nan va i : i < length va -> isnan (fnth va i) = true ->
  fnth (amp_fraction va) i = fnan.
Proof.
  intros Hi Hn. rewrite amp_fraction_nth by exact Hi. rewrite Hn. reflexivity.
Qed.

(* ------------------------------------------------------------------ *)
(* Facts valid for ALL binary64 values (NaN, infinities, signed zeros),  *)
(* proved on the SpecFloat view of PrimFloat                             *)

Ltac fold_pos mx my :=
  change (Pos.compare_cont Eq my mx) with (Pos.compare my mx);
  change (Pos.compare_cont Eq mx my) with (Pos.compare mx my).

Lemma SFcompare_swap x y :
  SFcompare y x = match SFcompare x y with Some c => Some (CompOpp c) | None => None end.
Proof.
  destruct x as [sx|sx| |sx mx ex]; destruct y as [sy|sy| |sy my ey]; cbn [SFcompare];
    try reflexivity; try (destruct sx; reflexivity); try (destruct sy; reflexivity);
    try (destruct sx, sy; reflexivity).
  destruct sx, sy; try reflexivity.
  - rewrite (Z.compare_antisym ex ey). destruct (ex ?= ey)%Z; cbn [CompOpp]; try reflexivity.
    fold_pos mx my. rewrite (Pos.compare_antisym mx my), ?CompOpp_involutive. reflexivity.
  - rewrite (Z.compare_antisym ex ey). destruct (ex ?= ey)%Z; cbn [CompOpp]; try reflexivity.
    fold_pos mx my. rewrite (Pos.compare_antisym mx my), ?CompOpp_involutive. reflexivity.
Qed.

Lemma SFcompare_opp x y : SFcompare (SFopp x) (SFopp y) = SFcompare y x.
Proof.
  destruct x as [sx|sx| |sx mx ex]; destruct y as [sy|sy| |sy my ey]; cbn [SFcompare SFopp];
    try reflexivity; try (destruct sx; reflexivity); try (destruct sy; reflexivity);
    try (destruct sx, sy; reflexivity).
  destruct sx, sy; cbn [negb]; try reflexivity.
  - rewrite (Z.compare_antisym ex ey). destruct (ex ?= ey)%Z; cbn [CompOpp]; try reflexivity.
    fold_pos mx my. rewrite (Pos.compare_antisym mx my), ?CompOpp_involutive. reflexivity.
  - rewrite (Z.compare_antisym ex ey). destruct (ex ?= ey)%Z; cbn [CompOpp]; try reflexivity.
    fold_pos mx my. rewrite (Pos.compare_antisym mx my), ?CompOpp_involutive. reflexivity.
Qed.

Lemma opp_ltb (x y : PrimFloat.float) : (- x <? - y)%float = (y <? x)%float.
Proof.
  rewrite !ltb_spec, !opp_spec. unfold SFltb. rewrite SFcompare_opp. reflexivity.
Qed.

Lemma opp_leb (x y : PrimFloat.float) : (- x <=? - y)%float = (y <=? x)%float.
Proof.
  rewrite !leb_spec, !opp_spec. unfold SFleb. rewrite SFcompare_opp. reflexivity.
Qed.

(* (x <= y) excludes (y < x), for all floats *)
Lemma leb_not_ltb (x y : PrimFloat.float) : (x <=? y)%float = true -> (y <? x)%float = false.
Proof.
  rewrite leb_spec, ltb_spec. unfold SFleb, SFltb. rewrite (SFcompare_swap (Prim2SF x) (Prim2SF y)).
  destruct (SFcompare (Prim2SF x) (Prim2SF y)) as [[| |]|]; cbn [CompOpp]; intros H; try reflexivity; discriminate H.
Qed.

Lemma ltb_asym (x y : PrimFloat.float) : (x <? y)%float = true -> (y <? x)%float = false.
Proof.
  rewrite !ltb_spec. unfold SFltb. rewrite (SFcompare_swap (Prim2SF x) (Prim2SF y)).
  destruct (SFcompare (Prim2SF x) (Prim2SF y)) as [[| |]|]; cbn [CompOpp]; intros H; try reflexivity; discriminate H.
Qed.

(* there is exactly one NaN *)
Lemma isnan_Prim2SF x : isnan x = true <-> Prim2SF x = S754_nan.
Proof.
  unfold isnan. rewrite eqb_spec. unfold SFeqb. split.
  - destruct (Prim2SF x) as [s|s| |s m e]; cbn [SFcompare]; try reflexivity.
    + discriminate.
    + destruct s; discriminate.
    + destruct s; rewrite Z.compare_refl, Pos.compare_refl; discriminate.
  - intros ->. reflexivity.
Qed.

Lemma nan_unique x y : isnan x = true -> isnan y = true -> x = y.
Proof.
  intros Hx Hy. apply Prim2SF_inj.
  apply isnan_Prim2SF in Hx. apply isnan_Prim2SF in Hy. congruence.
Qed.

Lemma isnan_eq_fnan x : isnan x = true -> x = fnan.
Proof. intros H. apply nan_unique; [exact H|reflexivity]. Qed.

(* two non-NaN values that are neither < nor > are identical or both zeros *)
Lemma SFcompare_Eq x y : SFcompare x y = Some Eq ->
  x = y \/ (exists s s', x = S754_zero s /\ y = S754_zero s').
Proof.
  destruct x as [sx|sx| |sx mx ex]; destruct y as [sy|sy| |sy my ey]; cbn [SFcompare];
    intros H; try discriminate H;
    try (destruct sx; discriminate H); try (destruct sy; discriminate H).
  - right. eauto.
  - left. destruct sx, sy; try discriminate H; reflexivity.
  - left. destruct sx, sy; try discriminate H.
    + destruct (Z.compare_spec ex ey) as [E|E|E]; try discriminate H.
      change (Pos.compare_cont Eq mx my) with (Pos.compare mx my) in H.
      destruct (Pos.compare_spec mx my) as [E'|E'|E']; try discriminate H.
      subst. reflexivity.
    + destruct (Z.compare_spec ex ey) as [E|E|E]; try discriminate H.
      change (Pos.compare_cont Eq mx my) with (Pos.compare mx my) in H.
      destruct (Pos.compare_spec mx my) as [E'|E'|E']; try discriminate H.
      subst. reflexivity.
Qed.

Lemma self_div_eq (a b : PrimFloat.float) :
  isnan a = false -> isnan b = false -> (a <? b)%float = false -> (b <? a)%float = false ->
  (a / a = b / b)%float.
Proof.
  intros Na Nb Hab Hba.
  assert (Hc : SFcompare (Prim2SF a) (Prim2SF b) = Some Eq).
  { revert Na Nb Hab Hba. unfold isnan. rewrite !eqb_spec, !ltb_spec. unfold SFeqb, SFltb.
    rewrite (SFcompare_swap (Prim2SF a) (Prim2SF b)).
    destruct (SFcompare (Prim2SF a) (Prim2SF b)) as [[| |]|] eqn:E; cbn [CompOpp];
      intros Na Nb Hab Hba; try reflexivity; try discriminate.
    exfalso. revert E Na Nb.
    destruct (Prim2SF a) as [sx|sx| |sx mx ex]; destruct (Prim2SF b) as [sy|sy| |sy my ey];
      cbn [SFcompare negb]; intros; discriminate. }
  destruct (SFcompare_Eq _ _ Hc) as [E|(s & s' & Ea & Eb)].
  - apply Prim2SF_inj in E. subst b. reflexivity.
  - apply Prim2SF_inj. rewrite !div_spec, Ea, Eb. destruct s, s'; reflexivity.
Qed.

(* B2: the min/max ratio is symmetric for ALL floats *)
Lemma ratio_minmax_sym (a b : PrimFloat.float) : ratio_minmax a b = ratio_minmax b a.
Proof.
  unfold ratio_minmax, fmin2, fmax2.
  destruct (isnan a) eqn:Na; destruct (isnan b) eqn:Nb.
  - rewrite (nan_unique a b Na Nb). reflexivity.
  - reflexivity.
  - reflexivity.
  - destruct (a <? b)%float eqn:Hab.
    + rewrite (ltb_asym a b Hab). reflexivity.
    + destruct (b <? a)%float eqn:Hba; [reflexivity|].
      apply self_div_eq; assumption.
Qed.

(* float addition is commutative for ALL floats *)
Lemma add_comm (x y : PrimFloat.float) : (x + y = y + x)%float.
Proof.
  apply Prim2SF_inj. rewrite !add_spec. unfold SF64add, SFadd.
  destruct (Prim2SF x) as [sx|sx| |sx mx ex]; destruct (Prim2SF y) as [sy|sy| |sy my ey];
    try reflexivity.
  - destruct sx, sy; reflexivity.
  - destruct sx, sy; reflexivity.
  - cbv zeta. rewrite (Z.min_comm ey ex). f_equal. apply Z.add_comm.
Qed.

(* ------------------------------------------------------------------ *)
(* B2: centring-free form of amp_consistency and the mirror symmetry     *)

(* flanks in temporal order: for a peak-centred table rise_0, decay_0, rise_1, ...;
   for a trough-centred table decay_0, rise_0, decay_1, ... *)
Definition flankseq (peak : bool) (rises decays : list PrimFloat.float) : nat -> PrimFloat.float :=
  fun i => if Nat.even i then (if peak then fnth rises (i / 2) else fnth decays (i / 2))
           else (if peak then fnth decays (i / 2) else fnth rises (i / 2)).

Definition amp_cons_generic (d : direction) (F : nat -> PrimFloat.float) (c : nat) : PrimFloat.float :=
  let cur := ratio_minmax (F (2 * c)) (F (2 * c + 1)) in
  let lst := ratio_minmax (F (2 * c)) (F (2 * c - 1)) in
  let nxt := ratio_minmax (F (2 * c + 2)) (F (2 * c + 1)) in
  if all_nan [cur; nxt; lst] then fnan
  else match d with
       | Next => nanmin [cur; nxt]
       | Last => nanmin [cur; lst]
       | Both => nanmin [cur; nxt; lst]
       end.

Lemma flankseq_even peak rises decays k :
  flankseq peak rises decays (2 * k) = if peak then fnth rises k else fnth decays k.
Proof.
  unfold flankseq.
  assert (E : Nat.even (2 * k) = true) by (rewrite Nat.even_mul; reflexivity).
  rewrite E. rewrite (Nat.mul_comm 2 k), Nat.div_mul by lia. reflexivity.
Qed.

Lemma flankseq_odd peak rises decays k :
  flankseq peak rises decays (2 * k + 1) = if peak then fnth decays k else fnth rises k.
Proof.
  unfold flankseq.
  assert (E : Nat.even (2 * k + 1) = false).
  { rewrite Nat.even_add, Nat.even_mul. reflexivity. }
  rewrite E.
  assert (D : (2 * k + 1) / 2 = k).
  { symmetry. apply (Nat.div_unique (2 * k + 1) 2 k 1); lia. }
  rewrite D. reflexivity.
Qed.

Lemma amp_cons_at_generic peak d rises decays c : 1 <= c ->
  amp_cons_at peak d rises decays c = amp_cons_generic d (flankseq peak rises decays) c.
Proof.
  intros Hc. unfold amp_cons_at, amp_cons_generic.
  replace (2 * c + 2) with (2 * (c + 1)) by lia.
  replace (2 * c - 1) with (2 * (c - 1) + 1) by lia.
  rewrite !flankseq_even, !flankseq_odd.
  destruct peak.
  - reflexivity.
  - rewrite (ratio_minmax_sym (fnth decays c) (fnth rises c)).
    rewrite (ratio_minmax_sym (fnth decays c) (fnth rises (c - 1))).
    rewrite (ratio_minmax_sym (fnth decays (c + 1)) (fnth rises c)).
    reflexivity.
Qed.

Lemma flankseq_swap peak rises decays i :
  flankseq (negb peak) decays rises i = flankseq peak rises decays i.
Proof. unfold flankseq. destruct peak; reflexivity. Qed.

(* a trough-centred table is the peak-centred table of the negated signal, whose rises
   are the original decays and vice versa *)
Lemma amp_cons_mirror d rises decays c : 1 <= c ->
  amp_cons_at false d rises decays c = amp_cons_at true d decays rises c.
Proof.
  intros Hc. rewrite !amp_cons_at_generic by exact Hc.
  unfold amp_cons_generic.
  rewrite <- !(flankseq_swap false rises decays). reflexivity.
Qed.

(* the hypothesis 1 <= c is not needed for the mirror itself *)
Lemma amp_cons_mirror_all d rises decays c :
  amp_cons_at false d rises decays c = amp_cons_at true d decays rises c.
Proof.
  unfold amp_cons_at.
  rewrite (ratio_minmax_sym (fnth decays c) (fnth rises c)).
  rewrite (ratio_minmax_sym (fnth decays c) (fnth rises (c - 1))).
  rewrite (ratio_minmax_sym (fnth decays (c + 1)) (fnth rises c)).
  reflexivity.
Qed.

Lemma amp_consistency_mirror d rises decays : length rises = length decays ->
  amp_consistency false d rises decays = amp_consistency true d decays rises.
Proof.
  intros Hlen. unfold amp_consistency. rewrite <- Hlen.
  destruct (Nat.eq_dec (length rises) 0) as [E|E].
  - rewrite E. reflexivity.
  - rewrite !ends_nan_ok by exact E. cbn [rmap]. f_equal. f_equal.
    apply map_ext. intros c. rewrite amp_cons_mirror_all. reflexivity.
Qed.

(* monotonicity: negating the signal exchanges increasing and decreasing steps *)
Lemma steps_opp up l : steps up (map PrimFloat.opp l) = steps (negb up) l.
Proof.
  induction l as [|x t IH]; [reflexivity|].
  destruct t as [|y t']; [reflexivity|].
  change (map PrimFloat.opp (x :: y :: t')) with (- x :: map PrimFloat.opp (y :: t'))%float.
  change (map PrimFloat.opp (y :: t')) with (- y :: map PrimFloat.opp t')%float in *.
  rewrite !steps_cons2. rewrite IH. rewrite !opp_ltb. destruct up; reflexivity.
Qed.

Lemma zslice_map {A B} (f : A -> B) (l : list A) a b : zslice (map f l) a b = map f (zslice l a b).
Proof.
  unfold zslice, slice. rewrite skipn_map, firstn_map. reflexivity.
Qed.

Lemma monotonicity_mirror sig r :
  monotonicity_row false sig r = monotonicity_row true (map PrimFloat.opp sig) r.
Proof.
  unfold monotonicity_row. rewrite !zslice_map, !steps_opp. cbn [negb].
  rewrite (add_comm (frac_true (steps false (zslice sig (s_last r) (s_center r + 1))))). reflexivity.
Qed.

(* ------------------------------------------------------------------ *)
(* B4: ranges of the consistency features                               *)

Lemma ltb_leb_all (x y : PrimFloat.float) : (x <? y)%float = true -> (x <=? y)%float = true.
Proof.
  rewrite ltb_spec, leb_spec. unfold SFltb, SFleb.
  destruct (SFcompare (Prim2SF x) (Prim2SF y)) as [[| |]|]; intros H; try reflexivity; discriminate H.
Qed.

Lemma nltb_leb (x y : PrimFloat.float) : finite x = true -> finite y = true ->
  (x <? y)%float = false -> (y <=? x)%float = true.
Proof.
  intros Fx Fy H. rewrite (ltb_total x y Fx Fy) in H.
  destruct (y <=? x)%float; [reflexivity|discriminate H].
Qed.

Lemma Prim2B_zero : Prim2B 0%float = B754_zero false.
Proof. change 0%float with zero. rewrite zero_equiv. apply Prim2B_B2Prim. Qed.

(* anything between 0 and 1 is a finite number *)
Lemma unit_finite (x : PrimFloat.float) :
  (0 <=? x)%float = true -> (x <=? 1)%float = true -> finite x = true.
Proof.
  unfold finite. rewrite !leb_equiv. rewrite Prim2B_zero.
  change 1%float with one. rewrite one_equiv, Prim2B_B2Prim.
  unfold Bleb, SFleb. destruct (Prim2B x) as [s|s| |s m e He]; try reflexivity.
  - destruct s; cbn; intros H1 H2; discriminate.
  - cbn. intros H; discriminate H.
Qed.

Lemma finite_isnan x : finite x = true -> isnan x = false.
Proof. intros H. rewrite isnan_is_nan. apply finite_not_nan, H. Qed.

Lemma leb_0_not_neg (x : PrimFloat.float) : (0 <=? x)%float = true -> (x <? 0)%float = false.
Proof. apply leb_not_ltb. Qed.

Lemma ltb_0_leb_0 (x : PrimFloat.float) : (0 <? x)%float = true -> (0 <=? x)%float = true.
Proof. apply ltb_leb_all. Qed.

(* the quotient min/max of two finite positive floats *)
Lemma ratio_minmax_range a b : finite a = true -> finite b = true ->
  (0 <? a)%float = true -> (0 <? b)%float = true ->
  (0 <=? ratio_minmax a b)%float = true /\ (ratio_minmax a b <=? 1)%float = true.
Proof.
  intros Fa Fb Pa Pb. unfold ratio_minmax, fmin2, fmax2.
  rewrite (finite_isnan a Fa), (finite_isnan b Fb).
  destruct (a <? b)%float eqn:Hab.
  - rewrite (ltb_asym a b Hab). apply div_range; try assumption.
    apply ltb_leb_all, Hab.
  - destruct (b <? a)%float eqn:Hba.
    + apply div_range; try assumption. apply ltb_leb_all, Hba.
    + apply div_range; try assumption. apply leb_refl, Fa.
Qed.

Lemma ratio_minmax_range_notnan a b : finite a = true -> finite b = true ->
  (0 <? a)%float = true -> (0 <? b)%float = true ->
  isnan (ratio_minmax a b) = false.
Proof.
  intros Fa Fb Pa Pb. destruct (ratio_minmax_range a b Fa Fb Pa Pb) as (H0 & H1).
  apply finite_isnan, unit_finite; assumption.
Qed.

(* nanmin returns one of its non-NaN elements, or NaN when there is none *)
Lemma nanmin_In l : isnan (nanmin l) = false -> In (nanmin l) l.
Proof.
  induction l as [|x t IH]; cbn [nanmin].
  - intros H. discriminate H.
  - destruct (isnan x) eqn:Nx.
    + intros H. right. apply IH, H.
    + destruct (isnan (nanmin t)) eqn:Nr.
      * intros _. left. reflexivity.
      * destruct (nanmin t <? x)%float.
        -- intros _. right. apply IH. reflexivity.
        -- intros _. left. reflexivity.
Qed.

Lemma nanmin_notnan l x : In x l -> isnan x = false -> isnan (nanmin l) = false.
Proof.
  induction l as [|y t IH]; cbn [nanmin In].
  - intros [].
  - intros [E|Hin] Nx.
    + subst y. rewrite Nx.
      destruct (isnan (nanmin t)) eqn:Nr; [exact Nx|].
      destruct (nanmin t <? x)%float; assumption.
    + specialize (IH Hin Nx). destruct (isnan y) eqn:Ny; [exact IH|].
      rewrite IH. destruct (nanmin t <? y)%float; assumption.
Qed.

Lemma nanmin_allnan l : (forall x, In x l -> isnan x = true) -> isnan (nanmin l) = true.
Proof.
  intros H. destruct (isnan (nanmin l)) eqn:N; [reflexivity|].
  rewrite (H _ (nanmin_In l N)) in N. discriminate N.
Qed.

Lemma nanmin_range l :
  (forall x, In x l -> isnan x = true \/ ((0 <=? x)%float = true /\ (x <=? 1)%float = true)) ->
  isnan (nanmin l) = true \/ ((0 <=? nanmin l)%float = true /\ (nanmin l <=? 1)%float = true).
Proof.
  intros H. destruct (isnan (nanmin l)) eqn:N; [left; reflexivity|].
  destruct (H _ (nanmin_In l N)) as [E|E]; [rewrite E in N; discriminate N|right; exact E].
Qed.

(* nanmin is a lower bound of the finite elements *)
Lemma nanmin_le l x : (forall y, In y l -> finite y = true) -> In x l ->
  (nanmin l <=? x)%float = true.
Proof.
  induction l as [|y t IH]; cbn [nanmin In].
  - intros _ [].
  - intros Hf Hin.
    assert (Fy : finite y = true) by (apply Hf; left; reflexivity).
    assert (Ft : forall z, In z t -> finite z = true) by (intros z Hz; apply Hf; right; exact Hz).
    rewrite (finite_isnan y Fy).
    destruct (isnan (nanmin t)) eqn:Nr.
    + destruct Hin as [E|Hin].
      * subst x. apply leb_refl, Fy.
      * rewrite (nanmin_notnan t x Hin (finite_isnan x (Ft x Hin))) in Nr. discriminate Nr.
    + assert (Fr : finite (nanmin t) = true) by (apply Ft, nanmin_In, Nr).
      destruct (nanmin t <? y)%float eqn:Hlt.
      * destruct Hin as [E|Hin].
        -- subst x. apply ltb_leb_all, Hlt.
        -- apply IH; assumption.
      * destruct Hin as [E|Hin].
        -- subst x. apply leb_refl, Fy.
        -- apply (leb_trans y (nanmin t) x); try assumption.
           ++ apply Ft, Hin.
           ++ apply nltb_leb; assumption.
           ++ apply IH; assumption.
Qed.

Definition posfin (x : PrimFloat.float) : Prop := finite x = true /\ (0 <? x)%float = true.

Lemma amp_cons_generic_range d F c :
  posfin (F (2 * c - 1)) -> posfin (F (2 * c)) -> posfin (F (2 * c + 1)) -> posfin (F (2 * c + 2)) ->
  let r := amp_cons_generic d F c in
  isnan r = false /\ (0 <=? r)%float = true /\ (r <=? 1)%float = true.
Proof.
  intros (F0 & P0) (F1 & P1) (F2 & P2) (F3 & P3). cbv zeta. unfold amp_cons_generic.
  set (cur := ratio_minmax (F (2 * c)) (F (2 * c + 1))).
  set (lst := ratio_minmax (F (2 * c)) (F (2 * c - 1))).
  set (nxt := ratio_minmax (F (2 * c + 2)) (F (2 * c + 1))).
  assert (Ncur : isnan cur = false) by (apply ratio_minmax_range_notnan; assumption).
  assert (Nlst : isnan lst = false) by (apply ratio_minmax_range_notnan; assumption).
  assert (Nnxt : isnan nxt = false) by (apply ratio_minmax_range_notnan; assumption).
  assert (Rcur := ratio_minmax_range _ _ F1 F2 P1 P2). fold cur in Rcur.
  assert (Rlst := ratio_minmax_range _ _ F1 F0 P1 P0). fold lst in Rlst.
  assert (Rnxt := ratio_minmax_range _ _ F3 F2 P3 P2). fold nxt in Rnxt.
  assert (Hall : all_nan [cur; nxt; lst] = false).
  { unfold all_nan. cbn [forallb]. rewrite Ncur. reflexivity. }
  rewrite Hall.
  assert (Hgen : forall l, In cur l -> (forall x, In x l -> x = cur \/ x = nxt \/ x = lst) ->
            isnan (nanmin l) = false /\ (0 <=? nanmin l)%float = true /\ (nanmin l <=? 1)%float = true).
  { intros l Hin Hl.
    assert (N : isnan (nanmin l) = false) by (apply (nanmin_notnan l cur Hin Ncur)).
    split; [exact N|].
    destruct (Hl _ (nanmin_In l N)) as [E|[E|E]]; rewrite E; assumption. }
  destruct d.
  - apply Hgen; [left; reflexivity|]. cbn [In]. intros x [E|[E|[E|[]]]]; subst x; tauto.
  - apply Hgen; [left; reflexivity|]. cbn [In]. intros x [E|[E|[]]]; subst x; tauto.
  - apply Hgen; [left; reflexivity|]. cbn [In]. intros x [E|[E|[]]]; subst x; tauto.
Qed.

(* the four flank voltages involved at cycle c: flanks 2c-1 .. 2c+2 of the temporal sequence;
   for a peak-centred table these are decays[c-1], rises[c], decays[c], rises[c+1] *)
Lemma amp_cons_at_range peak d rises decays c : 1 <= c ->
  (forall i, 2 * c - 1 <= i <= 2 * c + 2 -> posfin (flankseq peak rises decays i)) ->
  let r := amp_cons_at peak d rises decays c in
  isnan r = false /\ (0 <=? r)%float = true /\ (r <=? 1)%float = true.
Proof.
  intros Hc H. cbv zeta. rewrite amp_cons_at_generic by exact Hc.
  apply amp_cons_generic_range; apply H; lia.
Qed.

Lemma amp_cons_at_range_peak d rises decays c : 1 <= c ->
  posfin (fnth decays (c - 1)) -> posfin (fnth rises c) -> posfin (fnth decays c) ->
  posfin (fnth rises (c + 1)) ->
  let r := amp_cons_at true d rises decays c in
  isnan r = false /\ (0 <=? r)%float = true /\ (r <=? 1)%float = true.
Proof.
  intros Hc H0 H1 H2 H3. cbv zeta. rewrite amp_cons_at_generic by exact Hc.
  apply amp_cons_generic_range.
  - replace (2 * c - 1) with (2 * (c - 1) + 1) by lia. rewrite flankseq_odd. exact H0.
  - rewrite flankseq_even. exact H1.
  - rewrite flankseq_odd. exact H2.
  - replace (2 * c + 2) with (2 * (c + 1)) by lia. rewrite flankseq_even. exact H3.
Qed.

Lemma amp_cons_at_range_trough d rises decays c : 1 <= c ->
  posfin (fnth rises (c - 1)) -> posfin (fnth decays c) -> posfin (fnth rises c) ->
  posfin (fnth decays (c + 1)) ->
  let r := amp_cons_at false d rises decays c in
  isnan r = false /\ (0 <=? r)%float = true /\ (r <=? 1)%float = true.
Proof.
  intros Hc H0 H1 H2 H3. cbv zeta. rewrite amp_cons_mirror by exact Hc.
  apply amp_cons_at_range_peak; assumption.
Qed.

(* on such cycles the clamp is the identity, so the table entry itself is in [0,1] *)
Lemma amp_consistency_range peak d rises decays l c :
  amp_consistency peak d rises decays = Ok l -> 1 <= c -> c + 1 < length rises ->
  (forall i, 2 * c - 1 <= i <= 2 * c + 2 -> posfin (flankseq peak rises decays i)) ->
  nth c l 0%float = amp_cons_at peak d rises decays c /\
  isnan (nth c l 0%float) = false /\
  (0 <=? nth c l 0%float)%float = true /\ (nth c l 0%float <=? 1)%float = true.
Proof.
  intros H H1 H2 Hp.
  destruct (amp_cons_at_range peak d rises decays c H1 Hp) as (N & R0 & R1).
  rewrite (amp_consistency_interior _ _ _ _ _ _ H H1 H2).
  rewrite (clamp0_nonneg _ (leb_0_not_neg _ R0)). tauto.
Qed.

(* clamp0 always yields NaN or a value that is not negative *)
Lemma clamp0_not_neg x : (clamp0 x <? 0)%float = false.
Proof.
  unfold clamp0. destruct (x <? 0)%float eqn:E; [reflexivity|exact E].
Qed.

Lemma clamp0_range x :
  ((x <? 0)%float = false -> clamp0 x = x) /\ ((x <? 0)%float = true -> clamp0 x = 0%float).
Proof. split; [apply clamp0_nonneg|apply clamp0_neg]. Qed.

(* ------------------------------------------------------------------ *)
(* Quotients of positive numbers of moderate size are in (0,1]          *)

Lemma rnd64_1 : rnd64 1 = 1%R.
Proof. apply rnd64_id. now apply format64_IZR. Qed.

Lemma div_pos_unit (x y : PrimFloat.float) : finite x = true -> finite y = true ->
  (1 <= FR x)%R -> (FR x <= FR y)%R -> (FR y <= IZR (2 ^ 53))%R ->
  finite (x / y) = true /\ (0 <? x / y)%float = true /\ (x / y <=? 1)%float = true.
Proof.
  intros Fx Fy H1 Hxy Hy.
  set (eps := (/ IZR (2 ^ 53))%R).
  assert (P53 : (0 < IZR (2 ^ 53))%R) by (apply IZR_lt; reflexivity).
  assert (Heps : (0 < eps)%R) by (apply Rinv_0_lt_compat, P53).
  assert (Ypos : (0 < FR y)%R) by lra.
  assert (Hiy : (eps <= / FR y)%R) by (apply Rinv_le_contravar; assumption).
  assert (Hq : (eps <= FR x / FR y <= 1)%R).
  { split.
    - unfold Rdiv. apply Rle_trans with (1 * / FR y)%R; [lra|].
      apply Rmult_le_compat_r; [|exact H1]. apply Rlt_le, Rinv_0_lt_compat, Ypos.
    - apply Rmult_le_reg_r with (FR y); [exact Ypos|]. unfold Rdiv.
      rewrite Rmult_assoc, Rinv_l by lra. lra. }
  assert (Geps : rnd64 eps = eps).
  { apply rnd64_id. replace eps with (F2R (Float radix2 1 (-53))).
    - apply format64_FLT; [reflexivity|lia].
    - unfold F2R, eps. simpl. lra. }
  destruct (div_FR x y Fx Fy) as (Fq & Vq).
  { lra. }
  { rewrite Rabs_pos_eq; lra. }
  split; [exact Fq|].
  rewrite ltb_R, leb_R by (assumption || reflexivity).
  rewrite FR_zero, FR_one, Vq. split.
  - apply Rlt_bool_true. apply Rlt_le_trans with eps; [exact Heps|].
    rewrite <- Geps. apply rnd64_le, Hq.
  - apply Rle_bool_true. rewrite <- rnd64_1. apply rnd64_le, Hq.
Qed.

Lemma Z2F_ratio_pos a b : (0 < a <= b)%Z -> (b < 2 ^ 53)%Z ->
  finite (FloatBase.Z2F a / FloatBase.Z2F b) = true /\
  (0 <? FloatBase.Z2F a / FloatBase.Z2F b)%float = true /\
  (FloatBase.Z2F a / FloatBase.Z2F b <=? 1)%float = true.
Proof.
  intros Ha Hb. change FloatBase.Z2F with FloatFacts.Z2F.
  assert (Aa : (Z.abs a < 2 ^ 53)%Z) by (rewrite Z.abs_eq; lia).
  assert (Ab : (Z.abs b < 2 ^ 53)%Z) by (rewrite Z.abs_eq; lia).
  destruct (Z2F_exact a Aa) as (Fa & Va). destruct (Z2F_exact b Ab) as (Fb & Vb).
  apply div_pos_unit; try assumption; rewrite ?Va, ?Vb; apply IZR_le; lia.
Qed.

Lemma zratio_range a b : (0 < a < 2 ^ 53)%Z -> (0 < b < 2 ^ 53)%Z ->
  finite (zratio a b) = true /\ (0 <? zratio a b)%float = true /\ (zratio a b <=? 1)%float = true.
Proof.
  intros Ha Hb. unfold zratio. apply Z2F_ratio_pos; lia.
Qed.

Lemma fmin2_cases a b : isnan a = false -> isnan b = false -> fmin2 a b = a \/ fmin2 a b = b.
Proof.
  intros Na Nb. unfold fmin2. rewrite Na, Nb. destruct (b <? a)%float; [right|left]; reflexivity.
Qed.

(* B4: period consistency of an interior cycle with positive periods below 2^53 *)
Lemma period_cons_at_range d periods c :
  (forall i, c - 1 <= i <= c + 1 -> (0 < nth i periods 0%Z < 2 ^ 53)%Z) ->
  let r := period_cons_at d periods c in
  isnan r = false /\ (0 <? r)%float = true /\ (r <=? 1)%float = true.
Proof.
  intros H. cbv zeta. unfold period_cons_at.
  assert (H0 := H (c - 1)). assert (H1 := H c). assert (H2 := H (c + 1)).
  destruct (zratio_range (nth c periods 0%Z) (nth (c - 1) periods 0%Z)) as (Fl & Pl & Ul);
    [apply H1; lia|apply H0; lia|].
  destruct (zratio_range (nth (c + 1) periods 0%Z) (nth c periods 0%Z)) as (Fn & Pn & Un);
    [apply H2; lia|apply H1; lia|].
  destruct d.
  - destruct (fmin2_cases _ _ (finite_isnan _ Fn) (finite_isnan _ Fl)) as [E|E]; rewrite E.
    + split; [apply finite_isnan, Fn|tauto].
    + split; [apply finite_isnan, Fl|tauto].
  - split; [apply finite_isnan, Fn|tauto].
  - split; [apply finite_isnan, Fl|tauto].
Qed.

Lemma period_consistency_range d periods l c :
  period_consistency d periods = Ok l -> 1 <= c -> c + 1 < length periods ->
  (forall i, i < length periods -> (0 < nth i periods 0%Z < 2 ^ 53)%Z) ->
  isnan (nth c l 0%float) = false /\
  (0 <? nth c l 0%float)%float = true /\ (nth c l 0%float <=? 1)%float = true.
Proof.
  intros H H1 H2 Hp. rewrite (period_consistency_interior _ _ _ _ H H1 H2).
  apply period_cons_at_range. intros i Hi. apply Hp. lia.
Qed.

(* ------------------------------------------------------------------ *)
(* B5: fraction of true entries, monotonicity                           *)

Lemma count_true_le l : count_true l <= length l.
Proof.
  induction l as [|b t IH]; [apply Nat.le_refl|].
  destruct b; cbn [count_true length]; lia.
Qed.

Lemma frac_true_range l : l <> [] -> (Z.of_nat (length l) < 2 ^ 52)%Z ->
  (0 <=? frac_true l)%float = true /\ (frac_true l <=? 1)%float = true.
Proof.
  intros Hne Hlen. unfold frac_true. change FloatBase.Z2F with FloatFacts.Z2F.
  assert (Hpos : 0 < length l) by (destruct l; [contradiction|cbn [length]; lia]).
  assert (Hc := count_true_le l).
  apply ratio_range; lia.
Qed.

Lemma add_FR_small (x y : PrimFloat.float) : finite x = true -> finite y = true ->
  (Rabs (FR x + FR y) <= 2)%R ->
  finite (x + y) = true /\ FR (x + y) = rnd64 (FR x + FR y).
Proof.
  intros Fx Fy Hs. unfold finite, FR in *. rewrite add_equiv.
  generalize (Bplus_correct _ _ Hprec Hmax mode_NE (Prim2B x) (Prim2B y) Fx Fy).
  fold (rnd64 (B2R (Prim2B x) + B2R (Prim2B y))).
  assert (E2 : rnd64 2 = 2%R) by (apply rnd64_id; now apply format64_IZR).
  assert (Em2 : rnd64 (-2) = (-2)%R).
  { apply rnd64_id. change (-2)%R with (IZR (-2)). now apply format64_IZR. }
  assert (Hr : (Rabs (rnd64 (B2R (Prim2B x) + B2R (Prim2B y))) <= 2)%R).
  { apply Rabs_le. apply Rabs_le_inv in Hs. split.
    - apply Rle_trans with (rnd64 (-2)); [rewrite Em2; lra|apply rnd64_le; lra].
    - apply Rle_trans with (rnd64 2); [apply rnd64_le; lra|rewrite E2; lra]. }
  rewrite Rlt_bool_true.
  - intros (Hv & Hfin & _). split; [exact Hfin|exact Hv].
  - apply Rle_lt_trans with (bpow radix2 1); [exact Hr|].
    apply (bpow_lt radix2 1 1024). reflexivity.
Qed.

(* the mean of two numbers of [0,1] is in [0,1] *)
Lemma half_sum_unit (x y : PrimFloat.float) :
  (0 <=? x)%float = true -> (x <=? 1)%float = true ->
  (0 <=? y)%float = true -> (y <=? 1)%float = true ->
  (0 <=? (x + y) / 2)%float = true /\ ((x + y) / 2 <=? 1)%float = true.
Proof.
  intros X0 X1 Y0 Y1.
  assert (Fx := unit_finite x X0 X1). assert (Fy := unit_finite y Y0 Y1).
  rewrite leb_R in X0, X1, Y0, Y1 by (assumption || reflexivity).
  revert X0 X1 Y0 Y1.
  case Rle_bool_spec; try easy. intros X0 _.
  case Rle_bool_spec; try easy. intros X1 _.
  case Rle_bool_spec; try easy. intros Y0 _.
  case Rle_bool_spec; try easy. intros Y1 _.
  rewrite FR_zero in X0, Y0. rewrite FR_one in X1, Y1.
  destruct (add_FR_small x y Fx Fy) as (Fs & Vs).
  { rewrite Rabs_pos_eq; lra. }
  assert (E2 : rnd64 2 = 2%R) by (apply rnd64_id; now apply format64_IZR).
  assert (Hs : (0 <= FR (x + y) <= 2)%R).
  { rewrite Vs. split.
    - rewrite <- rnd64_0. apply rnd64_le. lra.
    - rewrite <- E2. apply rnd64_le. lra. }
  destruct (div_FR_between 0%float 1%float (x + y)%float 2%float) as (Fq & _ & Hq);
    try (assumption || reflexivity).
  { rewrite FR_two. lra. }
  { rewrite FR_zero, FR_one, FR_two. lra. }
  rewrite !leb_R by (assumption || reflexivity).
  split; apply Rle_bool_true; apply Hq.
Qed.

Lemma steps_nonempty up l : 2 <= length l -> steps up l <> [].
Proof.
  intros H E. assert (L := steps_length up l). rewrite E in L. cbn [length] in L. lia.
Qed.

Lemma monotonicity_row_range peak sig r :
  (0 <= s_last r)%Z -> (s_last r < s_center r)%Z -> (s_center r < s_next r)%Z ->
  (s_next r < Z.of_nat (length sig))%Z -> (Z.of_nat (length sig) < 2 ^ 52)%Z ->
  (0 <=? monotonicity_row peak sig r)%float = true /\
  (monotonicity_row peak sig r <=? 1)%float = true.
Proof.
  intros H0 H1 H2 H3 H4. unfold monotonicity_row.
  set (a := zslice sig (s_last r) (s_center r + 1)).
  set (b := zslice sig (s_center r) (s_next r + 1)).
  assert (La : length a = Z.to_nat (s_center r - s_last r + 1)) by (apply zslice_length; lia).
  assert (Lb : length b = Z.to_nat (s_next r - s_center r + 1)) by (apply zslice_length; lia).
  assert (Hfr : forall up l, 2 <= length l -> (Z.of_nat (length l) < 2 ^ 52)%Z ->
            (0 <=? frac_true (steps up l))%float = true /\ (frac_true (steps up l) <=? 1)%float = true).
  { intros up l Hl Hb. apply frac_true_range.
    - apply steps_nonempty, Hl.
    - rewrite steps_length. lia. }
  destruct peak.
  - destruct (Hfr false b) as (D0 & D1); [lia|lia|].
    destruct (Hfr true a) as (R0 & R1); [lia|lia|].
    apply half_sum_unit; assumption.
  - destruct (Hfr false a) as (D0 & D1); [lia|lia|].
    destruct (Hfr true b) as (R0 & R1); [lia|lia|].
    apply half_sum_unit; assumption.
Qed.

(* B6: burst fraction of a row lying inside the signal *)
Lemma burst_fraction_row_range mask r :
  (0 <= s_last r)%Z -> (s_last r <= s_next r)%Z ->
  (s_next r < Z.of_nat (length mask))%Z -> (Z.of_nat (length mask) < 2 ^ 52)%Z ->
  (0 <=? burst_fraction_row mask r)%float = true /\ (burst_fraction_row mask r <=? 1)%float = true.
Proof.
  intros H0 H1 H2 H3. rewrite burst_fraction_row_def.
  assert (L : length (zslice mask (s_last r) (s_next r + 1)) = Z.to_nat (s_next r - s_last r + 1))
    by (apply zslice_length; lia).
  apply frac_true_range.
  - intros E. rewrite E in L. cbn [length] in L. lia.
  - rewrite L. lia.
Qed.

(* ------------------------------------------------------------------ *)
(* B3: range of the rank fraction                                       *)

Lemma ltb_not_eqb (x y : PrimFloat.float) : (x <? y)%float = true -> (x =? y)%float = false.
Proof.
  rewrite ltb_spec, eqb_spec. unfold SFltb, SFeqb.
  destruct (SFcompare (Prim2SF x) (Prim2SF y)) as [[| |]|]; intros H; try reflexivity; discriminate H.
Qed.

Lemma eqb_refl_notnan (x : PrimFloat.float) : isnan x = false -> (x =? x)%float = true.
Proof. unfold isnan. destruct (x =? x)%float; [reflexivity|discriminate]. Qed.

Lemma filter_disjoint_length {A} (p q : A -> bool) l :
  (forall w, p w = true -> q w = false) ->
  length (filter p l) + length (filter q l) <= length l.
Proof.
  intros H. induction l as [|w t IH]; [apply Nat.le_refl|].
  cbn [filter]. destruct (p w) eqn:Pw.
  - rewrite (H w Pw). cbn [length]. lia.
  - destruct (q w); cbn [length]; lia.
Qed.

Lemma filter_In_length {A} (p : A -> bool) l x : In x l -> p x = true -> 1 <= length (filter p l).
Proof.
  intros Hin Hp. assert (H : In x (filter p l)) by (apply filter_In; split; assumption).
  destruct (filter p l); [destruct H|cbn [length]; lia].
Qed.

Lemma rank_counts va i : i < length va -> isnan (fnth va i) = false ->
  (1 <= n_eq va (fnth va i))%Z /\ (0 <= n_less va (fnth va i))%Z /\
  (n_less va (fnth va i) + n_eq va (fnth va i) <= Z.of_nat (length va))%Z.
Proof.
  intros Hi Hn. unfold n_eq, n_less.
  set (v := fnth va i).
  assert (Hin : In v va) by (apply nth_In, Hi).
  assert (H1 := filter_In_length (fun w => (w =? v)%float) va v Hin (eqb_refl_notnan v Hn)).
  assert (H2 := filter_disjoint_length (fun w => (w <? v)%float) (fun w => (w =? v)%float) va
                  (fun w => ltb_not_eqb w v)).
  lia.
Qed.

(* an integer below 2^53 halved is exact *)
Lemma Z2F_half k : (0 <= k < 2 ^ 53)%Z ->
  finite (FloatFacts.Z2F k / 2)%float = true /\ FR (FloatFacts.Z2F k / 2)%float = (IZR k / 2)%R.
Proof.
  intros Hk.
  assert (Ak : (Z.abs k < 2 ^ 53)%Z) by (rewrite Z.abs_eq; lia).
  destruct (Z2F_exact k Ak) as (Fk & Vk).
  assert (K0 : (0 <= IZR k)%R) by (apply IZR_le; lia).
  destruct (div_FR_between 0%float (FloatFacts.Z2F k) (FloatFacts.Z2F k) 2%float) as (Fq & Vq & _);
    try (assumption || reflexivity).
  { rewrite FR_two. lra. }
  { rewrite FR_zero, FR_two, Vk. lra. }
  split; [exact Fq|]. rewrite Vq, Vk, FR_two. apply rnd64_id.
  replace (IZR k / 2)%R with (F2R (Float radix2 k (-1))).
  - apply format64_FLT; [exact Ak|lia].
  - unfold F2R. simpl. lra.
Qed.

Lemma amp_fraction_range va i : i < length va -> isnan (fnth va i) = false ->
  (Z.of_nat (length va) < 2 ^ 52)%Z ->
  (0 <? fnth (amp_fraction va) i)%float = true /\ (fnth (amp_fraction va) i <=? 1)%float = true.
Proof.
  intros Hi Hn Hlen. rewrite (amp_fraction_spec va i Hi Hn).
  destruct (rank_counts va i Hi Hn) as (E1 & L0 & S).
  set (k := (2 * n_less va (fnth va i) + n_eq va (fnth va i) + 1)%Z).
  set (n := Z.of_nat (length va)) in *.
  change FloatBase.Z2F with FloatFacts.Z2F.
  assert (Hk : (2 <= k <= 2 * n)%Z) by (unfold k; lia).
  destruct (Z2F_half k) as (Fx & Vx); [lia|].
  assert (An : (Z.abs n < 2 ^ 53)%Z) by (rewrite Z.abs_eq; lia).
  destruct (Z2F_exact n An) as (Fn & Vn).
  assert (K2 : (2 <= IZR k)%R) by (apply IZR_le; lia).
  assert (K2n : (IZR k <= 2 * IZR n)%R) by (rewrite <- mult_IZR; apply IZR_le; lia).
  assert (N53 : (IZR n <= IZR (2 ^ 53))%R) by (apply IZR_le; lia).
  destruct (div_pos_unit (FloatFacts.Z2F k / 2)%float (FloatFacts.Z2F n) Fx Fn) as (_ & P & U);
    rewrite ?Vx, ?Vn; try lra.
  split; assumption.
Qed.

(* the requested form: all amplitudes finite *)
Lemma amp_fraction_range_finite va i : i < length va ->
  (forall x, In x va -> finite x = true) -> (Z.of_nat (length va) < 2 ^ 52)%Z ->
  (0 <? fnth (amp_fraction va) i)%float = true /\ (fnth (amp_fraction va) i <=? 1)%float = true.
Proof.
  intros Hi Hf Hlen. apply amp_fraction_range; try assumption.
  apply finite_isnan, Hf, nth_In, Hi.
Qed.

(* ------------------------------------------------------------------ *)
(* B7: non-vacuity examples (vm_compute on small tables)                *)

Definition ex_rises : list PrimFloat.float := [8; 2; 4; 2]%float.
Definition ex_decays : list PrimFloat.float := [2; 2; 4; 1]%float.

Example ex_amp_cons_peak :
  amp_consistency true Both ex_rises ex_decays = Ok [fnan; 0.5; 0.5; fnan]%float.
Proof. vm_compute. reflexivity. Qed.

Example ex_amp_cons_trough :
  amp_consistency false Both ex_rises ex_decays = Ok [fnan; 0.25; 0.25; fnan]%float.
Proof. vm_compute. reflexivity. Qed.

(* the mirror: trough-centred = peak-centred with rises and decays exchanged *)
Example ex_amp_cons_mirror :
  amp_consistency true Both ex_decays ex_rises = Ok [fnan; 0.25; 0.25; fnan]%float.
Proof. vm_compute. reflexivity. Qed.

Example ex_amp_cons_trough_last :
  amp_consistency false Last ex_rises ex_decays = Ok [fnan; 0.25; 0.5; fnan]%float.
Proof. vm_compute. reflexivity. Qed.

Example ex_amp_cons_trough_next :
  amp_consistency false Next ex_rises ex_decays = Ok [fnan; 0.5; 0.25; fnan]%float.
Proof. vm_compute. reflexivity. Qed.

(* the hypotheses of amp_cons_at_range are satisfiable: every flank is finite and positive *)
Example ex_amp_cons_range_hyp : forall i, i < 8 -> posfin (flankseq true ex_rises ex_decays i).
Proof.
  intros i Hi. do 8 (destruct i as [|i]; [split; reflexivity|]). lia.
Qed.

(* a negative flank voltage gives a negative ratio, which is clamped to 0 *)
Example ex_amp_cons_clamp :
  amp_cons_at true Both [1; -1; 1]%float [1; 2; 1]%float 1 = (-1)%float /\
  amp_consistency true Both [1; -1; 1]%float [1; 2; 1]%float = Ok [fnan; 0; fnan]%float.
Proof. split; vm_compute; reflexivity. Qed.

Example ex_amp_cons_empty : amp_consistency true Both [] [] = Err EIndex.
Proof. reflexivity. Qed.

(* ranks with a tie: the two 3s share ranks 3 and 4 *)
Example ex_amp_fraction_tie :
  amp_fraction [3; 1; 3; 2]%float = [0.875; 0.25; 0.875; 0.5]%float.
Proof. vm_compute. reflexivity. Qed.

Example ex_amp_fraction_nan :
  amp_fraction [3; fnan; 1; 1]%float = [0.75; fnan; 0.375; 0.375]%float.
Proof. vm_compute. reflexivity. Qed.

Example ex_period_cons_both :
  period_consistency Both [10; 20; 40; 40; 10]%Z = Ok [fnan; 0.5; 0.5; 0.25; fnan]%float.
Proof. vm_compute. reflexivity. Qed.

Example ex_period_cons_next :
  period_consistency Next [10; 20; 40; 40; 10]%Z = Ok [fnan; 0.5; 1; 0.25; fnan]%float.
Proof. vm_compute. reflexivity. Qed.

Example ex_period_cons_empty : period_consistency Both [] = Err EIndex.
Proof. reflexivity. Qed.

Definition ex_sig : list PrimFloat.float := [0; 1; 2; 1; 0.5; 0.75; 0]%float.
Definition ex_row : srow :=
  {| s_center := 2; s_last := 0; s_next := 6; s_zx_rise := 1; s_zx_decay := 3; s_last_zx := 0 |}.

(* rise 0,1,2 fully monotone; decay 2,1,.5,.75,0 has 3 of 4 decreasing steps *)
Example ex_monotonicity : monotonicity_row true ex_sig ex_row = 0.875%float.
Proof. vm_compute. reflexivity. Qed.

Example ex_monotonicity_mirror :
  monotonicity_row false (map PrimFloat.opp ex_sig) ex_row = 0.875%float.
Proof. vm_compute. reflexivity. Qed.

Example ex_burst_fraction :
  burst_fraction_row [true; true; false; true; false; false; false; true]
    {| s_center := 2; s_last := 0; s_next := 3; s_zx_rise := 1; s_zx_decay := 3; s_last_zx := 0 |}
  = 0.75%float.
Proof. vm_compute. reflexivity. Qed.

(* ------------------------------------------------------------------ *)
(* WP3 (clause audit B.5): period consistency as the smaller min/max     *)
(* ratio with the previous and the next period; monotonicity as the      *)
(* mean of the two flank fractions over the INCLUSIVE flank slices.     *)

Lemma zratio_def a b :
  zratio a b = (FloatBase.Z2F (Z.min a b) / FloatBase.Z2F (Z.max a b))%float.
Proof. reflexivity. Qed.

Lemma zratio_sym a b : zratio a b = zratio b a.
Proof. unfold zratio. rewrite (Z.min_comm a b), (Z.max_comm a b). reflexivity. Qed.

(* interior cycle: the ratio of its own period with the next / the previous period, or the
   smaller of the two *)
Lemma period_cons_at_def d periods c :
  period_cons_at d periods c =
  match d with
  | Both => fmin2 (zratio (nth c periods 0%Z) (nth (c + 1) periods 0%Z))
                  (zratio (nth c periods 0%Z) (nth (c - 1) periods 0%Z))
  | Next => zratio (nth c periods 0%Z) (nth (c + 1) periods 0%Z)
  | Last => zratio (nth c periods 0%Z) (nth (c - 1) periods 0%Z)
  end.
Proof.
  unfold period_cons_at. cbv zeta.
  rewrite (zratio_sym (nth (c + 1) periods 0%Z) (nth c periods 0%Z)).
  destruct d; reflexivity.
Qed.

Lemma SFcompare_notnan x y : x <> S754_nan -> y <> S754_nan -> SFcompare x y <> None.
Proof.
  destruct x as [sx|sx| |sx mx ex]; destruct y as [sy|sy| |sy my ey]; cbn [SFcompare];
    intros Hx Hy; try congruence; try (destruct sx; discriminate); try (destruct sy; discriminate);
    try (destruct sx, sy; discriminate).
Qed.

Lemma notnan_Prim2SF x : isnan x = false -> Prim2SF x <> S754_nan.
Proof.
  intros H E. apply isnan_Prim2SF in E. rewrite E in H. discriminate H.
Qed.

(* for non-NaN values (infinities and signed zeros included) "not y < x" is "x <= y" *)
Lemma nltb_leb_notnan (x y : PrimFloat.float) : isnan x = false -> isnan y = false ->
  (y <? x)%float = false -> (x <=? y)%float = true.
Proof.
  intros Nx Ny. rewrite ltb_spec, leb_spec. unfold SFltb, SFleb.
  rewrite (SFcompare_swap (Prim2SF x) (Prim2SF y)).
  assert (Hc := SFcompare_notnan _ _ (notnan_Prim2SF _ Nx) (notnan_Prim2SF _ Ny)).
  destruct (SFcompare (Prim2SF x) (Prim2SF y)) as [[| |]|]; cbn [CompOpp]; intros H;
    try reflexivity; try discriminate H. exfalso. apply Hc. reflexivity.
Qed.

Lemma leb_refl_notnan (x : PrimFloat.float) : isnan x = false -> (x <=? x)%float = true.
Proof.
  intros Nx. apply nltb_leb_notnan; try exact Nx.
  destruct (x <? x)%float eqn:E; [|reflexivity].
  rewrite (ltb_asym x x E) in E. discriminate E.
Qed.

(* np.min([a, b]): one of the two and not larger than either; NaN as soon as one is NaN *)
Lemma fmin2_smaller a b : isnan a = false -> isnan b = false ->
  (fmin2 a b = a \/ fmin2 a b = b) /\
  (fmin2 a b <=? a)%float = true /\ (fmin2 a b <=? b)%float = true.
Proof.
  intros Na Nb. unfold fmin2. rewrite Na, Nb. destruct (b <? a)%float eqn:E.
  - split; [right; reflexivity|]. split; [apply ltb_leb_all, E|apply leb_refl_notnan, Nb].
  - split; [left; reflexivity|]. split; [apply leb_refl_notnan, Na|apply nltb_leb_notnan; assumption].
Qed.

Lemma fmin2_nan a b : isnan a = true \/ isnan b = true -> isnan (fmin2 a b) = true.
Proof.
  intros H. unfold fmin2. destruct (isnan a) eqn:Na; [exact Na|].
  destruct H as [H|H]; [discriminate H|]. rewrite H. exact H.
Qed.

(* count / length *)
Lemma frac_true_def l :
  frac_true l = (FloatBase.Z2F (Z.of_nat (count_true l)) / FloatBase.Z2F (Z.of_nat (length l)))%float.
Proof. reflexivity. Qed.

(* centring-free form of monotonicity: the flank before the centre extremum rises for a
   peak-centred row and decays for a trough-centred one; the flank after it does the opposite *)
Lemma monotonicity_row_flanks peak sig r :
  monotonicity_row peak sig r =
  ((frac_true (steps peak (zslice sig (s_last r) (s_center r + 1))) +
    frac_true (steps (negb peak) (zslice sig (s_center r) (s_next r + 1)))) / 2)%float.
Proof.
  unfold monotonicity_row. cbv zeta. destruct peak; cbn [negb].
  - rewrite (add_comm (frac_true (steps false (zslice sig (s_center r) (s_next r + 1))))). reflexivity.
  - reflexivity.
Qed.

Lemma nth_firstn_lt' {A} (l : list A) n k d : k < n -> nth k (firstn n l) d = nth k l d.
Proof.
  revert n k. induction l as [|x l IH]; intros n k H.
  - rewrite firstn_nil. reflexivity.
  - destruct n as [|n]; [lia|]. destruct k as [|k]; [reflexivity|]. cbn [firstn nth]. apply IH. lia.
Qed.

Lemma nth_skipn_add' {A} (l : list A) a k d : nth k (skipn a l) d = nth (a + k) l d.
Proof.
  revert a. induction l as [|x l IH]; intros a.
  - rewrite skipn_nil. destruct k, a; reflexivity.
  - destruct a as [|a]; [reflexivity|]. cbn [skipn plus nth]. apply IH.
Qed.

(* sig[a : b+1] holds the samples a, a+1, ..., b : both end points belong to the flank *)
Lemma zslice_incl_nth {A} (l : list A) (a b : Z) k d :
  (0 <= a)%Z -> (a <= b)%Z -> k <= Z.to_nat (b - a) ->
  nth k (zslice l a (b + 1)) d = nth (Z.to_nat a + k) l d.
Proof.
  intros H0 Hab Hk. unfold zslice, slice.
  rewrite nth_firstn_lt' by lia. apply nth_skipn_add'.
Qed.

(* a flank from sample a to sample b (inclusive) has exactly b - a steps, and step k compares the
   consecutive samples a+k and a+k+1 of the signal, strictly *)
Lemma flank_steps up (sig : list PrimFloat.float) (a b : Z) :
  (0 <= a)%Z -> (a <= b)%Z -> (b < Z.of_nat (length sig))%Z ->
  length (steps up (zslice sig a (b + 1))) = Z.to_nat (b - a) /\
  forall k, k < Z.to_nat (b - a) ->
    nth k (steps up (zslice sig a (b + 1))) false =
    if up then (nth (Z.to_nat a + k) sig 0 <? nth (Z.to_nat a + S k) sig 0)%float
    else (nth (Z.to_nat a + S k) sig 0 <? nth (Z.to_nat a + k) sig 0)%float.
Proof.
  intros H0 Hab Hb.
  assert (L : length (zslice sig a (b + 1)) = Z.to_nat (b - a + 1)) by (apply zslice_length; lia).
  split.
  - rewrite steps_length, L. lia.
  - intros k Hk. rewrite steps_spec by (rewrite L; lia).
    rewrite !zslice_incl_nth by lia. reflexivity.
Qed.
