(* Structural facts about the labelling rules (C06, C07). No axioms. *)
From Coq Require Import List Arith Lia Bool ZArith Floats.PrimFloat.
Import ListNotations.
From ByC Require Import Base.Result Model.Runs Proofs.Runs Model.Labels.

Lemma removelast_length {A} (l : list A) : length (removelast l) = length l - 1.
Proof.
  induction l as [|x [|y t] IH]; cbn [removelast length] in *; try lia.
Qed.

Lemma nth_removelast (l : list bool) i : i < length l - 1 -> nth i (removelast l) false = nth i l false.
Proof.
  revert i; induction l as [|x [|y t] IH]; intros i Hi; cbn [length] in *; try lia.
  cbn [removelast]. destruct i as [|i]; [reflexivity|]. cbn [nth]. apply IH. cbn [length]. lia.
Qed.

Lemma force_ends_length l : length (force_ends l) = length l.
Proof.
  destruct l as [|x [|y t]]; cbn [force_ends length]; try reflexivity.
  rewrite app_length, removelast_length. cbn [length]. lia.
Qed.

Lemma nth_force_ends l i :
  nth i (force_ends l) false = (0 <? i) && (S i <? length l) && nth i l false.
Proof.
  destruct l as [|x t]; [destruct i; reflexivity|].
  destruct i as [|i]; [reflexivity|].
  cbn [force_ends nth length]. change (0 <? S i) with true. cbn [andb].
  destruct t as [|y u].
  { cbn. destruct i; reflexivity. }
  destruct (Nat.lt_ge_cases i (length (y :: u) - 1)) as [Hi|Hi].
  - rewrite app_nth1 by (rewrite removelast_length; exact Hi).
    rewrite nth_removelast by exact Hi.
    replace (S (S i) <? S (length (y :: u))) with true; [reflexivity|].
    symmetry; apply Nat.ltb_lt. cbn [length] in *. lia.
  - replace (S (S i) <? S (length (y :: u))) with false
      by (symmetry; apply Nat.ltb_ge; cbn [length] in *; lia).
    cbn [andb]. rewrite app_nth2 by (rewrite removelast_length; lia).
    rewrite removelast_length.
    destruct (i - (length (y :: u) - 1)) as [|[|k]]; reflexivity.
Qed.

(* interior window: all-qualifying stretch [a,b) avoiding the first and last cycle *)
Definition interior_window (q : list bool) (n i : nat) : Prop :=
  exists a b, 0 < a /\ a <= i < b /\ S b <= length q /\ n <= b - a /\
              forall j, a <= j < b -> nth j q false = true.

Lemma window_force_ends q n i : window (force_ends q) n i <-> interior_window q n i.
Proof.
  split.
  - intros (a & b & Hi & Hb & Hn & Hall). rewrite force_ends_length in Hb.
    assert (Ha : 0 < a).
    { destruct a; [|lia]. specialize (Hall 0 ltac:(lia)). rewrite nth_force_ends in Hall. discriminate. }
    assert (Hb' : S b <= length q).
    { destruct (Nat.lt_ge_cases b (length q)); [lia|].
      specialize (Hall (b - 1) ltac:(lia)). rewrite nth_force_ends in Hall.
      replace (S (b - 1) <? length q) with false in Hall
        by (symmetry; apply Nat.ltb_ge; lia).
      rewrite andb_false_r in Hall. discriminate. }
    exists a, b. repeat split; try lia.
    intros j Hj. specialize (Hall j Hj). rewrite nth_force_ends in Hall.
    apply andb_true_iff in Hall as [_ H]. exact H.
  - intros (a & b & Ha & Hi & Hb & Hn & Hall).
    exists a, b. rewrite force_ends_length. repeat split; try lia.
    intros j Hj. rewrite nth_force_ends, (Hall j Hj).
    replace (0 <? j) with true by (symmetry; apply Nat.ltb_lt; lia).
    replace (S j <? length q) with true by (symmetry; apply Nat.ltb_lt; lia).
    reflexivity.
Qed.

Lemma labels_cycles_ok t n rows lab : labels_cycles t n rows = Ok lab ->
  thr_valid t = true /\ (rows <> [] -> (0 <= n)%Z) /\
  lab = minrun (Z.to_nat n) (force_ends (map (qualifies t) rows)).
Proof.
  unfold labels_cycles. destruct (thr_valid t); cbn [negb]; [|discriminate].
  destruct rows as [|r rs].
  { intros [= <-]. repeat split; auto. congruence. }
  destruct (n <? 0)%Z eqn:E; [discriminate|]. intros [= <-].
  apply Z.ltb_ge in E. repeat split; auto.
Qed.

Theorem labels_cycles_spec t n rows lab i : labels_cycles t n rows = Ok lab ->
  (nth i lab false = true <-> interior_window (map (qualifies t) rows) (Z.to_nat n) i).
Proof.
  intros H. apply labels_cycles_ok in H as (_ & _ & ->).
  rewrite minrun_spec. apply window_force_ends.
Qed.

Theorem labels_cycles_length t n rows lab : labels_cycles t n rows = Ok lab -> length lab = length rows.
Proof.
  intros H. apply labels_cycles_ok in H as (_ & _ & ->).
  now rewrite minrun_length, force_ends_length, map_length.
Qed.

Theorem labels_cycles_ends t n rows lab : labels_cycles t n rows = Ok lab ->
  nth 0 lab false = false /\ nth (length rows - 1) lab false = false.
Proof.
  intros H. split.
  - destruct (nth 0 lab false) eqn:E; [|reflexivity].
    apply (labels_cycles_spec _ _ _ _ 0 H) in E as (a & b & ? & ? & _). lia.
  - destruct (nth (length rows - 1) lab false) eqn:E; [|reflexivity].
    apply (labels_cycles_spec _ _ _ _ _ H) in E as (a & b & ? & ? & Hb & _).
    rewrite map_length in Hb. lia.
Qed.

Theorem labels_cycles_only_qualifying t n rows lab i : labels_cycles t n rows = Ok lab ->
  nth i lab false = true -> nth i (map (qualifies t) rows) false = true.
Proof.
  intros H E. apply (labels_cycles_spec _ _ _ _ _ H) in E as (a & b & _ & Hi & _ & _ & Hall).
  now apply Hall.
Qed.

(* errors: exactly the documented rejections (an empty table is labelled by an empty column) *)
Theorem labels_cycles_err t n rows :
  (exists e, labels_cycles t n rows = Err e) <-> (thr_valid t = false \/ (rows <> [] /\ (n < 0)%Z)).
Proof.
  unfold labels_cycles. destruct (thr_valid t); cbn [negb].
  2:{ split; eauto. }
  destruct rows as [|r rs].
  { split; [intros [e He]; discriminate|]. intros [H|[H _]]; [discriminate|congruence]. }
  destruct (n <? 0)%Z eqn:E.
  - apply Z.ltb_lt in E. split; eauto. intros _. right. split; [discriminate|exact E].
  - apply Z.ltb_ge in E. split.
    + intros [e He]. discriminate.
    + intros [H|[_ H]]; try discriminate; lia.
Qed.

Theorem labels_cycles_empty t n : thr_valid t = true -> labels_cycles t n [] = Ok [].
Proof. intros H. unfold labels_cycles. now rewrite H. Qed.

(* monotonicity, given that raising a threshold only removes qualifying cycles *)
Theorem labels_cycles_mono_gen t t' n n' rows lab lab' :
  (forall r, qualifies t' r = true -> qualifies t r = true) -> (n <= n')%Z ->
  labels_cycles t n rows = Ok lab -> labels_cycles t' n' rows = Ok lab' ->
  forall i, nth i lab' false = true -> nth i lab false = true.
Proof.
  intros Hq Hn H H' i E.
  apply (labels_cycles_spec _ _ _ _ _ H).
  apply (labels_cycles_spec _ _ _ _ _ H') in E as (a & b & Ha & Hi & Hb & Hw & Hall).
  rewrite map_length in Hb.
  exists a, b. rewrite map_length. repeat split; try lia.
  intros j Hj. specialize (Hall j Hj).
  rewrite nth_indep with (d' := qualifies t' (Build_feat4 0 0 0 0)) in Hall by (rewrite map_length; lia).
  rewrite nth_indep with (d' := qualifies t (Build_feat4 0 0 0 0)) by (rewrite map_length; lia).
  rewrite map_nth in *. now apply Hq.
Qed.

(* amplitude rule *)
Lemma labels_amp_ok t n fr lab : labels_amp t n fr = Ok lab -> fr <> [] -> 
  (0 <= n)%Z /\ lab = minrun (Z.to_nat n) (map (fun f => geb f t) fr).
Proof.
  unfold labels_amp. destruct (in_range t 0 1); cbn [negb]; [|discriminate].
  destruct fr as [|f fs]; [congruence|].
  destruct (n <? 0)%Z eqn:E; [discriminate|]. intros [= <-] _.
  apply Z.ltb_ge in E. split; auto.
Qed.

Theorem labels_amp_spec t n fr lab i : labels_amp t n fr = Ok lab ->
  (nth i lab false = true <-> window (map (fun f => geb f t) fr) (Z.to_nat n) i).
Proof.
  intros H. destruct fr as [|f fs].
  - unfold labels_amp in H. destruct (in_range t 0 1); cbn in H; [|discriminate].
    injection H as <-. split.
    + destruct i; discriminate.
    + intros (a & b & ? & Hb & _). cbn in Hb. lia.
  - apply labels_amp_ok in H as (_ & ->); [|discriminate]. apply minrun_spec.
Qed.

Theorem labels_amp_length t n fr lab : labels_amp t n fr = Ok lab -> length lab = length fr.
Proof.
  intros H. destruct fr as [|f fs].
  - unfold labels_amp in H. destruct (in_range t 0 1); cbn in H; [|discriminate]. now injection H as <-.
  - apply labels_amp_ok in H as (_ & ->); [|discriminate]. now rewrite minrun_length, map_length.
Qed.

Theorem labels_amp_mono_gen t t' n fr lab lab' :
  (forall f, geb f t' = true -> geb f t = true) ->
  labels_amp t n fr = Ok lab -> labels_amp t' n fr = Ok lab' ->
  forall i, nth i lab' false = true -> nth i lab false = true.
Proof.
  intros Hq H H' i E.
  apply (labels_amp_spec _ _ _ _ _ H).
  apply (labels_amp_spec _ _ _ _ _ H') in E as (a & b & Hi & Hb & Hw & Hall).
  rewrite map_length in Hb.
  exists a, b. rewrite map_length. repeat split; try lia.
  intros j Hj. specialize (Hall j Hj).
  rewrite nth_indep with (d' := geb 0%float t') in Hall by (rewrite map_length; lia).
  rewrite nth_indep with (d' := geb 0%float t) by (rewrite map_length; lia).
  rewrite (map_nth (fun f => geb f t')) in Hall. rewrite (map_nth (fun f => geb f t)). now apply Hq.
Qed.

(* one and the same minimum-cycle count reaches the detector and the run filter *)
Theorem min_n_consistent bk tk :
  detector_min_n bk tk = filter_min_n bk tk /\
  detector_min_n bk tk = match bk with Some b => b | None => match tk with Some t => t | None => 3%Z end end.
Proof. destruct bk, tk; split; reflexivity. Qed.

Example labels_cycles_example :
  let r q := if q : bool then Build_feat4 1 1 1 1 else Build_feat4 0 0 0 0 in
  labels_cycles (Build_thr4 0 0.5 0.5 0.75) 3 (map r [true;true;true;true;false;true;true;false;true;true])
  = Ok [false;true;true;true;false;false;false;false;false;false].
Proof. vm_compute. reflexivity. Qed.
