(* Threshold monotonicity of the labelling rules for binary64 (C06, C07, C16):
   needs the IEEE order facts of Base/FloatFacts.v (Flocq; classical reals axioms). *)
From Coq Require Import List Arith Lia Bool ZArith.
From Coq Require Import Floats.PrimFloat.
Import ListNotations.
From ByC Require Import Base.Result Base.FloatFacts Model.Runs Proofs.Runs Model.Labels Proofs.Labels.

Definition thr_finite (t : thr4) : Prop :=
  finite (t_af t) = true /\ finite (t_ac t) = true /\ finite (t_pc t) = true /\ finite (t_mo t) = true.
Definition thr_le (t t' : thr4) : Prop :=
  PrimFloat.leb (t_af t) (t_af t') = true /\ PrimFloat.leb (t_ac t) (t_ac t') = true /\
  PrimFloat.leb (t_pc t) (t_pc t') = true /\ PrimFloat.leb (t_mo t) (t_mo t') = true.

(* feature values are arbitrary binary64 values: NaN and infinities included *)
Lemma qualifies_mono t t' r : thr_finite t -> thr_finite t' -> thr_le t t' ->
  qualifies t' r = true -> qualifies t r = true.
Proof.
  intros (F1 & F2 & F3 & F4) (G1 & G2 & G3 & G4) (L1 & L2 & L3 & L4).
  unfold qualifies, gt. rewrite !andb_true_iff. intros [[[H1 H2] H3] H4].
  repeat split.
  - apply (ltb_mono_thr _ (t_af t')); assumption.
  - apply (ltb_mono_thr _ (t_ac t')); assumption.
  - apply (ltb_mono_thr _ (t_pc t')); assumption.
  - apply (ltb_mono_thr _ (t_mo t')); assumption.
Qed.

Theorem labels_cycles_mono t t' n n' rows lab lab' :
  thr_finite t -> thr_finite t' -> thr_le t t' -> (n <= n')%Z ->
  labels_cycles t n rows = Ok lab -> labels_cycles t' n' rows = Ok lab' ->
  forall i, nth i lab' false = true -> nth i lab false = true.
Proof.
  intros F G L Hn. apply labels_cycles_mono_gen; [|exact Hn].
  intros r. now apply qualifies_mono.
Qed.

Theorem labels_amp_mono t t' n fr lab lab' :
  finite t = true -> finite t' = true -> PrimFloat.leb t t' = true ->
  labels_amp t n fr = Ok lab -> labels_amp t' n fr = Ok lab' ->
  forall i, nth i lab' false = true -> nth i lab false = true.
Proof.
  intros F G L. apply labels_amp_mono_gen. intros f. unfold geb. now apply leb_mono_thr.
Qed.

(* raising min_n_cycles on the amplitude rule *)
Theorem labels_amp_mono_n t n n' fr lab lab' : (0 <= n <= n')%Z ->
  labels_amp t n fr = Ok lab -> labels_amp t n' fr = Ok lab' ->
  forall i, nth i lab' false = true -> nth i lab false = true.
Proof.
  intros Hn H H' i E.
  apply (labels_amp_spec _ _ _ _ _ H).
  apply (labels_amp_spec _ _ _ _ _ H') in E as (a & b & Hi & Hb & Hw & Hall).
  exists a, b. repeat split; try lia. exact Hall.
Qed.
