(* C10 - amplitude-scale covariance of the sample-level models.

   Property C10: multiplying the signal by a positive constant leaves every sample index,
   duration, symmetry, consistency, monotonicity, amplitude-fraction and burst label
   unchanged and multiplies every voltage feature by that constant.

   The models work on binary64 floats, where `x * c` is exact only in the absence of
   overflow / underflow, so covariance is stated RELATIVE TO AN EXPLICIT, CHECKABLE
   HYPOTHESIS: `s : float -> float` is a map on sample values (think `x * 2^k`) which, ON THE
   VALUES THAT ACTUALLY OCCUR in the input, commutes with the handful of float operations the
   model applies (`scale_on s vals`).  Every theorem below holds for every input satisfying
   the hypothesis; the boolean checker `scale_onb` decides the hypothesis on any concrete
   input (`scale_onb_sound`), and the Examples at the end show that it holds for `x * 4` and
   `x * 2^-20` on the example signal of Proofs/Cycles.v, so the theorems are not vacuous.

   What is NOT an argument of the scaled run, and why:
   - the sign bits `pos` (`x_pos` / `k_pos`), the padding length (`x_padn` / `k_padn`) and the
     boundary are INPUTS of the model that the harness obtains from the external neurodsp
     kernels.  The band-pass filter is linear, so for c > 0 the sign bits of
     bandpass(pad(c * sig)) are those of bandpass(pad(sig)); the padding length depends on
     the filter length only.  This linearity is an ASSUMPTION ABOUT THE EXTERNAL KERNEL (it is
     not modelled, hence not proved, here): the theorems take the same `pos`, `padn`,
     `boundary` for the scaled and the unscaled signal.
   - the amplitude envelope `k_amp` (amp_by_time) does scale; it only feeds the `band_amp`
     column, so S4 lets it differ arbitrarily and says nothing about `band_amp`.
   - the sampling rate and the band edges are not arguments of ANY model function: they
     enter only through the kernel inputs above.

   Contents:
     S1 argmax_first_scale / argmin_first_scale
     S2 find_extrema_scale
     S3 find_zerox_scale
     S5 monotonicity_row_scale
     S7 scale_onb, scale_onb_sound, scale_onb_complete (checker for scale_on)
     S4 shape_table_scale_samples (Peak), shape_table_scale_samples_trough: same sample rows,
        same integer and symmetry columns, volt_peak / volt_trough mapped by s
     S6 amp_fraction_scale, ratio_minmax_scale, amp_consistency_scale (laws on derived columns)
     S8 labels_cycles_scale, labels_amp_scale
     S9 (beyond the request) volt_on: s commutes with the two arithmetic expressions of the shape
        features; shape_table_scale_volts: ALL voltage features mapped by s;
        compute_features_scale / c10_checked: the whole table of compute_features - same sample
        rows, same burst features (amp_fraction, amp_consistency, period_consistency,
        monotonicity, burst_fraction), same labels, voltages mapped by s, same errors - under
        the single boolean hypothesis c10_hypb
     Module ScaleExamples: non-vacuity (x * 4, x * 2^-20 pass; x * 3 passes on small integers
        and fails on a non-dyadic signal, where the features really change in the last place;
        underflow / overflow / shift fail). *)
From Coq Require Import List Bool Arith ZArith Lia Floats.PrimFloat Floats.FloatAxioms.
Import ListNotations.
From ByC Require Import Base.Result Base.ListAux Base.FloatBase Harness.Compare
  Model.Runs Model.Labels Model.Extrema Model.Zerox Model.Cycles Model.BurstFeat Model.Features.
Require ByC.Proofs.Cycles.

(* ------------------------------------------------------------------------- *)
(* The hypothesis                                                            *)
(* ------------------------------------------------------------------------- *)

Record scale_on (s : float -> float) (vals : list float) : Prop := {
  so_zero : s 0%float = 0%float;                                   (* padding zeros *)
  so_ltb  : forall x y, In x (0%float :: vals) -> In y (0%float :: vals) ->
              (s x <? s y)%float = (x <? y)%float;
  so_eqb  : forall x y, In x (0%float :: vals) -> In y (0%float :: vals) ->
              (s x =? s y)%float = (x =? y)%float;
  so_mid  : forall x y v, In x vals -> In y vals -> In v vals ->
              (s v <=? (s x + s y) / 2)%float = (v <=? (x + y) / 2)%float /\
              ((s x + s y) / 2 <? s v)%float = ((x + y) / 2 <? v)%float }.

(* the order law alone, on a list *)
Definition ltb_on (s : float -> float) (l : list float) : Prop :=
  forall x y, In x l -> In y l -> (s x <? s y)%float = (x <? y)%float.

Lemma ltb_on_incl s l l' : (forall x, In x l' -> In x l) -> ltb_on s l -> ltb_on s l'.
Proof. intros Hinc H x y Hx Hy. apply H; apply Hinc; assumption. Qed.

(* ------------------------------------------------------------------------- *)
(* List lemmas                                                               *)
(* ------------------------------------------------------------------------- *)

Lemma map_repeat' {A B} (f : A -> B) (x : A) n : map f (repeat x n) = repeat (f x) n.
Proof. induction n as [|n IH]; cbn [repeat map]; [reflexivity | rewrite IH; reflexivity]. Qed.

Lemma slice_map {A B} (f : A -> B) (l : list A) a b : slice (map f l) a b = map f (slice l a b).
Proof. unfold slice. rewrite skipn_map, firstn_map. reflexivity. Qed.

Lemma zslice_map {A B} (f : A -> B) (l : list A) a b : zslice (map f l) a b = map f (zslice l a b).
Proof. unfold zslice. apply slice_map. Qed.

Lemma In_firstn {A} (x : A) n l : In x (firstn n l) -> In x l.
Proof.
  revert l. induction n as [|n IH]; intros l H; cbn [firstn] in H; [contradiction|].
  destruct l as [|y t]; [contradiction|]. destruct H as [H|H]; [left; exact H | right; apply IH; exact H].
Qed.

Lemma In_skipn {A} (x : A) n l : In x (skipn n l) -> In x l.
Proof.
  revert l. induction n as [|n IH]; intros l H; cbn [skipn] in H; [exact H|].
  destruct l as [|y t]; [contradiction|]. right. apply IH. exact H.
Qed.

Lemma In_slice {A} (x : A) l a b : In x (slice l a b) -> In x l.
Proof. unfold slice. intro H. apply In_skipn with (n := a). apply In_firstn with (n := b - a). exact H. Qed.

Lemma In_zslice {A} (x : A) l a b : In x (zslice l a b) -> In x l.
Proof. unfold zslice. apply In_slice. Qed.

Lemma pad_map s n l : s 0%float = 0%float -> pad n (map s l) = map s (pad n l).
Proof.
  intro H0. unfold pad. rewrite !map_app, map_repeat', H0. reflexivity.
Qed.

Lemma In_pad x n l : In x (pad n l) -> In x (0%float :: l).
Proof.
  unfold pad. intro H. apply in_app_or in H. destruct H as [H|H].
  - apply repeat_spec in H. left. symmetry. exact H.
  - apply in_app_or in H. destruct H as [H|H]; [right; exact H|].
    apply repeat_spec in H. left. symmetry. exact H.
Qed.

Lemma mapM_ext_in {A B} (f g : A -> result B) l :
  (forall x, In x l -> f x = g x) -> mapM f l = mapM g l.
Proof.
  induction l as [|x t IH]; intro H; cbn [mapM]; [reflexivity|].
  rewrite (H x (or_introl eq_refl)). rewrite IH; [reflexivity|].
  intros y Hy. apply H. right. exact Hy.
Qed.

(* ------------------------------------------------------------------------- *)
(* S1: first arg-max / arg-min                                               *)
(* ------------------------------------------------------------------------- *)

(* invariant of argbest: the best value of the mapped run is `s` of the best value of the
   original run, at the same index *)
Lemma argbest_max_scale s t : forall i bi bv, ltb_on s (bv :: t) ->
  argbest (fun x b => (b <? x)%float) (map s t) i bi (s bv) =
  argbest (fun x b => (b <? x)%float) t i bi bv.
Proof.
  induction t as [|x t IH]; intros i bi bv H; cbn [map argbest]; [reflexivity|].
  rewrite (H bv x); [|left; reflexivity | right; left; reflexivity].
  destruct (bv <? x)%float eqn:E.
  - apply IH. apply ltb_on_incl with (2 := H). intros z Hz. right. exact Hz.
  - apply IH. apply ltb_on_incl with (2 := H). intros z [Hz|Hz]; [left; exact Hz | right; right; exact Hz].
Qed.

Lemma argbest_min_scale s t : forall i bi bv, ltb_on s (bv :: t) ->
  argbest (fun x b => (x <? b)%float) (map s t) i bi (s bv) =
  argbest (fun x b => (x <? b)%float) t i bi bv.
Proof.
  induction t as [|x t IH]; intros i bi bv H; cbn [map argbest]; [reflexivity|].
  rewrite (H x bv); [|right; left; reflexivity | left; reflexivity].
  destruct (x <? bv)%float eqn:E.
  - apply IH. apply ltb_on_incl with (2 := H). intros z Hz. right. exact Hz.
  - apply IH. apply ltb_on_incl with (2 := H). intros z [Hz|Hz]; [left; exact Hz | right; right; exact Hz].
Qed.

Theorem argmax_first_scale s l :
  (forall x y, In x l -> In y l -> (s x <? s y)%float = (x <? y)%float) ->
  argmax_first (map s l) = argmax_first l.
Proof.
  intro H. destruct l as [|x t]; cbn [map argmax_first]; [reflexivity|].
  f_equal. apply argbest_max_scale. exact H.
Qed.

Theorem argmin_first_scale s l :
  (forall x y, In x l -> In y l -> (s x <? s y)%float = (x <? y)%float) ->
  argmin_first (map s l) = argmin_first l.
Proof.
  intro H. destruct l as [|x t]; cbn [map argmin_first]; [reflexivity|].
  f_equal. apply argbest_min_scale. exact H.
Qed.

(* ------------------------------------------------------------------------- *)
(* S2: find_extrema                                                          *)
(* ------------------------------------------------------------------------- *)

Lemma extremum_after_scale s (arg : list float -> option nat) sigp others a :
  (forall l, (forall x, In x l -> In x sigp) -> arg (map s l) = arg l) ->
  extremum_after arg (map s sigp) others a = extremum_after arg sigp others a.
Proof.
  intro Harg. unfold extremum_after.
  destruct (find (fun d => Nat.ltb a d) others) as [b|]; [|reflexivity].
  rewrite slice_map. rewrite Harg; [reflexivity|].
  intros x Hx. apply In_slice in Hx. exact Hx.
Qed.

Lemma raw_extrema_scale s pos sigp : ltb_on s sigp ->
  raw_extrema pos (map s sigp) = raw_extrema pos sigp.
Proof.
  intro H. unfold raw_extrema.
  destruct (rises_of (events 0 pos)) as [|r rs] eqn:Er; [reflexivity|].
  destruct (decays_of (events 0 pos)) as [|d ds] eqn:Ed; [reflexivity|].
  destruct (if Nat.ltb (last (d :: ds) 0) (last (r :: rs) 0)
            then ((length (r :: rs) - 1)%nat, length (d :: ds))
            else (length (r :: rs), (length (d :: ds) - 1)%nat)) as [np nt].
  rewrite (mapM_ext_in (extremum_after argmax_first (map s sigp) (d :: ds))
                       (extremum_after argmax_first sigp (d :: ds))).
  2:{ intros a _. apply extremum_after_scale. intros l Hl. apply argmax_first_scale.
      intros x y Hx Hy. apply H; apply Hl; assumption. }
  rewrite (mapM_ext_in (extremum_after argmin_first (map s sigp) (r :: rs))
                       (extremum_after argmin_first sigp (r :: rs))).
  2:{ intros a _. apply extremum_after_scale. intros l Hl. apply argmin_first_scale.
      intros x y Hx Hy. apply H; apply Hl; assumption. }
  reflexivity.
Qed.

Theorem find_extrema_scale s x : scale_on s (x_raw x) ->
  find_extrema {| x_pos := x_pos x; x_raw := map s (x_raw x); x_padn := x_padn x;
                  x_boundary := x_boundary x; x_first := x_first x |} = find_extrema x.
Proof.
  intro H. unfold find_extrema. cbn [x_pos x_raw x_padn x_boundary x_first].
  rewrite (pad_map s _ _ (so_zero _ _ H)).
  rewrite raw_extrema_scale.
  - rewrite map_length. reflexivity.
  - intros a b Ha Hb. apply (so_ltb _ _ H); apply In_pad with (n := x_padn x); assumption.
Qed.

(* ------------------------------------------------------------------------- *)
(* S3: find_zerox                                                            *)
(* ------------------------------------------------------------------------- *)

Lemma last_map_s {A B} (f : A -> B) l d : last (map f l) (f d) = f (last l d).
Proof.
  induction l as [|x t IH]; [reflexivity|].
  destruct t as [|y u]; [reflexivity|].
  change (last (map f (x :: y :: u)) (f d)) with (last (map f (y :: u)) (f d)).
  change (last (x :: y :: u) d) with (last (y :: u) d). exact IH.
Qed.

Lemma In_last {A} (l : list A) d : l <> [] -> In (last l d) l.
Proof.
  induction l as [|x t IH]; intro H; [congruence|].
  destruct t as [|y u]; [left; reflexivity|].
  right. change (last (x :: y :: u) d) with (last (y :: u) d). apply IH. discriminate.
Qed.

Lemma all_zero_scale s seg :
  s 0%float = 0%float ->
  (forall x, In x seg -> (s x =? s 0)%float = (x =? 0)%float) ->
  all_zero (map s seg) = all_zero seg.
Proof.
  intros H0 H. unfold all_zero. induction seg as [|x t IH]; cbn [map forallb]; [reflexivity|].
  rewrite <- H0 at 1. rewrite (H x (or_introl eq_refl)). rewrite IH; [reflexivity|].
  intros y Hy. apply H. right. exact Hy.
Qed.

Lemma level_crossings_scale s rise mid' mid seg : forall k,
  (forall v, In v seg -> on_start rise (s v) mid' = on_start rise v mid) ->
  level_crossings rise mid' k (map s seg) = level_crossings rise mid k seg.
Proof.
  induction seg as [|x t IH]; intros k H; cbn [map level_crossings]; [reflexivity|].
  destruct t as [|y u]; [reflexivity|].
  cbn [map]. rewrite (H x (or_introl eq_refl)). rewrite (H y (or_intror (or_introl eq_refl))).
  assert (IH' : level_crossings rise mid' (S k) (map s (y :: u)) = level_crossings rise mid (S k) (y :: u)).
  { apply IH. intros v Hv. apply H. right. exact Hv. }
  cbn [map] in IH'. rewrite IH'. reflexivity.
Qed.

Lemma flank_mid_scale s rise sig st e : scale_on s sig ->
  flank_mid rise (map s sig) st e = flank_mid rise sig st e.
Proof.
  intro H. unfold flank_mid. rewrite zslice_map.
  destruct (zslice sig st (e + 1)) as [|x0 t] eqn:Eseg; [reflexivity|].
  assert (Hin : forall v, In v (x0 :: t) -> In v sig).
  { intros v Hv. rewrite <- Eseg in Hv. apply In_zslice in Hv. exact Hv. }
  cbn [map]. change (s x0 :: map s t) with (map s (x0 :: t)).
  rewrite last_map_s. rewrite map_length.
  set (seg := x0 :: t) in *.
  assert (Hx0 : In x0 sig) by (apply Hin; left; reflexivity).
  assert (Hxl : In (last seg x0) sig) by (apply Hin; apply In_last; discriminate).
  rewrite (all_zero_scale s seg (so_zero _ _ H)).
  2:{ intros v Hv. apply (so_eqb _ _ H); [right; apply Hin; exact Hv | left; reflexivity]. }
  destruct (all_zero seg) eqn:Ez; [reflexivity|].
  rewrite (so_ltb _ _ H (last seg x0) x0 (or_intror Hxl) (or_intror Hx0)).
  rewrite (so_ltb _ _ H x0 (last seg x0) (or_intror Hx0) (or_intror Hxl)).
  destruct (if rise then (last seg x0 <? x0)%float else (x0 <? last seg x0)%float) eqn:Einv; [reflexivity|].
  rewrite (level_crossings_scale s rise _ ((x0 + last seg x0) / 2)%float seg 0).
  - reflexivity.
  - intros v Hv. destruct (so_mid _ _ H x0 (last seg x0) v Hx0 Hxl (Hin v Hv)) as [Hle Hlt].
    unfold on_start. destruct rise; assumption.
Qed.

Lemma flank_mids_scale s rise sig n starts ends bias : scale_on s sig ->
  flank_mids rise (map s sig) n starts ends bias = flank_mids rise sig n starts ends bias.
Proof.
  intro H. unfold flank_mids. destruct (n <? 0)%Z; [reflexivity|].
  apply mapM_ext_in. intros idx _.
  destruct (nth_res starts idx) as [st|err]; [|reflexivity]. cbn [bind].
  destruct (nth_res ends (idx + bias)) as [e|err]; [|reflexivity]. cbn [bind].
  apply flank_mid_scale. exact H.
Qed.

Theorem find_zerox_scale s sig peaks troughs : scale_on s sig ->
  find_zerox (map s sig) peaks troughs = find_zerox sig peaks troughs.
Proof.
  intro H. unfold find_zerox.
  destruct peaks as [|p0 ps]; [reflexivity|]. destruct troughs as [|t0 ts]; [reflexivity|].
  destruct (if (p0 <? t0)%Z
            then ((Z.of_nat (length (p0 :: ps)) - 1)%Z, Z.of_nat (length (t0 :: ts)), 0%nat)
            else (Z.of_nat (length (p0 :: ps)), (Z.of_nat (length (t0 :: ts)) - 1)%Z, 1%nat))
    as [[nr nd] bias].
  rewrite !(flank_mids_scale s _ sig _ _ _ _ H). reflexivity.
Qed.

(* ------------------------------------------------------------------------- *)
(* S5: monotonicity                                                          *)
(* ------------------------------------------------------------------------- *)

Lemma steps_scale s up l : ltb_on s l -> steps up (map s l) = steps up l.
Proof.
  induction l as [|x t IH]; intro H; cbn [map steps]; [reflexivity|].
  destruct t as [|y u]; [reflexivity|].
  cbn [map].
  rewrite (H x y (or_introl eq_refl) (or_intror (or_introl eq_refl))).
  rewrite (H y x (or_intror (or_introl eq_refl)) (or_introl eq_refl)).
  assert (IH' : steps up (map s (y :: u)) = steps up (y :: u)).
  { apply IH. apply ltb_on_incl with (2 := H). intros z Hz. right. exact Hz. }
  cbn [map] in IH'. rewrite IH'. reflexivity.
Qed.

Theorem monotonicity_row_scale peak s sig r :
  (forall x y, In x sig -> In y sig -> (s x <? s y)%float = (x <? y)%float) ->
  monotonicity_row peak (map s sig) r = monotonicity_row peak sig r.
Proof.
  intro H. unfold monotonicity_row. rewrite !zslice_map.
  assert (Hz : forall a b, ltb_on s (zslice sig a b)).
  { intros a b. apply ltb_on_incl with (2 := H). intros x Hx. apply In_zslice in Hx. exact Hx. }
  destruct peak; rewrite !steps_scale by apply Hz; reflexivity.
Qed.

Corollary monotonicity_column_scale peak s sig rows : scale_on s sig ->
  map (monotonicity_row peak (map s sig)) rows = map (monotonicity_row peak sig) rows.
Proof.
  intro H. apply map_ext. intro r. apply monotonicity_row_scale.
  intros x y Hx Hy. apply (so_ltb _ _ H); right; assumption.
Qed.

(* ------------------------------------------------------------------------- *)
(* S7 (first half): the checker                                              *)
(* ------------------------------------------------------------------------- *)

Definition scale_onb (s : float -> float) (vals : list float) : bool :=
  let v0 := 0%float :: vals in
  PrimFloat.Leibniz.eqb (s 0%float) 0%float &&
  forallb (fun x => forallb (fun y =>
     Bool.eqb (s x <? s y)%float (x <? y)%float && Bool.eqb (s x =? s y)%float (x =? y)%float) v0) v0 &&
  forallb (fun x => forallb (fun y => forallb (fun v =>
     Bool.eqb (s v <=? (s x + s y) / 2)%float (v <=? (x + y) / 2)%float &&
     Bool.eqb ((s x + s y) / 2 <? s v)%float ((x + y) / 2 <? v)%float) vals) vals) vals.

Theorem scale_onb_sound s vals : scale_onb s vals = true -> scale_on s vals.
Proof.
  unfold scale_onb. intro H.
  apply andb_true_iff in H. destruct H as [H Hmid].
  apply andb_true_iff in H. destruct H as [H0 Hcmp].
  rewrite forallb_forall in Hcmp. rewrite forallb_forall in Hmid.
  assert (Hc : forall x y, In x (0%float :: vals) -> In y (0%float :: vals) ->
               (s x <? s y)%float = (x <? y)%float /\ (s x =? s y)%float = (x =? y)%float).
  { intros x y Hx Hy. specialize (Hcmp x Hx). rewrite forallb_forall in Hcmp.
    specialize (Hcmp y Hy). apply andb_true_iff in Hcmp. destruct Hcmp as [Ha Hb].
    apply eqb_prop in Ha. apply eqb_prop in Hb. split; assumption. }
  constructor.
  - apply Leibniz.eqb_spec. exact H0.
  - intros x y Hx Hy. apply (Hc x y Hx Hy).
  - intros x y Hx Hy. apply (Hc x y Hx Hy).
  - intros x y v Hx Hy Hv. specialize (Hmid x Hx). rewrite forallb_forall in Hmid.
    specialize (Hmid y Hy). rewrite forallb_forall in Hmid. specialize (Hmid v Hv).
    apply andb_true_iff in Hmid. destruct Hmid as [Ha Hb].
    apply eqb_prop in Ha. apply eqb_prop in Hb. split; assumption.
Qed.

(* the checker is also complete: scale_on is decidable on every concrete input *)
Theorem scale_onb_complete s vals : scale_on s vals -> scale_onb s vals = true.
Proof.
  intro H. unfold scale_onb. apply andb_true_iff. split; [apply andb_true_iff; split|].
  - apply Leibniz.eqb_spec. exact (so_zero _ _ H).
  - apply forallb_forall. intros x Hx. apply forallb_forall. intros y Hy.
    rewrite (so_ltb _ _ H x y Hx Hy), (so_eqb _ _ H x y Hx Hy). rewrite !eqb_reflx. reflexivity.
  - apply forallb_forall. intros x Hx. apply forallb_forall. intros y Hy.
    apply forallb_forall. intros v Hv.
    destruct (so_mid _ _ H x y v Hx Hy Hv) as [Ha Hb]. rewrite Ha, Hb. rewrite !eqb_reflx. reflexivity.
Qed.

(* ------------------------------------------------------------------------- *)
(* S4: shape_table - sample rows, integer columns, extremum voltages         *)
(* ------------------------------------------------------------------------- *)

Lemma at_scale s raw i : s 0%float = 0%float -> at_ (map s raw) i = s (at_ raw i).
Proof. intro H0. unfold at_. rewrite <- (map_nth s). rewrite H0. reflexivity. Qed.

(* the part of compute_shape_features that produces the sample rows, on the frame signal *)
Definition rows_of (sigc : list float) (pos : list bool) (padn : nat) (boundary : Z) : result (list srow) :=
  do pt <- find_extrema {| x_pos := pos; x_raw := sigc; x_padn := padn;
                           x_boundary := boundary; x_first := FPeak |};
  do rd <- find_zerox sigc (fst pt) (snd pt);
  cycle_rows (fst pt) (snd pt) (fst rd) (snd rd).

Definition frame (c : centre) (raw : list float) : list float :=
  match c with Peak => raw | Trough => map PrimFloat.opp raw end.

Definition finish (c : centre) (sigc amp : list float) (rows : list srow) : result (list (srow * shape)) :=
  match rows with
  | [] => Err EIndex
  | _ => let tab := map (fun r => (r, shape_of sigc amp r)) rows in
         Ok (match c with
             | Peak => tab
             | Trough => map (fun rs => (rename_srow (fst rs), rename_shape (snd rs))) tab
             end)
  end.

Lemma shape_table_unfold c raw k b :
  shape_table c raw k b =
  bind (rows_of (frame c raw) (k_pos k) (k_padn k) b) (finish c (frame c raw) (k_amp k)).
Proof.
  unfold shape_table, rows_of, finish. fold (frame c raw).
  destruct (find_extrema _) as [pt|e]; [|reflexivity]. cbn [bind].
  destruct (find_zerox _ _ _) as [rd|e]; [|reflexivity]. cbn [bind].
  destruct (cycle_rows _ _ _ _) as [rows|e]; reflexivity.
Qed.

Lemma rows_of_scale s sigc pos padn b : scale_on s sigc ->
  rows_of (map s sigc) pos padn b = rows_of sigc pos padn b.
Proof.
  intro H. unfold rows_of.
  pose proof (find_extrema_scale s {| x_pos := pos; x_raw := sigc; x_padn := padn;
                                      x_boundary := b; x_first := FPeak |} H) as Hfe.
  cbn [x_pos x_raw x_padn x_boundary x_first] in Hfe. rewrite Hfe. clear Hfe.
  destruct (find_extrema _) as [pt|e]; [|reflexivity]. cbn [bind].
  rewrite (find_zerox_scale s sigc _ _ H). reflexivity.
Qed.

(* what C10 says about one row of shape features, as far as S4 goes: integer columns and the
   two symmetry columns identical (they are functions of the sample row), extremum voltages
   mapped by s *)
Definition shape_scaled (s : float -> float) (f' f : shape) : Prop :=
  period f' = period f /\ time_peak f' = time_peak f /\ time_trough f' = time_trough f /\
  time_decay f' = time_decay f /\ time_rise f' = time_rise f /\
  time_rdsym f' = time_rdsym f /\ time_ptsym f' = time_ptsym f /\
  volt_peak f' = s (volt_peak f) /\ volt_trough f' = s (volt_trough f).

Lemma shape_of_scaled s sigc amp' amp r : s 0%float = 0%float ->
  shape_scaled s (shape_of (map s sigc) amp' r) (shape_of sigc amp r).
Proof.
  intro H0. unfold shape_scaled, shape_of.
  cbn [period time_peak time_trough time_decay time_rise time_rdsym time_ptsym volt_peak volt_trough].
  rewrite !(at_scale s sigc _ H0). repeat split; reflexivity.
Qed.

Lemma rename_shape_scaled s sigc amp' amp r :
  s 0%float = 0%float ->
  (forall x, In x (0%float :: sigc) -> s (- x)%float = (- s x)%float) ->
  shape_scaled s (rename_shape (shape_of (map s sigc) amp' r)) (rename_shape (shape_of sigc amp r)).
Proof.
  intros H0 Hopp. unfold shape_scaled, rename_shape, shape_of.
  cbn [period time_peak time_trough time_decay time_rise time_rdsym time_ptsym volt_peak volt_trough].
  rewrite !(at_scale s sigc _ H0).
  assert (Hat : forall i, In (at_ sigc i) (0%float :: sigc)).
  { intro i. unfold at_. destruct (nth_in_or_default (Z.to_nat i) sigc 0%float) as [Hin|Hd].
    - right. exact Hin.
    - left. symmetry. exact Hd. }
  rewrite !(Hopp _ (Hat _)). repeat split; reflexivity.
Qed.

(* relation between two shape_table results: fail together with the same error, or succeed
   with identical sample rows and R-related shape rows *)
Definition table_rel (R : shape -> shape -> Prop) (r' r : result (list (srow * shape))) : Prop :=
  match r', r with
  | Ok t', Ok t => map fst t' = map fst t /\ Forall2 R (map snd t') (map snd t)
  | Err e', Err e => e' = e
  | _, _ => False
  end.
Definition table_scaled (s : float -> float) := table_rel (shape_scaled s).

Definition post (c : centre) (f : shape) : shape :=
  match c with Peak => f | Trough => rename_shape f end.

Lemma Forall2_map_same {A B} (R : B -> B -> Prop) (f' f : A -> B) l :
  (forall x, R (f' x) (f x)) -> Forall2 R (map f' l) (map f l).
Proof. intro H. induction l as [|x t IH]; cbn [map]; constructor; [apply H | exact IH]. Qed.

(* generic form: any row-wise relation R between the scaled and the unscaled shape row *)
Lemma shape_table_rel (R : shape -> shape -> Prop) c s raw k' k b :
  scale_on s (frame c raw) -> frame c (map s raw) = map s (frame c raw) ->
  k_pos k' = k_pos k -> k_padn k' = k_padn k ->
  (forall r, R (post c (shape_of (map s (frame c raw)) (k_amp k') r))
               (post c (shape_of (frame c raw) (k_amp k) r))) ->
  table_rel R (shape_table c (map s raw) k' b) (shape_table c raw k b).
Proof.
  intros H Hfr Hpos Hpad HR. rewrite !shape_table_unfold. rewrite Hfr, Hpos, Hpad.
  set (sigc := frame c raw) in *. clearbody sigc.
  rewrite (rows_of_scale s _ _ _ _ H).
  destruct (rows_of sigc (k_pos k) (k_padn k) b) as [rows|e]; cbn [bind table_rel]; [|reflexivity].
  destruct rows as [|r0 rs]; cbn [finish table_rel]; [reflexivity|].
  set (rows := r0 :: rs). clearbody rows.
  destruct c; rewrite !map_map; cbn [fst snd]; (split; [reflexivity|]); apply Forall2_map_same; exact HR.
Qed.

Theorem shape_table_scale_samples s raw k' k b :
  scale_on s raw -> k_pos k' = k_pos k -> k_padn k' = k_padn k ->
  table_scaled s (shape_table Peak (map s raw) k' b) (shape_table Peak raw k b).
Proof.
  intros H Hpos Hpad. apply shape_table_rel; try assumption; [reflexivity|].
  intro r. cbn [post frame]. apply shape_of_scaled. exact (so_zero _ _ H).
Qed.

Lemma frame_trough_map s raw :
  (forall x, In x raw -> s (- x)%float = (- s x)%float) ->
  frame Trough (map s raw) = map s (frame Trough raw).
Proof.
  intro Hopp. cbn [frame]. rewrite !map_map. apply map_ext_in. intros x Hx. symmetry. apply Hopp. exact Hx.
Qed.

(* trough centring: the frame signal is the negated signal; the scale hypothesis is about the
   frame values, and s must commute with negation on the values that occur *)
Theorem shape_table_scale_samples_trough s raw k' k b :
  scale_on s (map PrimFloat.opp raw) ->
  (forall x, In x (0%float :: raw ++ map PrimFloat.opp raw) -> s (- x)%float = (- s x)%float) ->
  k_pos k' = k_pos k -> k_padn k' = k_padn k ->
  table_scaled s (shape_table Trough (map s raw) k' b) (shape_table Trough raw k b).
Proof.
  intros H Hopp Hpos Hpad. apply shape_table_rel; try assumption.
  - apply frame_trough_map. intros x Hx. apply Hopp. right. apply in_or_app. left. exact Hx.
  - intro r. cbn [post frame]. apply rename_shape_scaled; [exact (so_zero _ _ H)|].
    intros x [Hx|Hx]; apply Hopp; [left; exact Hx | right; apply in_or_app; right; exact Hx].
Qed.

(* ------------------------------------------------------------------------- *)
(* S6: rank and ratio features                                               *)
(* ------------------------------------------------------------------------- *)

(* a few facts about binary64 comparison and division, from the stdlib float specification
   (FloatAxioms: ltb_spec, eqb_spec, div_spec, Prim2SF_inj) *)
Section FloatSpecFacts.
Import Floats.SpecFloat Floats.FloatOps.

Lemma SFcompare_swap X Y :
  SFcompare Y X = match SFcompare X Y with Some c => Some (CompOpp c) | None => None end.
Proof.
  destruct X as [sx|sx| |sx mx ex]; destruct Y as [sy|sy| |sy my ey]; cbn [SFcompare];
    try reflexivity;
    try (destruct sx; reflexivity); try (destruct sy; reflexivity);
    try (destruct sx; destruct sy; reflexivity).
  destruct sx; destruct sy; cbn [CompOpp]; try reflexivity.
  - rewrite (Z.compare_antisym ex ey). destruct (ex ?= ey)%Z; cbn [CompOpp]; try reflexivity.
    rewrite (Pos.compare_cont_antisym mx my Eq). reflexivity.
  - rewrite (Z.compare_antisym ex ey). destruct (ex ?= ey)%Z; cbn [CompOpp]; try reflexivity.
    rewrite (Pos.compare_cont_antisym mx my Eq). reflexivity.
Qed.

Lemma SFcompare_Eq_div X Y : SFcompare X Y = Some Eq -> SF64div X X = SF64div X Y.
Proof.
  intro H.
  destruct X as [sx|sx| |sx mx ex]; destruct Y as [sy|sy| |sy my ey]; cbn [SFcompare] in H;
    try discriminate H; try reflexivity;
    try (destruct sx; discriminate H); try (destruct sy; discriminate H).
  assert (E : sx = sy /\ ex = ey /\ mx = my).
    { destruct sx; destruct sy; try discriminate H;
        destruct (ex ?= ey)%Z eqn:Ee; try discriminate H;
        apply Z.compare_eq in Ee; injection H as H.
      - destruct (Pos.compare_cont Eq mx my) eqn:Em; try discriminate H.
        apply Pos.compare_eq in Em. auto.
      - apply Pos.compare_eq in H. auto. }
  destruct E as [-> [-> ->]]. reflexivity.
Qed.

Lemma SFcompare_None X Y : SFcompare X Y = None -> X = S754_nan \/ Y = S754_nan.
Proof.
  destruct X as [sx|sx| |sx mx ex]; destruct Y as [sy|sy| |sy my ey]; cbn [SFcompare];
    intro H; try discriminate H; auto.
Qed.

Lemma SFcompare_refl_nan X : SFeqb X X = false -> X = S754_nan.
Proof.
  unfold SFeqb. destruct X as [sx|sx| |sx mx ex]; cbn [SFcompare]; intro H; try discriminate H; try reflexivity.
  - destruct sx; discriminate H.
  - destruct sx; rewrite Z.compare_refl in H; change (Pos.compare_cont Eq mx mx) with (mx ?= mx)%positive in H;
      rewrite Pos.compare_refl in H; discriminate H.
Qed.

Lemma Prim2SF_nan : Prim2SF nan = S754_nan.
Proof. reflexivity. Qed.

Lemma isnan_eq_nan x : isnan x = true -> x = nan.
Proof.
  unfold isnan. intro H. apply negb_true_iff in H. rewrite eqb_spec in H.
  apply SFcompare_refl_nan in H. apply Prim2SF_inj. rewrite H. reflexivity.
Qed.

Lemma isnan_false_SF x : isnan x = false -> Prim2SF x <> S754_nan.
Proof.
  unfold isnan. intros H E. apply negb_false_iff in H. rewrite eqb_spec, E in H. discriminate H.
Qed.

Lemma div_self_eq x y : isnan x = false -> isnan y = false ->
  (x <? y)%float = false -> (y <? x)%float = false -> (x / x)%float = (x / y)%float.
Proof.
  intros Nx Ny Hxy Hyx. apply Prim2SF_inj. rewrite !div_spec.
  apply SFcompare_Eq_div.
  rewrite ltb_spec in Hxy, Hyx. unfold SFltb in Hxy, Hyx.
  rewrite (SFcompare_swap (Prim2SF x) (Prim2SF y)) in Hyx.
  destruct (SFcompare (Prim2SF x) (Prim2SF y)) as [[| |]|] eqn:E; try reflexivity; try discriminate.
  apply SFcompare_None in E. destruct E as [E|E]; [apply isnan_false_SF in Nx | apply isnan_false_SF in Ny]; contradiction.
Qed.

Lemma ltb_asym x y : (x <? y)%float = true -> (y <? x)%float = false.
Proof.
  rewrite !ltb_spec. unfold SFltb. rewrite (SFcompare_swap (Prim2SF x) (Prim2SF y)).
  destruct (SFcompare (Prim2SF x) (Prim2SF y)) as [[| |]|]; intro H; try discriminate H; reflexivity.
Qed.

End FloatSpecFacts.

Lemma filter_map_length (p : float -> bool) (s : float -> float) l :
  length (filter p (map s l)) = length (filter (fun w => p (s w)) l).
Proof.
  induction l as [|x t IH]; cbn [map filter]; [reflexivity|].
  destruct (p (s x)); cbn [length]; rewrite IH; reflexivity.
Qed.

Theorem amp_fraction_scale s va :
  (forall x y, In x va -> In y va ->
     (s x <? s y)%float = (x <? y)%float /\ (s x =? s y)%float = (x =? y)%float) ->
  (forall x, In x va -> isnan (s x) = isnan x) ->
  amp_fraction (map s va) = amp_fraction va.
Proof.
  intros Hcmp Hnan. unfold amp_fraction. rewrite map_length, map_map.
  apply map_ext_in. intros v Hv. rewrite (Hnan v Hv).
  destruct (isnan v); [reflexivity|].
  rewrite !filter_map_length.
  rewrite (filter_ext_in (fun w => (s w <? s v)%float) (fun w => (w <? v)%float)).
  2:{ intros w Hw. apply (Hcmp w v Hw Hv). }
  rewrite (filter_ext_in (fun w => (s w =? s v)%float) (fun w => (w =? v)%float)).
  2:{ intros w Hw. apply (Hcmp w v Hw Hv). }
  reflexivity.
Qed.

Theorem ratio_minmax_scale s a b :
  isnan (s a) = isnan a -> isnan (s b) = isnan b ->
  (s b <? s a)%float = (b <? a)%float -> (s a <? s b)%float = (a <? b)%float ->
  (s a / s b = a / b)%float -> (s b / s a = b / a)%float ->
  ratio_minmax (s a) (s b) = ratio_minmax a b.
Proof.
  intros Na Nb L1 L2 D1 D2. unfold ratio_minmax, fmin2, fmax2. rewrite Na, Nb, L1, L2.
  destruct (isnan a) eqn:Ea.
  { apply isnan_eq_nan in Ea. apply isnan_eq_nan in Na. rewrite Na, Ea. reflexivity. }
  destruct (isnan b) eqn:Eb.
  { apply isnan_eq_nan in Eb. apply isnan_eq_nan in Nb. rewrite Nb, Eb. reflexivity. }
  destruct (b <? a)%float eqn:E1; destruct (a <? b)%float eqn:E2.
  - apply ltb_asym in E1. rewrite E1 in E2. discriminate E2.
  - exact D2.
  - exact D1.
  - rewrite (div_self_eq (s a) (s b) Na Nb L2 L1). rewrite (div_self_eq a b Ea Eb E2 E1). exact D1.
Qed.

(* the laws of ratio_minmax_scale for all pairs of a finite list *)
Record ratio_on (s : float -> float) (vals : list float) : Prop := {
  ro_nan : forall x, In x vals -> isnan (s x) = isnan x;
  ro_ltb : forall x y, In x vals -> In y vals -> (s x <? s y)%float = (x <? y)%float;
  ro_div : forall x y, In x vals -> In y vals -> (s x / s y)%float = (x / y)%float }.

Lemma fnth_map s l i : s 0%float = 0%float -> fnth (map s l) i = s (fnth l i).
Proof. intro H0. unfold fnth. rewrite <- (map_nth s). rewrite H0. reflexivity. Qed.

Lemma fnth_in l i : In (fnth l i) (0%float :: l).
Proof.
  unfold fnth. destruct (nth_in_or_default i l 0%float) as [H|H]; [right; exact H | left; symmetry; exact H].
Qed.

Lemma amp_cons_at_scale s peak d rises decays c :
  s 0%float = 0%float -> ratio_on s (0%float :: rises ++ decays) ->
  amp_cons_at peak d (map s rises) (map s decays) c = amp_cons_at peak d rises decays c.
Proof.
  intros H0 H.
  assert (Hr : forall i j, ratio_minmax (s (fnth rises i)) (s (fnth decays j)) =
                           ratio_minmax (fnth rises i) (fnth decays j)).
  { intros i j.
    assert (Hi : In (fnth rises i) (0%float :: rises ++ decays)).
    { destruct (fnth_in rises i) as [E|E]; [left; exact E | right; apply in_or_app; left; exact E]. }
    assert (Hj : In (fnth decays j) (0%float :: rises ++ decays)).
    { destruct (fnth_in decays j) as [E|E]; [left; exact E | right; apply in_or_app; right; exact E]. }
    apply ratio_minmax_scale.
    - apply (ro_nan _ _ H _ Hi).
    - apply (ro_nan _ _ H _ Hj).
    - apply (ro_ltb _ _ H _ _ Hj Hi).
    - apply (ro_ltb _ _ H _ _ Hi Hj).
    - apply (ro_div _ _ H _ _ Hi Hj).
    - apply (ro_div _ _ H _ _ Hj Hi). }
  unfold amp_cons_at. rewrite !(fnth_map s _ _ H0). rewrite !Hr. reflexivity.
Qed.

Theorem amp_consistency_scale s peak d rises decays :
  s 0%float = 0%float -> ratio_on s (0%float :: rises ++ decays) ->
  amp_consistency peak d (map s rises) (map s decays) = amp_consistency peak d rises decays.
Proof.
  intros H0 H. unfold amp_consistency. rewrite map_length. f_equal.
  unfold ends_nan. destruct (length rises) as [|n]; [reflexivity|]. f_equal.
  apply map_ext. intro c.
  destruct (Nat.eqb c 0 || Nat.eqb c (S n - 1)); [reflexivity|].
  apply amp_cons_at_scale; assumption.
Qed.

(* ------------------------------------------------------------------------- *)
(* S8: the labels do not look at the signal                                  *)
(* ------------------------------------------------------------------------- *)

(* labels_cycles is a function of the thresholds and the four feature columns only; S5/S6 give
   identical columns for the scaled signal, hence identical labels *)
Corollary labels_cycles_scale t n len af' ac' pc' mo' af ac pc mo :
  af' = af -> ac' = ac -> pc' = pc -> mo' = mo ->
  labels_cycles t n (map (fun i => {| f_af := fnth af' i; f_ac := fnth ac' i; f_pc := fnth pc' i; f_mo := fnth mo' i |})
                         (seq 0 len)) =
  labels_cycles t n (map (fun i => {| f_af := fnth af i; f_ac := fnth ac i; f_pc := fnth pc i; f_mo := fnth mo i |})
                         (seq 0 len)).
Proof. intros -> -> -> ->. reflexivity. Qed.

(* labels_amp is a function of the external detector mask and the sample rows only *)
Corollary labels_amp_scale t n mask rows' rows :
  rows' = rows ->
  labels_amp t n (map (burst_fraction_row mask) rows') = labels_amp t n (map (burst_fraction_row mask) rows).
Proof. intros ->. reflexivity. Qed.

(* ------------------------------------------------------------------------- *)
(* S9: every voltage feature, and the whole compute_features table           *)
(* ------------------------------------------------------------------------- *)

(* s commutes with the two arithmetic expressions of compute_shape_features on the values that
   occur (exact for x * 2^k without overflow / underflow; checkable: volt_onb) *)
Record volt_on (s : float -> float) (vals : list float) : Prop := {
  vo_sub : forall x y, In x (0%float :: vals) -> In y (0%float :: vals) ->
             (s x - s y)%float = s (x - y)%float;
  vo_amp : forall x y z, In x (0%float :: vals) -> In y (0%float :: vals) -> In z (0%float :: vals) ->
             (((s x - s y) + (s x - s z)) / 2)%float = s (((x - y) + (x - z)) / 2)%float }.

Lemma volt_on_nil s l : volt_on s l -> volt_on s [].
Proof.
  intro H. assert (Hi : forall x, In x [0%float] -> In x (0%float :: l)).
  { intros x [Hx|[]]. left. exact Hx. }
  constructor.
  - intros x y Hx Hy. apply (vo_sub _ _ H); apply Hi; assumption.
  - intros x y z Hx Hy Hz. apply (vo_amp _ _ H); apply Hi; assumption.
Qed.

(* C10 for one row of shape features: durations and symmetries identical, every voltage
   feature mapped by s (band_amp belongs to the external amplitude kernel) *)
Definition shape_scaled_full (s : float -> float) (f' f : shape) : Prop :=
  shape_scaled s f' f /\
  volt_decay f' = s (volt_decay f) /\ volt_rise f' = s (volt_rise f) /\ volt_amp f' = s (volt_amp f).

Lemma at_in sigc i : In (at_ sigc i) (0%float :: sigc).
Proof.
  unfold at_. destruct (nth_in_or_default (Z.to_nat i) sigc 0%float) as [H|H];
    [right; exact H | left; symmetry; exact H].
Qed.

Lemma post_scaled_full c s sigc amp' amp r :
  s 0%float = 0%float -> volt_on s sigc ->
  (c = Trough -> forall x, In x (0%float :: sigc) -> s (- x)%float = (- s x)%float) ->
  shape_scaled_full s (post c (shape_of (map s sigc) amp' r)) (post c (shape_of sigc amp r)).
Proof.
  intros H0 Hv Hopp. split.
  - destruct c; cbn [post]; [apply shape_of_scaled; exact H0 | apply rename_shape_scaled; [exact H0 | apply Hopp; reflexivity]].
  - destruct c; cbn [post]; unfold rename_shape, shape_of; cbn [volt_decay volt_rise volt_amp];
      rewrite !(at_scale s sigc _ H0);
      (split; [apply (vo_sub _ _ Hv); apply at_in | split; [apply (vo_sub _ _ Hv); apply at_in | apply (vo_amp _ _ Hv); apply at_in]]).
Qed.

(* the extra law needed for trough centring *)
Definition centre_ok (c : centre) (s : float -> float) (raw : list float) : Prop :=
  match c with
  | Peak => True
  | Trough => forall x, In x (0%float :: raw ++ map PrimFloat.opp raw) -> s (- x)%float = (- s x)%float
  end.

Lemma frame_map c s raw : centre_ok c s raw -> frame c (map s raw) = map s (frame c raw).
Proof.
  destruct c; intro H; [reflexivity|]. apply frame_trough_map.
  intros x Hx. apply H. right. apply in_or_app. left. exact Hx.
Qed.

Theorem shape_table_scale_volts c s raw k' k b :
  scale_on s (frame c raw) -> volt_on s (frame c raw) -> centre_ok c s raw ->
  k_pos k' = k_pos k -> k_padn k' = k_padn k ->
  table_rel (shape_scaled_full s) (shape_table c (map s raw) k' b) (shape_table c raw k b).
Proof.
  intros H Hv Hc Hpos Hpad. apply shape_table_rel; try assumption.
  - apply frame_map. exact Hc.
  - intro r. apply post_scaled_full; [exact (so_zero _ _ H) | exact Hv |].
    intros -> x Hx. cbn [centre_ok frame] in *. apply Hc.
    destruct Hx as [Hx|Hx]; [left; exact Hx | right; apply in_or_app; right; exact Hx].
Qed.

(* laws on the derived columns of the UNSCALED table (rank of volt_amp; ratios of
   volt_rise / volt_decay), checkable once the unscaled table has been computed *)
Record cols_on (s : float -> float) (shapes : list shape) : Prop := {
  co_cmp : forall x y, In x (map volt_amp shapes) -> In y (map volt_amp shapes) ->
             (s x <? s y)%float = (x <? y)%float /\ (s x =? s y)%float = (x =? y)%float;
  co_nan : forall x, In x (map volt_amp shapes) -> isnan (s x) = isnan x;
  co_ratio : ratio_on s (0%float :: map volt_rise shapes ++ map volt_decay shapes) }.

Definition cols_needed (m : method) (P : Prop) : Prop :=
  match m with Cycles _ _ => P | Amp _ _ _ => True end.

Definition frow_scaled (s : float -> float) (r' r : frow) : Prop :=
  r_s r' = r_s r /\ shape_scaled_full s (r_shape r') (r_shape r) /\
  r_burst r' = r_burst r /\ r_is_burst r' = r_is_burst r.

Definition features_rel (s : float -> float) (r' r : result (list frow)) : Prop :=
  match r', r with
  | Ok t', Ok t => Forall2 (frow_scaled s) t' t
  | Err e', Err e => e' = e
  | _, _ => False
  end.

Lemma Forall2_map_eq {A B} (R : A -> A -> Prop) (f g : A -> B) l' l :
  Forall2 R l' l -> (forall a b, R a b -> f a = g b) -> map f l' = map g l.
Proof.
  intros HF H. induction HF as [|a b l' l Hab _ IH]; cbn [map]; [reflexivity|].
  rewrite (H a b Hab), IH. reflexivity.
Qed.

Lemma Forall2_nth {A} (R : A -> A -> Prop) l' l d' d i :
  R d' d -> Forall2 R l' l -> R (nth i l' d') (nth i l d).
Proof.
  intros Hd HF. revert i. induction HF as [|a b l' l Hab _ IH]; intro i.
  - destruct i; exact Hd.
  - destruct i as [|i]; [exact Hab | apply IH].
Qed.

(* C10 on the model of compute_features: same sample rows, same burst features, same labels,
   every voltage feature mapped by s; errors coincide *)
Theorem compute_features_scale c s raw k' k b m :
  scale_on s (frame c raw) -> volt_on s (frame c raw) -> centre_ok c s raw -> ltb_on s raw ->
  k_pos k' = k_pos k -> k_padn k' = k_padn k ->
  cols_needed m (forall tab, shape_table c raw k b = Ok tab -> cols_on s (map snd tab)) ->
  features_rel s (compute_features c (map s raw) k' b m) (compute_features c raw k b m).
Proof.
  intros H Hv Hc Hlt Hpos Hpad Hcols.
  pose proof (shape_table_scale_volts c s raw k' k b H Hv Hc Hpos Hpad) as HT.
  unfold compute_features.
  destruct (shape_table c (map s raw) k' b) as [tab'|e']; destruct (shape_table c raw k b) as [tab|e];
    cbn [table_rel] in HT; try contradiction; cbn [bind features_rel]; [|exact HT].
  destruct HT as [Hrows Hshapes]. rewrite Hrows.
  assert (Hd : shape_scaled_full s (shape_of [] [] (Build_srow 0 0 0 0 0 0)) (shape_of [] [] (Build_srow 0 0 0 0 0 0))).
  { apply (post_scaled_full Peak s [] [] [] _ (so_zero _ _ H) (volt_on_nil _ _ Hv)). intro E. discriminate E. }
  assert (Hshape_i : forall i,
    shape_scaled_full s
      (snd (nth i tab' (Build_srow 0 0 0 0 0 0, shape_of [] [] (Build_srow 0 0 0 0 0 0))))
      (snd (nth i tab (Build_srow 0 0 0 0 0 0, shape_of [] [] (Build_srow 0 0 0 0 0 0))))).
  { intro i. rewrite <- !(map_nth snd). cbn [snd]. apply Forall2_nth; assumption. }
  destruct m as [t n | mask t n]; cbn [cols_needed] in Hcols.
  - specialize (Hcols tab eq_refl). destruct Hcols as [Hcmp Hnan Hratio].
    assert (Hva : map volt_amp (map snd tab') = map s (map volt_amp (map snd tab))).
    { rewrite (map_map volt_amp s). apply Forall2_map_eq with (1 := Hshapes). intros a a0 Ha. apply Ha. }
    assert (Hvr : map volt_rise (map snd tab') = map s (map volt_rise (map snd tab))).
    { rewrite (map_map volt_rise s). apply Forall2_map_eq with (1 := Hshapes). intros a a0 Ha. apply Ha. }
    assert (Hvd : map volt_decay (map snd tab') = map s (map volt_decay (map snd tab))).
    { rewrite (map_map volt_decay s). apply Forall2_map_eq with (1 := Hshapes). intros a a0 Ha. apply Ha. }
    assert (Hper : map period (map snd tab') = map period (map snd tab)).
    { apply Forall2_map_eq with (1 := Hshapes). intros a a0 Ha. apply Ha. }
    rewrite Hva, Hvr, Hvd, Hper.
    rewrite (amp_fraction_scale s _ Hcmp Hnan).
    rewrite (amp_consistency_scale s _ _ _ _ (so_zero _ _ H) Hratio).
    rewrite (map_ext (monotonicity_row (centre_eqb c Peak) (map s raw))
                     (monotonicity_row (centre_eqb c Peak) raw)).
    2:{ intro r. apply monotonicity_row_scale. exact Hlt. }
    destruct (amp_consistency _ _ _ _) as [ac|e]; cbn [bind features_rel]; [|reflexivity].
    destruct (period_consistency _ _) as [pc|e]; cbn [bind features_rel]; [|reflexivity].
    destruct (labels_cycles _ _ _) as [lab|e]; cbn [bind features_rel]; [|reflexivity].
    apply Forall2_map_same. intro i. unfold frow_scaled. cbn [r_s r_shape r_burst r_is_burst].
    repeat split; try reflexivity; apply Hshape_i.
  - destruct (labels_amp _ _ _) as [lab|e]; cbn [bind features_rel]; [|reflexivity].
    apply Forall2_map_same. intro i. unfold frow_scaled. cbn [r_s r_shape r_burst r_is_burst].
    repeat split; try reflexivity; apply Hshape_i.
Qed.

(* ------------------------------------------------------------------------- *)
(* S7 (second half): checkers for the remaining laws, non-vacuity            *)
(* ------------------------------------------------------------------------- *)

Lemma forallb2_spec {A} (p : A -> A -> bool) l1 l2 :
  forallb (fun x => forallb (p x) l2) l1 = true -> forall x y, In x l1 -> In y l2 -> p x y = true.
Proof.
  intros H x y Hx Hy. rewrite forallb_forall in H. specialize (H x Hx).
  rewrite forallb_forall in H. apply H. exact Hy.
Qed.

Definition ltb_onb (s : float -> float) (l : list float) : bool :=
  forallb (fun x => forallb (fun y => Bool.eqb (s x <? s y)%float (x <? y)%float) l) l.

Lemma ltb_onb_sound s l : ltb_onb s l = true -> ltb_on s l.
Proof.
  intros H x y Hx Hy. apply eqb_prop.
  apply (forallb2_spec (fun x y => Bool.eqb (s x <? s y)%float (x <? y)%float) l l H x y Hx Hy).
Qed.

Definition opp_onb (s : float -> float) (l : list float) : bool :=
  forallb (fun x => PrimFloat.Leibniz.eqb (s (- x)%float) (- s x)%float) l.

Lemma opp_onb_sound s l : opp_onb s l = true -> forall x, In x l -> s (- x)%float = (- s x)%float.
Proof.
  intros H x Hx. unfold opp_onb in H. rewrite forallb_forall in H.
  apply Leibniz.eqb_spec. apply H. exact Hx.
Qed.

Definition centre_okb (c : centre) (s : float -> float) (raw : list float) : bool :=
  match c with
  | Peak => true
  | Trough => opp_onb s (0%float :: raw ++ map PrimFloat.opp raw)
  end.

Lemma centre_okb_sound c s raw : centre_okb c s raw = true -> centre_ok c s raw.
Proof. destruct c; cbn [centre_okb centre_ok]; intro H; [exact I | apply opp_onb_sound; exact H]. Qed.

Definition volt_onb (s : float -> float) (vals : list float) : bool :=
  let v0 := 0%float :: vals in
  forallb (fun x => forallb (fun y =>
     PrimFloat.Leibniz.eqb (s x - s y)%float (s (x - y)%float) &&
     forallb (fun z => PrimFloat.Leibniz.eqb (((s x - s y) + (s x - s z)) / 2)%float
                                             (s (((x - y) + (x - z)) / 2)%float)) v0) v0) v0.

Lemma volt_onb_sound s vals : volt_onb s vals = true -> volt_on s vals.
Proof.
  unfold volt_onb. intro H.
  pose proof (forallb2_spec _ _ _ H) as H2. cbv beta in H2.
  constructor.
  - intros x y Hx Hy. specialize (H2 x y Hx Hy). apply andb_true_iff in H2. destruct H2 as [Ha _].
    apply Leibniz.eqb_spec. exact Ha.
  - intros x y z Hx Hy Hz. specialize (H2 x y Hx Hy). apply andb_true_iff in H2. destruct H2 as [_ Hb].
    rewrite forallb_forall in Hb. apply Leibniz.eqb_spec. apply Hb. exact Hz.
Qed.

Definition ratio_onb (s : float -> float) (vals : list float) : bool :=
  forallb (fun x => Bool.eqb (isnan (s x)) (isnan x)) vals &&
  forallb (fun x => forallb (fun y =>
     Bool.eqb (s x <? s y)%float (x <? y)%float &&
     PrimFloat.Leibniz.eqb (s x / s y)%float (x / y)%float) vals) vals.

Lemma ratio_onb_sound s vals : ratio_onb s vals = true -> ratio_on s vals.
Proof.
  unfold ratio_onb. intro H. apply andb_true_iff in H. destruct H as [Hn H].
  rewrite forallb_forall in Hn. pose proof (forallb2_spec _ _ _ H) as H2. cbv beta in H2.
  constructor.
  - intros x Hx. apply eqb_prop. apply Hn. exact Hx.
  - intros x y Hx Hy. specialize (H2 x y Hx Hy). apply andb_true_iff in H2. destruct H2 as [Ha _].
    apply eqb_prop. exact Ha.
  - intros x y Hx Hy. specialize (H2 x y Hx Hy). apply andb_true_iff in H2. destruct H2 as [_ Hb].
    apply Leibniz.eqb_spec. exact Hb.
Qed.

Definition cols_onb (s : float -> float) (shapes : list shape) : bool :=
  let va := map volt_amp shapes in
  forallb (fun x => Bool.eqb (isnan (s x)) (isnan x)) va &&
  forallb (fun x => forallb (fun y =>
     Bool.eqb (s x <? s y)%float (x <? y)%float && Bool.eqb (s x =? s y)%float (x =? y)%float) va) va &&
  ratio_onb s (0%float :: map volt_rise shapes ++ map volt_decay shapes).

Lemma cols_onb_sound s shapes : cols_onb s shapes = true -> cols_on s shapes.
Proof.
  unfold cols_onb. intro H. apply andb_true_iff in H. destruct H as [H Hr].
  apply andb_true_iff in H. destruct H as [Hn H].
  rewrite forallb_forall in Hn. pose proof (forallb2_spec _ _ _ H) as H2. cbv beta in H2.
  constructor.
  - intros x y Hx Hy. specialize (H2 x y Hx Hy). apply andb_true_iff in H2. destruct H2 as [Ha Hb].
    split; apply eqb_prop; assumption.
  - intros x Hx. apply eqb_prop. apply Hn. exact Hx.
  - apply ratio_onb_sound. exact Hr.
Qed.

(* the complete, decidable hypothesis of C10 for one analysis *)
Definition c10_hypb (c : centre) (s : float -> float) (raw : list float) (k : kernels) (b : Z) (m : method) : bool :=
  scale_onb s (frame c raw) && volt_onb s (frame c raw) && centre_okb c s raw && ltb_onb s raw &&
  match m with
  | Cycles _ _ => match shape_table c raw k b with Ok tab => cols_onb s (map snd tab) | Err _ => true end
  | Amp _ _ _ => true
  end.

Theorem c10_checked c s raw k' k b m :
  c10_hypb c s raw k b m = true -> k_pos k' = k_pos k -> k_padn k' = k_padn k ->
  features_rel s (compute_features c (map s raw) k' b m) (compute_features c raw k b m).
Proof.
  unfold c10_hypb. intros H Hpos Hpad.
  apply andb_true_iff in H. destruct H as [H Hm].
  apply andb_true_iff in H. destruct H as [H Hl].
  apply andb_true_iff in H. destruct H as [H Hc].
  apply andb_true_iff in H. destruct H as [Hs Hv].
  apply compute_features_scale.
  - apply scale_onb_sound. exact Hs.
  - apply volt_onb_sound. exact Hv.
  - apply centre_okb_sound. exact Hc.
  - apply ltb_onb_sound. exact Hl.
  - exact Hpos.
  - exact Hpad.
  - destruct m as [t n | mask t n]; cbn [cols_needed]; [|exact I].
    intros tab Etab. rewrite Etab in Hm. apply cols_onb_sound. exact Hm.
Qed.

(* ------------------------------------------------------------------------- *)
(* Non-vacuity                                                               *)
(* ------------------------------------------------------------------------- *)

Module ScaleExamples.
Import ByC.Proofs.Cycles.

Definition x4 (x : float) : float := (x * 4)%float.
Definition xsmall (x : float) : float := (x * 0x1p-20)%float.
Definition x3 (x : float) : float := (x * 3)%float.
Definition xtenth (x : float) : float := (x * 0x1.999999999999ap-4)%float.   (* 0.1 *)

(* the example signal of Proofs/Cycles.v (small integers) *)
Example ex_scale_x4 : scale_onb x4 ex_raw = true.
Proof. vm_compute. reflexivity. Qed.
Example ex_scale_xsmall : scale_onb xsmall ex_raw = true.
Proof. vm_compute. reflexivity. Qed.
(* a factor that is not a power of two happens to pass on this signal: all samples are small
   integers, so every product and midpoint is exact *)
Example ex_scale_x3 : scale_onb x3 ex_raw = true.
Proof. vm_compute. reflexivity. Qed.
(* ... but 0.1 does not (the products are rounded) *)
Example ex_scale_xtenth : scale_onb xtenth ex_raw = false.
Proof. vm_compute. reflexivity. Qed.

Example ex_scale_on_x4 : scale_on x4 ex_raw.
Proof. apply scale_onb_sound. exact ex_scale_x4. Qed.

Definition ex_x (raw : list float) : ext_in :=
  {| x_pos := ex_pos; x_raw := raw; x_padn := 0; x_boundary := 0; x_first := FPeak |}.

(* S2 applied: the extrema of the scaled signal are those of the unscaled one, and they exist *)
Example ex_find_extrema_x4 :
  find_extrema (ex_x (map x4 ex_raw)) = find_extrema (ex_x ex_raw) /\
  find_extrema (ex_x ex_raw) = Ok ([10; 18; 26]%Z, [14; 22; 30]%Z).
Proof.
  split.
  - exact (find_extrema_scale x4 (ex_x ex_raw) ex_scale_on_x4).
  - vm_compute. reflexivity.
Qed.

(* S3 applied *)
Example ex_find_zerox_x4 :
  find_zerox (map x4 ex_raw) [10; 18; 26]%Z [14; 22; 30]%Z = find_zerox ex_raw [10; 18; 26]%Z [14; 22; 30]%Z /\
  find_zerox ex_raw [10; 18; 26]%Z [14; 22; 30]%Z = Ok ([15; 23]%Z, [11; 19; 27]%Z).
Proof.
  split.
  - exact (find_zerox_scale x4 ex_raw _ _ ex_scale_on_x4).
  - vm_compute. reflexivity.
Qed.

(* S4 applied (the amplitude envelope of the scaled run is deliberately different) *)
Example ex_shape_table_x4 :
  table_scaled x4 (shape_table Peak (map x4 ex_raw) {| k_pos := ex_pos; k_padn := 0; k_amp := repeat 4%float 40 |} 0)
                  (shape_table Peak ex_raw ex_k 0).
Proof. apply shape_table_scale_samples; [exact ex_scale_on_x4 | reflexivity | reflexivity]. Qed.

(* a richer signal: ten periods of the same wave, centred on zero, with non-dyadic cycle
   amplitudes 0.1, 0.3, 0.25, 0.7, 0.45, 0.9, 0.33, 0.5, 0.61, 0.2: the table has seven rows,
   five interior ones with genuine amplitude-consistency ratios, and a non-trivial labelling *)
Definition sc_amps : list float :=
  [0x1.999999999999ap-4; 0x1.3333333333333p-2; 0x1p-2; 0x1.6666666666666p-1; 0x1.ccccccccccccdp-2;
   0x1.ccccccccccccdp-1; 0x1.51eb851eb851fp-2; 0x1p-1; 0x1.3851eb851eb85p-1; 0x1.999999999999ap-3]%float.
Definition sc_raw : list float :=
  map (fun i => ((nth (Nat.modulo i 8) ex_wave 0 - 4) * nth (Nat.div i 8) sc_amps 0)%float) (seq 0 80).
Definition sc_pos : list bool := map (fun i => Nat.ltb (Nat.modulo i 8) 4) (seq 0 80).
Definition sc_k : kernels := {| k_pos := sc_pos; k_padn := 0; k_amp := repeat 1%float 80 |}.
Definition sc_k' : kernels := {| k_pos := sc_pos; k_padn := 0; k_amp := repeat 4%float 80 |}.
Definition sc_kt : kernels := {| k_pos := map negb sc_pos; k_padn := 0; k_amp := repeat 1%float 80 |}.
Definition sc_thr : thr4 :=
  {| t_af := 0x1p-2; t_ac := 0x1p-2; t_pc := 0x1p-1; t_mo := 0x1p-1 |}%float.
Definition sc_m : method := Cycles sc_thr 2.

Example sc_hyp_x4 : c10_hypb Peak x4 sc_raw sc_k 0 sc_m = true.
Proof. vm_compute. reflexivity. Qed.
Example sc_hyp_x4_trough : c10_hypb Trough x4 sc_raw sc_kt 0 sc_m = true.
Proof. vm_compute. reflexivity. Qed.
Example sc_hyp_xsmall : c10_hypb Peak xsmall sc_raw sc_k 0 sc_m = true.
Proof. vm_compute. reflexivity. Qed.
(* the hypothesis is not trivially true: it fails for a non-dyadic factor, for a factor that
   pushes the samples into the subnormal range, for one that overflows, and for a shift *)
Example sc_hyp_x3 : scale_onb x3 sc_raw = false /\ volt_onb x3 sc_raw = false.
Proof. split; vm_compute; reflexivity. Qed.
Example sc_hyp_underflow : scale_onb (fun x => (x * 0x1p-1060)%float) sc_raw = false.
Proof. vm_compute. reflexivity. Qed.
Example sc_hyp_overflow : scale_onb (fun x => (x * 0x1p1023)%float) sc_raw = false.
Proof. vm_compute. reflexivity. Qed.
Example sc_hyp_shift : scale_onb (fun x => (x + 1)%float) sc_raw = false.
Proof. vm_compute. reflexivity. Qed.

(* C10 on this input, by the checked theorem; the unscaled table has 7 rows, 5 of them bursts *)
Example sc_features_x4 :
  features_rel x4 (compute_features Peak (map x4 sc_raw) sc_k' 0 sc_m) (compute_features Peak sc_raw sc_k 0 sc_m) /\
  rmap (map r_is_burst) (compute_features Peak sc_raw sc_k 0 sc_m) =
    Ok [false; true; true; true; true; true; false].
Proof.
  split.
  - apply c10_checked; [exact sc_hyp_x4 | reflexivity | reflexivity].
  - vm_compute. reflexivity.
Qed.

Example sc_features_x4_trough :
  features_rel x4 (compute_features Trough (map x4 sc_raw) sc_kt 0 sc_m) (compute_features Trough sc_raw sc_kt 0 sc_m) /\
  rmap (@length frow) (compute_features Trough sc_raw sc_kt 0 sc_m) = Ok 8.
Proof.
  split.
  - apply c10_checked; [exact sc_hyp_x4_trough | reflexivity | reflexivity].
  - vm_compute. reflexivity.
Qed.

(* Why a hypothesis is needed at all: for the factor 3 the amplitude consistency of one
   interior cycle of this signal changes in the last place (the scaled rise and decay voltages
   are rounded), so "unchanged" is literally false on binary64 for a non-dyadic constant; the
   implementation is invariant only up to rounding there.  Row-wise exact agreement of the four
   burst features and the label between the x3 run and the unscaled run: *)
Definition burst_rows_agree (a b : result (list frow)) : list bool :=
  match a, b with
  | Ok x, Ok y =>
    map (fun p => let b1 := r_burst (fst p) in let b2 := r_burst (snd p) in
                  fexact (b_af b1) (b_af b2) && fexact (b_ac b1) (b_ac b2) && fexact (b_pc b1) (b_pc b2) &&
                  fexact (b_mo b1) (b_mo b2) && Bool.eqb (r_is_burst (fst p)) (r_is_burst (snd p)))
        (combine x y)
  | _, _ => []
  end.
Example sc_x3_not_exactly_invariant :
  burst_rows_agree (compute_features Peak (map x3 sc_raw) sc_k 0 sc_m) (compute_features Peak sc_raw sc_k 0 sc_m)
  = [true; true; true; true; true; false; true] /\
  burst_rows_agree (compute_features Peak (map x4 sc_raw) sc_k 0 sc_m) (compute_features Peak sc_raw sc_k 0 sc_m)
  = [true; true; true; true; true; true; true].
Proof. split; vm_compute; reflexivity. Qed.

End ScaleExamples.

Print Assumptions find_extrema_scale.
Print Assumptions find_zerox_scale.
Print Assumptions scale_onb_sound.
Print Assumptions ratio_minmax_scale.
Print Assumptions compute_features_scale.
Print Assumptions c10_checked.
