(* Proofs about the flank-midpoint / zero-crossing model (C03). Structural only: no float
   facts are needed, every comparison is treated as an opaque boolean. No axioms. *)
From Coq Require Import List Bool Arith ZArith Lia Sorted Floats.PrimFloat.
Import ListNotations.
From ByC Require Import Base.Result Base.ListAux Model.Zerox.

(* p0 < t0 < p1 < t1 < ... ; equal lengths *)
Fixpoint interleaved (ps ts : list Z) : Prop :=
  match ps, ts with
  | [], [] => True
  | p :: ps', t :: ts' => (p < t)%Z /\ (match ps' with [] => True | p' :: _ => (t < p')%Z end) /\ interleaved ps' ts'
  | _, _ => False
  end.

(* ------------------------------------------------------------------ *)
(* Z1: level crossings                                                 *)

Lemma level_crossings_spec rise mid k0 seg k :
  In k (level_crossings rise mid k0 seg) <->
  k0 <= k /\ S (k - k0) < length seg /\
  on_start rise (nth (k - k0) seg 0%float) mid = true /\
  on_start rise (nth (S (k - k0)) seg 0%float) mid = false.
Proof.
  revert k0 k; induction seg as [|x t IH]; intros k0 k.
  - cbn [level_crossings In length]. split; [tauto | lia].
  - destruct t as [|y t'].
    + cbn [level_crossings In length]. split; [tauto | lia].
    + specialize (IH (S k0) k).
      change (level_crossings rise mid k0 (x :: y :: t'))
        with (if on_start rise x mid && negb (on_start rise y mid)
              then k0 :: level_crossings rise mid (S k0) (y :: t')
              else level_crossings rise mid (S k0) (y :: t')).
      destruct (Nat.eq_dec k k0) as [Hk|Hk].
      * subst k. rewrite Nat.sub_diag. cbn [nth length].
        destruct (on_start rise x mid) eqn:Hx, (on_start rise y mid) eqn:Hy;
          cbn [andb negb In]; rewrite ?IH; split; intros H;
          try (repeat split; try lia; fail); try (left; reflexivity);
          try (destruct H as [H|H]; [repeat split; lia | lia]); try lia;
          try (destruct H as (_ & _ & H1 & H2); congruence).
      * assert (Hin : In k (if on_start rise x mid && negb (on_start rise y mid)
              then k0 :: level_crossings rise mid (S k0) (y :: t')
              else level_crossings rise mid (S k0) (y :: t'))
              <-> In k (level_crossings rise mid (S k0) (y :: t'))).
        { destruct (on_start rise x mid && negb (on_start rise y mid)); cbn [In]; [|tauto].
          split; [intros [H|H]; [congruence | exact H] | intros H; right; exact H]. }
        rewrite Hin, IH. clear Hin IH.
        split.
        -- intros (H1 & H2 & H3 & H4).
           assert (E : k - k0 = S (k - S k0)) by lia.
           rewrite E. cbn [nth length] in *. repeat split; try lia; assumption.
        -- intros (H1 & H2 & H3 & H4).
           assert (E : k - k0 = S (k - S k0)) by lia.
           rewrite E in H2, H3, H4. cbn [nth length] in *. repeat split; try lia; assumption.
Qed.

Lemma level_crossings_ge rise mid k0 seg k :
  In k (level_crossings rise mid k0 seg) -> k0 <= k.
Proof. intros H; apply level_crossings_spec in H; tauto. Qed.

Lemma level_crossings_lt rise mid k0 seg k :
  In k (level_crossings rise mid k0 seg) -> k < k0 + length seg - 1.
Proof. intros H; apply level_crossings_spec in H; lia. Qed.

Lemma level_crossings_sorted rise mid k0 seg :
  StronglySorted lt (level_crossings rise mid k0 seg).
Proof.
  revert k0; induction seg as [|x t IH]; intros k0.
  - cbn [level_crossings]. constructor.
  - destruct t as [|y t'].
    + cbn [level_crossings]. constructor.
    + change (level_crossings rise mid k0 (x :: y :: t'))
        with (if on_start rise x mid && negb (on_start rise y mid)
              then k0 :: level_crossings rise mid (S k0) (y :: t')
              else level_crossings rise mid (S k0) (y :: t')).
      destruct (on_start rise x mid && negb (on_start rise y mid)).
      * constructor; [apply IH|].
        apply Forall_forall. intros k Hk. apply level_crossings_ge in Hk. lia.
      * apply IH.
Qed.

(* ------------------------------------------------------------------ *)
(* Z2: floor of the median                                             *)

Lemma half_sum_bounds a b lo hi :
  lo <= a <= hi -> lo <= b <= hi -> lo <= (a + b) / 2 <= hi.
Proof.
  intros Ha Hb. split.
  - apply Nat.div_le_lower_bound; lia.
  - apply Nat.div_le_upper_bound; lia.
Qed.

Lemma median_floor_bounds xs lo hi :
  xs <> [] -> (forall x, In x xs -> lo <= x <= hi) -> lo <= median_floor xs <= hi.
Proof.
  intros Hne Hall. unfold median_floor.
  assert (Hlen : 0 < length xs) by (destruct xs; [congruence | cbn; lia]).
  assert (Hhalf : length xs / 2 < length xs) by (apply Nat.div_lt; lia).
  destruct (Nat.even (length xs)).
  - apply half_sum_bounds; apply Hall, nth_In; lia.
  - apply Hall, nth_In; lia.
Qed.

Lemma median_floor_singleton x : median_floor [x] = x.
Proof. reflexivity. Qed.

Lemma sorted_le_first_last xs x :
  StronglySorted le xs -> In x xs -> nth 0 xs 0 <= x <= last xs 0.
Proof.
  intros Hs; revert x; induction Hs as [|a l Hs IH Hall]; intros x Hin.
  - destruct Hin.
  - cbn [nth]. rewrite Forall_forall in Hall.
    destruct l as [|b l'].
    + cbn [last]. destruct Hin as [->|[]]. lia.
    + change (last (a :: b :: l') 0) with (last (b :: l') 0).
      destruct Hin as [->|Hin].
      * split; [lia|].
        assert (Hb : In (last (b :: l') 0) (b :: l')).
        { pose proof (@app_removelast_last _ (b :: l') 0 ltac:(congruence)) as E.
          rewrite E at 2. apply in_or_app. right. left. reflexivity. }
        apply Hall in Hb. exact Hb.
      * specialize (IH x Hin). specialize (Hall x Hin). lia.
Qed.

Lemma median_floor_sorted_bounds xs :
  StronglySorted le xs -> nth 0 xs 0 <= median_floor xs <= last xs 0.
Proof.
  intros Hs. destruct xs as [|a l].
  - cbn. lia.
  - apply median_floor_bounds; [congruence|].
    intros x Hx. apply sorted_le_first_last; assumption.
Qed.

Lemma StronglySorted_lt_le xs : StronglySorted lt xs -> StronglySorted le xs.
Proof.
  induction 1 as [|a l Hs IH Hall]; constructor; [exact IH|].
  rewrite Forall_forall in *. intros x Hx. specialize (Hall x Hx). lia.
Qed.

Lemma median_floor_sorted_lt_bounds xs :
  StronglySorted lt xs -> nth 0 xs 0 <= median_floor xs <= last xs 0.
Proof. intros Hs. apply median_floor_sorted_bounds, StronglySorted_lt_le, Hs. Qed.

(* ------------------------------------------------------------------ *)
(* Z5: discrete intermediate value                                     *)

Lemma level_crossings_exists_from rise mid k0 seg :
  seg <> [] -> on_start rise (hd 0%float seg) mid = true ->
  on_start rise (last seg 0%float) mid = false ->
  level_crossings rise mid k0 seg <> [].
Proof.
  revert k0; induction seg as [|x t IH]; intros k0 Hne Hhd Hlast.
  - congruence.
  - destruct t as [|y t'].
    + cbn [hd last] in Hhd, Hlast. congruence.
    + change (level_crossings rise mid k0 (x :: y :: t'))
        with (if on_start rise x mid && negb (on_start rise y mid)
              then k0 :: level_crossings rise mid (S k0) (y :: t')
              else level_crossings rise mid (S k0) (y :: t')).
      cbn [hd] in Hhd. rewrite Hhd.
      destruct (on_start rise y mid) eqn:Hy; cbn [andb negb].
      * apply IH; [congruence | exact Hy | exact Hlast].
      * congruence.
Qed.

Lemma level_crossings_exists rise mid seg :
  seg <> [] -> on_start rise (hd 0%float seg) mid = true ->
  on_start rise (last seg 0%float) mid = false ->
  level_crossings rise mid 0 seg <> [].
Proof. apply level_crossings_exists_from. Qed.

(* ------------------------------------------------------------------ *)
(* Z3 / Z4: the flank midpoint                                         *)

Lemma last_default_irrel {A} (l : list A) (d d' : A) : l <> [] -> last l d = last l d'.
Proof.
  induction l as [|a l IH]; intros Hne; [congruence|].
  destruct l as [|b l']; [reflexivity|].
  change (last (b :: l') d = last (b :: l') d'). apply IH. congruence.
Qed.

Lemma zslice_length {A} (l : list A) (s e : Z) :
  (0 <= s <= e)%Z -> (e < Z.of_nat (length l))%Z ->
  length (zslice l s (e + 1)) = Z.to_nat (e - s + 1).
Proof.
  intros Hse He. unfold zslice, slice.
  rewrite firstn_length, skipn_length. lia.
Qed.

(* the value computed by flank_mid, with the defaults used in the statement of Z4 *)
Definition flank_mid_val (rise : bool) (s : Z) (seg : list PrimFloat.float) : Z :=
  let x0 := nth 0 seg 0%float in
  let xl := last seg 0%float in
  let c := (s + Z.of_nat (length seg / 2))%Z in
  if all_zero seg then c
  else if (if rise then (xl <? x0)%float else (x0 <? xl)%float) then c
  else match level_crossings rise ((x0 + xl) / 2)%float 0 seg with
       | [] => c
       | xs => (s + Z.of_nat (median_floor xs))%Z
       end.

Lemma flank_mid_eq rise sig s e :
  zslice sig s (e + 1) <> [] ->
  flank_mid rise sig s e = Ok (flank_mid_val rise s (zslice sig s (e + 1))).
Proof.
  intros Hne. unfold flank_mid, flank_mid_val.
  destruct (zslice sig s (e + 1)) as [|x0 r] eqn:E; [congruence|].
  cbv zeta. rewrite (last_default_irrel (x0 :: r) x0 0%float Hne).
  cbn [nth].
  destruct (all_zero (x0 :: r)); [reflexivity|].
  destruct (if rise then _ else _); [reflexivity|].
  destruct (level_crossings rise _ 0 (x0 :: r)); reflexivity.
Qed.

Lemma zslice_nonempty {A} (l : list A) (s e : Z) :
  (0 <= s <= e)%Z -> (e < Z.of_nat (length l))%Z -> zslice l s (e + 1) <> [].
Proof.
  intros Hse He E. pose proof (zslice_length l s e Hse He) as HL.
  rewrite E in HL. cbn [length] in HL. lia.
Qed.

Lemma flank_mid_ok rise sig s e :
  (0 <= s <= e)%Z -> (e < Z.of_nat (length sig))%Z -> exists m, flank_mid rise sig s e = Ok m.
Proof.
  intros Hse He. eexists. apply flank_mid_eq, zslice_nonempty; assumption.
Qed.

Lemma flank_mid_val_between rise s seg :
  seg <> [] ->
  (s <= flank_mid_val rise s seg <= s + Z.of_nat (length seg) - 1)%Z.
Proof.
  intros Hne. unfold flank_mid_val. cbv zeta.
  assert (Hlen : 0 < length seg) by (destruct seg; [congruence | cbn; lia]).
  assert (Hhalf : length seg / 2 < length seg) by (apply Nat.div_lt; lia).
  destruct (all_zero seg); [lia|].
  destruct (if rise then _ else _); [lia|].
  destruct (level_crossings rise _ 0 seg) as [|k ks] eqn:E; [lia|].
  assert (Hb : 0 <= median_floor (k :: ks) <= length seg - 2).
  { apply median_floor_bounds; [congruence|].
    intros x Hx. rewrite <- E in Hx. apply level_crossings_lt in Hx. lia. }
  lia.
Qed.

Theorem flank_mid_between rise sig s e m :
  flank_mid rise sig s e = Ok m -> (0 <= s <= e)%Z -> (e < Z.of_nat (length sig))%Z ->
  (s <= m <= e)%Z.
Proof.
  intros Hm Hse He.
  pose proof (zslice_nonempty sig s e Hse He) as Hne.
  rewrite (flank_mid_eq rise sig s e Hne) in Hm. injection Hm as <-.
  pose proof (flank_mid_val_between rise s _ Hne) as Hb.
  rewrite (zslice_length sig s e Hse He) in Hb. lia.
Qed.

Theorem flank_mid_cases rise sig s e m :
  flank_mid rise sig s e = Ok m -> (0 <= s <= e)%Z -> (e < Z.of_nat (length sig))%Z ->
  let seg := zslice sig s (e + 1) in
  let x0 := nth 0 seg 0%float in
  let xl := last seg 0%float in
  let c := (s + Z.of_nat (length seg / 2))%Z in
  let mid := ((x0 + xl) / 2)%float in
  let inverted := if rise then (xl <? x0)%float else (x0 <? xl)%float in
  length seg = Z.to_nat (e - s + 1) /\
  (all_zero seg = true -> m = c) /\
  (all_zero seg = false -> inverted = true -> m = c) /\
  (all_zero seg = false -> inverted = false -> level_crossings rise mid 0 seg = [] -> m = c) /\
  (all_zero seg = false -> inverted = false -> level_crossings rise mid 0 seg <> [] ->
   m = (s + Z.of_nat (median_floor (level_crossings rise mid 0 seg)))%Z).
Proof.
  intros Hm Hse He.
  pose proof (zslice_nonempty sig s e Hse He) as Hne.
  rewrite (flank_mid_eq rise sig s e Hne) in Hm. injection Hm as <-.
  cbv zeta. split; [apply zslice_length; assumption|].
  unfold flank_mid_val. cbv zeta.
  set (seg := zslice sig s (e + 1)).
  set (inv := if rise then _ else _).
  set (lc := level_crossings rise _ 0 seg).
  repeat split.
  - intros ->. reflexivity.
  - intros -> ->. reflexivity.
  - intros -> -> ->. reflexivity.
  - intros -> -> Hlc. destruct lc; [congruence | reflexivity].
Qed.

(* ------------------------------------------------------------------ *)
(* Z6: structure of find_zerox                                         *)

Lemma mapM_ok_spec {A B} (f : A -> result B) (l : list A) (ys : list B) :
  mapM f l = Ok ys ->
  length ys = length l /\
  forall i x, nth_error l i = Some x -> exists y, nth_error ys i = Some y /\ f x = Ok y.
Proof.
  revert ys; induction l as [|a l IH]; intros ys H.
  - cbn [mapM] in H. injection H as <-. split; [reflexivity|].
    intros i x Hi. destruct i; discriminate Hi.
  - cbn [mapM] in H.
    destruct (f a) as [y|er] eqn:Hfa; [|discriminate H].
    destruct (mapM f l) as [ys'|er] eqn:Hm; [|discriminate H].
    injection H as <-. destruct (IH ys' eq_refl) as [HL Hn].
    split; [cbn [length]; lia|].
    intros i x Hi. destruct i as [|i].
    + cbn [nth_error] in *. injection Hi as <-. exists y. split; [reflexivity | exact Hfa].
    + cbn [nth_error] in *. apply Hn, Hi.
Qed.

Lemma mapM_ok_exists {A B} (f : A -> result B) (l : list A) :
  (forall x, In x l -> exists y, f x = Ok y) -> exists ys, mapM f l = Ok ys.
Proof.
  induction l as [|a l IH]; intros H.
  - exists []. reflexivity.
  - destruct (H a (or_introl eq_refl)) as [y Hy].
    destruct IH as [ys Hys]. { intros x Hx. apply H. right. exact Hx. }
    exists (y :: ys). cbn [mapM]. rewrite Hy, Hys. reflexivity.
Qed.

Lemma nth_res_ok {A} (l : list A) (i : nat) (d : A) :
  i < length l -> nth_res l i = Ok (nth i l d).
Proof.
  intros Hi. unfold nth_res. rewrite (nth_error_nth' l d Hi). reflexivity.
Qed.

(* generic description of flank_mids when every requested flank is well-formed *)
Lemma flank_mids_spec rise sig n starts ends bias :
  (forall idx, idx < n ->
     idx < length starts /\ idx + bias < length ends /\
     (0 <= nth idx starts 0 <= nth (idx + bias) ends 0)%Z /\
     (nth (idx + bias) ends 0 < Z.of_nat (length sig))%Z) ->
  exists ms, flank_mids rise sig (Z.of_nat n) starts ends bias = Ok ms /\
    length ms = n /\
    forall k, k < n -> exists m, nth_error ms k = Some m /\
      flank_mid rise sig (nth k starts 0%Z) (nth (k + bias) ends 0%Z) = Ok m.
Proof.
  intros Hwf. unfold flank_mids.
  assert (Hn : (Z.of_nat n <? 0)%Z = false) by (apply Z.ltb_ge; lia).
  rewrite Hn, Nat2Z.id.
  set (f := fun idx : nat => _).
  assert (Hf : forall idx, idx < n ->
             f idx = flank_mid rise sig (nth idx starts 0%Z) (nth (idx + bias) ends 0%Z)).
  { intros idx Hidx. destruct (Hwf idx Hidx) as (H1 & H2 & _).
    unfold f. rewrite (nth_res_ok starts idx 0%Z H1). cbn [bind].
    rewrite (nth_res_ok ends (idx + bias) 0%Z H2). cbn [bind]. reflexivity. }
  destruct (mapM_ok_exists f (seq 0 n)) as [ms Hms].
  { intros idx Hin. apply in_seq in Hin. rewrite Hf by lia.
    destruct (Hwf idx ltac:(lia)) as (_ & _ & H3 & H4).
    apply flank_mid_ok; assumption. }
  exists ms. split; [exact Hms|].
  destruct (mapM_ok_spec f (seq 0 n) ms Hms) as [HL Hnth].
  rewrite seq_length in HL. split; [exact HL|].
  intros k Hk.
  destruct (Hnth k k) as [m [Hm1 Hm2]].
  { rewrite (nth_error_nth' (seq 0 n) 0) by (rewrite seq_length; exact Hk).
    rewrite seq_nth by exact Hk. reflexivity. }
  exists m. split; [exact Hm1|]. rewrite <- Hf by exact Hk. exact Hm2.
Qed.

Lemma interleaved_spec ps ts :
  interleaved ps ts ->
  length ps = length ts /\
  (forall k, k < length ps -> (nth k ps 0 < nth k ts 0)%Z) /\
  (forall k, S k < length ps -> (nth k ts 0 < nth (S k) ps 0)%Z).
Proof.
  revert ts; induction ps as [|p ps' IH]; intros ts H.
  - destruct ts; [|destruct H]. cbn [length]. repeat split; intros k Hk; lia.
  - destruct ts as [|t ts']; [destruct H|].
    cbn [interleaved] in H. destruct H as (Hpt & Hnext & Hrest).
    destruct (IH ts' Hrest) as (HL & Hd & Hr).
    cbn [length]. split; [lia|]. split.
    + intros [|k] Hk; cbn [nth]; [exact Hpt | apply Hd; lia].
    + intros [|k] Hk.
      * destruct ps' as [|p' ps'']; [cbn [length] in Hk; lia|]. cbn [nth]. exact Hnext.
      * change (nth k ts' 0 < nth (S k) ps' 0)%Z. apply Hr. lia.
Qed.

Lemma Forall_nth_Z (P : Z -> Prop) (l : list Z) k :
  Forall P l -> k < length l -> P (nth k l 0%Z).
Proof. intros HF Hk. rewrite Forall_forall in HF. apply HF, nth_In, Hk. Qed.

Theorem find_zerox_peak_first sig peaks troughs :
  interleaved peaks troughs -> peaks <> [] ->
  Forall (fun z => (0 <= z < Z.of_nat (length sig))%Z) peaks ->
  Forall (fun z => (0 <= z < Z.of_nat (length sig))%Z) troughs ->
  exists rises decays,
    find_zerox sig peaks troughs = Ok (rises, decays) /\
    length decays = length peaks /\
    length rises = length peaks - 1 /\
    (forall k, k < length peaks -> exists m, nth_error decays k = Some m /\
       flank_mid false sig (nth k peaks 0%Z) (nth k troughs 0%Z) = Ok m) /\
    (forall k, S k < length peaks -> exists m, nth_error rises k = Some m /\
       flank_mid true sig (nth k troughs 0%Z) (nth (S k) peaks 0%Z) = Ok m).
Proof.
  intros Hint Hne HFp HFt.
  destruct (interleaved_spec peaks troughs Hint) as (HL & Hd & Hr).
  destruct (flank_mids_spec true sig (length peaks - 1) troughs peaks 1) as (rises & HR & HRl & HRn).
  { intros idx Hidx. rewrite Nat.add_1_r.
    pose proof (Hr idx ltac:(lia)) as H1.
    pose proof (Forall_nth_Z _ troughs idx HFt ltac:(lia)) as H2.
    pose proof (Forall_nth_Z _ peaks (S idx) HFp ltac:(lia)) as H3.
    cbv beta in H2, H3. repeat split; lia. }
  destruct (flank_mids_spec false sig (length troughs) peaks troughs 0) as (decays & HD & HDl & HDn).
  { intros idx Hidx. rewrite Nat.add_0_r.
    pose proof (Hd idx ltac:(lia)) as H1.
    pose proof (Forall_nth_Z _ peaks idx HFp ltac:(lia)) as H2.
    pose proof (Forall_nth_Z _ troughs idx HFt ltac:(lia)) as H3.
    cbv beta in H2, H3. repeat split; lia. }
  exists rises, decays.
  split; [|split; [lia|split; [exact HRl|split]]].
  - unfold find_zerox.
    destruct peaks as [|p0 pr] eqn:Ep; [congruence|].
    destruct troughs as [|t0 tr] eqn:Et; [cbn [length] in HL; lia|].
    rewrite <- Ep, <- Et in *.
    assert (Hpt : (p0 <? t0)%Z = true).
    { apply Z.ltb_lt. specialize (Hd 0). rewrite Ep, Et in Hd. cbn [nth length] in Hd.
      apply Hd. lia. }
    rewrite Hpt. cbv iota beta.
    assert (E1 : (Z.of_nat (length peaks) - 1)%Z = Z.of_nat (length peaks - 1)).
    { rewrite Ep. cbn [length]. lia. }
    rewrite E1. change (1 - 0) with 1. rewrite HR. cbn [bind]. rewrite HD. cbn [bind]. reflexivity.
  - intros k Hk. destruct (HDn k ltac:(lia)) as [m [Hm1 Hm2]].
    rewrite Nat.add_0_r in Hm2. exists m. split; assumption.
  - intros k Hk. destruct (HRn k ltac:(lia)) as [m [Hm1 Hm2]].
    rewrite Nat.add_1_r in Hm2. exists m. split; assumption.
Qed.

Theorem find_zerox_trough_first sig peaks troughs :
  interleaved troughs peaks -> troughs <> [] ->
  Forall (fun z => (0 <= z < Z.of_nat (length sig))%Z) peaks ->
  Forall (fun z => (0 <= z < Z.of_nat (length sig))%Z) troughs ->
  exists rises decays,
    find_zerox sig peaks troughs = Ok (rises, decays) /\
    length rises = length troughs /\
    length decays = length troughs - 1 /\
    (forall k, k < length troughs -> exists m, nth_error rises k = Some m /\
       flank_mid true sig (nth k troughs 0%Z) (nth k peaks 0%Z) = Ok m) /\
    (forall k, S k < length troughs -> exists m, nth_error decays k = Some m /\
       flank_mid false sig (nth k peaks 0%Z) (nth (S k) troughs 0%Z) = Ok m).
Proof.
  intros Hint Hne HFp HFt.
  destruct (interleaved_spec troughs peaks Hint) as (HL & Hr & Hd).
  destruct (flank_mids_spec true sig (length peaks) troughs peaks 0) as (rises & HR & HRl & HRn).
  { intros idx Hidx. rewrite Nat.add_0_r.
    pose proof (Hr idx ltac:(lia)) as H1.
    pose proof (Forall_nth_Z _ troughs idx HFt ltac:(lia)) as H2.
    pose proof (Forall_nth_Z _ peaks idx HFp ltac:(lia)) as H3.
    cbv beta in H2, H3. repeat split; lia. }
  destruct (flank_mids_spec false sig (length troughs - 1) peaks troughs 1) as (decays & HD & HDl & HDn).
  { intros idx Hidx. rewrite Nat.add_1_r.
    pose proof (Hd idx ltac:(lia)) as H1.
    pose proof (Forall_nth_Z _ peaks idx HFp ltac:(lia)) as H2.
    pose proof (Forall_nth_Z _ troughs (S idx) HFt ltac:(lia)) as H3.
    cbv beta in H2, H3. repeat split; lia. }
  exists rises, decays.
  split; [|split; [lia|split; [exact HDl|split]]].
  - unfold find_zerox.
    destruct troughs as [|t0 tr] eqn:Et; [congruence|].
    destruct peaks as [|p0 pr] eqn:Ep; [cbn [length] in HL; lia|].
    rewrite <- Ep, <- Et in *.
    assert (Hpt : (p0 <? t0)%Z = false).
    { apply Z.ltb_ge. specialize (Hr 0). rewrite Ep, Et in Hr. cbn [nth length] in Hr.
      assert (t0 < p0)%Z by (apply Hr; lia). lia. }
    rewrite Hpt. cbv iota beta.
    assert (E1 : (Z.of_nat (length troughs) - 1)%Z = Z.of_nat (length troughs - 1)).
    { rewrite Et. cbn [length]. lia. }
    rewrite E1. change (1 - 1) with 0. rewrite HR. cbn [bind]. rewrite HD. cbn [bind]. reflexivity.
  - intros k Hk. destruct (HRn k ltac:(lia)) as [m [Hm1 Hm2]].
    rewrite Nat.add_0_r in Hm2. exists m. split; assumption.
  - intros k Hk. destruct (HDn k ltac:(lia)) as [m [Hm1 Hm2]].
    rewrite Nat.add_1_r in Hm2. exists m. split; assumption.
Qed.

(* ------------------------------------------------------------------ *)
(* Z7: every midpoint lies between the two extrema of its flank        *)

Theorem find_zerox_ordering sig peaks troughs rises decays :
  interleaved peaks troughs -> peaks <> [] ->
  Forall (fun z => (0 <= z < Z.of_nat (length sig))%Z) peaks ->
  Forall (fun z => (0 <= z < Z.of_nat (length sig))%Z) troughs ->
  find_zerox sig peaks troughs = Ok (rises, decays) ->
  length decays = length peaks /\ length rises = length peaks - 1 /\
  (forall k, k < length peaks ->
     (nth k peaks 0 <= nth k decays 0 <= nth k troughs 0)%Z) /\
  (forall k, S k < length peaks ->
     (nth k troughs 0 <= nth k rises 0 <= nth (S k) peaks 0)%Z).
Proof.
  intros Hint Hne HFp HFt Hfz.
  destruct (interleaved_spec peaks troughs Hint) as (HL & Hd & Hr).
  destruct (find_zerox_peak_first sig peaks troughs Hint Hne HFp HFt)
    as (rises' & decays' & Hfz' & HDl & HRl & HDn & HRn).
  rewrite Hfz in Hfz'. injection Hfz' as <- <-.
  split; [exact HDl|]. split; [exact HRl|]. split.
  - intros k Hk. destruct (HDn k Hk) as [m [Hm1 Hm2]].
    rewrite (nth_error_nth _ _ 0%Z Hm1).
    pose proof (Forall_nth_Z _ peaks k HFp Hk) as H2.
    pose proof (Forall_nth_Z _ troughs k HFt ltac:(lia)) as H3.
    pose proof (Hd k Hk) as H1. cbv beta in H2, H3.
    apply (flank_mid_between false sig _ _ m Hm2); lia.
  - intros k Hk. destruct (HRn k Hk) as [m [Hm1 Hm2]].
    rewrite (nth_error_nth _ _ 0%Z Hm1).
    pose proof (Forall_nth_Z _ troughs k HFt ltac:(lia)) as H2.
    pose proof (Forall_nth_Z _ peaks (S k) HFp Hk) as H3.
    pose proof (Hr k Hk) as H1. cbv beta in H2, H3.
    apply (flank_mid_between true sig _ _ m Hm2); lia.
Qed.

Theorem find_zerox_ordering_trough_first sig peaks troughs rises decays :
  interleaved troughs peaks -> troughs <> [] ->
  Forall (fun z => (0 <= z < Z.of_nat (length sig))%Z) peaks ->
  Forall (fun z => (0 <= z < Z.of_nat (length sig))%Z) troughs ->
  find_zerox sig peaks troughs = Ok (rises, decays) ->
  length rises = length troughs /\ length decays = length troughs - 1 /\
  (forall k, k < length troughs ->
     (nth k troughs 0 <= nth k rises 0 <= nth k peaks 0)%Z) /\
  (forall k, S k < length troughs ->
     (nth k peaks 0 <= nth k decays 0 <= nth (S k) troughs 0)%Z).
Proof.
  intros Hint Hne HFp HFt Hfz.
  destruct (interleaved_spec troughs peaks Hint) as (HL & Hr & Hd).
  destruct (find_zerox_trough_first sig peaks troughs Hint Hne HFp HFt)
    as (rises' & decays' & Hfz' & HRl & HDl & HRn & HDn).
  rewrite Hfz in Hfz'. injection Hfz' as <- <-.
  split; [exact HRl|]. split; [exact HDl|]. split.
  - intros k Hk. destruct (HRn k Hk) as [m [Hm1 Hm2]].
    rewrite (nth_error_nth _ _ 0%Z Hm1).
    pose proof (Forall_nth_Z _ troughs k HFt Hk) as H2.
    pose proof (Forall_nth_Z _ peaks k HFp ltac:(lia)) as H3.
    pose proof (Hr k Hk) as H1. cbv beta in H2, H3.
    apply (flank_mid_between true sig _ _ m Hm2); lia.
  - intros k Hk. destruct (HDn k Hk) as [m [Hm1 Hm2]].
    rewrite (nth_error_nth _ _ 0%Z Hm1).
    pose proof (Forall_nth_Z _ peaks k HFp ltac:(lia)) as H2.
    pose proof (Forall_nth_Z _ troughs (S k) HFt Hk) as H3.
    pose proof (Hd k Hk) as H1. cbv beta in H2, H3.
    apply (flank_mid_between false sig _ _ m Hm2); lia.
Qed.

(* ------------------------------------------------------------------ *)
(* Z8: alternating sequences that start and end with the same kind     *)
(* (what find_extrema returns with first_extrema = None):              *)
(* p0 < t0 < p1 < ... < t(n-1) < pn  and  t0 < p0 < ... < p(n-1) < tn  *)

Theorem find_zerox_peak_both_ends sig peaks troughs :
  length peaks = S (length troughs) -> troughs <> [] ->
  (forall k, k < length troughs -> (nth k peaks 0 < nth k troughs 0 < nth (S k) peaks 0)%Z) ->
  Forall (fun z => (0 <= z < Z.of_nat (length sig))%Z) peaks ->
  Forall (fun z => (0 <= z < Z.of_nat (length sig))%Z) troughs ->
  exists rises decays,
    find_zerox sig peaks troughs = Ok (rises, decays) /\
    length decays = length troughs /\
    length rises = length troughs /\
    (forall k, k < length troughs -> exists m, nth_error decays k = Some m /\
       flank_mid false sig (nth k peaks 0%Z) (nth k troughs 0%Z) = Ok m) /\
    (forall k, k < length troughs -> exists m, nth_error rises k = Some m /\
       flank_mid true sig (nth k troughs 0%Z) (nth (S k) peaks 0%Z) = Ok m).
Proof.
  intros HL Hne Halt HFp HFt.
  destruct (flank_mids_spec true sig (length peaks - 1) troughs peaks 1) as (rises & HR & HRl & HRn).
  { intros idx Hidx. rewrite Nat.add_1_r.
    pose proof (Halt idx ltac:(lia)) as H1.
    pose proof (Forall_nth_Z _ troughs idx HFt ltac:(lia)) as H2.
    pose proof (Forall_nth_Z _ peaks (S idx) HFp ltac:(lia)) as H3.
    cbv beta in H2, H3. repeat split; lia. }
  destruct (flank_mids_spec false sig (length troughs) peaks troughs 0) as (decays & HD & HDl & HDn).
  { intros idx Hidx. rewrite Nat.add_0_r.
    pose proof (Halt idx ltac:(lia)) as H1.
    pose proof (Forall_nth_Z _ peaks idx HFp ltac:(lia)) as H2.
    pose proof (Forall_nth_Z _ troughs idx HFt ltac:(lia)) as H3.
    cbv beta in H2, H3. repeat split; lia. }
  exists rises, decays.
  split; [|split; [exact HDl|split; [lia|split]]].
  - unfold find_zerox.
    destruct troughs as [|t0 tr] eqn:Et; [congruence|].
    destruct peaks as [|p0 pr] eqn:Ep; [cbn [length] in HL; lia|].
    rewrite <- Ep, <- Et in *.
    assert (Hpt : (p0 <? t0)%Z = true).
    { apply Z.ltb_lt. specialize (Halt 0). rewrite Ep, Et in Halt. cbn [nth length] in Halt.
      apply Halt. lia. }
    rewrite Hpt. cbv iota beta.
    assert (E1 : (Z.of_nat (length peaks) - 1)%Z = Z.of_nat (length peaks - 1)).
    { rewrite Ep. cbn [length]. lia. }
    rewrite E1. change (1 - 0) with 1. rewrite HR. cbn [bind]. rewrite HD. cbn [bind]. reflexivity.
  - intros k Hk. destruct (HDn k ltac:(lia)) as [m [Hm1 Hm2]].
    rewrite Nat.add_0_r in Hm2. exists m. split; assumption.
  - intros k Hk. destruct (HRn k ltac:(lia)) as [m [Hm1 Hm2]].
    rewrite Nat.add_1_r in Hm2. exists m. split; assumption.
Qed.

Theorem find_zerox_trough_both_ends sig peaks troughs :
  length troughs = S (length peaks) -> peaks <> [] ->
  (forall k, k < length peaks -> (nth k troughs 0 < nth k peaks 0 < nth (S k) troughs 0)%Z) ->
  Forall (fun z => (0 <= z < Z.of_nat (length sig))%Z) peaks ->
  Forall (fun z => (0 <= z < Z.of_nat (length sig))%Z) troughs ->
  exists rises decays,
    find_zerox sig peaks troughs = Ok (rises, decays) /\
    length rises = length peaks /\
    length decays = length peaks /\
    (forall k, k < length peaks -> exists m, nth_error rises k = Some m /\
       flank_mid true sig (nth k troughs 0%Z) (nth k peaks 0%Z) = Ok m) /\
    (forall k, k < length peaks -> exists m, nth_error decays k = Some m /\
       flank_mid false sig (nth k peaks 0%Z) (nth (S k) troughs 0%Z) = Ok m).
Proof.
  intros HL Hne Halt HFp HFt.
  destruct (flank_mids_spec true sig (length peaks) troughs peaks 0) as (rises & HR & HRl & HRn).
  { intros idx Hidx. rewrite Nat.add_0_r.
    pose proof (Halt idx ltac:(lia)) as H1.
    pose proof (Forall_nth_Z _ troughs idx HFt ltac:(lia)) as H2.
    pose proof (Forall_nth_Z _ peaks idx HFp ltac:(lia)) as H3.
    cbv beta in H2, H3. repeat split; lia. }
  destruct (flank_mids_spec false sig (length troughs - 1) peaks troughs 1) as (decays & HD & HDl & HDn).
  { intros idx Hidx. rewrite Nat.add_1_r.
    pose proof (Halt idx ltac:(lia)) as H1.
    pose proof (Forall_nth_Z _ peaks idx HFp ltac:(lia)) as H2.
    pose proof (Forall_nth_Z _ troughs (S idx) HFt ltac:(lia)) as H3.
    cbv beta in H2, H3. repeat split; lia. }
  exists rises, decays.
  split; [|split; [exact HRl|split; [lia|split]]].
  - unfold find_zerox.
    destruct peaks as [|p0 pr] eqn:Ep; [congruence|].
    destruct troughs as [|t0 tr] eqn:Et; [cbn [length] in HL; lia|].
    rewrite <- Ep, <- Et in *.
    assert (Hpt : (p0 <? t0)%Z = false).
    { apply Z.ltb_ge. specialize (Halt 0). rewrite Ep, Et in Halt. cbn [nth length] in Halt.
      assert (t0 < p0)%Z by (apply Halt; lia). lia. }
    rewrite Hpt. cbv iota beta.
    assert (E1 : (Z.of_nat (length troughs) - 1)%Z = Z.of_nat (length troughs - 1)).
    { rewrite Et. cbn [length]. lia. }
    rewrite E1. change (1 - 1) with 0. rewrite HR. cbn [bind]. rewrite HD. cbn [bind]. reflexivity.
  - intros k Hk. destruct (HRn k ltac:(lia)) as [m [Hm1 Hm2]].
    rewrite Nat.add_0_r in Hm2. exists m. split; assumption.
  - intros k Hk. destruct (HDn k ltac:(lia)) as [m [Hm1 Hm2]].
    rewrite Nat.add_1_r in Hm2. exists m. split; assumption.
Qed.
