(** Windowing utilities (Model/Window.v, C18): limit_df keeps exactly the cycles lying inside the
    requested window, in order, with unchanged feature values and one common shift of all six
    sample columns (by F2Z_round (fs * start), the sample index nearest to fs * start); limit_signal keeps exactly the samples with start <= t < stop; split/drop
    partition the columns; flatten_dfs attaches to every row the label of its table, tables in
    (row-major) order.  Float-order facts come from Base/FloatFacts (Flocq bridge). *)
From Coq Require Import List Bool Arith ZArith Lia Reals Lra.
From Coq Require Import Floats.SpecFloat Floats.PrimFloat Floats.FloatAxioms Floats.FloatOps.
From Flocq Require Import Core.Core IEEE754.BinarySingleNaN IEEE754.PrimFloat.
Import ListNotations.
From ByC Require Import Base.Result Base.ListAux Base.FloatBase Base.FloatFacts
  Model.Cycles Model.Epoch Model.Window.
Local Open Scope nat_scope.

(* ------------------------------------------------------------------------------------------ *)
(** * List helpers *)

Lemma filter_filter_and {A} (f g : A -> bool) (l : list A) :
  filter g (filter f l) = filter (fun x => f x && g x) l.
Proof.
  induction l as [|x l IH]; [reflexivity|].
  cbn [filter]. destruct (f x) eqn:Hf.
  - cbn [filter andb]. destruct (g x) eqn:Hg; rewrite IH; reflexivity.
  - cbn [andb]. exact IH.
Qed.

Lemma filter_true {A} (l : list A) : filter (fun _ => true) l = l.
Proof.
  induction l as [|x l IH]; [reflexivity|]. cbn [filter]. rewrite IH. reflexivity.
Qed.

Lemma filter_andb_true_r {A} (f : A -> bool) (l : list A) :
  filter (fun x => f x && true) l = filter f l.
Proof.
  apply filter_ext. intros x. apply andb_true_r.
Qed.

Lemma map_id_ext {A} (f : A -> A) (l : list A) : (forall x, f x = x) -> map f l = l.
Proof.
  intros Hf. induction l as [|x l IH]; [reflexivity|].
  cbn [map]. rewrite Hf, IH. reflexivity.
Qed.

Lemma filter_partition_length {A} (f : A -> bool) (l : list A) :
  length (filter (fun x => negb (f x)) l) + length (filter f l) = length l.
Proof.
  induction l as [|x l IH]; [reflexivity|].
  cbn [filter]. destruct (f x) eqn:Hf; cbn [negb length]; lia.
Qed.

Lemma filter_length_le' {A} (f : A -> bool) (l : list A) : length (filter f l) <= length l.
Proof.
  induction l as [|x l IH]; [apply le_n|].
  cbn [filter]. destruct (f x) eqn:Hf; cbn [length]; lia.
Qed.

Lemma nth_map_lt {A B} (f : A -> B) (l : list A) (i : nat) (d : A) (d' : B) :
  i < length l -> nth i (map f l) d' = f (nth i l d).
Proof.
  intros Hi. rewrite nth_indep with (d' := f d) by (rewrite map_length; exact Hi).
  apply map_nth.
Qed.

Lemma length_concat_rect {B} (rows : list (list B)) (n1 : nat) :
  (forall row, In row rows -> length row = n1) -> length (concat rows) = length rows * n1.
Proof.
  induction rows as [|r rows IH]; intros Hrect; [reflexivity|].
  cbn [concat length]. rewrite app_length.
  rewrite (Hrect r (or_introl eq_refl)).
  rewrite IH; [reflexivity|]. intros row Hrow. apply Hrect. right. exact Hrow.
Qed.

Lemma nth_concat_rect {B} (rows : list (list B)) (n1 : nat) : forall (i j : nat) (d : B),
  (forall row, In row rows -> length row = n1) -> i < length rows -> j < n1 ->
  nth (i * n1 + j) (concat rows) d = nth j (nth i rows []) d.
Proof.
  induction rows as [|r rows IH]; intros i j d Hrect Hi Hj.
  - cbn [length] in Hi. lia.
  - assert (Hr : length r = n1) by (apply Hrect; left; reflexivity).
    cbn [concat]. destruct i as [|i].
    + cbn [nth Nat.mul Nat.add]. apply app_nth1. lia.
    + cbn [nth]. rewrite app_nth2 by (rewrite Hr; cbn [Nat.mul]; lia).
      replace (S i * n1 + j - length r) with (i * n1 + j) by (rewrite Hr; cbn [Nat.mul]; lia).
      apply IH.
      * intros row Hrow. apply Hrect. right. exact Hrow.
      * cbn [length] in Hi. lia.
      * exact Hj.
Qed.

(* ------------------------------------------------------------------------------------------ *)
(** * W2: limit_df selects a sub-list and shifts uniformly *)

Lemma shift_srow_0 (s : srow) : shift_srow 0 s = s.
Proof.
  destruct s as [a b c e f g]. unfold shift_srow.
  cbn [s_next s_last s_center s_zx_decay s_zx_rise s_last_zx].
  rewrite !Z.sub_0_r. reflexivity.
Qed.

Definition limit_offset (fs : PrimFloat.float) (start : option PrimFloat.float) (reset : bool) : Z :=
  if reset then F2Z_round (fs * start_or_0 start)%float else 0%Z.

Lemma offset_of_ok (x : PrimFloat.float) (z : Z) :
  offset_of x = Ok z <-> PrimFloat.is_finite x = true /\ z = F2Z_round x.
Proof.
  unfold offset_of, PrimFloat.is_finite.
  destruct (PrimFloat.is_nan x); cbn [orb negb].
  - split; [intros H; discriminate H|intros (H & _); discriminate H].
  - destruct (PrimFloat.is_infinity x); cbn [negb].
    + split; [intros H; discriminate H|intros (H & _); discriminate H].
    + split.
      * intros H. injection H as H. split; [reflexivity|symmetry; exact H].
      * intros (_ & H). rewrite H. reflexivity.
Qed.

Section RowsProofs.
Context {X : Type}.
Notation wrowX := (@wrow X).

(** everything about limit_df_with, whichever sampling-rate test and row test it is instantiated with *)
Lemma limit_df_with_ok fsok keep (rows : list wrowX) fs start stop reset out :
  limit_df_with fsok keep rows fs start stop reset = Ok out <->
  fsok fs = true /\ limits_ok start stop = true /\
  (reset = true -> PrimFloat.is_finite (fs * start_or_0 start)%float = true) /\
  out = map (fun r => (shift_srow (limit_offset fs start reset) (fst r), snd r)) (filter (keep fs start stop) rows).
Proof.
  unfold limit_df_with, limit_offset.
  destruct (fsok fs); cbn [negb].
  2:{ split; [intros H; discriminate H|intros (H & _); discriminate H]. }
  destruct (limits_ok start stop); cbn [negb].
  2:{ split; [intros H; discriminate H|intros (_ & H & _); discriminate H]. }
  cbv zeta. destruct reset; cbv iota.
  - destruct (offset_of (fs * start_or_0 start)%float) as [off|e] eqn:Hoff.
    + apply offset_of_ok in Hoff. destruct Hoff as (Hfin & Hoff). subst off. split.
      * intros H. injection H as H. subst out. repeat split. intros _. exact Hfin.
      * intros (_ & _ & _ & H). subst out. reflexivity.
    + split; [intros H; discriminate H|].
      intros (_ & _ & Hfin & _). specialize (Hfin eq_refl).
      assert (Hc : offset_of (fs * start_or_0 start)%float = Ok (F2Z_round (fs * start_or_0 start)%float)).
      { apply offset_of_ok. split; [exact Hfin|reflexivity]. }
      rewrite Hc in Hoff. discriminate Hoff.
  - assert (Hid : map (fun r : srow * X => (shift_srow 0 (fst r), snd r)) (filter (keep fs start stop) rows)
                  = filter (keep fs start stop) rows).
    { apply map_id_ext. intros [s x]. cbn [fst snd]. rewrite shift_srow_0. reflexivity. }
    rewrite Hid. split.
    + intros H. injection H as H. subst out. repeat split. intros H. discriminate H.
    + intros (_ & _ & _ & H). subst out. reflexivity.
Qed.

Lemma limit_df_with_err fsok keep (rows : list wrowX) fs start stop reset e :
  limit_df_with fsok keep rows fs start stop reset = Err e ->
  (e = EValue /\ (fsok fs = false \/ limits_ok start stop = false \/
                  (reset = true /\ PrimFloat.is_nan (fs * start_or_0 start)%float = true))) \/
  (e = EOther /\ fsok fs = true /\ limits_ok start stop = true /\ reset = true /\
   PrimFloat.is_infinity (fs * start_or_0 start)%float = true).
Proof.
  unfold limit_df_with.
  destruct (fsok fs); cbn [negb].
  2:{ intros H. injection H as H. left. split; [symmetry; exact H|left; reflexivity]. }
  destruct (limits_ok start stop); cbn [negb].
  2:{ intros H. injection H as H. left. split; [symmetry; exact H|right; left; reflexivity]. }
  cbv zeta. destruct reset; [|intros H; discriminate H].
  unfold offset_of.
  destruct (PrimFloat.is_nan (fs * start_or_0 start)%float) eqn:Hnan.
  - intros H. injection H as H. left. split; [symmetry; exact H|].
    right. right. split; reflexivity.
  - destruct (PrimFloat.is_infinity (fs * start_or_0 start)%float) eqn:Hinf.
    + intros H. injection H as H. right. repeat split. symmetry. exact H.
    + intros H. discriminate H.
Qed.

Theorem limit_df_spec (rows : list wrowX) fs start stop reset out :
  limit_df rows fs start stop reset = Ok out ->
  let off := if reset
             then F2Z_round (fs * match start with Some a => a | None => 0%float end)%float
             else 0%Z in
  out = map (fun r => (shift_srow off (fst r), snd r)) (filter (keep_row fs start stop) rows).
Proof.
  intros H. cbv zeta. unfold limit_df in H. apply limit_df_with_ok in H.
  destruct H as (_ & _ & _ & H). exact H.
Qed.

(** the output is a sub-list of the input, in the original order, up to the shift of the
    sample columns; the payload (all feature values) is untouched *)
Theorem limit_df_sublist (rows : list wrowX) fs start stop reset out :
  limit_df rows fs start stop reset = Ok out ->
  map snd out = map snd (filter (keep_row fs start stop) rows) /\
  map (fun r => shift_srow (- limit_offset fs start reset) (fst r)) out
    = map fst (filter (keep_row fs start stop) rows) /\
  length out = length (filter (keep_row fs start stop) rows) /\
  length out <= length rows.
Proof.
  intros H. apply limit_df_spec in H. cbv zeta in H.
  fold (start_or_0 start) in H. fold (limit_offset fs start reset) in H. subst out.
  rewrite !map_map. cbn [fst snd]. repeat split.
  - apply map_ext. intros [s x]. cbn [fst]. destruct s as [a b c e f g].
    unfold shift_srow. cbn [s_next s_last s_center s_zx_decay s_zx_rise s_last_zx].
    f_equal; lia.
  - apply map_length.
  - rewrite map_length. apply filter_length_le'.
Qed.

Theorem limit_df_noreset (rows : list wrowX) fs start stop out :
  limit_df rows fs start stop false = Ok out -> out = filter (keep_row fs start stop) rows.
Proof.
  intros H. apply limit_df_spec in H. cbv zeta in H. rewrite H.
  apply map_id_ext. intros [s x]. cbn [fst snd]. rewrite shift_srow_0. reflexivity.
Qed.

Theorem limit_df_uniform_shift (rows : list wrowX) fs start stop reset out :
  limit_df rows fs start stop reset = Ok out ->
  let off := limit_offset fs start reset in
  forall o, In o out ->
    exists r, In r rows /\ keep_row fs start stop r = true /\ snd o = snd r /\
      s_center (fst o) = (s_center (fst r) - off)%Z /\
      s_last (fst o) = (s_last (fst r) - off)%Z /\
      s_next (fst o) = (s_next (fst r) - off)%Z /\
      s_zx_rise (fst o) = (s_zx_rise (fst r) - off)%Z /\
      s_zx_decay (fst o) = (s_zx_decay (fst r) - off)%Z /\
      s_last_zx (fst o) = (s_last_zx (fst r) - off)%Z.
Proof.
  intros H off o Ho. apply limit_df_spec in H. cbv zeta in H.
  fold (start_or_0 start) in H. fold (limit_offset fs start reset) in H. fold off in H. subst out.
  apply in_map_iff in Ho. destruct Ho as (r & Hr & Hin).
  apply filter_In in Hin. destruct Hin as (Hin & Hk).
  exists r. subst o. cbn [fst snd]. unfold shift_srow.
  cbn [s_next s_last s_center s_zx_decay s_zx_rise s_last_zx].
  repeat split; assumption.
Qed.

(** positional form: the i-th output row is the i-th kept row, shifted *)
Theorem limit_df_nth (rows : list wrowX) fs start stop reset out i d :
  limit_df rows fs start stop reset = Ok out -> i < length out ->
  let off := limit_offset fs start reset in
  let k := nth i (filter (keep_row fs start stop) rows) d in
  nth i out d = (shift_srow off (fst k), snd k).
Proof.
  intros H Hi off k. apply limit_df_spec in H. cbv zeta in H.
  fold (start_or_0 start) in H. fold (limit_offset fs start reset) in H. fold off in H. subst out.
  rewrite map_length in Hi.
  rewrite (nth_map_lt _ _ i d d Hi). reflexivity.
Qed.

(** every kept input row appears in the output *)
Theorem limit_df_complete (rows : list wrowX) fs start stop reset out r :
  limit_df rows fs start stop reset = Ok out -> In r rows -> keep_row fs start stop r = true ->
  In (shift_srow (limit_offset fs start reset) (fst r), snd r) out.
Proof.
  intros H Hin Hk. apply limit_df_spec in H. cbv zeta in H.
  fold (start_or_0 start) in H. fold (limit_offset fs start reset) in H. subst out.
  apply in_map_iff. exists r. split; [reflexivity|].
  apply filter_In. split; assumption.
Qed.

(* ------------------------------------------------------------------------------------------ *)
(** * W1: when limit_df succeeds *)

Lemma Prim2B_zero : Prim2B 0%float = B754_zero false.
Proof. change 0%float with zero. rewrite zero_equiv, Prim2B_B2Prim. reflexivity. Qed.
Lemma Prim2B_infinity : Prim2B infinity = B754_infinity false.
Proof. rewrite infinity_equiv, Prim2B_B2Prim. reflexivity. Qed.

(** the sampling-rate test as a predicate: fs is accepted iff 0 < fs (finite or +infinity) or fs is a NaN
    (check_param_range lets a NaN through, and NaN == 0 is false); zeros of both signs, negative numbers and
    -infinity are rejected *)
Theorem limit_fs_ok_iff (fs : PrimFloat.float) :
  limit_fs_ok fs = true <-> (0 <? fs)%float = true \/ PrimFloat.is_nan fs = true.
Proof.
  unfold limit_fs_ok, in_range. rewrite !ltb_equiv, eqb_equiv, is_nan_equiv, Prim2B_zero, Prim2B_infinity.
  destruct (Prim2B fs) as [s|s| |s m e He]; try destruct s; cbn; intuition congruence.
Qed.

Theorem limit_fs_ok_zero : limit_fs_ok 0%float = false /\ limit_fs_ok (-0)%float = false /\
  limit_fs_ok_legacy 0%float = true /\ limit_fs_ok_legacy (-0)%float = true.
Proof. repeat split; reflexivity. Qed.

Theorem limit_fs_ok_finite_pos (fs : PrimFloat.float) : finite fs = true -> (limit_fs_ok fs = true <-> (0 < FR fs)%R).
Proof.
  intros Ffs. rewrite limit_fs_ok_iff. rewrite (finite_not_nan fs Ffs).
  rewrite (ltb_R 0%float fs finite_zero Ffs), FR_zero.
  case Rlt_bool_spec; intros H; split.
  - intros _. exact H.
  - intros _. left. reflexivity.
  - intros [H'|H']; discriminate H'.
  - intros H'. lra.
Qed.

Theorem limit_df_ok_iff (rows : list wrowX) fs start stop reset :
  (exists out, limit_df rows fs start stop reset = Ok out) <->
  ((0 <? fs)%float = true \/ PrimFloat.is_nan fs = true) /\ limits_ok start stop = true /\
  (reset = true -> PrimFloat.is_finite (fs * start_or_0 start)%float = true).
Proof.
  rewrite <- limit_fs_ok_iff. unfold limit_df. split.
  - intros (out & H). apply limit_df_with_ok in H. destruct H as (H1 & H2 & H3 & _).
    repeat split; assumption.
  - intros (H1 & H2 & H3). eexists. apply limit_df_with_ok. repeat split; try assumption.
Qed.

Theorem limit_df_err (rows : list wrowX) fs start stop reset e :
  limit_df rows fs start stop reset = Err e -> e = EValue \/ e = EOther.
Proof.
  unfold limit_df. intros H. apply limit_df_with_err in H.
  destruct H as [(H & _)|(H & _)]; [left|right]; exact H.
Qed.

(** an invalid sampling rate or invalid limits: ValueError *)
Theorem limit_df_err_invalid (rows : list wrowX) fs start stop reset :
  limit_fs_ok fs = false \/ limits_ok start stop = false ->
  limit_df rows fs start stop reset = Err EValue.
Proof.
  unfold limit_df, limit_df_with. intros [H|H].
  - rewrite H. reflexivity.
  - rewrite H. destruct (limit_fs_ok fs); reflexivity.
Qed.

(** the pre-repair model accepted a sampling rate of exactly 0 (F17) *)
Theorem limit_df_legacy_accepts_fs_zero (rows : list wrowX) start stop :
  limits_ok start stop = true ->
  (exists out, limit_df_legacy rows 0%float start stop false = Ok out) /\
  limit_df rows 0%float start stop false = Err EValue /\
  limit_df rows (-0)%float start stop false = Err EValue.
Proof.
  intros Hlim. split; [|split].
  - eexists. unfold limit_df_legacy. apply limit_df_with_ok.
    repeat split; [exact Hlim|intros H; discriminate H].
  - apply limit_df_err_invalid. left. reflexivity.
  - apply limit_df_err_invalid. left. reflexivity.
Qed.

End RowsProofs.

(* ------------------------------------------------------------------------------------------ *)
(** * W5: limit_signal keeps exactly the samples with start <= t < stop *)

Definition in_window (start stop : option PrimFloat.float) (x : PrimFloat.float * PrimFloat.float) : bool :=
  (match start with Some a => (a <=? fst x)%float | None => true end) &&
  (match stop with Some b => (fst x <? b)%float | None => true end).

Theorem limit_signal_spec tv start stop out :
  limit_signal tv start stop = Ok out ->
  out = filter (fun x => (match start with Some a => (a <=? fst x)%float | None => true end) &&
                         (match stop with Some b => (fst x <? b)%float | None => true end)) tv.
Proof.
  unfold limit_signal. intros H.
  destruct (negb (limits_ok start stop)) eqn:Hlim; [discriminate H|].
  cbv zeta in H. injection H as H. subst out.
  destruct start as [a|]; destruct stop as [b|].
  - apply filter_filter_and.
  - symmetry. apply filter_andb_true_r.
  - apply filter_ext. intros x. reflexivity.
  - symmetry. apply filter_true.
Qed.

Theorem limit_signal_ok_iff tv start stop :
  (exists out, limit_signal tv start stop = Ok out) <-> limits_ok start stop = true.
Proof.
  unfold limit_signal. destruct (limits_ok start stop) eqn:Hlim; cbn [negb].
  - split; [reflexivity|]. intros _. eexists. reflexivity.
  - split; [intros (out & H); discriminate H|intros H; discriminate H].
Qed.

Theorem limit_signal_err tv start stop e :
  limit_signal tv start stop = Err e -> e = EValue /\ limits_ok start stop = false.
Proof.
  unfold limit_signal. destruct (limits_ok start stop) eqn:Hlim; cbn [negb]; intros H.
  - discriminate H.
  - injection H as H. split; [symmetry; exact H|reflexivity].
Qed.

(** membership form: a sample is in the output iff it is in the input and start <= t < stop *)
Theorem limit_signal_In tv start stop out x :
  limit_signal tv start stop = Ok out ->
  (In x out <-> In x tv /\ in_window start stop x = true).
Proof.
  intros H. apply limit_signal_spec in H. subst out.
  unfold in_window. apply filter_In.
Qed.

Theorem limit_signal_length tv start stop out :
  limit_signal tv start stop = Ok out -> length out <= length tv.
Proof.
  intros H. apply limit_signal_spec in H. subst out. apply filter_length_le'.
Qed.

(* ------------------------------------------------------------------------------------------ *)
(** * W6: split_samples / drop_samples partition the columns *)

Theorem split_samples_filter {C} (cols : list (bool * C)) :
  split_samples cols = (filter (fun c => negb (fst c)) cols, filter (fun c => fst c) cols).
Proof. reflexivity. Qed.

Theorem drop_samples_split {C} (cols : list (bool * C)) :
  drop_samples cols = fst (split_samples cols).
Proof. reflexivity. Qed.

Theorem split_samples_partition {C} (cols : list (bool * C)) :
  let '(f, s) := split_samples cols in
  (forall c, In c cols <-> In c f \/ In c s) /\
  (forall c, In c f -> fst c = false) /\
  (forall c, In c s -> fst c = true) /\
  length f + length s = length cols.
Proof.
  unfold split_samples. repeat split.
  - intros Hc. destruct (fst c) eqn:Hf.
    + right. apply filter_In. split; assumption.
    + left. apply filter_In. split; [exact Hc|]. rewrite Hf. reflexivity.
  - intros [Hc|Hc]; apply filter_In in Hc; destruct Hc as (Hc & _); exact Hc.
  - intros c Hc. apply filter_In in Hc. destruct Hc as (_ & Hc).
    destruct (fst c); [discriminate Hc|reflexivity].
  - intros c Hc. apply filter_In in Hc. destruct Hc as (_ & Hc). exact Hc.
  - apply (filter_partition_length (fun c : bool * C => fst c)).
Qed.

Theorem drop_samples_spec {C} (cols : list (bool * C)) c :
  In c (drop_samples cols) <-> In c cols /\ fst c = false.
Proof.
  unfold drop_samples. rewrite filter_In. destruct (fst c); cbn [negb].
  - split; intros (Hc & H); discriminate H.
  - split; intros (Hc & _); split; [exact Hc|reflexivity|exact Hc|reflexivity].
Qed.

(** no column is in both parts *)
Theorem split_samples_disjoint {C} (cols : list (bool * C)) c :
  In c (fst (split_samples cols)) -> In c (snd (split_samples cols)) -> False.
Proof.
  unfold split_samples. cbn [fst snd]. intros H1 H2.
  apply filter_In in H1. apply filter_In in H2.
  destruct H1 as (_ & H1). destruct H2 as (_ & H2). rewrite H2 in H1. discriminate H1.
Qed.

(* ------------------------------------------------------------------------------------------ *)
(** * W7: flatten_dfs *)

Definition tag_rows {R L} (dl : list R * L) : list (R * L) := map (fun r => (r, snd dl)) (fst dl).

Lemma flatten1_unfold {R L} (dfs : list (list R)) (labels : list L) :
  flatten1 dfs labels =
  if Nat.eqb (length labels) (length dfs) then Ok (concat (map tag_rows (zip dfs labels))) else Err EValue.
Proof. reflexivity. Qed.

Lemma flat_map_fst {R L} (dfs : list (list R)) : forall (labels : list L),
  length labels = length dfs ->
  map fst (concat (map tag_rows (zip dfs labels))) = concat dfs.
Proof.
  induction dfs as [|df dfs IH]; intros labels Hlen.
  - reflexivity.
  - destruct labels as [|lb labels]; [discriminate Hlen|].
    cbn [zip map concat]. rewrite map_app. rewrite IH by (cbn [length] in Hlen; lia).
    f_equal. unfold tag_rows. cbn [fst snd]. rewrite map_map. cbn [fst].
    apply map_id_ext. reflexivity.
Qed.

Lemma flat_nth {R L} (dfs : list (list R)) : forall (labels : list L) (k i : nat) (d : R) (dl : L),
  length labels = length dfs -> k < length dfs -> i < length (nth k dfs []) ->
  nth (length (concat (firstn k dfs)) + i) (concat (map tag_rows (zip dfs labels))) (d, dl)
  = (nth i (nth k dfs []) d, nth k labels dl).
Proof.
  induction dfs as [|df dfs IH]; intros labels k i d dl Hlen Hk Hi.
  - cbn [length] in Hk. lia.
  - destruct labels as [|lb labels]; [discriminate Hlen|].
    cbn [zip map concat]. destruct k as [|k].
    + cbn [firstn concat length Nat.add nth] in *.
      rewrite app_nth1 by (unfold tag_rows; rewrite map_length; exact Hi).
      unfold tag_rows. cbn [fst snd].
      rewrite (nth_map_lt _ _ i d (d, dl) Hi). reflexivity.
    + cbn [firstn concat nth] in *. rewrite app_length.
      assert (Hl : length (tag_rows (df, lb)) = length df)
        by (unfold tag_rows; apply map_length).
      rewrite <- Hl. rewrite <- Nat.add_assoc. rewrite app_nth2_plus.
      apply IH; cbn [length] in Hlen, Hk; lia.
Qed.

Theorem flatten1_spec {R L} (dfs : list (list R)) (labels : list L) out :
  flatten1 dfs labels = Ok out ->
  length labels = length dfs /\
  map fst out = concat dfs /\
  forall k i d dl, k < length dfs -> i < length (nth k dfs []) ->
    nth (length (concat (firstn k dfs)) + i) out (d, dl) = (nth i (nth k dfs []) d, nth k labels dl).
Proof.
  rewrite flatten1_unfold. intros H.
  destruct (Nat.eqb (length labels) (length dfs)) eqn:Hlen; [|discriminate H].
  apply Nat.eqb_eq in Hlen. injection H as H. subst out.
  split; [exact Hlen|]. split.
  - apply flat_map_fst. exact Hlen.
  - intros k i d dl Hk Hi. apply flat_nth; assumption.
Qed.

Theorem flatten1_length {R L} (dfs : list (list R)) (labels : list L) out :
  flatten1 dfs labels = Ok out -> length out = length (concat dfs).
Proof.
  intros H. apply flatten1_spec in H. destruct H as (_ & H & _).
  rewrite <- H. symmetry. apply map_length.
Qed.

Theorem flatten1_ok_iff {R L} (dfs : list (list R)) (labels : list L) :
  (exists out, flatten1 dfs labels = Ok out) <-> length labels = length dfs.
Proof.
  unfold flatten1. destruct (Nat.eqb (length labels) (length dfs)) eqn:Hlen.
  - apply Nat.eqb_eq in Hlen. split; [intros _; exact Hlen|]. intros _. eexists. reflexivity.
  - apply Nat.eqb_neq in Hlen. split; [intros (out & H); discriminate H|]. intros H. contradiction.
Qed.

Theorem flatten1_err_iff {R L} (dfs : list (list R)) (labels : list L) :
  flatten1 dfs labels = Err EValue <-> length labels <> length dfs.
Proof.
  unfold flatten1. destruct (Nat.eqb (length labels) (length dfs)) eqn:Hlen.
  - apply Nat.eqb_eq in Hlen. split; [intros H; discriminate H|]. intros H. contradiction.
  - apply Nat.eqb_neq in Hlen. split; [intros _; exact Hlen|reflexivity].
Qed.

Theorem flatten1_err {R L} (dfs : list (list R)) (labels : list L) e :
  flatten1 dfs labels = Err e -> e = EValue.
Proof.
  unfold flatten1. destruct (Nat.eqb (length labels) (length dfs)); intros H.
  - discriminate H.
  - injection H as H. symmetry. exact H.
Qed.

(** 2-D list of tables, all rows of the same length n1: flatten2 is flatten1 of the row-major
    concatenation (also for the empty list: both demand zero labels) *)
Theorem flatten2_spec {R L} (dfs : list (list (list R))) (labels : list L) (n1 : nat) :
  (forall row, In row dfs -> length row = n1) ->
  flatten2 dfs labels = flatten1 (concat dfs) labels.
Proof.
  intros Hrect. unfold flatten2, flatten1. cbv zeta.
  rewrite (length_concat_rect dfs n1 Hrect).
  destruct dfs as [|row dfs].
  - reflexivity.
  - cbn [hd]. rewrite (Hrect row (or_introl eq_refl)). reflexivity.
Qed.

(** row-major order: table [i][j] is table number i * n1 + j of the flattened list, hence
    (flatten1_spec) carries label number i * n1 + j *)
Theorem flatten2_index {R} (dfs : list (list (list R))) (n1 i j : nat) :
  (forall row, In row dfs -> length row = n1) -> i < length dfs -> j < n1 ->
  nth (i * n1 + j) (concat dfs) [] = nth j (nth i dfs []) [].
Proof.
  intros Hrect Hi Hj. apply nth_concat_rect; assumption.
Qed.

Theorem flatten2_rows {R L} (dfs : list (list (list R))) (labels : list L) (n1 : nat) out :
  (forall row, In row dfs -> length row = n1) ->
  flatten2 dfs labels = Ok out ->
  length labels = length dfs * n1 /\
  map fst out = concat (concat dfs) /\
  forall i j r d dl, i < length dfs -> j < n1 -> r < length (nth j (nth i dfs []) []) ->
    nth (length (concat (firstn (i * n1 + j) (concat dfs))) + r) out (d, dl)
    = (nth r (nth j (nth i dfs []) []) d, nth (i * n1 + j) labels dl).
Proof.
  intros Hrect H. rewrite (flatten2_spec dfs labels n1 Hrect) in H.
  apply flatten1_spec in H. destruct H as (Hlen & Hfst & Hnth).
  rewrite (length_concat_rect dfs n1 Hrect) in Hlen.
  split; [exact Hlen|]. split; [exact Hfst|].
  intros i j r d dl Hi Hj Hr.
  rewrite <- (flatten2_index dfs n1 i j Hrect Hi Hj) in *.
  apply Hnth; [|exact Hr].
  rewrite (length_concat_rect dfs n1 Hrect).
  apply Nat.lt_le_trans with (i * n1 + n1); [lia|].
  replace (i * n1 + n1) with (S i * n1) by (cbn [Nat.mul]; lia).
  apply Nat.mul_le_mono_r. lia.
Qed.

(* ------------------------------------------------------------------------------------------ *)
(** * W3: which rows are kept *)

(** ** binary64 facts about the time stamps k / fs *)

#[local] Instance Hprec53' : FLX.Prec_gt_0 53 := eq_refl _.
#[local] Instance Hmax1024' : Prec_lt_emax 53 1024 := eq_refl _.
#[local] Instance Vexp' : Generic_fmt.Valid_exp (SpecFloat.fexp 53 1024) := fexp_correct 53 1024 Hprec53'.

(* a division whose rounded quotient is below 2^1024 does not overflow *)
Lemma div_FR_bounded (x y : PrimFloat.float) : finite x = true -> finite y = true -> FR y <> 0%R ->
  (Rabs (rnd64 (FR x / FR y)) < bpow radix2 1024)%R ->
  finite (x / y)%float = true /\ FR (x / y)%float = rnd64 (FR x / FR y).
Proof.
  intros Fx Fy Hy Hb.
  generalize (Bdiv_correct 53 1024 eq_refl eq_refl mode_NE (Prim2B x) (Prim2B y) Hy).
  fold (FR x) (FR y). fold (rnd64 (FR x / FR y)).
  rewrite Rlt_bool_true by exact Hb.
  intros (Hv & Hfin & _). split.
  - unfold finite. rewrite div_equiv. etransitivity; [exact Hfin|exact Fx].
  - unfold FR. rewrite div_equiv. exact Hv.
Qed.

(* ... and a division with a finite result is the correctly rounded real quotient *)
Lemma div_FR_fin (x y : PrimFloat.float) : finite x = true -> finite y = true -> FR y <> 0%R ->
  finite (x / y)%float = true -> FR (x / y)%float = rnd64 (FR x / FR y).
Proof.
  intros Fx Fy Hy Fq.
  generalize (Bdiv_correct 53 1024 eq_refl eq_refl mode_NE (Prim2B x) (Prim2B y) Hy).
  fold (FR x) (FR y). fold (rnd64 (FR x / FR y)).
  destruct (Rlt_bool _ _).
  - intros (Hv & _). unfold FR. rewrite div_equiv. exact Hv.
  - intros Hov. exfalso.
    assert (Hnf : forall q : binary_float 53 1024,
              B2SF q = binary_overflow 53 1024 mode_NE (xorb (Bsign (Prim2B x)) (Bsign (Prim2B y))) ->
              is_finite q = false).
    { intros q Hq. destruct q as [s|s| |s m e He]; try reflexivity; discriminate Hq. }
    apply Hnf in Hov. unfold finite in Fq. rewrite div_equiv in Fq.
    assert (E : true = false) by (rewrite <- Fq; exact Hov). discriminate E.
Qed.

(** the time stamp of sample k: FR (Z2F k / fs) = fl(k / fs) *)
Lemma time_FR (fs : PrimFloat.float) (k : Z) :
  finite fs = true -> (0 < FR fs)%R -> (Z.abs k < 2 ^ 53)%Z ->
  finite (FloatFacts.Z2F k / fs)%float = true ->
  FR (FloatFacts.Z2F k / fs)%float = rnd64 (IZR k / FR fs).
Proof.
  intros Ffs Hfs Hk Fq. destruct (Z2F_exact k Hk) as (Fk & Vk).
  rewrite <- Vk. apply div_FR_fin; try assumption. lra.
Qed.

(** the rounding error of a time stamp is below one sample period: |fl(k / fs) - k / fs| < 1 / fs for
    |k| < 2^53 (relative error 2^-53 in the normal range, absolute error 2^-1075 below it, fs < 2^1024) *)
Lemma time_error (fs : PrimFloat.float) (k : Z) :
  finite fs = true -> (0 < FR fs)%R -> (Z.abs k < 2 ^ 53)%Z ->
  (Rabs (rnd64 (IZR k / FR fs) - IZR k / FR fs) < / FR fs)%R.
Proof.
  intros Ffs Hfs Hk.
  assert (Hinv : (0 < / FR fs)%R) by (apply Rinv_0_lt_compat, Hfs).
  set (x := (IZR k / FR fs)%R).
  assert (Hax : Rabs x = (Rabs (IZR k) * / FR fs)%R).
  { unfold x, Rdiv. rewrite Rabs_mult, (Rabs_pos_eq (/ FR fs)) by lra. reflexivity. }
  assert (Hk' : (Rabs (IZR k) < IZR (2 ^ 53))%R).
  { rewrite <- abs_IZR. apply IZR_lt. exact Hk. }
  assert (Hhalf : (Rabs (rnd64 x - x) <= / 2 * Ulp.ulp radix2 (SpecFloat.fexp 53 1024) x)%R).
  { unfold rnd64. apply Ulp.error_le_half_ulp. exact Vexp'. }
  change (SpecFloat.fexp 53 1024) with (FLT_exp (-1074) 53) in Hhalf.
  destruct (Rle_or_lt (bpow radix2 (-1074 + 53 - 1)) (Rabs x)) as [Hnorm|Hsub].
  - assert (Hu := ulp_FLT_le radix2 (-1074) 53 x Hnorm).
    change (bpow radix2 (1 - 53)) with (/ IZR (2 ^ 52))%R in Hu.
    assert (P52 : (0 < IZR (2 ^ 52))%R) by (apply IZR_lt; reflexivity).
    assert (E53 : IZR (2 ^ 53) = (2 * IZR (2 ^ 52))%R) by (rewrite <- mult_IZR; reflexivity).
    rewrite Hax in Hu.
    apply Rle_lt_trans with (1 := Hhalf).
    apply Rle_lt_trans with (/ 2 * (Rabs (IZR k) * / FR fs * / IZR (2 ^ 52)))%R; [lra|].
    replace (/ 2 * (Rabs (IZR k) * / FR fs * / IZR (2 ^ 52)))%R
      with ((Rabs (IZR k) * / IZR (2 ^ 53)) * / FR fs)%R by (rewrite E53; field; split; lra).
    rewrite <- (Rmult_1_l (/ FR fs)) at 2. apply Rmult_lt_compat_r; [exact Hinv|].
    assert (P53 : (0 < IZR (2 ^ 53))%R) by lra.
    apply Rmult_lt_reg_r with (IZR (2 ^ 53)); [exact P53|].
    rewrite Rmult_assoc, Rinv_l by lra. lra.
  - assert (Hu : Ulp.ulp radix2 (FLT_exp (-1074) 53) x = bpow radix2 (-1074)).
    { apply (ulp_FLT_small radix2 (-1074) 53 x). apply Rlt_trans with (1 := Hsub). apply bpow_lt. lia. }
    rewrite Hu in Hhalf.
    assert (Bfs : (Rabs (FR fs) < bpow radix2 1024)%R) by apply abs_B2R_lt_emax.
    rewrite Rabs_pos_eq in Bfs by lra.
    assert (Hlow : (bpow radix2 (-1024) < / FR fs)%R).
    { replace (bpow radix2 (-1024)) with (/ bpow radix2 1024)%R by (symmetry; apply (bpow_opp radix2 1024)). apply Rinv_lt_contravar; [|exact Bfs].
      apply Rmult_lt_0_compat; [exact Hfs|apply bpow_gt_0]. }
    assert (Hb : (bpow radix2 (-1074) < bpow radix2 (-1024))%R) by (apply bpow_lt; lia).
    assert (Hp : (0 < bpow radix2 (-1074))%R) by apply bpow_gt_0.
    lra.
Qed.

(** time stamps are monotone in the sample index: k <= k' -> fl(k / fs) <= fl(k' / fs) *)
Lemma time_le (fs : PrimFloat.float) (k k' : Z) :
  finite fs = true -> (0 < FR fs)%R -> (Z.abs k < 2 ^ 53)%Z -> (Z.abs k' < 2 ^ 53)%Z ->
  finite (FloatFacts.Z2F k / fs)%float = true -> finite (FloatFacts.Z2F k' / fs)%float = true ->
  (k <= k')%Z ->
  (FloatFacts.Z2F k / fs <=? FloatFacts.Z2F k' / fs)%float = true.
Proof.
  intros Ffs Hfs Hk Hk' Fq Fq' Hle.
  rewrite (leb_R _ _ Fq Fq'), (time_FR fs k Ffs Hfs Hk Fq), (time_FR fs k' Ffs Hfs Hk' Fq').
  apply Rle_bool_true. apply rnd64_le.
  apply Rmult_le_compat_r; [apply Rlt_le, Rinv_0_lt_compat, Hfs|]. apply IZR_le. exact Hle.
Qed.

(** a time stamp between two finite time stamps is finite *)
Lemma time_finite_between (fs : PrimFloat.float) (k0 k k1 : Z) :
  finite fs = true -> (0 < FR fs)%R ->
  (Z.abs k0 < 2 ^ 53)%Z -> (Z.abs k1 < 2 ^ 53)%Z ->
  finite (FloatFacts.Z2F k0 / fs)%float = true -> finite (FloatFacts.Z2F k1 / fs)%float = true ->
  (k0 <= k <= k1)%Z ->
  finite (FloatFacts.Z2F k / fs)%float = true.
Proof.
  intros Ffs Hfs Hk0 Hk1 F0 F1 Hk.
  assert (Hka : (Z.abs k < 2 ^ 53)%Z) by lia.
  destruct (Z2F_exact k Hka) as (Fk & Vk).
  assert (Hinv : (0 <= / FR fs)%R) by (apply Rlt_le, Rinv_0_lt_compat, Hfs).
  assert (Hlo : (FR (FloatFacts.Z2F k0 / fs)%float <= rnd64 (IZR k / FR fs))%R).
  { rewrite (time_FR fs k0 Ffs Hfs Hk0 F0). apply rnd64_le.
    apply Rmult_le_compat_r; [exact Hinv|]. apply IZR_le. lia. }
  assert (Hhi : (rnd64 (IZR k / FR fs) <= FR (FloatFacts.Z2F k1 / fs)%float)%R).
  { rewrite (time_FR fs k1 Ffs Hfs Hk1 F1). apply rnd64_le.
    apply Rmult_le_compat_r; [exact Hinv|]. apply IZR_le. lia. }
  assert (B0 : (Rabs (FR (FloatFacts.Z2F k0 / fs)%float) < bpow radix2 1024)%R) by apply abs_B2R_lt_emax.
  assert (B1 : (Rabs (FR (FloatFacts.Z2F k1 / fs)%float) < bpow radix2 1024)%R) by apply abs_B2R_lt_emax.
  apply Rabs_def2 in B0. apply Rabs_def2 in B1.
  destruct (div_FR_bounded (FloatFacts.Z2F k) fs Fk Ffs) as (Fq & _).
  - lra.
  - rewrite Vk. apply Rabs_def1; lra.
  - exact Fq.
Qed.

Section KeepProofs.
Context {X : Type}.
Notation wrowX := (@wrow X).

(** the row test, clause by clause (binary64 comparisons of the time stamps with the limits) *)
Theorem keep_row_iff fs start stop (r : wrowX) :
  keep_row fs start stop r = true <->
  (start_or_0 start <=? FloatBase.Z2F (s_last (fst r)) / fs)%float = true /\
  (match stop with
   | Some b => (FloatBase.Z2F (s_next (fst r)) / fs <=? b)%float = true
   | None => True
   end).
Proof.
  unfold keep_row. rewrite andb_true_iff.
  destruct stop as [b|]; [reflexivity|].
  split; intros (H1 & _); split; [exact H1|exact I|exact H1|reflexivity].
Qed.

Theorem keep_row_legacy_iff fs start stop (r : wrowX) :
  keep_row_legacy fs start stop r = true <->
  ((start_or_0 start * fs) <=? FloatBase.Z2F (s_last (fst r)))%float = true /\
  (match stop with
   | Some b => (FloatBase.Z2F (s_next (fst r)) <=? (b * fs))%float = true
   | None => True
   end).
Proof.
  unfold keep_row_legacy. rewrite andb_true_iff.
  destruct stop as [b|]; [reflexivity|].
  split; intros (H1 & _); split; [exact H1|exact I|exact H1|reflexivity].
Qed.

(** every cycle whose time stamps lie inside [start, stop] is kept (binary64 order) *)
Corollary inside_kept fs start stop (r : wrowX) :
  (start_or_0 start <=? FloatBase.Z2F (s_last (fst r)) / fs)%float = true ->
  (forall b, stop = Some b -> (FloatBase.Z2F (s_next (fst r)) / fs <=? b)%float = true) ->
  keep_row fs start stop r = true.
Proof.
  intros H1 H2. apply keep_row_iff. split; [exact H1|].
  destruct stop as [b|]; [apply H2; reflexivity|exact I].
Qed.

Lemma finite_Z2F z : (Z.abs z < 2 ^ 53)%Z -> finite (FloatFacts.Z2F z) = true.
Proof. intros Hz. apply (Z2F_exact z Hz). Qed.

(* x <= y < z -> x < z on finite floats *)
Lemma leb_ltb_trans (x y z : PrimFloat.float) :
  finite x = true -> finite y = true -> finite z = true ->
  (x <=? y)%float = true -> (y <? z)%float = true -> (x <? z)%float = true.
Proof.
  intros Fx Fy Fz Hxy Hyz. rewrite (ltb_total x z Fx Fz).
  destruct (z <=? x)%float eqn:Hzx; [|reflexivity].
  assert (Hzy : (z <=? y)%float = true) by (apply (leb_trans z x y); assumption).
  rewrite (ltb_leb_incompat y z Fy Fz Hyz) in Hzy. discriminate Hzy.
Qed.

Lemma ltb_leb_trans (x y z : PrimFloat.float) :
  finite x = true -> finite y = true -> finite z = true ->
  (x <? y)%float = true -> (y <=? z)%float = true -> (x <? z)%float = true.
Proof.
  intros Fx Fy Fz Hxy Hyz. rewrite (ltb_total x z Fx Fz).
  destruct (z <=? x)%float eqn:Hzx; [|reflexivity].
  assert (Hyx : (y <=? x)%float = true) by (apply (leb_trans y z x); assumption).
  rewrite (ltb_leb_incompat x y Fx Fy Hxy) in Hyx. discriminate Hyx.
Qed.

(** REAL-number reading of "inside": if the exact time of the first sample, last / fs, is not before the
    (binary64) start and the exact time of the last sample, next / fs, is not after the (binary64) stop, the
    row is kept.  Rounding the quotient to nearest is monotone and the limits are binary64 numbers
    themselves, so rounding cannot push an inside cycle out. *)
Theorem inside_kept_real fs start stop (r : wrowX) :
  finite fs = true -> (0 < FR fs)%R ->
  finite (start_or_0 start) = true ->
  (Z.abs (s_last (fst r)) < 2 ^ 53)%Z ->
  finite (FloatBase.Z2F (s_last (fst r)) / fs)%float = true ->
  (FR (start_or_0 start) <= IZR (s_last (fst r)) / FR fs)%R ->
  (forall b, stop = Some b ->
     finite b = true /\ (Z.abs (s_next (fst r)) < 2 ^ 53)%Z /\
     finite (FloatBase.Z2F (s_next (fst r)) / fs)%float = true /\
     (IZR (s_next (fst r)) / FR fs <= FR b)%R) ->
  keep_row fs start stop r = true.
Proof.
  intros Ffs Hfs Fa Hl Fql Ha Hstop.
  change FloatBase.Z2F with FloatFacts.Z2F in *.
  apply inside_kept; change FloatBase.Z2F with FloatFacts.Z2F.
  - rewrite (leb_R _ _ Fa Fql), (time_FR fs _ Ffs Hfs Hl Fql).
    apply Rle_bool_true. rewrite <- (rnd64_FR (start_or_0 start)). apply rnd64_le. exact Ha.
  - intros b Hb. destruct (Hstop b Hb) as (Fb & Hn & Fqn & Hnb).
    rewrite (leb_R _ _ Fqn Fb), (time_FR fs _ Ffs Hfs Hn Fqn).
    apply Rle_bool_true. rewrite <- (rnd64_FR b). apply rnd64_le. exact Hnb.
Qed.

(** time-stamp reading: limits taken from the library's own time axis arange(n) / fs.  If start is the time
    stamp of sample k0, stop the time stamp of sample k1 (both finite) and the cycle spans samples
    k0 <= last <= next <= k1, the row is kept — whatever (k / fs) * fs rounds to. *)
Theorem on_grid_limits fs (k0 k1 : Z) (r : wrowX) :
  finite fs = true -> (0 < FR fs)%R ->
  (Z.abs k0 < 2 ^ 53)%Z -> (Z.abs k1 < 2 ^ 53)%Z ->
  finite (FloatBase.Z2F k0 / fs)%float = true -> finite (FloatBase.Z2F k1 / fs)%float = true ->
  (k0 <= s_last (fst r))%Z -> (s_last (fst r) <= s_next (fst r))%Z -> (s_next (fst r) <= k1)%Z ->
  keep_row fs (Some (FloatBase.Z2F k0 / fs)%float) (Some (FloatBase.Z2F k1 / fs)%float) r = true.
Proof.
  intros Ffs Hfs Hk0 Hk1 F0 F1 H0l Hln Hn1.
  change FloatBase.Z2F with FloatFacts.Z2F in *.
  assert (Hl : (Z.abs (s_last (fst r)) < 2 ^ 53)%Z) by lia.
  assert (Hn : (Z.abs (s_next (fst r)) < 2 ^ 53)%Z) by lia.
  assert (Fl : finite (FloatFacts.Z2F (s_last (fst r)) / fs)%float = true).
  { apply (time_finite_between fs k0 _ k1); try assumption. lia. }
  assert (Fn : finite (FloatFacts.Z2F (s_next (fst r)) / fs)%float = true).
  { apply (time_finite_between fs k0 _ k1); try assumption. lia. }
  apply inside_kept; change FloatBase.Z2F with FloatFacts.Z2F; cbn [start_or_0].
  - apply time_le; assumption.
  - intros b Hb. injection Hb as Hb. subst b. apply time_le; assumption.
Qed.

(** the same with a start only *)
Theorem on_grid_start fs (k0 : Z) (r : wrowX) :
  finite fs = true -> (0 < FR fs)%R ->
  (Z.abs k0 < 2 ^ 53)%Z -> (Z.abs (s_last (fst r)) < 2 ^ 53)%Z ->
  finite (FloatBase.Z2F k0 / fs)%float = true -> finite (FloatBase.Z2F (s_last (fst r)) / fs)%float = true ->
  (k0 <= s_last (fst r))%Z ->
  keep_row fs (Some (FloatBase.Z2F k0 / fs)%float) None r = true.
Proof.
  intros Ffs Hfs Hk0 Hl F0 Fl H0l.
  change FloatBase.Z2F with FloatFacts.Z2F in *.
  apply inside_kept; change FloatBase.Z2F with FloatFacts.Z2F; cbn [start_or_0].
  - apply time_le; assumption.
  - intros b Hb. discriminate Hb.
Qed.

(** binary64-order reading of "outside": a cycle whose last time stamp is before start, or whose first time
    stamp is after stop, is dropped (s_last <= s_next suffices) *)
Theorem outside_not_kept fs start stop (r : wrowX) :
  finite fs = true -> (0 < FR fs)%R ->
  (Z.abs (s_last (fst r)) < 2 ^ 53)%Z -> (Z.abs (s_next (fst r)) < 2 ^ 53)%Z ->
  (s_last (fst r) <= s_next (fst r))%Z ->
  finite (FloatBase.Z2F (s_last (fst r)) / fs)%float = true ->
  finite (FloatBase.Z2F (s_next (fst r)) / fs)%float = true ->
  (finite (start_or_0 start) = true /\
   (FloatBase.Z2F (s_next (fst r)) / fs <? start_or_0 start)%float = true) \/
  (exists b, stop = Some b /\ finite b = true /\ (b <? FloatBase.Z2F (s_last (fst r)) / fs)%float = true) ->
  keep_row fs start stop r = false.
Proof.
  intros Ffs Hfs Hl Hn Hln Fl Fn Hout.
  change FloatBase.Z2F with FloatFacts.Z2F in *.
  assert (HLN : (FloatFacts.Z2F (s_last (fst r)) / fs <=? FloatFacts.Z2F (s_next (fst r)) / fs)%float = true)
    by (apply time_le; assumption).
  unfold keep_row. change FloatBase.Z2F with FloatFacts.Z2F.
  destruct Hout as [(Fa & Hbefore)|(b & Hstop & Fb & Hafter)].
  - assert (Hlt : (FloatFacts.Z2F (s_last (fst r)) / fs <? start_or_0 start)%float = true).
    { apply (leb_ltb_trans _ (FloatFacts.Z2F (s_next (fst r)) / fs)%float); assumption. }
    rewrite (ltb_leb_incompat _ _ Fl Fa Hlt). reflexivity.
  - subst stop.
    assert (Hlt : (b <? FloatFacts.Z2F (s_next (fst r)) / fs)%float = true).
    { apply (ltb_leb_trans _ (FloatFacts.Z2F (s_last (fst r)) / fs)%float); assumption. }
    rewrite (ltb_leb_incompat _ _ Fb Fn Hlt). apply andb_false_r.
Qed.

(** REAL-number reading of "outside": a cycle (last < next) whose last sample lies before start in exact
    arithmetic, next / fs < start, is dropped; symmetrically a cycle whose first sample lies after stop,
    stop < last / fs.  The test looks at the ROUNDED time stamp fl(last / fs) of the first sample, which lies
    a whole sample period below next / fs; the rounding error of a time stamp k / fs with |k| < 2^53 is below
    one sample period (time_error: sample periods are resolvable wherever sample indices are exact in
    binary64), so fl(last / fs) < next / fs < start.  This is where |sample index| < 2^53 and last < next
    (a cycle has at least two samples) are needed; start and stop may be any finite binary64 numbers. *)
Theorem outside_not_kept_real fs start stop (r : wrowX) :
  finite fs = true -> (0 < FR fs)%R ->
  (Z.abs (s_last (fst r)) < 2 ^ 53)%Z -> (Z.abs (s_next (fst r)) < 2 ^ 53)%Z ->
  (s_last (fst r) < s_next (fst r))%Z ->
  (finite (start_or_0 start) = true /\
   finite (FloatBase.Z2F (s_last (fst r)) / fs)%float = true /\
   (IZR (s_next (fst r)) / FR fs < FR (start_or_0 start))%R) \/
  (exists b, stop = Some b /\ finite b = true /\
   finite (FloatBase.Z2F (s_next (fst r)) / fs)%float = true /\
   (FR b < IZR (s_last (fst r)) / FR fs)%R) ->
  keep_row fs start stop r = false.
Proof.
  intros Ffs Hfs Hl Hn Hln Hout.
  change FloatBase.Z2F with FloatFacts.Z2F in *.
  assert (Hinv : (0 < / FR fs)%R) by (apply Rinv_0_lt_compat, Hfs).
  assert (Hstep : (IZR (s_last (fst r)) / FR fs + / FR fs <= IZR (s_next (fst r)) / FR fs)%R).
  { unfold Rdiv. rewrite <- (Rmult_1_l (/ FR fs)) at 2. rewrite <- Rmult_plus_distr_r.
    apply Rmult_le_compat_r; [lra|]. rewrite <- plus_IZR. apply IZR_le. lia. }
  unfold keep_row. change FloatBase.Z2F with FloatFacts.Z2F.
  destruct Hout as [(Fa & Fql & Hbefore)|(b & Hstop & Fb & Fqn & Hafter)].
  - assert (Herr := time_error fs _ Ffs Hfs Hl). apply Rabs_def2 in Herr.
    assert (Hlt : (FloatFacts.Z2F (s_last (fst r)) / fs <? start_or_0 start)%float = true).
    { rewrite (ltb_R _ _ Fql Fa), (time_FR fs _ Ffs Hfs Hl Fql). apply Rlt_bool_true. lra. }
    rewrite (ltb_leb_incompat _ _ Fql Fa Hlt). reflexivity.
  - subst stop.
    assert (Herr := time_error fs _ Ffs Hfs Hn). apply Rabs_def2 in Herr.
    assert (Hlt : (b <? FloatFacts.Z2F (s_next (fst r)) / fs)%float = true).
    { rewrite (ltb_R _ _ Fb Fqn), (time_FR fs _ Ffs Hfs Hn Fqn). apply Rlt_bool_true. lra. }
    rewrite (ltb_leb_incompat _ _ Fb Fqn Hlt). apply andb_false_r.
Qed.

(** when both limits fall exactly on sample indices A = start * fs and B = stop * fs the
    pre-repair selection was the integer one: A <= s_last and s_next <= B *)
Theorem keep_row_legacy_Z fs a b (A B : Z) (r : wrowX) :
  (a * fs)%float = FloatBase.Z2F A -> (b * fs)%float = FloatBase.Z2F B ->
  (Z.abs A < 2 ^ 53)%Z -> (Z.abs B < 2 ^ 53)%Z ->
  (Z.abs (s_last (fst r)) < 2 ^ 53)%Z -> (Z.abs (s_next (fst r)) < 2 ^ 53)%Z ->
  keep_row_legacy fs (Some a) (Some b) r = ((A <=? s_last (fst r))%Z && (s_next (fst r) <=? B)%Z).
Proof.
  intros HA HB HAr HBr Hl Hn. unfold keep_row_legacy. cbn [start_or_0]. rewrite HA, HB.
  change FloatBase.Z2F with FloatFacts.Z2F.
  rewrite (Z2F_leb _ _ HAr Hl), (Z2F_leb _ _ Hn HBr). reflexivity.
Qed.

(* ------------------------------------------------------------------------------------------ *)
(** * W4: no limits *)

Lemma mul_zero_r (fs : PrimFloat.float) : finite fs = true ->
  PrimFloat.is_finite (fs * 0)%float = true.
Proof.
  unfold finite. intros Ffs. rewrite is_finite_equiv, mul_equiv, Prim2B_zero.
  destruct (Prim2B fs) as [s|s| |s m e He]; try discriminate Ffs; reflexivity.
Qed.

(** x * 0 is a zero or NaN, never a non-zero finite number: the offset is 0 for every fs *)
Lemma F2Z_trunc_mul_0 (fs : PrimFloat.float) : F2Z_trunc (fs * 0)%float = 0%Z.
Proof.
  unfold F2Z_trunc. rewrite mul_spec.
  change (Prim2SF 0%float) with (S754_zero false).
  destruct (Prim2SF fs) as [s|s| |s m e]; reflexivity.
Qed.

Lemma F2Z_trunc_0 : F2Z_trunc 0%float = 0%Z.
Proof. reflexivity. Qed.
Lemma F2Z_trunc_m0 : F2Z_trunc (-0)%float = 0%Z.
Proof. reflexivity. Qed.

(** ... and so is (fs * 0) - 0: every comparison of F2Z_round is false, the rounded offset is 0 *)
Lemma F2Z_round_mul_0 (fs : PrimFloat.float) : F2Z_round (fs * 0)%float = 0%Z.
Proof.
  unfold F2Z_round. cbv zeta. rewrite F2Z_trunc_mul_0.
  change (FloatBase.Z2F 0) with 0%float.
  rewrite !ltb_spec, !eqb_spec, !sub_spec, !mul_spec.
  change (Prim2SF 0%float) with (S754_zero false).
  change (Prim2SF 0x1p-1%float) with (S754_finite false 4503599627370496 (-53)).
  change (Prim2SF (-0x1p-1)%float) with (S754_finite true 4503599627370496 (-53)).
  destruct (Prim2SF fs) as [s|s| |s m e]; try destruct s; reflexivity.
Qed.

Lemma F2Z_round_0 : F2Z_round 0%float = 0%Z.
Proof. reflexivity. Qed.

Lemma limit_offset_none fs reset : limit_offset fs None reset = 0%Z.
Proof. unfold limit_offset. cbn [start_or_0]. destruct reset; [apply F2Z_round_mul_0|reflexivity]. Qed.

Lemma zero_leb_time (fs : PrimFloat.float) z : finite fs = true -> (0 < FR fs)%R -> (0 <= z < 2 ^ 53)%Z ->
  finite (FloatFacts.Z2F z / fs)%float = true ->
  (0 <=? FloatFacts.Z2F z / fs)%float = true.
Proof.
  intros Ffs Hfs Hz Fq.
  assert (Ha : (Z.abs z < 2 ^ 53)%Z) by (rewrite Z.abs_eq; lia).
  rewrite (leb_R _ _ finite_zero Fq), FR_zero, (time_FR fs z Ffs Hfs Ha Fq).
  apply Rle_bool_true. rewrite <- rnd64_0. apply rnd64_le.
  apply Rmult_le_pos; [apply IZR_le; lia|]. apply Rlt_le, Rinv_0_lt_compat, Hfs.
Qed.

(** without limits the table is filtered by 0 <= fl(s_last / fs) only, and never shifted *)
Theorem limit_df_none_partial (rows : list wrowX) fs reset :
  limit_fs_ok fs = true -> finite fs = true ->
  limit_df rows fs None None reset
  = Ok (filter (fun r => (0 <=? FloatBase.Z2F (s_last (fst r)) / fs)%float) rows).
Proof.
  intros Hfs Ffs. unfold limit_df. apply limit_df_with_ok.
  split; [exact Hfs|]. split; [reflexivity|]. split.
  - intros _. cbn [start_or_0]. apply mul_zero_r. exact Ffs.
  - rewrite limit_offset_none.
    assert (Hk : filter (keep_row fs None None) rows
                 = filter (fun r : wrowX => (0 <=? FloatBase.Z2F (s_last (fst r)) / fs)%float) rows).
    { apply filter_ext. intros r. unfold keep_row. cbn [start_or_0]. apply andb_true_r. }
    rewrite Hk. symmetry. apply map_id_ext. intros [s x]. cbn [fst snd].
    rewrite shift_srow_0. reflexivity.
Qed.

(** ... which is the whole table for a finite positive sampling rate and non-negative sample indices
    (with finite time stamps) *)
Theorem limit_df_none (rows : list wrowX) fs reset :
  limit_fs_ok fs = true -> finite fs = true ->
  (forall r, In r rows -> (0 <= s_last (fst r) < 2 ^ 53)%Z /\
                          finite (FloatBase.Z2F (s_last (fst r)) / fs)%float = true) ->
  limit_df rows fs None None reset = Ok rows.
Proof.
  intros Hfs Ffs Hrows. rewrite (limit_df_none_partial rows fs reset Hfs Ffs). f_equal.
  assert (Hpos : (0 < FR fs)%R) by (apply (limit_fs_ok_finite_pos fs Ffs); exact Hfs).
  induction rows as [|r rows IH]; [reflexivity|].
  cbn [filter]. change FloatBase.Z2F with FloatFacts.Z2F.
  destruct (Hrows r (or_introl eq_refl)) as (Hr & Fr).
  rewrite (zero_leb_time fs _ Ffs Hpos Hr Fr).
  f_equal. apply IH. intros r' Hr'. apply Hrows. right. exact Hr'.
Qed.

End KeepProofs.

(* ------------------------------------------------------------------------------------------ *)
(** * F16 refuted on the pre-repair row test: at fs = 100 the window starts on the time stamp of sample 7
    (the double 0x1.1eb851eb851ecp-4 = fl(7 / 100), whose product with 100 rounds to 7.000000000000001); a
    cycle spanning samples [7, 10] — entirely inside the window — was dropped, and is kept now *)
Theorem legacy_boundary_cycle_refuted {X : Type} (x : X) (c zr zd lz : Z) :
  let t7 := 0x1.1eb851eb851ecp-4%float in
  let r : @wrow X := (Build_srow c 7 10 zr zd lz, x) in
  (FloatBase.Z2F 7 / 100 =? t7)%float = true /\
  keep_row_legacy 100 (Some t7) None r = false /\
  keep_row 100 (Some t7) None r = true.
Proof. vm_compute. repeat split. Qed.

(* ------------------------------------------------------------------------------------------ *)
(** * W8: non-vacuity (all by computation).  Literals in hexadecimal to avoid parser rounding
    warnings: 0.2 = 0x1.999999999999ap-3, 0.61 = 0x1.3851eb851eb85p-1, 0.1 = 0x1.999999999999ap-4,
    0.3 = 0x1.3333333333333p-2, 0.4 = 0x1.999999999999ap-2, 0.29 = 0x1.28f5c28f5c28fp-2,
    29.999999999999996 = 0x1.dffffffffffffp+4 *)

Module Examples.
Definition f02 : PrimFloat.float := 0x1.999999999999ap-3%float.
Definition f061 : PrimFloat.float := 0x1.3851eb851eb85p-1%float.
Definition f01 : PrimFloat.float := 0x1.999999999999ap-4%float.
Definition f03 : PrimFloat.float := 0x1.3333333333333p-2%float.
Definition f04 : PrimFloat.float := 0x1.999999999999ap-2%float.

Definition mk (c l n zr zd lz : Z) (x : nat) : @wrow nat := (Build_srow c l n zr zd lz, x).
(* cycles [10,30] [20,40] [40,61] [61,80] at fs = 100; window [0.2 s, 0.61 s] = samples [20, 61] *)
Definition tbl : list (@wrow nat) :=
  [mk 20 10 30 15 25 5 0; mk 30 20 40 25 35 15 1; mk 50 40 61 45 55 35 2; mk 70 61 80 65 75 55 3].

Example ex_window_limits : ((f02 * 100)%float, (f061 * 100)%float) = (20%float, 61%float).
Proof. vm_compute. reflexivity. Qed.

Example ex_keep : map (keep_row 100 (Some f02) (Some f061)) tbl = [false; true; true; false].
Proof. vm_compute. reflexivity. Qed.

Example ex_limit_df_reset :
  limit_df tbl 100 (Some f02) (Some f061) true
  = Ok [mk 10 0 20 5 15 (-5) 1; mk 30 20 41 25 35 15 2].
Proof. vm_compute. reflexivity. Qed.

Example ex_limit_df_noreset :
  limit_df tbl 100 (Some f02) (Some f061) false
  = Ok [mk 30 20 40 25 35 15 1; mk 50 40 61 45 55 35 2].
Proof. vm_compute. reflexivity. Qed.

Example ex_limit_df_start_only :
  limit_df tbl 100 (Some f02) None true
  = Ok [mk 10 0 20 5 15 (-5) 1; mk 30 20 41 25 35 15 2; mk 50 41 60 45 55 35 3].
Proof. vm_compute. reflexivity. Qed.

Example ex_limit_df_stop_only :
  limit_df tbl 100 None (Some f061) true
  = Ok [mk 20 10 30 15 25 5 0; mk 30 20 40 25 35 15 1; mk 50 40 61 45 55 35 2].
Proof. vm_compute. reflexivity. Qed.

Example ex_limit_df_none : limit_df tbl 100 None None true = Ok tbl.
Proof. vm_compute. reflexivity. Qed.

Example ex_limit_df_bad_order : limit_df tbl 100 (Some f061) (Some f02) true = Err EValue.
Proof. vm_compute. reflexivity. Qed.

Example ex_limit_df_bad_fs : limit_df tbl (-1) (Some f02) (Some f061) true = Err EValue.
Proof. vm_compute. reflexivity. Qed.
(* a sampling rate of exactly 0 (either sign) is rejected; it used to be accepted (F17) *)
Example ex_limit_df_fs_zero :
  (limit_df tbl 0 (Some f02) (Some f061) true, limit_df tbl (-0) None None false) = (Err EValue, Err EValue).
Proof. vm_compute. reflexivity. Qed.
Example ex_limit_df_legacy_fs_zero : limit_df_legacy tbl 0 (Some f02) (Some f061) false = Ok [].
Proof. vm_compute. reflexivity. Qed.

(* why limit_df_none needs its hypotheses: NaN and +inf pass the test of fs.  With a NaN every time stamp is
   NaN and every row is dropped (and int(round(NaN)) raises ValueError when the indices are reset); with +inf
   every time stamp is 0, so without limits everything is kept, but inf * 0 is NaN again; inf * start for a
   positive start is inf and int() raises OverflowError.  A negative s_last is dropped for any fs *)
Example ex_in_range_nan_inf : (limit_fs_ok nan, limit_fs_ok infinity, limit_fs_ok neg_infinity) = (true, true, false).
Proof. vm_compute. reflexivity. Qed.
Example ex_limit_df_none_nan :
  (limit_df tbl nan None None true, limit_df tbl nan None None false) = (Err EValue, Ok []).
Proof. vm_compute. reflexivity. Qed.
Example ex_limit_df_none_inf :
  (limit_df tbl infinity None None false, limit_df tbl infinity None None true,
   limit_df tbl infinity (Some f02) None true, limit_df tbl infinity (Some f02) None false)
  = (Ok tbl, Err EValue, Err EOther, Ok []).
Proof. vm_compute. reflexivity. Qed.
Example ex_limit_df_start_inf :
  (limit_df tbl 100 (Some infinity) None true, limit_df tbl 100 (Some infinity) None false) = (Err EOther, Ok []).
Proof. vm_compute. reflexivity. Qed.
Example ex_limit_df_none_negative : limit_df [mk 2 (-1) 5 0 3 (-2) 0] 100 None None false = Ok [].
Proof. vm_compute. reflexivity. Qed.

(* F16: at fs = 100 the time stamp of sample 7 is the double 0x1.1eb851eb851ecp-4 = fl(7 / 100), and
   fl(fl(7 / 100) * 100) = 7.000000000000001 > 7.  A cycle spanning samples [7, 10] lies entirely inside the
   window that starts at the time stamp of sample 7; the pre-repair test dropped it, the repaired one keeps it.
   (In the other direction, fl(fl(29 / 100) * 100) = 28.999999999999996 < 29: a window STOPPING on the time
   stamp of sample 29 lost the cycle ending there.) *)
Definition t7 : PrimFloat.float := 0x1.1eb851eb851ecp-4%float.
Definition t29 : PrimFloat.float := 0x1.28f5c28f5c28fp-2%float.
Example ex_t7_is_a_time_stamp : ((7 / 100)%float =? t7)%float = true /\ ((29 / 100)%float =? t29)%float = true /\
  (7 <? t7 * 100)%float = true /\ (t29 * 100 <? 29)%float = true.
Proof. vm_compute. repeat split. Qed.
Example ex_legacy_boundary_cycle :
  keep_row_legacy 100 (Some t7) None (mk 8 7 10 7 9 5 0) = false /\
  keep_row 100 (Some t7) None (mk 8 7 10 7 9 5 0) = true /\
  keep_row_legacy 100 None (Some t29) (mk 25 20 29 22 27 18 0) = false /\
  keep_row 100 None (Some t29) (mk 25 20 29 22 27 18 0) = true.
Proof. vm_compute. repeat split. Qed.
Example ex_limit_df_boundary_cycle :
  limit_df [mk 8 7 10 7 9 5 0; mk 15 10 20 12 17 9 1] 100 (Some t7) None true
  = Ok [mk 1 0 3 0 2 (-2) 0; mk 8 3 13 5 10 2 1] /\
  limit_df_legacy [mk 8 7 10 7 9 5 0; mk 15 10 20 12 17 9 1] 100 (Some t7) None true
  = Ok [mk 8 3 13 5 10 2 1].
Proof. vm_compute. split; reflexivity. Qed.

(* int(): truncation toward zero, including the classic int(100 * 0.29) = 28 *)
Example ex_trunc :
  (F2Z_trunc 0x1.dffffffffffffp+4, F2Z_trunc 0.5, F2Z_trunc 1e3, F2Z_trunc (-2.5),
   F2Z_trunc (100 * f02), F2Z_trunc (100 * 0x1.28f5c28f5c28fp-2), F2Z_trunc 0x1p60)%float
  = (29, 0, 1000, -2, 20, 28, 2 ^ 60)%Z.
Proof. vm_compute. reflexivity. Qed.

(* int(np.round()): nearest integer, ties to even; 28.999999999999996 = 0x1.cffffffffffffp+4;
   the offset of the window [0.2 s, ...] at fs = 100 is still 20, and the classic
   100 * 0.29 = 28.999999999999996 now gives 29 *)
Example ex_round :
  (F2Z_round 0x1.cffffffffffffp+4, F2Z_round 0.5, F2Z_round 1.5, F2Z_round 2.5,
   F2Z_round (-0.5), F2Z_round (-1.5), F2Z_round 1e3)%float
  = (29, 0, 2, 2, 0, -2, 1000)%Z.
Proof. vm_compute. reflexivity. Qed.
Example ex_round_more :
  (F2Z_round (100 * f02), F2Z_round (100 * 0x1.28f5c28f5c28fp-2), F2Z_round (-2.5), F2Z_round 3.5,
   F2Z_round 0x1.dffffffffffffp+4, F2Z_round 0x1p60, F2Z_round nan, F2Z_round (-0))%float
  = (20, 29, -2, 4, 30, 2 ^ 60, 0, 0)%Z.
Proof. vm_compute. reflexivity. Qed.
Example ex_limit_offset :
  (limit_offset 100 (Some f02) true, limit_offset 100 (Some f02) false, limit_offset 100 None true)
  = (20, 0, 0)%Z.
Proof. vm_compute. reflexivity. Qed.

Definition sig6 : list (PrimFloat.float * PrimFloat.float) :=
  [(0, 10); (f01, 11); (f02, 12); (f03, 13); (f04, 14); (0.5, 15)]%float.

Example ex_limit_signal :
  limit_signal sig6 (Some f01) (Some f04) = Ok [(f01, 11); (f02, 12); (f03, 13)]%float.
Proof. vm_compute. reflexivity. Qed.
Example ex_limit_signal_stop_only :
  limit_signal sig6 None (Some f04) = Ok [(0, 10); (f01, 11); (f02, 12); (f03, 13)]%float.
Proof. vm_compute. reflexivity. Qed.
Example ex_limit_signal_none : limit_signal sig6 None None = Ok sig6.
Proof. vm_compute. reflexivity. Qed.
Example ex_limit_signal_bad : limit_signal sig6 (Some f04) (Some f01) = Err EValue.
Proof. vm_compute. reflexivity. Qed.

Example ex_split :
  split_samples [(false, 1); (true, 2); (false, 3); (true, 4)]
  = ([(false, 1); (false, 3)], [(true, 2); (true, 4)]).
Proof. vm_compute. reflexivity. Qed.

Example ex_flatten1 : flatten1 [[1; 2]; []; [3]] [7; 8; 9] = Ok [(1, 7); (2, 7); (3, 9)].
Proof. vm_compute. reflexivity. Qed.
Example ex_flatten1_bad : flatten1 [[1; 2]; []; [3]] [7; 8] = Err EValue.
Proof. vm_compute. reflexivity. Qed.
Example ex_flatten2 :
  flatten2 [[[1; 2]; [3]]; [[4]; [5; 6]]] [10; 11; 12; 13]
  = Ok [(1, 10); (2, 10); (3, 11); (4, 12); (5, 13); (6, 13)].
Proof. vm_compute. reflexivity. Qed.
Example ex_flatten2_bad : flatten2 [[[1; 2]; [3]]; [[4]; [5; 6]]] [10; 11; 12] = Err EValue.
Proof. vm_compute. reflexivity. Qed.
End Examples.

(* ------------------------------------------------------------------------------------------ *)
(* split / drop by column NAME: the sample columns are exactly those whose name starts with "sample_" *)
From Coq Require Import String.

Lemma prefix_iff_app (s1 : string) : forall s2 : string,
  String.prefix s1 s2 = true <-> exists t, s2 = (s1 ++ t)%string.
Proof.
  induction s1 as [|a s1 IH]; intros s2.
  - split; [intros _; exists s2; reflexivity | intros _; destruct s2; reflexivity].
  - destruct s2 as [|b s2].
    + split; [intros H; discriminate H | intros [t Ht]; discriminate Ht].
    + cbn [String.prefix String.append]. destruct (Ascii.ascii_dec a b) as [E|NE].
      * subst b. rewrite IH. split; intros [t Ht]; exists t.
        -- now rewrite Ht.
        -- now inversion Ht.
      * split; [intros H; discriminate H | intros [t Ht]; injection Ht as Hab Hs; exfalso; exact (NE (eq_sym Hab))].
Qed.

Theorem is_sample_name_iff (s : string) :
  is_sample_name s = true <-> exists t, s = ("sample_" ++ t)%string.
Proof. unfold is_sample_name. apply prefix_iff_app. Qed.

Lemma filter_tag_snd {C} (p : string * C -> bool) (cols : list (string * C)) :
  map snd (filter (fun c : bool * (string * C) => p (snd c)) (map (fun c => (is_sample_name (fst c), c)) cols))
  = filter p cols.
Proof.
  induction cols as [|c cols IH]; [reflexivity|].
  cbn [map filter snd]. destruct (p c); cbn [map snd]; now rewrite IH.
Qed.

Lemma filter_tag_fst {C} (g : bool -> bool) (cols : list (string * C)) :
  map snd (filter (fun c : bool * (string * C) => g (fst c)) (map (fun c => (is_sample_name (fst c), c)) cols))
  = filter (fun c => g (is_sample_name (fst c))) cols.
Proof.
  induction cols as [|c cols IH]; [reflexivity|].
  cbn [map filter fst snd]. destruct (g (is_sample_name (fst c))); cbn [map snd]; now rewrite IH.
Qed.

Theorem split_named_spec {C} (cols : list (string * C)) :
  split_named cols = (filter (fun c => negb (String.prefix "sample_" (fst c))) cols,
                      filter (fun c => String.prefix "sample_" (fst c)) cols) /\
  drop_named cols = filter (fun c => negb (String.prefix "sample_" (fst c))) cols.
Proof.
  unfold split_named, drop_named, drop_samples, split_samples, tag_cols. cbn [fst snd].
  rewrite (filter_tag_fst negb cols), (filter_tag_fst (fun b => b) cols). split; reflexivity.
Qed.

(* starting with, not containing: the names the harness uses to tell the two rules apart *)
Theorem sample_prefix_not_substring :
  is_sample_name "sample_peak" = true /\ is_sample_name "sample_" = true /\
  is_sample_name "n_sample_c3" = false /\ is_sample_name "resample_c1" = false /\
  is_sample_name "samples_c2" = false /\ is_sample_name "Sample_c4" = false /\
  is_sample_name "sample" = false /\ is_sample_name " sample_c0" = false.
Proof. repeat split; reflexivity. Qed.
