(* End-to-end characterisation of what find_extrema reports (C02): every reported index is
   the un-padded first arg-max (arg-min) of the padded raw samples over a closed positive
   (negative) half-wave of the sign bits, inside the boundary margins -- and, without
   first-extremum trimming, conversely.
   Only the float-order facts of Base/FloatFacts.v are used (through Proofs/Extrema.v). *)
From ByC Require Import Base.FloatFacts.
From Coq Require Import List Bool Arith ZArith Lia Floats.PrimFloat.
Import ListNotations.
From ByC Require Import Base.Result Base.ListAux Model.Extrema.
From ByC Require Proofs.Extrema.
Module PE := ByC.Proofs.Extrema.
Close Scope float_scope.
Close Scope R_scope.
Open Scope nat_scope.

(* the padding zeros are finite *)
Lemma Forall_repeat {A} (P : A -> Prop) (v : A) n : P v -> Forall P (repeat v n).
Proof.
  intros Hv. apply Forall_forall. intros y Hy. apply repeat_spec in Hy. subst y. exact Hv.
Qed.

Lemma allfin_pad n raw :
  Forall (fun v => finite v = true) raw -> Forall (fun v => finite v = true) (pad n raw).
Proof.
  intros Hfin. unfold pad.
  apply Forall_app. split; [apply Forall_repeat, finite_zero|].
  apply Forall_app. split; [exact Hfin|apply Forall_repeat, finite_zero].
Qed.

Lemma pad_length n raw : length (pad n raw) = length raw + 2 * n.
Proof. apply PE.pad_length. Qed.

(* the right-hand sides *)
Definition peak_spec (x : ext_in) (z : Z) : Prop :=
  exists a b p, PE.closed_halfwave (x_pos x) true a b /\
    PE.first_argmax (pad (x_padn x) (x_raw x)) a b p /\
    z = (Z.of_nat p - Z.of_nat (x_padn x))%Z /\
    (x_boundary x < z < Z.of_nat (length (x_raw x)) - x_boundary x)%Z.

Definition trough_spec (x : ext_in) (z : Z) : Prop :=
  exists a b p, PE.closed_halfwave (x_pos x) false a b /\
    PE.first_argmin (pad (x_padn x) (x_raw x)) a b p /\
    z = (Z.of_nat p - Z.of_nat (x_padn x))%Z /\
    (x_boundary x < z < Z.of_nat (length (x_raw x)) - x_boundary x)%Z.

(* the boundary-filtered, un-padded raw extrema *)
Lemma filtered_peaks_iff x pk tr z :
  raw_extrema (x_pos x) (pad (x_padn x) (x_raw x)) = Ok (pk, tr) ->
  length (x_raw x) + 2 * x_padn x = length (x_pos x) ->
  Forall (fun v => finite v = true) (x_raw x) ->
  (In z (unpad_filter (x_padn x) (Z.of_nat (length (x_raw x))) (x_boundary x) pk)
   <-> peak_spec x z).
Proof.
  intros Hraw Hlen Hfin.
  assert (Hl : length (pad (x_padn x) (x_raw x)) = length (x_pos x))
    by (rewrite pad_length; exact Hlen).
  assert (Hf : Forall (fun v => finite v = true) (pad (x_padn x) (x_raw x)))
    by (apply allfin_pad, Hfin).
  rewrite PE.unpad_filter_In. unfold peak_spec. split.
  - intros (p & Hp & Hz & Hb).
    apply (PE.raw_peaks_iff _ _ _ _ p Hraw Hl Hf) in Hp as (a & b & Hhw & Hfa).
    exists a, b, p. split; [exact Hhw|]. split; [exact Hfa|]. split; [exact Hz|exact Hb].
  - intros (a & b & p & Hhw & Hfa & Hz & Hb).
    exists p. split; [|split; assumption].
    apply (PE.raw_peaks_iff _ _ _ _ p Hraw Hl Hf). exists a, b. split; assumption.
Qed.

Lemma filtered_troughs_iff x pk tr z :
  raw_extrema (x_pos x) (pad (x_padn x) (x_raw x)) = Ok (pk, tr) ->
  length (x_raw x) + 2 * x_padn x = length (x_pos x) ->
  Forall (fun v => finite v = true) (x_raw x) ->
  (In z (unpad_filter (x_padn x) (Z.of_nat (length (x_raw x))) (x_boundary x) tr)
   <-> trough_spec x z).
Proof.
  intros Hraw Hlen Hfin.
  assert (Hl : length (pad (x_padn x) (x_raw x)) = length (x_pos x))
    by (rewrite pad_length; exact Hlen).
  assert (Hf : Forall (fun v => finite v = true) (pad (x_padn x) (x_raw x)))
    by (apply allfin_pad, Hfin).
  rewrite PE.unpad_filter_In. unfold trough_spec. split.
  - intros (p & Hp & Hz & Hb).
    apply (PE.raw_troughs_iff _ _ _ _ p Hraw Hl Hf) in Hp as (a & b & Hhw & Hfa).
    exists a, b, p. split; [exact Hhw|]. split; [exact Hfa|]. split; [exact Hz|exact Hb].
  - intros (a & b & p & Hhw & Hfa & Hz & Hb).
    exists p. split; [|split; assumption].
    apply (PE.raw_troughs_iff _ _ _ _ p Hraw Hl Hf). exists a, b. split; assumption.
Qed.

(* first_extrema = None: exactly the half-wave extrema inside the margins *)
Theorem find_extrema_none_spec x peaks troughs z :
  find_extrema x = Ok (peaks, troughs) -> x_first x = FNone ->
  length (x_raw x) + 2 * x_padn x = length (x_pos x) ->
  Forall (fun v => finite v = true) (x_raw x) ->
  (In z peaks <->
   exists a b p, PE.closed_halfwave (x_pos x) true a b /\
     PE.first_argmax (pad (x_padn x) (x_raw x)) a b p /\
     z = (Z.of_nat p - Z.of_nat (x_padn x))%Z /\
     (x_boundary x < z < Z.of_nat (length (x_raw x)) - x_boundary x)%Z).
Proof.
  intros H Hfirst Hlen Hfin.
  destruct (PE.find_extrema_ok_raw _ _ H) as (pk & tr & Hraw). unfold PE.xsigp in Hraw.
  rewrite (PE.find_extrema_none _ _ _ Hraw Hfirst) in H. inversion H; subst peaks troughs.
  exact (filtered_peaks_iff x pk tr z Hraw Hlen Hfin).
Qed.

Theorem find_extrema_none_spec_troughs x peaks troughs z :
  find_extrema x = Ok (peaks, troughs) -> x_first x = FNone ->
  length (x_raw x) + 2 * x_padn x = length (x_pos x) ->
  Forall (fun v => finite v = true) (x_raw x) ->
  (In z troughs <->
   exists a b p, PE.closed_halfwave (x_pos x) false a b /\
     PE.first_argmin (pad (x_padn x) (x_raw x)) a b p /\
     z = (Z.of_nat p - Z.of_nat (x_padn x))%Z /\
     (x_boundary x < z < Z.of_nat (length (x_raw x)) - x_boundary x)%Z).
Proof.
  intros H Hfirst Hlen Hfin.
  destruct (PE.find_extrema_ok_raw _ _ H) as (pk & tr & Hraw). unfold PE.xsigp in Hraw.
  rewrite (PE.find_extrema_none _ _ _ Hraw Hfirst) in H. inversion H; subst peaks troughs.
  exact (filtered_troughs_iff x pk tr z Hraw Hlen Hfin).
Qed.

(* first_extrema = 'peak': soundness (the trimming only removes entries) *)
Theorem find_extrema_peak_first_sound x peaks troughs :
  find_extrema x = Ok (peaks, troughs) -> x_first x = FPeak ->
  length (x_raw x) + 2 * x_padn x = length (x_pos x) ->
  Forall (fun v => finite v = true) (x_raw x) ->
  (forall z, In z peaks ->
     exists a b p, PE.closed_halfwave (x_pos x) true a b /\
       PE.first_argmax (pad (x_padn x) (x_raw x)) a b p /\
       z = (Z.of_nat p - Z.of_nat (x_padn x))%Z /\
       (x_boundary x < z < Z.of_nat (length (x_raw x)) - x_boundary x)%Z) /\
  (forall z, In z troughs ->
     exists a b p, PE.closed_halfwave (x_pos x) false a b /\
       PE.first_argmin (pad (x_padn x) (x_raw x)) a b p /\
       z = (Z.of_nat p - Z.of_nat (x_padn x))%Z /\
       (x_boundary x < z < Z.of_nat (length (x_raw x)) - x_boundary x)%Z).
Proof.
  intros H Hfirst Hlen Hfin.
  destruct (PE.find_extrema_peak_first _ _ _ H Hfirst Hlen)
    as (_ & _ & pk & tr & Hraw & Hip & Hit).
  split; intros z Hz.
  - apply Hip in Hz. exact (proj1 (filtered_peaks_iff x pk tr z Hraw Hlen Hfin) Hz).
  - apply Hit in Hz. exact (proj1 (filtered_troughs_iff x pk tr z Hraw Hlen Hfin) Hz).
Qed.

(* first_extrema = 'trough': the same soundness statement *)
Theorem find_extrema_trough_first_sound x peaks troughs :
  find_extrema x = Ok (peaks, troughs) -> x_first x = FTrough ->
  length (x_raw x) + 2 * x_padn x = length (x_pos x) ->
  Forall (fun v => finite v = true) (x_raw x) ->
  (forall z, In z peaks ->
     exists a b p, PE.closed_halfwave (x_pos x) true a b /\
       PE.first_argmax (pad (x_padn x) (x_raw x)) a b p /\
       z = (Z.of_nat p - Z.of_nat (x_padn x))%Z /\
       (x_boundary x < z < Z.of_nat (length (x_raw x)) - x_boundary x)%Z) /\
  (forall z, In z troughs ->
     exists a b p, PE.closed_halfwave (x_pos x) false a b /\
       PE.first_argmin (pad (x_padn x) (x_raw x)) a b p /\
       z = (Z.of_nat p - Z.of_nat (x_padn x))%Z /\
       (x_boundary x < z < Z.of_nat (length (x_raw x)) - x_boundary x)%Z).
Proof.
  intros H Hfirst Hlen Hfin.
  destruct (PE.find_extrema_trough_first _ _ _ H Hfirst Hlen)
    as (_ & _ & pk & tr & Hraw & Hip & Hit).
  split; intros z Hz.
  - apply Hip in Hz. exact (proj1 (filtered_peaks_iff x pk tr z Hraw Hlen Hfin) Hz).
  - apply Hit in Hz. exact (proj1 (filtered_troughs_iff x pk tr z Hraw Hlen Hfin) Hz).
Qed.

(* the reported index determines the half-wave's extremum position uniquely, so two
   reported peaks (troughs) from the same half-wave coincide *)
Corollary peak_spec_same_halfwave x a b p q :
  PE.first_argmax (pad (x_padn x) (x_raw x)) a b p ->
  PE.first_argmax (pad (x_padn x) (x_raw x)) a b q -> p = q.
Proof. apply PE.first_argmax_unique. Qed.

(* peak_spec / trough_spec written out (for the statement files) *)
Lemma peak_spec_unfold x z :
  peak_spec x z <->
  exists a b p, PE.closed_halfwave (x_pos x) true a b /\
    PE.first_argmax (pad (x_padn x) (x_raw x)) a b p /\
    z = (Z.of_nat p - Z.of_nat (x_padn x))%Z /\
    (x_boundary x < z < Z.of_nat (length (x_raw x)) - x_boundary x)%Z.
Proof. reflexivity. Qed.

Lemma trough_spec_unfold x z :
  trough_spec x z <->
  exists a b p, PE.closed_halfwave (x_pos x) false a b /\
    PE.first_argmin (pad (x_padn x) (x_raw x)) a b p /\
    z = (Z.of_nat p - Z.of_nat (x_padn x))%Z /\
    (x_boundary x < z < Z.of_nat (length (x_raw x)) - x_boundary x)%Z.
Proof. reflexivity. Qed.

(* first_extrema = None, both kinds at once, through peak_spec / trough_spec *)
Theorem find_extrema_none_spec_both x peaks troughs :
  find_extrema x = Ok (peaks, troughs) -> x_first x = FNone ->
  length (x_raw x) + 2 * x_padn x = length (x_pos x) ->
  Forall (fun v => finite v = true) (x_raw x) ->
  (forall z, In z peaks <-> peak_spec x z) /\ (forall z, In z troughs <-> trough_spec x z).
Proof.
  intros H Hfirst Hlen Hfin. split; intros z.
  - exact (find_extrema_none_spec x peaks troughs z H Hfirst Hlen Hfin).
  - exact (find_extrema_none_spec_troughs x peaks troughs z H Hfirst Hlen Hfin).
Qed.

(* first_extrema = 'peak', end to end: the reported peaks are exactly the half-wave peaks inside
   the margins that are followed by a half-wave trough inside the margins; the reported troughs
   are exactly the half-wave troughs inside the margins preceded by such a peak *)
Theorem find_extrema_peak_first_spec x peaks troughs :
  find_extrema x = Ok (peaks, troughs) -> x_first x = FPeak ->
  length (x_raw x) + 2 * x_padn x = length (x_pos x) ->
  Forall (fun v => finite v = true) (x_raw x) ->
  (forall z, In z peaks <-> peak_spec x z /\ exists t, trough_spec x t /\ (z < t)%Z) /\
  (forall z, In z troughs <-> trough_spec x z /\ exists p, peak_spec x p /\ (p < z)%Z).
Proof.
  intros H Hfirst Hlen Hfin.
  destruct (PE.find_extrema_ok_raw _ _ H) as (pk & tr & Hraw). unfold PE.xsigp in Hraw.
  destruct (PE.find_extrema_peak_first_members x peaks troughs pk tr H Hfirst Hraw Hlen) as (Hp & Ht).
  split; intros z.
  - rewrite Hp. rewrite (filtered_peaks_iff x pk tr z Hraw Hlen Hfin). split.
    + intros (Hz & t & Hin & Hlt). split; [exact Hz|]. exists t. split; [|exact Hlt].
      exact (proj1 (filtered_troughs_iff x pk tr t Hraw Hlen Hfin) Hin).
    + intros (Hz & t & Hin & Hlt). split; [exact Hz|]. exists t. split; [|exact Hlt].
      exact (proj2 (filtered_troughs_iff x pk tr t Hraw Hlen Hfin) Hin).
  - rewrite Ht. rewrite (filtered_troughs_iff x pk tr z Hraw Hlen Hfin). split.
    + intros (Hz & p & Hin & Hlt). split; [exact Hz|]. exists p. split; [|exact Hlt].
      exact (proj1 (filtered_peaks_iff x pk tr p Hraw Hlen Hfin) Hin).
    + intros (Hz & p & Hin & Hlt). split; [exact Hz|]. exists p. split; [|exact Hlt].
      exact (proj2 (filtered_peaks_iff x pk tr p Hraw Hlen Hfin) Hin).
Qed.

Theorem find_extrema_trough_first_spec x peaks troughs :
  find_extrema x = Ok (peaks, troughs) -> x_first x = FTrough ->
  length (x_raw x) + 2 * x_padn x = length (x_pos x) ->
  Forall (fun v => finite v = true) (x_raw x) ->
  (forall z, In z troughs <-> trough_spec x z /\ exists p, peak_spec x p /\ (z < p)%Z) /\
  (forall z, In z peaks <-> peak_spec x z /\ exists t, trough_spec x t /\ (t < z)%Z).
Proof.
  intros H Hfirst Hlen Hfin.
  destruct (PE.find_extrema_ok_raw _ _ H) as (pk & tr & Hraw). unfold PE.xsigp in Hraw.
  destruct (PE.find_extrema_trough_first_members x peaks troughs pk tr H Hfirst Hraw Hlen) as (Ht & Hp).
  split; intros z.
  - rewrite Ht. rewrite (filtered_troughs_iff x pk tr z Hraw Hlen Hfin). split.
    + intros (Hz & p & Hin & Hlt). split; [exact Hz|]. exists p. split; [|exact Hlt].
      exact (proj1 (filtered_peaks_iff x pk tr p Hraw Hlen Hfin) Hin).
    + intros (Hz & p & Hin & Hlt). split; [exact Hz|]. exists p. split; [|exact Hlt].
      exact (proj2 (filtered_peaks_iff x pk tr p Hraw Hlen Hfin) Hin).
  - rewrite Hp. rewrite (filtered_peaks_iff x pk tr z Hraw Hlen Hfin). split.
    + intros (Hz & t & Hin & Hlt). split; [exact Hz|]. exists t. split; [|exact Hlt].
      exact (proj1 (filtered_troughs_iff x pk tr t Hraw Hlen Hfin) Hin).
    + intros (Hz & t & Hin & Hlt). split; [exact Hz|]. exists t. split; [|exact Hlt].
      exact (proj2 (filtered_troughs_iff x pk tr t Hraw Hlen Hfin) Hin).
Qed.
