(* C09: analysing a signal trough-centred gives the same table as analysing the NEGATED signal
   peak-centred, once peak/trough and rise/decay names are swapped, the extremum voltages are
   negated and the two symmetry fractions are replaced by one minus themselves.

   In the model both analyses run find_extrema / find_zerox / shape_of on the same list
   [map PrimFloat.opp raw]; the kernels [k] are the ones of the negated signal in both cases
   (the harness computes them on the negated signal), and for the Amp method the detector mask
   is the same.  Theorems:
     shape_table_mirror        (M1)  the shape tables
     compute_features_mirror   (M2)  the whole feature table, both methods
     mirror_counts / mirror_samples / mirror_shape / mirror_burst / mirror_labels  (M3)
     mirror_example_*          (M4)  non-vacuity on a concrete input. *)
From Coq Require Import List Bool Arith ZArith Lia Floats.PrimFloat.
Import ListNotations.
From ByC Require Import Base.Result Base.ListAux Base.FloatBase Harness.Compare
  Model.Runs Model.Labels Model.Extrema Model.Zerox Model.Cycles Model.BurstFeat Model.Features.
From ByC Require Proofs.Cycles Proofs.BurstFeat Proofs.FeaturesSpec Base.FloatFacts2.
Close Scope float_scope.
Open Scope nat_scope.

(* the renaming applied to one (sample row, shape) pair of the table *)
Definition mirror_pair (rs : srow * shape) : srow * shape :=
  (rename_srow (fst rs), rename_shape (snd rs)).

(* ------------------------------------------------------------------------- *)
(* M1: the shape tables                                                      *)
(* ------------------------------------------------------------------------- *)

Theorem shape_table_mirror raw k b :
  shape_table Trough raw k b =
  rmap (map (fun rs => (rename_srow (fst rs), rename_shape (snd rs))))
       (shape_table Peak (map PrimFloat.opp raw) k b).
Proof.
  unfold shape_table.
  destruct (find_extrema {| x_pos := k_pos k; x_raw := map PrimFloat.opp raw; x_padn := k_padn k;
                            x_boundary := b; x_first := FPeak |}) as [pt|e1] eqn:E1;
    [|reflexivity].
  cbn [bind].
  destruct (find_zerox (map PrimFloat.opp raw) (fst pt) (snd pt)) as [rd|e2] eqn:E2; [|reflexivity].
  cbn [bind].
  destruct (cycle_rows (fst pt) (snd pt) (fst rd) (snd rd)) as [rows|e3] eqn:E3; [|reflexivity].
  cbn [bind].
  destruct rows as [|r rows']; reflexivity.
Qed.

(* ------------------------------------------------------------------------- *)
(* M2: the whole feature table                                               *)
(* ------------------------------------------------------------------------- *)

(* the renaming applied to one row of the feature table: sample names and shape features are
   renamed, the burst features and the label are kept *)
Definition mirror_frow (r : frow) : frow :=
  {| r_s := rename_srow (r_s r); r_shape := rename_shape (r_shape r);
     r_burst := r_burst r; r_is_burst := r_is_burst r |}.

Notation srow0 := (Build_srow 0 0 0 0 0 0).
Notation pair0 := (Build_srow 0 0 0 0 0 0, shape_of [] [] (Build_srow 0 0 0 0 0 0)).

Lemma map_fst_mirror (tab : list (srow * shape)) :
  map fst (map (fun rs => (rename_srow (fst rs), rename_shape (snd rs))) tab) =
  map rename_srow (map fst tab).
Proof. rewrite !map_map. reflexivity. Qed.

Lemma map_snd_mirror (tab : list (srow * shape)) :
  map snd (map (fun rs => (rename_srow (fst rs), rename_shape (snd rs))) tab) =
  map rename_shape (map snd tab).
Proof. rewrite !map_map. reflexivity. Qed.

(* columns of a renamed shape list *)
Lemma map_volt_amp_rename l : map volt_amp (map rename_shape l) = map volt_amp l.
Proof. rewrite map_map. reflexivity. Qed.
Lemma map_volt_rise_rename l : map volt_rise (map rename_shape l) = map volt_decay l.
Proof. rewrite map_map. reflexivity. Qed.
Lemma map_volt_decay_rename l : map volt_decay (map rename_shape l) = map volt_rise l.
Proof. rewrite map_map. reflexivity. Qed.
Lemma map_period_rename l : map period (map rename_shape l) = map period l.
Proof. rewrite map_map. reflexivity. Qed.
Lemma map_band_amp_rename l : map band_amp (map rename_shape l) = map band_amp l.
Proof. rewrite map_map. reflexivity. Qed.

(* monotonicity and burst_fraction read only s_last / s_center / s_next *)
Lemma monotonicity_row_rename peak sig r :
  monotonicity_row peak sig (rename_srow r) = monotonicity_row peak sig r.
Proof. reflexivity. Qed.
Lemma burst_fraction_row_rename mask r :
  burst_fraction_row mask (rename_srow r) = burst_fraction_row mask r.
Proof. reflexivity. Qed.

Lemma map_burst_fraction_rename mask rows :
  map (burst_fraction_row mask) (map rename_srow rows) = map (burst_fraction_row mask) rows.
Proof. rewrite map_map. reflexivity. Qed.

(* the trough-frame monotonicity column on raw = the peak-frame column on the negated signal *)
Lemma map_monotonicity_mirror raw rows :
  map (monotonicity_row false raw) (map rename_srow rows) =
  map (monotonicity_row true (map PrimFloat.opp raw)) rows.
Proof.
  rewrite map_map. apply map_ext. intros r.
  rewrite monotonicity_row_rename. apply ByC.Proofs.BurstFeat.monotonicity_mirror.
Qed.

(* the trough-frame amplitude consistency of the renamed shapes = the peak-frame one *)
Lemma amp_consistency_rename d shapes :
  amp_consistency false d (map volt_rise (map rename_shape shapes)) (map volt_decay (map rename_shape shapes)) =
  amp_consistency true d (map volt_rise shapes) (map volt_decay shapes).
Proof.
  rewrite map_volt_rise_rename, map_volt_decay_rename.
  apply ByC.Proofs.BurstFeat.amp_consistency_mirror. rewrite !map_length. reflexivity.
Qed.

Lemma nth_rename_rows rows i : nth i (map rename_srow rows) srow0 = rename_srow (nth i rows srow0).
Proof. change srow0 with (rename_srow srow0) at 1. apply map_nth. Qed.

Lemma nth_mirror_tab (tab : list (srow * shape)) i : i < length tab ->
  snd (nth i (map (fun rs => (rename_srow (fst rs), rename_shape (snd rs))) tab) pair0) =
  rename_shape (snd (nth i tab pair0)).
Proof.
  intros Hi.
  set (f := fun rs : srow * shape => (rename_srow (fst rs), rename_shape (snd rs))).
  rewrite (nth_indep _ pair0 (f pair0)) by (rewrite map_length; exact Hi).
  rewrite map_nth. reflexivity.
Qed.

Lemma map_seq_ext {A} (f g : nat -> A) n :
  (forall i, i < n -> f i = g i) -> map f (seq 0 n) = map g (seq 0 n).
Proof. intros H. apply map_ext_in. intros i Hi. apply in_seq in Hi. apply H. lia. Qed.

Theorem compute_features_mirror raw k b m :
  compute_features Trough raw k b m =
  rmap (map mirror_frow) (compute_features Peak (map PrimFloat.opp raw) k b m).
Proof.
  unfold compute_features. rewrite shape_table_mirror.
  destruct (shape_table Peak (map PrimFloat.opp raw) k b) as [tab|e0] eqn:E0; [|reflexivity].
  cbn [rmap bind]. cbv zeta.
  rewrite map_fst_mirror, map_snd_mirror.
  change (centre_eqb Trough Peak) with false. change (centre_eqb Peak Peak) with true.
  destruct m as [t n|mask t n].
  - rewrite map_volt_amp_rename, amp_consistency_rename, map_period_rename, map_monotonicity_mirror.
    destruct (amp_consistency true Both (map volt_rise (map snd tab)) (map volt_decay (map snd tab)))
      as [ac|e1] eqn:E1; [|reflexivity].
    cbn [bind].
    destruct (period_consistency Both (map period (map snd tab))) as [pc|e2] eqn:E2; [|reflexivity].
    cbn [bind]. rewrite !map_length.
    match goal with |- bind ?L _ = _ => destruct L as [lab|e3] eqn:E3; [|reflexivity] end.
    cbn [bind rmap]. f_equal. rewrite (map_map _ mirror_frow). apply map_seq_ext. intros i Hi.
    unfold mirror_frow. cbn [r_s r_shape r_burst r_is_burst].
    rewrite nth_rename_rows, nth_mirror_tab by exact Hi. reflexivity.
  - rewrite map_burst_fraction_rename.
    destruct (labels_amp t n (map (burst_fraction_row mask) (map fst tab))) as [lab|e1] eqn:E1;
      [|reflexivity].
    cbn [bind rmap]. f_equal. rewrite (map_map _ mirror_frow), !map_length. apply map_seq_ext. intros i Hi.
    unfold mirror_frow. cbn [r_s r_shape r_burst r_is_burst].
    rewrite nth_rename_rows, nth_mirror_tab by exact Hi. reflexivity.
Qed.

(* the converse reading: analysing the negated signal trough-centred is the renamed
   peak-centred analysis of the signal itself (same kernels, same mask) *)
Lemma map_opp_opp raw : map PrimFloat.opp (map PrimFloat.opp raw) = raw.
Proof.
  rewrite map_map. rewrite <- (map_id raw) at 2. apply map_ext.
  intros x. apply ByC.Base.FloatFacts2.opp_involutive.
Qed.

Corollary compute_features_mirror_neg raw k b m :
  compute_features Trough (map PrimFloat.opp raw) k b m =
  rmap (map mirror_frow) (compute_features Peak raw k b m).
Proof. rewrite compute_features_mirror, map_opp_opp. reflexivity. Qed.

Corollary shape_table_mirror_neg raw k b :
  shape_table Trough (map PrimFloat.opp raw) k b =
  rmap (map (fun rs => (rename_srow (fst rs), rename_shape (snd rs)))) (shape_table Peak raw k b).
Proof. rewrite shape_table_mirror, map_opp_opp. reflexivity. Qed.

(* ------------------------------------------------------------------------- *)
(* M3: the property in its own words                                         *)
(* ------------------------------------------------------------------------- *)

Notation frow0 := ByC.Proofs.FeaturesSpec.frow0.

(* one analysis succeeds iff the other does, and they fail with the same error *)
Corollary mirror_err raw k b m e :
  compute_features Trough raw k b m = Err e <->
  compute_features Peak (map PrimFloat.opp raw) k b m = Err e.
Proof.
  rewrite compute_features_mirror.
  destruct (compute_features Peak (map PrimFloat.opp raw) k b m) as [out|e']; cbn [rmap].
  - split; discriminate.
  - split; intros H; exact H.
Qed.

Corollary mirror_ok raw k b m :
  (exists outT, compute_features Trough raw k b m = Ok outT) <->
  (exists outP, compute_features Peak (map PrimFloat.opp raw) k b m = Ok outP).
Proof.
  rewrite compute_features_mirror.
  destruct (compute_features Peak (map PrimFloat.opp raw) k b m) as [out|e']; cbn [rmap].
  - split; intros _; eexists; reflexivity.
  - split; intros [o Ho]; discriminate.
Qed.

Section Mirror.
  Variables (raw : list float) (k : kernels) (b : Z) (m : method) (outT outP : list frow).
  Hypothesis HT : compute_features Trough raw k b m = Ok outT.
  Hypothesis HP : compute_features Peak (map PrimFloat.opp raw) k b m = Ok outP.

  Lemma mirror_table : outT = map mirror_frow outP.
  Proof.
    pose proof (compute_features_mirror raw k b m) as H. rewrite HT, HP in H. cbn [rmap] in H.
    inversion H as [E]. reflexivity.
  Qed.

  (* same number of cycles *)
  Corollary mirror_counts : length outT = length outP.
  Proof. rewrite mirror_table. apply map_length. Qed.

  Lemma mirror_row i : i < length outP -> nth i outT frow0 = mirror_frow (nth i outP frow0).
  Proof.
    intros Hi. rewrite mirror_table.
    rewrite (nth_indep _ frow0 (mirror_frow frow0)) by (rewrite map_length; exact Hi).
    apply map_nth.
  Qed.

  (* same sample indices; the two flank midpoints exchange their names *)
  Corollary mirror_samples i : i < length outP ->
    let st := r_s (nth i outT frow0) in
    let sp := r_s (nth i outP frow0) in
    s_center st = s_center sp /\ s_last st = s_last sp /\ s_next st = s_next sp /\
    s_zx_rise st = s_zx_decay sp /\ s_zx_decay st = s_zx_rise sp /\ s_last_zx st = s_last_zx sp.
  Proof. intros Hi. cbv zeta. rewrite (mirror_row i Hi). repeat split. Qed.

  (* shape features: peak/trough and rise/decay names swapped, extremum voltages negated,
     symmetry fractions replaced by one minus themselves, everything else identical *)
  Corollary mirror_shape i : i < length outP ->
    let ft := r_shape (nth i outT frow0) in
    let fp := r_shape (nth i outP frow0) in
    period ft = period fp /\
    time_peak ft = time_trough fp /\ time_trough ft = time_peak fp /\
    time_decay ft = time_rise fp /\ time_rise ft = time_decay fp /\
    volt_peak ft = (- volt_trough fp)%float /\ volt_trough ft = (- volt_peak fp)%float /\
    volt_decay ft = volt_rise fp /\ volt_rise ft = volt_decay fp /\
    volt_amp ft = volt_amp fp /\
    time_rdsym ft = (1 - time_rdsym fp)%float /\ time_ptsym ft = (1 - time_ptsym fp)%float /\
    band_amp ft = band_amp fp.
  Proof. intros Hi. cbv zeta. rewrite (mirror_row i Hi). repeat split. Qed.

  (* identical burst features (all five columns, bit for bit) *)
  Corollary mirror_burst i : r_burst (nth i outT frow0) = r_burst (nth i outP frow0).
  Proof.
    destruct (Nat.lt_ge_cases i (length outP)) as [Hi|Hi].
    - rewrite (mirror_row i Hi). reflexivity.
    - rewrite !nth_overflow by (rewrite ?mirror_counts; exact Hi). reflexivity.
  Qed.

  Corollary mirror_burst_cols : map r_burst outT = map r_burst outP.
  Proof. rewrite mirror_table, map_map. reflexivity. Qed.

  (* identical labels *)
  Corollary mirror_labels i : r_is_burst (nth i outT frow0) = r_is_burst (nth i outP frow0).
  Proof.
    destruct (Nat.lt_ge_cases i (length outP)) as [Hi|Hi].
    - rewrite (mirror_row i Hi). reflexivity.
    - rewrite !nth_overflow by (rewrite ?mirror_counts; exact Hi). reflexivity.
  Qed.

  Corollary mirror_labels_col : map r_is_burst outT = map r_is_burst outP.
  Proof. rewrite mirror_table, map_map. reflexivity. Qed.
End Mirror.

(* ------------------------------------------------------------------------- *)
(* M4: non-vacuity on a concrete input                                       *)
(* ------------------------------------------------------------------------- *)

(* the periodic example of Proofs/Cycles.v; ex_kt are the kernels of the negated signal *)
Definition ex_thr : thr4 := {| t_af := 0.125; t_ac := 0.5; t_pc := 0.5; t_mo := 0.5 |}%float.

Example mirror_example_cycles :
  exists outT outP,
    compute_features Trough ByC.Proofs.Cycles.ex_raw ByC.Proofs.Cycles.ex_kt 0 (Cycles ex_thr 1) = Ok outT /\
    compute_features Peak (map PrimFloat.opp ByC.Proofs.Cycles.ex_raw) ByC.Proofs.Cycles.ex_kt 0
      (Cycles ex_thr 1) = Ok outP /\
    length outT = 3 /\ length outP = 3 /\ outT = map mirror_frow outP /\
    map r_is_burst outT = [false; true; false] /\
    map (fun r => s_zx_rise (r_s r)) outT = [15; 23; 31]%Z /\
    map (fun r => s_zx_decay (r_s r)) outP = [15; 23; 31]%Z /\
    map (fun r => volt_peak (r_shape r)) outT = [7; 7; 7]%float /\
    map (fun r => volt_trough (r_shape r)) outP = [-7; -7; -7]%float.
Proof.
  destruct (compute_features Trough ByC.Proofs.Cycles.ex_raw ByC.Proofs.Cycles.ex_kt 0 (Cycles ex_thr 1))
    as [outT|e] eqn:ET; [|vm_compute in ET; discriminate].
  destruct (compute_features Peak (map PrimFloat.opp ByC.Proofs.Cycles.ex_raw) ByC.Proofs.Cycles.ex_kt 0
              (Cycles ex_thr 1)) as [outP|e] eqn:EP; [|vm_compute in EP; discriminate].
  exists outT, outP. split; [reflexivity|]. split; [reflexivity|].
  vm_compute in ET. vm_compute in EP.
  inversion ET as [ET']. inversion EP as [EP']. clear ET EP.
  repeat split; vm_compute; reflexivity.
Qed.

Example mirror_example_amp :
  exists outT outP,
    compute_features Trough ByC.Proofs.Cycles.ex_raw ByC.Proofs.Cycles.ex_kt 0
      (Amp ByC.Proofs.Cycles.ex_pos 0.5%float 1) = Ok outT /\
    compute_features Peak (map PrimFloat.opp ByC.Proofs.Cycles.ex_raw) ByC.Proofs.Cycles.ex_kt 0
      (Amp ByC.Proofs.Cycles.ex_pos 0.5%float 1) = Ok outP /\
    length outT = 3 /\ length outP = 3 /\ outT = map mirror_frow outP /\
    map r_is_burst outT = [true; true; true] /\ map r_is_burst outP = [true; true; true] /\
    map r_burst outT = map r_burst outP.
Proof.
  destruct (compute_features Trough ByC.Proofs.Cycles.ex_raw ByC.Proofs.Cycles.ex_kt 0
              (Amp ByC.Proofs.Cycles.ex_pos 0.5%float 1))
    as [outT|e] eqn:ET; [|vm_compute in ET; discriminate].
  destruct (compute_features Peak (map PrimFloat.opp ByC.Proofs.Cycles.ex_raw) ByC.Proofs.Cycles.ex_kt 0
              (Amp ByC.Proofs.Cycles.ex_pos 0.5%float 1)) as [outP|e] eqn:EP; [|vm_compute in EP; discriminate].
  exists outT, outP. split; [reflexivity|]. split; [reflexivity|].
  vm_compute in ET. vm_compute in EP.
  inversion ET as [ET']. inversion EP as [EP']. clear ET EP.
  repeat split; vm_compute; reflexivity.
Qed.
