(** Group functions (Model/Group.v): placement of per-signal results (C11, C12).
    The result at each position is the analysis of the signal at that position with the option
    set for that position, whatever the order in which the pool's tasks complete. *)
From Coq Require Import List Bool Arith Lia.
From Coq Require Import Sorting.Permutation.
Import ListNotations.
From ByC Require Import Base.Result Base.ListAux Harness.Compare Model.Group.

(* ------------------------------------------------------------------------------------------ *)
(** * List helpers *)

Lemma nth_map_seq {B} (F : nat -> B) (a n i : nat) (d : B) :
  i < n -> nth i (map F (seq a n)) d = F (a + i).
Proof.
  intros Hi.
  rewrite (nth_indep (map F (seq a n)) d (F 0)).
  - rewrite map_nth. rewrite seq_nth by exact Hi. reflexivity.
  - rewrite map_length, seq_length. exact Hi.
Qed.

Lemma nth_map_seq0 {B} (F : nat -> B) (n i : nat) (d : B) :
  i < n -> nth i (map F (seq 0 n)) d = F i.
Proof. intros Hi. rewrite nth_map_seq by exact Hi. reflexivity. Qed.

Lemma map_nth_seq {A B} (f : A -> B) (xs : list A) (d : A) :
  map (fun i => f (nth i xs d)) (seq 0 (length xs)) = map f xs.
Proof.
  apply (nth_ext _ _ (f d) (f d)).
  - rewrite !map_length, seq_length. reflexivity.
  - intros i Hi. rewrite map_length, seq_length in Hi.
    rewrite nth_map_seq0 by exact Hi. rewrite map_nth. reflexivity.
Qed.

Lemma filter_length_le' {B} (p : B -> bool) (l : list B) :
  length (filter p l) <= length l.
Proof.
  induction l as [|x l IH]; [apply le_n|].
  cbn [filter]. destruct (p x) eqn:Hpx; cbn [length]; lia.
Qed.

Lemma filter_length_lt {B} (p : B -> bool) (l : list B) (e : B) :
  In e l -> p e = false -> length (filter p l) < length l.
Proof.
  induction l as [|x l IH]; intros Hin Hp.
  - destruct Hin.
  - cbn [filter]. destruct Hin as [Hx | Hin].
    + subst x. rewrite Hp. cbn [length].
      pose proof (filter_length_le' p l) as Hle. lia.
    + specialize (IH Hin Hp). destruct (p x) eqn:Hpx; cbn [length]; lia.
Qed.

(* ------------------------------------------------------------------------------------------ *)
(** * G1: the order-preserving pool *)

Section PoolProofs.
Context {A R : Type}.
Variable f : A -> R.
Variable xs : list A.
Variable d : A.
Let g (i : nat) : R := f (nth i xs d).

(** [release] emits the maximal run of consecutive indices [next, next+1, ...] present in the
    buffer and keeps exactly the entries beyond that run. *)
Lemma release_spec (fuel : nat) : forall (next : nat) (buf : list (nat * R)),
  length buf < fuel ->
  (forall e, In e buf -> snd e = g (fst e)) ->
  (forall e, In e buf -> next <= fst e) ->
  exists (m : nat) (buf' : list (nat * R)),
    release fuel next buf = (map g (seq next m), next + m, buf') /\
    (forall e, In e buf' <-> In e buf /\ next + m <= fst e) /\
    ~ In (next + m) (map fst buf) /\
    (forall i, next <= i < next + m -> In i (map fst buf)).
Proof.
  induction fuel as [|fuel IH]; intros next buf Hlen Hval Hge.
  - lia.
  - cbn [release].
    destruct (find (fun e => Nat.eqb (fst e) next) buf) as [e|] eqn:Hfind.
    + apply find_some in Hfind. destruct Hfind as [Hin Heq].
      apply Nat.eqb_eq in Heq.
      set (buf2 := filter (fun e' => negb (Nat.eqb (fst e') next)) buf).
      assert (Hlen2 : length buf2 < fuel).
      { assert (Hlt : length buf2 < length buf).
        { unfold buf2. apply (filter_length_lt _ buf e Hin).
          rewrite Heq, Nat.eqb_refl. reflexivity. }
        lia. }
      assert (Hval2 : forall e', In e' buf2 -> snd e' = g (fst e')).
      { intros e' He'. apply filter_In in He'. destruct He' as [He' _]. apply Hval. exact He'. }
      assert (Hge2 : forall e', In e' buf2 -> S next <= fst e').
      { intros e' He'. apply filter_In in He'. destruct He' as [He' Hne].
        apply negb_true_iff in Hne. apply Nat.eqb_neq in Hne.
        specialize (Hge e' He'). lia. }
      destruct (IH (S next) buf2 Hlen2 Hval2 Hge2) as [m' [buf' [Hrel [Hmem [Hnot Hrun]]]]].
      exists (S m'), buf'. rewrite Hrel.
      replace (next + S m') with (S next + m') by lia.
      split; [|split; [|split]].
      * cbn [seq map]. rewrite (Hval e Hin), Heq. reflexivity.
      * intros e'. rewrite Hmem. unfold buf2. rewrite filter_In.
        rewrite negb_true_iff, Nat.eqb_neq. split.
        -- intros [[H1 H2] H3]. split; assumption.
        -- intros [H1 H3]. split; [split|]; [assumption | lia | assumption].
      * intros Hc. apply Hnot. apply in_map_iff in Hc. destruct Hc as [e' [He1 He2]].
        apply in_map_iff. exists e'. split; [exact He1|].
        unfold buf2. apply filter_In. split; [exact He2|].
        apply negb_true_iff. apply Nat.eqb_neq. lia.
      * intros i Hi. destruct (Nat.eq_dec i next) as [Hi0 | Hi0].
        -- subst i. apply in_map_iff. exists e. split; assumption.
        -- assert (Hi2 : S next <= i < S next + m') by lia.
           specialize (Hrun i Hi2). apply in_map_iff in Hrun.
           destruct Hrun as [e' [He1 He2]]. apply in_map_iff. exists e'.
           split; [exact He1|]. unfold buf2 in He2. apply filter_In in He2. tauto.
    + exists 0, buf. rewrite Nat.add_0_r. cbn [seq map].
      split; [reflexivity|]. split; [|split].
      * intros e. split.
        -- intros He. split; [exact He | apply Hge; exact He].
        -- intros [He _]. exact He.
      * intros Hc. apply in_map_iff in Hc. destruct Hc as [e' [He1 He2]].
        pose proof (find_none _ _ Hfind e' He2) as Hn. cbn beta in Hn.
        apply Nat.eqb_neq in Hn. contradiction.
      * intros i Hi. lia.
Qed.

(** loop invariant of [imap_run]: the not-yet-completed indices [rest] and the buffered indices
    are disjoint, duplicate-free in [rest], and together are exactly [next .. n-1]; buffered
    values are the right ones; the buffer does not hold [next] *)
Definition imap_inv (rest : list nat) (next : nat) (buf : list (nat * R)) : Prop :=
  NoDup rest /\
  (forall i, In i rest -> ~ In i (map fst buf)) /\
  (forall i, In i rest \/ In i (map fst buf) -> next <= i < length xs) /\
  (forall i, next <= i < length xs -> In i rest \/ In i (map fst buf)) /\
  (forall e, In e buf -> snd e = g (fst e)) /\
  ~ In next (map fst buf).

Lemma imap_run_spec : forall (rest : list nat) (next : nat) (buf : list (nat * R)),
  imap_inv rest next buf ->
  imap_run f xs d rest next buf = map g (seq next (length xs - next)).
Proof.
  induction rest as [|i rest IH]; intros next buf Hinv.
  - destruct Hinv as [_ [_ [_ [Hcov [_ Hnn]]]]].
    cbn [imap_run].
    destruct (le_lt_dec (length xs) next) as [Hle | Hlt].
    + replace (length xs - next) with 0 by lia. reflexivity.
    + destruct (Hcov next) as [Hc | Hc]; [lia | destruct Hc | contradiction].
  - destruct Hinv as [Hnd [Hdisj [Hrng [Hcov [Hval Hnn]]]]].
    cbn [imap_run]. fold (g i).
    set (buf1 := (i, g i) :: buf).
    assert (Hi_rng : next <= i < length xs).
    { apply Hrng. left. left. reflexivity. }
    assert (Hval1 : forall e, In e buf1 -> snd e = g (fst e)).
    { intros e [He | He]; [subst e; reflexivity | apply Hval; exact He]. }
    assert (Hfst1 : forall j, In j (map fst buf1) -> j = i \/ In j (map fst buf)).
    { intros j Hj. unfold buf1 in Hj. cbn [map fst In] in Hj. destruct Hj as [Hj|Hj]; auto. }
    assert (Hge1 : forall e, In e buf1 -> next <= fst e).
    { intros e He. assert (Hf : In (fst e) (map fst buf1)) by (apply in_map; exact He).
      destruct (Hfst1 _ Hf) as [Hj | Hj]; [lia|].
      apply (Hrng (fst e)). right. exact Hj. }
    destruct (release_spec (S (length buf1)) next buf1 (Nat.lt_succ_diag_r _) Hval1 Hge1)
      as [m [buf' [Hrel [Hmem [Hnot Hrun]]]]].
    rewrite Hrel.
    inversion Hnd as [|i0 rest0 Hi_notin Hnd_rest]; subst i0 rest0.
    assert (Hsub : forall j, In j (map fst buf') -> In j (map fst buf1) /\ next + m <= j).
    { intros j Hj. apply in_map_iff in Hj. destruct Hj as [e [He1 He2]].
      apply Hmem in He2. destruct He2 as [He2 He3]. subst j. split; [|exact He3].
      apply in_map. exact He2. }
    assert (Hm : next + m <= length xs).
    { destruct m as [|m]; [lia|].
      assert (Hlast : In (next + m) (map fst buf1)) by (apply Hrun; lia).
      destruct (Hfst1 _ Hlast) as [Hj | Hj]; [lia|].
      assert (Hr : next <= next + m < length xs) by (apply Hrng; right; exact Hj). lia. }
    assert (Hinv' : imap_inv rest (next + m) buf').
    { unfold imap_inv. split; [exact Hnd_rest|]. split; [|split; [|split; [|split]]].
      - intros j Hj Hc. apply Hsub in Hc. destruct Hc as [Hc _].
        destruct (Hfst1 _ Hc) as [Hji | Hjb].
        + subst j. contradiction.
        + apply (Hdisj j); [right; exact Hj | exact Hjb].
      - intros j [Hj | Hj].
        + assert (Hr : next <= j < length xs) by (apply Hrng; left; right; exact Hj).
          destruct (le_lt_dec (next + m) j) as [Hle | Hlt]; [lia|].
          assert (Hjin : In j (map fst buf1)) by (apply Hrun; lia).
          destruct (Hfst1 _ Hjin) as [Hji | Hjb].
          * subst j. contradiction.
          * exfalso. apply (Hdisj j); [right; exact Hj | exact Hjb].
        + apply Hsub in Hj. destruct Hj as [Hj1 Hj2].
          destruct (Hfst1 _ Hj1) as [Hji | Hjb]; [lia|].
          assert (Hr : next <= j < length xs) by (apply Hrng; right; exact Hjb). lia.
      - intros j Hj.
        assert (Hj0 : next <= j < length xs) by lia.
        destruct (Hcov j Hj0) as [[Hji | Hjr] | Hjb].
        + subst j. right. apply in_map_iff. exists (i, g i). split; [reflexivity|].
          apply Hmem. split; [left; reflexivity | cbn [fst]; lia].
        + left. exact Hjr.
        + right. apply in_map_iff in Hjb. destruct Hjb as [e [He1 He2]].
          apply in_map_iff. exists e. split; [exact He1|].
          apply Hmem. split; [right; exact He2 | lia].
      - intros e He. apply Hmem in He. destruct He as [He _]. apply Hval1. exact He.
      - intros Hc. apply Hsub in Hc. destruct Hc as [Hc _]. contradiction. }
    rewrite (IH _ _ Hinv').
    rewrite <- map_app, <- seq_app. f_equal. f_equal. lia.
Qed.

Lemma imap_inv_init (sigma : list nat) :
  Permutation sigma (seq 0 (length xs)) -> imap_inv sigma 0 [].
Proof.
  intros Hperm. unfold imap_inv. split; [|split; [|split; [|split; [|split]]]].
  - apply (Permutation_NoDup (Permutation_sym Hperm)). apply seq_NoDup.
  - intros i _ Hc. destruct Hc.
  - intros i [Hi | Hi]; [|destruct Hi].
    apply (Permutation_in _ Hperm) in Hi. apply in_seq in Hi. lia.
  - intros i Hi. left. apply (Permutation_in _ (Permutation_sym Hperm)).
    apply in_seq. lia.
  - intros e He. destruct He.
  - intros Hc. destruct Hc.
Qed.

End PoolProofs.

(** G1: whatever the completion order, [Pool.imap] returns the results in submission order *)
Theorem pool_imap_perm {A R : Type} (sigma : list nat) (f : A -> R) (xs : list A) (d : A) :
  Permutation sigma (seq 0 (length xs)) -> pool_imap sigma f xs d = map f xs.
Proof.
  intros Hperm. unfold pool_imap.
  rewrite (imap_run_spec f xs d _ _ _ (imap_inv_init f xs d sigma Hperm)).
  rewrite Nat.sub_0_r. apply map_nth_seq.
Qed.

Theorem pool_imap_length {A R : Type} (sigma : list nat) (f : A -> R) (xs : list A) (d : A) :
  Permutation sigma (seq 0 (length xs)) -> length (pool_imap sigma f xs d) = length xs.
Proof. intros Hperm. rewrite (pool_imap_perm sigma f xs d Hperm). apply map_length. Qed.

Corollary pool_imap_nth {A R : Type} (sigma : list nat) (f : A -> R) (xs : list A) (d : A)
  (i : nat) (dR : R) :
  Permutation sigma (seq 0 (length xs)) -> i < length xs ->
  nth i (pool_imap sigma f xs d) dR = f (nth i xs d).
Proof.
  intros Hperm Hi. rewrite (pool_imap_perm sigma f xs d Hperm).
  rewrite (nth_indep (map f xs) dR (f d)) by (rewrite map_length; exact Hi).
  apply map_nth.
Qed.

Corollary pool_imap_identity {A R : Type} (f : A -> R) (xs : list A) (d : A) :
  pool_imap (seq 0 (length xs)) f xs d = map f xs.
Proof. apply pool_imap_perm. apply Permutation_refl. Qed.

Corollary pool_imap_reversed {A R : Type} (f : A -> R) (xs : list A) (d : A) :
  pool_imap (rev (seq 0 (length xs))) f xs d = map f xs.
Proof. apply pool_imap_perm. apply Permutation_sym. apply Permutation_rev. Qed.

Corollary pool_imap_order_independent {A R : Type} (sigma1 sigma2 : list nat) (f : A -> R)
  (xs : list A) (d : A) :
  Permutation sigma1 (seq 0 (length xs)) -> Permutation sigma2 (seq 0 (length xs)) ->
  pool_imap sigma1 f xs d = pool_imap sigma2 f xs d.
Proof.
  intros H1 H2. rewrite (pool_imap_perm sigma1 f xs d H1), (pool_imap_perm sigma2 f xs d H2).
  reflexivity.
Qed.

(** G1c (Legacy): [imap_unordered] does not preserve placement *)
Theorem pool_imap_unordered_refuted :
  exists (sigma : list nat) (xs : list nat),
    Permutation sigma (seq 0 (length xs)) /\
    pool_imap_unordered sigma (fun x => x) xs 0 <> map (fun x => x) xs.
Proof.
  exists [1; 0], [10; 20]. split.
  - cbn [length seq]. apply perm_swap.
  - vm_compute. intros Hc. discriminate Hc.
Qed.

(* ------------------------------------------------------------------------------------------ *)
(** * G6: option handling *)

Section KwProofs.
Context {K : Type}.
Variable dK : K.

Lemma kw_for_shared (k : K) (i : nat) : kw_for dK (KwOne k) i = k.
Proof. reflexivity. Qed.

Lemma kw_for_none (i : nat) : kw_for dK KwNone i = dK.
Proof. reflexivity. Qed.

Lemma kw_for_list (l : list K) (i : nat) :
  2 <= length l -> kw_for dK (KwList l) i = nth i l dK.
Proof.
  intros Hl. unfold kw_for. cbn [kw_list].
  destruct l as [|k1 l1]; [reflexivity|].
  destruct l1 as [|k2 l2]; [cbn [length] in Hl; lia | reflexivity].
Qed.

Lemma kw_for_singleton (k : K) (i : nat) : kw_for dK (KwList [k]) i = k.
Proof. reflexivity. Qed.

Lemma kw_for_list_nil (i : nat) : kw_for dK (KwList []) i = dK.
Proof. unfold kw_for. cbn [kw_list]. destruct i; reflexivity. Qed.
(** the three forms of the option argument in one statement: not given -> the empty option set
    for every slice; a dict or a one-element list -> shared; a list of >= 2 -> entry i *)
Theorem kw_for_cases (spec : @kwspec K) (i : nat) :
  match spec with
  | KwNone => kw_for dK spec i = dK
  | KwOne k => kw_for dK spec i = k
  | KwList [k] => kw_for dK spec i = k
  | KwList l => kw_for dK spec i = nth i l dK
  end.
Proof.
  destruct spec as [|k|l]; try reflexivity.
  destruct l as [|k1 [|k2 l2]]; reflexivity.
Qed.
End KwProofs.

(* ------------------------------------------------------------------------------------------ *)
(** * More list helpers: enumerate, concat, transpose *)

Lemma combine_seq_gen {B} (l : list B) (d : B) : forall a,
  combine (seq a (length l)) l = map (fun i => (i, nth (i - a) l d)) (seq a (length l)).
Proof.
  induction l as [|x l IH]; intros a; [reflexivity|].
  cbn [length seq combine map]. rewrite Nat.sub_diag. cbn [nth]. f_equal.
  rewrite IH. apply map_ext_in. intros i Hi. apply in_seq in Hi.
  replace (i - a) with (S (i - S a)) by lia. reflexivity.
Qed.

Lemma combine_seq {B} (l : list B) (d : B) :
  combine (seq 0 (length l)) l = map (fun i => (i, nth i l d)) (seq 0 (length l)).
Proof.
  rewrite (combine_seq_gen l d 0). apply map_ext. intros i. rewrite Nat.sub_0_r. reflexivity.
Qed.

Lemma map_combine_seq {B C} (F : nat * B -> C) (l : list B) (d : B) :
  map F (combine (seq 0 (length l)) l) = map (fun i => F (i, nth i l d)) (seq 0 (length l)).
Proof. rewrite (combine_seq l d). rewrite map_map. reflexivity. Qed.

Lemma combine_seq_length {B} (l : list B) : length (combine (seq 0 (length l)) l) = length l.
Proof. rewrite combine_length, seq_length. apply Nat.min_id. Qed.

Lemma length_concat_rect {B} (rows : list (list B)) (n1 : nat) :
  (forall row, In row rows -> length row = n1) -> length (concat rows) = length rows * n1.
Proof.
  induction rows as [|r rows IH]; intros Hrect; [reflexivity|].
  cbn [concat length]. rewrite app_length.
  rewrite (Hrect r (or_introl eq_refl)).
  rewrite IH; [reflexivity|]. intros row Hrow. apply Hrect. right. exact Hrow.
Qed.

Lemma nth_concat_rect {B} (rows : list (list B)) (n1 : nat) : forall (i j : nat) (d : B),
  (forall row, In row rows -> length row = n1) -> i < length rows -> j < n1 ->
  nth (i * n1 + j) (concat rows) d = nth j (nth i rows []) d.
Proof.
  induction rows as [|r rows IH]; intros i j d Hrect Hi Hj.
  - cbn [length] in Hi. lia.
  - assert (Hr : length r = n1) by (apply Hrect; left; reflexivity).
    cbn [concat]. destruct i as [|i].
    + cbn [nth Nat.mul Nat.add]. apply app_nth1. lia.
    + cbn [nth]. rewrite app_nth2 by (rewrite Hr; cbn [Nat.mul]; lia).
      replace (S i * n1 + j - length r) with (i * n1 + j) by (rewrite Hr; cbn [Nat.mul]; lia).
      apply IH.
      * intros row Hrow. apply Hrect. right. exact Hrow.
      * cbn [length] in Hi. lia.
      * exact Hj.
Qed.

Lemma transpose_length {B} (d : B) (rows : list (list B)) (n : nat) :
  length (transpose d rows n) = n.
Proof. unfold transpose. rewrite map_length. apply seq_length. Qed.

Lemma transpose_row_length {B} (d : B) (rows : list (list B)) (n : nat) (r : list B) :
  In r (transpose d rows n) -> length r = length rows.
Proof.
  unfold transpose. intros Hr. apply in_map_iff in Hr. destruct Hr as [j [Hj _]].
  subst r. apply map_length.
Qed.

Lemma transpose_nth_col {B} (d : B) (rows : list (list B)) (n j : nat) :
  j < n -> nth j (transpose d rows n) [] = map (fun r => nth j r d) rows.
Proof.
  intros Hj. unfold transpose.
  apply (nth_map_seq0 (fun j' => map (fun r => nth j' r d) rows)). exact Hj.
Qed.

Lemma transpose_nth {B} (d : B) (rows : list (list B)) (n i j : nat) :
  j < n -> i < length rows ->
  nth i (nth j (transpose d rows n) []) d = nth j (nth i rows []) d.
Proof.
  intros Hj Hi. rewrite transpose_nth_col by exact Hj.
  rewrite (nth_indep _ d ((fun r => nth j r d) [])) by (rewrite map_length; exact Hi).
  rewrite (map_nth (fun r => nth j r d)). reflexivity.
Qed.

(* ------------------------------------------------------------------------------------------ *)
(** * G2-G5, G7: the group functions *)

Section GroupProofs.
Context {K Sg T : Type}.
Variable cf : K -> Sg -> T.
Variable epochs : K -> list Sg -> list T.
Variable dK : K.
Variable dS : Sg.
Variable dT : T.

(** G2: 2-D, one task per row *)
Theorem group2d_axis0_spec (sigma : list nat) (spec : kwspec) (sigs : list Sg) :
  Permutation sigma (seq 0 (length sigs)) ->
  group2d_axis0 cf dK dS sigma spec sigs =
  map (fun i => cf (kw_for dK spec i) (nth i sigs dS)) (seq 0 (length sigs)).
Proof.
  intros Hperm. unfold group2d_axis0.
  rewrite pool_imap_perm by (rewrite combine_seq_length; exact Hperm).
  rewrite (map_combine_seq _ sigs dS). reflexivity.
Qed.

Corollary group2d_axis0_length (sigma : list nat) (spec : kwspec) (sigs : list Sg) :
  Permutation sigma (seq 0 (length sigs)) ->
  length (group2d_axis0 cf dK dS sigma spec sigs) = length sigs.
Proof.
  intros Hperm. rewrite (group2d_axis0_spec sigma spec sigs Hperm).
  rewrite map_length. apply seq_length.
Qed.

Corollary group2d_axis0_nth (sigma : list nat) (spec : kwspec) (sigs : list Sg) (i : nat) :
  Permutation sigma (seq 0 (length sigs)) -> i < length sigs ->
  nth i (group2d_axis0 cf dK dS sigma spec sigs) dT = cf (kw_for dK spec i) (nth i sigs dS).
Proof.
  intros Hperm Hi. rewrite (group2d_axis0_spec sigma spec sigs Hperm).
  rewrite nth_map_seq0 by exact Hi. reflexivity.
Qed.

(** G3: 3-D, axis=0: one task per 2-D slice *)
Theorem group3d_axis0_spec (sigma : list nat) (spec : kwspec) (sigs : list (list Sg)) :
  Permutation sigma (seq 0 (length sigs)) ->
  group3d_axis0 epochs dK sigma spec sigs =
  map (fun i => epochs (kw_for dK spec i) (nth i sigs [])) (seq 0 (length sigs)).
Proof.
  intros Hperm. unfold group3d_axis0.
  rewrite pool_imap_perm by (rewrite combine_seq_length; exact Hperm).
  rewrite (map_combine_seq _ sigs []). reflexivity.
Qed.

Corollary group3d_axis0_nth (sigma : list nat) (spec : kwspec) (sigs : list (list Sg)) (i : nat) :
  Permutation sigma (seq 0 (length sigs)) -> i < length sigs ->
  nth i (group3d_axis0 epochs dK sigma spec sigs) [] = epochs (kw_for dK spec i) (nth i sigs []).
Proof.
  intros Hperm Hi. rewrite (group3d_axis0_spec sigma spec sigs Hperm).
  rewrite nth_map_seq0 by exact Hi. reflexivity.
Qed.

Corollary group3d_axis0_length (sigma : list nat) (spec : kwspec) (sigs : list (list Sg)) :
  Permutation sigma (seq 0 (length sigs)) ->
  length (group3d_axis0 epochs dK sigma spec sigs) = length sigs.
Proof.
  intros Hperm. rewrite (group3d_axis0_spec sigma spec sigs Hperm).
  rewrite map_length. apply seq_length.
Qed.

(** G4: 3-D, axis=1: per-column analysis, transposed back *)
Lemma group3d_axis1_unfold (sigma : list nat) (spec : kwspec) (sigs : list (list Sg)) (n1 : nat) :
  Permutation sigma (seq 0 n1) ->
  group3d_axis1 epochs dK dS dT sigma spec sigs n1 =
  transpose dT
    (map (fun j => epochs (kw_for dK spec j) (map (fun row => nth j row dS) sigs)) (seq 0 n1))
    (length sigs).
Proof.
  intros Hperm. unfold group3d_axis1. f_equal.
  pose proof (transpose_length dS sigs n1) as Hlen.
  set (cols := transpose dS sigs n1) in *.
  rewrite <- Hlen.
  rewrite pool_imap_perm by (rewrite combine_seq_length, Hlen; exact Hperm).
  rewrite (map_combine_seq _ cols []). rewrite Hlen.
  apply map_ext_in. intros j Hj. apply in_seq in Hj. cbn [fst snd].
  unfold cols. rewrite transpose_nth_col by lia. reflexivity.
Qed.

(** the entry holds without any shape hypothesis (out-of-range reads give [dT] on both sides) *)
Theorem group3d_axis1_entry (sigma : list nat) (spec : kwspec) (sigs : list (list Sg))
  (n1 i j : nat) :
  Permutation sigma (seq 0 n1) -> i < length sigs -> j < n1 ->
  nth j (nth i (group3d_axis1 epochs dK dS dT sigma spec sigs n1) []) dT =
  nth i (epochs (kw_for dK spec j) (map (fun row => nth j row dS) sigs)) dT.
Proof.
  intros Hperm Hi Hj. rewrite (group3d_axis1_unfold sigma spec sigs n1 Hperm).
  rewrite transpose_nth.
  - rewrite nth_map_seq0 by exact Hj. reflexivity.
  - exact Hi.
  - rewrite map_length, seq_length. exact Hj.
Qed.

Theorem group3d_axis1_spec (sigma : list nat) (spec : kwspec) (sigs : list (list Sg))
  (n1 i j : nat) :
  Permutation sigma (seq 0 n1) ->
  (forall row, In row sigs -> length row = n1) ->
  (forall k sl, length (epochs k sl) = length sl) ->
  i < length sigs -> j < n1 ->
  nth j (nth i (group3d_axis1 epochs dK dS dT sigma spec sigs n1) []) dT =
  nth i (epochs (kw_for dK spec j) (map (fun row => nth j row dS) sigs)) dT.
Proof.
  intros Hperm _ _ Hi Hj. apply group3d_axis1_entry; assumption.
Qed.

(** under the hypotheses of G4 the right-hand side is a genuine entry, not the default *)
Lemma group3d_axis1_rhs_in_range (spec : kwspec) (sigs : list (list Sg)) (i j : nat) :
  (forall k sl, length (epochs k sl) = length sl) -> i < length sigs ->
  i < length (epochs (kw_for dK spec j) (map (fun row => nth j row dS) sigs)).
Proof. intros Hep Hi. rewrite Hep, map_length. exact Hi. Qed.

Theorem group3d_axis1_length (sigma : list nat) (spec : kwspec) (sigs : list (list Sg)) (n1 : nat) :
  length (group3d_axis1 epochs dK dS dT sigma spec sigs n1) = length sigs.
Proof. unfold group3d_axis1. apply transpose_length. Qed.

Theorem group3d_axis1_row_length (sigma : list nat) (spec : kwspec) (sigs : list (list Sg))
  (n1 : nat) (row : list T) :
  Permutation sigma (seq 0 n1) ->
  In row (group3d_axis1 epochs dK dS dT sigma spec sigs n1) -> length row = n1.
Proof.
  intros Hperm Hrow. rewrite (group3d_axis1_unfold sigma spec sigs n1 Hperm) in Hrow.
  apply transpose_row_length in Hrow. rewrite Hrow, map_length. apply seq_length.
Qed.

(** G5: 3-D, axis=(0,1): reshape to n0*n1 rows, 2-D analysis, reshape back *)
Theorem group3d_axis01_spec (sigma : list nat) (spec : kwspec) (sigs : list (list Sg))
  (n1 i j : nat) :
  Permutation sigma (seq 0 (length (concat sigs))) ->
  (forall row, In row sigs -> length row = n1) ->
  i < length sigs -> j < n1 ->
  nth j (nth i (group3d_axis01 cf dK dS dT sigma spec sigs n1) []) dT =
  cf (kw_for dK spec (i * n1 + j)) (nth j (nth i sigs []) dS).
Proof.
  intros Hperm Hrect Hi Hj. unfold group3d_axis01, group3d_axis01_gen.
  rewrite nth_map_seq0 by exact Hi. rewrite nth_map_seq0 by exact Hj.
  assert (Hlt : i * n1 + j < length (concat sigs)).
  { rewrite (length_concat_rect sigs n1 Hrect).
    assert (Hle : S i * n1 <= length sigs * n1) by (apply Nat.mul_le_mono_r; lia).
    cbn [Nat.mul] in Hle. lia. }
  rewrite (group2d_axis0_nth sigma spec (concat sigs) (i * n1 + j) Hperm Hlt).
  rewrite (nth_concat_rect sigs n1 i j dS Hrect Hi Hj). reflexivity.
Qed.

Theorem group3d_axis01_length (sigma : list nat) (spec : kwspec) (sigs : list (list Sg)) (n1 : nat) :
  length (group3d_axis01 cf dK dS dT sigma spec sigs n1) = length sigs.
Proof.
  unfold group3d_axis01, group3d_axis01_gen. rewrite map_length. apply seq_length.
Qed.

Theorem group3d_axis01_row_length (sigma : list nat) (spec : kwspec) (sigs : list (list Sg))
  (n1 : nat) (row : list T) :
  In row (group3d_axis01 cf dK dS dT sigma spec sigs n1) -> length row = n1.
Proof.
  unfold group3d_axis01, group3d_axis01_gen. intros Hrow.
  apply in_map_iff in Hrow. destruct Hrow as [i [Hi _]]. subst row.
  rewrite map_length. apply seq_length.
Qed.

(** G6: the nested list has the array's first two dimensions (outer and inner lengths) *)
Theorem group3d_axis0_row_length (sigma : list nat) (spec : kwspec) (sigs : list (list Sg))
  (n1 i : nat) :
  Permutation sigma (seq 0 (length sigs)) ->
  (forall row, In row sigs -> length row = n1) ->
  (forall k sl, length (epochs k sl) = length sl) ->
  i < length sigs ->
  length (nth i (group3d_axis0 epochs dK sigma spec sigs) []) = n1.
Proof.
  intros Hperm Hrect Hep Hi.
  rewrite (group3d_axis0_nth sigma spec sigs i Hperm Hi), Hep.
  apply Hrect. apply nth_In. exact Hi.
Qed.

Theorem group3d_axis0_shape (sigma : list nat) (spec : kwspec) (sigs : list (list Sg)) (n1 : nat) :
  Permutation sigma (seq 0 (length sigs)) ->
  (forall row, In row sigs -> length row = n1) ->
  (forall k sl, length (epochs k sl) = length sl) ->
  length (group3d_axis0 epochs dK sigma spec sigs) = length sigs /\
  forall i, i < length sigs -> length (nth i (group3d_axis0 epochs dK sigma spec sigs) []) = n1.
Proof.
  intros Hperm Hrect Hep. split.
  - apply group3d_axis0_length. exact Hperm.
  - intros i Hi. apply group3d_axis0_row_length; assumption.
Qed.

Theorem group3d_axis1_shape (sigma : list nat) (spec : kwspec) (sigs : list (list Sg)) (n1 : nat) :
  Permutation sigma (seq 0 n1) ->
  length (group3d_axis1 epochs dK dS dT sigma spec sigs n1) = length sigs /\
  forall i, i < length sigs ->
    length (nth i (group3d_axis1 epochs dK dS dT sigma spec sigs n1) []) = n1.
Proof.
  intros Hperm. split.
  - apply group3d_axis1_length.
  - intros i Hi. apply (group3d_axis1_row_length sigma spec sigs n1 _ Hperm).
    apply nth_In. rewrite group3d_axis1_length. exact Hi.
Qed.

Theorem group3d_axis01_shape (sigma : list nat) (spec : kwspec) (sigs : list (list Sg)) (n1 : nat) :
  length (group3d_axis01 cf dK dS dT sigma spec sigs n1) = length sigs /\
  forall i, i < length sigs ->
    length (nth i (group3d_axis01 cf dK dS dT sigma spec sigs n1) []) = n1.
Proof.
  split.
  - apply group3d_axis01_length.
  - intros i Hi. apply (group3d_axis01_row_length sigma spec sigs n1).
    apply nth_In. rewrite group3d_axis01_length. exact Hi.
Qed.

(** G7: BycycleGroup.models pairs result [i] (or [i][j]) with signal [i] (or [i][j]) *)
Theorem models2d_spec (dfs : list T) (sigs : list Sg) (i : nat) :
  i < length sigs ->
  nth i (models2d dS dT dfs sigs) (dT, dS) = (nth i dfs dT, nth i sigs dS).
Proof. intros Hi. unfold models2d. rewrite nth_map_seq0 by exact Hi. reflexivity. Qed.

Theorem models2d_length (dfs : list T) (sigs : list Sg) :
  length (models2d dS dT dfs sigs) = length sigs.
Proof. unfold models2d. rewrite map_length. apply seq_length. Qed.

Theorem models3d_spec (dfs : list (list T)) (sigs : list (list Sg)) (i j : nat) :
  i < length sigs -> j < length (nth i sigs []) ->
  nth j (nth i (models3d dS dT dfs sigs) []) (dT, dS) =
  (nth j (nth i dfs []) dT, nth j (nth i sigs []) dS).
Proof.
  intros Hi Hj. unfold models3d.
  rewrite nth_map_seq0 by exact Hi. rewrite nth_map_seq0 by exact Hj. reflexivity.
Qed.

Theorem models3d_length (dfs : list (list T)) (sigs : list (list Sg)) :
  length (models3d dS dT dfs sigs) = length sigs.
Proof. unfold models3d. rewrite map_length. apply seq_length. Qed.

Lemma models3d_row_length (dfs : list (list T)) (sigs : list (list Sg)) (i : nat) :
  i < length sigs -> length (nth i (models3d dS dT dfs sigs) []) = length (nth i sigs []).
Proof.
  intros Hi. unfold models3d. rewrite nth_map_seq0 by exact Hi. rewrite map_length. apply seq_length.
Qed.

(** G9: the BycycleGroup OBJECT over any history of fits.  A fit REPLACES tables and models: after any
    sequence of fits the object holds exactly what a fresh object fitted on the LAST array holds, and
    that has the last array's shape and contents. *)
Lemma gobj_fit_ignores_state (o o' : @gobj Sg T) (f : @gfit K Sg) :
  gobj_fit cf epochs dK dS dT o f = gobj_fit cf epochs dK dS dT o' f.
Proof. destruct f; reflexivity. Qed.

Theorem gobj_refit_replaces (o : @gobj Sg T) (fits : list (@gfit K Sg)) (f : @gfit K Sg) :
  gobj_run cf epochs dK dS dT o (fits ++ [f]) = gobj_fit cf epochs dK dS dT Unfitted f.
Proof.
  unfold gobj_run. rewrite fold_left_app. cbn [fold_left]. apply gobj_fit_ignores_state.
Qed.

Theorem gobj_last_fit_2d (o : @gobj Sg T) (fits : list (@gfit K Sg))
  (sigma : list nat) (spec : kwspec) (sigs : list Sg) :
  Permutation sigma (seq 0 (length sigs)) ->
  exists dfs models,
    gobj_run cf epochs dK dS dT o (fits ++ [Fit2 sigma spec sigs]) = Fitted2 dfs models /\
    length dfs = length sigs /\ length models = length sigs /\
    forall i, i < length sigs ->
      nth i dfs dT = cf (kw_for dK spec i) (nth i sigs dS) /\
      nth i models (dT, dS) = (cf (kw_for dK spec i) (nth i sigs dS), nth i sigs dS).
Proof.
  intros Hperm. rewrite gobj_refit_replaces. cbn [gobj_fit].
  eexists. eexists. split; [reflexivity|].
  split; [apply group2d_axis0_length; exact Hperm|].
  split; [apply models2d_length|].
  intros i Hi. rewrite models2d_spec by exact Hi.
  rewrite (group2d_axis0_nth sigma spec sigs i Hperm Hi). split; reflexivity.
Qed.

Theorem gobj_last_fit_3d_axis01 (o : @gobj Sg T) (fits : list (@gfit K Sg))
  (sigma : list nat) (spec : kwspec) (sigs : list (list Sg)) (n1 : nat) :
  Permutation sigma (seq 0 (length (concat sigs))) ->
  (forall row, In row sigs -> length row = n1) ->
  exists dfs models,
    gobj_run cf epochs dK dS dT o (fits ++ [Fit3 2 sigma spec sigs n1]) = Fitted3 dfs models /\
    length dfs = length sigs /\ length models = length sigs /\
    forall i, i < length sigs ->
      length (nth i dfs []) = n1 /\ length (nth i models []) = n1 /\
      forall j, j < n1 ->
        nth j (nth i dfs []) dT = cf (kw_for dK spec (i * n1 + j)) (nth j (nth i sigs []) dS) /\
        nth j (nth i models []) (dT, dS) =
        (cf (kw_for dK spec (i * n1 + j)) (nth j (nth i sigs []) dS), nth j (nth i sigs []) dS).
Proof.
  intros Hperm Hrect. rewrite gobj_refit_replaces. cbn [gobj_fit fit3_tables].
  eexists. eexists. split; [reflexivity|].
  split; [apply group3d_axis01_length|].
  split; [apply models3d_length|].
  intros i Hi.
  assert (Hrow : length (nth i sigs []) = n1) by (apply Hrect; apply nth_In; exact Hi).
  split; [apply (group3d_axis01_shape sigma spec sigs n1); exact Hi|].
  split; [rewrite models3d_row_length by exact Hi; exact Hrow|].
  intros j Hj.
  rewrite models3d_spec by (try exact Hi; rewrite Hrow; exact Hj).
  rewrite (group3d_axis01_spec sigma spec sigs n1 i j Hperm Hrect Hi Hj). split; reflexivity.
Qed.

Theorem gobj_last_fit_3d_axis0 (o : @gobj Sg T) (fits : list (@gfit K Sg))
  (sigma : list nat) (spec : kwspec) (sigs : list (list Sg)) (n1 : nat) :
  Permutation sigma (seq 0 (length sigs)) ->
  (forall row, In row sigs -> length row = n1) ->
  (forall k sl, length (epochs k sl) = length sl) ->
  exists dfs models,
    gobj_run cf epochs dK dS dT o (fits ++ [Fit3 0 sigma spec sigs n1]) = Fitted3 dfs models /\
    length dfs = length sigs /\ length models = length sigs /\
    forall i, i < length sigs ->
      length (nth i dfs []) = n1 /\ length (nth i models []) = n1 /\
      nth i dfs [] = epochs (kw_for dK spec i) (nth i sigs []) /\
      forall j, j < n1 ->
        nth j (nth i models []) (dT, dS) =
        (nth j (epochs (kw_for dK spec i) (nth i sigs [])) dT, nth j (nth i sigs []) dS).
Proof.
  intros Hperm Hrect Hep. rewrite gobj_refit_replaces. cbn [gobj_fit fit3_tables].
  eexists. eexists. split; [reflexivity|].
  split; [apply group3d_axis0_length; exact Hperm|].
  split; [apply models3d_length|].
  intros i Hi.
  assert (Hrow : length (nth i sigs []) = n1) by (apply Hrect; apply nth_In; exact Hi).
  split; [apply group3d_axis0_row_length; assumption|].
  split; [rewrite models3d_row_length by exact Hi; exact Hrow|].
  split; [apply group3d_axis0_nth; assumption|].
  intros j Hj.
  rewrite models3d_spec by (try exact Hi; rewrite Hrow; exact Hj).
  rewrite (group3d_axis0_nth sigma spec sigs i Hperm Hi). reflexivity.
Qed.

Theorem gobj_last_fit_3d_axis1 (o : @gobj Sg T) (fits : list (@gfit K Sg))
  (sigma : list nat) (spec : kwspec) (sigs : list (list Sg)) (n1 : nat) :
  Permutation sigma (seq 0 n1) ->
  (forall row, In row sigs -> length row = n1) ->
  (forall k sl, length (epochs k sl) = length sl) ->
  exists dfs models,
    gobj_run cf epochs dK dS dT o (fits ++ [Fit3 1 sigma spec sigs n1]) = Fitted3 dfs models /\
    length dfs = length sigs /\ length models = length sigs /\
    forall i, i < length sigs ->
      length (nth i dfs []) = n1 /\ length (nth i models []) = n1 /\
      forall j, j < n1 ->
        nth j (nth i dfs []) dT =
        nth i (epochs (kw_for dK spec j) (map (fun row => nth j row dS) sigs)) dT /\
        nth j (nth i models []) (dT, dS) =
        (nth i (epochs (kw_for dK spec j) (map (fun row => nth j row dS) sigs)) dT,
         nth j (nth i sigs []) dS).
Proof.
  intros Hperm Hrect Hep. rewrite gobj_refit_replaces. cbn [gobj_fit fit3_tables].
  eexists. eexists. split; [reflexivity|].
  split; [apply group3d_axis1_length|].
  split; [apply models3d_length|].
  intros i Hi.
  assert (Hrow : length (nth i sigs []) = n1) by (apply Hrect; apply nth_In; exact Hi).
  split; [apply (group3d_axis1_shape sigma spec sigs n1 Hperm); exact Hi|].
  split; [rewrite models3d_row_length by exact Hi; exact Hrow|].
  intros j Hj.
  rewrite models3d_spec by (try exact Hi; rewrite Hrow; exact Hj).
  rewrite (group3d_axis1_spec sigma spec sigs n1 i j Hperm Hrect Hep Hi Hj). split; reflexivity.
Qed.

(** G10: the settings attributes are re-assigned between fits.  The object carries its CURRENT option
    set; a fit after any history of assignments and fits uses exactly the option set in force when it is
    called (the last assignment, else the constructor's) - for every position - and nothing that an
    earlier fit used. *)
Lemma gact_run_app (st : @gstate K Sg T) (l1 l2 : list (@gaction K Sg)) :
  gact_run cf epochs dK dS dT st (l1 ++ l2) =
  gact_run cf epochs dK dS dT (gact_run cf epochs dK dS dT st l1) l2.
Proof. unfold gact_run. apply fold_left_app. Qed.

Theorem gact_run_current (st : @gstate K Sg T) (acts : list (@gaction K Sg)) :
  fst (gact_run cf epochs dK dS dT st acts) = current_kw (fst st) acts.
Proof.
  revert st. induction acts as [|a t IH]; intros st; [reflexivity|].
  unfold gact_run, current_kw in *. cbn [fold_left]. rewrite IH.
  destruct a as [k|f]; reflexivity.
Qed.

Lemma current_kw_app (k0 : K) (l1 l2 : list (@gaction K Sg)) :
  current_kw k0 (l1 ++ l2) = current_kw (current_kw k0 l1) l2.
Proof. unfold current_kw. apply fold_left_app. Qed.

(* the last assignment wins; fits do not touch the settings *)
Lemma current_kw_set (k0 k : K) (acts : list (@gaction K Sg)) : current_kw k0 (acts ++ [ASet k]) = k.
Proof. rewrite current_kw_app. reflexivity. Qed.
Lemma current_kw_fit (k0 : K) (f : @gfit K Sg) (acts : list (@gaction K Sg)) :
  current_kw k0 (acts ++ [AFit f]) = current_kw k0 acts.
Proof. rewrite current_kw_app. reflexivity. Qed.

Theorem gact_fit_uses_current (k0 : K) (o : @gobj Sg T) (acts : list (@gaction K Sg)) (f : @gfit K Sg) :
  gact_run cf epochs dK dS dT (k0, o) (acts ++ [AFit f]) =
  (current_kw k0 acts, gobj_fit cf epochs dK dS dT Unfitted (with_spec (current_kw k0 acts) f)).
Proof.
  rewrite gact_run_app.
  destruct (gact_run cf epochs dK dS dT (k0, o) acts) as [k o1] eqn:E.
  assert (Hk : k = current_kw k0 acts).
  { change k with (fst (k, o1)). rewrite <- E. apply gact_run_current. }
  subst k. unfold gact_run. cbn [fold_left gact fst snd].
  reflexivity.
Qed.

(* ... which is what a freshly constructed object holding those settings gives on that array *)
Corollary gact_fit_equals_fresh (k0 : K) (o : @gobj Sg T) (acts : list (@gaction K Sg)) (f : @gfit K Sg) :
  gact_run cf epochs dK dS dT (k0, o) (acts ++ [AFit f]) =
  gact_run cf epochs dK dS dT (current_kw k0 acts, Unfitted) [AFit f].
Proof. rewrite gact_fit_uses_current. reflexivity. Qed.

Lemma gobj_run_single (f : @gfit K Sg) :
  gobj_fit cf epochs dK dS dT Unfitted f = gobj_run cf epochs dK dS dT Unfitted ([] ++ [f]).
Proof. reflexivity. Qed.

Theorem gact_last_fit_2d (k0 : K) (o : @gobj Sg T) (acts : list (@gaction K Sg))
  (sigma : list nat) (spec : kwspec) (sigs : list Sg) :
  Permutation sigma (seq 0 (length sigs)) ->
  let k := current_kw k0 acts in
  exists dfs models,
    gact_run cf epochs dK dS dT (k0, o) (acts ++ [AFit (Fit2 sigma spec sigs)]) = (k, Fitted2 dfs models) /\
    length dfs = length sigs /\ length models = length sigs /\
    forall i, i < length sigs ->
      nth i dfs dT = cf k (nth i sigs dS) /\
      nth i models (dT, dS) = (cf k (nth i sigs dS), nth i sigs dS).
Proof.
  intros Hperm k. rewrite gact_fit_uses_current. fold k. cbn [with_spec]. rewrite gobj_run_single.
  destruct (gobj_last_fit_2d Unfitted [] sigma (KwOne k) sigs Hperm) as (dfs & models & Hrun & Hl1 & Hl2 & Hpos).
  exists dfs, models. rewrite Hrun. split; [reflexivity|]. split; [exact Hl1|]. split; [exact Hl2|].
  intros i Hi. destruct (Hpos i Hi) as (H1 & H2). rewrite kw_for_shared in H1, H2. split; assumption.
Qed.

Theorem gact_last_fit_3d_axis01 (k0 : K) (o : @gobj Sg T) (acts : list (@gaction K Sg))
  (sigma : list nat) (spec : kwspec) (sigs : list (list Sg)) (n1 : nat) :
  Permutation sigma (seq 0 (length (concat sigs))) ->
  (forall row, In row sigs -> length row = n1) ->
  let k := current_kw k0 acts in
  exists dfs models,
    gact_run cf epochs dK dS dT (k0, o) (acts ++ [AFit (Fit3 2 sigma spec sigs n1)]) = (k, Fitted3 dfs models) /\
    length dfs = length sigs /\ length models = length sigs /\
    forall i, i < length sigs ->
      length (nth i dfs []) = n1 /\ length (nth i models []) = n1 /\
      forall j, j < n1 ->
        nth j (nth i dfs []) dT = cf k (nth j (nth i sigs []) dS) /\
        nth j (nth i models []) (dT, dS) = (cf k (nth j (nth i sigs []) dS), nth j (nth i sigs []) dS).
Proof.
  intros Hperm Hrect k. rewrite gact_fit_uses_current. fold k. cbn [with_spec]. rewrite gobj_run_single.
  destruct (gobj_last_fit_3d_axis01 Unfitted [] sigma (KwOne k) sigs n1 Hperm Hrect)
    as (dfs & models & Hrun & Hl1 & Hl2 & Hpos).
  exists dfs, models. rewrite Hrun. split; [reflexivity|]. split; [exact Hl1|]. split; [exact Hl2|].
  intros i Hi. destruct (Hpos i Hi) as (Hr1 & Hr2 & Hent). split; [exact Hr1|]. split; [exact Hr2|].
  intros j Hj. destruct (Hent j Hj) as (H1 & H2). rewrite kw_for_shared in H1, H2. split; assumption.
Qed.

Theorem gact_last_fit_3d_axis0 (k0 : K) (o : @gobj Sg T) (acts : list (@gaction K Sg))
  (sigma : list nat) (spec : kwspec) (sigs : list (list Sg)) (n1 : nat) :
  Permutation sigma (seq 0 (length sigs)) ->
  (forall row, In row sigs -> length row = n1) ->
  (forall k sl, length (epochs k sl) = length sl) ->
  let k := current_kw k0 acts in
  exists dfs models,
    gact_run cf epochs dK dS dT (k0, o) (acts ++ [AFit (Fit3 0 sigma spec sigs n1)]) = (k, Fitted3 dfs models) /\
    length dfs = length sigs /\ length models = length sigs /\
    forall i, i < length sigs ->
      length (nth i dfs []) = n1 /\ length (nth i models []) = n1 /\
      nth i dfs [] = epochs k (nth i sigs []) /\
      forall j, j < n1 ->
        nth j (nth i models []) (dT, dS) = (nth j (epochs k (nth i sigs [])) dT, nth j (nth i sigs []) dS).
Proof.
  intros Hperm Hrect Hep k. rewrite gact_fit_uses_current. fold k. cbn [with_spec]. rewrite gobj_run_single.
  destruct (gobj_last_fit_3d_axis0 Unfitted [] sigma (KwOne k) sigs n1 Hperm Hrect Hep)
    as (dfs & models & Hrun & Hl1 & Hl2 & Hpos).
  exists dfs, models. rewrite Hrun. split; [reflexivity|]. split; [exact Hl1|]. split; [exact Hl2|].
  intros i Hi. destruct (Hpos i Hi) as (Hr1 & Hr2 & Hrow & Hent). split; [exact Hr1|]. split; [exact Hr2|].
  rewrite kw_for_shared in Hrow. split; [exact Hrow|].
  intros j Hj. specialize (Hent j Hj). rewrite kw_for_shared in Hent. exact Hent.
Qed.

Theorem gact_last_fit_3d_axis1 (k0 : K) (o : @gobj Sg T) (acts : list (@gaction K Sg))
  (sigma : list nat) (spec : kwspec) (sigs : list (list Sg)) (n1 : nat) :
  Permutation sigma (seq 0 n1) ->
  (forall row, In row sigs -> length row = n1) ->
  (forall k sl, length (epochs k sl) = length sl) ->
  let k := current_kw k0 acts in
  exists dfs models,
    gact_run cf epochs dK dS dT (k0, o) (acts ++ [AFit (Fit3 1 sigma spec sigs n1)]) = (k, Fitted3 dfs models) /\
    length dfs = length sigs /\ length models = length sigs /\
    forall i, i < length sigs ->
      length (nth i dfs []) = n1 /\ length (nth i models []) = n1 /\
      forall j, j < n1 ->
        nth j (nth i dfs []) dT = nth i (epochs k (map (fun row => nth j row dS) sigs)) dT /\
        nth j (nth i models []) (dT, dS) =
        (nth i (epochs k (map (fun row => nth j row dS) sigs)) dT, nth j (nth i sigs []) dS).
Proof.
  intros Hperm Hrect Hep k. rewrite gact_fit_uses_current. fold k. cbn [with_spec]. rewrite gobj_run_single.
  destruct (gobj_last_fit_3d_axis1 Unfitted [] sigma (KwOne k) sigs n1 Hperm Hrect Hep)
    as (dfs & models & Hrun & Hl1 & Hl2 & Hpos).
  exists dfs, models. rewrite Hrun. split; [reflexivity|]. split; [exact Hl1|]. split; [exact Hl2|].
  intros i Hi. destruct (Hpos i Hi) as (Hr1 & Hr2 & Hent). split; [exact Hr1|]. split; [exact Hr2|].
  intros j Hj. destruct (Hent j Hj) as (H1 & H2). rewrite kw_for_shared in H1, H2. split; assumption.
Qed.
End GroupProofs.

(** the correspondence instance: the tables of the object after a history are those of the function
    called on the last array with the object's current option set given as a (shared) one-element list *)
Definition with_kw (kw : gkw) (g : gcase) : gcase :=
  match g with G2 sigma _ n0 => G2 sigma kw n0 | G3 ax sigma _ n0 n1 => G3 ax sigma kw n0 n1 end.
Lemma run_group_object_tables (k0 : nat) (h : list ghist) (g : gcase) :
  fst (run_group_object (k0, h ++ [HFit g])) =
  run_group (with_kw (GList [current_kw k0 (map act_of_hist h)]) g).
Proof.
  unfold run_group_object. cbn [fst snd]. rewrite map_app. cbn [map act_of_hist].
  rewrite gact_fit_uses_current. cbn [snd].
  destruct g as [sigma kw n0 | ax sigma kw n0 n1]; [reflexivity|].
  destruct ax as [|[|ax]]; reflexivity.
Qed.

(* ------------------------------------------------------------------------------------------ *)
(** * G5b (Legacy): the pre-repair back-index [i + j] misplaces results *)

Theorem group3d_axis01_legacy_refuted :
  nth 0 (nth 1 (group3d_axis01_legacy id_cf 0 0 (0, 0, 0) [0; 1; 2; 3] (KwOne 7) (sig_ids 2 2) 2)
               []) (0, 0, 0)
  <> id_cf 7 (nth 0 (nth 1 (sig_ids 2 2) []) 0).
Proof. vm_compute. intros Hc. discriminate Hc. Qed.

(** the statement of G5 is false for the legacy index *)
Corollary group3d_axis01_legacy_not_spec :
  exists (sigma : list nat) (spec : @kwspec nat) (sigs : list (list nat)) (n1 i j : nat),
    Permutation sigma (seq 0 (length (concat sigs))) /\
    (forall row, In row sigs -> length row = n1) /\
    i < length sigs /\ j < n1 /\
    nth j (nth i (group3d_axis01_legacy id_cf 0 0 (0, 0, 0) sigma spec sigs n1) []) (0, 0, 0)
    <> id_cf (kw_for 0 spec (i * n1 + j)) (nth j (nth i sigs []) 0).
Proof.
  exists [0; 1; 2; 3], (KwOne 7), (sig_ids 2 2), 2, 1, 0.
  split; [apply Permutation_refl|]. split; [|split; [|split]].
  - intros row Hrow. vm_compute in Hrow.
    destruct Hrow as [Hrow | [Hrow | Hrow]]; [subst row; reflexivity | subst row; reflexivity |].
    destruct Hrow.
  - vm_compute. lia.
  - lia.
  - exact group3d_axis01_legacy_refuted.
Qed.

(* ------------------------------------------------------------------------------------------ *)
(** * G8: non-vacuity on the correspondence instance (2x3 array, non-trivial completion order) *)

Example run_group2d_example :
  run_group (G2 [2; 0; 1] (GList [5; 6; 7]) 3) = [[id_cf 5 0; id_cf 6 1; id_cf 7 2]].
Proof. vm_compute. reflexivity. Qed.

Example run_group3d_axis0_example :
  run_group (G3 0 [1; 0] (GList [5; 6]) 2 3) = [id_epochs 5 [0; 1; 2]; id_epochs 6 [3; 4; 5]].
Proof. vm_compute. reflexivity. Qed.

Example run_group3d_axis1_example :
  run_group (G3 1 [2; 0; 1] (GList [5; 6; 7]) 2 3) =
  [[(5, slice_id [0; 3], 0); (6, slice_id [1; 4], 0); (7, slice_id [2; 5], 0)];
   [(5, slice_id [0; 3], 1); (6, slice_id [1; 4], 1); (7, slice_id [2; 5], 1)]].
Proof. vm_compute. reflexivity. Qed.

Example run_group3d_axis01_example :
  run_group (G3 2 [5; 3; 1; 0; 4; 2] (GList [10; 11; 12; 13; 14; 15]) 2 3) =
  [[id_cf 10 0; id_cf 11 1; id_cf 12 2]; [id_cf 13 3; id_cf 14 4; id_cf 15 5]].
Proof. vm_compute. reflexivity. Qed.

Example run_group3d_axis01_shared_example :
  run_group (G3 2 [5; 3; 1; 0; 4; 2] GShared 2 3) =
  [[id_cf 999 0; id_cf 999 1; id_cf 999 2]; [id_cf 999 3; id_cf 999 4; id_cf 999 5]].
Proof. vm_compute. reflexivity. Qed.

(** compute_features_kwargs not given: every row is analysed with the empty option set (id 998) *)
Example run_group2d_none_example :
  run_group (G2 [1; 2; 0] GNone 3) = [[id_cf 998 0; id_cf 998 1; id_cf 998 2]].
Proof. vm_compute. reflexivity. Qed.

Example run_group3d_axis1_none_example :
  run_group (G3 1 [1; 0] GNone 2 2) =
  [[(998, slice_id [0; 2], 0); (998, slice_id [1; 3], 0)];
   [(998, slice_id [0; 2], 1); (998, slice_id [1; 3], 1)]].
Proof. vm_compute. reflexivity. Qed.

(** a one-element list on a one-row array is the shared case *)
Example run_group2d_singleton_example : run_group (G2 [0] (GList [4]) 1) = [[id_cf 4 0]].
Proof. vm_compute. reflexivity. Qed.

(** the completion order does not matter: same results as with the identity order *)
Example run_group_sigma_independent :
  run_group (G2 [2; 0; 1] (GList [5; 6; 7]) 3) = run_group (G2 [0; 1; 2] (GList [5; 6; 7]) 3) /\
  run_group (G3 0 [1; 0] (GList [5; 6]) 2 3) = run_group (G3 0 [0; 1] (GList [5; 6]) 2 3) /\
  run_group (G3 1 [2; 0; 1] (GList [5; 6; 7]) 2 3) = run_group (G3 1 [0; 1; 2] (GList [5; 6; 7]) 2 3) /\
  run_group (G3 2 [5; 3; 1; 0; 4; 2] GShared 2 3) = run_group (G3 2 [0; 1; 2; 3; 4; 5] GShared 2 3).
Proof. vm_compute. repeat split. Qed.

(** the permutation hypothesis of G1 is needed: a task that never completes blocks the output *)
Example pool_imap_needs_all_tasks : pool_imap [1] (fun x : nat => x) [10; 20] 0 = [].
Proof. vm_compute. reflexivity. Qed.

(** a re-fitted object: 3 x 2 array along axis (0,1), then a 2-row 2-D array - nothing of the first fit is left *)
Example run_group_object_refit_example :
  run_group_object (999, [HFit (G3 2 [0; 1; 2; 3; 4; 5] GShared 3 2); HFit (G2 [1; 0] GShared 2)]) =
  ([[id_cf 999 0; id_cf 999 1]], [[(id_cf 999 0, 0); (id_cf 999 1, 1)]]).
Proof. vm_compute. reflexivity. Qed.

(** settings re-assigned between two fits (and once more before any fit): the second fit analyses every
    row with the option set assigned last (1002), not with the one of the first fit (1001) or of the
    constructor (999) *)
Example run_group_object_reassign_example :
  run_group_object (999, [HSet 1001; HFit (G3 0 [1; 0] GShared 2 3); HSet 1002; HFit (G2 [2; 0; 1] GShared 3)]) =
  ([[id_cf 1002 0; id_cf 1002 1; id_cf 1002 2]],
   [[(id_cf 1002 0, 0); (id_cf 1002 1, 1); (id_cf 1002 2, 2)]]).
Proof. vm_compute. reflexivity. Qed.
