(* Proofs about the exact-rational model of extrema_interpolated_phase (Model/Phase.v), C17.
   Units: quarter turns (pi/2).  None = NaN. *)
From Coq Require Import List Bool Arith ZArith QArith Qabs Lia Lqa Sorted.
Import ListNotations.
From ByC Require Import Base.Result Base.ListAux Harness.Compare Model.Phase.
Local Open Scope nat_scope.

(* ------------------------------------------------------------------------------------------ *)
(* generic list vocabulary *)

Definition adjacent {A} (x y : A) (l : list A) : Prop := exists pre post, l = pre ++ x :: y :: post.
Definition sorted_anc : list (nat * Z) -> Prop := StronglySorted (fun x y : nat * Z => fst x < fst y).

Lemma adjacent_In {A} (x y : A) l : adjacent x y l -> In x l /\ In y l.
Proof.
  intros [pre [post Hl]]. subst l. split; apply in_or_app; right; cbn; auto.
Qed.

Lemma adjacent_cons {A} (p x y : A) l : adjacent x y l -> adjacent x y (p :: l).
Proof.
  intros [pre [post Hl]]. exists (p :: pre), post. subst l. reflexivity.
Qed.

Lemma in_adjacent_or_last {A} (x : A) l :
  In x l -> (exists y, adjacent x y l) \/ (exists pre, l = pre ++ [x]).
Proof.
  induction l as [|p l IH]; intro Hin; [destruct Hin|].
  destruct Hin as [Heq|Hin].
  - subst p. destruct l as [|y l'].
    + right. exists []. reflexivity.
    + left. exists y. exists [], l'. reflexivity.
  - destruct (IH Hin) as [[y Hadj]|[pre Hpre]].
    + left. exists y. now apply adjacent_cons.
    + right. exists (p :: pre). subst l. reflexivity.
Qed.

Lemma sorted_tail p l : sorted_anc (p :: l) -> sorted_anc l.
Proof. intro H. now inversion H. Qed.

Lemma sorted_head_lt p l q : sorted_anc (p :: l) -> In q l -> fst p < fst q.
Proof.
  intros H Hin. inversion H as [|? ? _ Hall]; subst.
  rewrite Forall_forall in Hall. now apply Hall.
Qed.

(* ------------------------------------------------------------------------------------------ *)
(* P1: anchors *)

Lemma anchor_trough tv c i : mem i (c_troughs c) = true -> anchor tv c i = Some tv.
Proof. intro H. unfold anchor. now rewrite H. Qed.

Lemma anchor_peak tv c i :
  mem i (c_troughs c) = false -> mem i (c_peaks c) = true -> anchor tv c i = Some 0%Z.
Proof. intros H1 H2. unfold anchor. now rewrite H1, H2. Qed.

Lemma anchor_decay tv c i :
  mem i (c_troughs c) = false -> mem i (c_peaks c) = false -> omem i (c_decays c) = true ->
  anchor tv c i = Some 1%Z.
Proof. intros H1 H2 H3. unfold anchor. now rewrite H1, H2, H3. Qed.

Lemma anchor_rise tv c i :
  mem i (c_troughs c) = false -> mem i (c_peaks c) = false -> omem i (c_decays c) = false ->
  omem i (c_rises c) = true -> anchor tv c i = Some (-1)%Z.
Proof. intros H1 H2 H3 H4. unfold anchor. now rewrite H1, H2, H3, H4. Qed.

Lemma anchor_none tv c i :
  mem i (c_troughs c) = false -> mem i (c_peaks c) = false -> omem i (c_decays c) = false ->
  omem i (c_rises c) = false -> anchor tv c i = None.
Proof. intros H1 H2 H3 H4. unfold anchor. now rewrite H1, H2, H3, H4. Qed.

Lemma anchor_values tv c i v :
  anchor tv c i = Some v -> v = tv \/ v = 0%Z \/ v = 1%Z \/ v = (-1)%Z.
Proof.
  unfold anchor. intro H.
  destruct (mem i (c_troughs c)); [inversion H; auto|].
  destruct (mem i (c_peaks c)); [inversion H; auto|].
  destruct (omem i (c_decays c)); [inversion H; auto|].
  destruct (omem i (c_rises c)); [inversion H; auto|discriminate].
Qed.

Lemma anchors_In tv c i v :
  In (i, v) (anchors tv c) <-> i < c_n c /\ anchor tv c i = Some v.
Proof.
  unfold anchors. rewrite in_flat_map. split.
  - intros [j [Hj Hin]]. apply in_seq in Hj.
    destruct (anchor tv c j) eqn:E; cbn in Hin; [|tauto].
    destruct Hin as [Heq|[]]. inversion Heq; subst. split; [lia|assumption].
  - intros [Hi Ha]. exists i. split; [apply in_seq; lia|]. rewrite Ha. now left.
Qed.

Lemma flat_map_seq_sorted (f : nat -> option Z) s n :
  sorted_anc (flat_map (fun i => match f i with Some v => [(i, v)] | None => [] end) (seq s n)).
Proof.
  revert s; induction n as [|n IH]; intro s; cbn [seq flat_map].
  - constructor.
  - destruct (f s) eqn:E; cbn [app].
    + constructor; [apply IH|]. apply Forall_forall. intros [j w] Hin.
      apply in_flat_map in Hin. destruct Hin as [k [Hk Hin]]. apply in_seq in Hk.
      destruct (f k); cbn in Hin; [|tauto].
      destruct Hin as [Heq|[]]; inversion Heq; subst; cbn; lia.
    + apply IH.
Qed.

Lemma anchors_sorted tv c : StronglySorted (fun x y => fst x < fst y) (anchors tv c).
Proof. apply (flat_map_seq_sorted (anchor tv c)). Qed.

(* the +pi series is the -pi series with the trough value -2 replaced by +2 *)
Definition flipv (v : Z) : Z := if (v =? -2)%Z then 2%Z else v.
Definition flipa (p : nat * Z) : nat * Z := (fst p, flipv (snd p)).

Lemma anchor_pi_npi c i : anchor 2 c i = option_map flipv (anchor (-2) c i).
Proof.
  unfold anchor.
  destruct (mem i (c_troughs c)); [reflexivity|].
  destruct (mem i (c_peaks c)); [reflexivity|].
  destruct (omem i (c_decays c)); [reflexivity|].
  destruct (omem i (c_rises c)); reflexivity.
Qed.

Lemma anchors_pi_npi c : anchors 2 c = map flipa (anchors (-2) c).
Proof.
  unfold anchors. induction (seq 0 (c_n c)) as [|i l IH]; [reflexivity|].
  cbn [flat_map]. rewrite map_app, IH. f_equal.
  rewrite anchor_pi_npi. destruct (anchor (-2) c i); reflexivity.
Qed.

Lemma anchors_range c a v : In (a, v) (anchors (-2) c) -> (-2 <= v <= 1)%Z.
Proof.
  intro H. apply anchors_In in H. destruct H as [_ H]. apply anchor_values in H. lia.
Qed.

Lemma anchors_range_pi c a v : In (a, v) (anchors 2 c) -> (-1 <= v <= 2)%Z.
Proof.
  intro H. apply anchors_In in H. destruct H as [_ H]. apply anchor_values in H. lia.
Qed.

Lemma map_flipa_fst l : map fst (map flipa l) = map fst l.
Proof. rewrite map_map. apply map_ext. intros [a v]. reflexivity. Qed.

Lemma sorted_flipa l : sorted_anc l -> sorted_anc (map flipa l).
Proof.
  induction l as [|p l IH]; intro H; cbn [map]; [constructor|].
  inversion H as [|? ? Hs Hall]; subst. constructor; [now apply IH|].
  rewrite Forall_forall in *. intros q Hq. apply in_map_iff in Hq.
  destruct Hq as [q0 [Heq Hq0]]. subst q. destruct p, q0. cbn. now apply (Hall (n0, z0)).
Qed.

Lemma adjacent_flipa x y l : adjacent x y l -> adjacent (flipa x) (flipa y) (map flipa l).
Proof.
  intros [pre [post Hl]]. exists (map flipa pre), (map flipa post). subst l.
  now rewrite map_app.
Qed.

(* ------------------------------------------------------------------------------------------ *)
(* rational arithmetic for the interpolant *)

Definition qn (x : nat) : Q := inject_Z (Z.of_nat x).

Lemma qn_S x : (qn (S x) == qn x + 1)%Q.
Proof.
  unfold qn. rewrite Nat2Z.inj_succ. unfold Z.succ. rewrite inject_Z_plus. reflexivity.
Qed.

Lemma qn_le x y : x <= y -> (qn x <= qn y)%Q.
Proof. intro H. unfold qn. rewrite <- Zle_Qle. lia. Qed.

Lemma qn_lt x y : x < y -> (qn x < qn y)%Q.
Proof. intro H. unfold qn. rewrite <- Zlt_Qlt. lia. Qed.

Lemma qn_sub x a : a <= x -> (qn (x - a) == qn x - qn a)%Q.
Proof.
  intro H. unfold qn. rewrite Nat2Z.inj_sub by assumption.
  unfold Z.sub. rewrite inject_Z_plus, inject_Z_opp. reflexivity.
Qed.

Lemma inject_Z_sub a b : (inject_Z (a - b) == inject_Z a - inject_Z b)%Q.
Proof. unfold Z.sub. rewrite inject_Z_plus, inject_Z_opp. reflexivity. Qed.

Lemma Qltb_true a b : (a < b)%Q -> Qltb a b = true.
Proof.
  intro H. unfold Qltb. destruct (Qle_bool b a) eqn:E; [|reflexivity].
  apply Qle_bool_iff in E. lra.
Qed.

Lemma Qltb_false a b : (b <= a)%Q -> Qltb a b = false.
Proof.
  intro H. unfold Qltb. apply Qle_bool_iff in H. now rewrite H.
Qed.

Lemma Qltb_true_inv a b : Qltb a b = true -> (a < b)%Q.
Proof.
  unfold Qltb. intro H. destruct (Qle_bool b a) eqn:E; [discriminate|].
  destruct (Qlt_le_dec a b) as [Hlt|Hle]; [assumption|].
  apply Qle_bool_iff in Hle. congruence.
Qed.

(* the interpolant of the model, verbatim *)
Definition lin (a0 : nat) (v0 : Z) (a1 : nat) (v1 : Z) (x : nat) : Q :=
  (inject_Z v0 + inject_Z (v1 - v0) * (inject_Z (Z.of_nat (x - a0)) / inject_Z (Z.of_nat (a1 - a0))))%Q.

Definition slope (a0 : nat) (v0 : Z) (a1 : nat) (v1 : Z) : Q :=
  ((inject_Z v1 - inject_Z v0) / (qn a1 - qn a0))%Q.

Lemma lin_slope a0 v0 a1 v1 x : a0 < a1 -> a0 <= x ->
  (lin a0 v0 a1 v1 x == inject_Z v0 + slope a0 v0 a1 v1 * (qn x - qn a0))%Q.
Proof.
  intros H01 Hx. unfold lin, slope.
  change (inject_Z (Z.of_nat (x - a0))) with (qn (x - a0)).
  change (inject_Z (Z.of_nat (a1 - a0))) with (qn (a1 - a0)).
  rewrite inject_Z_sub, (qn_sub x a0) by lia. rewrite (qn_sub a1 a0) by lia.
  assert (Hd : (qn a0 < qn a1)%Q) by now apply qn_lt.
  field. lra.
Qed.

Lemma slope_mul a0 v0 a1 v1 : a0 < a1 ->
  (slope a0 v0 a1 v1 * (qn a1 - qn a0) == inject_Z v1 - inject_Z v0)%Q.
Proof.
  intro H01. unfold slope. assert (Hd : (qn a0 < qn a1)%Q) by now apply qn_lt.
  field. lra.
Qed.

Lemma slope_pos a0 v0 a1 v1 : a0 < a1 -> (v0 < v1)%Z -> (0 < slope a0 v0 a1 v1)%Q.
Proof.
  intros H01 Hv. pose proof (slope_mul a0 v0 a1 v1 H01) as Hm.
  assert (Hd : (qn a0 < qn a1)%Q) by now apply qn_lt.
  assert (Hq : (inject_Z v0 < inject_Z v1)%Q) by now rewrite <- Zlt_Qlt.
  nra.
Qed.

Lemma slope_neg a0 v0 a1 v1 : a0 < a1 -> (v1 < v0)%Z -> (slope a0 v0 a1 v1 < 0)%Q.
Proof.
  intros H01 Hv. pose proof (slope_mul a0 v0 a1 v1 H01) as Hm.
  assert (Hd : (qn a0 < qn a1)%Q) by now apply qn_lt.
  assert (Hq : (inject_Z v1 < inject_Z v0)%Q) by now rewrite <- Zlt_Qlt.
  nra.
Qed.

Lemma lin_at_lo a0 v0 a1 v1 : (lin a0 v0 a1 v1 a0 == inject_Z v0)%Q.
Proof.
  unfold lin. rewrite Nat.sub_diag. cbn [Z.of_nat]. unfold Qdiv.
  change (inject_Z 0) with 0%Q. ring.
Qed.

Lemma lin_at_hi a0 v0 a1 v1 : a0 < a1 -> (lin a0 v0 a1 v1 a1 == inject_Z v1)%Q.
Proof.
  intro H01. rewrite lin_slope by lia. rewrite slope_mul by assumption. ring.
Qed.

Lemma lin_S a0 v0 a1 v1 x : a0 < a1 -> a0 <= x ->
  (lin a0 v0 a1 v1 (S x) == lin a0 v0 a1 v1 x + slope a0 v0 a1 v1)%Q.
Proof.
  intros H01 Hx. rewrite !lin_slope by lia. rewrite qn_S. ring.
Qed.

Lemma lin_diff a0 v0 a1 v1 x y : a0 < a1 -> a0 <= x -> a0 <= y ->
  (lin a0 v0 a1 v1 y - lin a0 v0 a1 v1 x == slope a0 v0 a1 v1 * (qn y - qn x))%Q.
Proof.
  intros H01 Hx Hy. rewrite !lin_slope by lia. ring.
Qed.

Lemma lin_mono_lt a0 v0 a1 v1 x y : a0 < a1 -> (v0 < v1)%Z -> a0 <= x -> x < y ->
  (lin a0 v0 a1 v1 x < lin a0 v0 a1 v1 y)%Q.
Proof.
  intros H01 Hv Hx Hxy. pose proof (lin_diff a0 v0 a1 v1 x y H01 Hx ltac:(lia)) as Hd.
  pose proof (slope_pos a0 v0 a1 v1 H01 Hv) as Hs. pose proof (qn_lt x y Hxy) as Hq.
  nra.
Qed.

Lemma lin_mono_le a0 v0 a1 v1 x y : a0 < a1 -> (v0 <= v1)%Z -> a0 <= x -> x <= y ->
  (lin a0 v0 a1 v1 x <= lin a0 v0 a1 v1 y)%Q.
Proof.
  intros H01 Hv Hx Hxy. pose proof (lin_diff a0 v0 a1 v1 x y H01 Hx ltac:(lia)) as Hd.
  pose proof (slope_mul a0 v0 a1 v1 H01) as Hm.
  assert (Hdq : (qn a0 < qn a1)%Q) by now apply qn_lt.
  assert (Hq : (inject_Z v0 <= inject_Z v1)%Q) by now rewrite <- Zle_Qle.
  pose proof (qn_le x y Hxy) as Hqx.
  assert (Hs : (0 <= slope a0 v0 a1 v1)%Q) by nra.
  nra.
Qed.

Lemma lin_anti_le a0 v0 a1 v1 x y : a0 < a1 -> (v1 <= v0)%Z -> a0 <= x -> x <= y ->
  (lin a0 v0 a1 v1 y <= lin a0 v0 a1 v1 x)%Q.
Proof.
  intros H01 Hv Hx Hxy. pose proof (lin_diff a0 v0 a1 v1 x y H01 Hx ltac:(lia)) as Hd.
  pose proof (slope_mul a0 v0 a1 v1 H01) as Hm.
  assert (Hdq : (qn a0 < qn a1)%Q) by now apply qn_lt.
  assert (Hq : (inject_Z v1 <= inject_Z v0)%Q) by now rewrite <- Zle_Qle.
  pose proof (qn_le x y Hxy) as Hqx.
  assert (Hs : (slope a0 v0 a1 v1 <= 0)%Q) by nra.
  nra.
Qed.

Lemma lin_anti_lt a0 v0 a1 v1 x y : a0 < a1 -> (v1 < v0)%Z -> a0 <= x -> x < y ->
  (lin a0 v0 a1 v1 y < lin a0 v0 a1 v1 x)%Q.
Proof.
  intros H01 Hv Hx Hxy. pose proof (lin_diff a0 v0 a1 v1 x y H01 Hx ltac:(lia)) as Hd.
  pose proof (slope_neg a0 v0 a1 v1 H01 Hv) as Hs. pose proof (qn_lt x y Hxy) as Hq.
  nra.
Qed.

(* on [a0, a1] the interpolant stays between the two anchor values *)
Lemma lin_bounds a0 v0 a1 v1 x lo hi : a0 < a1 -> a0 <= x <= a1 ->
  (lo <= v0 <= hi)%Z -> (lo <= v1 <= hi)%Z ->
  (inject_Z lo <= lin a0 v0 a1 v1 x <= inject_Z hi)%Q.
Proof.
  intros H01 Hx H0 H1.
  pose proof (lin_at_lo a0 v0 a1 v1) as Hlo. pose proof (lin_at_hi a0 v0 a1 v1 H01) as Hhi.
  assert (Q0 : (inject_Z lo <= inject_Z v0 <= inject_Z hi)%Q) by (rewrite <- !Zle_Qle; lia).
  assert (Q1 : (inject_Z lo <= inject_Z v1 <= inject_Z hi)%Q) by (rewrite <- !Zle_Qle; lia).
  destruct (Z_le_gt_dec v0 v1) as [Hle|Hgt].
  - pose proof (lin_mono_le a0 v0 a1 v1 a0 x H01 Hle ltac:(lia) ltac:(lia)).
    pose proof (lin_mono_le a0 v0 a1 v1 x a1 H01 Hle ltac:(lia) ltac:(lia)). lra.
  - pose proof (lin_anti_le a0 v0 a1 v1 a0 x H01 ltac:(lia) ltac:(lia) ltac:(lia)).
    pose proof (lin_anti_le a0 v0 a1 v1 x a1 H01 ltac:(lia) ltac:(lia) ltac:(lia)). lra.
Qed.

(* the readable closed form requested in the specification *)
Lemma lin_closed_form a0 v0 a1 v1 x : a0 < a1 -> a0 <= x ->
  (lin a0 v0 a1 v1 x ==
   inject_Z v0 + (inject_Z v1 - inject_Z v0) * (qn x - qn a0) / (qn a1 - qn a0))%Q.
Proof.
  intros H01 Hx. rewrite lin_slope by lia. unfold slope.
  assert (Hd : (qn a0 < qn a1)%Q) by now apply qn_lt.
  field. lra.
Qed.

(* ------------------------------------------------------------------------------------------ *)
(* P2: interpolation *)

Lemma interp_at_anchor_gen anc : sorted_anc anc -> forall a v prev,
  In (a, v) anc -> interp_at prev anc a = Some (inject_Z v).
Proof.
  induction anc as [|[a' v'] rest IH]; intros Hs a v prev Hin; [destruct Hin|].
  cbn [interp_at]. destruct Hin as [Heq|Hin].
  - inversion Heq; subst. rewrite Nat.ltb_irrefl, Nat.eqb_refl. reflexivity.
  - pose proof (sorted_head_lt _ _ _ Hs Hin) as Hlt. cbn [fst] in Hlt.
    destruct (a <? a') eqn:E1; [apply Nat.ltb_lt in E1; lia|].
    destruct (a =? a') eqn:E2; [apply Nat.eqb_eq in E2; lia|].
    apply IH; [now apply sorted_tail in Hs|assumption].
Qed.

Lemma interp_at_anchor anc a v : sorted_anc anc ->
  In (a, v) anc -> interp_at None anc a = Some (inject_Z v).
Proof. intros Hs Hin. now apply interp_at_anchor_gen. Qed.

Lemma interp_at_strict_gen a0 v0 a1 v1 post x : a0 < x < a1 -> forall pre prev,
  sorted_anc (pre ++ (a0, v0) :: (a1, v1) :: post) ->
  interp_at prev (pre ++ (a0, v0) :: (a1, v1) :: post) x = Some (lin a0 v0 a1 v1 x).
Proof.
  intros Hx. induction pre as [|[a v] pre IH]; intros prev Hs.
  - cbn [app interp_at].
    destruct (x <? a0) eqn:E1; [apply Nat.ltb_lt in E1; lia|].
    destruct (x =? a0) eqn:E2; [apply Nat.eqb_eq in E2; lia|].
    destruct (x <? a1) eqn:E3; [|apply Nat.ltb_ge in E3; lia].
    reflexivity.
  - cbn [app interp_at].
    assert (Hlt : a < a0).
    { apply (sorted_head_lt _ _ (a0, v0) Hs). apply in_or_app. right. now left. }
    destruct (x <? a) eqn:E1; [apply Nat.ltb_lt in E1; lia|].
    destruct (x =? a) eqn:E2; [apply Nat.eqb_eq in E2; lia|].
    apply IH. now apply sorted_tail in Hs.
Qed.

(* between two consecutive anchors: the straight line through them *)
Lemma interp_at_between anc a0 v0 a1 v1 x : sorted_anc anc ->
  adjacent (a0, v0) (a1, v1) anc -> a0 <= x <= a1 ->
  exists q, interp_at None anc x = Some q /\ (q == lin a0 v0 a1 v1 x)%Q.
Proof.
  intros Hs Hadj Hx. pose proof (adjacent_In _ _ _ Hadj) as [Hin0 Hin1].
  assert (H01 : a0 < a1).
  { destruct Hadj as [pre [post Hl]]. subst anc. clear - Hs.
    induction pre as [|p pre IH]; cbn [app] in Hs.
    - apply (sorted_head_lt _ _ (a1, v1) Hs). now left.
    - apply IH. now apply sorted_tail in Hs. }
  destruct (Nat.eq_dec x a0) as [E0|N0].
  { subst x. exists (inject_Z v0). split; [now apply interp_at_anchor|].
    symmetry. apply lin_at_lo. }
  destruct (Nat.eq_dec x a1) as [E1|N1].
  { subst x. exists (inject_Z v1). split; [now apply interp_at_anchor|].
    symmetry. now apply lin_at_hi. }
  exists (lin a0 v0 a1 v1 x). split; [|reflexivity].
  destruct Hadj as [pre [post Hl]]. subst anc. apply interp_at_strict_gen; [lia|assumption].
Qed.

Lemma interp_at_between_closed_form anc a0 v0 a1 v1 x : sorted_anc anc ->
  adjacent (a0, v0) (a1, v1) anc -> a0 <= x <= a1 ->
  exists q, interp_at None anc x = Some q /\
    (q == inject_Z v0 + (inject_Z v1 - inject_Z v0) * (qn x - qn a0) / (qn a1 - qn a0))%Q.
Proof.
  intros Hs Hadj Hx. destruct (interp_at_between anc a0 v0 a1 v1 x Hs Hadj Hx) as [q [Hq Heq]].
  exists q. split; [assumption|]. rewrite Heq.
  destruct (Nat.eq_dec a0 a1) as [E|N].
  - subst a1. assert (x = a0) by lia. subst x. rewrite lin_at_lo.
    unfold Qdiv. ring.
  - apply lin_closed_form; lia.
Qed.

(* hence between v0 and v1 ... *)
Lemma interp_at_between_bounds anc a0 v0 a1 v1 x lo hi : sorted_anc anc ->
  adjacent (a0, v0) (a1, v1) anc -> a0 <= x <= a1 ->
  (lo <= v0 <= hi)%Z -> (lo <= v1 <= hi)%Z ->
  exists q, interp_at None anc x = Some q /\ (inject_Z lo <= q <= inject_Z hi)%Q.
Proof.
  intros Hs Hadj Hx H0 H1.
  destruct (interp_at_between anc a0 v0 a1 v1 x Hs Hadj Hx) as [q [Hq Heq]].
  exists q. split; [assumption|]. rewrite Heq.
  destruct (Nat.eq_dec a0 a1) as [E|N].
  - subst a1. assert (x = a0) by lia. subst x. rewrite lin_at_lo. rewrite <- !Zle_Qle. lia.
  - apply lin_bounds; lia.
Qed.

(* ... and monotone in x in the direction of sign (v1 - v0) *)
Lemma interp_at_between_mono anc a0 v0 a1 v1 x y qx qy : sorted_anc anc ->
  adjacent (a0, v0) (a1, v1) anc -> a0 <= x -> x <= y -> y <= a1 ->
  interp_at None anc x = Some qx -> interp_at None anc y = Some qy ->
  ((v0 <= v1)%Z -> (qx <= qy)%Q) /\ ((v1 <= v0)%Z -> (qy <= qx)%Q) /\
  ((v0 < v1)%Z -> x < y -> (qx < qy)%Q) /\ ((v1 < v0)%Z -> x < y -> (qy < qx)%Q).
Proof.
  intros Hs Hadj H0x Hxy Hy1 Hqx Hqy.
  destruct (interp_at_between anc a0 v0 a1 v1 x Hs Hadj ltac:(lia)) as [q1 [Hq1 He1]].
  destruct (interp_at_between anc a0 v0 a1 v1 y Hs Hadj ltac:(lia)) as [q2 [Hq2 He2]].
  rewrite Hqx in Hq1. rewrite Hqy in Hq2. inversion Hq1; inversion Hq2; subst q1 q2.
  rewrite He1, He2.
  destruct (Nat.eq_dec x y) as [E|N].
  { subst y. repeat split; intros; try lia; lra. }
  assert (H01 : a0 < a1) by lia.
  repeat split; intros.
  - apply lin_mono_le; lia.
  - apply lin_anti_le; lia.
  - apply lin_mono_lt; lia.
  - apply lin_anti_lt; lia.
Qed.

(* constant extension beyond the ends *)
Lemma interp_at_before a v rest x : x <= a ->
  interp_at None ((a, v) :: rest) x = Some (inject_Z v).
Proof.
  intro Hx. cbn [interp_at]. destruct (x <? a) eqn:E1; [reflexivity|].
  apply Nat.ltb_ge in E1. assert (x = a) by lia. subst x. now rewrite Nat.eqb_refl.
Qed.

Lemma interp_at_after_gen a v x : a <= x -> forall pre prev,
  sorted_anc (pre ++ [(a, v)]) -> interp_at prev (pre ++ [(a, v)]) x = Some (inject_Z v).
Proof.
  intro Hx. induction pre as [|[a' v'] pre IH]; intros prev Hs.
  - cbn [app interp_at]. destruct (x <? a) eqn:E1; [apply Nat.ltb_lt in E1; lia|].
    destruct (x =? a); reflexivity.
  - cbn [app interp_at].
    assert (Hlt : a' < a).
    { apply (sorted_head_lt _ _ (a, v) Hs). apply in_or_app. right. now left. }
    destruct (x <? a') eqn:E1; [apply Nat.ltb_lt in E1; lia|].
    destruct (x =? a') eqn:E2; [apply Nat.eqb_eq in E2; lia|].
    apply IH. now apply sorted_tail in Hs.
Qed.

Lemma interp_at_after pre a v x : sorted_anc (pre ++ [(a, v)]) -> a <= x ->
  interp_at None (pre ++ [(a, v)]) x = Some (inject_Z v).
Proof. intros Hs Hx. now apply interp_at_after_gen. Qed.

(* the interpolant never leaves the range of the anchor values (no sortedness needed) *)
Lemma interp_at_range_gen lo hi x : forall anc prev q,
  (forall a v, In (a, v) anc -> (lo <= v <= hi)%Z) ->
  match prev with Some (a0, v0) => a0 < x /\ (lo <= v0 <= hi)%Z | None => True end ->
  interp_at prev anc x = Some q -> (inject_Z lo <= q <= inject_Z hi)%Q.
Proof.
  induction anc as [|[a v] rest IH]; intros prev q Hall Hprev Hq.
  - cbn [interp_at] in Hq. destruct prev as [[a0 v0]|]; [|discriminate].
    inversion Hq; subst q. rewrite <- !Zle_Qle. lia.
  - cbn [interp_at] in Hq.
    assert (Hv : (lo <= v <= hi)%Z) by (apply (Hall a); now left).
    destruct (x <? a) eqn:E1.
    + apply Nat.ltb_lt in E1. destruct prev as [[a0 v0]|].
      * inversion Hq; subst q. apply (lin_bounds a0 v0 a v x lo hi); lia.
      * inversion Hq; subst q. rewrite <- !Zle_Qle. lia.
    + apply Nat.ltb_ge in E1. destruct (x =? a) eqn:E2.
      * inversion Hq; subst q. rewrite <- !Zle_Qle. lia.
      * apply Nat.eqb_neq in E2. apply (IH (Some (a, v)) q); [|split; [lia|assumption]|assumption].
        intros a' v' Hin. apply (Hall a'). now right.
Qed.

Lemma interp_range anc lo hi x q :
  (forall a v, In (a, v) anc -> (lo <= v <= hi)%Z) -> anc <> [] ->
  interp_at None anc x = Some q -> (inject_Z lo <= q <= inject_Z hi)%Q.
Proof.
  intros Hall _ Hq. now apply (interp_at_range_gen lo hi x anc None q).
Qed.

Lemma interp_at_some anc x : anc <> [] -> exists q, interp_at None anc x = Some q.
Proof.
  intro Hne. destruct anc as [|[a v] rest]; [congruence|]. clear Hne.
  assert (G : forall l prev, (prev <> None \/ l <> []) -> exists q, interp_at prev l x = Some q).
  { induction l as [|[a' v'] l IH]; intros prev Hp.
    - cbn. destruct prev as [[a0 v0]|]; [eauto|]. destruct Hp; congruence.
    - cbn [interp_at]. destruct (x <? a').
      + destruct prev as [[a0 v0]|]; eauto.
      + destruct (x =? a'); [eauto|]. apply IH. left. discriminate. }
  apply G. right. discriminate.
Qed.

Lemma interp_err anc n : interp anc n = Err EValue <-> anc = [].
Proof.
  unfold interp. destruct anc; split; intro H; try reflexivity; discriminate.
Qed.

Lemma interp_ok anc n : anc <> [] ->
  interp anc n = Ok (map (fun x => match interp_at None anc x with Some q => q | None => 0%Q end) (seq 0 n)).
Proof. intro H. destruct anc; [congruence|reflexivity]. Qed.

Lemma interp_length anc n l : interp anc n = Ok l -> length l = n.
Proof.
  unfold interp. destruct anc; [discriminate|]. intro H. inversion H; subst l.
  now rewrite map_length, seq_length.
Qed.

(* ------------------------------------------------------------------------------------------ *)
(* list plumbing: nth over map/seq, masks, find_idx *)

Lemma nth_map_seq {A} (f : nat -> A) d n i : i < n -> nth i (map f (seq 0 n)) d = f i.
Proof.
  intro H. rewrite nth_indep with (d' := f 0) by (rewrite map_length, seq_length; lia).
  rewrite (map_nth f (seq 0 n) 0 i). now rewrite seq_nth.
Qed.

Lemma qnth_map_seq f n i : i < n -> qnth (map f (seq 0 n)) i = f i.
Proof. apply nth_map_seq. Qed.

Lemma onth_some_map_seq f n i :
  onth (map Some (map f (seq 0 n))) i = if i <? n then Some (f i) else None.
Proof.
  unfold onth. rewrite map_map. destruct (i <? n) eqn:E.
  - apply Nat.ltb_lt in E. now rewrite nth_map_seq.
  - apply Nat.ltb_ge in E. apply nth_overflow. now rewrite map_length, seq_length.
Qed.

Lemma mask_before_gen k l : forall s i,
  nth i (map (fun ix : nat * option Q => if fst ix <? k then None else snd ix)
             (combine (seq s (length l)) l)) None
  = if s + i <? k then None else nth i l None.
Proof.
  induction l as [|x l IH]; intros s i.
  - cbn [length seq combine map]. destruct (s + i <? k); destruct i; reflexivity.
  - cbn [length seq combine map]. destruct i as [|i].
    + cbn [nth fst snd]. now rewrite Nat.add_0_r.
    + cbn [nth]. rewrite IH. now replace (S s + i) with (s + S i) by lia.
Qed.

Lemma onth_mask_before k l i : onth (mask_before k l) i = if i <? k then None else onth l i.
Proof. unfold onth, mask_before. now rewrite mask_before_gen. Qed.

Lemma mask_from_gen k l : forall s i,
  nth i (map (fun ix : nat * option Q => if k <=? fst ix then None else snd ix)
             (combine (seq s (length l)) l)) None
  = if k <=? s + i then None else nth i l None.
Proof.
  induction l as [|x l IH]; intros s i.
  - cbn [length seq combine map]. destruct (k <=? s + i); destruct i; reflexivity.
  - cbn [length seq combine map]. destruct i as [|i].
    + cbn [nth fst snd]. now rewrite Nat.add_0_r.
    + cbn [nth]. rewrite IH. now replace (S s + i) with (s + S i) by lia.
Qed.

Lemma onth_mask_from k l i : onth (mask_from k l) i = if k <=? i then None else onth l i.
Proof. unfold onth, mask_from. now rewrite mask_from_gen. Qed.

Lemma mask_before_length k l : length (mask_before k l) = length l.
Proof. unfold mask_before. rewrite map_length, combine_length, seq_length. lia. Qed.

Lemma mask_from_length k l : length (mask_from k l) = length l.
Proof. unfold mask_from. rewrite map_length, combine_length, seq_length. lia. Qed.

Lemma merge_length tpi tnpi : length (merge tpi tnpi) = length tnpi.
Proof. unfold merge. now rewrite map_length, seq_length. Qed.

Lemma find_idx_seq p : forall k s m, k < m ->
  (forall j, j < k -> p (s + j) = false) -> p (s + k) = true ->
  find_idx p (seq s m) = Some (s + k).
Proof.
  induction k as [|k IH]; intros s m Hk Hf Ht.
  - destruct m as [|m]; [lia|]. cbn [seq find_idx]. rewrite Nat.add_0_r in Ht. rewrite Ht.
    now rewrite Nat.add_0_r.
  - destruct m as [|m]; [lia|]. cbn [seq find_idx].
    pose proof (Hf 0 ltac:(lia)) as H0. rewrite Nat.add_0_r in H0. rewrite H0.
    replace (s + S k) with (S s + k) by lia. apply IH; [lia| |].
    + intros j Hj. replace (S s + j) with (s + S j) by lia. apply Hf. lia.
    + now replace (S s + k) with (s + S k) by lia.
Qed.

Lemma find_idx_seq0 p k m : k < m ->
  (forall j, j < k -> p j = false) -> p k = true -> find_idx p (seq 0 m) = Some k.
Proof. intros Hk Hf Ht. now apply (find_idx_seq p k 0 m). Qed.

(* ------------------------------------------------------------------------------------------ *)
(* shape of the result, without any well-formedness: P3 (range) and P4 (length) *)

Definition samp (anc : list (nat * Z)) (x : nat) : Q :=
  match interp_at None anc x with Some q => q | None => 0%Q end.

Lemma interp_inv anc n l : interp anc n = Ok l -> anc <> [] /\ l = map (samp anc) (seq 0 n).
Proof.
  unfold interp. destruct anc; [discriminate|]. intro H. inversion H. split; [discriminate|reflexivity].
Qed.

Lemma merge_phases_shape tpi tnpi ph : merge_phases tpi tnpi = Ok ph ->
  exists f k, ph = mask_from k (mask_before f (map Some (merge tpi tnpi))).
Proof.
  unfold merge_phases. cbv zeta.
  destruct (find_idx _ _) as [f|]; [|discriminate].
  destruct (find_idx _ _) as [k|]; [|discriminate].
  intro H. inversion H. eauto.
Qed.

Lemma phase_inv c ph : phase c = Ok ph ->
  anchors 2 c <> [] /\ anchors (-2) c <> [] /\
  merge_phases (map (samp (anchors 2 c)) (seq 0 (c_n c)))
               (map (samp (anchors (-2) c)) (seq 0 (c_n c))) = Ok ph.
Proof.
  unfold phase, phase_gen. intro H.
  destruct (interp (anchors 2 c) (c_n c)) as [tpi|] eqn:Ep; [|discriminate]. cbn [bind] in H.
  destruct (interp (anchors (-2) c) (c_n c)) as [tnpi|] eqn:En; [|discriminate]. cbn [bind] in H.
  apply interp_inv in Ep. apply interp_inv in En. destruct Ep as [Hp ->]. destruct En as [Hn ->].
  auto.
Qed.

Lemma samp_range anc lo hi x : (lo <= 0 <= hi)%Z ->
  (forall a v, In (a, v) anc -> (lo <= v <= hi)%Z) ->
  (inject_Z lo <= samp anc x <= inject_Z hi)%Q.
Proof.
  intros H0 Hall. unfold samp. destruct (interp_at None anc x) as [q|] eqn:E.
  - now apply (interp_at_range_gen lo hi x anc None q).
  - change 0%Q with (inject_Z 0). rewrite <- !Zle_Qle. lia.
Qed.

Theorem phase_range c ph i q : phase c = Ok ph -> onth ph i = Some q -> (-2 <= q <= 2)%Q.
Proof.
  intros Hph Hi. apply phase_inv in Hph. destruct Hph as [_ [_ Hm]].
  apply merge_phases_shape in Hm. destruct Hm as [f [k ->]].
  rewrite onth_mask_from in Hi. destruct (k <=? i); [discriminate|].
  rewrite onth_mask_before in Hi. destruct (i <? f); [discriminate|].
  unfold merge in Hi. rewrite onth_some_map_seq in Hi.
  rewrite map_length, seq_length in Hi.
  destruct (i <? c_n c) eqn:Ei; [|discriminate]. apply Nat.ltb_lt in Ei.
  inversion Hi as [Hq]. clear Hi Hq.
  change (-2)%Q with (inject_Z (-2)). change 2%Q with (inject_Z 2).
  destruct (_ && _); rewrite qnth_map_seq by assumption.
  - apply samp_range; [lia|]. intros a v Hin. apply anchors_range_pi in Hin. lia.
  - apply samp_range; [lia|]. intros a v Hin. apply anchors_range in Hin. lia.
Qed.

Theorem phase_length c ph : phase c = Ok ph -> length ph = c_n c.
Proof.
  intros Hph. apply phase_inv in Hph. destruct Hph as [_ [_ Hm]].
  apply merge_phases_shape in Hm. destruct Hm as [f [k ->]].
  now rewrite mask_from_length, mask_before_length, map_length, merge_length, map_length, seq_length.
Qed.

(* ------------------------------------------------------------------------------------------ *)
(* well-formed cyclepoints: along the sorted anchor list of the -pi series every consecutive
   pair either advances the phase (v0 < v1) or wraps into a trough (v1 = -2 from v0 >= 0) *)

Fixpoint wf_anc (anc : list (nat * Z)) : Prop :=
  match anc with
  | (a0, v0) :: (((a1, v1) :: _) as t) =>
      a0 < a1 /\ (-2 <= v0 <= 1)%Z /\ ((v0 < v1)%Z \/ (v1 = -2 /\ 0 <= v0)%Z) /\ wf_anc t
  | [(a0, v0)] => (-2 <= v0 <= 1)%Z
  | [] => True
  end.

(* "the very first step, if it goes INTO a trough, spans at least two samples".  This used to be a
   third clause of wf_cps: the start mask before its repair looked for the first INCREASING step
   and so began one sample late when the first step was a one-sample wrap.  The repaired start
   mask (first non-zero step) does not need it; it is kept only to describe where the legacy start
   mask goes wrong (phase_legacy_start_refuted). *)
Definition first_gap (anc : list (nat * Z)) : Prop :=
  match anc with
  | (a0, _) :: (a1, v1) :: _ => v1 = (-2)%Z -> a0 + 2 <= a1
  | _ => True
  end.

Definition wf_cps (c : cps) : Prop :=
  wf_anc (anchors (-2) c) /\ 2 <= length (anchors (-2) c).

(* the precondition in the form suggested by the property text (every step into a trough spans
   two samples) is stronger than what is needed *)
Definition wf_cps_all_gaps (c : cps) : Prop :=
  wf_anc (anchors (-2) c) /\ 2 <= length (anchors (-2) c) /\
  (forall a0 v0 a1, adjacent (a0, v0) (a1, (-2)%Z) (anchors (-2) c) -> a0 + 2 <= a1).

Lemma wf_cps_all_gaps_wf c : wf_cps_all_gaps c -> wf_cps c.
Proof.
  intros [Hwf [Hlen _]]. split; assumption.
Qed.

Lemma wf_anc_tail p l : wf_anc (p :: l) -> wf_anc l.
Proof.
  destruct p as [a0 v0]. destruct l as [|[a1 v1] t]; [intros _; exact I|].
  intros [_ [_ [_ H]]]. exact H.
Qed.

Lemma wf_anc_hd a v l : wf_anc ((a, v) :: l) -> (-2 <= v <= 1)%Z.
Proof.
  destruct l as [|[a1 v1] t]; [auto|]. intros [_ [H _]]. exact H.
Qed.

Lemma wf_anc_adj anc a0 v0 a1 v1 : wf_anc anc -> adjacent (a0, v0) (a1, v1) anc ->
  a0 < a1 /\ (-2 <= v0 <= 1)%Z /\ (-2 <= v1 <= 1)%Z /\ ((v0 < v1)%Z \/ (v1 = -2 /\ 0 <= v0)%Z).
Proof.
  intros Hwf [pre [post Hl]]. subst anc. induction pre as [|p pre IH].
  - cbn [app] in Hwf. destruct Hwf as [H1 [H2 [H3 H4]]]. apply wf_anc_hd in H4. auto.
  - apply IH. now apply wf_anc_tail in Hwf.
Qed.

(* ------------------------------------------------------------------------------------------ *)
(* P8: the end mask before the repair is refuted on concrete inputs *)

Definition ex_short : cps :=
  {| c_n := 3; c_peaks := [0]; c_troughs := [2]; c_rises := None; c_decays := None |}.
Definition ex_two : cps :=
  {| c_n := 20; c_peaks := [6; 14]; c_troughs := [2; 10]; c_rises := None; c_decays := None |}.
Definition ex_full : cps :=
  {| c_n := 20; c_peaks := [6; 14]; c_troughs := [2; 10];
     c_rises := Some [4; 12]; c_decays := Some [8] |}.

Theorem phase_legacy_refuted_all_nan :
  phase_legacy {| c_n := 3; c_peaks := [0]; c_troughs := [2]; c_rises := None; c_decays := None |}
    = Ok [None; None; None] /\
  phase {| c_n := 3; c_peaks := [0]; c_troughs := [2]; c_rises := None; c_decays := None |}
    = Ok [Some 0%Q; Some (2 # 2)%Q; Some (-2)%Q] /\
  ((2 # 2) == 1)%Q.
Proof. split; [|split]; vm_compute; reflexivity. Qed.

Theorem phase_legacy_refuted_extra_sample :
  rmap (fun l => onth l 15) (phase_legacy ex_two) = Ok (Some 0%Q) /\
  rmap (fun l => onth l 15) (phase ex_two) = Ok None /\
  last (map fst (anchors (-2) ex_two)) 0 = 14.
Proof. split; [|split]; vm_compute; reflexivity. Qed.

Example phase_two :
  phase ex_two = Ok
    [None; None; Some (-2)%Q; Some (-6 # 4)%Q; Some (-4 # 4)%Q; Some (-2 # 4)%Q; Some 0%Q;
     Some (2 # 4)%Q; Some (4 # 4)%Q; Some (6 # 4)%Q; Some (-2)%Q; Some (-6 # 4)%Q;
     Some (-4 # 4)%Q; Some (-2 # 4)%Q; Some 0%Q; None; None; None; None; None].
Proof. vm_compute. reflexivity. Qed.

Example phase_legacy_two :
  phase_legacy ex_two = Ok
    [None; None; Some (-2)%Q; Some (-6 # 4)%Q; Some (-4 # 4)%Q; Some (-2 # 4)%Q; Some 0%Q;
     Some (2 # 4)%Q; Some (4 # 4)%Q; Some (6 # 4)%Q; Some (-2)%Q; Some (-6 # 4)%Q;
     Some (-4 # 4)%Q; Some (-2 # 4)%Q; Some 0%Q; Some 0%Q; None; None; None; None].
Proof. vm_compute. reflexivity. Qed.

(* ------------------------------------------------------------------------------------------ *)
(* P9: the precondition is inhabited *)

Example wf_example :
  wf_cps {| c_n := 20; c_peaks := [6; 14]; c_troughs := [2; 10];
            c_rises := Some [4; 12]; c_decays := Some [8] |}.
Proof.
  unfold wf_cps.
  match goal with |- context [anchors ?tv ?c] =>
    let a := eval vm_compute in (anchors tv c) in change (anchors tv c) with a end.
  cbn [wf_anc length]. repeat split; lia.
Qed.

Example wf_example_all_gaps : wf_cps_all_gaps ex_full.
Proof.
  split; [|split]; try apply wf_example.
  intros a0 v0 a1 [pre [post H]]. vm_compute in H.
  repeat (destruct pre as [|? pre];
          [cbn [app] in H; inversion H; subst; try lia; try discriminate|
           cbn [app] in H; try discriminate; injection H as _ H]).
  all: try (destruct pre; cbn in H; discriminate).
Qed.

Example phase_example :
  phase ex_full = Ok
    [None; None; Some (-2)%Q; Some (-3 # 2)%Q; Some (-1)%Q; Some (-1 # 2)%Q; Some 0%Q;
     Some (1 # 2)%Q; Some 1%Q; Some (3 # 2)%Q; Some (-2)%Q; Some (-3 # 2)%Q; Some (-1)%Q;
     Some (-1 # 2)%Q; Some 0%Q; None; None; None; None; None].
Proof. vm_compute. reflexivity. Qed.

(* ------------------------------------------------------------------------------------------ *)
(* the merged series on a well-formed anchor list *)

Definition mg (anc : list (nat * Z)) (n i : nat) : Q :=
  if (S i <? n) && Qltb (samp anc (S i)) (samp anc i) then samp (map flipa anc) i else samp anc i.

Lemma flipv_id v : (v <> -2)%Z -> flipv v = v.
Proof.
  intro H. unfold flipv. destruct (v =? -2)%Z eqn:E; [apply Z.eqb_eq in E; lia|reflexivity].
Qed.

Lemma locate l : forall (p : nat * Z) x d, fst p <= x < fst (last (p :: l) d) ->
  exists a0 v0 a1 v1, adjacent (a0, v0) (a1, v1) (p :: l) /\ a0 <= x < a1.
Proof.
  induction l as [|q l IH]; intros p x d Hx.
  - cbn in Hx. lia.
  - destruct (lt_dec x (fst q)) as [Hlt|Hge].
    + exists (fst p), (snd p), (fst q), (snd q). split; [|lia].
      exists [], l. destruct p, q. reflexivity.
    + change (last (p :: q :: l) d) with (last (q :: l) d) in Hx.
      destruct (IH q x d ltac:(lia)) as [a0 [v0 [a1 [v1 [Hadj Hr]]]]].
      exists a0, v0, a1, v1. split; [now apply adjacent_cons|assumption].
Qed.

Lemma merge_eq anc n :
  merge (map (samp (map flipa anc)) (seq 0 n)) (map (samp anc) (seq 0 n)) = map (mg anc n) (seq 0 n).
Proof.
  unfold merge. rewrite map_length, seq_length. apply map_ext_in. intros i Hi.
  apply in_seq in Hi. rewrite !(qnth_map_seq _ n i) by lia. unfold mg.
  destruct (S i <? n) eqn:E; [|reflexivity].
  apply Nat.ltb_lt in E. now rewrite qnth_map_seq by assumption.
Qed.

Lemma step_pha f n i :
  step (map Some (map f (seq 0 n))) i = if S i <? n then Some (f (S i) - f i)%Q else None.
Proof.
  unfold step. rewrite !onth_some_map_seq.
  destruct (S i <? n) eqn:E.
  - apply Nat.ltb_lt in E. assert (E' : i <? n = true) by (apply Nat.ltb_lt; lia). now rewrite E'.
  - now destruct (i <? n).
Qed.

Lemma step_mask_before k l i :
  step (mask_before k l) i = if i <? k then None else step l i.
Proof.
  unfold step. rewrite !onth_mask_before. destruct (i <? k) eqn:E; [reflexivity|].
  apply Nat.ltb_ge in E. assert (E' : S i <? k = false) by (apply Nat.ltb_ge; lia). now rewrite E'.
Qed.

Section Merge.
Variable anc : list (nat * Z).
Variable n : nat.
Hypothesis Hs : sorted_anc anc.
Hypothesis Hwf : wf_anc anc.
Hypothesis Hn : forall a v, In (a, v) anc -> a < n.

Lemma samp_between a0 v0 a1 v1 x : adjacent (a0, v0) (a1, v1) anc -> a0 <= x <= a1 ->
  (samp anc x == lin a0 v0 a1 v1 x)%Q.
Proof.
  intros Hadj Hx. destruct (interp_at_between anc a0 v0 a1 v1 x Hs Hadj Hx) as [q [Hq Heq]].
  unfold samp. now rewrite Hq.
Qed.

Lemma sampp_between a0 v0 a1 v1 x : adjacent (a0, v0) (a1, v1) anc -> a0 <= x <= a1 ->
  (samp (map flipa anc) x == lin a0 (flipv v0) a1 (flipv v1) x)%Q.
Proof.
  intros Hadj Hx. apply adjacent_flipa in Hadj. cbn [flipa fst snd] in Hadj.
  destruct (interp_at_between _ _ _ _ _ x (sorted_flipa _ Hs) Hadj Hx) as [q [Hq Heq]].
  unfold samp. now rewrite Hq.
Qed.

Lemma samp_after pre L vL x : anc = pre ++ [(L, vL)] -> L <= x -> samp anc x = inject_Z vL.
Proof.
  intros Hd Hx. unfold samp. rewrite Hd. rewrite interp_at_after; [reflexivity| |assumption].
  now rewrite <- Hd.
Qed.

Lemma samp_before F vF rest x : anc = (F, vF) :: rest -> x <= F -> samp anc x = inject_Z vF.
Proof.
  intros Hd Hx. unfold samp. rewrite Hd. now rewrite interp_at_before.
Qed.

(* on every inter-anchor interval [a0, a1) the merged series is the straight line from v0 towards
   v1 (advancing step) or towards +2 (step into a trough) *)
Lemma mg_interval a0 v0 a1 v1 x : adjacent (a0, v0) (a1, v1) anc -> a0 <= x < a1 ->
  (mg anc n x == lin a0 v0 a1 (flipv v1) x)%Q.
Proof.
  intros Hadj Hx. destruct (wf_anc_adj _ _ _ _ _ Hwf Hadj) as [H01 [R0 [R1 Hcase]]].
  assert (Ha1 : a1 < n) by (apply (Hn a1 v1); apply (adjacent_In _ _ _ Hadj)).
  pose proof (samp_between _ _ _ _ x Hadj ltac:(lia)) as Ex.
  pose proof (samp_between _ _ _ _ (S x) Hadj ltac:(lia)) as ESx.
  pose proof (lin_S a0 v0 a1 v1 x H01 ltac:(lia)) as HS.
  unfold mg. destruct Hcase as [Hadv|[Hv1 Hv0]].
  - rewrite (flipv_id v1) by lia.
    pose proof (slope_pos a0 v0 a1 v1 H01 Hadv) as Hsl.
    rewrite (Qltb_false (samp anc (S x)) (samp anc x)) by lra. rewrite andb_false_r. exact Ex.
  - subst v1. pose proof (slope_neg a0 v0 a1 (-2) H01 ltac:(lia)) as Hsl.
    rewrite (Qltb_true (samp anc (S x)) (samp anc x)) by lra.
    assert (E : S x <? n = true) by (apply Nat.ltb_lt; lia). rewrite E. cbn [andb].
    pose proof (sampp_between _ _ _ _ x Hadj ltac:(lia)) as Ep.
    rewrite (flipv_id v0) in Ep by lia. exact Ep.
Qed.

Lemma mg_after pre L vL x : anc = pre ++ [(L, vL)] -> L <= x -> mg anc n x = inject_Z vL.
Proof.
  intros Hd Hx. unfold mg.
  rewrite (samp_after pre L vL (S x) Hd) by lia. rewrite (samp_after pre L vL x Hd) by lia.
  rewrite Qltb_false by apply Qle_refl. now rewrite andb_false_r.
Qed.

Lemma mg_before F vF rest x : anc = (F, vF) :: rest -> x < F -> mg anc n x = inject_Z vF.
Proof.
  intros Hd Hx. unfold mg.
  rewrite (samp_before F vF rest (S x) Hd) by lia. rewrite (samp_before F vF rest x Hd) by lia.
  rewrite Qltb_false by apply Qle_refl. now rewrite andb_false_r.
Qed.

Lemma mg_anchor a v : In (a, v) anc -> (mg anc n a == inject_Z v)%Q.
Proof.
  intro Hin. destruct (in_adjacent_or_last _ _ Hin) as [[[a1 v1] Hadj]|[pre Hd]].
  - destruct (wf_anc_adj _ _ _ _ _ Hwf Hadj) as [H01 _].
    rewrite (mg_interval a v a1 v1 a Hadj) by lia. apply lin_at_lo.
  - rewrite (mg_after pre a v a Hd) by lia. reflexivity.
Qed.

Lemma flipv_gt a0 v0 a1 v1 : adjacent (a0, v0) (a1, v1) anc -> (v0 < flipv v1)%Z.
Proof.
  intro Hadj. destruct (wf_anc_adj _ _ _ _ _ Hwf Hadj) as [H01 [R0 [R1 Hcase]]].
  destruct Hcase as [Hadv|[Hv1 Hv0]].
  - rewrite flipv_id; lia.
  - subst v1. cbn. lia.
Qed.

Lemma mg_step_inner a0 v0 a1 v1 x : adjacent (a0, v0) (a1, v1) anc -> a0 <= x -> S x < a1 ->
  (mg anc n x < mg anc n (S x))%Q.
Proof.
  intros Hadj H0 H1. destruct (wf_anc_adj _ _ _ _ _ Hwf Hadj) as [H01 _].
  rewrite (mg_interval a0 v0 a1 v1 x Hadj) by lia.
  rewrite (mg_interval a0 v0 a1 v1 (S x) Hadj) by lia.
  apply lin_mono_lt; try lia. now apply (flipv_gt a0 v0 a1 v1).
Qed.

Lemma mg_step_adv a0 v0 a1 v1 x : adjacent (a0, v0) (a1, v1) anc -> a0 <= x -> S x = a1 ->
  (v0 < v1)%Z -> (mg anc n x < mg anc n (S x))%Q.
Proof.
  intros Hadj H0 H1 Hadv. destruct (wf_anc_adj _ _ _ _ _ Hwf Hadj) as [H01 [R0 _]].
  rewrite (mg_interval a0 v0 a1 v1 x Hadj) by lia. rewrite (flipv_id v1) by lia.
  rewrite H1. rewrite (mg_anchor a1 v1) by apply (adjacent_In _ _ _ Hadj).
  rewrite <- (lin_at_hi a0 v0 a1 v1 H01). apply lin_mono_lt; lia.
Qed.

Lemma mg_step_wrap a0 v0 a1 x : adjacent (a0, v0) (a1, (-2)%Z) anc -> a0 <= x -> S x = a1 ->
  (0 <= mg anc n x /\ mg anc n x < 2 /\ mg anc n (S x) == -2)%Q.
Proof.
  intros Hadj H0 H1. destruct (wf_anc_adj _ _ _ _ _ Hwf Hadj) as [H01 [R0 [R1 Hcase]]].
  assert (Hv0 : (0 <= v0)%Z) by lia.
  rewrite (mg_interval a0 v0 a1 (-2) x Hadj) by lia. change (flipv (-2)) with 2%Z.
  rewrite H1. rewrite (mg_anchor a1 (-2)) by apply (adjacent_In _ _ _ Hadj).
  split; [|split; [|reflexivity]].
  - pose proof (lin_mono_le a0 v0 a1 2 a0 x H01 ltac:(lia) ltac:(lia) H0) as Hm.
    rewrite lin_at_lo in Hm. assert (Hq : (inject_Z 0 <= inject_Z v0)%Q) by now rewrite <- Zle_Qle.
    change (inject_Z 0) with 0%Q in Hq. lra.
  - pose proof (lin_mono_lt a0 v0 a1 2 x a1 H01 ltac:(lia) H0 ltac:(lia)) as Hm.
    rewrite lin_at_hi in Hm by assumption. exact Hm.
Qed.

(* every step between the first and the last anchor is a strict increase, except the wrap that
   lands on a trough *)
Lemma mg_step F vF rest pre L vL x : anc = (F, vF) :: rest -> anc = pre ++ [(L, vL)] ->
  F <= x -> S x <= L ->
  (mg anc n x < mg anc n (S x))%Q \/
  (In (S x, (-2)%Z) anc /\ (0 <= mg anc n x)%Q /\ (mg anc n (S x) == -2)%Q).
Proof.
  intros HdF HdL HF HL.
  destruct (locate rest (F, vF) x (0, 0%Z)) as [a0 [v0 [a1 [v1 [Hadj Hr]]]]].
  { rewrite <- HdF. rewrite HdL at 1. rewrite last_last. cbn [fst]. lia. }
  rewrite <- HdF in Hadj.
  destruct (wf_anc_adj _ _ _ _ _ Hwf Hadj) as [H01 [R0 [R1 Hcase]]].
  destruct (lt_dec (S x) a1) as [Hin|Hend].
  - left. apply (mg_step_inner a0 v0 a1 v1); [assumption|lia|assumption].
  - assert (E : S x = a1) by lia. destruct Hcase as [Hadv|[Hv1 Hv0]].
    + left. apply (mg_step_adv a0 v0 a1 v1); [assumption|lia|assumption|assumption].
    + right. subst v1. destruct (mg_step_wrap a0 v0 a1 x Hadj ltac:(lia) E) as [W1 [W2 W3]].
      split; [|split; assumption]. rewrite E. apply (adjacent_In _ _ _ Hadj).
Qed.
End Merge.

(* ------------------------------------------------------------------------------------------ *)
(* the two masks on a well-formed anchor list: start = first anchor, end = last anchor *)

Section Masks.
Variable anc : list (nat * Z).
Variable n : nat.
Hypothesis Hs : sorted_anc anc.
Hypothesis Hwf : wf_anc anc.
Hypothesis Hn : forall a v, In (a, v) anc -> a < n.
Hypothesis Hlen : 2 <= length anc.

Lemma first_lt_last F vF rest pre L vL :
  anc = (F, vF) :: rest -> anc = pre ++ [(L, vL)] -> F < L.
Proof.
  intros HdF HdL. destruct pre as [|p pre'].
  - exfalso. pose proof Hlen as Hl. rewrite HdL in Hl. cbn in Hl. lia.
  - pose proof Hs as Hs'. rewrite HdL in Hs'. rewrite HdL in HdF. cbn [app] in HdF, Hs'.
    injection HdF as Hp Hrest. subst p.
    apply (sorted_head_lt _ _ (L, vL)) in Hs'; [exact Hs'|]. apply in_or_app. right. now left.
Qed.

Lemma last_lt_n pre L vL : anc = pre ++ [(L, vL)] -> L < n.
Proof.
  intro HdL. apply (Hn L vL). rewrite HdL. apply in_or_app. right. now left.
Qed.

(* the step leaving the first anchor is never zero: it is a strict increase (towards the next
   anchor value, or towards +2 when the next anchor is a trough further away) or the one-sample
   wrap from a non-negative value onto -2 *)
Lemma first_step_nonzero F vF rest : anc = (F, vF) :: rest ->
  ~ (mg anc n (S F) - mg anc n F == 0)%Q.
Proof.
  intros HdF Hz. destruct rest as [|[a1 v1] rest'].
  { pose proof Hlen as Hl. rewrite HdF in Hl. cbn in Hl. lia. }
  assert (Hadj : adjacent (F, vF) (a1, v1) anc) by (exists [], rest'; exact HdF).
  destruct (wf_anc_adj _ _ _ _ _ Hwf Hadj) as [H01 [R0 [R1 Hcase]]].
  destruct (lt_dec (S F) a1) as [Hin|Hend].
  - pose proof (mg_step_inner anc n Hs Hwf Hn F vF a1 v1 F Hadj ltac:(lia) Hin) as Hlt. lra.
  - assert (E : S F = a1) by lia. destruct Hcase as [Hadv|[Hv1 Hv0]].
    + pose proof (mg_step_adv anc n Hs Hwf Hn F vF a1 v1 F Hadj ltac:(lia) E Hadv) as Hlt. lra.
    + subst v1.
      destruct (mg_step_wrap anc n Hs Hwf Hn F vF a1 F Hadj ltac:(lia) E) as [W1 [W2 W3]]. lra.
Qed.

Lemma last_step_nonzero pre L vL : anc = pre ++ [(L, vL)] -> 1 <= L ->
  ~ (mg anc n L - mg anc n (L - 1) == 0)%Q.
Proof.
  intros HdL HL.
  destruct (exists_last (l := pre)) as [pre' [[a0 v0] Hpre]].
  { intro E. subst pre. pose proof Hlen as Hl. rewrite HdL in Hl. cbn in Hl. lia. }
  assert (Hadj : adjacent (a0, v0) (L, vL) anc).
  { exists pre', []. rewrite HdL, Hpre, <- app_assoc. reflexivity. }
  destruct (wf_anc_adj _ _ _ _ _ Hwf Hadj) as [H01 [R0 [R1 Hcase]]].
  assert (E : S (L - 1) = L) by lia.
  destruct Hcase as [Hadv|[Hv1 Hv0]].
  - pose proof (mg_step_adv anc n Hs Hwf Hn a0 v0 L vL (L - 1) Hadj ltac:(lia) E Hadv) as Hlt.
    rewrite E in Hlt. lra.
  - subst vL. destruct (mg_step_wrap anc n Hs Hwf Hn a0 v0 L (L - 1) Hadj ltac:(lia) E) as [W1 [W2 W3]].
    rewrite E in W3. lra.
Qed.

Lemma find_first F vF rest pre L vL : anc = (F, vF) :: rest -> anc = pre ++ [(L, vL)] ->
  find_idx (fun i => is_nonzero (step (map Some (map (mg anc n) (seq 0 n))) i)) (seq 0 (n - 1)) = Some F.
Proof.
  intros HdF HdL. pose proof (first_lt_last _ _ _ _ _ _ HdF HdL) as HFL.
  pose proof (last_lt_n _ _ _ HdL) as HLn.
  apply find_idx_seq0; [lia| |].
  - (* before the first anchor the merged series is the constant vF *)
    intros j Hj. rewrite step_pha.
    assert (E : S j <? n = true) by (apply Nat.ltb_lt; lia). rewrite E. cbn [is_nonzero].
    assert (Q0 : (mg anc n (S j) - mg anc n j == 0)%Q).
    { rewrite (mg_before anc n F vF rest j HdF Hj).
      destruct (Nat.eq_dec (S j) F) as [EF|NF].
      + rewrite EF. rewrite (mg_anchor anc n Hs Hwf Hn F vF) by (rewrite HdF; now left). ring.
      + rewrite (mg_before anc n F vF rest (S j) HdF) by lia. ring. }
    apply Qeq_bool_iff in Q0. now rewrite Q0.
  - rewrite step_pha.
    assert (E : S F <? n = true) by (apply Nat.ltb_lt; lia). rewrite E. cbn [is_nonzero].
    destruct (Qeq_bool (mg anc n (S F) - mg anc n F) 0) eqn:Eq; [|reflexivity].
    apply Qeq_bool_iff in Eq. exfalso. now apply (first_step_nonzero F vF rest HdF).
Qed.

Lemma find_last F vF rest pre L vL : anc = (F, vF) :: rest -> anc = pre ++ [(L, vL)] ->
  find_idx (fun k => is_nonzero (step (mask_before F (map Some (map (mg anc n) (seq 0 n)))) (n - 2 - k)))
           (seq 0 (n - 1)) = Some (n - 1 - L).
Proof.
  intros HdF HdL. pose proof (first_lt_last _ _ _ _ _ _ HdF HdL) as HFL.
  pose proof (last_lt_n _ _ _ HdL) as HLn.
  apply find_idx_seq0; [lia| |].
  - intros j Hj. rewrite step_mask_before. destruct (n - 2 - j <? F); [reflexivity|].
    rewrite step_pha.
    assert (E : S (n - 2 - j) <? n = true) by (apply Nat.ltb_lt; lia). rewrite E. cbn [is_nonzero].
    rewrite (mg_after anc n Hs pre L vL (S (n - 2 - j)) HdL) by lia.
    rewrite (mg_after anc n Hs pre L vL (n - 2 - j) HdL) by lia.
    assert (Q0 : (inject_Z vL - inject_Z vL == 0)%Q) by ring.
    apply Qeq_bool_iff in Q0. now rewrite Q0.
  - replace (n - 2 - (n - 1 - L)) with (L - 1) by lia.
    rewrite step_mask_before.
    assert (E0 : L - 1 <? F = false) by (apply Nat.ltb_ge; lia). rewrite E0.
    rewrite step_pha. replace (S (L - 1)) with L by lia.
    assert (E : L <? n = true) by (apply Nat.ltb_lt; lia). rewrite E. cbn [is_nonzero].
    destruct (Qeq_bool (mg anc n L - mg anc n (L - 1)) 0) eqn:Eq; [|reflexivity].
    apply Qeq_bool_iff in Eq. exfalso. now apply (last_step_nonzero pre L vL HdL ltac:(lia)).
Qed.

Theorem merge_phases_wf F vF rest pre L vL : anc = (F, vF) :: rest -> anc = pre ++ [(L, vL)] ->
  merge_phases (map (samp (map flipa anc)) (seq 0 n)) (map (samp anc) (seq 0 n))
  = Ok (mask_from (S L) (mask_before F (map Some (map (mg anc n) (seq 0 n))))).
Proof.
  intros HdF HdL. pose proof (first_lt_last _ _ _ _ _ _ HdF HdL) as HFL.
  pose proof (last_lt_n _ _ _ HdL) as HLn.
  unfold merge_phases. cbv zeta. rewrite merge_eq.
  assert (Hl : length (map (samp anc) (seq 0 n)) = n) by now rewrite map_length, seq_length.
  rewrite !Hl. rewrite (find_first F vF rest pre L vL HdF HdL).
  rewrite (find_last F vF rest pre L vL HdF HdL).
  replace (n - (n - 1 - L)) with (S L) by lia. reflexivity.
Qed.

End Masks.

(* value of the result at every sample *)
Lemma onth_result anc n F L i : i < n ->
  onth (mask_from (S L) (mask_before F (map Some (map (mg anc n) (seq 0 n))))) i
  = if (F <=? i) && (i <=? L) then Some (mg anc n i) else None.
Proof.
  intro Hi. rewrite onth_mask_from, onth_mask_before, onth_some_map_seq.
  assert (E : i <? n = true) by (apply Nat.ltb_lt; lia). rewrite E.
  destruct (Nat.leb_spec (S L) i); destruct (Nat.ltb_spec i F); destruct (Nat.leb_spec F i);
    destruct (Nat.leb_spec i L); try reflexivity; lia.
Qed.


(* ------------------------------------------------------------------------------------------ *)
(* P5, P6, P7 on cyclepoints *)

Definition first_idx (c : cps) : nat := hd 0 (map fst (anchors (-2) c)).
Definition last_idx (c : cps) : nat := last (map fst (anchors (-2) c)) 0.

Lemma wf_decomp c : wf_cps c -> exists F vF rest pre L vL,
  anchors (-2) c = (F, vF) :: rest /\ anchors (-2) c = pre ++ [(L, vL)] /\
  first_idx c = F /\ last_idx c = L.
Proof.
  intros [_ Hlen]. unfold first_idx, last_idx.
  destruct (anchors (-2) c) as [|[F vF] rest] eqn:E; [cbn in Hlen; lia|].
  destruct (exists_last (l := (F, vF) :: rest)) as [pre [[L vL] Hd]]; [discriminate|].
  exists F, vF, rest, pre, L, vL. split; [reflexivity|]. split; [assumption|]. split; [reflexivity|].
  rewrite Hd, map_app. cbn [map fst]. apply last_last.
Qed.

Lemma sorted_first_le F vF rest a v : sorted_anc ((F, vF) :: rest) -> In (a, v) ((F, vF) :: rest) -> F <= a.
Proof.
  intros Hs [Heq|Hin].
  - inversion Heq. lia.
  - pose proof (sorted_head_lt _ _ _ Hs Hin) as H. cbn in H. lia.
Qed.

Lemma sorted_last_ge pre L vL a v : sorted_anc (pre ++ [(L, vL)]) -> In (a, v) (pre ++ [(L, vL)]) -> a <= L.
Proof.
  induction pre as [|p pre IH]; intros Hs Hin.
  - destruct Hin as [Heq|[]]. inversion Heq. lia.
  - cbn [app] in Hs, Hin. destruct Hin as [Heq|Hin].
    + subst p. assert (Hl : In (L, vL) (pre ++ [(L, vL)])) by (apply in_or_app; right; now left).
      pose proof (sorted_head_lt _ _ _ Hs Hl) as H. cbn in H. lia.
    + apply IH; [now apply sorted_tail in Hs|assumption].
Qed.

Lemma phase_wf c F vF rest pre L vL : wf_cps c ->
  anchors (-2) c = (F, vF) :: rest -> anchors (-2) c = pre ++ [(L, vL)] ->
  phase c = Ok (mask_from (S L) (mask_before F
                 (map Some (map (mg (anchors (-2) c) (c_n c)) (seq 0 (c_n c)))))).
Proof.
  intros [Hwf Hlen] HdF HdL. unfold phase, phase_gen. rewrite anchors_pi_npi.
  rewrite (interp_ok (map flipa (anchors (-2) c))) by (rewrite HdF; discriminate). cbn [bind].
  rewrite (interp_ok (anchors (-2) c)) by (rewrite HdF; discriminate). cbn [bind].
  fold (samp (map flipa (anchors (-2) c))). fold (samp (anchors (-2) c)).
  apply (merge_phases_wf (anchors (-2) c) (c_n c) (anchors_sorted (-2) c) Hwf) with (vF := vF) (rest := rest) (pre := pre) (vL := vL);
    try assumption.
  intros a v Hin. now apply anchors_In in Hin.
Qed.

(* no StopIteration on well-formed cyclepoints *)
Theorem phase_ok c : wf_cps c -> exists ph, phase c = Ok ph.
Proof.
  intro Hwf. destruct (wf_decomp c Hwf) as [F [vF [rest [pre [L [vL [HdF [HdL _]]]]]]]].
  eexists. apply (phase_wf c F vF rest pre L vL Hwf HdF HdL).
Qed.

(* every sample of the result, in closed form *)
Lemma phase_onth c ph i : wf_cps c -> phase c = Ok ph -> i < c_n c ->
  onth ph i = if (first_idx c <=? i) && (i <=? last_idx c)
              then Some (mg (anchors (-2) c) (c_n c) i) else None.
Proof.
  intros Hwf Hph Hi. destruct (wf_decomp c Hwf) as [F [vF [rest [pre [L [vL [HdF [HdL [EF EL]]]]]]]]].
  rewrite (phase_wf c F vF rest pre L vL Hwf HdF HdL) in Hph. inversion Hph; subst ph.
  rewrite EF, EL. now apply onth_result.
Qed.

(* P6: finite exactly from the first to the last cyclepoint *)
Theorem phase_span c ph i : wf_cps c -> phase c = Ok ph -> i < c_n c ->
  (onth ph i <> None <-> first_idx c <= i <= last_idx c).
Proof.
  intros Hwf Hph Hi. rewrite (phase_onth c ph i Hwf Hph Hi).
  destruct (Nat.leb_spec (first_idx c) i); destruct (Nat.leb_spec i (last_idx c)); cbn [andb];
    split; intro HH; try lia; try discriminate; congruence.
Qed.

Lemma anchor_in_span c i v : wf_cps c -> i < c_n c -> anchor (-2) c i = Some v ->
  first_idx c <= i <= last_idx c.
Proof.
  intros Hwf Hi Ha. destruct (wf_decomp c Hwf) as [F [vF [rest [pre [L [vL [HdF [HdL [EF EL]]]]]]]]].
  assert (Hin : In (i, v) (anchors (-2) c)) by (apply anchors_In; auto).
  pose proof (anchors_sorted (-2) c) as Hs. rewrite EF, EL. split.
  - rewrite HdF in Hs, Hin. now apply (sorted_first_le F vF rest i v).
  - rewrite HdL in Hs, Hin. now apply (sorted_last_ge pre L vL i v).
Qed.

(* P5: the prescribed value at every cyclepoint: 0 at peaks, -2 (-pi) at troughs, -1 / +1 at rise /
   decay midpoints that are not also extrema *)
Theorem phase_at_anchor c ph i v : wf_cps c -> phase c = Ok ph ->
  anchor (-2) c i = Some v -> i < c_n c ->
  exists q, onth ph i = Some q /\ (q == inject_Z v)%Q.
Proof.
  intros Hwf Hph Ha Hi. pose proof (anchor_in_span c i v Hwf Hi Ha) as [H1 H2].
  rewrite (phase_onth c ph i Hwf Hph Hi).
  apply Nat.leb_le in H1. apply Nat.leb_le in H2. rewrite H1, H2. cbn [andb].
  eexists. split; [reflexivity|].
  destruct Hwf as [Hwf Hlen].
  apply (mg_anchor (anchors (-2) c) (c_n c) (anchors_sorted (-2) c) Hwf).
  - intros a w Hin. now apply anchors_In in Hin.
  - apply anchors_In. auto.
Qed.

Corollary phase_at_trough c ph i : wf_cps c -> phase c = Ok ph -> i < c_n c ->
  mem i (c_troughs c) = true -> exists q, onth ph i = Some q /\ (q == -2)%Q.
Proof.
  intros Hwf Hph Hi Hm. apply (phase_at_anchor c ph i (-2) Hwf Hph); [|assumption].
  now apply anchor_trough.
Qed.

Corollary phase_at_peak c ph i : wf_cps c -> phase c = Ok ph -> i < c_n c ->
  mem i (c_troughs c) = false -> mem i (c_peaks c) = true ->
  exists q, onth ph i = Some q /\ (q == 0)%Q.
Proof.
  intros Hwf Hph Hi Hm1 Hm2. apply (phase_at_anchor c ph i 0 Hwf Hph); [|assumption].
  now apply anchor_peak.
Qed.

Corollary phase_at_decay c ph i : wf_cps c -> phase c = Ok ph -> i < c_n c ->
  mem i (c_troughs c) = false -> mem i (c_peaks c) = false -> omem i (c_decays c) = true ->
  exists q, onth ph i = Some q /\ (q == 1)%Q.
Proof.
  intros Hwf Hph Hi Hm1 Hm2 Hm3. apply (phase_at_anchor c ph i 1 Hwf Hph); [|assumption].
  now apply anchor_decay.
Qed.

Corollary phase_at_rise c ph i : wf_cps c -> phase c = Ok ph -> i < c_n c ->
  mem i (c_troughs c) = false -> mem i (c_peaks c) = false -> omem i (c_decays c) = false ->
  omem i (c_rises c) = true -> exists q, onth ph i = Some q /\ (q == -1)%Q.
Proof.
  intros Hwf Hph Hi Hm1 Hm2 Hm3 Hm4. apply (phase_at_anchor c ph i (-1) Hwf Hph); [|assumption].
  now apply anchor_rise.
Qed.

(* P7: strictly increasing from sample to sample across the whole span, the only exception being
   the +2 -> -2 wrap that lands on a trough *)
Theorem phase_monotone_strict c ph i a b : wf_cps c -> phase c = Ok ph ->
  first_idx c <= i -> S i <= last_idx c ->
  onth ph i = Some a -> onth ph (S i) = Some b ->
  (a < b)%Q \/ (anchor (-2) c (S i) = Some (-2)%Z /\ (0 <= a)%Q /\ (b == -2)%Q).
Proof.
  intros Hwf Hph HF HL Ha Hb.
  destruct (wf_decomp c Hwf) as [F [vF [rest [pre [L [vL [HdF [HdL [EF EL]]]]]]]]].
  assert (HLn : L < c_n c).
  { assert (Hin : In (L, vL) (anchors (-2) c)) by (rewrite HdL; apply in_or_app; right; now left).
    now apply anchors_In in Hin. }
  rewrite (phase_onth c ph i Hwf Hph) in Ha by lia.
  rewrite (phase_onth c ph (S i) Hwf Hph) in Hb by lia.
  assert (E1 : first_idx c <=? i = true) by (apply Nat.leb_le; lia).
  assert (E2 : i <=? last_idx c = true) by (apply Nat.leb_le; lia).
  assert (E3 : first_idx c <=? S i = true) by (apply Nat.leb_le; lia).
  assert (E4 : S i <=? last_idx c = true) by (apply Nat.leb_le; lia).
  rewrite E1, E2 in Ha. rewrite E3, E4 in Hb. cbn [andb] in Ha, Hb.
  inversion Ha; inversion Hb; subst a b. clear Ha Hb.
  destruct Hwf as [Hwf Hlen].
  assert (Hn : forall a v, In (a, v) (anchors (-2) c) -> a < c_n c).
  { intros a w Hin. now apply anchors_In in Hin. }
  destruct (mg_step (anchors (-2) c) (c_n c) (anchors_sorted (-2) c) Hwf Hn F vF rest pre L vL i HdF HdL
              ltac:(lia) ltac:(lia)) as [Hlt|[Hin [H0 Hm2]]].
  - left. assumption.
  - right. split; [|split; assumption]. apply anchors_In in Hin. tauto.
Qed.

Theorem phase_monotone c ph i a b : wf_cps c -> phase c = Ok ph ->
  first_idx c <= i -> S i <= last_idx c ->
  onth ph i = Some a -> onth ph (S i) = Some b ->
  (a <= b)%Q \/ anchor (-2) c (S i) = Some (-2)%Z.
Proof.
  intros Hwf Hph HF HL Ha Hb.
  destruct (phase_monotone_strict c ph i a b Hwf Hph HF HL Ha Hb) as [Hlt|[Hanc _]].
  - left. lra.
  - right. assumption.
Qed.

(* between two consecutive cyclepoints the result is the straight line (towards +2 when the next
   cyclepoint is a trough) *)
Theorem phase_between c ph a0 v0 a1 v1 x : wf_cps c -> phase c = Ok ph ->
  adjacent (a0, v0) (a1, v1) (anchors (-2) c) -> a0 <= x < a1 ->
  exists q, onth ph x = Some q /\ (q == lin a0 v0 a1 (flipv v1) x)%Q.
Proof.
  intros Hwf Hph Hadj Hx. pose proof (adjacent_In _ _ _ Hadj) as [Hin0 Hin1].
  apply anchors_In in Hin0. apply anchors_In in Hin1. destruct Hin0 as [Hn0 Ha0]. destruct Hin1 as [Hn1 Ha1].
  pose proof (anchor_in_span c a0 v0 Hwf Hn0 Ha0) as [S0 _].
  pose proof (anchor_in_span c a1 v1 Hwf Hn1 Ha1) as [_ S1].
  rewrite (phase_onth c ph x Hwf Hph) by lia.
  assert (E1 : first_idx c <=? x = true) by (apply Nat.leb_le; lia).
  assert (E2 : x <=? last_idx c = true) by (apply Nat.leb_le; lia).
  rewrite E1, E2. cbn [andb]. eexists. split; [reflexivity|].
  destruct Hwf as [Hwf Hlen].
  apply (mg_interval (anchors (-2) c) (c_n c) (anchors_sorted (-2) c) Hwf); [|assumption|assumption].
  intros a w Hin. now apply anchors_In in Hin.
Qed.

(* ------------------------------------------------------------------------------------------ *)
(* extras: same sample indices in both series; a boolean checker for the precondition; the start
   mask before its repair is refuted *)

Lemma anchors_pi_npi_fst c : map fst (anchors 2 c) = map fst (anchors (-2) c).
Proof. rewrite anchors_pi_npi. apply map_flipa_fst. Qed.

(* wf_ancb / wf_cpsb are defined in Model/Phase.v (the correspondence runner evaluates them on every case) *)
Definition first_gapb (anc : list (nat * Z)) : bool :=
  match anc with
  | (a0, _) :: (a1, v1) :: _ => negb (v1 =? -2)%Z || (a0 + 2 <=? a1)
  | _ => true
  end.
Lemma wf_ancb_sound anc : wf_ancb anc = true -> wf_anc anc.
Proof.
  induction anc as [|[a0 v0] t IH]; [intros _; exact I|].
  destruct t as [|[a1 v1] t'].
  - cbn [wf_ancb wf_anc]. rewrite andb_true_iff, !Z.leb_le. lia.
  - intro H. cbn [wf_ancb] in H. rewrite !andb_true_iff in H.
    destruct H as [[[H1 [H2 H3]] H4] H5].
    apply Nat.ltb_lt in H1. apply Z.leb_le in H2. apply Z.leb_le in H3.
    cbn [wf_anc]. split; [assumption|]. split; [lia|]. split; [|now apply IH].
    apply orb_true_iff in H4. destruct H4 as [H4|H4].
    + left. now apply Z.ltb_lt in H4.
    + right. apply andb_true_iff in H4. destruct H4 as [H4 H6].
      apply Z.eqb_eq in H4. apply Z.leb_le in H6. auto.
Qed.

Lemma first_gapb_sound anc : first_gapb anc = true -> first_gap anc.
Proof.
  destruct anc as [|[a0 v0] [|[a1 v1] t]]; cbn [first_gapb first_gap]; auto.
  intros H Hv. subst v1. cbn in H. now apply Nat.leb_le in H.
Qed.

Lemma wf_cpsb_sound c : wf_cpsb c = true -> wf_cps c.
Proof.
  unfold wf_cpsb, wf_cps. rewrite !andb_true_iff. intros [H1 H2].
  split; [now apply wf_ancb_sound|now apply Nat.leb_le in H2].
Qed.

Example wf_example_by_checker : wf_cps ex_full.
Proof. apply wf_cpsb_sound. vm_compute. reflexivity. Qed.

(* P8': the start mask before its repair (first INCREASING step) is refuted.  Decay midpoint at 0,
   trough at 1, peak at 4: well-formed, but the first step is the one-sample wrap +1 -> -2, which is
   a decrease, so the old start mask only begins at sample 1 and the first cyclepoint is NaN; the
   repaired start mask (first non-zero step) keeps it. *)
Definition ex_nogap : cps :=
  {| c_n := 6; c_peaks := [4]; c_troughs := [1]; c_rises := None; c_decays := Some [0] |}.

Theorem phase_legacy_start_refuted :
  wf_cps ex_nogap /\ first_idx ex_nogap = 0 /\
  rmap (fun l => onth l 0) (phase_legacy_start ex_nogap) = Ok None /\
  rmap (fun l => onth l 0) (phase ex_nogap) = Ok (Some 1%Q).
Proof.
  split; [apply wf_cpsb_sound; vm_compute; reflexivity|].
  split; [|split]; vm_compute; reflexivity.
Qed.

Example phase_nogap :
  ~ first_gap (anchors (-2) ex_nogap) /\
  phase ex_nogap = Ok [Some 1%Q; Some (-2)%Q; Some (-4 # 3)%Q; Some (-2 # 3)%Q; Some 0%Q; None] /\
  phase_legacy_start ex_nogap
    = Ok [None; Some (-2)%Q; Some (-4 # 3)%Q; Some (-2 # 3)%Q; Some 0%Q; None].
Proof.
  split; [|split; vm_compute; reflexivity].
  vm_compute. intro H. specialize (H eq_refl). lia.
Qed.
(* ------------------------------------------------------------------------------------------ *)
(* The class of inputs C17 quantifies over (harness/props/c17.py: out_of_domain) implies the
   precondition wf_cps of the theorems above. *)

Definition is_ext (c : cps) (i : nat) : bool := mem i (c_peaks c) || mem i (c_troughs c).
(* a supplied midpoint that does not coincide with an extremum *)
Definition is_rise (c : cps) (i : nat) : bool := omem i (c_rises c) && negb (is_ext c i).
Definition is_decay (c : cps) (i : nat) : bool := omem i (c_decays c) && negb (is_ext c i).
Definition no_ext_between (c : cps) (a b : nat) : Prop := forall k, a < k < b -> is_ext c k = false.

Record cps_domain (c : cps) : Prop := {
  (* at least one peak and one trough inside the array, never on the same sample *)
  dom_peak : exists p, p < c_n c /\ mem p (c_peaks c) = true;
  dom_trough : exists t, t < c_n c /\ mem t (c_troughs c) = true;
  dom_disjoint : forall i, mem i (c_peaks c) = true -> mem i (c_troughs c) = true -> False;
  (* peaks and troughs alternate *)
  dom_alt_peaks : forall i j, i < j -> mem i (c_peaks c) = true -> mem j (c_peaks c) = true ->
    exists k, i < k < j /\ mem k (c_troughs c) = true;
  dom_alt_troughs : forall i j, i < j -> mem i (c_troughs c) = true -> mem j (c_troughs c) = true ->
    exists k, i < k < j /\ mem k (c_peaks c) = true;
  (* a rise midpoint lies on a rising flank: the nearest extremum before it is not a peak, the nearest after it is
     not a trough; a decay midpoint mirrored *)
  dom_rise_flank : forall m, is_rise c m = true ->
    (forall e, e < m -> mem e (c_peaks c) = true -> ~ no_ext_between c e m) /\
    (forall e, m < e -> mem e (c_troughs c) = true -> ~ no_ext_between c m e);
  dom_decay_flank : forall m, is_decay c m = true ->
    (forall e, e < m -> mem e (c_troughs c) = true -> ~ no_ext_between c e m) /\
    (forall e, m < e -> mem e (c_peaks c) = true -> ~ no_ext_between c m e);
  (* at most one midpoint of a kind per flank *)
  dom_one_rise : forall i j, i < j -> is_rise c i = true -> is_rise c j = true ->
    exists k, i < k < j /\ is_ext c k = true;
  dom_one_decay : forall i j, i < j -> is_decay c i = true -> is_decay c j = true ->
    exists k, i < k < j /\ is_ext c k = true
}.


(* --- auxiliary lemmas for cps_domain_wf --- *)

Lemma mem_true_iff i l : mem i l = true <-> In i l.
Proof.
  unfold mem. rewrite existsb_exists. split.
  - intros [x [Hin Heq]]. apply Nat.eqb_eq in Heq. now subst x.
  - intro Hin. exists i. split; [assumption|apply Nat.eqb_refl].
Qed.

Lemma is_ext_peak c i : mem i (c_peaks c) = true -> is_ext c i = true.
Proof. intro H. unfold is_ext. now rewrite H. Qed.

Lemma is_ext_trough c i : mem i (c_troughs c) = true -> is_ext c i = true.
Proof. intro H. unfold is_ext. rewrite H. apply orb_true_r. Qed.

Lemma is_ext_inv c i : is_ext c i = true -> mem i (c_peaks c) = true \/ mem i (c_troughs c) = true.
Proof. unfold is_ext. intro H. now apply orb_true_iff in H. Qed.

(* what an anchor value of the -pi series says about the sample *)
Lemma anchor_some_cases c i v : anchor (-2) c i = Some v ->
  (v = (-2)%Z /\ mem i (c_troughs c) = true) \/
  (v = 0%Z /\ mem i (c_troughs c) = false /\ mem i (c_peaks c) = true) \/
  (v = 1%Z /\ is_ext c i = false /\ is_decay c i = true) \/
  (v = (-1)%Z /\ is_ext c i = false /\ is_rise c i = true).
Proof.
  unfold anchor, is_decay, is_rise, is_ext. intro H.
  destruct (mem i (c_troughs c)); [inversion H; auto|].
  destruct (mem i (c_peaks c)); [inversion H; auto|].
  destruct (omem i (c_decays c)); [inversion H; right; right; left; cbn; auto|].
  destruct (omem i (c_rises c)); [inversion H; right; right; right; cbn; auto|discriminate].
Qed.

Lemma anchor_none_inv tv c i : anchor tv c i = None ->
  is_ext c i = false /\ is_rise c i = false /\ is_decay c i = false.
Proof.
  unfold anchor, is_decay, is_rise, is_ext. intro H.
  destruct (mem i (c_troughs c)); [discriminate|].
  destruct (mem i (c_peaks c)); [discriminate|].
  destruct (omem i (c_decays c)); [discriminate|].
  destruct (omem i (c_rises c)); [discriminate|]. cbn. auto.
Qed.

(* in a sorted list nothing lies strictly between two consecutive entries *)
Lemma sorted_adjacent_gap (pre post : list (nat * Z)) x y :
  sorted_anc (pre ++ x :: y :: post) ->
  fst x < fst y /\ forall z, In z (pre ++ x :: y :: post) -> ~ (fst x < fst z < fst y).
Proof.
  induction pre as [|p pre IH]; cbn [app]; intro Hs.
  - assert (Hxy : fst x < fst y) by (apply (sorted_head_lt x (y :: post)); [assumption|now left]).
    split; [assumption|]. intros z [Hz|[Hz|Hz]]; [subst z; lia|subst z; lia|].
    apply sorted_tail in Hs. pose proof (sorted_head_lt y post z Hs Hz) as Hyz. lia.
  - destruct (IH (sorted_tail _ _ Hs)) as [Hxy Hgap]. split; [assumption|].
    intros z [Hz|Hz]; [|now apply Hgap]. subst z.
    assert (Hpx : fst p < fst x).
    { apply (sorted_head_lt p (pre ++ x :: y :: post)); [assumption|].
      apply in_or_app. right. now left. }
    lia.
Qed.

Lemma anchors_adjacent_gap tv c a0 v0 a1 v1 :
  adjacent (a0, v0) (a1, v1) (anchors tv c) ->
  a0 < a1 /\ a1 < c_n c /\ anchor tv c a0 = Some v0 /\ anchor tv c a1 = Some v1 /\
  forall k, a0 < k < a1 -> anchor tv c k = None.
Proof.
  intro Hadj. destruct (adjacent_In _ _ _ Hadj) as [Hin0 Hin1].
  apply anchors_In in Hin0. apply anchors_In in Hin1.
  destruct Hin0 as [Hn0 Ha0]. destruct Hin1 as [Hn1 Ha1].
  destruct Hadj as [pre [post Hl]].
  pose proof (anchors_sorted tv c) as Hs. rewrite Hl in Hs.
  destruct (sorted_adjacent_gap _ _ _ _ Hs) as [Hlt Hgap]. cbn [fst] in Hlt.
  split; [assumption|]. split; [assumption|]. split; [assumption|]. split; [assumption|].
  intros k Hk. destruct (anchor tv c k) as [w|] eqn:E; [|reflexivity]. exfalso.
  apply (Hgap (k, w)); [|cbn [fst]; lia].
  rewrite <- Hl. apply anchors_In. split; [lia|assumption].
Qed.

(* wf_anc from a condition on consecutive pairs *)
Lemma wf_anc_of_adjacent anc : sorted_anc anc ->
  (forall a v, In (a, v) anc -> (-2 <= v <= 1)%Z) ->
  (forall a0 v0 a1 v1, adjacent (a0, v0) (a1, v1) anc -> (v0 < v1)%Z \/ (v1 = -2 /\ 0 <= v0)%Z) ->
  wf_anc anc.
Proof.
  induction anc as [|[a0 v0] t IH]; intros Hs Hr Hadj; [exact I|].
  destruct t as [|[a1 v1] t'].
  - cbn [wf_anc]. apply (Hr a0). now left.
  - cbn [wf_anc]. split.
    + apply (sorted_head_lt (a0, v0) ((a1, v1) :: t') (a1, v1)); [assumption|now left].
    + split; [apply (Hr a0); now left|]. split.
      * apply (Hadj a0 v0 a1 v1). exists [], t'. reflexivity.
      * apply IH.
        -- now apply sorted_tail in Hs.
        -- intros a v Hin. apply (Hr a). now right.
        -- intros b0 w0 b1 w1 Hb. apply (Hadj b0 w0 b1 w1). now apply adjacent_cons.
Qed.

(* nearest extremum before / after a sample *)
Lemma nearest_ext_before c : forall m, (exists e, e < m /\ is_ext c e = true) ->
  exists e, e < m /\ is_ext c e = true /\ no_ext_between c e m.
Proof.
  induction m as [|m IH]; intros [e [He Hx]]; [lia|].
  destruct (is_ext c m) eqn:E.
  - exists m. split; [lia|]. split; [assumption|]. intros k Hk. lia.
  - assert (Hem : e < m).
    { destruct (Nat.eq_dec e m) as [Heq|Hne]; [subst e; congruence|lia]. }
    destruct (IH (ex_intro _ e (conj Hem Hx))) as [e' [He1 [He2 He3]]].
    exists e'. split; [lia|]. split; [assumption|].
    intros k Hk. destruct (Nat.eq_dec k m) as [Heq|Hne]; [now subst k|]. apply He3. lia.
Qed.

Lemma nearest_ext_after_aux c : forall d m, is_ext c (m + S d) = true ->
  exists e, m < e /\ is_ext c e = true /\ no_ext_between c m e.
Proof.
  induction d as [|d IH]; intros m He.
  - exists (m + 1). split; [lia|]. split; [assumption|]. intros k Hk. lia.
  - destruct (is_ext c (S m)) eqn:E.
    + exists (S m). split; [lia|]. split; [assumption|]. intros k Hk. lia.
    + replace (m + S (S d)) with (S m + S d) in He by lia.
      destruct (IH (S m) He) as [e [He1 [He2 He3]]].
      exists e. split; [lia|]. split; [assumption|].
      intros k Hk. destruct (Nat.eq_dec k (S m)) as [Heq|Hne]; [now subst k|]. apply He3. lia.
Qed.

Lemma nearest_ext_after c m p : m < p -> is_ext c p = true ->
  exists e, m < e /\ is_ext c e = true /\ no_ext_between c m e.
Proof.
  intros Hlt Hx. apply (nearest_ext_after_aux c (p - m - 1) m).
  replace (m + S (p - m - 1)) with p by lia. assumption.
Qed.

(* a decay midpoint cannot be directly followed by a rise midpoint *)
Lemma domain_no_decay_rise c a0 a1 : cps_domain c -> a0 < a1 ->
  is_ext c a0 = false -> is_decay c a0 = true -> is_ext c a1 = false -> is_rise c a1 = true ->
  no_ext_between c a0 a1 -> False.
Proof.
  intros D Hlt NE0 D0 NE1 R1 Hne.
  destruct (dom_peak c D) as [p [_ Pp]]. apply is_ext_peak in Pp.
  destruct (dom_rise_flank c D a1 R1) as [RF1 RF2].
  destruct (dom_decay_flank c D a0 D0) as [DF1 DF2].
  assert (Hp : p < a0 \/ a1 < p).
  { destruct (Nat.eq_dec p a0) as [Heq|Hn0]; [subst p; congruence|].
    destruct (Nat.eq_dec p a1) as [Heq|Hn1]; [subst p; congruence|].
    destruct (Nat.lt_ge_cases p a0) as [Hl|Hg]; [now left|].
    destruct (Nat.lt_ge_cases a1 p) as [Hl|Hg']; [now right|].
    assert (Hb : a0 < p < a1) by lia. specialize (Hne p Hb). congruence. }
  destruct Hp as [Hp|Hp].
  - destruct (nearest_ext_before c a0 (ex_intro _ p (conj Hp Pp))) as [e [He1 [He2 He3]]].
    destruct (is_ext_inv c e He2) as [Pe|Te].
    + apply (RF1 e); [lia|assumption|].
      intros k Hk. destruct (Nat.lt_ge_cases k a0) as [Hl|Hg]; [apply He3; lia|].
      destruct (Nat.eq_dec k a0) as [Heq|Hn]; [now subst k|]. apply Hne. lia.
    + apply (DF1 e); assumption.
  - destruct (nearest_ext_after c a1 p Hp Pp) as [e [He1 [He2 He3]]].
    destruct (is_ext_inv c e He2) as [Pe|Te].
    + apply (DF2 e); [lia|assumption|].
      intros k Hk. destruct (Nat.lt_ge_cases a1 k) as [Hl|Hg]; [apply He3; lia|].
      destruct (Nat.eq_dec k a1) as [Heq|Hn]; [now subst k|]. apply Hne. lia.
    + apply (RF2 e); assumption.
Qed.

(* every consecutive pair of anchors advances the phase or wraps into a trough *)
Lemma domain_adjacent_ok c a0 v0 a1 v1 : cps_domain c ->
  adjacent (a0, v0) (a1, v1) (anchors (-2) c) -> (v0 < v1)%Z \/ (v1 = -2 /\ 0 <= v0)%Z.
Proof.
  intros D Hadj.
  destruct (anchors_adjacent_gap _ _ _ _ _ _ Hadj) as [Hlt [Hn1 [Ha0 [Ha1 Hgap]]]].
  assert (Hne : no_ext_between c a0 a1).
  { intros k Hk. apply (anchor_none_inv (-2)%Z c k). now apply Hgap. }
  assert (Hnr : forall k, a0 < k < a1 -> is_ext c k = true -> False).
  { intros k Hk Hx. rewrite (Hne k Hk) in Hx. discriminate. }
  destruct (anchor_some_cases c a0 v0 Ha0) as [[E0 T0]|[[E0 [NT0 P0]]|[[E0 [NE0 D0]]|[E0 [NE0 R0]]]]];
  destruct (anchor_some_cases c a1 v1 Ha1) as [[E1 T1]|[[E1 [NT1 P1]]|[[E1 [NE1 D1]]|[E1 [NE1 R1]]]]];
  subst v0 v1; first [left; lia | right; lia | exfalso].
  - (* trough, trough *)
    destruct (dom_alt_troughs c D a0 a1 Hlt T0 T1) as [k [Hk Pk]].
    apply (Hnr k Hk). now apply is_ext_peak.
  - (* peak, peak *)
    destruct (dom_alt_peaks c D a0 a1 Hlt P0 P1) as [k [Hk Tk]].
    apply (Hnr k Hk). now apply is_ext_trough.
  - (* peak, rise *)
    destruct (dom_rise_flank c D a1 R1) as [RF1 _]. now apply (RF1 a0).
  - (* decay, peak *)
    destruct (dom_decay_flank c D a0 D0) as [_ DF2]. now apply (DF2 a1).
  - (* decay, decay *)
    destruct (dom_one_decay c D a0 a1 Hlt D0 D1) as [k [Hk Xk]]. now apply (Hnr k Hk).
  - (* decay, rise *)
    now apply (domain_no_decay_rise c a0 a1).
  - (* rise, trough *)
    destruct (dom_rise_flank c D a0 R0) as [_ RF2]. now apply (RF2 a1).
  - (* rise, rise *)
    destruct (dom_one_rise c D a0 a1 Hlt R0 R1) as [k [Hk Xk]]. now apply (Hnr k Hk).
Qed.

Lemma two_in_length {A} (x y : A) l : In x l -> In y l -> x <> y -> 2 <= length l.
Proof.
  intros Hx Hy Hne. destruct l as [|a [|b l']]; cbn [length]; [destruct Hx| |lia].
  destruct Hx as [Hx|[]]. destruct Hy as [Hy|[]]. congruence.
Qed.

(* (The "at least two samples apart" condition of the quantifier is not needed for wf_cps.) *)
Theorem cps_domain_wf c : cps_domain c -> wf_cps c.
Proof.
  intro D. split.
  - apply wf_anc_of_adjacent.
    + apply anchors_sorted.
    + intros a v Hin. now apply (anchors_range c a v).
    + intros a0 v0 a1 v1 Hadj. now apply (domain_adjacent_ok c a0 v0 a1 v1).
  - destruct (dom_peak c D) as [p [Hp Pp]]. destruct (dom_trough c D) as [t [Ht Tt]].
    assert (NTp : mem p (c_troughs c) = false).
    { destruct (mem p (c_troughs c)) eqn:E; [|reflexivity]. exfalso. exact (dom_disjoint c D p Pp E). }
    apply (two_in_length (p, 0%Z) (t, (-2)%Z)).
    + apply anchors_In. split; [assumption|]. now apply anchor_peak.
    + apply anchors_In. split; [assumption|]. now apply anchor_trough.
    + intro Heq. discriminate Heq.
Qed.

(* the class is inhabited: the example of wf_example *)
Lemma ex_full_peak i : mem i (c_peaks ex_full) = true -> i = 6 \/ i = 14.
Proof. intro H. apply mem_true_iff in H. cbn in H. lia. Qed.

Lemma ex_full_trough i : mem i (c_troughs ex_full) = true -> i = 2 \/ i = 10.
Proof. intro H. apply mem_true_iff in H. cbn in H. lia. Qed.

Lemma ex_full_rise i : is_rise ex_full i = true -> i = 4 \/ i = 12.
Proof.
  unfold is_rise. intro H. apply andb_true_iff in H. destruct H as [H _].
  change (mem i [4; 12] = true) in H. apply mem_true_iff in H. cbn in H. lia.
Qed.

Lemma ex_full_decay i : is_decay ex_full i = true -> i = 8.
Proof.
  unfold is_decay. intro H. apply andb_true_iff in H. destruct H as [H _].
  change (mem i [8] = true) in H. apply mem_true_iff in H. cbn in H. lia.
Qed.

(* refute "no extremum between a and b" by exhibiting the extremum k of ex_full in between *)
Ltac ex_between Hn k :=
  let Hb := fresh "Hb" in
  assert (Hb : is_ext ex_full k = false) by (apply Hn; lia); vm_compute in Hb; discriminate Hb.

Example cps_domain_example : cps_domain ex_full.
Proof.
  constructor.
  - exists 6. split; [cbn; lia|reflexivity].
  - exists 2. split; [cbn; lia|reflexivity].
  - intros i Hp Ht. apply ex_full_peak in Hp. apply ex_full_trough in Ht. lia.
  - intros i j Hlt Hi Hj. apply ex_full_peak in Hi. apply ex_full_peak in Hj.
    exists 10. split; [lia|reflexivity].
  - intros i j Hlt Hi Hj. apply ex_full_trough in Hi. apply ex_full_trough in Hj.
    exists 6. split; [lia|reflexivity].
  - intros m Hm. apply ex_full_rise in Hm. split.
    + intros e He Pe Hn. apply ex_full_peak in Pe.
      assert (Hc : m = 12 /\ e = 6) by lia. destruct Hc as [Hm' He']. subst m e. ex_between Hn 10.
    + intros e He Te Hn. apply ex_full_trough in Te.
      assert (Hc : m = 4 /\ e = 10) by lia. destruct Hc as [Hm' He']. subst m e. ex_between Hn 6.
  - intros m Hm. apply ex_full_decay in Hm. subst m. split.
    + intros e He Te Hn. apply ex_full_trough in Te.
      assert (He' : e = 2) by lia. subst e. ex_between Hn 6.
    + intros e He Pe Hn. apply ex_full_peak in Pe.
      assert (He' : e = 14) by lia. subst e. ex_between Hn 10.
  - intros i j Hlt Hi Hj. apply ex_full_rise in Hi. apply ex_full_rise in Hj.
    exists 6. split; [lia|reflexivity].
  - intros i j Hlt Hi Hj. apply ex_full_decay in Hi. apply ex_full_decay in Hj. lia.
Qed.
