(* C01: the cycle table is a complete, ordered, gap-free segmentation.
   Structural theorems about Model/Cycles.v (cycle_rows, shape_table) and their lift to
   Model/Features.v (compute_features).  Builds on Proofs/Extrema.v (alternation and boundary
   clause of find_extrema) and Proofs/Zerox.v (totality and ordering of find_zerox).
   No float fact is used here: every float operation is opaque to these proofs. *)
From Coq Require Import List Bool Arith ZArith Lia Floats.PrimFloat.
Import ListNotations.
From ByC Require Import Base.Result Base.ListAux Base.FloatBase Harness.Compare
  Model.Runs Model.Labels Model.Extrema Model.Zerox Model.Cycles Model.BurstFeat Model.Features.
From ByC Require Proofs.Extrema Proofs.Zerox.
Close Scope float_scope.
Open Scope nat_scope.

(* the alternation predicate of Proofs/Extrema.v (Proofs/Zerox.v has a convertible copy) *)
Notation interleaved := ByC.Proofs.Extrema.interleaved.

(* ------------------------------------------------------------------------- *)
(* Definitions                                                               *)
(* ------------------------------------------------------------------------- *)

(* ordering of one row in the frame in which it is computed (peak frame) *)
Definition row_ordered (r : srow) : Prop :=
  (s_last r < s_center r < s_next r)%Z /\ (s_last_zx r <= s_last r)%Z /\
  (s_last r <= s_zx_rise r <= s_center r)%Z /\ (s_center r <= s_zx_decay r <= s_next r)%Z.
(* ordering of a row as returned to the user: for a trough-centred table the decay midpoint
   precedes the centre *)
Definition row_ordered_c (c : centre) (r : srow) : Prop :=
  match c with Peak => row_ordered r | Trough => row_ordered (rename_srow r) end.
(* with row_ordered, all six indices lie in (b, n-b) *)
Definition row_within (b n : Z) (r : srow) : Prop :=
  (b < s_last r)%Z /\ (s_next r < n - b)%Z /\ (b < s_last_zx r)%Z.
(* consecutive rows share their side extremum (and the midpoint in between): the rows tile
   [last row0, next row_last] *)
Fixpoint tiled (rows : list srow) : Prop :=
  match rows with
  | r1 :: ((r2 :: _) as t) => s_next r1 = s_last r2 /\ tiled t
  | _ => True
  end.

(* default row used with nth *)
Definition srow0 : srow := Build_srow 0 0 0 0 0 0.
(* rows as computed, before the trough renaming *)
Definition peak_frame (c : centre) (rows : list srow) : list srow :=
  match c with Peak => rows | Trough => map rename_srow rows end.

(* ------------------------------------------------------------------------- *)
(* List facts                                                                *)
(* ------------------------------------------------------------------------- *)

Lemma nth_tl {A} (l : list A) k d : nth k (tl l) d = nth (S k) l d.
Proof. destruct l as [|a t]; [destruct k; reflexivity|reflexivity]. Qed.

Lemma length_tl {A} (l : list A) : length (tl l) = length l - 1.
Proof. destruct l as [|a t]; cbn [tl length]; lia. Qed.

Lemma length_removelast {A} (l : list A) : length (removelast l) = length l - 1.
Proof.
  induction l as [|a t IH]; [reflexivity|].
  destruct t as [|b t']; [reflexivity|].
  change (removelast (a :: b :: t')) with (a :: removelast (b :: t')).
  cbn [length] in *. lia.
Qed.

Lemma nth_removelast {A} (l : list A) k d : S k < length l -> nth k (removelast l) d = nth k l d.
Proof.
  revert k; induction l as [|a t IH]; intros k Hk; [cbn [length] in Hk; lia|].
  destruct t as [|b t']; [cbn [length] in Hk; lia|].
  change (removelast (a :: b :: t')) with (a :: removelast (b :: t')).
  destruct k as [|k]; [reflexivity|].
  cbn [nth]. apply IH. cbn [length] in *. lia.
Qed.

Lemma nth_map_seq {A} (f : nat -> A) n k d : k < n -> nth k (map f (seq 0 n)) d = f k.
Proof.
  intros Hk. rewrite (nth_indep _ d (f 0)) by (rewrite map_length, seq_length; exact Hk).
  rewrite map_nth, seq_nth by exact Hk. reflexivity.
Qed.

(* a list is the table of its own nth *)
Lemma map_nth_seq {A} (l : list A) d : map (fun i => nth i l d) (seq 0 (length l)) = l.
Proof.
  apply (nth_ext _ _ d d).
  - rewrite map_length, seq_length. reflexivity.
  - intros k Hk. rewrite map_length, seq_length in Hk.
    rewrite (nth_map_seq (fun i => nth i l d)) by exact Hk. reflexivity.
Qed.

Lemma map_nth_seq_gen {A B} (g : A -> B) (l : list A) d :
  map (fun i => g (nth i l d)) (seq 0 (length l)) = map g l.
Proof.
  rewrite <- (map_nth_seq l d) at 2. rewrite map_map. reflexivity.
Qed.

Lemma Forall_nth_iff {A} (P : A -> Prop) (l : list A) d :
  Forall P l <-> forall k, k < length l -> P (nth k l d).
Proof.
  rewrite Forall_forall. split.
  - intros H k Hk. apply H, nth_In, Hk.
  - intros H x Hx. destruct (In_nth l x d Hx) as (k & Hk & <-). apply H, Hk.
Qed.

(* ------------------------------------------------------------------------- *)
(* rename_srow, tiled                                                        *)
(* ------------------------------------------------------------------------- *)

Lemma rename_srow_invol r : rename_srow (rename_srow r) = r.
Proof. destruct r; reflexivity. Qed.

Lemma map_rename_srow_invol rows : map rename_srow (map rename_srow rows) = rows.
Proof.
  rewrite map_map. rewrite <- (map_id rows) at 2. apply map_ext. intros r. apply rename_srow_invol.
Qed.

Lemma peak_frame_invol c rows : peak_frame c (peak_frame c rows) = rows.
Proof. destruct c; [reflexivity|apply map_rename_srow_invol]. Qed.

Lemma peak_frame_length c rows : length (peak_frame c rows) = length rows.
Proof. destruct c; [reflexivity|apply map_length]. Qed.

Lemma rename_srow0 : rename_srow srow0 = srow0.
Proof. reflexivity. Qed.

Lemma nth_map_rename rows j : nth j (map rename_srow rows) srow0 = rename_srow (nth j rows srow0).
Proof. rewrite <- rename_srow0 at 1. apply map_nth. Qed.

Lemma nth_peak_frame c rows j :
  nth j (peak_frame c rows) srow0 = match c with Peak => nth j rows srow0 | Trough => rename_srow (nth j rows srow0) end.
Proof. destruct c; [reflexivity|apply nth_map_rename]. Qed.

Lemma tiled_nth rows :
  tiled rows <-> forall j, S j < length rows -> s_next (nth j rows srow0) = s_last (nth (S j) rows srow0).
Proof.
  induction rows as [|r1 t IH]; [split; [intros _ j Hj; cbn [length] in Hj; lia|intros _; exact I]|].
  destruct t as [|r2 t'].
  - split; [intros _ j Hj; cbn [length] in Hj; lia|intros _; exact I].
  - change (tiled (r1 :: r2 :: t')) with (s_next r1 = s_last r2 /\ tiled (r2 :: t')).
    rewrite IH. split.
    + intros [H1 H2] [|j] Hj; [exact H1|].
      change (s_next (nth j (r2 :: t') srow0) = s_last (nth (S j) (r2 :: t') srow0)).
      apply H2. cbn [length] in *. lia.
    + intros H. split.
      * apply (H 0). cbn [length]. lia.
      * intros j Hj. apply (H (S j)). cbn [length] in *. lia.
Qed.

Lemma tiled_map_rename rows : tiled (map rename_srow rows) <-> tiled rows.
Proof.
  rewrite !tiled_nth, map_length.
  split; intros H j Hj; specialize (H j Hj); rewrite !nth_map_rename in *; exact H.
Qed.

(* ------------------------------------------------------------------------- *)
(* T1: cycle_rows                                                            *)
(* ------------------------------------------------------------------------- *)

Theorem cycle_rows_spec peaks troughs rises decays :
  length troughs = length peaks -> length decays = length peaks ->
  length rises = length peaks - 1 -> peaks <> [] ->
  exists rows, cycle_rows peaks troughs rises decays = Ok rows /\
    length rows = length peaks - 1 /\
    forall k, k < length rows ->
      nth k rows (Build_srow 0 0 0 0 0 0) =
      {| s_center := nth (S k) peaks 0%Z; s_last := nth k troughs 0%Z; s_next := nth (S k) troughs 0%Z;
         s_zx_rise := nth k rises 0%Z; s_zx_decay := nth (S k) decays 0%Z; s_last_zx := nth k decays 0%Z |}.
Proof.
  intros Ht Hd Hr Hne. unfold cycle_rows. cbv zeta.
  rewrite !length_removelast, !length_tl, Ht, Hd, Hr, !Nat.eqb_refl. cbn [andb].
  eexists. split; [reflexivity|].
  rewrite map_length, seq_length. split; [reflexivity|].
  intros k Hk. rewrite nth_map_seq by exact Hk.
  rewrite !nth_tl, !nth_removelast by lia. reflexivity.
Qed.

(* the converse: cycle_rows succeeds exactly when the six shifted slices have equal lengths *)
Theorem cycle_rows_ok_inv peaks troughs rises decays rows :
  cycle_rows peaks troughs rises decays = Ok rows ->
  length rows = length peaks - 1 /\ length troughs - 1 = length peaks - 1 /\
  length decays - 1 = length peaks - 1 /\ length rises = length peaks - 1.
Proof.
  unfold cycle_rows. cbv zeta. rewrite !length_removelast, !length_tl.
  destruct (_ && _)%bool eqn:E; [|discriminate].
  intros H; inversion H; subst rows. clear H. rewrite map_length, seq_length.
  rewrite !andb_true_iff, !Nat.eqb_eq in E. lia.
Qed.

Theorem cycle_rows_err peaks troughs rises decays e :
  cycle_rows peaks troughs rises decays = Err e -> e = EValue.
Proof.
  unfold cycle_rows. cbv zeta. destruct (_ && _)%bool; [discriminate|].
  intros H; inversion H; reflexivity.
Qed.

(* ------------------------------------------------------------------------- *)
(* Structure of shape_table                                                  *)
(* ------------------------------------------------------------------------- *)

(* the signal on which the extrema are searched, and the find_extrema request *)
Local Notation sigc c raw := (match c with Peak => raw%list | Trough => map PrimFloat.opp raw%list end).
Local Notation xin c raw k b :=
  {| x_pos := k_pos k; x_raw := sigc c raw; x_padn := k_padn k; x_boundary := b; x_first := FPeak |}.

Lemma sigc_length (c : centre) (raw : list float) : length (sigc c raw) = length raw.
Proof. destruct c; [reflexivity|apply map_length]. Qed.

(* the table in terms of the peak-frame rows *)
Definition table_of (c : centre) (raw : list float) (k : kernels) (rows : list srow) : list (srow * shape) :=
  match c with
  | Peak => map (fun r => (r, shape_of raw (k_amp k) r)) rows
  | Trough => map (fun r => (rename_srow r, rename_shape (shape_of (map PrimFloat.opp raw) (k_amp k) r))) rows
  end.

Lemma table_of_fst c raw k rows : map fst (table_of c raw k rows) = peak_frame c rows.
Proof.
  destruct c; unfold table_of, peak_frame; rewrite map_map; cbn [fst];
    [apply map_id|reflexivity].
Qed.

Lemma table_of_length c raw k rows : length (table_of c raw k rows) = length rows.
Proof. destruct c; apply map_length. Qed.

Lemma shape_table_inv c raw k b tab :
  shape_table c raw k b = Ok tab ->
  exists peaks troughs rises decays rows,
    find_extrema (xin c raw k b) = Ok (peaks, troughs) /\
    find_zerox (sigc c raw) peaks troughs = Ok (rises, decays) /\
    cycle_rows peaks troughs rises decays = Ok rows /\ rows <> [] /\
    tab = table_of c raw k rows.
Proof.
  unfold shape_table. cbv zeta.
  destruct (find_extrema (xin c raw k b)) as [[peaks troughs]|e1] eqn:E1; [|discriminate].
  cbn [bind fst snd].
  destruct (find_zerox (sigc c raw) peaks troughs) as [[rises decays]|e2] eqn:E2; [|discriminate].
  cbn [bind fst snd].
  destruct (cycle_rows peaks troughs rises decays) as [rows|e3] eqn:E3; [|discriminate].
  cbn [bind].
  destruct rows as [|r0 rows'] eqn:Er; [discriminate|]. rewrite <- Er in *.
  intros H. exists peaks, troughs, rises, decays, rows.
  split; [reflexivity|]. split; [exact E2|]. split; [exact E3|].
  split; [rewrite Er; discriminate|].
  inversion H as [H1]. clear H H1. destruct c; unfold table_of; [reflexivity|].
  rewrite map_map. reflexivity.
Qed.

Lemma shape_table_fwd c raw k b peaks troughs rises decays rows :
  find_extrema (xin c raw k b) = Ok (peaks, troughs) ->
  find_zerox (sigc c raw) peaks troughs = Ok (rises, decays) ->
  cycle_rows peaks troughs rises decays = Ok rows ->
  shape_table c raw k b = match rows with [] => Err EIndex | _ => Ok (table_of c raw k rows) end.
Proof.
  intros E1 E2 E3. unfold shape_table. cbv zeta. rewrite E1. cbn [bind fst snd].
  rewrite E2. cbn [bind fst snd]. rewrite E3. cbn [bind].
  destruct rows as [|r0 rows']; [reflexivity|].
  destruct c; unfold table_of; [reflexivity|]. rewrite map_map. reflexivity.
Qed.

(* ------------------------------------------------------------------------- *)
(* What find_extrema and find_zerox deliver, without any boundary assumption  *)
(* ------------------------------------------------------------------------- *)

Lemma extrema_facts c raw k b peaks troughs :
  length raw + 2 * k_padn k = length (k_pos k) ->
  find_extrema (xin c raw k b) = Ok (peaks, troughs) ->
  interleaved peaks troughs /\ peaks <> [] /\ length troughs = length peaks /\
  (forall z, In z peaks \/ In z troughs -> (b < z < Z.of_nat (length raw) - b)%Z).
Proof.
  intros Hlen E1.
  destruct (ByC.Proofs.Extrema.find_extrema_peak_first _ _ _ E1 eq_refl) as (Hint & Hbd & _).
  { cbn [x_raw x_padn x_pos]. rewrite sigc_length. exact Hlen. }
  cbn [x_raw x_boundary] in Hbd. rewrite sigc_length in Hbd.
  destruct (ByC.Proofs.Extrema.find_extrema_ok_raw _ _ E1) as (pk & tr & Hraw).
  split; [exact Hint|]. split; [|split; [|exact Hbd]].
  - intros ->.
    rewrite (ByC.Proofs.Extrema.find_extrema_unfold _ _ _ Hraw) in E1. cbn [x_first trim] in E1.
    unfold trim_pair in E1.
    destruct (unpad_filter _ _ _ pk) as [|f0 fs]; [discriminate|].
    destruct (unpad_filter _ _ _ tr) as [|o0 os]; [discriminate|].
    destruct (if (o0 <? f0)%Z then tl (o0 :: os) else o0 :: os) as [|o1 os1] eqn:Eo; [discriminate|].
    inversion E1 as [[Hp Ht]]. subst troughs. destruct Hint.
  - symmetry. exact (proj1 (ByC.Proofs.Zerox.interleaved_spec peaks troughs Hint)).
Qed.

Lemma flank_mid_err rise sig s e er : flank_mid rise sig s e = Err er -> er = EIndex.
Proof.
  unfold flank_mid. destruct (zslice sig s (e + 1)) as [|x0 seg'] eqn:Es.
  - intros H; inversion H; reflexivity.
  - cbv zeta. destruct (all_zero (x0 :: seg')); [discriminate|].
    destruct (if rise then _ else _); [discriminate|].
    destruct (level_crossings _ _ _ _); discriminate.
Qed.

Lemma flank_mids_err rise sig n starts ends bias er :
  (0 <= n)%Z -> flank_mids rise sig n starts ends bias = Err er -> er = EIndex.
Proof.
  intros Hn. unfold flank_mids.
  assert (E : (n <? 0)%Z = false) by (apply Z.ltb_ge; exact Hn). rewrite E.
  intros H. apply ByC.Proofs.Extrema.mapM_err in H as (idx & _ & H).
  unfold nth_res in H.
  destruct (nth_error starts idx) as [s|]; cbn [bind] in H; [|inversion H; reflexivity].
  destruct (nth_error ends (idx + bias)) as [e|]; cbn [bind] in H; [|inversion H; reflexivity].
  exact (flank_mid_err _ _ _ _ _ H).
Qed.

Lemma flank_mids_ok_length rise sig n starts ends bias ms :
  flank_mids rise sig n starts ends bias = Ok ms -> length ms = Z.to_nat n.
Proof.
  unfold flank_mids. destruct (n <? 0)%Z; [discriminate|].
  intros H. apply ByC.Proofs.Zerox.mapM_ok_spec in H as [H _]. rewrite seq_length in H. exact H.
Qed.

(* find_zerox can only fail with an IndexError (an extremum outside the signal) *)
Lemma find_zerox_err sig peaks troughs er : find_zerox sig peaks troughs = Err er -> er = EIndex.
Proof.
  unfold find_zerox. destruct peaks as [|p0 pr]; [intros H; inversion H; reflexivity|].
  destruct troughs as [|t0 tr]; [intros H; inversion H; reflexivity|].
  cbv zeta. cbn [length].
  destruct (p0 <? t0)%Z; cbv iota beta.
  - destruct (flank_mids true _ _ _ _ _) as [rises|e1] eqn:E1; cbn [bind].
    + destruct (flank_mids false _ _ _ _ _) as [decays|e2] eqn:E2; cbn [bind]; [discriminate|].
      intros H; inversion H; subst e2. apply flank_mids_err in E2; [exact E2|lia].
    + intros H; inversion H; subst e1. apply flank_mids_err in E1; [exact E1|lia].
  - destruct (flank_mids true _ _ _ _ _) as [rises|e1] eqn:E1; cbn [bind].
    + destruct (flank_mids false _ _ _ _ _) as [decays|e2] eqn:E2; cbn [bind]; [discriminate|].
      intros H; inversion H; subst e2. apply flank_mids_err in E2; [exact E2|lia].
    + intros H; inversion H; subst e1. apply flank_mids_err in E1; [exact E1|lia].
Qed.

Lemma find_zerox_ok_lengths sig peaks troughs rises decays :
  interleaved peaks troughs ->
  find_zerox sig peaks troughs = Ok (rises, decays) ->
  length decays = length peaks /\ length rises = length peaks - 1.
Proof.
  intros Hint. destruct (ByC.Proofs.Zerox.interleaved_spec peaks troughs Hint) as (HL & Hpt & _).
  unfold find_zerox. destruct peaks as [|p0 pr]; [discriminate|].
  destruct troughs as [|t0 tr]; [discriminate|].
  assert (E : (p0 <? t0)%Z = true).
  { apply Z.ltb_lt. apply (Hpt 0). cbn [length]. lia. }
  cbv zeta. rewrite E. cbv iota beta.
  destruct (flank_mids true _ _ _ _ _) as [rises'|e1] eqn:E1; cbn [bind]; [|discriminate].
  destruct (flank_mids false _ _ _ _ _) as [decays'|e2] eqn:E2; cbn [bind]; [|discriminate].
  intros H; inversion H; subst rises' decays'.
  apply flank_mids_ok_length in E1. apply flank_mids_ok_length in E2.
  rewrite E1, E2. cbn [length] in *. lia.
Qed.

(* the structure of a successful table: which extremum / midpoint sits in which column *)
Lemma shape_table_struct c raw k b tab :
  shape_table c raw k b = Ok tab ->
  length raw + 2 * k_padn k = length (k_pos k) ->
  exists peaks troughs rises decays,
    find_extrema (xin c raw k b) = Ok (peaks, troughs) /\
    interleaved peaks troughs /\
    (forall z, In z peaks \/ In z troughs -> (b < z < Z.of_nat (length raw) - b)%Z) /\
    find_zerox (sigc c raw) peaks troughs = Ok (rises, decays) /\
    length decays = length peaks /\ length rises = length peaks - 1 /\
    tab = table_of c raw k (peak_frame c (map fst tab)) /\
    let rows := peak_frame c (map fst tab) in
    cycle_rows peaks troughs rises decays = Ok rows /\
    rows <> [] /\ length rows = length peaks - 1 /\
    (forall j, j < length rows -> nth j rows srow0 =
      {| s_center := nth (S j) peaks 0%Z; s_last := nth j troughs 0%Z; s_next := nth (S j) troughs 0%Z;
         s_zx_rise := nth j rises 0%Z; s_zx_decay := nth (S j) decays 0%Z; s_last_zx := nth j decays 0%Z |}).
Proof.
  intros H Hlen.
  destruct (shape_table_inv _ _ _ _ _ H) as (peaks & troughs & rises & decays & rows & E1 & E2 & E3 & Hne & ->).
  rewrite table_of_fst, peak_frame_invol. cbv zeta.
  destruct (extrema_facts _ _ _ _ _ _ Hlen E1) as (Hint & Hpne & HL & Hbd).
  destruct (find_zerox_ok_lengths _ _ _ _ _ Hint E2) as (Hd & Hr).
  destruct (cycle_rows_spec peaks troughs rises decays HL Hd Hr Hpne) as (rows' & E & Hl & Hnth).
  rewrite E3 in E. inversion E; subst rows'. clear E. fold srow0 in Hnth.
  exists peaks, troughs, rises, decays.
  split; [exact E1|]. split; [exact Hint|]. split; [exact Hbd|]. split; [exact E2|].
  split; [exact Hd|]. split; [exact Hr|]. split; [reflexivity|]. split; [exact E3|].
  split; [exact Hne|]. split; [exact Hl|exact Hnth].
Qed.

(* ------------------------------------------------------------------------- *)
(* Peak-frame facts about the assembled rows                                 *)
(* ------------------------------------------------------------------------- *)

Lemma rows_facts peaks troughs rises decays rows b n :
  interleaved peaks troughs -> peaks <> [] ->
  (forall z, In z peaks \/ In z troughs -> (b < z < n - b)%Z) ->
  length decays = length peaks -> length rises = length peaks - 1 ->
  (forall k, k < length peaks -> (nth k peaks 0 <= nth k decays 0 <= nth k troughs 0)%Z) ->
  (forall k, S k < length peaks -> (nth k troughs 0 <= nth k rises 0 <= nth (S k) peaks 0)%Z) ->
  cycle_rows peaks troughs rises decays = Ok rows ->
  length rows = length peaks - 1 /\
  (forall j, j < length rows -> nth j rows srow0 =
      {| s_center := nth (S j) peaks 0%Z; s_last := nth j troughs 0%Z; s_next := nth (S j) troughs 0%Z;
         s_zx_rise := nth j rises 0%Z; s_zx_decay := nth (S j) decays 0%Z; s_last_zx := nth j decays 0%Z |}) /\
  Forall row_ordered rows /\ Forall (row_within b n) rows /\ tiled rows /\
  (forall j, S j < length rows -> s_zx_decay (nth j rows srow0) = s_last_zx (nth (S j) rows srow0)).
Proof.
  intros Hint Hne Hb Hd Hr Hdec Hris Hrows.
  destruct (ByC.Proofs.Zerox.interleaved_spec peaks troughs Hint) as (HL & Hpt & Htp).
  destruct (cycle_rows_spec peaks troughs rises decays (eq_sym HL) Hd Hr Hne) as (rows' & E & Hlen & Hnth).
  rewrite Hrows in E. inversion E; subst rows'. clear E.
  fold srow0 in Hnth.
  assert (Hin : forall j, j < length peaks ->
            (b < nth j peaks 0 < n - b)%Z /\ (b < nth j troughs 0 < n - b)%Z).
  { intros j Hj. split; apply Hb; [left|right]; apply nth_In; lia. }
  split; [exact Hlen|]. split; [exact Hnth|]. split; [|split; [|split]].
  - apply (Forall_nth_iff _ _ srow0). intros j Hj. rewrite (Hnth j Hj).
    unfold row_ordered. cbn [s_center s_last s_next s_zx_rise s_zx_decay s_last_zx].
    pose proof (Hpt (S j) ltac:(lia)). pose proof (Htp j ltac:(lia)).
    pose proof (Hdec j ltac:(lia)). pose proof (Hdec (S j) ltac:(lia)).
    pose proof (Hris j ltac:(lia)). lia.
  - apply (Forall_nth_iff _ _ srow0). intros j Hj. rewrite (Hnth j Hj).
    unfold row_within. cbn [s_center s_last s_next s_zx_rise s_zx_decay s_last_zx].
    pose proof (Hin j ltac:(lia)). pose proof (Hin (S j) ltac:(lia)).
    pose proof (Hdec j ltac:(lia)). lia.
  - apply tiled_nth. intros j Hj. rewrite (Hnth j), (Hnth (S j)) by lia. reflexivity.
  - intros j Hj. rewrite (Hnth j), (Hnth (S j)) by lia. reflexivity.
Qed.

(* everything that is known about a successful shape_table, in the peak frame *)
Lemma shape_table_facts c raw k b tab :
  shape_table c raw k b = Ok tab ->
  length raw + 2 * k_padn k = length (k_pos k) -> (0 <= b)%Z ->
  exists peaks troughs rises decays,
    find_extrema (xin c raw k b) = Ok (peaks, troughs) /\
    interleaved peaks troughs /\
    (forall z, In z peaks \/ In z troughs -> (b < z < Z.of_nat (length raw) - b)%Z) /\
    find_zerox (sigc c raw) peaks troughs = Ok (rises, decays) /\
    tab = table_of c raw k (peak_frame c (map fst tab)) /\
    let rows := peak_frame c (map fst tab) in
    rows <> [] /\ length rows = length peaks - 1 /\
    (forall j, j < length rows -> nth j rows srow0 =
      {| s_center := nth (S j) peaks 0%Z; s_last := nth j troughs 0%Z; s_next := nth (S j) troughs 0%Z;
         s_zx_rise := nth j rises 0%Z; s_zx_decay := nth (S j) decays 0%Z; s_last_zx := nth j decays 0%Z |}) /\
    Forall row_ordered rows /\ Forall (row_within b (Z.of_nat (length raw))) rows /\ tiled rows /\
    (forall j, S j < length rows -> s_zx_decay (nth j rows srow0) = s_last_zx (nth (S j) rows srow0)).
Proof.
  intros H Hlen Hb0.
  destruct (shape_table_struct _ _ _ _ _ H Hlen)
    as (peaks & troughs & rises & decays & E1 & Hint & Hbd & E2 & _ & _ & Etab & E3 & Hne & _).
  destruct (extrema_facts _ _ _ _ _ _ Hlen E1) as (_ & Hpne & _ & _).
  assert (HFp : Forall (fun z => (0 <= z < Z.of_nat (length (sigc c raw)))%Z) peaks).
  { rewrite sigc_length. apply Forall_forall. intros z Hz. specialize (Hbd z (or_introl Hz)). lia. }
  assert (HFt : Forall (fun z => (0 <= z < Z.of_nat (length (sigc c raw)))%Z) troughs).
  { rewrite sigc_length. apply Forall_forall. intros z Hz. specialize (Hbd z (or_intror Hz)). lia. }
  destruct (ByC.Proofs.Zerox.find_zerox_ordering _ _ _ _ _ Hint Hpne HFp HFt E2) as (Hd & Hr & Hdec & Hris).
  exists peaks, troughs, rises, decays.
  split; [exact E1|]. split; [exact Hint|]. split; [exact Hbd|]. split; [exact E2|].
  split; [exact Etab|]. split; [exact Hne|].
  exact (rows_facts _ _ _ _ _ _ _ Hint Hpne Hbd Hd Hr Hdec Hris E3).
Qed.

(* ------------------------------------------------------------------------- *)
(* T2: every row is ordered, inside the boundary, and the rows tile          *)
(* ------------------------------------------------------------------------- *)

Theorem shape_table_rows_peak raw k b tab :
  shape_table Peak raw k b = Ok tab ->
  length raw + 2 * k_padn k = length (k_pos k) -> (0 <= b)%Z ->
  let rows := map fst tab in
  rows <> [] /\ Forall row_ordered rows /\
  Forall (row_within b (Z.of_nat (length raw))) rows /\ tiled rows /\
  (forall j, S j < length rows ->
     s_zx_decay (nth j rows (Build_srow 0 0 0 0 0 0)) = s_last_zx (nth (S j) rows (Build_srow 0 0 0 0 0 0))).
Proof.
  intros H Hlen Hb.
  destruct (shape_table_facts _ _ _ _ _ H Hlen Hb)
    as (peaks & troughs & rises & decays & _ & _ & _ & _ & _ & Hne & _ & _ & Ho & Hw & Ht & Hm).
  cbn [peak_frame] in *. cbv zeta. repeat split; assumption.
Qed.

Theorem shape_table_rows_trough raw k b tab :
  shape_table Trough raw k b = Ok tab ->
  length raw + 2 * k_padn k = length (k_pos k) -> (0 <= b)%Z ->
  let rows := map fst tab in
  rows <> [] /\ Forall (fun r => row_ordered (rename_srow r)) rows /\
  Forall (fun r => row_within b (Z.of_nat (length raw)) (rename_srow r)) rows /\ tiled rows /\
  (forall j, S j < length rows ->
     s_zx_decay (nth j (map rename_srow rows) (Build_srow 0 0 0 0 0 0)) =
     s_last_zx (nth (S j) (map rename_srow rows) (Build_srow 0 0 0 0 0 0))).
Proof.
  intros H Hlen Hb.
  destruct (shape_table_facts _ _ _ _ _ H Hlen Hb)
    as (peaks & troughs & rises & decays & _ & _ & _ & _ & _ & Hne & _ & _ & Ho & Hw & Ht & Hm).
  cbn [peak_frame] in *. cbv zeta. rewrite map_length in Hm.
  split; [intros E; apply Hne; rewrite E; reflexivity|].
  split; [rewrite Forall_map in Ho; exact Ho|].
  split; [rewrite Forall_map in Hw; exact Hw|].
  split; [apply tiled_map_rename; exact Ht|exact Hm].
Qed.

Theorem shape_table_rows c raw k b tab :
  shape_table c raw k b = Ok tab ->
  length raw + 2 * k_padn k = length (k_pos k) -> (0 <= b)%Z ->
  let rows := map fst tab in
  rows <> [] /\ Forall (row_ordered_c c) rows /\
  Forall (fun r => row_within b (Z.of_nat (length raw))
                     (match c with Peak => r | Trough => rename_srow r end)) rows /\
  tiled rows /\
  (forall j, S j < length rows ->
     s_zx_decay (nth j (match c with Peak => rows | Trough => map rename_srow rows end) (Build_srow 0 0 0 0 0 0)) =
     s_last_zx (nth (S j) (match c with Peak => rows | Trough => map rename_srow rows end) (Build_srow 0 0 0 0 0 0))).
Proof.
  destruct c; [apply shape_table_rows_peak|apply shape_table_rows_trough].
Qed.

(* the midpoint sharing as the user of a trough-centred table reads it: the rise midpoint that
   closes row j (its sample_zerox_rise) is the sample_last_zerox_rise of row j+1 *)
Corollary shape_table_trough_midpoint raw k b tab :
  shape_table Trough raw k b = Ok tab ->
  length raw + 2 * k_padn k = length (k_pos k) -> (0 <= b)%Z ->
  let rows := map fst tab in
  forall j, S j < length rows -> s_zx_rise (nth j rows srow0) = s_last_zx (nth (S j) rows srow0).
Proof.
  intros H Hlen Hb rows j Hj.
  destruct (shape_table_rows_trough _ _ _ _ H Hlen Hb) as (_ & _ & _ & _ & Hm).
  specialize (Hm j Hj). fold srow0 in Hm. rewrite !nth_map_rename in Hm. exact Hm.
Qed.

(* with row_ordered, row_within bounds all six sample indices *)
Lemma row_all_within b n r :
  row_ordered r -> row_within b n r ->
  (b < s_last_zx r < n - b)%Z /\ (b < s_last r < n - b)%Z /\ (b < s_zx_rise r < n - b)%Z /\
  (b < s_center r < n - b)%Z /\ (b < s_zx_decay r < n - b)%Z /\ (b < s_next r < n - b)%Z.
Proof. unfold row_ordered, row_within. lia. Qed.

(* the rows are strictly increasing in time: no overlap, no gap *)
Lemma tiled_ordered_chain rows :
  Forall row_ordered rows -> tiled rows ->
  forall i j, i < j -> j < length rows ->
    (s_next (nth i rows srow0) <= s_last (nth j rows srow0))%Z.
Proof.
  intros Ho Ht. rewrite tiled_nth in Ht. rewrite (Forall_nth_iff _ _ srow0) in Ho.
  intros i j Hij. induction Hij as [|j Hij IH]; intros Hj.
  - rewrite (Ht i Hj). lia.
  - specialize (IH ltac:(lia)). rewrite <- (Ht j Hj).
    pose proof (Ho j ltac:(lia)) as Hoj. unfold row_ordered in Hoj. lia.
Qed.

(* ------------------------------------------------------------------------- *)
(* T3: one row per cycle, strict alternation                                 *)
(* ------------------------------------------------------------------------- *)

(* no assumption on the boundary is needed here *)
Theorem shape_table_count c raw k b tab :
  shape_table c raw k b = Ok tab ->
  length raw + 2 * k_padn k = length (k_pos k) ->
  exists peaks troughs,
    find_extrema (xin c raw k b) = Ok (peaks, troughs) /\
    interleaved peaks troughs /\
    length tab = length peaks - 1 /\ 2 <= length peaks /\
    (forall j, j < length tab ->
       let r := nth j (match c with Peak => map fst tab | Trough => map rename_srow (map fst tab) end)
                    (Build_srow 0 0 0 0 0 0) in
       s_center r = nth (S j) peaks 0%Z /\ s_last r = nth j troughs 0%Z /\ s_next r = nth (S j) troughs 0%Z /\
       (s_last r < s_center r < s_next r)%Z) /\
    (forall j, S j < length tab ->
       s_next (nth j (map fst tab) (Build_srow 0 0 0 0 0 0)) =
       s_last (nth (S j) (map fst tab) (Build_srow 0 0 0 0 0 0))).
Proof.
  intros H Hlen.
  destruct (shape_table_struct _ _ _ _ _ H Hlen)
    as (peaks & troughs & rises & decays & E1 & Hint & _ & _ & _ & _ & _ & _ & Hne & Hl & Hnth).
  destruct (ByC.Proofs.Zerox.interleaved_spec peaks troughs Hint) as (HL & Hpt & Htp).
  change (match c with Peak => map fst tab | Trough => map rename_srow (map fst tab) end)
    with (peak_frame c (map fst tab)).
  rewrite peak_frame_length, map_length in Hl, Hnth.
  assert (Hpos : 0 < length tab).
  { destruct tab; [|cbn [length]; lia]. exfalso. apply Hne. destruct c; reflexivity. }
  exists peaks, troughs. split; [exact E1|]. split; [exact Hint|]. split; [exact Hl|]. split; [lia|].
  split.
  - intros j Hj. cbv zeta. fold srow0. rewrite (Hnth j Hj).
    cbn [s_center s_last s_next].
    pose proof (Hpt (S j) ltac:(lia)). pose proof (Htp j ltac:(lia)).
    repeat split; try reflexivity; lia.
  - intros j Hj. fold srow0.
    pose proof (Hnth j ltac:(lia)) as H1. pose proof (Hnth (S j) Hj) as H2.
    rewrite nth_peak_frame in H1, H2.
    destruct c.
    + rewrite H1, H2. reflexivity.
    + apply (f_equal s_next) in H1. apply (f_equal s_last) in H2.
      cbn [rename_srow s_next s_last] in H1, H2. rewrite H1, H2. reflexivity.
Qed.

(* ------------------------------------------------------------------------- *)
(* T4: success / failure                                                     *)
(* ------------------------------------------------------------------------- *)

(* once find_extrema and find_zerox have succeeded, the row assembly cannot raise pandas'
   ValueError: the six shifted slices have equal lengths *)
Lemma shape_table_after_zerox c raw k b peaks troughs rises decays :
  length raw + 2 * k_padn k = length (k_pos k) ->
  find_extrema (xin c raw k b) = Ok (peaks, troughs) ->
  find_zerox (sigc c raw) peaks troughs = Ok (rises, decays) ->
  exists rows, length rows = length peaks - 1 /\
    cycle_rows peaks troughs rises decays = Ok rows /\
    shape_table c raw k b = match rows with [] => Err EIndex | _ => Ok (table_of c raw k rows) end.
Proof.
  intros Hlen E1 E2.
  destruct (extrema_facts _ _ _ _ _ _ Hlen E1) as (Hint & Hpne & HL & _).
  destruct (find_zerox_ok_lengths _ _ _ _ _ Hint E2) as (Hd & Hr).
  destruct (cycle_rows_spec peaks troughs rises decays HL Hd Hr Hpne) as (rows & E3 & Hl & _).
  exists rows. split; [exact Hl|]. split; [exact E3|].
  exact (shape_table_fwd _ _ _ _ _ _ _ _ _ E1 E2 E3).
Qed.

(* with a non-negative boundary find_zerox is total on what find_extrema returns *)
Lemma shape_table_after_extrema c raw k b peaks troughs :
  length raw + 2 * k_padn k = length (k_pos k) -> (0 <= b)%Z ->
  find_extrema (xin c raw k b) = Ok (peaks, troughs) ->
  exists rows, length rows = length peaks - 1 /\
    shape_table c raw k b = match rows with [] => Err EIndex | _ => Ok (table_of c raw k rows) end.
Proof.
  intros Hlen Hb0 E1.
  destruct (extrema_facts _ _ _ _ _ _ Hlen E1) as (Hint & Hpne & HL & Hbd).
  assert (HFp : Forall (fun z => (0 <= z < Z.of_nat (length (sigc c raw)))%Z) peaks).
  { rewrite sigc_length. apply Forall_forall. intros z Hz. specialize (Hbd z (or_introl Hz)). lia. }
  assert (HFt : Forall (fun z => (0 <= z < Z.of_nat (length (sigc c raw)))%Z) troughs).
  { rewrite sigc_length. apply Forall_forall. intros z Hz. specialize (Hbd z (or_intror Hz)). lia. }
  destruct (ByC.Proofs.Zerox.find_zerox_peak_first _ _ _ Hint Hpne HFp HFt)
    as (rises & decays & E2 & _).
  destruct (shape_table_after_zerox _ _ _ _ _ _ _ _ Hlen E1 E2) as (rows & Hl & _ & E).
  exists rows. split; assumption.
Qed.

(* success implies at least two surviving peaks (and as many troughs): any boundary *)
Theorem shape_table_ok_only_if c raw k b tab :
  length raw + 2 * k_padn k = length (k_pos k) ->
  shape_table c raw k b = Ok tab ->
  exists peaks troughs, find_extrema (xin c raw k b) = Ok (peaks, troughs) /\
    2 <= length peaks /\ length troughs = length peaks.
Proof.
  intros Hlen H.
  destruct (shape_table_count _ _ _ _ _ H Hlen) as (peaks & troughs & E1 & Hint & _ & H2 & _).
  exists peaks, troughs. split; [exact E1|]. split; [exact H2|].
  symmetry. exact (proj1 (ByC.Proofs.Zerox.interleaved_spec peaks troughs Hint)).
Qed.

(* The equivalence needs a non-negative boundary: with boundary < 0 and padding, extrema of
   the padded signal that lie outside [0, n) survive the boundary filter and find_zerox
   raises IndexError on them (see shape_table_ok_iff_needs_boundary below). *)
Theorem shape_table_ok_iff_partial c raw k b :
  length raw + 2 * k_padn k = length (k_pos k) -> (0 <= b)%Z ->
  (exists tab, shape_table c raw k b = Ok tab) <->
  exists peaks troughs, find_extrema (xin c raw k b) = Ok (peaks, troughs) /\ 2 <= length peaks.
Proof.
  intros Hlen Hb. split.
  - intros (tab & H). destruct (shape_table_ok_only_if _ _ _ _ _ Hlen H) as (peaks & troughs & E1 & H2 & _).
    exists peaks, troughs. split; assumption.
  - intros (peaks & troughs & E1 & H2).
    destruct (shape_table_after_extrema _ _ _ _ _ _ Hlen Hb E1) as (rows & Hl & E).
    destruct rows as [|r0 rows']; [cbn [length] in Hl; lia|].
    eexists. exact E.
Qed.

(* the only error classes: Degenerate (a crossing kind is missing: outside every property) or
   IndexError (too few extrema survive, or an extremum lies outside the signal).  In
   particular pandas' ValueError of cycle_rows is unreachable.  Any boundary. *)
Theorem shape_table_err c raw k b e :
  length raw + 2 * k_padn k = length (k_pos k) ->
  shape_table c raw k b = Err e -> e = EDegenerate \/ e = EIndex.
Proof.
  intros Hlen H.
  destruct (find_extrema (xin c raw k b)) as [[peaks troughs]|e1] eqn:E1.
  - right. destruct (find_zerox (sigc c raw) peaks troughs) as [[rises decays]|e2] eqn:E2.
    + destruct (shape_table_after_zerox _ _ _ _ _ _ _ _ Hlen E1 E2) as (rows & _ & _ & E).
      rewrite E in H. destruct rows; [|discriminate]. inversion H. reflexivity.
    + assert (e = e2).
      { unfold shape_table in H. cbv zeta in H. rewrite E1 in H. cbn [bind fst snd] in H.
        rewrite E2 in H. cbn [bind] in H. inversion H; reflexivity. }
      subst e2. exact (find_zerox_err _ _ _ _ E2).
  - assert (e = e1).
    { unfold shape_table in H. cbv zeta in H. rewrite E1 in H. cbn [bind] in H. inversion H; reflexivity. }
    subst e1.
    destruct (raw_extrema (k_pos k) (pad (k_padn k) (sigc c raw))) as [[pk tr]|e0] eqn:Eraw.
    + right. exact (proj2 (ByC.Proofs.Extrema.find_extrema_err_index (xin c raw k b) pk tr Eraw eq_refl) e E1).
    + left. rewrite (ByC.Proofs.Extrema.find_extrema_raw_err (xin c raw k b) e0 Eraw) in E1.
      inversion E1; subst e0.
      apply (ByC.Proofs.Extrema.raw_extrema_err_only_degenerate _ _ _) in Eraw; [exact Eraw|].
      rewrite ByC.Proofs.Extrema.pad_length, sigc_length. exact Hlen.
Qed.

(* with a non-negative boundary, an IndexError means: fewer than two peaks survive *)
Theorem shape_table_err_index_iff c raw k b :
  length raw + 2 * k_padn k = length (k_pos k) -> (0 <= b)%Z ->
  (shape_table c raw k b = Err EIndex <->
   find_extrema (xin c raw k b) = Err EIndex \/
   exists peaks troughs, find_extrema (xin c raw k b) = Ok (peaks, troughs) /\ length peaks = 1).
Proof.
  intros Hlen Hb. split.
  - intros H. destruct (find_extrema (xin c raw k b)) as [[peaks troughs]|e1] eqn:E1.
    + right. exists peaks, troughs. split; [reflexivity|].
      destruct (extrema_facts _ _ _ _ _ _ Hlen E1) as (_ & Hpne & _).
      destruct (shape_table_after_extrema _ _ _ _ _ _ Hlen Hb E1) as (rows & Hl & E).
      rewrite E in H. destruct rows as [|r0 rows']; [|discriminate].
      destruct peaks as [|p0 [|p1 pr]]; [congruence|reflexivity|cbn [length] in Hl; lia].
    + left. unfold shape_table in H. cbv zeta in H. rewrite E1 in H. cbn [bind] in H.
      inversion H; reflexivity.
  - intros [E1|(peaks & troughs & E1 & H1)].
    + unfold shape_table. cbv zeta. rewrite E1. reflexivity.
    + destruct (shape_table_after_extrema _ _ _ _ _ _ Hlen Hb E1) as (rows & Hl & E).
      rewrite E. destruct rows as [|r0 rows']; [reflexivity|cbn [length] in Hl; lia].
Qed.

(* ------------------------------------------------------------------------- *)
(* T5: lift to compute_features                                              *)
(* ------------------------------------------------------------------------- *)

(* compute_features adds columns to the shape table and neither drops, adds nor reorders rows *)
Theorem compute_features_rows_gen c raw k b m out :
  compute_features c raw k b m = Ok out ->
  exists tab, shape_table c raw k b = Ok tab /\
    map r_s out = map fst tab /\ map r_shape out = map snd tab.
Proof.
  unfold compute_features. cbv zeta.
  destruct (shape_table c raw k b) as [tab|e0] eqn:E; [|discriminate]. cbn [bind].
  intros H. exists tab. split; [reflexivity|].
  destruct m as [t n|mask t n].
  - destruct (amp_consistency _ _ _ _) as [ac|e1]; [|discriminate]. cbn [bind] in H.
    destruct (period_consistency _ _) as [pc|e2]; [|discriminate]. cbn [bind] in H.
    destruct (labels_cycles _ _ _) as [lab|e3]; [|discriminate]. cbn [bind] in H.
    inversion H as [Hout]. clear H Hout. rewrite !map_map. cbn [r_s r_shape]. split.
    + apply map_nth_seq.
    + rewrite map_length. apply (map_nth_seq_gen snd).
  - destruct (labels_amp _ _ _) as [lab|e3]; [|discriminate]. cbn [bind] in H.
    inversion H as [Hout]. clear H Hout. rewrite !map_map. cbn [r_s r_shape]. split.
    + apply map_nth_seq.
    + rewrite map_length. apply (map_nth_seq_gen snd).
Qed.

Theorem compute_features_rows c raw k b m out :
  compute_features c raw k b m = Ok out ->
  length raw + 2 * k_padn k = length (k_pos k) -> (0 <= b)%Z ->
  exists tab, shape_table c raw k b = Ok tab /\
    map r_s out = map fst tab /\ map r_shape out = map snd tab.
Proof. intros H _ _. exact (compute_features_rows_gen _ _ _ _ _ _ H). Qed.

(* hence the table returned by compute_features is a complete, ordered, gap-free segmentation *)
Theorem compute_features_segmentation c raw k b m out :
  compute_features c raw k b m = Ok out ->
  length raw + 2 * k_padn k = length (k_pos k) -> (0 <= b)%Z ->
  let rows := map r_s out in
  (rows <> [] /\ Forall (row_ordered_c c) rows /\
   Forall (fun r => row_within b (Z.of_nat (length raw))
                      (match c with Peak => r | Trough => rename_srow r end)) rows /\
   tiled rows /\
   (forall j, S j < length rows ->
      s_zx_decay (nth j (match c with Peak => rows | Trough => map rename_srow rows end) (Build_srow 0 0 0 0 0 0)) =
      s_last_zx (nth (S j) (match c with Peak => rows | Trough => map rename_srow rows end) (Build_srow 0 0 0 0 0 0)))) /\
  exists peaks troughs,
    find_extrema (xin c raw k b) = Ok (peaks, troughs) /\
    interleaved peaks troughs /\
    length out = length peaks - 1 /\ 2 <= length peaks /\
    (forall j, j < length out ->
       let r := nth j (match c with Peak => rows | Trough => map rename_srow rows end)
                    (Build_srow 0 0 0 0 0 0) in
       s_center r = nth (S j) peaks 0%Z /\ s_last r = nth j troughs 0%Z /\ s_next r = nth (S j) troughs 0%Z /\
       (s_last r < s_center r < s_next r)%Z) /\
    (forall j, S j < length out ->
       s_next (nth j rows (Build_srow 0 0 0 0 0 0)) = s_last (nth (S j) rows (Build_srow 0 0 0 0 0 0))).
Proof.
  intros H Hlen Hb.
  destruct (compute_features_rows_gen _ _ _ _ _ _ H) as (tab & E & Hs & _).
  assert (Hl : length out = length tab).
  { rewrite <- (map_length r_s out), Hs, map_length. reflexivity. }
  cbv zeta. rewrite Hs, Hl. split.
  - exact (shape_table_rows _ _ _ _ _ E Hlen Hb).
  - exact (shape_table_count _ _ _ _ _ E Hlen).
Qed.

Lemma ends_nan_err n f e : ends_nan n f = Err e -> e = EIndex.
Proof. unfold ends_nan. destruct n; [|discriminate]. intros H; inversion H; reflexivity. Qed.

Lemma amp_consistency_err peak d rises decays e :
  amp_consistency peak d rises decays = Err e -> e = EIndex.
Proof.
  unfold amp_consistency, rmap. destruct (ends_nan _ _) as [l|e0] eqn:E; [discriminate|].
  intros H; inversion H; subst e0. exact (ends_nan_err _ _ _ E).
Qed.

Lemma period_consistency_err d periods e : period_consistency d periods = Err e -> e = EIndex.
Proof. unfold period_consistency. apply ends_nan_err. Qed.

Lemma labels_cycles_err t n rows e :
  labels_cycles t n rows = Err e ->
  e = EIndex \/ (e = EValue /\ (thr_valid t = false \/ (n < 0)%Z)).
Proof.
  unfold labels_cycles. destruct (thr_valid t) eqn:Et; cbn [negb].
  - destruct rows as [|r rows']; [intros H; inversion H; left; reflexivity|].
    destruct (n <? 0)%Z eqn:En; [|discriminate].
    intros H; inversion H. right. split; [reflexivity|]. right. apply Z.ltb_lt, En.
  - intros H; inversion H. right. split; [reflexivity|]. left. reflexivity.
Qed.

Lemma labels_amp_err t n fr e :
  labels_amp t n fr = Err e ->
  e = EValue /\ (in_range t 0%float 1%float = false \/ (n < 0)%Z).
Proof.
  unfold labels_amp. destruct (in_range t 0%float 1%float) eqn:Et; cbn [negb].
  - destruct fr as [|r fr']; [discriminate|].
    destruct (n <? 0)%Z eqn:En; [|discriminate].
    intros H; inversion H. split; [reflexivity|]. right. apply Z.ltb_lt, En.
  - intros H; inversion H. split; [reflexivity|]. left. reflexivity.
Qed.

Lemma in_range_false t lo hi :
  in_range t lo hi = false <-> (t <? lo)%float = true \/ (hi <? t)%float = true.
Proof. unfold in_range. rewrite negb_false_iff, orb_true_iff. reflexivity. Qed.

(* error classes of the whole modelled pipeline: a ValueError only for invalid thresholds
   (thr_valid t = false, or the amplitude-fraction threshold outside [0, 1], see in_range_false)
   or a negative min_n_cycles.  Any boundary. *)
Theorem compute_features_err c raw k b m e :
  compute_features c raw k b m = Err e ->
  length raw + 2 * k_padn k = length (k_pos k) ->
  e = EDegenerate \/ e = EIndex \/
  (e = EValue /\
   match m with
   | Cycles t n => thr_valid t = false \/ (n < 0)%Z
   | Amp _ t n => in_range t 0%float 1%float = false \/ (n < 0)%Z
   end).
Proof.
  intros H Hlen. unfold compute_features in H. cbv zeta in H.
  destruct (shape_table c raw k b) as [tab|e0] eqn:E; cbn [bind] in H.
  - destruct m as [t n|mask t n].
    + destruct (amp_consistency _ _ _ _) as [ac|e1] eqn:E1; cbn [bind] in H.
      2:{ inversion H; subst e1. right; left. exact (amp_consistency_err _ _ _ _ _ E1). }
      destruct (period_consistency _ _) as [pc|e2] eqn:E2; cbn [bind] in H.
      2:{ inversion H; subst e2. right; left. exact (period_consistency_err _ _ _ E2). }
      destruct (labels_cycles _ _ _) as [lab|e3] eqn:E3; cbn [bind] in H; [discriminate|].
      inversion H; subst e3. destruct (labels_cycles_err _ _ _ _ E3) as [->|[-> Hc]].
      * right; left; reflexivity.
      * right; right. split; [reflexivity|exact Hc].
    + destruct (labels_amp _ _ _) as [lab|e3] eqn:E3; cbn [bind] in H; [discriminate|].
      inversion H; subst e3. destruct (labels_amp_err _ _ _ _ E3) as [-> Hc].
      right; right. split; [reflexivity|exact Hc].
  - inversion H; subst e0. destruct (shape_table_err _ _ _ _ _ Hlen E) as [->| ->].
    + left; reflexivity.
    + right; left; reflexivity.
Qed.

(* ------------------------------------------------------------------------- *)
(* T6: non-vacuity                                                           *)
(* ------------------------------------------------------------------------- *)

(* a square wave of period 8 over 40 samples and a matching triangle-like signal *)
Definition ex_pos : list bool := map (fun i => Nat.ltb (Nat.modulo i 8) 4) (seq 0 40).
Definition ex_wave : list float := [5; 6; 7; 5; 3; 2; 1; 3]%float.
Definition ex_raw : list float := map (fun i => nth (Nat.modulo i 8) ex_wave 0%float) (seq 0 40).
Definition ex_k : kernels := {| k_pos := ex_pos; k_padn := 0; k_amp := repeat 1%float 40 |}.
(* for trough centring the harness supplies the kernels of the negated signal *)
Definition ex_kt : kernels := {| k_pos := map negb ex_pos; k_padn := 0; k_amp := repeat 1%float 40 |}.

Example ex_hyp : length ex_raw + 2 * k_padn ex_k = length (k_pos ex_k) /\
                 length ex_raw + 2 * k_padn ex_kt = length (k_pos ex_kt).
Proof. split; vm_compute; reflexivity. Qed.

Example shape_table_peak_example :
  rmap (map fst) (shape_table Peak ex_raw ex_k 0) =
  Ok [ {| s_center := 18; s_last := 14; s_next := 22; s_zx_rise := 15; s_zx_decay := 19; s_last_zx := 11 |};
       {| s_center := 26; s_last := 22; s_next := 30; s_zx_rise := 23; s_zx_decay := 27; s_last_zx := 19 |} ].
Proof. vm_compute. reflexivity. Qed.

Example shape_table_peak_nonvacuous :
  exists tab, shape_table Peak ex_raw ex_k 0 = Ok tab /\ 2 <= length tab.
Proof.
  destruct (shape_table Peak ex_raw ex_k 0) as [tab|e] eqn:E.
  - exists tab. split; [reflexivity|].
    pose proof shape_table_peak_example as H. rewrite E in H. cbn [rmap] in H.
    inversion H as [H1]. rewrite <- (map_length fst tab), H1. cbn [length]. lia.
  - pose proof shape_table_peak_example as H. rewrite E in H. discriminate.
Qed.

(* trough-centred: the decay midpoint precedes the centre, the rise midpoint follows it *)
Example shape_table_trough_example :
  rmap (map fst) (shape_table Trough ex_raw ex_kt 0) =
  Ok [ {| s_center := 14; s_last := 10; s_next := 18; s_zx_rise := 15; s_zx_decay := 11; s_last_zx := 7 |};
       {| s_center := 22; s_last := 18; s_next := 26; s_zx_rise := 23; s_zx_decay := 19; s_last_zx := 15 |};
       {| s_center := 30; s_last := 26; s_next := 34; s_zx_rise := 31; s_zx_decay := 27; s_last_zx := 23 |} ].
Proof. vm_compute. reflexivity. Qed.

Example compute_features_example :
  rmap (map r_s) (compute_features Peak ex_raw ex_k 0
                    (Cycles {| t_af := 0.5; t_ac := 0.5; t_pc := 0.5; t_mo := 0.5 |} 1)) =
  rmap (map fst) (shape_table Peak ex_raw ex_k 0) /\
  rmap (map r_s) (compute_features Peak ex_raw ex_k 0 (Amp (repeat true 40) 0.5%float 1)) =
  rmap (map fst) (shape_table Peak ex_raw ex_k 0).
Proof. split; vm_compute; reflexivity. Qed.

(* the error classes are all reachable *)
Example shape_table_err_examples :
  shape_table Peak ex_raw {| k_pos := repeat true 40; k_padn := 0; k_amp := repeat 1%float 40 |} 0 = Err EDegenerate /\
  shape_table Peak ex_raw ex_k 12 = Err EIndex /\
  compute_features Peak ex_raw ex_k 0 (Cycles {| t_af := 0.5; t_ac := 0.5; t_pc := 0.5; t_mo := 0.5 |} (-1)) = Err EValue /\
  compute_features Peak ex_raw ex_k 0 (Cycles {| t_af := 1.5; t_ac := 0.5; t_pc := 0.5; t_mo := 0.5 |} 1) = Err EValue.
Proof. repeat split; vm_compute; reflexivity. Qed.

(* shape_table_ok_iff_partial needs 0 <= boundary: here padn = 16 and boundary = -16 keep three
   peaks and three troughs of the padded signal, two of each outside [0, 8), and find_zerox
   raises IndexError although two peaks and two troughs survive *)
Definition cx_raw : list float := firstn 8 ex_raw.
Definition cx_k : kernels := {| k_pos := ex_pos; k_padn := 16; k_amp := repeat 1%float 8 |}.
Example shape_table_ok_iff_needs_boundary :
  length cx_raw + 2 * k_padn cx_k = length (k_pos cx_k) /\
  find_extrema {| x_pos := k_pos cx_k; x_raw := cx_raw; x_padn := k_padn cx_k; x_boundary := (-16)%Z; x_first := FPeak |}
    = Ok ([-9; 2; 7]%Z, [-5; 6; 11]%Z) /\
  shape_table Peak cx_raw cx_k (-16) = Err EIndex.
Proof. repeat split; vm_compute; reflexivity. Qed.
