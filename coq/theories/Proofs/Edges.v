(* Proofs about edge recomputation (Model/Edges.v, C16): which cycles are edges, what one
   recomputation step and the whole pass may change, the re-labelling, and growth of bursts. *)
From Coq Require Import List Bool Arith ZArith Lia Sorted.
From Coq Require Import Floats.PrimFloat.
Import ListNotations.
From ByC Require Import Base.Result Base.ListAux Base.FloatBase
  Model.Runs Model.Labels Model.BurstFeat Model.Edges
  Proofs.Runs Proofs.Labels Proofs.LabelsOrder Proofs.BurstFeat.

Local Open Scope nat_scope.

(* ------------------------------------------------------------------ *)
(* D1: transitions                                                      *)

Lemma transitions_cons2 k x y t :
  transitions k (x :: y :: t) =
  if Bool.eqb x y then transitions (S k) (y :: t) else k :: transitions (S k) (y :: t).
Proof. reflexivity. Qed.

Lemma transitions_In k lab i :
  In i (transitions k lab) <->
  k <= i /\ S (i - k) < length lab /\ nth (i - k) lab false <> nth (S (i - k)) lab false.
Proof.
  revert k. induction lab as [|x t IH]; intros k.
  { cbn. split; [intros []|]. intros (_ & H & _). lia. }
  destruct t as [|y t'].
  { cbn. split; [intros []|]. intros (_ & H & _). lia. }
  rewrite transitions_cons2.
  assert (Hshift : forall i, S k <= i ->
    (k <= i /\ S (i - k) < length (x :: y :: t') /\
       nth (i - k) (x :: y :: t') false <> nth (S (i - k)) (x :: y :: t') false) <->
    (S k <= i /\ S (i - S k) < length (y :: t') /\
       nth (i - S k) (y :: t') false <> nth (S (i - S k)) (y :: t') false)).
  { intros j Hj. replace (j - k) with (S (j - S k)) by lia.
    cbn [length nth]. split; intros (H1 & H2 & H3); repeat split; try lia; exact H3. }
  destruct (Bool.eqb x y) eqn:E.
  - rewrite (IH (S k)). apply eqb_prop in E. subst y.
    destruct (Nat.eq_dec i k) as [->|Hne].
    + rewrite Nat.sub_diag. cbn [nth]. split; [intros (H & _); lia|].
      intros (_ & _ & H). congruence.
    + split.
      * intros H. apply Hshift; [apply H|exact H].
      * intros H. apply Hshift; [lia|exact H].
  - cbn [In]. rewrite (IH (S k)). apply eqb_false_iff in E.
    destruct (Nat.eq_dec i k) as [->|Hne].
    + rewrite Nat.sub_diag. cbn [nth length]. split; [|intros _; left; reflexivity].
      intros _. repeat split; try lia. exact E.
    + split.
      * intros [H|H]; [congruence|]. apply Hshift; [apply H|exact H].
      * intros H. right. apply Hshift; [lia|exact H].
Qed.

Lemma transitions_ge k lab i : In i (transitions k lab) -> k <= i.
Proof. intros H. apply transitions_In in H. apply H. Qed.

Lemma transitions_sorted k lab : StronglySorted lt (transitions k lab).
Proof.
  revert k. induction lab as [|x t IH]; intros k; [constructor|].
  destruct t as [|y t']; [constructor|].
  rewrite transitions_cons2. destruct (Bool.eqb x y).
  - apply IH.
  - constructor; [apply IH|]. apply Forall_forall. intros j Hj.
    apply transitions_ge in Hj. lia.
Qed.

(* an index strictly between two consecutive elements of a sorted list is not in the list *)
Lemma sorted_gap pre i j post m :
  StronglySorted lt (pre ++ i :: j :: post) -> i < m < j -> ~ In m (pre ++ i :: j :: post).
Proof.
  induction pre as [|a pre IH]; cbn [app]; intros Hs Hm Hin.
  - apply StronglySorted_inv in Hs as [Hs _].
    apply StronglySorted_inv in Hs as [_ Hf].
    rewrite Forall_forall in Hf.
    destruct Hin as [->|[->|Hin]]; try lia. specialize (Hf m Hin). lia.
  - apply StronglySorted_inv in Hs as [Hs Hf]. rewrite Forall_forall in Hf.
    destruct Hin as [->|Hin].
    + specialize (Hf i (in_elt i pre (j :: post))). lia.
    + exact (IH Hs Hm Hin).
Qed.

(* between two consecutive transitions the label is constant *)
Lemma transitions_between k lab pre i j post :
  transitions k lab = pre ++ i :: j :: post ->
  forall m, i < m <= j -> nth (m - k) lab false = nth (S (i - k)) lab false.
Proof.
  intros Htr.
  assert (Hi : In i (transitions k lab)) by (rewrite Htr; apply in_elt).
  assert (Hj : In j (transitions k lab)).
  { rewrite Htr. apply in_or_app. right. right. left. reflexivity. }
  apply transitions_In in Hi as (Hki & _ & _).
  apply transitions_In in Hj as (Hkj & Hjl & _).
  induction m as [|m IHm]; intros Hm; [lia|].
  destruct (Nat.eq_dec m i) as [->|Hne].
  { replace (S i - k) with (S (i - k)) by lia. reflexivity. }
  rewrite <- IHm by lia.
  assert (Hnot : ~ In m (transitions k lab)).
  { rewrite Htr. apply sorted_gap; [rewrite <- Htr; apply transitions_sorted|lia]. }
  rewrite transitions_In in Hnot.
  replace (S m - k) with (S (m - k)) by lia.
  destruct (bool_dec (nth (m - k) lab false) (nth (S (m - k)) lab false)) as [E|E];
    [symmetry; exact E|].
  exfalso. apply Hnot. repeat split; try lia. exact E.
Qed.

(* D1: the label flips at each transition, so consecutive transitions alternate direction *)
Theorem transitions_alternate k lab pre i j post :
  transitions k lab = pre ++ i :: j :: post ->
  i < j /\
  nth (S (i - k)) lab false = negb (nth (i - k) lab false) /\
  nth (j - k) lab false = nth (S (i - k)) lab false /\
  nth (S (j - k)) lab false = nth (i - k) lab false.
Proof.
  intros Htr.
  assert (Hi : In i (transitions k lab)) by (rewrite Htr; apply in_elt).
  assert (Hj : In j (transitions k lab)).
  { rewrite Htr. apply in_or_app. right. right. left. reflexivity. }
  assert (Hlt : i < j).
  { pose proof (transitions_sorted k lab) as Hs. rewrite Htr in Hs. clear -Hs.
    induction pre as [|a pre IH]; cbn [app] in Hs.
    - apply StronglySorted_inv in Hs as [_ Hf]. rewrite Forall_forall in Hf.
      apply Hf. left. reflexivity.
    - apply StronglySorted_inv in Hs as [Hs _]. exact (IH Hs). }
  pose proof (transitions_between k lab pre i j post Htr j ltac:(lia)) as Hb.
  apply transitions_In in Hi as (_ & _ & Hi).
  apply transitions_In in Hj as (_ & _ & Hj).
  rewrite Hb in Hj.
  destruct (nth (i - k) lab false), (nth (S (i - k)) lab false), (nth (S (j - k)) lab false),
    (nth (j - k) lab false); cbn; repeat split; congruence.
Qed.

(* ------------------------------------------------------------------ *)
(* D2: edges are non-burst cycles adjacent to a burst                   *)

(* (s, e) delimits a burst of the table whose first row has index k *)
Definition burst_between (k : nat) (lab : list bool) (s e : nat) : Prop :=
  k <= s /\ S s < e /\ e - k < length lab /\
  nth (s - k) lab false = false /\ nth (e - k) lab false = false /\
  forall j, s < j < e -> nth (j - k) lab false = true.

Lemma burst_between_shift k x t s e :
  burst_between (S k) t s e -> burst_between k (x :: t) s e.
Proof.
  intros (H1 & H2 & H3 & H4 & H5 & H6).
  unfold burst_between.
  replace (s - k) with (S (s - S k)) by lia.
  replace (e - k) with (S (e - S k)) by lia.
  cbn [nth length]. repeat split; try lia; try assumption.
  intros j Hj. replace (j - k) with (S (j - S k)) by lia. cbn [nth]. apply H6. exact Hj.
Qed.

Lemma edge_pairs_gen lab : forall k,
  (nth 0 lab false = false ->
     forall s e, In (s, e) (edge_pairs (transitions k lab)) -> burst_between k lab s e) /\
  (nth 0 lab false = true ->
     forall e0 rest, transitions k lab = e0 :: rest ->
       (k <= e0 /\ S (e0 - k) < length lab /\
        (forall j, k <= j <= e0 -> nth (j - k) lab false = true) /\
        nth (S (e0 - k)) lab false = false) /\
       forall s e, In (s, e) (edge_pairs rest) -> burst_between k lab s e).
Proof.
  induction lab as [|x t IH]; intros k.
  { split; [intros _ s e []|cbn; discriminate]. }
  destruct t as [|y t'].
  { split; [intros _ s e []|cbn [transitions]; intros _ e0 rest; discriminate]. }
  rewrite transitions_cons2. destruct (IH (S k)) as [IHf IHt]. cbn [nth] in IHf, IHt.
  split; cbn [nth]; intros Hx; subst x.
  - destruct y; cbn [Bool.eqb].
    + (* a burst starts at k *)
      specialize (IHt eq_refl).
      destruct (transitions (S k) (true :: t')) as [|e0 rest] eqn:Etr; [intros s e []|].
      destruct (IHt e0 rest eq_refl) as ((Hk & Hlen & Hall & Hend) & Hrest).
      cbn [edge_pairs In]. intros s e [Heq|Hin].
      * injection Heq as <- <-. unfold burst_between.
        rewrite Nat.sub_diag. replace (S e0 - k) with (S (S (e0 - S k))) by lia.
        cbn [nth length] in *. repeat split; try lia; try assumption.
        intros j Hj. replace (j - k) with (S (j - S k)) by lia. cbn [nth].
        apply Hall. lia.
      * apply burst_between_shift. apply Hrest. exact Hin.
    + intros s e Hin. apply burst_between_shift. apply (IHf eq_refl). exact Hin.
  - destruct y; cbn [Bool.eqb].
    + intros e0 rest Etr. destruct (IHt eq_refl e0 rest Etr) as ((Hk & Hlen & Hall & Hend) & Hrest).
      split.
      * replace (e0 - k) with (S (e0 - S k)) by lia. cbn [nth length].
        split; [lia|]. split; [cbn [length] in Hlen; lia|]. split.
        -- intros j Hj. destruct (Nat.eq_dec j k) as [->|Hne].
           ++ rewrite Nat.sub_diag. reflexivity.
           ++ replace (j - k) with (S (j - S k)) by lia. cbn [nth]. apply Hall. lia.
        -- exact Hend.
      * intros s e Hin. apply burst_between_shift. apply Hrest. exact Hin.
    + intros e0 rest Etr. injection Etr as <- <-. split.
      * rewrite Nat.sub_diag. cbn [nth length]. split; [lia|]. split; [lia|]. split; [|reflexivity].
        intros j Hj. replace (j - k) with 0 by lia. reflexivity.
      * intros s e Hin. apply burst_between_shift. apply (IHf eq_refl). exact Hin.
Qed.

Theorem edge_pairs_spec lab s e :
  nth 0 lab false = false -> In (s, e) (edge_pairs (transitions 0 lab)) ->
  nth s lab false = false /\ nth (S s) lab false = true /\ nth (e - 1) lab false = true /\
  nth e lab false = false /\ s < e /\ e < length lab.
Proof.
  intros H0 Hin. destruct (proj1 (edge_pairs_gen lab 0) H0 s e Hin) as (_ & H2 & H3 & H4 & H5 & H6).
  rewrite Nat.sub_0_r in *.
  repeat split; try assumption; try lia.
  - specialize (H6 (S s) ltac:(lia)). rewrite Nat.sub_0_r in H6. exact H6.
  - specialize (H6 (e - 1) ltac:(lia)). rewrite Nat.sub_0_r in H6. exact H6.
Qed.

Theorem edge_pairs_between lab s e :
  nth 0 lab false = false -> In (s, e) (edge_pairs (transitions 0 lab)) ->
  S s < e /\ forall j, s < j < e -> nth j lab false = true.
Proof.
  intros H0 Hin. destruct (proj1 (edge_pairs_gen lab 0) H0 s e Hin) as (_ & H2 & _ & _ & _ & H6).
  split; [exact H2|]. intros j Hj. specialize (H6 j Hj). rewrite Nat.sub_0_r in H6. exact H6.
Qed.

Definition is_edge (lab : list bool) (i : nat) : Prop :=
  exists s e, In (s, e) (edge_pairs (transitions 0 lab)) /\ (i = s \/ i = e).

Theorem is_edge_not_burst lab i :
  nth 0 lab false = false -> is_edge lab i -> nth i lab false = false.
Proof.
  intros H0 (s & e & Hin & Hi). destruct (edge_pairs_spec lab s e H0 Hin) as (Hs & _ & _ & He & _).
  destruct Hi as [->| ->]; assumption.
Qed.

Theorem is_edge_adjacent lab i :
  nth 0 lab false = false -> is_edge lab i ->
  nth (S i) lab false = true \/ (1 <= i /\ nth (i - 1) lab false = true).
Proof.
  intros H0 (s & e & Hin & Hi).
  destruct (edge_pairs_spec lab s e H0 Hin) as (_ & Hs & He & _ & Hlt & _).
  destruct Hi as [->| ->]; [left; exact Hs|right]. split; [lia|exact He].
Qed.

Theorem is_edge_lt lab i : nth 0 lab false = false -> is_edge lab i -> i < length lab.
Proof.
  intros H0 (s & e & Hin & Hi).
  destruct (edge_pairs_spec lab s e H0 Hin) as (_ & _ & _ & _ & Hlt & Hl).
  destruct Hi as [->| ->]; lia.
Qed.

(* ------------------------------------------------------------------ *)
(* D2, converse: with a label column that starts and ends outside a burst, every rising
   transition is the start of a pair and every falling transition (+1) is the end of a pair *)

Lemma nth_true_lt (l : list bool) n : nth n l false = true -> n < length l.
Proof.
  intros Hn. destruct (Nat.lt_ge_cases n (length l)) as [Hlt|Hge]; [exact Hlt|].
  rewrite nth_overflow in Hn by exact Hge. discriminate Hn.
Qed.

Lemma edge_pairs_complete_gen lab : forall k,
  nth (length lab - 1) lab false = false ->
  (nth 0 lab false = false ->
     (forall s, k <= s -> nth (s - k) lab false = false -> nth (S (s - k)) lab false = true ->
        exists e, In (s, e) (edge_pairs (transitions k lab))) /\
     (forall e', k <= e' -> nth (e' - k) lab false = true -> nth (S (e' - k)) lab false = false ->
        exists s, In (s, S e') (edge_pairs (transitions k lab)))) /\
  (nth 0 lab false = true ->
     exists e0 rest, transitions k lab = e0 :: rest /\
       (forall s, k <= s -> nth (s - k) lab false = false -> nth (S (s - k)) lab false = true ->
          exists e, In (s, e) (edge_pairs rest)) /\
       (forall e', k <= e' -> nth (e' - k) lab false = true -> nth (S (e' - k)) lab false = false ->
          e' = e0 \/ exists s, In (s, S e') (edge_pairs rest))).
Proof.
  induction lab as [|x t IH]; intros k Hlast.
  { split; [intros _|cbn; discriminate]. split.
    - intros s _ _ Hs. destruct (s - k); discriminate Hs.
    - intros e' _ He' _. destruct (e' - k); discriminate He'. }
  destruct t as [|y t'].
  { cbn [length Nat.sub nth] in Hlast. subst x. split; [intros _|cbn; discriminate]. split.
    - intros s _ _ Hs. cbn [nth] in Hs. destruct (s - k); discriminate Hs.
    - intros e' _ He' _. destruct (e' - k) as [|[|n]]; discriminate He'. }
  replace (length (x :: y :: t') - 1) with (S (length (y :: t') - 1)) in Hlast by (cbn [length]; lia).
  cbn [nth] in Hlast.
  rewrite transitions_cons2. destruct (IH (S k) Hlast) as [IHf IHt]. cbn [nth] in IHf, IHt.
  assert (Hshift : forall m, k <= m -> m <> k -> m - k = S (m - S k)) by (intros m Hm Hne; lia).
  split; cbn [nth]; intros Hx; subst x.
  - destruct y; cbn [Bool.eqb].
    + (* a burst starts at k *)
      destruct (IHt eq_refl) as (e0 & rest & Etr & Hrise & Hfall). rewrite Etr.
      cbn [edge_pairs]. split.
      * intros s Hk Hs Hs'. destruct (Nat.eq_dec s k) as [->|Hne].
        -- exists (S e0). left. reflexivity.
        -- rewrite (Hshift s Hk Hne) in Hs, Hs'. cbn [nth] in Hs, Hs'.
           destruct (Hrise s ltac:(lia) Hs Hs') as (e & Hin). exists e. right. exact Hin.
      * intros e' Hk He He'. destruct (Nat.eq_dec e' k) as [->|Hne].
        -- rewrite Nat.sub_diag in He. discriminate He.
        -- rewrite (Hshift e' Hk Hne) in He, He'. cbn [nth] in He, He'.
           destruct (Hfall e' ltac:(lia) He He') as [->|(s & Hin)].
           ++ exists k. left. reflexivity.
           ++ exists s. right. exact Hin.
    + destruct (IHf eq_refl) as (Hrise & Hfall). split.
      * intros s Hk Hs Hs'. destruct (Nat.eq_dec s k) as [->|Hne].
        -- rewrite Nat.sub_diag in Hs'. discriminate Hs'.
        -- rewrite (Hshift s Hk Hne) in Hs, Hs'. cbn [nth] in Hs, Hs'.
           exact (Hrise s ltac:(lia) Hs Hs').
      * intros e' Hk He He'. destruct (Nat.eq_dec e' k) as [->|Hne].
        -- rewrite Nat.sub_diag in He. discriminate He.
        -- rewrite (Hshift e' Hk Hne) in He, He'. cbn [nth] in He, He'.
           exact (Hfall e' ltac:(lia) He He').
  - destruct y; cbn [Bool.eqb].
    + destruct (IHt eq_refl) as (e0 & rest & Etr & Hrise & Hfall).
      exists e0, rest. split; [exact Etr|]. split.
      * intros s Hk Hs Hs'. destruct (Nat.eq_dec s k) as [->|Hne].
        -- rewrite Nat.sub_diag in Hs. discriminate Hs.
        -- rewrite (Hshift s Hk Hne) in Hs, Hs'. cbn [nth] in Hs, Hs'.
           exact (Hrise s ltac:(lia) Hs Hs').
      * intros e' Hk He He'. destruct (Nat.eq_dec e' k) as [->|Hne].
        -- rewrite Nat.sub_diag in He'. discriminate He'.
        -- rewrite (Hshift e' Hk Hne) in He, He'. cbn [nth] in He, He'.
           exact (Hfall e' ltac:(lia) He He').
    + (* the burst that was running ends at k *)
      destruct (IHf eq_refl) as (Hrise & Hfall).
      exists k, (transitions (S k) (false :: t')). split; [reflexivity|]. split.
      * intros s Hk Hs Hs'. destruct (Nat.eq_dec s k) as [->|Hne].
        -- rewrite Nat.sub_diag in Hs. discriminate Hs.
        -- rewrite (Hshift s Hk Hne) in Hs, Hs'. cbn [nth] in Hs, Hs'.
           exact (Hrise s ltac:(lia) Hs Hs').
      * intros e' Hk He He'. destruct (Nat.eq_dec e' k) as [->|Hne]; [left; reflexivity|right].
        rewrite (Hshift e' Hk Hne) in He, He'. cbn [nth] in He, He'.
        exact (Hfall e' ltac:(lia) He He').
Qed.

(* a rising transition is the start of a pair *)
Lemma edge_start_complete lab s :
  nth 0 lab false = false -> nth (length lab - 1) lab false = false ->
  nth s lab false = false -> nth (S s) lab false = true ->
  exists e, In (s, e) (edge_pairs (transitions 0 lab)).
Proof.
  intros H0 Hlast Hs Hs'.
  destruct (proj1 (edge_pairs_complete_gen lab 0 Hlast) H0) as (Hrise & _).
  apply (Hrise s (Nat.le_0_l s)); rewrite Nat.sub_0_r; assumption.
Qed.

(* the cycle after a falling transition is the end of a pair *)
Lemma edge_end_complete lab e' :
  nth 0 lab false = false -> nth (length lab - 1) lab false = false ->
  nth e' lab false = true -> nth (S e') lab false = false ->
  exists s, In (s, S e') (edge_pairs (transitions 0 lab)).
Proof.
  intros H0 Hlast He He'.
  destruct (proj1 (edge_pairs_complete_gen lab 0 Hlast) H0) as (_ & Hfall).
  apply (Hfall e' (Nat.le_0_l e')); rewrite Nat.sub_0_r; assumption.
Qed.

(* D2, completeness: every non-burst cycle adjacent to a burst is an edge *)
Theorem is_edge_complete lab i :
  nth 0 lab false = false -> nth (length lab - 1) lab false = false ->
  nth i lab false = false ->
  (nth (S i) lab false = true \/ (1 <= i /\ nth (i - 1) lab false = true)) ->
  is_edge lab i.
Proof.
  intros H0 Hlast Hi [Hnext|(Hi1 & Hprev)].
  - destruct (edge_start_complete lab i H0 Hlast Hi Hnext) as (e & Hin).
    exists i, e. split; [exact Hin|left; reflexivity].
  - assert (Hi' : nth (S (i - 1)) lab false = false).
    { replace (S (i - 1)) with i by lia. exact Hi. }
    destruct (edge_end_complete lab (i - 1) H0 Hlast Hprev Hi') as (s & Hin).
    replace (S (i - 1)) with i in Hin by lia.
    exists s, i. split; [exact Hin|right; reflexivity].
Qed.

Corollary is_edge_iff lab i :
  nth 0 lab false = false -> nth (length lab - 1) lab false = false ->
  (is_edge lab i <->
   nth i lab false = false /\
   (nth (S i) lab false = true \/ (1 <= i /\ nth (i - 1) lab false = true))).
Proof.
  intros H0 Hlast. split.
  - intros He. split; [exact (is_edge_not_burst lab i H0 He)|exact (is_edge_adjacent lab i H0 He)].
  - intros (Hi & Hadj). exact (is_edge_complete lab i H0 Hlast Hi Hadj).
Qed.

(* ------------------------------------------------------------------ *)
(* list helpers                                                         *)

Lemma nth_error_upd {A} (l : list A) i x j : i < length l ->
  nth_error (firstn i l ++ x :: skipn (S i) l) j = if Nat.eqb j i then Some x else nth_error l j.
Proof.
  revert i j. induction l as [|a l IH]; intros i j Hi; [cbn in Hi; lia|].
  destruct i as [|i].
  - cbn [firstn skipn app]. destruct j as [|j]; reflexivity.
  - cbn [firstn app]. change (skipn (S (S i)) (a :: l)) with (skipn (S i) l).
    destruct j as [|j]; [reflexivity|]. cbn [nth_error]. cbn [length] in Hi.
    rewrite IH by lia. reflexivity.
Qed.

Lemma upd_length {A} (l : list A) i x : i < length l ->
  length (firstn i l ++ x :: skipn (S i) l) = length l.
Proof.
  intros Hi. rewrite app_length, firstn_length. cbn [length]. rewrite skipn_length. lia.
Qed.

Lemma nth_error_Some_nth {A} (l : list A) i x d : nth_error l i = Some x -> nth i l d = x.
Proof. intros H. apply (nth_error_nth l i d H). Qed.

Lemma nth_error_nth_lt {A} (l : list A) i d : i < length l -> nth_error l i = Some (nth i l d).
Proof. intros H. apply nth_error_nth'. exact H. Qed.

Lemma zip_length {A B} (a : list A) (b : list B) : length (zip a b) = Nat.min (length a) (length b).
Proof.
  revert b. induction a as [|x a IH]; intros [|y b]; cbn [zip length]; try reflexivity.
  rewrite IH. reflexivity.
Qed.

Lemma zip_nth {A B} (a : list A) (b : list B) j da db :
  j < length a -> j < length b -> nth j (zip a b) (da, db) = (nth j a da, nth j b db).
Proof.
  revert b j. induction a as [|x a IH]; intros [|y b] j Ha Hb; cbn [length] in *; try lia.
  destruct j as [|j]; [reflexivity|]. cbn [zip nth]. apply IH; lia.
Qed.

Lemma slice_map {A B} (f : A -> B) (l : list A) a b : slice (map f l) a b = map f (slice l a b).
Proof. unfold slice. rewrite skipn_map, firstn_map. reflexivity. Qed.

Lemma slice_length {A} (l : list A) a b : b <= length l -> length (slice l a b) = b - a.
Proof. intros H. unfold slice. rewrite firstn_length, skipn_length. lia. Qed.

Lemma nth_firstn_lt {A} (l : list A) n k d : k < n -> nth k (firstn n l) d = nth k l d.
Proof.
  revert n k. induction l as [|x l IH]; intros n k H.
  - rewrite firstn_nil. reflexivity.
  - destruct n as [|n]; [lia|]. destruct k as [|k]; [reflexivity|]. cbn [firstn nth]. apply IH. lia.
Qed.

Lemma nth_skipn_add {A} (l : list A) a k d : nth k (skipn a l) d = nth (a + k) l d.
Proof.
  revert a. induction l as [|x l IH]; intros a.
  - rewrite skipn_nil. destruct k, a; reflexivity.
  - destruct a as [|a]; [reflexivity|]. cbn [skipn plus nth]. apply IH.
Qed.

Lemma slice_nth {A} (l : list A) a b k d : k < b - a -> nth k (slice l a b) d = nth (a + k) l d.
Proof.
  intros H. unfold slice. rewrite nth_firstn_lt by exact H. apply nth_skipn_add.
Qed.

(* ------------------------------------------------------------------ *)
Section EdgeProofs.
Context {X : Type}.
Notation row := (@edrow X).

(* everything but the two consistency cells agrees *)
Definition same_but_cons (r' r : row) : Prop :=
  e_rise r' = e_rise r /\ e_decay r' = e_decay r /\ e_period r' = e_period r /\
  e_lab r' = e_lab r /\ e_x r' = e_x r /\
  f_af (e_feat r') = f_af (e_feat r) /\ f_mo (e_feat r') = f_mo (e_feat r).

Lemma same_but_cons_refl r : same_but_cons r r.
Proof. unfold same_but_cons. repeat split. Qed.

Lemma same_but_cons_trans r1 r2 r3 : same_but_cons r1 r2 -> same_but_cons r2 r3 -> same_but_cons r1 r3.
Proof.
  unfold same_but_cons. intros (A1 & A2 & A3 & A4 & A5 & A6 & A7) (B1 & B2 & B3 & B4 & B5 & B6 & B7).
  repeat split; congruence.
Qed.

Lemma same_but_cons_set_cons r a p : same_but_cons (set_cons r a p) r.
Proof. unfold same_but_cons. repeat split. Qed.

(* ------------------------------------------------------------------ *)
(* D3: one step                                                          *)

Lemma recompute_edge_inv peak (rows : list row) i d out :
  recompute_edge peak rows i d = Ok out ->
  exists ac pc a p r,
    amp_consistency peak d (map e_rise (slice rows (i - 1) (Nat.min (i + 2) (length rows))))
                           (map e_decay (slice rows (i - 1) (Nat.min (i + 2) (length rows)))) = Ok ac /\
    period_consistency d (map e_period (slice rows (i - 1) (Nat.min (i + 2) (length rows)))) = Ok pc /\
    nth_error ac 1 = Some a /\ nth_error pc 1 = Some p /\ nth_error rows i = Some r /\
    out = firstn i rows ++ set_cons r a p :: skipn (S i) rows.
Proof.
  unfold recompute_edge. cbv zeta.
  destruct (amp_consistency _ _ _ _) as [ac|e1] eqn:Eac; cbn [bind]; [|discriminate].
  destruct (period_consistency _ _) as [pc|e2] eqn:Epc; cbn [bind]; [|discriminate].
  destruct (nth_error ac 1) as [a|] eqn:Ea; [|discriminate].
  destruct (nth_error pc 1) as [p|] eqn:Ep; [|discriminate].
  destruct (nth_error rows i) as [r|] eqn:Er; [|discriminate].
  intros [= <-]. exists ac, pc, a, p, r. repeat split; assumption.
Qed.

Theorem recompute_edge_frame peak (rows : list row) i d out :
  recompute_edge peak rows i d = Ok out ->
  length out = length rows /\
  (forall j, j <> i -> nth_error out j = nth_error rows j) /\
  exists r r', nth_error rows i = Some r /\ nth_error out i = Some r' /\
    e_rise r' = e_rise r /\ e_decay r' = e_decay r /\ e_period r' = e_period r /\
    e_lab r' = e_lab r /\ e_x r' = e_x r /\
    f_af (e_feat r') = f_af (e_feat r) /\ f_mo (e_feat r') = f_mo (e_feat r).
Proof.
  intros H. apply recompute_edge_inv in H as (ac & pc & a & p & r & _ & _ & _ & _ & Er & ->).
  assert (Hi : i < length rows) by (apply nth_error_Some; congruence).
  split; [apply upd_length; exact Hi|]. split.
  - intros j Hj. rewrite nth_error_upd by exact Hi.
    destruct (Nat.eqb_spec j i) as [E|_]; [contradiction|reflexivity].
  - exists r, (set_cons r a p). split; [exact Er|]. split.
    + rewrite nth_error_upd by exact Hi. rewrite Nat.eqb_refl. reflexivity.
    + apply same_but_cons_set_cons.
Qed.

(* the frame in the form used below *)
Lemma recompute_edge_frame' peak (rows : list row) i d out :
  recompute_edge peak rows i d = Ok out ->
  length out = length rows /\
  forall j r, nth_error rows j = Some r ->
    exists r', nth_error out j = Some r' /\ same_but_cons r' r /\ (j <> i -> r' = r).
Proof.
  intros H. destruct (recompute_edge_frame _ _ _ _ _ H) as (Hlen & Hoth & r0 & r0' & Er & Er' & Hs).
  split; [exact Hlen|]. intros j r Hj.
  destruct (Nat.eq_dec j i) as [->|Hne].
  - exists r0'. split; [exact Er'|]. split; [|congruence].
    assert (r = r0) by congruence. subst r0. exact Hs.
  - exists r. split; [rewrite Hoth by exact Hne; exact Hj|]. split; [apply same_but_cons_refl|reflexivity].
Qed.

(* ------------------------------------------------------------------ *)
(* D5: the whole pass                                                    *)

Definition edge_step (peak : bool) (acc : result (list row)) (se : nat * nat) : result (list row) :=
  do t <- acc; do t1 <- recompute_edge peak t (fst se) Next; recompute_edge peak t1 (snd se) Last.

Lemma recompute_all_fold peak (rows : list row) :
  recompute_all peak rows =
  fold_left (edge_step peak) (edge_pairs (transitions 0 (map e_lab rows))) (Ok rows).
Proof. reflexivity. Qed.

Lemma fold_edge_step_err peak ps e : fold_left (edge_step peak) ps (Err e) = Err e.
Proof. induction ps as [|p ps IH]; [reflexivity|]. cbn [fold_left edge_step bind]. exact IH. Qed.

Lemma fold_edge_step_frame peak ps : forall (t out : list row),
  fold_left (edge_step peak) ps (Ok t) = Ok out ->
  length out = length t /\
  forall j r, nth_error t j = Some r ->
    exists r', nth_error out j = Some r' /\ same_but_cons r' r /\
      (~ (exists s e, In (s, e) ps /\ (j = s \/ j = e)) -> r' = r).
Proof.
  induction ps as [|[s e] ps IH]; intros t out H.
  - cbn [fold_left] in H. injection H as <-. split; [reflexivity|].
    intros j r Hj. exists r. split; [exact Hj|]. split; [apply same_but_cons_refl|reflexivity].
  - cbn [fold_left] in H. unfold edge_step at 2 in H. cbn [bind fst snd] in H.
    destruct (recompute_edge peak t s Next) as [t1|e1] eqn:E1; cbn [bind] in H;
      [|rewrite fold_edge_step_err in H; discriminate].
    destruct (recompute_edge peak t1 e Last) as [t2|e2] eqn:E2;
      [|rewrite fold_edge_step_err in H; discriminate].
    destruct (recompute_edge_frame' _ _ _ _ _ E1) as (L1 & F1).
    destruct (recompute_edge_frame' _ _ _ _ _ E2) as (L2 & F2).
    destruct (IH t2 out H) as (L3 & F3).
    split; [congruence|]. intros j r Hj.
    destruct (F1 j r Hj) as (r1 & Hj1 & S1 & N1).
    destruct (F2 j r1 Hj1) as (r2 & Hj2 & S2 & N2).
    destruct (F3 j r2 Hj2) as (r3 & Hj3 & S3 & N3).
    exists r3. split; [exact Hj3|]. split.
    + apply (same_but_cons_trans _ r2); [exact S3|]. apply (same_but_cons_trans _ r1); assumption.
    + intros Hno.
      assert (Hs : j <> s). { intros ->. apply Hno. exists s, e. split; [left; reflexivity|left; reflexivity]. }
      assert (He : j <> e). { intros ->. apply Hno. exists s, e. split; [left; reflexivity|right; reflexivity]. }
      rewrite N3, N2, N1; auto.
      intros (s' & e' & Hin & Hor). apply Hno. exists s', e'. split; [right; exact Hin|exact Hor].
Qed.

Theorem recompute_all_frame peak (rows out : list row) :
  recompute_all peak rows = Ok out ->
  length out = length rows /\
  forall j r, nth_error rows j = Some r ->
    exists r', nth_error out j = Some r' /\
      e_rise r' = e_rise r /\ e_decay r' = e_decay r /\ e_period r' = e_period r /\
      e_lab r' = e_lab r /\ e_x r' = e_x r /\
      f_af (e_feat r') = f_af (e_feat r) /\ f_mo (e_feat r') = f_mo (e_feat r) /\
      (~ is_edge (map e_lab rows) j -> r' = r).
Proof.
  rewrite recompute_all_fold. intros H.
  destruct (fold_edge_step_frame _ _ _ _ H) as (L & F). split; [exact L|].
  intros j r Hj. destruct (F j r Hj) as (r' & Hj' & (A1 & A2 & A3 & A4 & A5 & A6 & A7) & N).
  exists r'. repeat split; try assumption.
Qed.

(* in nth form *)
Lemma recompute_all_nth peak (rows out : list row) d j :
  recompute_all peak rows = Ok out -> j < length rows ->
  same_but_cons (nth j out d) (nth j rows d) /\
  (~ is_edge (map e_lab rows) j -> nth j out d = nth j rows d).
Proof.
  intros H Hj. destruct (recompute_all_frame _ _ _ H) as (_ & F).
  destruct (F j (nth j rows d) (nth_error_nth_lt _ _ _ Hj))
    as (r' & Hr' & A1 & A2 & A3 & A4 & A5 & A6 & A7 & N).
  rewrite (nth_error_Some_nth _ _ _ d Hr'). split; [|exact N].
  unfold same_but_cons. repeat split; assumption.
Qed.

(* ------------------------------------------------------------------ *)
(* D6: the result of recompute_edges                                     *)

Lemma recompute_edges_inv peak t n (rows out : list row) :
  recompute_edges peak t n rows = Ok out ->
  exists ed lab, recompute_all peak rows = Ok ed /\ labels_cycles t n (map e_feat ed) = Ok lab /\
    out = map (fun rl => set_lab (fst rl) (snd rl)) (zip ed lab).
Proof.
  unfold recompute_edges.
  destruct (recompute_all peak rows) as [ed|e1] eqn:E1; cbn [bind]; [|discriminate].
  destruct (labels_cycles t n (map e_feat ed)) as [lab|e2] eqn:E2; cbn [bind]; [|discriminate].
  intros [= <-]. exists ed, lab. split; [reflexivity|]. split; [exact E2|reflexivity].
Qed.

Lemma relabel_nth (ed : list row) lab j d : j < length ed -> length lab = length ed ->
  nth j (map (fun rl => set_lab (fst rl) (snd rl)) (zip ed lab)) d = set_lab (nth j ed d) (nth j lab false).
Proof.
  intros Hj Hl. set (f := fun rl : row * bool => set_lab (fst rl) (snd rl)).
  rewrite (nth_indep _ d (f (d, false))) by (rewrite map_length, zip_length; lia).
  rewrite map_nth, zip_nth by lia. reflexivity.
Qed.

Theorem recompute_edges_spec peak t n (rows out : list row) d :
  recompute_edges peak t n rows = Ok out ->
  exists ed lab, recompute_all peak rows = Ok ed /\ labels_cycles t n (map e_feat ed) = Ok lab /\
    length out = length rows /\
    forall j, j < length rows ->
      e_lab (nth j out d) = nth j lab false /\
      e_feat (nth j out d) = e_feat (nth j ed d) /\
      e_rise (nth j out d) = e_rise (nth j rows d) /\
      e_decay (nth j out d) = e_decay (nth j rows d) /\
      e_period (nth j out d) = e_period (nth j rows d) /\
      e_x (nth j out d) = e_x (nth j rows d).
Proof.
  intros H. apply recompute_edges_inv in H as (ed & lab & Hed & Hlab & ->).
  exists ed, lab. split; [exact Hed|]. split; [exact Hlab|].
  destruct (recompute_all_frame _ _ _ Hed) as (Led & _).
  pose proof (labels_cycles_length _ _ _ _ Hlab) as Llab. rewrite map_length in Llab.
  split; [rewrite map_length, zip_length; lia|].
  intros j Hj. rewrite relabel_nth by lia.
  destruct (recompute_all_nth _ _ _ d j Hed Hj) as ((A1 & A2 & A3 & A4 & A5 & A6 & A7) & _).
  cbn [set_lab e_lab e_feat e_rise e_decay e_period e_x]. repeat split; assumption.
Qed.

(* ------------------------------------------------------------------ *)
(* D7: bursts only grow                                                  *)

Lemma qual_nth t (fs : list feat4) j d : j < length fs ->
  nth j (map (qualifies t) fs) false = qualifies t (nth j fs d).
Proof.
  intros Hj. rewrite (nth_indep _ false (qualifies t d)) by (rewrite map_length; exact Hj).
  apply map_nth.
Qed.

Theorem recompute_edges_grows peak t0 n0 t n (rows out : list row) :
  labels_cycles t0 n0 (map e_feat rows) = Ok (map e_lab rows) ->
  thr_finite t -> thr_finite t0 -> thr_le t t0 -> (n <= n0)%Z ->
  recompute_edges peak t n rows = Ok out ->
  forall j, nth j (map e_lab rows) false = true -> nth j (map e_lab out) false = true.
Proof.
  intros H0 Ft Ft0 Hle Hn H j Hj.
  destruct rows as [|d rows']; [destruct j; discriminate Hj|].
  set (rows := d :: rows') in *.
  destruct (recompute_edges_spec _ _ _ _ _ d H) as (ed & lab & Hed & Hlab & Lout & Hout).
  destruct (labels_cycles_ends _ _ _ _ H0) as (Hfirst & _).
  destruct (recompute_all_frame _ _ _ Hed) as (Led & _).
  (* the old window *)
  pose proof (proj1 (labels_cycles_spec _ _ _ _ j H0) Hj) as (a & b & Ha & Hab & Hb & Hw & Hall).
  rewrite !map_length in Hb.
  assert (Hjl : j < length rows) by lia.
  rewrite (nth_indep _ false (e_lab d)) by (rewrite map_length; lia).
  rewrite map_nth. rewrite (proj1 (Hout j Hjl)).
  apply (labels_cycles_spec _ _ _ _ j Hlab).
  exists a, b. rewrite !map_length. split; [exact Ha|]. split; [exact Hab|].
  split; [lia|]. split; [lia|].
  intros m Hm.
  (* m was labelled a burst, so it is not an edge and its row is untouched *)
  assert (Hlm : nth m (map e_lab rows) false = true).
  { apply (labels_cycles_spec _ _ _ _ m H0). exists a, b. rewrite !map_length.
    split; [exact Ha|]. split; [exact Hm|]. split; [lia|]. split; [exact Hw|exact Hall]. }
  assert (Hne : ~ is_edge (map e_lab rows) m).
  { intros He. apply (is_edge_not_burst _ _ Hfirst) in He. congruence. }
  assert (Hml : m < length rows) by lia.
  destruct (recompute_all_nth _ _ _ d m Hed Hml) as (_ & Hsame).
  specialize (Hsame Hne).
  specialize (Hall m Hm).
  rewrite (qual_nth _ _ _ (e_feat d)) in Hall by (rewrite map_length; lia).
  rewrite (qual_nth _ _ _ (e_feat d)) by (rewrite map_length; lia).
  rewrite map_nth in *. rewrite Hsame.
  apply (qualifies_mono t t0); assumption.
Qed.

(* ------------------------------------------------------------------ *)
(* D4: the recomputed values                                             *)

Lemma amp_cons_at_slice peak d rises decays i : 1 <= i ->
  amp_cons_at peak d (slice rises (i - 1) (i + 2)) (slice decays (i - 1) (i + 2)) 1 =
  amp_cons_at peak d rises decays i.
Proof.
  intros Hi. unfold amp_cons_at, fnth.
  change (1 - 1) with 0. change (1 + 1) with 2.
  rewrite !slice_nth by lia.
  replace (i - 1 + 1) with i by lia. replace (i - 1 + 0) with (i - 1) by lia.
  replace (i - 1 + 2) with (i + 1) by lia. reflexivity.
Qed.

Lemma period_cons_at_slice d periods i : 1 <= i ->
  period_cons_at d (slice periods (i - 1) (i + 2)) 1 = period_cons_at d periods i.
Proof.
  intros Hi. unfold period_cons_at.
  change (1 - 1) with 0. change (1 + 1) with 2.
  rewrite !slice_nth by lia.
  replace (i - 1 + 1) with i by lia. replace (i - 1 + 0) with (i - 1) by lia.
  replace (i - 1 + 2) with (i + 1) by lia. reflexivity.
Qed.

Lemma recompute_edge_out_row peak (rows : list row) i d out :
  recompute_edge peak rows i d = Ok out ->
  exists ac pc r,
    amp_consistency peak d (map e_rise (slice rows (i - 1) (Nat.min (i + 2) (length rows))))
                           (map e_decay (slice rows (i - 1) (Nat.min (i + 2) (length rows)))) = Ok ac /\
    period_consistency d (map e_period (slice rows (i - 1) (Nat.min (i + 2) (length rows)))) = Ok pc /\
    nth_error rows i = Some r /\
    nth_error out i = Some (set_cons r (nth 1 ac 0%float) (nth 1 pc 0%float)).
Proof.
  intros H. apply recompute_edge_inv in H as (ac & pc & a & p & r & Hac & Hpc & Ea & Ep & Er & ->).
  exists ac, pc, r. split; [exact Hac|]. split; [exact Hpc|]. split; [exact Er|].
  assert (Hi : i < length rows) by (apply nth_error_Some; congruence).
  rewrite nth_error_upd by exact Hi. rewrite Nat.eqb_refl.
  rewrite (nth_error_Some_nth _ _ _ 0%float Ea), (nth_error_Some_nth _ _ _ 0%float Ep). reflexivity.
Qed.

(* three-row window: the one-sided consistencies of cycle i, computed on the whole table *)
Theorem recompute_edge_value peak (rows : list row) i d out :
  recompute_edge peak rows i d = Ok out -> 1 <= i -> i + 1 < length rows ->
  exists r', nth_error out i = Some r' /\
    f_ac (e_feat r') = clamp0 (amp_cons_at peak d (map e_rise rows) (map e_decay rows) i) /\
    f_pc (e_feat r') = period_cons_at d (map e_period rows) i.
Proof.
  intros H H1 H2. apply recompute_edge_out_row in H as (ac & pc & r & Hac & Hpc & Er & Eo).
  replace (Nat.min (i + 2) (length rows)) with (i + 2) in Hac, Hpc by lia.
  rewrite <- !slice_map in Hac. rewrite <- slice_map in Hpc.
  eexists. split; [exact Eo|]. cbn [set_cons e_feat f_ac f_pc]. split.
  - rewrite (amp_consistency_interior _ _ _ _ _ 1 Hac); [apply f_equal, amp_cons_at_slice; exact H1|lia|].
    rewrite slice_length by (rewrite map_length; lia). lia.
  - rewrite (period_consistency_interior _ _ _ 1 Hpc); [apply period_cons_at_slice; exact H1|lia|].
    rewrite slice_length by (rewrite map_length; lia). lia.
Qed.

(* two-row window (first or last cycle of the table): both values are NaN *)
Theorem recompute_edge_value_nan peak (rows : list row) i d out :
  recompute_edge peak rows i d = Ok out -> i = 0 \/ i + 1 = length rows -> 2 <= length rows ->
  exists r', nth_error out i = Some r' /\
    isnan (f_ac (e_feat r')) = true /\ isnan (f_pc (e_feat r')) = true.
Proof.
  intros H H1 H2. apply recompute_edge_out_row in H as (ac & pc & r & Hac & Hpc & Er & Eo).
  assert (Hlen : length (slice rows (i - 1) (Nat.min (i + 2) (length rows))) = 2).
  { rewrite slice_length by lia. lia. }
  eexists. split; [exact Eo|]. cbn [set_cons e_feat f_ac f_pc]. split.
  - destruct (amp_consistency_ends_nan _ _ _ _ _ Hac) as (_ & Hn).
    rewrite map_length, Hlen in Hn. exact Hn.
  - destruct (period_consistency_ends_nan _ _ _ Hpc) as (_ & Hn).
    rewrite map_length, Hlen in Hn. exact Hn.
Qed.

(* ------------------------------------------------------------------ *)
(* D4 over the whole pass: every edge row ends up holding a one-sided consistency of the
   ORIGINAL table (the windows of later steps read rise/decay/period, which never change),
   or NaN when the edge is the first or last row of the table.                              *)

Lemma map_upd {A B} (f : A -> B) (l : list A) i r x : nth_error l i = Some r -> f x = f r ->
  map f (firstn i l ++ x :: skipn (S i) l) = map f l.
Proof.
  revert i. induction l as [|a l IH]; intros i Hr Hf; [destruct i; discriminate Hr|].
  destruct i as [|i].
  - cbn in Hr. injection Hr as ->. cbn [firstn skipn app map]. rewrite Hf. reflexivity.
  - cbn [nth_error] in Hr. cbn [firstn app map]. change (skipn (S (S i)) (a :: l)) with (skipn (S i) l).
    rewrite (IH i Hr Hf). reflexivity.
Qed.

Definition same_cols (t rows : list row) : Prop :=
  map e_rise t = map e_rise rows /\ map e_decay t = map e_decay rows /\
  map e_period t = map e_period rows.

Lemma recompute_edge_cols peak (t t1 rows : list row) i d :
  recompute_edge peak t i d = Ok t1 -> same_cols t rows -> same_cols t1 rows.
Proof.
  intros H (C1 & C2 & C3).
  apply recompute_edge_inv in H as (ac & pc & a & p & r & _ & _ & _ & _ & Er & ->).
  unfold same_cols. rewrite !(map_upd _ _ _ _ _ Er) by reflexivity. repeat split; assumption.
Qed.

Definition one_sided (peak : bool) (rows : list row) (j : nat) (r' : row) : Prop :=
  exists d, (d = Next \/ d = Last) /\
    f_ac (e_feat r') = clamp0 (amp_cons_at peak d (map e_rise rows) (map e_decay rows) j) /\
    f_pc (e_feat r') = period_cons_at d (map e_period rows) j.

Definition edge_valued (peak : bool) (rows t : list row) (j : nat) : Prop :=
  exists r', nth_error t j = Some r' /\
    ((1 <= j /\ j + 1 < length rows /\ one_sided peak rows j r') \/
     ((j = 0 \/ j + 1 = length rows) /\
      isnan (f_ac (e_feat r')) = true /\ isnan (f_pc (e_feat r')) = true)).

Lemma recompute_edge_valued peak (rows t t1 : list row) i d :
  recompute_edge peak t i d = Ok t1 -> d = Next \/ d = Last -> same_cols t rows ->
  length t = length rows -> 2 <= length rows -> edge_valued peak rows t1 i.
Proof.
  intros H Hd (C1 & C2 & C3) L L2.
  assert (Hi : i < length t).
  { apply recompute_edge_inv in H as (ac & pc & a & p & r & _ & _ & _ & _ & Er & _).
    apply nth_error_Some. congruence. }
  destruct (Nat.eq_dec i 0) as [E0|N0].
  { destruct (recompute_edge_value_nan _ _ _ _ _ H (or_introl E0) ltac:(lia)) as (r' & Hr' & N1 & N2).
    exists r'. split; [exact Hr'|]. right. split; [left; exact E0|]. split; assumption. }
  destruct (Nat.eq_dec (i + 1) (length t)) as [El|Nl].
  { destruct (recompute_edge_value_nan _ _ _ _ _ H (or_intror El) ltac:(lia)) as (r' & Hr' & N1 & N2).
    exists r'. split; [exact Hr'|]. right. split; [right; lia|]. split; assumption. }
  destruct (recompute_edge_value _ _ _ _ _ H ltac:(lia) ltac:(lia)) as (r' & Hr' & V1 & V2).
  exists r'. split; [exact Hr'|]. left. split; [lia|]. split; [lia|].
  exists d. split; [exact Hd|]. rewrite <- C1, <- C2, <- C3. split; assumption.
Qed.

Lemma fold_edge_step_valued peak (rows : list row) ps : forall (t out : list row),
  fold_left (edge_step peak) ps (Ok t) = Ok out ->
  same_cols t rows -> length t = length rows -> 2 <= length rows ->
  forall j, edge_valued peak rows t j \/ (exists s e, In (s, e) ps /\ (j = s \/ j = e)) ->
    edge_valued peak rows out j.
Proof.
  induction ps as [|[s e] ps IH]; intros t out H C L L2 j Hj.
  - cbn [fold_left] in H. injection H as <-. destruct Hj as [Hj|(s & e & [] & _)]. exact Hj.
  - cbn [fold_left] in H. unfold edge_step at 2 in H. cbn [bind fst snd] in H.
    destruct (recompute_edge peak t s Next) as [t1|e1] eqn:E1; cbn [bind] in H;
      [|rewrite fold_edge_step_err in H; discriminate].
    destruct (recompute_edge peak t1 e Last) as [t2|e2] eqn:E2;
      [|rewrite fold_edge_step_err in H; discriminate].
    pose proof (recompute_edge_cols _ _ _ _ _ _ E1 C) as C1.
    pose proof (recompute_edge_cols _ _ _ _ _ _ E2 C1) as C2.
    destruct (recompute_edge_frame _ _ _ _ _ E1) as (L1 & F1 & _).
    destruct (recompute_edge_frame _ _ _ _ _ E2) as (L2' & F2 & _).
    apply (IH t2 out H C2 ltac:(congruence) L2 j).
    destruct (Nat.eq_dec j e) as [->|Ne].
    { left. apply (recompute_edge_valued _ _ _ _ _ _ E2); auto. congruence. }
    destruct (Nat.eq_dec j s) as [->|Ns].
    { left. destruct (recompute_edge_valued _ _ _ _ _ _ E1 (or_introl eq_refl) C L L2) as (r' & Hr' & V).
      exists r'. split; [|exact V]. rewrite F2 by exact Ne. exact Hr'. }
    destruct Hj as [(r' & Hr' & V)|(s' & e' & [Heq|Hin] & Hor)].
    + left. exists r'. split; [|exact V]. rewrite F2, F1 by assumption. exact Hr'.
    + injection Heq as <- <-. destruct Hor; contradiction.
    + right. exists s', e'. split; assumption.
Qed.

Lemma edge_pairs_In tr s e : In (s, e) (edge_pairs tr) -> In s tr /\ exists e', e = S e' /\ In e' tr.
Proof.
  assert (G : forall tr : list nat,
    (forall s e, In (s, e) (edge_pairs tr) -> In s tr /\ exists e', e = S e' /\ In e' tr) /\
    (forall a s e, In (s, e) (edge_pairs (a :: tr)) ->
       In s (a :: tr) /\ exists e', e = S e' /\ In e' (a :: tr))).
  { clear. induction tr as [|b tr [IH1 IH2]].
    - split; [intros s e []|intros a s e []].
    - split; [exact (IH2 b)|]. intros a s e Hin.
      cbn [edge_pairs In] in Hin. destruct Hin as [Heq|Hin].
      + injection Heq as <- <-. split; [left; reflexivity|].
        exists b. split; [reflexivity|right; left; reflexivity].
      + destruct (IH1 s e Hin) as (Hs & e' & -> & He').
        split; [right; right; exact Hs|]. exists e'. split; [reflexivity|right; right; exact He']. }
  apply G.
Qed.

Lemma is_edge_bounds lab j : is_edge lab j -> j < length lab /\ 2 <= length lab.
Proof.
  intros (s & e & Hin & Hj). apply edge_pairs_In in Hin as (Hs & e' & -> & He').
  apply transitions_In in Hs as (_ & Hs & _). apply transitions_In in He' as (_ & He' & _).
  rewrite Nat.sub_0_r in *. destruct Hj as [->| ->]; lia.
Qed.

Theorem recompute_all_edge_value peak (rows out : list row) j :
  recompute_all peak rows = Ok out -> is_edge (map e_lab rows) j ->
  exists r', nth_error out j = Some r' /\
    ((1 <= j /\ j + 1 < length rows /\
      exists d, (d = Next \/ d = Last) /\
        f_ac (e_feat r') = clamp0 (amp_cons_at peak d (map e_rise rows) (map e_decay rows) j) /\
        f_pc (e_feat r') = period_cons_at d (map e_period rows) j) \/
     ((j = 0 \/ j + 1 = length rows) /\
      isnan (f_ac (e_feat r')) = true /\ isnan (f_pc (e_feat r')) = true)).
Proof.
  rewrite recompute_all_fold. intros H He.
  destruct (is_edge_bounds _ _ He) as (_ & L2). rewrite map_length in L2.
  apply (fold_edge_step_valued peak rows _ rows out H); try exact L2; try reflexivity.
  - unfold same_cols. repeat split.
  - right. exact He.
Qed.

(* ------------------------------------------------------------------ *)
(* the direction of the value an edge ends up with: Next iff the burst follows the edge *)

Definition edge_dir (lab : list bool) (j : nat) : direction :=
  if nth (S j) lab false then Next else Last.

(* the pairs are ordered in time: s < e within a pair, and e <= s' for every later pair *)
Definition pairs_sorted (ps : list (nat * nat)) : Prop :=
  Forall (fun p => fst p < snd p) ps /\ StronglySorted (fun p q => snd p <= fst q) ps.

Lemma pairs_sorted_inv p ps : pairs_sorted (p :: ps) ->
  fst p < snd p /\ (forall q, In q ps -> snd p <= fst q /\ fst q < snd q) /\ pairs_sorted ps.
Proof.
  intros (Hlt & Hs). apply Forall_cons_iff in Hlt as (Hp & Hlt).
  apply StronglySorted_inv in Hs as (Hs & Hf).
  split; [exact Hp|]. split; [|split; assumption].
  rewrite Forall_forall in Hlt, Hf. intros q Hq. split; [exact (Hf q Hq)|exact (Hlt q Hq)].
Qed.

Lemma list_ind2 {A} (P : list A -> Prop) :
  P [] -> (forall a, P [a]) -> (forall a b t, P t -> P (a :: b :: t)) -> forall l, P l.
Proof.
  intros Hnil Hone Hstep.
  assert (G : forall l, P l /\ forall a, P (a :: l)).
  { induction l as [|b l (IH1 & IH2)].
    - split; [exact Hnil|exact Hone].
    - split; [exact (IH2 b)|]. intros a. apply Hstep. exact IH1. }
  intros l. apply G.
Qed.

Lemma edge_pairs_sorted tr : StronglySorted lt tr -> pairs_sorted (edge_pairs tr).
Proof.
  induction tr as [|a|a b t IH] using list_ind2; intros Hs.
  - split; constructor.
  - split; constructor.
  - apply StronglySorted_inv in Hs as (Hs & Ha).
    apply StronglySorted_inv in Hs as (Hs & Hb).
    rewrite Forall_forall in Ha, Hb.
    destruct (IH Hs) as (IHlt & IHs). cbn [edge_pairs]. split.
    + constructor; [|exact IHlt]. cbn [fst snd]. specialize (Ha b (or_introl eq_refl)). lia.
    + constructor; [exact IHs|]. apply Forall_forall. intros [s e] Hin. cbn [fst snd].
      apply edge_pairs_In in Hin as (Hin & _). specialize (Hb s Hin). lia.
Qed.

(* the direction of the last write to row j while folding over the pairs ps *)
Fixpoint last_dir (ps : list (nat * nat)) (j : nat) : option direction :=
  match ps with
  | [] => None
  | (s, e) :: ps' =>
    match last_dir ps' j with
    | Some d => Some d
    | None => if Nat.eqb j e then Some Last else if Nat.eqb j s then Some Next else None
    end
  end.

Lemma last_dir_none ps j :
  (forall s e, In (s, e) ps -> j <> s /\ j <> e) -> last_dir ps j = None.
Proof.
  induction ps as [|[s e] ps IH]; intros Hno; [reflexivity|].
  cbn [last_dir]. rewrite IH by (intros s' e' Hin; apply Hno; right; exact Hin).
  destruct (Hno s e (or_introl eq_refl)) as (Hs & He).
  destruct (Nat.eqb_spec j e) as [E|_]; [contradiction|].
  destruct (Nat.eqb_spec j s) as [E|_]; [contradiction|reflexivity].
Qed.

Lemma last_dir_sorted ps j : pairs_sorted ps ->
  ((exists e, In (j, e) ps) -> last_dir ps j = Some Next) /\
  ((exists s, In (s, j) ps) -> ~ (exists e, In (j, e) ps) -> last_dir ps j = Some Last).
Proof.
  induction ps as [|[s e] ps IH]; intros Hps.
  { split; [intros (e & [])|intros (s & []) _]. }
  apply pairs_sorted_inv in Hps as (Hse & Hlater & Hps). cbn [fst snd] in Hse.
  destruct (IH Hps) as (IHn & IHl). cbn [last_dir]. split.
  - intros (e1 & [Heq|Hin]).
    + injection Heq as -> ->.
      rewrite last_dir_none.
      * destruct (Nat.eqb_spec j e1) as [E|_]; [lia|]. rewrite Nat.eqb_refl. reflexivity.
      * intros s' e' Hin. destruct (Hlater _ Hin) as (H1 & H2). cbn [fst snd] in H1, H2. lia.
    + rewrite IHn by (exists e1; exact Hin). reflexivity.
  - intros (s1 & [Heq|Hin]) Hnostart.
    + injection Heq as -> ->.
      rewrite last_dir_none.
      * rewrite Nat.eqb_refl. reflexivity.
      * intros s' e' Hin. destruct (Hlater _ Hin) as (H1 & H2). cbn [fst snd] in H1, H2.
        split; [|lia]. intros ->. apply Hnostart. exists e'. right. exact Hin.
    + rewrite IHl; [reflexivity|exists s1; exact Hin|].
      intros (e1 & Hin1). apply Hnostart. exists e1. right. exact Hin1.
Qed.

(* the last write to an edge is a Next write iff the burst follows the edge *)
Lemma last_dir_edge lab j :
  nth 0 lab false = false -> nth (length lab - 1) lab false = false -> is_edge lab j ->
  last_dir (edge_pairs (transitions 0 lab)) j = Some (edge_dir lab j).
Proof.
  intros H0 Hlast He.
  pose proof (edge_pairs_sorted _ (transitions_sorted 0 lab)) as Hps.
  destruct (last_dir_sorted _ j Hps) as (Hn & Hl).
  pose proof (is_edge_not_burst lab j H0 He) as Hj.
  unfold edge_dir. destruct (nth (S j) lab false) eqn:Hj'.
  - apply Hn. exact (edge_start_complete lab j H0 Hlast Hj Hj').
  - assert (Hnostart : ~ (exists e, In (j, e) (edge_pairs (transitions 0 lab)))).
    { intros (e & Hin). destruct (edge_pairs_spec lab j e H0 Hin) as (_ & Hs & _). congruence. }
    destruct He as (s & e & Hin & [->| ->]).
    + exfalso. apply Hnostart. exists e. exact Hin.
    + apply Hl; [exists s; exact Hin|exact Hnostart].
Qed.


(* ------------------------------------------------------------------ *)
(* D4 over the whole pass, with the direction: the pairs are processed in temporal order, each
   as (start, Next) then (end, Last), and the last write to a row wins.                       *)

Definition edge_valued_d (peak : bool) (rows t : list row) (j : nat) (d : direction) : Prop :=
  exists r', nth_error t j = Some r' /\
    ((1 <= j /\ j + 1 < length rows /\
      f_ac (e_feat r') = clamp0 (amp_cons_at peak d (map e_rise rows) (map e_decay rows) j) /\
      f_pc (e_feat r') = period_cons_at d (map e_period rows) j) \/
     ((j = 0 \/ j + 1 = length rows) /\
      isnan (f_ac (e_feat r')) = true /\ isnan (f_pc (e_feat r')) = true)).

Lemma recompute_edge_valued_d peak (rows t t1 : list row) i d :
  recompute_edge peak t i d = Ok t1 -> same_cols t rows ->
  length t = length rows -> 2 <= length rows -> edge_valued_d peak rows t1 i d.
Proof.
  intros H (C1 & C2 & C3) L L2.
  assert (Hi : i < length t).
  { apply recompute_edge_inv in H as (ac & pc & a & p & r & _ & _ & _ & _ & Er & _).
    apply nth_error_Some. congruence. }
  destruct (Nat.eq_dec i 0) as [E0|N0].
  { destruct (recompute_edge_value_nan _ _ _ _ _ H (or_introl E0) ltac:(lia)) as (r' & Hr' & N1 & N2).
    exists r'. split; [exact Hr'|]. right. split; [left; exact E0|]. split; assumption. }
  destruct (Nat.eq_dec (i + 1) (length t)) as [El|Nl].
  { destruct (recompute_edge_value_nan _ _ _ _ _ H (or_intror El) ltac:(lia)) as (r' & Hr' & N1 & N2).
    exists r'. split; [exact Hr'|]. right. split; [right; lia|]. split; assumption. }
  destruct (recompute_edge_value _ _ _ _ _ H ltac:(lia) ltac:(lia)) as (r' & Hr' & V1 & V2).
  exists r'. split; [exact Hr'|]. left. split; [lia|]. split; [lia|].
  rewrite <- C1, <- C2, <- C3. split; assumption.
Qed.

Lemma fold_edge_step_valued_d peak (rows : list row) ps : forall (t out : list row),
  fold_left (edge_step peak) ps (Ok t) = Ok out ->
  same_cols t rows -> length t = length rows -> 2 <= length rows ->
  forall j d, last_dir ps j = Some d \/ (last_dir ps j = None /\ edge_valued_d peak rows t j d) ->
    edge_valued_d peak rows out j d.
Proof.
  induction ps as [|[s e] ps IH]; intros t out H C L L2 j d Hj.
  - cbn [fold_left] in H. injection H as <-. cbn [last_dir] in Hj.
    destruct Hj as [Hj|(_ & Hj)]; [discriminate Hj|exact Hj].
  - cbn [fold_left] in H. unfold edge_step at 2 in H. cbn [bind fst snd] in H.
    destruct (recompute_edge peak t s Next) as [t1|e1] eqn:E1; cbn [bind] in H;
      [|rewrite fold_edge_step_err in H; discriminate].
    destruct (recompute_edge peak t1 e Last) as [t2|e2] eqn:E2;
      [|rewrite fold_edge_step_err in H; discriminate].
    pose proof (recompute_edge_cols _ _ _ _ _ _ E1 C) as C1.
    pose proof (recompute_edge_cols _ _ _ _ _ _ E2 C1) as C2.
    destruct (recompute_edge_frame _ _ _ _ _ E1) as (L1 & F1 & _).
    destruct (recompute_edge_frame _ _ _ _ _ E2) as (L2' & F2 & _).
    apply (IH t2 out H C2 ltac:(congruence) L2 j d).
    cbn [last_dir] in Hj.
    destruct (last_dir ps j) as [d'|] eqn:Eld.
    { left. destruct Hj as [Hj|(Hj & _)]; [exact Hj|discriminate Hj]. }
    right. split; [reflexivity|].
    destruct (Nat.eqb_spec j e) as [->|Ne].
    { destruct Hj as [Hj|(Hj & _)]; [|discriminate Hj]. injection Hj as <-.
      apply (recompute_edge_valued_d _ _ _ _ _ _ E2 C1); [congruence|exact L2]. }
    destruct (Nat.eqb_spec j s) as [->|Ns].
    { destruct Hj as [Hj|(Hj & _)]; [|discriminate Hj]. injection Hj as <-.
      destruct (recompute_edge_valued_d _ _ _ _ _ _ E1 C L L2) as (r' & Hr' & V).
      exists r'. split; [|exact V]. rewrite F2 by exact Ne. exact Hr'. }
    destruct Hj as [Hj|(_ & r' & Hr' & V)]; [discriminate Hj|].
    exists r'. split; [|exact V]. rewrite F2, F1 by assumption. exact Hr'.
Qed.

(* D4 with the direction stated: the value at an edge looks Next iff the burst follows the
   edge, otherwise Last *)
Theorem recompute_all_edge_value_dir peak (rows out : list row) j :
  nth 0 (map e_lab rows) false = false -> nth (length rows - 1) (map e_lab rows) false = false ->
  recompute_all peak rows = Ok out -> is_edge (map e_lab rows) j ->
  exists r', nth_error out j = Some r' /\
    ((1 <= j /\ j + 1 < length rows /\
      f_ac (e_feat r') = clamp0 (amp_cons_at peak (edge_dir (map e_lab rows) j) (map e_rise rows) (map e_decay rows) j) /\
      f_pc (e_feat r') = period_cons_at (edge_dir (map e_lab rows) j) (map e_period rows) j) \/
     ((j = 0 \/ j + 1 = length rows) /\
      isnan (f_ac (e_feat r')) = true /\ isnan (f_pc (e_feat r')) = true)).
Proof.
  intros H0 Hlast H He. rewrite recompute_all_fold in H.
  destruct (is_edge_bounds _ _ He) as (_ & L2). rewrite map_length in L2.
  assert (Hlast' : nth (length (map e_lab rows) - 1) (map e_lab rows) false = false)
    by (rewrite map_length; exact Hlast).
  apply (fold_edge_step_valued_d peak rows _ rows out H); try exact L2; try reflexivity.
  - unfold same_cols. repeat split.
  - left. exact (last_dir_edge _ j H0 Hlast' He).
Qed.

(* a single non-burst cycle between two bursts is the end of one pair and the start of the
   next; the later (Next) write wins *)
Corollary recompute_all_gap_between_two_bursts_looks_next peak (rows out : list row) j :
  nth 0 (map e_lab rows) false = false -> nth (length rows - 1) (map e_lab rows) false = false ->
  recompute_all peak rows = Ok out -> 1 <= j ->
  nth (j - 1) (map e_lab rows) false = true -> nth j (map e_lab rows) false = false ->
  nth (S j) (map e_lab rows) false = true ->
  exists r', nth_error out j = Some r' /\
     f_ac (e_feat r') = clamp0 (amp_cons_at peak Next (map e_rise rows) (map e_decay rows) j) /\
     f_pc (e_feat r') = period_cons_at Next (map e_period rows) j.
Proof.
  intros H0 Hlast H Hj1 Hprev Hj Hnext.
  assert (Hlast' : nth (length (map e_lab rows) - 1) (map e_lab rows) false = false)
    by (rewrite map_length; exact Hlast).
  assert (He : is_edge (map e_lab rows) j).
  { apply is_edge_complete; [exact H0|exact Hlast'|exact Hj|left; exact Hnext]. }
  pose proof (nth_true_lt _ _ Hnext) as Hlen. rewrite map_length in Hlen.
  destruct (recompute_all_edge_value_dir peak rows out j H0 Hlast H He)
    as (r' & Hr' & [(_ & _ & Vac & Vpc)|(Hends & _)]).
  - exists r'. split; [exact Hr'|].
    unfold edge_dir in Vac, Vpc. rewrite Hnext in Vac, Vpc. split; assumption.
  - exfalso. lia.
Qed.

End EdgeProofs.

(* ------------------------------------------------------------------ *)
(* D8 / D9: a concrete table.  Cycles 1-2 are a burst; cycle 3 is the edge after it: its
   two-sided consistencies are low because of cycle 4, its one-sided (towards the burst)
   consistencies are 1, so after recomputation the burst grows to cycles 1-3. *)

Definition ex_row (rd : float) (p : Z) (c : float) (l : bool) (id : nat) : @edrow nat :=
  {| e_rise := rd; e_decay := rd; e_period := p;
     e_feat := {| f_af := 1; f_ac := c; f_pc := c; f_mo := 1 |}; e_lab := l; e_x := id |}.
Definition ex_rows : list (@edrow nat) :=
  [ ex_row 1 10 0.125 false 0; ex_row 1 10 1 true 1; ex_row 1 10 1 true 2;
    ex_row 1 10 0.125 false 3; ex_row 0.125 1 0.125 false 4 ]%float.
Definition ex_t : thr4 := {| t_af := 0; t_ac := 0.5; t_pc := 0.5; t_mo := 0.5 |}.
(* amp_consistency, period_consistency, is_burst *)
Definition ex_cells (r : @edrow nat) : float * float * bool := (f_ac (e_feat r), f_pc (e_feat r), e_lab r).

Example ex_repaired :
  rmap (map ex_cells) (recompute_edges true ex_t 2 ex_rows) =
  Ok [(nan, nan, false); (1, 1, true); (1, 1, true); (1, 1, true); (0.125, 0.125, false)]%float.
Proof. vm_compute. reflexivity. Qed.

Example ex_legacy :
  rmap (map ex_cells) (recompute_edges_legacy true ex_t 2 ex_rows) =
  Ok [(0.125, 0.125, false); (1, 1, true); (1, 1, true); (0.125, 0.125, false); (0.125, 0.125, false)]%float.
Proof. vm_compute. reflexivity. Qed.

(* D8: the legacy behaviour (recomputed values never written back) differs from the repaired one *)
Theorem recompute_edges_legacy_refuted :
  recompute_edges_legacy true ex_t 2 ex_rows <> recompute_edges true ex_t 2 ex_rows.
Proof.
  intros H. apply (f_equal (rmap (map (@e_lab nat)))) in H. vm_compute in H. discriminate H.
Qed.

(* D9: the hypotheses of recompute_edges_grows are satisfiable and the growth can be strict *)
Example recompute_edges_grows_nonvacuous :
  labels_cycles ex_t 2 (map e_feat ex_rows) = Ok (map e_lab ex_rows) /\
  thr_finite ex_t /\ thr_le ex_t ex_t /\
  map e_lab ex_rows = [false; true; true; false; false] /\
  rmap (map (@e_lab nat)) (recompute_edges true ex_t 2 ex_rows) = Ok [false; true; true; true; false].
Proof.
  split; [vm_compute; reflexivity|]. split; [vm_compute; repeat split|].
  split; [vm_compute; repeat split|]. split; vm_compute; reflexivity.
Qed.

Example recompute_edges_grows_applied out :
  recompute_edges true ex_t 2 ex_rows = Ok out ->
  forall j, nth j (map e_lab ex_rows) false = true -> nth j (map e_lab out) false = true.
Proof.
  destruct recompute_edges_grows_nonvacuous as (H0 & Hf & Hle & _).
  apply (recompute_edges_grows true ex_t 2 ex_t 2 ex_rows out H0 Hf Hf Hle). lia.
Qed.
