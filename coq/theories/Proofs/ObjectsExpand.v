(* C14: the constructor's shorthand expansion (objs/fit.py) on ARBITRARY threshold dictionaries:
   every given key ends up under its long name with its value, and nothing else is in the result.
   No axioms. *)
From Coq Require Import List Bool Arith ZArith String Lia.
Import ListNotations.
From ByC Require Import Base.Result Model.Objects Proofs.Objects.
Local Open Scope string_scope.

Definition expanded_keys (d : dict) : list string := map (fun kv => expand_key (fst kv)) d.

(* ---------------------------------------------------------------- association lists *)
Lemma lookup_remove d k k' : lookup (remove d k) k' = if String.eqb k' k then None else lookup d k'.
Proof.
  induction d as [|[k0 v0] t IH]; cbn [remove lookup].
  - destruct (String.eqb k' k); reflexivity.
  - destruct (String.eqb k k0) eqn:E.
    + apply String.eqb_eq in E. subst k0. rewrite IH.
      destruct (String.eqb k' k); reflexivity.
    + cbn [lookup]. rewrite IH. destruct (String.eqb k' k0) eqn:E0; [|reflexivity].
      apply String.eqb_eq in E0. subst k0. rewrite String.eqb_sym, E. reflexivity.
Qed.

Lemma lookup_app a b k :
  lookup (a ++ b)%list k = match lookup a k with Some v => Some v | None => lookup b k end.
Proof.
  induction a as [|[k0 v0] t IH]; cbn [app lookup]; [reflexivity|].
  destruct (String.eqb k k0); [reflexivity|exact IH].
Qed.

Lemma lookup_set d k v k' : lookup (set d k v) k' = if String.eqb k' k then Some v else lookup d k'.
Proof.
  unfold set. rewrite lookup_app, lookup_remove. cbn [lookup].
  destruct (String.eqb k' k); [reflexivity|]. destruct (lookup d k'); reflexivity.
Qed.

Lemma lookup_in d k v : NoDup (map fst d) -> In (k, v) d -> lookup d k = Some v.
Proof.
  induction d as [|[k0 v0] t IH]; intros Hnd Hin; [destruct Hin|].
  cbn [map fst] in Hnd. inversion Hnd as [|x l Hni Hnd']; subst x l.
  cbn [lookup]. destruct Hin as [Heq|Hin].
  - injection Heq as -> ->. rewrite String.eqb_refl. reflexivity.
  - destruct (String.eqb k k0) eqn:E.
    + apply String.eqb_eq in E. subst k0. exfalso. apply Hni.
      change k with (fst (k, v)). apply in_map. exact Hin.
    + apply IH; assumption.
Qed.

Lemma lookup_some_in d k : lookup d k <> None -> exists v, In (k, v) d.
Proof.
  induction d as [|[k0 v0] t IH]; cbn [lookup]; intros H; [congruence|].
  destruct (String.eqb k k0) eqn:E.
  - apply String.eqb_eq in E. subst k0. exists v0. left. reflexivity.
  - destruct (IH H) as [v Hv]. exists v. right. exact Hv.
Qed.

(* ---------------------------------------------------------------- keys *)
Lemma expand_key_cases k : expand_key k = k \/ expand_key k = k ++ "_threshold".
Proof.
  unfold expand_key. destruct (ends_with k "_threshold" || String.eqb k "min_n_cycles"); [left|right]; reflexivity.
Qed.

(* the long name of a shorthand key is a fixed point; so whoever equals it has the same long name *)
Lemma expand_key_hits k1 k2 : expand_key k1 = k2 -> expand_key k2 = expand_key k1.
Proof. intros <-. apply expand_key_idem. Qed.

Lemma expanded_keys_map d : expanded_keys d = map expand_key (map fst d).
Proof. unfold expanded_keys. rewrite map_map. reflexivity. Qed.

Lemma expanded_nodup_raw d : NoDup (expanded_keys d) -> NoDup (map fst d).
Proof. rewrite expanded_keys_map. apply NoDup_map_inv. Qed.

Lemma expanded_keys_in d k v : In (k, v) d -> In (expand_key k) (expanded_keys d).
Proof.
  intros H. unfold expanded_keys.
  change (expand_key k) with ((fun kv : string * Z => expand_key (fst kv)) (k, v)). apply in_map. exact H.
Qed.

(* in l1 ++ (k, v) :: t with distinct long names, no other entry has the long name of k *)
Lemma expanded_nodup_mid l1 k v t :
  NoDup (expanded_keys (l1 ++ (k, v) :: t)%list) ->
  (forall k1 v1, In (k1, v1) l1 -> expand_key k1 <> expand_key k) /\
  (forall k2 v2, In (k2, v2) t -> expand_key k2 <> expand_key k).
Proof.
  unfold expanded_keys. rewrite map_app. cbn [map fst]. intros Hnd.
  apply NoDup_remove_2 in Hnd. split.
  - intros k1 v1 Hin E. apply Hnd. apply in_or_app. left. rewrite <- E.
    apply (expanded_keys_in l1 k1 v1 Hin).
  - intros k2 v2 Hin E. apply Hnd. apply in_or_app. right. rewrite <- E.
    apply (expanded_keys_in t k2 v2 Hin).
Qed.

(* ---------------------------------------------------------------- the loop *)
Definition estep (acc : dict) (kv : string * Z) : dict :=
  let k := fst kv in
  if String.eqb (expand_key k) k then acc
  else match lookup acc k with
       | Some v => set (remove acc k) (expand_key k) v
       | None => acc
       end.

Lemma expand_thresholds_fold d : expand_thresholds d = fold_left estep d d.
Proof. reflexivity. Qed.

(* loop invariant: l1 = keys already visited, l2 = keys still to visit *)
Definition einv (l1 l2 acc : dict) : Prop :=
  (forall k v, In (k, v) l1 -> lookup acc (expand_key k) = Some v) /\
  (forall k v, In (k, v) l2 -> lookup acc k = Some v) /\
  (forall k', lookup acc k' <> None ->
     (exists k v, In (k, v) l1 /\ k' = expand_key k) \/ (exists v, In (k', v) l2)).

Lemma einv_step l1 k v t acc :
  NoDup (expanded_keys (l1 ++ (k, v) :: t)%list) ->
  einv l1 ((k, v) :: t) acc -> einv (l1 ++ [(k, v)])%list t (estep acc (k, v)).
Proof.
  intros Hnd (HA & HB & HC).
  destruct (expanded_nodup_mid l1 k v t Hnd) as [Hl1 Ht].
  unfold estep. cbn [fst].
  destruct (String.eqb (expand_key k) k) eqn:Ek.
  - (* long key: nothing to do *)
    apply String.eqb_eq in Ek. repeat split.
    + intros k1 v1 Hin. apply in_app_or in Hin. destruct Hin as [Hin|[Heq|[]]].
      * apply (HA k1 v1 Hin).
      * injection Heq as <- <-. rewrite Ek. apply HB. left. reflexivity.
    + intros k2 v2 Hin. apply HB. right. exact Hin.
    + intros k' Hk'. destruct (HC k' Hk') as [(k1 & v1 & Hin & E)|(v2 & [Heq|Hin])].
      * left. exists k1, v1. split; [apply in_or_app; left; exact Hin|exact E].
      * injection Heq as <- <-. left. exists k, v. split; [apply in_or_app; right; left; reflexivity|].
        symmetry. exact Ek.
      * right. exists v2. exact Hin.
  - (* shorthand key: d[k + '_threshold'] = d.pop(k) *)
    apply String.eqb_neq in Ek.
    rewrite (HB k v (or_introl eq_refl)).
    assert (Hlk : forall k', lookup (set (remove acc k) (expand_key k) v) k' =
                             if String.eqb k' (expand_key k) then Some v
                             else if String.eqb k' k then None else lookup acc k').
    { intros k'. rewrite lookup_set, lookup_remove. reflexivity. }
    repeat split.
    + intros k1 v1 Hin. rewrite Hlk. apply in_app_or in Hin. destruct Hin as [Hin|[Heq|[]]].
      * destruct (String.eqb (expand_key k1) (expand_key k)) eqn:E1.
        { apply String.eqb_eq in E1. exfalso. exact (Hl1 k1 v1 Hin E1). }
        destruct (String.eqb (expand_key k1) k) eqn:E2.
        { apply String.eqb_eq in E2. exfalso. apply (Hl1 k1 v1 Hin).
          symmetry. apply expand_key_hits. exact E2. }
        apply (HA k1 v1 Hin).
      * injection Heq as <- <-. rewrite String.eqb_refl. reflexivity.
    + intros k2 v2 Hin. rewrite Hlk.
      destruct (String.eqb k2 (expand_key k)) eqn:E1.
      { apply String.eqb_eq in E1. exfalso. apply (Ht k2 v2 Hin).
        apply expand_key_hits. symmetry. exact E1. }
      destruct (String.eqb k2 k) eqn:E2.
      { apply String.eqb_eq in E2. exfalso. apply (Ht k2 v2 Hin). rewrite E2. reflexivity. }
      apply HB. right. exact Hin.
    + intros k'. rewrite Hlk.
      destruct (String.eqb k' (expand_key k)) eqn:E1.
      { apply String.eqb_eq in E1. intros _. left. exists k, v.
        split; [apply in_or_app; right; left; reflexivity|exact E1]. }
      destruct (String.eqb k' k) eqn:E2; [congruence|].
      apply String.eqb_neq in E2. intros Hk'.
      destruct (HC k' Hk') as [(k1 & v1 & Hin & E)|(v2 & [Heq|Hin])].
      * left. exists k1, v1. split; [apply in_or_app; left; exact Hin|exact E].
      * injection Heq as Heq _. exfalso. apply E2. symmetry. exact Heq.
      * right. exists v2. exact Hin.
Qed.

Lemma einv_fold l2 : forall l1 acc,
  NoDup (expanded_keys (l1 ++ l2)%list) -> einv l1 l2 acc -> einv (l1 ++ l2)%list [] (fold_left estep l2 acc).
Proof.
  induction l2 as [|[k v] t IH]; intros l1 acc Hnd Hinv.
  - rewrite app_nil_r. exact Hinv.
  - cbn [fold_left].
    replace (l1 ++ (k, v) :: t)%list with ((l1 ++ [(k, v)]) ++ t)%list in *
      by (rewrite <- app_assoc; reflexivity).
    apply IH; [exact Hnd|].
    apply einv_step; [|exact Hinv].
    rewrite <- app_assoc in Hnd. exact Hnd.
Qed.

Lemma einv_init d : NoDup (expanded_keys d) -> einv [] d d.
Proof.
  intros Hnd. repeat split.
  - intros k v [].
  - intros k v Hin. apply lookup_in; [apply expanded_nodup_raw; exact Hnd|exact Hin].
  - intros k' Hk'. right. apply lookup_some_in. exact Hk'.
Qed.

Lemma expand_thresholds_inv d : NoDup (expanded_keys d) -> einv d [] (expand_thresholds d).
Proof.
  intros Hnd. rewrite expand_thresholds_fold.
  apply (einv_fold d [] d); [exact Hnd|apply einv_init; exact Hnd].
Qed.

(* ---------------------------------------------------------------- results *)
(* every key given by the user - long or shorthand, in any mixture, any subset - ends up under its
   long name with its value, provided no two given keys name the same threshold *)
Theorem expand_thresholds_lookup : forall d k v,
  NoDup (expanded_keys d) -> In (k, v) d -> lookup (expand_thresholds d) (expand_key k) = Some v.
Proof.
  intros d k v Hnd Hin. destruct (expand_thresholds_inv d Hnd) as (HA & _ & _). apply (HA k v Hin).
Qed.

(* nothing else is in the result: no shorthand key survives and no default is invented *)
Theorem expand_thresholds_only_given_keys : forall d k',
  NoDup (expanded_keys d) -> lookup (expand_thresholds d) k' <> None ->
  exists k v, In (k, v) d /\ k' = expand_key k.
Proof.
  intros d k' Hnd Hk'. destruct (expand_thresholds_inv d Hnd) as (_ & _ & HC).
  destruct (HC k' Hk') as [H|(v & [])]. exact H.
Qed.

Corollary expand_thresholds_all_long : forall d k', NoDup (expanded_keys d) ->
  lookup (expand_thresholds d) k' <> None -> expand_key k' = k'.
Proof.
  intros d k' Hnd Hk'.
  destruct (expand_thresholds_only_given_keys d k' Hnd Hk') as (k & v & _ & ->).
  apply expand_key_idem.
Qed.
