(** Shape features of one cycle (Model/Cycles.v: shape_of, rename_shape): structural identities,
    ranges of the symmetry fractions in both frames, and the trough-centred row read against the
    ORIGINAL (un-negated) signal.  Float facts come from Base/FloatFacts.v and Base/FloatFacts2.v
    (Flocq 4.1).  After the imports bare [float] is Flocq's; the model's floats are
    [PrimFloat.float]; R_scope and float_scope are open, so every statement carries explicit
    scope annotations. *)
From Coq Require Import List Bool ZArith Reals Lra Lia.
From Coq Require Import Floats.SpecFloat Floats.PrimFloat Floats.FloatAxioms Floats.FloatOps.
From Flocq Require Import Core.Core IEEE754.BinarySingleNaN IEEE754.PrimFloat.
From ByC Require Import Base.FloatFacts Base.FloatFacts2.
From ByC Require Import Base.ListAux Base.FloatBase Model.Cycles.
Import ListNotations.

Lemma Z2F_same : FloatBase.Z2F = FloatFacts.Z2F.
Proof. reflexivity. Qed.

(** what C01 establishes for every row, in the peak frame (before [rename_srow]) *)
Definition row_ordered (r : srow) : Prop :=
  (s_last r < s_center r < s_next r)%Z /\ (s_last_zx r <= s_last r)%Z /\
  (s_last r <= s_zx_rise r <= s_center r)%Z /\ (s_center r <= s_zx_decay r <= s_next r)%Z.
Definition row_small (r : srow) : Prop := (0 <= s_last_zx r)%Z /\ (s_next r < 2 ^ 52)%Z.

(** * S1: period *)
Theorem shape_period sigc amp r :
  period (shape_of sigc amp r) = (s_next r - s_last r)%Z /\
  period (shape_of sigc amp r)
  = (time_rise (shape_of sigc amp r) + time_decay (shape_of sigc amp r))%Z.
Proof.
 cbn [shape_of period time_rise time_decay]. split; [reflexivity|lia].
Qed.

Theorem shape_period_renamed sigc amp r :
  period (rename_shape (shape_of sigc amp r)) = (s_next r - s_last r)%Z /\
  period (rename_shape (shape_of sigc amp r))
  = (time_rise (rename_shape (shape_of sigc amp r))
     + time_decay (rename_shape (shape_of sigc amp r)))%Z.
Proof.
 cbn [rename_shape shape_of period time_rise time_decay]. split; [reflexivity|lia].
Qed.

(** * S2: durations *)
Theorem shape_times_nonneg sigc amp r : row_ordered r ->
  let f := shape_of sigc amp r in
  (0 <= time_peak f)%Z /\ (0 <= time_trough f)%Z /\
  (time_peak f + time_trough f = s_zx_decay r - s_last_zx r)%Z /\
  (0 < time_peak f + time_trough f)%Z /\
  (0 < time_rise f < period f)%Z /\ (0 < time_decay f < period f)%Z.
Proof.
 intros (Hext & Hlz & Hzr & Hzd).
 cbn [shape_of period time_rise time_decay time_peak time_trough]. lia.
Qed.

Theorem shape_times_nonneg_renamed sigc amp r : row_ordered r ->
  let f := rename_shape (shape_of sigc amp r) in
  (0 <= time_peak f)%Z /\ (0 <= time_trough f)%Z /\
  (time_peak f + time_trough f = s_zx_decay r - s_last_zx r)%Z /\
  (0 < time_peak f + time_trough f)%Z /\
  (0 < time_rise f < period f)%Z /\ (0 < time_decay f < period f)%Z.
Proof.
 intros (Hext & Hlz & Hzr & Hzd).
 cbn [rename_shape shape_of period time_rise time_decay time_peak time_trough]. lia.
Qed.

(** * S3: one unfolding lemma per column of the peak frame *)
Section Formulas.
Variables (sigc amp : list PrimFloat.float) (r : srow).
Let f := shape_of sigc amp r.

Lemma shape_period_def : period f = (s_next r - s_last r)%Z.
Proof. reflexivity. Qed.
Lemma shape_time_peak : time_peak f = (s_zx_decay r - s_zx_rise r)%Z.
Proof. reflexivity. Qed.
Lemma shape_time_trough : time_trough f = (s_zx_rise r - s_last_zx r)%Z.
Proof. reflexivity. Qed.
Lemma shape_time_decay : time_decay f = (s_next r - s_center r)%Z.
Proof. reflexivity. Qed.
Lemma shape_time_rise : time_rise f = (s_center r - s_last r)%Z.
Proof. reflexivity. Qed.
Lemma shape_volt_peak : volt_peak f = at_ sigc (s_center r).
Proof. reflexivity. Qed.
Lemma shape_volt_trough : volt_trough f = at_ sigc (s_last r).
Proof. reflexivity. Qed.
Lemma shape_volt_decay : volt_decay f = (at_ sigc (s_center r) - at_ sigc (s_next r))%float.
Proof. reflexivity. Qed.
Lemma shape_volt_rise : volt_rise f = (at_ sigc (s_center r) - at_ sigc (s_last r))%float.
Proof. reflexivity. Qed.
Lemma shape_volt_amp : volt_amp f = ((volt_decay f + volt_rise f) / 2)%float.
Proof. reflexivity. Qed.
Lemma shape_time_rdsym :
  time_rdsym f = (FloatBase.Z2F (time_rise f) / FloatBase.Z2F (period f))%float.
Proof. reflexivity. Qed.
Lemma shape_time_ptsym :
  time_ptsym f
  = (FloatBase.Z2F (time_peak f) / FloatBase.Z2F (time_peak f + time_trough f))%float.
Proof. reflexivity. Qed.
Lemma shape_band_amp : band_amp f = fmean (zslice amp (s_last r) (s_next r)).
Proof. reflexivity. Qed.

Theorem shape_formulas :
  period f = (s_next r - s_last r)%Z /\
  time_peak f = (s_zx_decay r - s_zx_rise r)%Z /\
  time_trough f = (s_zx_rise r - s_last_zx r)%Z /\
  time_decay f = (s_next r - s_center r)%Z /\
  time_rise f = (s_center r - s_last r)%Z /\
  volt_peak f = at_ sigc (s_center r) /\
  volt_trough f = at_ sigc (s_last r) /\
  volt_decay f = (at_ sigc (s_center r) - at_ sigc (s_next r))%float /\
  volt_rise f = (at_ sigc (s_center r) - at_ sigc (s_last r))%float /\
  volt_amp f = ((volt_decay f + volt_rise f) / 2)%float /\
  time_rdsym f = (FloatBase.Z2F (time_rise f) / FloatBase.Z2F (period f))%float /\
  time_ptsym f
  = (FloatBase.Z2F (time_peak f) / FloatBase.Z2F (time_peak f + time_trough f))%float /\
  band_amp f = fmean (zslice amp (s_last r) (s_next r)).
Proof. repeat split. Qed.

(** the renamed (trough) frame, column by column, in terms of the peak-frame record *)
Theorem rename_formulas (g : shape) :
  period (rename_shape g) = period g /\
  time_peak (rename_shape g) = time_trough g /\ time_trough (rename_shape g) = time_peak g /\
  time_decay (rename_shape g) = time_rise g /\ time_rise (rename_shape g) = time_decay g /\
  volt_peak (rename_shape g) = (- volt_trough g)%float /\
  volt_trough (rename_shape g) = (- volt_peak g)%float /\
  volt_decay (rename_shape g) = volt_rise g /\ volt_rise (rename_shape g) = volt_decay g /\
  volt_amp (rename_shape g) = volt_amp g /\
  time_rdsym (rename_shape g) = (1 - time_rdsym g)%float /\
  time_ptsym (rename_shape g) = (1 - time_ptsym g)%float /\
  band_amp (rename_shape g) = band_amp g.
Proof. repeat split. Qed.
End Formulas.

(** * S4: symmetry fractions, peak frame *)
Lemma row_ratio_facts r : row_ordered r -> row_small r ->
  (0 < s_center r - s_last r < s_next r - s_last r)%Z /\ (s_next r - s_last r < 2 ^ 53)%Z /\
  (0 <= s_zx_decay r - s_zx_rise r
     <= (s_zx_decay r - s_zx_rise r) + (s_zx_rise r - s_last_zx r))%Z /\
  (0 < (s_zx_decay r - s_zx_rise r) + (s_zx_rise r - s_last_zx r) < 2 ^ 53)%Z.
Proof.
 intros (Hext & Hlz & Hzr & Hzd) (H0 & Hn).
 assert (E : (2 ^ 53 = 2 * 2 ^ 52)%Z) by reflexivity.
 lia.
Qed.

Theorem shape_sym_range sigc amp r : row_ordered r -> row_small r ->
  let f := shape_of sigc amp r in
  (0 <? time_rdsym f)%float = true /\ (time_rdsym f <? 1)%float = true /\
  (0 <=? time_ptsym f)%float = true /\ (time_ptsym f <=? 1)%float = true.
Proof.
 intros Ho Hs.
 destruct (row_ratio_facts r Ho Hs) as (Hrd & Hper & Hpt & Hsum).
 cbn [shape_of time_rdsym time_ptsym]. rewrite Z2F_same.
 destruct (ratio_range_strict _ _ Hrd Hper) as (A & B).
 destruct (ratio_range _ _ Hpt Hsum) as (C & D).
 repeat split; assumption.
Qed.

(** * S5: symmetry fractions, trough frame (1 - x) *)
Theorem shape_sym_range_renamed sigc amp r : row_ordered r -> row_small r ->
  let f := rename_shape (shape_of sigc amp r) in
  (0 <? time_rdsym f)%float = true /\ (time_rdsym f <? 1)%float = true /\
  (0 <=? time_ptsym f)%float = true /\ (time_ptsym f <=? 1)%float = true.
Proof.
 intros Ho Hs.
 destruct (row_ratio_facts r Ho Hs) as (Hrd & Hper & Hpt & Hsum).
 cbn [rename_shape shape_of time_rdsym time_ptsym]. rewrite Z2F_same.
 destruct (one_minus_ratio_strict _ _ Hrd Hper) as (A & B).
 destruct (ratio_range _ _ Hpt Hsum) as (C & D).
 destruct (one_minus_range' _ C D) as (C' & D').
 repeat split; assumption.
Qed.

(** sharper: both rdsym values stay at least 2^-53 away from 0 and 1 *)
Theorem shape_rdsym_bounds sigc amp r : row_ordered r -> row_small r ->
  let f := shape_of sigc amp r in
  finite (time_rdsym f) = true /\ finite (time_rdsym (rename_shape f)) = true /\
  (bpow radix2 (-53) <= FR (time_rdsym f) <= 1 - bpow radix2 (-53))%R /\
  (bpow radix2 (-53) <= FR (time_rdsym (rename_shape f)) <= 1 - bpow radix2 (-53))%R.
Proof.
 intros Ho Hs.
 destruct (row_ratio_facts r Ho Hs) as (Hrd & Hper & _ & _).
 cbn [rename_shape shape_of time_rdsym]. rewrite Z2F_same.
 destruct (ratio_bounds_strict _ _ Hrd Hper) as (A & B).
 destruct (one_minus_ratio_bounds _ _ Hrd Hper) as (C & D).
 repeat split; (assumption || apply B || apply D).
Qed.

(** * S6: the trough-centred row read against the original signal *)
Lemma at_map_opp raw i : (0 <= i < Z.of_nat (length raw))%Z ->
  at_ (map PrimFloat.opp raw) i = PrimFloat.opp (at_ raw i).
Proof.
 intros Hi. unfold at_.
 rewrite (nth_indep _ 0%float (PrimFloat.opp 0%float)).
 - apply map_nth.
 - rewrite map_length. lia.
Qed.

Theorem trough_shape_against_original raw amp r :
  (0 <= s_last r < Z.of_nat (length raw))%Z ->
  (0 <= s_center r < Z.of_nat (length raw))%Z ->
  (0 <= s_next r < Z.of_nat (length raw))%Z ->
  let f := rename_shape (shape_of (map PrimFloat.opp raw) amp r) in
  let vl := at_ raw (s_last r) in
  let vc := at_ raw (s_center r) in
  let vn := at_ raw (s_next r) in
  volt_trough f = vc /\ volt_peak f = vl /\
  time_rise f = (s_next r - s_center r)%Z /\ time_decay f = (s_center r - s_last r)%Z /\
  time_trough f = (s_zx_decay r - s_zx_rise r)%Z /\
  time_peak f = (s_zx_rise r - s_last_zx r)%Z /\
  period f = (s_next r - s_last r)%Z /\
  volt_decay f = (PrimFloat.opp vc - PrimFloat.opp vl)%float /\
  volt_rise f = (PrimFloat.opp vc - PrimFloat.opp vn)%float /\
  (finite vc = true -> finite vl = true -> finite (vl - vc)%float = true ->
   FR (volt_decay f) = FR (vl - vc)%float /\ finite (volt_decay f) = true) /\
  (finite vc = true -> finite vn = true -> finite (vn - vc)%float = true ->
   FR (volt_rise f) = FR (vn - vc)%float /\ finite (volt_rise f) = true).
Proof.
 intros Hl Hc Hn.
 cbn [rename_shape shape_of period time_rise time_decay time_peak time_trough
      volt_peak volt_trough volt_decay volt_rise].
 rewrite !at_map_opp by assumption. rewrite !opp_involutive.
 repeat split; try reflexivity.
 - apply sub_opp_opp; assumption.
 - apply sub_opp_opp; assumption.
 - apply sub_opp_opp; assumption.
 - apply sub_opp_opp; assumption.
Qed.

(** in the trough frame the decay flank is a non-negative voltage drop whenever the centre is a
    minimum of the original signal *)
Corollary trough_volts_nonneg raw amp r :
  (0 <= s_last r < Z.of_nat (length raw))%Z ->
  (0 <= s_center r < Z.of_nat (length raw))%Z ->
  (0 <= s_next r < Z.of_nat (length raw))%Z ->
  let f := rename_shape (shape_of (map PrimFloat.opp raw) amp r) in
  let vl := at_ raw (s_last r) in
  let vc := at_ raw (s_center r) in
  finite vc = true -> finite vl = true -> finite (vl - vc)%float = true ->
  (vc <=? vl)%float = true -> (0 <=? volt_decay f)%float = true.
Proof.
 intros Hl Hc Hn. cbv zeta. intros Fc Fl Fd Hle.
 destruct (trough_shape_against_original raw amp r Hl Hc Hn)
   as (_ & _ & _ & _ & _ & _ & _ & _ & _ & Hd & _).
 cbv zeta in Hd. destruct (Hd Fc Fl Fd) as (Vd & Fvd).
 apply R_leb0; [exact Fvd|]. rewrite Vd.
 destruct (sub_FR_fin _ _ Fl Fc Fd) as (Vs & _). rewrite Vs.
 rewrite <- rnd64_0. apply rnd64_le.
 rewrite leb_R in Hle by assumption.
 revert Hle. case Rle_bool_spec; [lra|discriminate].
Qed.

(** * S7: non-vacuity *)
Definition ex_row : srow :=
  {| s_center := 16; s_last := 10; s_next := 25; s_zx_rise := 13; s_zx_decay := 20; s_last_zx := 7 |}.

Example ex_row_ok : row_ordered ex_row /\ row_small ex_row.
Proof. unfold row_ordered, row_small, ex_row. cbn. lia. Qed.

Example ex_row_sym :
  let f := shape_of [] [] ex_row in
  time_rdsym f = (0x1.999999999999ap-2)%float /\                   (* 6/15 = 0.4 *)
  time_ptsym f = (0x1.13b13b13b13b1p-1)%float /\                   (* 7/13 *)
  time_rdsym (rename_shape f) = (0x1.3333333333333p-1)%float /\    (* 0.6 *)
  time_ptsym (rename_shape f) = (0x1.d89d89d89d89ep-2)%float /\    (* 6/13 *)
  period f = 15%Z /\ time_rise f = 6%Z /\ time_decay f = 9%Z /\
  time_peak f = 7%Z /\ time_trough f = 6%Z.
Proof. vm_compute. repeat split. Qed.
