(* C10, the band_amp column: "multiplying the signal by a positive constant multiplies ... band_amp by that
   constant".

   band_amp of a row is the mean of the amplitude envelope (an input of the model: k_amp, the reference
   amp_by_time) over [last side extremum, next side extremum).  Proofs/Scale.v leaves the envelope of the
   scaled run arbitrary and says nothing about band_amp.  Here the envelope of the scaled run is the scaled
   envelope (k_amp k' = map s (k_amp k): Hilbert amplitude of a linear filter, an assumption about the
   external kernel exactly like the sign bits), and - in the style of c10_hypb - the scaling map is required
   to commute with the mean over the windows that actually occur (mean_on, decided on any concrete input by
   mean_onb / c10_ampb; implied by commutation with every partial sum and the final division, sums_on).
   Under it band_amp of every row is mapped by s, together with everything c10_checked already gives. *)
From Coq Require Import List Bool Arith ZArith Lia Floats.PrimFloat Floats.FloatAxioms.
Import ListNotations.
From ByC Require Import Base.Result Base.ListAux Base.FloatBase Harness.Compare
  Model.Runs Model.Labels Model.Extrema Model.Zerox Model.Cycles Model.BurstFeat Model.Features.
From ByC Require Import Proofs.Scale.
Require ByC.Proofs.Cycles.

(* ------------------------------------------------------------------------- *)
(* the hypothesis and its checker                                            *)
(* ------------------------------------------------------------------------- *)

Definition mean_on (s : float -> float) (amp : list float) (r : srow) : Prop :=
  fmean (zslice (map s amp) (s_last r) (s_next r)) = s (fmean (zslice amp (s_last r) (s_next r))).

Definition mean_onb (s : float -> float) (amp : list float) (r : srow) : bool :=
  PrimFloat.Leibniz.eqb (fmean (zslice (map s amp) (s_last r) (s_next r)))
                        (s (fmean (zslice amp (s_last r) (s_next r)))).

Lemma mean_onb_sound s amp r : mean_onb s amp r = true -> mean_on s amp r.
Proof. unfold mean_onb, mean_on. intro H. apply Leibniz.eqb_spec. exact H. Qed.

(* operation-level sufficient condition: s commutes with every partial sum of the window (left to right,
   starting from 0) and with the final division by the window length *)
Fixpoint sums_on (s : float -> float) (acc : float) (l : list float) : Prop :=
  match l with
  | [] => True
  | x :: t => (s acc + s x)%float = s (acc + x)%float /\ sums_on s (acc + x)%float t
  end.

Lemma fold_left_scale s l : forall acc, sums_on s acc l ->
  fold_left (fun a x => (a + x)%float) (map s l) (s acc) = s (fold_left (fun a x => (a + x)%float) l acc).
Proof.
  induction l as [|x t IH]; intros acc H; cbn [map fold_left]; [reflexivity|].
  cbn [sums_on] in H. destruct H as [Hx Ht]. rewrite Hx. apply IH. exact Ht.
Qed.

Lemma fmean_scale s l :
  s 0%float = 0%float -> sums_on s 0%float l ->
  (s (fsum_left l) / Z2F (Z.of_nat (length l)))%float = s (fsum_left l / Z2F (Z.of_nat (length l)))%float ->
  fmean (map s l) = s (fmean l).
Proof.
  intros H0 Hs Hd. unfold fmean, fsum_left. rewrite map_length.
  rewrite <- H0 at 1. rewrite (fold_left_scale s l 0%float Hs). exact Hd.
Qed.

Lemma slice_map {A B} (f : A -> B) l a b : slice (map f l) a b = map f (slice l a b).
Proof. unfold slice. rewrite skipn_map, firstn_map. reflexivity. Qed.

Lemma zslice_map {A B} (f : A -> B) l a b : zslice (map f l) a b = map f (zslice l a b).
Proof. unfold zslice. apply slice_map. Qed.

(* mean_on from the operation-level laws on the row's window *)
Lemma mean_on_from_sums s amp r :
  let w := zslice amp (s_last r) (s_next r) in
  s 0%float = 0%float -> sums_on s 0%float w ->
  (s (fsum_left w) / Z2F (Z.of_nat (length w)))%float = s (fsum_left w / Z2F (Z.of_nat (length w)))%float ->
  mean_on s amp r.
Proof. cbv zeta. intros H0 Hs Hd. unfold mean_on. rewrite zslice_map. apply fmean_scale; assumption. Qed.

(* ------------------------------------------------------------------------- *)
(* band_amp of every returned row is the mean of the envelope over its window *)
(* ------------------------------------------------------------------------- *)

Lemma table_band_amp c raw k b tab :
  shape_table c raw k b = Ok tab ->
  Forall (fun p => band_amp (snd p) = fmean (zslice (k_amp k) (s_last (fst p)) (s_next (fst p)))) tab.
Proof.
  intro H. destruct (ByC.Proofs.Cycles.shape_table_inv _ _ _ _ _ H)
    as (peaks & troughs & rises & decays & rows & _ & _ & _ & _ & Htab).
  subst tab. apply Forall_forall. intros p Hin.
  destruct c; unfold ByC.Proofs.Cycles.table_of in Hin; apply in_map_iff in Hin;
    destruct Hin as (r & Hp & _); subst p; reflexivity.
Qed.

Lemma Forall_two_maps {A B C D} (f : A -> C) (g : A -> D) (f' : B -> C) (g' : B -> D) (P : C -> D -> Prop) :
  forall out tab, map f out = map f' tab -> map g out = map g' tab ->
  Forall (fun p => P (f' p) (g' p)) tab -> Forall (fun r => P (f r) (g r)) out.
Proof.
  induction out as [|r out IH]; intros tab Hf Hg HF; [constructor|].
  destruct tab as [|p tab]; [discriminate|].
  cbn [map] in Hf, Hg. inversion Hf as [[Hf1 Hf2]]. inversion Hg as [[Hg1 Hg2]].
  inversion HF as [|p' tab' Hp Htab]; subst.
  constructor; [rewrite Hf1, Hg1; exact Hp | exact (IH tab Hf2 Hg2 Htab)].
Qed.

Theorem compute_features_band_amp c raw k b m out :
  compute_features c raw k b m = Ok out ->
  Forall (fun r => band_amp (r_shape r) = fmean (zslice (k_amp k) (s_last (r_s r)) (s_next (r_s r)))) out.
Proof.
  intro H. destruct (ByC.Proofs.Cycles.compute_features_rows_gen _ _ _ _ _ _ H) as (tab & Htab & Hs & Hsh).
  pose proof (table_band_amp _ _ _ _ _ Htab) as HT.
  exact (Forall_two_maps r_s r_shape fst snd
           (fun sr sh => band_amp sh = fmean (zslice (k_amp k) (s_last sr) (s_next sr))) out tab Hs Hsh HT).
Qed.

(* ------------------------------------------------------------------------- *)
(* covariance of band_amp                                                    *)
(* ------------------------------------------------------------------------- *)

Definition frow_scaled_amp (s : float -> float) (r' r : frow) : Prop :=
  frow_scaled s r' r /\ band_amp (r_shape r') = s (band_amp (r_shape r)).

Theorem compute_features_band_amp_scale c s raw k' k b m out' out :
  features_rel s (compute_features c (map s raw) k' b m) (compute_features c raw k b m) ->
  k_amp k' = map s (k_amp k) ->
  compute_features c raw k b m = Ok out ->
  compute_features c (map s raw) k' b m = Ok out' ->
  Forall (fun r => mean_on s (k_amp k) (r_s r)) out ->
  Forall2 (frow_scaled_amp s) out' out.
Proof.
  intros Hrel Hamp Hout Hout' Hmean.
  pose proof (compute_features_band_amp _ _ _ _ _ _ Hout) as HB.
  pose proof (compute_features_band_amp _ _ _ _ _ _ Hout') as HB'.
  rewrite Hout, Hout' in Hrel. cbn [features_rel] in Hrel.
  clear Hout Hout'. rewrite Hamp in HB'. clear Hamp.
  induction Hrel as [|r' r out' out Hr _ IH]; [constructor|].
  inversion HB as [|x l HBr HBt]; subst. inversion HB' as [|x l HBr' HBt']; subst.
  inversion Hmean as [|x l Hmr Hmt]; subst.
  constructor; [|apply IH; assumption].
  split; [exact Hr|].
  destruct Hr as (Hs & _). rewrite HBr', HBr, Hs. exact Hmr.
Qed.

(* the decidable hypothesis for one analysis, and the checked statement: everything c10_checked gives, plus
   band_amp mapped by s *)
Definition c10_ampb (c : centre) (s : float -> float) (raw : list float) (k : kernels) (b : Z) (m : method) : bool :=
  match compute_features c raw k b m with
  | Ok out => forallb (fun r => mean_onb s (k_amp k) (r_s r)) out
  | Err _ => true
  end.

Theorem c10_band_amp_checked c s raw k' k b m out' out :
  c10_hypb c s raw k b m = true -> c10_ampb c s raw k b m = true ->
  k_pos k' = k_pos k -> k_padn k' = k_padn k -> k_amp k' = map s (k_amp k) ->
  compute_features c raw k b m = Ok out ->
  compute_features c (map s raw) k' b m = Ok out' ->
  Forall2 (frow_scaled_amp s) out' out.
Proof.
  intros Hh Ha Hpos Hpad Hamp Hout Hout'.
  apply (compute_features_band_amp_scale c s raw k' k b m out' out); try assumption.
  - apply c10_checked; assumption.
  - unfold c10_ampb in Ha. rewrite Hout in Ha. rewrite forallb_forall in Ha.
    apply Forall_forall. intros r Hr. apply mean_onb_sound. exact (Ha r Hr).
Qed.

(* non-vacuity: on the 7-cycle example of Proofs/Scale.v the hypotheses hold for x * 4 (envelope 1 -> 4) and
   both runs return a table, so the theorem applies; and the mean law really is a condition: it fails for a
   non-linear map (x * x on the envelope 0, 1, 2, ...) *)
Example c10_band_amp_example :
  c10_hypb Peak ScaleExamples.x4 ScaleExamples.sc_raw ScaleExamples.sc_k 0 ScaleExamples.sc_m = true /\
  c10_ampb Peak ScaleExamples.x4 ScaleExamples.sc_raw ScaleExamples.sc_k 0 ScaleExamples.sc_m = true /\
  k_amp ScaleExamples.sc_k' = map ScaleExamples.x4 (k_amp ScaleExamples.sc_k) /\
  (exists out out', compute_features Peak ScaleExamples.sc_raw ScaleExamples.sc_k 0 ScaleExamples.sc_m = Ok out /\
     compute_features Peak (map ScaleExamples.x4 ScaleExamples.sc_raw) ScaleExamples.sc_k' 0 ScaleExamples.sc_m = Ok out' /\
     3 <= length out) /\
  c10_ampb Peak (fun x => (x * x)%float) ScaleExamples.sc_raw
    {| k_pos := k_pos ScaleExamples.sc_k; k_padn := 0; k_amp := map (fun i => Z2F (Z.of_nat i)) (seq 0 80) |} 0 ScaleExamples.sc_m = false.
Proof.
  split; [exact ScaleExamples.sc_hyp_x4|]. split; [vm_compute; reflexivity|]. split; [vm_compute; reflexivity|].
  split; [|vm_compute; reflexivity].
  destruct (compute_features Peak ScaleExamples.sc_raw ScaleExamples.sc_k 0 ScaleExamples.sc_m) as [out|e] eqn:E;
    [|vm_compute in E; discriminate].
  destruct (compute_features Peak (map ScaleExamples.x4 ScaleExamples.sc_raw) ScaleExamples.sc_k' 0 ScaleExamples.sc_m)
    as [out'|e] eqn:E'; [|vm_compute in E'; discriminate].
  exists out, out'. split; [reflexivity|]. split; [reflexivity|].
  assert (Hl : rmap (@length frow) (compute_features Peak ScaleExamples.sc_raw ScaleExamples.sc_k 0 ScaleExamples.sc_m) = Ok 7)
    by (vm_compute; reflexivity).
  rewrite E in Hl. cbn [rmap] in Hl. inversion Hl as [Hn]. lia.
Qed.
