(* C19 proofs: the decision table accepts exactly the documented combinations. *)
From Coq Require Import List Bool Arith Lia ZArith Floats.PrimFloat.
Import ListNotations.
From ByC Require Import Base.Result Base.FloatFacts Model.Validate.

Theorem group_accepts_iff s k a : group_accepts s k a = true <-> documented_valid s k a.
Proof.
  unfold group_accepts.
  destruct s as [n0|n0 n1], a, k as [| |d0|d0 d1| |]; cbn;
    rewrite ?andb_true_r, ?andb_false_r, ?andb_true_iff, ?Nat.eqb_eq;
    split; intros H;
    repeat match goal with
           | H : _ \/ _ |- _ => destruct H
           | H : _ /\ _ |- _ => destruct H
           | H : False |- _ => destruct H
           end;
    try discriminate; try congruence; subst; auto;
    try (match goal with H : K1 _ = K1 _ |- _ => injection H as -> end; auto);
    try (match goal with H : K2 _ _ = K2 _ _ |- _ => injection H as -> ->; auto end).
Qed.

(* the shape check alone never rejects a documented-valid combination and, whenever the axis is
   valid for the array, accepts only documented-valid ones *)
Theorem check_shape_sound s k a : axis_ok s a = true ->
  (check_kwargs_shape s k a = true <-> documented_valid s k a).
Proof.
  intros Ha. rewrite <- group_accepts_iff. unfold group_accepts. rewrite Ha, andb_true_r. reflexivity.
Qed.

Theorem invalid_axis_rejected s k a : axis_ok s a = false -> group_accepts s k a = false.
Proof. intros H. unfold group_accepts. rewrite H. apply andb_false_r. Qed.

(* Legacy: the table before the repair accepted a 2-D list for axis 0 *)
Theorem legacy_table_refuted : exists s k a,
  check_kwargs_shape_legacy s k a && axis_ok s a = true /\ ~ documented_valid s k a.
Proof.
  exists (D3 2 3), (K2 2 3), Ax0. split; [reflexivity|].
  cbn. intros [H|[H|H]]; discriminate.
Qed.

(* range checks accept exactly lo <= x <= hi on finite values *)
Theorem in_range_iff x lo hi : finite x = true -> finite lo = true -> finite hi = true ->
  (in_range x lo hi = true <-> (lo <=? x)%float = true /\ (x <=? hi)%float = true).
Proof.
  intros Fx Fl Fh. unfold in_range.
  rewrite negb_true_iff, orb_false_iff.
  rewrite (ltb_total x lo Fx Fl), (ltb_total hi x Fh Fx), !negb_false_iff. reflexivity.
Qed.

(* NaN slips through a range check (documented limitation of the comparison-based check) *)
Theorem in_range_nan lo hi : in_range nan lo hi = true.
Proof. unfold in_range. now rewrite ltb_nan_l, ltb_nan_r. Qed.

Theorem min_n_ok_iff n : min_n_ok n = true <-> (0 <= n)%Z.
Proof. unfold min_n_ok. apply Z.leb_le. Qed.

Theorem option_ok_iff nv o : option_ok nv o = true <-> exists i, o = OptValid i /\ (i < nv)%nat.
Proof.
  destruct o as [i|]; unfold option_ok.
  - rewrite Nat.ltb_lt. split; [eauto|]. intros (j & [= ->] & H). exact H.
  - split; [discriminate|]. intros (j & H & _). discriminate.
Qed.

Theorem dims_guards : (forall d, bycycle_fit_dim_ok d = true <-> d = 1%nat) /\
                      (forall d, group_fit_dim_ok d = true <-> d = 2%nat \/ d = 3%nat).
Proof.
  split; intros d.
  - unfold bycycle_fit_dim_ok. apply Nat.eqb_eq.
  - unfold group_fit_dim_ok. rewrite orb_true_iff, !Nat.eqb_eq. reflexivity.
Qed.

Example documented_valid_example :
  documented_valid (D3 2 3) (K2 2 3) Ax01 /\ documented_valid (D3 2 3) (K1 3) Ax1 /\
  documented_valid (D2 4) (K1 4) AxNone /\ group_accepts (D3 2 3) (K2 2 3) Ax01 = true.
Proof. cbn. repeat split; auto. Qed.
