(* C19 proofs: the decision table accepts exactly the documented combinations. *)
From Coq Require Import List Bool Arith Lia ZArith String.
From Coq Require Import Floats.SpecFloat Floats.PrimFloat Floats.FloatAxioms Floats.FloatOps.
From Flocq Require Import IEEE754.BinarySingleNaN IEEE754.PrimFloat.
Import ListNotations.
From ByC Require Import Base.Result Base.FloatFacts Harness.Compare Model.Validate.

Theorem group_accepts_iff s k a : group_accepts s k a = true <-> documented_valid s k a.
Proof.
  unfold group_accepts.
  destruct s as [n0|n0 n1], a, k as [| |d0|d0 d1| |]; cbn;
    rewrite ?andb_true_r, ?andb_false_r, ?andb_true_iff, ?Nat.eqb_eq;
    split; intros H;
    repeat match goal with
           | H : _ \/ _ |- _ => destruct H
           | H : _ /\ _ |- _ => destruct H
           | H : False |- _ => destruct H
           end;
    try discriminate; try congruence; subst; auto;
    try (match goal with H : K1 _ = K1 _ |- _ => injection H as -> end; auto);
    try (match goal with H : K2 _ _ = K2 _ _ |- _ => injection H as -> ->; auto end).
Qed.

(* the shape check alone never rejects a documented-valid combination and, whenever the axis is
   valid for the array, accepts only documented-valid ones *)
Theorem check_shape_sound s k a : axis_ok s a = true ->
  (check_kwargs_shape s k a = true <-> documented_valid s k a).
Proof.
  intros Ha. rewrite <- group_accepts_iff. unfold group_accepts. rewrite Ha, andb_true_r. reflexivity.
Qed.

Theorem invalid_axis_rejected s k a : axis_ok s a = false -> group_accepts s k a = false.
Proof. intros H. unfold group_accepts. rewrite H. apply andb_false_r. Qed.

(* Legacy: the table before the repair accepted a 2-D list for axis 0 *)
Theorem legacy_table_refuted : exists s k a,
  check_kwargs_shape_legacy s k a && axis_ok s a = true /\ ~ documented_valid s k a.
Proof.
  exists (D3 2 3), (K2 2 3), Ax0. split; [reflexivity|].
  cbn. intros [H|[H|H]]; discriminate.
Qed.

(* range checks accept exactly lo <= x <= hi on finite values *)
Theorem in_range_iff x lo hi : finite x = true -> finite lo = true -> finite hi = true ->
  (in_range x lo hi = true <-> (lo <=? x)%float = true /\ (x <=? hi)%float = true).
Proof.
  intros Fx Fl Fh. unfold in_range.
  rewrite negb_true_iff, orb_false_iff.
  rewrite (ltb_total x lo Fx Fl), (ltb_total hi x Fh Fx), !negb_false_iff. reflexivity.
Qed.

(* NaN slips through a range check (documented limitation of the comparison-based check) *)
Theorem in_range_nan lo hi : in_range nan lo hi = true.
Proof. unfold in_range. now rewrite ltb_nan_l, ltb_nan_r. Qed.

(* infinite values are outside every finite range *)
Lemma Prim2B_infinity : Prim2B infinity = B754_infinity false.
Proof. rewrite infinity_equiv. apply Prim2B_B2Prim. Qed.
Lemma Prim2B_neg_infinity : Prim2B neg_infinity = B754_infinity true.
Proof. rewrite neg_infinity_equiv. apply Prim2B_B2Prim. Qed.

Lemma ltb_infinity_r x : finite x = true -> (x <? infinity)%float = true.
Proof.
  unfold finite. rewrite ltb_equiv, Prim2B_infinity.
  destruct (Prim2B x) as [s|s| |s m e He]; cbn; intros Hf; try discriminate Hf; try reflexivity;
    destruct s; reflexivity.
Qed.
Lemma ltb_neg_infinity_l x : finite x = true -> (neg_infinity <? x)%float = true.
Proof.
  unfold finite. rewrite ltb_equiv, Prim2B_neg_infinity.
  destruct (Prim2B x) as [s|s| |s m e He]; cbn; intros Hf; try discriminate Hf; try reflexivity;
    destruct s; reflexivity.
Qed.

Theorem in_range_infinite lo hi : finite lo = true -> finite hi = true ->
  in_range infinity lo hi = false /\ in_range neg_infinity lo hi = false.
Proof.
  intros Fl Fh. unfold in_range. split.
  - rewrite (ltb_infinity_r hi Fh), orb_true_r. reflexivity.
  - rewrite (ltb_neg_infinity_l lo Fl). reflexivity.
Qed.

(* the sampling-rate check accepts exactly the values above zero (NaN and zero are rejected) *)
Theorem fs_ok_iff fs : fs_ok fs = true <-> (0 <? fs)%float = true.
Proof. reflexivity. Qed.
Theorem fs_ok_rejects : fs_ok 0 = false /\ fs_ok (-0) = false /\ fs_ok nan = false /\ fs_ok neg_infinity = false.
Proof. vm_compute. repeat split. Qed.
Theorem fs_ok_nonpositive fs : finite fs = true -> (fs <=? 0)%float = true -> fs_ok fs = false.
Proof.
  intros Ff Hle. unfold fs_ok.
  assert (F0 : finite 0%float = true) by reflexivity.
  rewrite (ltb_total 0%float fs F0 Ff), Hle. reflexivity.
Qed.

Theorem min_n_ok_iff n : min_n_ok n = true <-> (0 <= n)%Z.
Proof. unfold min_n_ok. apply Z.leb_le. Qed.

(* the count given in two dictionaries (amplitude method) *)
Lemma opt_min_n_ok_iff c : opt_min_n_ok c = true <-> forall n, c = Some n -> (0 <= n)%Z.
Proof.
  destruct c as [m|]; cbn.
  - rewrite min_n_ok_iff. split.
    + intros Hm n Hn. injection Hn as <-. exact Hm.
    + intros H. apply H. reflexivity.
  - split; [intros _ n Hn; discriminate Hn | reflexivity].
Qed.

Theorem min_n_pair_ok_iff b t :
  min_n_pair_ok b t = true <-> (forall n, b = Some n -> (0 <= n)%Z) /\ (forall n, t = Some n -> (0 <= n)%Z).
Proof. unfold min_n_pair_ok. rewrite andb_true_iff, !opt_min_n_ok_iff. reflexivity. Qed.

Theorem min_n_pair_negative_rejected b t n :
  b = Some n \/ t = Some n -> (n < 0)%Z -> min_n_pair_ok b t = false.
Proof.
  intros Hbt Hn. destruct (min_n_pair_ok b t) eqn:E; [|reflexivity].
  apply min_n_pair_ok_iff in E. destruct E as [Hb Ht].
  destruct Hbt as [H|H]; [apply Hb in H | apply Ht in H]; lia.
Qed.

(* the resolution of the two entries into one validated count agrees with the rule except on exactly one class: a valid
   count in burst_kwargs and a negative one in the thresholds (the negative entry is overwritten unseen) *)
Theorem min_n_pair_legacy_differs_iff b t :
  min_n_pair_ok_legacy b t <> min_n_pair_ok b t <->
  exists nb nt, b = Some nb /\ t = Some nt /\ (0 <= nb)%Z /\ (nt < 0)%Z.
Proof.
  unfold min_n_pair_ok_legacy, min_n_pair_ok, effective_min_n, opt_min_n_ok, min_n_ok.
  destruct b as [nb|], t as [nt|]; cbn.
  - destruct (0 <=? nb)%Z eqn:Eb, (0 <=? nt)%Z eqn:Et; cbn; split; intros H;
      try (exfalso; apply H; reflexivity);
      try (destruct H as (x & y & Hx & Hy & H1 & H2); injection Hx as <-; injection Hy as <-;
           apply Z.leb_le in Et || apply Z.leb_gt in Eb; lia).
    + exists nb, nt. apply Z.leb_le in Eb. apply Z.leb_gt in Et. auto.
    + discriminate.
  - rewrite andb_true_r. split; [intros H; exfalso; apply H; reflexivity | intros (x & y & _ & Hy & _); discriminate Hy].
  - split; [intros H; exfalso; apply H; reflexivity | intros (x & y & Hx & _); discriminate Hx].
  - split; [intros H; exfalso; apply H; reflexivity | intros (x & y & Hx & _); discriminate Hx].
Qed.

Theorem min_n_pair_legacy_refuted :
  exists b t n, t = Some n /\ (n < 0)%Z /\ min_n_pair_ok_legacy b t = true /\ min_n_pair_ok b t = false.
Proof. exists (Some 3%Z), (Some (-1)%Z), (-1)%Z. repeat split; reflexivity. Qed.

Theorem option_ok_iff nv o : option_ok nv o = true <-> exists i, o = OptValid i /\ (i < nv)%nat.
Proof.
  destruct o as [i|]; unfold option_ok.
  - rewrite Nat.ltb_lt. split; [eauto|]. intros (j & [= ->] & H). exact H.
  - split; [discriminate|]. intros (j & H & _). discriminate.
Qed.

(* the documented tables: a value is accepted iff it is listed for that option *)
Lemma ostr_eqb_eq a b : ostr_eqb a b = true <-> a = b.
Proof.
  destruct a as [a|], b as [b|]; cbn; try (split; [discriminate|discriminate]); try (split; reflexivity).
  rewrite String.eqb_eq. split; [intros ->; reflexivity|intros [= ->]; reflexivity].
Qed.

Lemma index_of_Some v l i : index_of v l = Some i -> i < List.length l /\ nth_error l i = Some v.
Proof.
  revert i. induction l as [|x t IH]; intros i H; [discriminate H|].
  cbn [index_of] in H. destruct (ostr_eqb v x) eqn:E.
  - injection H as <-. apply ostr_eqb_eq in E. subst x. split; [cbn; lia|reflexivity].
  - destruct (index_of v t) as [j|] eqn:Ej; [|discriminate H]. cbn in H. injection H as <-.
    destruct (IH j eq_refl) as (Hj & Hn). split; [cbn; lia|exact Hn].
Qed.

Lemma index_of_None v l : index_of v l = None -> ~ In v l.
Proof.
  induction l as [|x t IH]; intros H; [intros []|].
  cbn [index_of] in H. destruct (ostr_eqb v x) eqn:E; [discriminate H|].
  destruct (index_of v t) as [j|] eqn:Ej; [discriminate H|].
  intros [Hx|Hin].
  - subst x. assert (Hrefl : ostr_eqb v v = true) by (apply ostr_eqb_eq; reflexivity). congruence.
  - exact (IH eq_refl Hin).
Qed.

Theorem option_accepts_iff o v : option_accepts o v = true <-> In v (documented_options o).
Proof.
  unfold option_accepts, to_opt.
  destruct (index_of v (documented_options o)) as [i|] eqn:E.
  - destruct (index_of_Some _ _ _ E) as (Hi & Hn). cbn [option_ok].
    split; [intros _; exact (nth_error_In _ _ Hn)|intros _; apply Nat.ltb_lt; exact Hi].
  - cbn [option_ok]. split; [discriminate|]. intros Hin. exfalso. exact (index_of_None _ _ E Hin).
Qed.

(* the tables, spelled out (by computation) *)
Theorem option_tables :
  (forall v, option_accepts OCenter v = true <-> v = Some "peak"%string \/ v = Some "trough"%string) /\
  (forall v, option_accepts OBurstMethod v = true <-> v = Some "cycles"%string \/ v = Some "amp"%string) /\
  (forall v, option_accepts OFirstExtrema v = true <-> v = Some "peak"%string \/ v = Some "trough"%string \/ v = None) /\
  (forall v, option_accepts ODirection v = true <-> v = Some "both"%string \/ v = Some "next"%string \/ v = Some "last"%string) /\
  (forall v, option_accepts OProgress v = true <-> v = None \/ v = Some "tqdm"%string \/ v = Some "tqdm.notebook"%string).
Proof.
  repeat split; intros H;
    try (apply option_accepts_iff in H; cbn in H;
         repeat (destruct H as [H|H]; [subst; auto|]); try destruct H; auto; fail);
    apply option_accepts_iff; cbn; repeat (destruct H as [H|H]; [subst; auto 6|]); subst; auto 6.
Qed.

(* values of any Python type: accepted iff the value is None or a string AND is listed for that option *)
Theorem option_accepts_val_iff o v :
  option_accepts_val o v = true <-> exists x, pyval_as_option v = Some x /\ In x (documented_options o).
Proof.
  unfold option_accepts_val. destruct (pyval_as_option v) as [x|] eqn:Hx.
  - rewrite option_accepts_iff. split.
    + intros Hin. exists x. split; [reflexivity | exact Hin].
    + intros [y [Hy Hin]]. injection Hy as Hy. subst y. exact Hin.
  - split; [discriminate|]. intros [y [Hy _]]. discriminate Hy.
Qed.

Theorem option_rejects_other_types o v :
  (forall s, v <> PStr s) -> v <> PNone -> option_accepts_val o v = false.
Proof.
  intros Hs Hn. destruct v as [|s|b|z|f|s|l|l]; try reflexivity.
  - exfalso. apply Hn. reflexivity.
  - exfalso. apply (Hs s). reflexivity.
Qed.

(* a falsy value is accepted only if it is None itself (and None is listed): '', False, 0, 0.0, b'', (), [] are
   never taken for None *)
Theorem falsy_accepted_is_None o v : falsy v = true -> option_accepts_val o v = true -> v = PNone.
Proof.
  intros Hf Ha. destruct v as [|s|b|z|f|s|l|l]; try reflexivity; try discriminate Ha.
  cbn in Hf. apply String.eqb_eq in Hf. subst s. destruct o; vm_compute in Ha; discriminate Ha.
Qed.

Theorem falsy_unknowns_rejected o :
  option_accepts_val o (PStr "") = false /\ option_accepts_val o (PBool false) = false /\
  option_accepts_val o (PInt 0) = false /\ option_accepts_val o (PFloat 0) = false /\
  option_accepts_val o (PBytes "") = false /\ option_accepts_val o (PTuple []) = false /\
  option_accepts_val o (PList []) = false.
Proof. destruct o; vm_compute; repeat split; reflexivity. Qed.

(* spelling matters: another case or surrounding white space makes a value unknown *)
Theorem option_spelling_exact :
  option_accepts_val OCenter (PStr "Peak") = false /\ option_accepts_val OCenter (PStr " peak") = false /\
  option_accepts_val OCenter (PStr "peak ") = false /\ option_accepts_val OBurstMethod (PStr "Cycles") = false /\
  option_accepts_val OFirstExtrema (PStr "None") = false /\ option_accepts_val ODirection (PStr "BOTH") = false /\
  option_accepts_val OProgress (PStr "Tqdm") = false /\ option_accepts_val OProgress (PStr "tqdm ") = false.
Proof. vm_compute. repeat split; reflexivity. Qed.

Theorem dims_guards : (forall d, bycycle_fit_dim_ok d = true <-> d = 1%nat) /\
                      (forall d, group_fit_dim_ok d = true <-> d = 2%nat \/ d = 3%nat).
Proof.
  split; intros d.
  - unfold bycycle_fit_dim_ok. apply Nat.eqb_eq.
  - unfold group_fit_dim_ok. rewrite orb_true_iff, !Nat.eqb_eq. reflexivity.
Qed.

Example documented_valid_example :
  documented_valid (D3 2 3) (K2 2 3) Ax01 /\ documented_valid (D3 2 3) (K1 3) Ax1 /\
  documented_valid (D2 4) (K1 4) AxNone /\ group_accepts (D3 2 3) (K2 2 3) Ax01 = true.
Proof. cbn. repeat split; auto. Qed.
