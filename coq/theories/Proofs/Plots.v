(** What the plots draw (Model/Plots.v, C20): every drawn cyclepoint marker sits at the sample of a
    genuine cyclepoint of its series and every cyclepoint strictly inside the view is drawn (M1);
    the highlighted samples of the burst summary are exactly the samples of the cycles labelled
    is_burst, clipped to the view (M2); a parameter panel has one point per cycle, at its centre,
    carrying the table's value unchanged (M3); the repaired window offset (nearest sample index)
    recovers the sample index of a time stamp where the legacy one (truncation) does not (M4, M5). *)
From Coq Require Import List Bool Arith ZArith Lia Sorted FinFun Reals Lra.
From Coq Require Import Floats.SpecFloat Floats.PrimFloat Floats.FloatAxioms Floats.FloatOps.
From Flocq Require Import Core.Core IEEE754.BinarySingleNaN IEEE754.PrimFloat.
Import ListNotations.
From ByC Require Import Base.Result Base.ListAux Base.FloatBase Base.FloatFacts
  Model.Cycles Model.Window Model.Plots Proofs.Window.
From Coq Require Import Permutation.
Local Open Scope nat_scope.

(* ------------------------------------------------------------------------------------------ *)
(** * List helpers *)

Lemma nth_map_seq {B} (f : nat -> B) (n i : nat) (d : B) :
  i < n -> nth i (map f (seq 0 n)) d = f i.
Proof.
  intros Hi.
  rewrite nth_indep with (d' := f 0) by (rewrite map_length, seq_length; exact Hi).
  rewrite map_nth. rewrite seq_nth by exact Hi. reflexivity.
Qed.

Lemma nth_map_lt' {A B} (f : A -> B) (l : list A) (i : nat) (d : A) (d' : B) :
  i < length l -> nth i (map f l) d' = f (nth i l d).
Proof.
  intros Hi. rewrite nth_indep with (d' := f d) by (rewrite map_length; exact Hi).
  apply map_nth.
Qed.

Lemma filter_length_le'' {A} (f : A -> bool) (l : list A) : length (filter f l) <= length l.
Proof.
  induction l as [|x l IH]; [apply le_n|].
  cbn [filter]. destruct (f x) eqn:Hf; cbn [length]; lia.
Qed.

Lemma Forall_filter {A} (P : A -> Prop) (f : A -> bool) (l : list A) :
  Forall P l -> Forall P (filter f l).
Proof.
  intros H. apply Forall_forall. intros x Hx. apply filter_In in Hx. destruct Hx as (Hx & _).
  revert x Hx. apply Forall_forall. exact H.
Qed.

Lemma StronglySorted_filter {A} (R : A -> A -> Prop) (f : A -> bool) (l : list A) :
  StronglySorted R l -> StronglySorted R (filter f l).
Proof.
  intros H. induction H as [|a l Hl IH Ha]; [constructor|].
  cbn [filter]. destruct (f a) eqn:Hf; [|exact IH].
  constructor; [exact IH|]. apply Forall_filter. exact Ha.
Qed.

Lemma StronglySorted_map {A B} (R : A -> A -> Prop) (S : B -> B -> Prop) (g : A -> B) (l : list A) :
  (forall x y, R x y -> S (g x) (g y)) -> StronglySorted R l -> StronglySorted S (map g l).
Proof.
  intros Hg H. induction H as [|a l Hl IH Ha]; [constructor|].
  cbn [map]. constructor; [exact IH|].
  apply Forall_forall. intros y Hy. apply in_map_iff in Hy. destruct Hy as (x & Hxy & Hx).
  subst y. apply Hg. revert x Hx. apply Forall_forall. exact Ha.
Qed.

(* ------------------------------------------------------------------------------------------ *)
(** * M1: cyclepoint markers *)

Definition in_view (s0 : Z) (n : nat) (p : Z) : bool :=
  ((s0 <=? p)%Z && (p <? s0 + Z.of_nat n - 1)%Z).

Lemma in_view_iff s0 n p : in_view s0 n p = true <-> (s0 <= p < s0 + Z.of_nat n - 1)%Z.
Proof.
  unfold in_view. rewrite andb_true_iff, Z.leb_le, Z.ltb_lt. reflexivity.
Qed.

Lemma markers_unfold s0 n off pts :
  markers s0 n off pts = map (fun p => (p - off)%Z) (filter (in_view s0 n) pts).
Proof. reflexivity. Qed.

Theorem markers_In s0 n off pts q :
  In q (markers s0 n off pts) <->
  exists p, In p pts /\ (s0 <= p < s0 + Z.of_nat n - 1)%Z /\ q = (p - off)%Z.
Proof.
  rewrite markers_unfold, in_map_iff. split.
  - intros (p & Hq & Hp). apply filter_In in Hp. destruct Hp as (Hp & Hv).
    apply in_view_iff in Hv. exists p. split; [exact Hp|]. split; [exact Hv|]. symmetry. exact Hq.
  - intros (p & Hp & Hv & Hq). exists p. split; [symmetry; exact Hq|].
    apply filter_In. split; [exact Hp|]. apply in_view_iff. exact Hv.
Qed.

(** every drawn marker sits, in the view, at the sample of a genuine cyclepoint of its series *)
Theorem markers_sound s0 n pts q :
  In q (markers s0 n s0 pts) -> (0 <= q < Z.of_nat n - 1)%Z /\ In (s0 + q)%Z pts.
Proof.
  intros Hq. apply markers_In in Hq. destruct Hq as (p & Hp & Hv & Hq). subst q.
  split; [lia|]. replace (s0 + (p - s0))%Z with p by lia. exact Hp.
Qed.

(** every cyclepoint strictly inside the view is drawn (so is one on the first sample) *)
Theorem markers_complete_le s0 n pts p :
  In p pts -> (s0 <= p < s0 + Z.of_nat n - 1)%Z -> In (p - s0)%Z (markers s0 n s0 pts).
Proof.
  intros Hp Hv. apply markers_In. exists p. split; [exact Hp|]. split; [exact Hv|reflexivity].
Qed.

Theorem markers_complete s0 n pts p :
  In p pts -> (s0 < p < s0 + Z.of_nat n - 1)%Z -> In (p - s0)%Z (markers s0 n s0 pts).
Proof.
  intros Hp Hv. apply markers_complete_le; [exact Hp|lia].
Qed.

(** a cyclepoint outside [first, last) sample of the view is not drawn *)
Theorem markers_outside s0 n off pts p :
  (p < s0 \/ s0 + Z.of_nat n - 1 <= p)%Z -> ~ In (p - off)%Z (markers s0 n off pts).
Proof.
  intros Hout Hin. apply markers_In in Hin. destruct Hin as (p' & _ & Hv & Hq).
  assert (Hpp : p' = p) by lia. subst p'. lia.
Qed.

Theorem markers_sorted s0 n off pts :
  StronglySorted Z.lt pts -> StronglySorted Z.lt (markers s0 n off pts).
Proof.
  intros H. rewrite markers_unfold.
  apply (StronglySorted_map Z.lt Z.lt).
  - intros x y Hxy. lia.
  - apply StronglySorted_filter. exact H.
Qed.

Theorem markers_length_le s0 n off pts : length (markers s0 n off pts) <= length pts.
Proof.
  rewrite markers_unfold, map_length. apply filter_length_le''.
Qed.

(** distinct cyclepoints are drawn at distinct positions *)
Theorem markers_NoDup s0 n off pts : NoDup pts -> NoDup (markers s0 n off pts).
Proof.
  intros H. rewrite markers_unfold. apply FinFun.Injective_map_NoDup.
  - intros x y Hxy. lia.
  - apply NoDup_filter. exact H.
Qed.

(* ------------------------------------------------------------------------------------------ *)
(** * M2: burst mask *)

Lemma in_burst_span_iff off rows i :
  in_burst_span off rows i = true <->
  exists r, In (r, true) rows /\ (s_last r - off <= i < s_next r + 1 - off)%Z.
Proof.
  unfold in_burst_span. rewrite existsb_exists. split.
  - intros ((r, b) & Hin & Hc). cbn [fst snd] in Hc.
    apply andb_true_iff in Hc. destruct Hc as (Hc & H2).
    apply andb_true_iff in Hc. destruct Hc as (Hb & H1).
    subst b. apply Z.leb_le in H1. apply Z.ltb_lt in H2.
    exists r. split; [exact Hin|]. split; assumption.
  - intros (r & Hin & H1 & H2). exists (r, true). split; [exact Hin|].
    cbn [fst snd andb]. apply andb_true_iff. split; [apply Z.leb_le|apply Z.ltb_lt]; assumption.
Qed.

Theorem burst_mask_length n off rows : length (burst_mask n off rows) = n.
Proof. unfold burst_mask. rewrite map_length. apply seq_length. Qed.

Lemma burst_mask_nth_eq n off rows i :
  i < n -> nth i (burst_mask n off rows) false = in_burst_span off rows (Z.of_nat i).
Proof.
  intros Hi. unfold burst_mask.
  exact (nth_map_seq (fun k => in_burst_span off rows (Z.of_nat k)) n i false Hi).
Qed.

Theorem burst_mask_nth n off rows i :
  i < n ->
  (nth i (burst_mask n off rows) false = true <->
   exists r, In (r, true) rows /\ (s_last r - off <= Z.of_nat i < s_next r + 1 - off)%Z).
Proof.
  intros Hi. rewrite (burst_mask_nth_eq n off rows i Hi). apply in_burst_span_iff.
Qed.

(** highlighted samples belong to cycles labelled is_burst *)
Theorem burst_mask_sound s0 n rows i :
  nth i (burst_mask n s0 rows) false = true ->
  exists r, In (r, true) rows /\ (s_last r <= s0 + Z.of_nat i <= s_next r)%Z.
Proof.
  intros H. destruct (Nat.lt_ge_cases i n) as [Hi|Hi].
  - apply (burst_mask_nth n s0 rows i Hi) in H. destruct H as (r & Hin & Hr).
    exists r. split; [exact Hin|lia].
  - rewrite nth_overflow in H by (rewrite burst_mask_length; exact Hi). discriminate H.
Qed.

(** all samples of every labelled cycle lying entirely inside the view are highlighted *)
Theorem burst_mask_complete s0 n rows r j :
  In (r, true) rows -> (s0 <= s_last r)%Z -> (s_next r <= s0 + Z.of_nat n - 1)%Z ->
  (s_last r <= j <= s_next r)%Z ->
  nth (Z.to_nat (j - s0)) (burst_mask n s0 rows) false = true.
Proof.
  intros Hin Hlo Hhi Hj.
  assert (Hi : Z.to_nat (j - s0) < n) by lia.
  apply (burst_mask_nth n s0 rows _ Hi). exists r. split; [exact Hin|].
  rewrite Z2Nat.id by lia. lia.
Qed.

(** the part of a labelled cycle that lies inside the view is highlighted even when the cycle
    sticks out of the view (clipping) *)
Theorem burst_mask_complete_clipped s0 n rows r j :
  In (r, true) rows -> (s_last r <= j <= s_next r)%Z -> (s0 <= j < s0 + Z.of_nat n)%Z ->
  nth (Z.to_nat (j - s0)) (burst_mask n s0 rows) false = true.
Proof.
  intros Hin Hj Hv.
  assert (Hi : Z.to_nat (j - s0) < n) by lia.
  apply (burst_mask_nth n s0 rows _ Hi). exists r. split; [exact Hin|].
  rewrite Z2Nat.id by lia. lia.
Qed.

Theorem burst_mask_no_burst n off rows :
  (forall r, ~ In (r, true) rows) -> burst_mask n off rows = repeat false n.
Proof.
  intros Hno. apply nth_ext with (d := false) (d' := false).
  - rewrite burst_mask_length, repeat_length. reflexivity.
  - intros i Hi. rewrite burst_mask_length in Hi.
    rewrite nth_repeat.
    destruct (nth i (burst_mask n off rows) false) eqn:Hn; [|reflexivity].
    apply (burst_mask_nth n off rows i Hi) in Hn. destruct Hn as (r & Hin & _).
    exfalso. exact (Hno r Hin).
Qed.

Corollary burst_mask_no_burst_nth n off rows i :
  (forall r, ~ In (r, true) rows) -> nth i (burst_mask n off rows) false = false.
Proof.
  intros Hno. rewrite (burst_mask_no_burst n off rows Hno). apply nth_repeat.
Qed.

(* ------------------------------------------------------------------------------------------ *)
(** * M3: parameter panel *)

Theorem panel_points_length {V} off (rows : list (srow * V)) :
  length (panel_points off rows) = length rows.
Proof. unfold panel_points. apply map_length. Qed.

(** one point per cycle, at its centre, carrying the table's value unchanged (any defaults) *)
Theorem panel_points_spec {V} off (rows : list (srow * V)) k (d : srow * V) (d' : Z * V) :
  k < length rows ->
  nth k (panel_points off rows) d'
  = ((s_center (fst (nth k rows d)) - off)%Z, snd (nth k rows d)).
Proof.
  intros Hk. unfold panel_points.
  rewrite (nth_map_lt' _ rows k d d' Hk). reflexivity.
Qed.

Theorem panel_points_values {V} off (rows : list (srow * V)) :
  map snd (panel_points off rows) = map snd rows.
Proof. unfold panel_points. rewrite map_map. reflexivity. Qed.

Theorem panel_points_positions {V} off (rows : list (srow * V)) :
  map fst (panel_points off rows) = map (fun rv => (s_center (fst rv) - off)%Z) rows.
Proof. unfold panel_points. rewrite map_map. reflexivity. Qed.

(** ** M3b: the panel as drawn under x-limits (view restriction, interp and step branches) *)

Lemma in_panel_view_iff n off r :
  in_panel_view n off r = true <-> (off <= s_last r)%Z /\ (s_next r <= off + Z.of_nat n - 1)%Z.
Proof.
  unfold in_panel_view. rewrite andb_true_iff, Z.leb_le, Z.ltb_lt. lia.
Qed.

Lemma panel_rows_In {V} n off (rows : list (srow * V)) rv :
  In rv (panel_rows n off rows) <->
  In rv rows /\ (off <= s_last (fst rv))%Z /\ (s_next (fst rv) <= off + Z.of_nat n - 1)%Z.
Proof.
  unfold panel_rows. rewrite filter_In, in_panel_view_iff. reflexivity.
Qed.

(** with no restriction to apply (every row inside the view) the panel is the whole table *)
Theorem panel_rows_all {V} n off (rows : list (srow * V)) :
  (forall rv, In rv rows -> (off <= s_last (fst rv))%Z /\ (s_next (fst rv) <= off + Z.of_nat n - 1)%Z) ->
  panel_rows n off rows = rows.
Proof.
  intros Hall. unfold panel_rows. induction rows as [|rv rows IH]; [reflexivity|].
  cbn [filter].
  assert (Hv : in_panel_view n off (fst rv) = true).
  { apply in_panel_view_iff. apply Hall. left. reflexivity. }
  rewrite Hv. f_equal. apply IH. intros rv' Hin. apply Hall. right. exact Hin.
Qed.

(** interp=True, completeness: every cycle lying entirely inside the view has a point at its centre
    carrying its value *)
Theorem panel_interp_complete {V} s0 n (rows : list (srow * V)) r v :
  In (r, v) rows -> (s0 <= s_last r)%Z -> (s_next r <= s0 + Z.of_nat n - 1)%Z ->
  In ((s_center r - s0)%Z, v) (panel_interp n s0 rows).
Proof.
  intros Hin Hlo Hhi. unfold panel_interp, panel_points. apply in_map_iff.
  exists (r, v). split; [reflexivity|].
  apply panel_rows_In. cbn [fst]. split; [exact Hin|]. split; assumption.
Qed.

(** interp=True, soundness: every point is the centre of a cycle of the table lying entirely inside
    the view, with that cycle's value *)
Theorem panel_interp_sound {V} s0 n (rows : list (srow * V)) q v :
  In (q, v) (panel_interp n s0 rows) ->
  exists r, In (r, v) rows /\ q = (s_center r - s0)%Z /\
            (s0 <= s_last r)%Z /\ (s_next r <= s0 + Z.of_nat n - 1)%Z.
Proof.
  unfold panel_interp, panel_points. intros Hq. apply in_map_iff in Hq.
  destruct Hq as ((r, v') & Heq & Hin). cbn [fst snd] in Heq.
  injection Heq as Hq Hv. subst v'.
  apply panel_rows_In in Hin. cbn [fst] in Hin. destruct Hin as (Hin & Hlo & Hhi).
  exists r. split; [exact Hin|]. split; [symmetry; exact Hq|]. split; assumption.
Qed.

Theorem panel_interp_length_le {V} n off (rows : list (srow * V)) :
  length (panel_interp n off rows) <= length rows.
Proof.
  unfold panel_interp. rewrite panel_points_length. unfold panel_rows. apply filter_length_le''.
Qed.

(** interp=False, completeness: every cycle lying entirely inside the view has a point at its last and
    one at its next side extremum, both carrying its value *)
Theorem panel_steps_complete {V} s0 n (rows : list (srow * V)) r v :
  In (r, v) rows -> (s0 <= s_last r)%Z -> (s_next r <= s0 + Z.of_nat n - 1)%Z ->
  In ((s_last r - s0)%Z, v) (panel_steps n s0 rows) /\ In ((s_next r - s0)%Z, v) (panel_steps n s0 rows).
Proof.
  intros Hin Hlo Hhi.
  assert (Hr : In (r, v) (panel_rows n s0 rows)).
  { apply panel_rows_In. cbn [fst]. split; [exact Hin|]. split; assumption. }
  unfold panel_steps. split; apply in_flat_map; exists (r, v); (split; [exact Hr|]); cbn [fst snd].
  - left. reflexivity.
  - right. left. reflexivity.
Qed.

(** interp=False, soundness: every point sits on a side extremum of a cycle of the table lying entirely
    inside the view, with that cycle's value *)
Theorem panel_steps_sound {V} s0 n (rows : list (srow * V)) q v :
  In (q, v) (panel_steps n s0 rows) ->
  exists r, In (r, v) rows /\ (q = (s_last r - s0)%Z \/ q = (s_next r - s0)%Z) /\
            (s0 <= s_last r)%Z /\ (s_next r <= s0 + Z.of_nat n - 1)%Z.
Proof.
  unfold panel_steps. intros Hq. apply in_flat_map in Hq.
  destruct Hq as ((r, v') & Hin & Hq). cbn [fst snd] in Hq.
  apply panel_rows_In in Hin. cbn [fst] in Hin. destruct Hin as (Hin & Hlo & Hhi).
  destruct Hq as [Hq|[Hq|Hq]]; [| |destruct Hq]; injection Hq as Hq Hv; subst v';
    exists r; (split; [exact Hin|]); (split; [|split; assumption]).
  - left. symmetry. exact Hq.
  - right. symmetry. exact Hq.
Qed.

(** interp=False draws exactly two points per drawn cycle, in table order *)
Theorem panel_steps_length {V} n off (rows : list (srow * V)) :
  length (panel_steps n off rows) = 2 * length (panel_rows n off rows).
Proof.
  unfold panel_steps. induction (panel_rows n off rows) as [|rv l IH]; [reflexivity|].
  cbn [flat_map length app]. rewrite IH. lia.
Qed.

(* ------------------------------------------------------------------------------------------ *)
(** * M4: the window offset.  0x1.47ae147ae147bp-7 is the double nearest 0.01, so
    29 * 0x1.47ae147ae147bp-7 is the time stamp numpy gives sample 29 at fs = 100
    (np.arange(n) / fs and np.arange(n) * (1 / fs) agree here); the legacy offset int(t0 * fs)
    lands one sample early, the repaired one int(np.round(t0 * fs)) on the sample itself *)

Theorem offset_legacy_refuted :
  offset_legacy 100 (29 * 0x1.47ae147ae147bp-7)%float = 28%Z /\
  offset_repaired 100 (29 * 0x1.47ae147ae147bp-7)%float = 29%Z.
Proof. vm_compute. split; reflexivity. Qed.

(** float multiplication is commutative for ALL floats: the offset the plots use, round(t0 * fs),
    is the shift limit_df applies to the table, round(fs * t0) *)
Lemma fmul_comm (x y : PrimFloat.float) : (x * y = y * x)%float.
Proof.
  apply Prim2SF_inj. rewrite !mul_spec. unfold SF64mul, SFmul.
  destruct (Prim2SF x) as [sx|sx| |sx mx ex]; destruct (Prim2SF y) as [sy|sy| |sy my ey];
    try reflexivity; try (rewrite (xorb_comm sx sy); reflexivity).
  rewrite (xorb_comm sx sy), (Pos.mul_comm mx my), (Z.add_comm ex ey). reflexivity.
Qed.

Theorem offset_repaired_limit_df fs t0 : offset_repaired fs t0 = F2Z_round (fs * t0)%float.
Proof. unfold offset_repaired. rewrite (fmul_comm t0 fs). reflexivity. Qed.

(** int() of a float whose value is the integer k is k *)
Lemma F2Z_trunc_exact (x : PrimFloat.float) (k : Z) :
  finite x = true -> FR x = IZR k -> F2Z_trunc x = k.
Proof.
  unfold finite, FR, F2Z_trunc. intros Fx Vx. rewrite <- B2SF_Prim2B.
  destruct (Prim2B x) as [s|s| |s m e He]; try discriminate Fx.
  - cbn [B2SF]. cbn [B2R] in Vx. apply eq_IZR. exact Vx.
  - cbn [B2SF]. cbn [B2R] in Vx. unfold F2R in Vx. cbn [Fnum Fexp] in Vx.
    destruct (Z.leb_spec 0 e) as [He0|He0].
    + rewrite <- IZR_Zpower in Vx by exact He0. rewrite <- mult_IZR in Vx. apply eq_IZR in Vx.
      change (radix_val radix2) with 2%Z in Vx.
      destruct s; cbn [cond_Zopp] in Vx; rewrite <- Vx; ring.
    + assert (Hp : (2 ^ (- e) <> 0)%Z) by (apply Z.pow_nonzero; lia).
      assert (Hm : IZR (cond_Zopp s (Z.pos m)) = IZR (k * 2 ^ (- e))).
      { rewrite mult_IZR. change (IZR (2 ^ (- e))) with (IZR (radix_val radix2 ^ (- e))).
        rewrite (IZR_Zpower radix2) by lia. rewrite <- Vx.
        rewrite Rmult_assoc, <- bpow_plus. replace (e + - e)%Z with 0%Z by lia.
        cbn [bpow]. ring. }
      apply eq_IZR in Hm.
      destruct s; cbn [cond_Zopp] in Hm.
      * replace (Z.pos m) with ((- k) * 2 ^ (- e))%Z by lia.
        rewrite (Z.div_mul _ _ Hp). lia.
      * rewrite Hm. apply (Z.div_mul _ _ Hp).
Qed.

Theorem F2Z_trunc_Z2F_abs k : (Z.abs k < 2 ^ 53)%Z -> F2Z_trunc (FloatBase.Z2F k) = k.
Proof.
  intros Hk. change FloatBase.Z2F with FloatFacts.Z2F.
  destruct (Z2F_exact k Hk) as (Fk & Vk). apply F2Z_trunc_exact; assumption.
Qed.

Theorem F2Z_trunc_Z2F k : (0 <= k < 2 ^ 53)%Z -> F2Z_trunc (FloatBase.Z2F k) = k.
Proof.
  intros Hk. apply F2Z_trunc_Z2F_abs. rewrite Z.abs_eq; lia.
Qed.

(* ------------------------------------------------------------------------------------------ *)
(** * M5: a finite sweep, lifted.  For the eight sampling rates below and every sample index
    k < 2000, the repaired offset of the time stamp k * (1 / fs) is k. *)

Definition grid_fs : list PrimFloat.float := [50; 64; 100; 128; 200; 250; 500; 1000]%float.

Lemma offset_repaired_sweep :
  forallb (fun fs =>
    forallb (fun k => Z.eqb (offset_repaired fs (FloatBase.Z2F (Z.of_nat k) * (1 / fs))%float) (Z.of_nat k))
            (seq 0 2000))
    [50; 64; 100; 128; 200; 250; 500; 1000]%float = true.
Proof. vm_compute. reflexivity. Qed.

Theorem offset_repaired_grid (fs : PrimFloat.float) (k : nat) :
  In fs [50; 64; 100; 128; 200; 250; 500; 1000]%float -> k < 2000 ->
  offset_repaired fs (FloatBase.Z2F (Z.of_nat k) * (1 / fs))%float = Z.of_nat k.
Proof.
  intros Hfs Hk. pose proof offset_repaired_sweep as Hs.
  rewrite forallb_forall in Hs. specialize (Hs fs Hfs).
  rewrite forallb_forall in Hs.
  assert (Hin : In k (seq 0 2000)) by (apply in_seq; split; [apply Nat.le_0_l|exact Hk]).
  specialize (Hs k Hin). apply Z.eqb_eq. exact Hs.
Qed.

(** the time axis as repaired: stamp of sample k is k / fs (correctly rounded quotient) *)
Lemma offset_repaired_sweep_div :
  forallb (fun fs =>
    forallb (fun k => Z.eqb (offset_repaired fs (FloatBase.Z2F (Z.of_nat k) / fs)%float) (Z.of_nat k))
            (seq 0 2000))
    [50; 64; 100; 128; 200; 250; 500; 1000; 30]%float = true.
Proof. vm_compute. reflexivity. Qed.

Theorem offset_repaired_grid_div (fs : PrimFloat.float) (k : nat) :
  In fs [50; 64; 100; 128; 200; 250; 500; 1000; 30]%float -> k < 2000 ->
  offset_repaired fs (FloatBase.Z2F (Z.of_nat k) / fs)%float = Z.of_nat k.
Proof.
  intros Hfs Hk. pose proof offset_repaired_sweep_div as Hs.
  rewrite forallb_forall in Hs. specialize (Hs fs Hfs).
  rewrite forallb_forall in Hs.
  assert (Hin : In k (seq 0 2000)) by (apply in_seq; split; [apply Nat.le_0_l|exact Hk]).
  specialize (Hs k Hin). apply Z.eqb_eq. exact Hs.
Qed.

Corollary offset_repaired_grid_Z (fs : PrimFloat.float) (k : Z) :
  In fs grid_fs -> (0 <= k < 2000)%Z ->
  offset_repaired fs (FloatBase.Z2F k * (1 / fs))%float = k.
Proof.
  intros Hfs Hk.
  assert (Hn : Z.to_nat k < 2000) by (apply Nat2Z.inj_lt; rewrite Z2Nat.id by lia; exact (proj2 Hk)).
  pose proof (offset_repaired_grid fs (Z.to_nat k) Hfs Hn) as H.
  rewrite Z2Nat.id in H by lia. exact H.
Qed.

(** the same grid refutes the legacy offset: the sample indices k < 2000 whose time stamp
    k * (1 / fs) is mapped to a different sample (always k - 1) *)
Definition legacy_bad (fs : PrimFloat.float) : list nat :=
  filter (fun k => negb (Z.eqb (offset_legacy fs (FloatBase.Z2F (Z.of_nat k) * (1 / fs))%float) (Z.of_nat k)))
         (seq 0 2000).

Lemma legacy_bad_counts :
  map (fun fs => length (legacy_bad fs)) grid_fs = [42; 0; 42; 0; 42; 0; 0; 0].
Proof. vm_compute. reflexivity. Qed.

Lemma legacy_bad_first :
  (firstn 5 (legacy_bad 50), firstn 5 (legacy_bad 100), firstn 5 (legacy_bad 200))
  = ([29; 58; 116; 205; 207], [29; 58; 116; 205; 207], [29; 58; 116; 205; 207]).
Proof. vm_compute. reflexivity. Qed.

Lemma legacy_bad_all_one_early :
  forallb (fun fs => forallb (fun k =>
     Z.eqb (offset_legacy fs (FloatBase.Z2F (Z.of_nat k) * (1 / fs))%float) (Z.of_nat k - 1))
     (legacy_bad fs)) grid_fs = true.
Proof. vm_compute. reflexivity. Qed.

Theorem offset_legacy_grid_refuted :
  ~ (forall fs k, In fs grid_fs -> k < 2000 ->
       offset_legacy fs (FloatBase.Z2F (Z.of_nat k) * (1 / fs))%float = Z.of_nat k).
Proof.
  intros H.
  assert (Hfs : In 100%float grid_fs) by (right; right; left; reflexivity).
  assert (Hk : 29 < 2000) by lia.
  specialize (H 100%float 29 Hfs Hk). vm_compute in H. discriminate H.
Qed.

(* ------------------------------------------------------------------------------------------ *)
(** * M6: non-vacuity (all by computation) *)

(* ------------------------------------------------------------------------------------------ *)
(** * M6: the window selection of the summary (limit_df as repaired: time stamps sample / fs against the limits) and
    what it means for the highlight and the panels when the x-limits are time stamps of the plotted time axis *)
Theorem view_rows_none {V} (rows : list (srow * V)) : view_rows None rows = rows.
Proof. reflexivity. Qed.

Theorem view_rows_In {V} fs a b (rows : list (srow * V)) rv :
  In rv (view_rows (Some (fs, a, b)) rows) <-> In rv rows /\ keep_row fs (Some a) (Some b) rv = true.
Proof. unfold view_rows. apply filter_In. Qed.

Theorem view_rows_incl {V} lim (rows : list (srow * V)) rv : In rv (view_rows lim rows) -> In rv rows.
Proof.
  destruct lim as [[[fs a] b]|]; [|intros H; exact H].
  intros H. apply view_rows_In in H. exact (proj1 H).
Qed.

(** x-limits = the time stamps of samples k0 and k1 of the plotted time axis (arange(n) / fs): a cycle spanning
    samples k0 <= last <= next <= k1 is in the window-limited table, whatever (k / fs) * fs rounds to *)
Theorem view_rows_keep_on_grid {V} fs (k0 k1 : Z) (rows : list (srow * V)) rv :
  finite fs = true -> (0 < FR fs)%R -> (Z.abs k0 < 2 ^ 53)%Z -> (Z.abs k1 < 2 ^ 53)%Z ->
  finite (FloatBase.Z2F k0 / fs)%float = true -> finite (FloatBase.Z2F k1 / fs)%float = true ->
  In rv rows -> (k0 <= s_last (fst rv))%Z -> (s_last (fst rv) <= s_next (fst rv))%Z -> (s_next (fst rv) <= k1)%Z ->
  In rv (view_rows (Some (fs, (FloatBase.Z2F k0 / fs)%float, (FloatBase.Z2F k1 / fs)%float)) rows).
Proof.
  intros Ffs Hfs Hk0 Hk1 F0 F1 Hin H0 Hln H1. apply view_rows_In. split; [exact Hin|].
  apply on_grid_limits; assumption.
Qed.

(** the highlight of the summary under such x-limits: the view shows samples k0 .. k0 + n - 1 (start <= t < stop with
    stop the stamp of sample k0 + n); every sample of every labelled cycle of the TABLE lying entirely inside the view
    is highlighted — in particular a cycle that starts exactly on the first sample of the view *)
Theorem summary_highlight_complete_on_grid fs (k0 : Z) n (rows : list (srow * bool)) r j :
  finite fs = true -> (0 < FR fs)%R -> (Z.abs k0 < 2 ^ 53)%Z -> (Z.abs (k0 + Z.of_nat n) < 2 ^ 53)%Z ->
  finite (FloatBase.Z2F k0 / fs)%float = true -> finite (FloatBase.Z2F (k0 + Z.of_nat n) / fs)%float = true ->
  In (r, true) rows -> (k0 <= s_last r)%Z -> (s_last r <= s_next r)%Z -> (s_next r <= k0 + Z.of_nat n - 1)%Z ->
  (s_last r <= j <= s_next r)%Z ->
  nth (Z.to_nat (j - k0))
      (burst_mask n k0 (view_rows (Some (fs, (FloatBase.Z2F k0 / fs)%float, (FloatBase.Z2F (k0 + Z.of_nat n) / fs)%float)) rows))
      false = true.
Proof.
  intros Ffs Hfs Hk0 Hk1 F0 F1 Hin H0 Hln H1 Hj.
  apply (burst_mask_complete k0 n _ r j); try assumption.
  apply (view_rows_keep_on_grid fs k0 (k0 + Z.of_nat n) rows (r, true)); try assumption; cbn [fst]; try assumption. lia.
Qed.

(** ... and only samples of labelled cycles of the table, for any x-limits *)
Theorem summary_highlight_sound lim s0 n (rows : list (srow * bool)) i :
  nth i (burst_mask n s0 (view_rows lim rows)) false = true ->
  exists r, In (r, true) rows /\ (s_last r <= s0 + Z.of_nat i <= s_next r)%Z.
Proof.
  intros H. apply burst_mask_sound in H. destruct H as (r & Hin & Hr).
  exists r. split; [exact (view_rows_incl lim rows _ Hin)|exact Hr].
Qed.

(** the panels under such x-limits: a point for every cycle of the table lying entirely inside the view *)
Theorem summary_panel_complete_on_grid {V} fs (k0 : Z) n (rows : list (srow * V)) r v :
  finite fs = true -> (0 < FR fs)%R -> (Z.abs k0 < 2 ^ 53)%Z -> (Z.abs (k0 + Z.of_nat n) < 2 ^ 53)%Z ->
  finite (FloatBase.Z2F k0 / fs)%float = true -> finite (FloatBase.Z2F (k0 + Z.of_nat n) / fs)%float = true ->
  In (r, v) rows -> (k0 <= s_last r)%Z -> (s_last r <= s_next r)%Z -> (s_next r <= k0 + Z.of_nat n - 1)%Z ->
  In ((s_center r - k0)%Z, v)
     (panel_interp n k0 (view_rows (Some (fs, (FloatBase.Z2F k0 / fs)%float, (FloatBase.Z2F (k0 + Z.of_nat n) / fs)%float)) rows)).
Proof.
  intros Ffs Hfs Hk0 Hk1 F0 F1 Hin H0 Hln H1.
  apply panel_interp_complete; try assumption.
  apply (view_rows_keep_on_grid fs k0 (k0 + Z.of_nat n) rows (r, v)); try assumption; cbn [fst]; try assumption. lia.
Qed.

Theorem summary_panel_sound {V} lim s0 n (rows : list (srow * V)) q v :
  In (q, v) (panel_interp n s0 (view_rows lim rows)) ->
  exists r, In (r, v) rows /\ q = (s_center r - s0)%Z /\ (s0 <= s_last r)%Z /\ (s_next r <= s0 + Z.of_nat n - 1)%Z.
Proof.
  intros H. apply panel_interp_sound in H. destruct H as (r & Hin & Hq & Hlo & Hhi).
  exists r. split; [exact (view_rows_incl lim rows _ Hin)|]. split; [exact Hq|]. split; assumption.
Qed.

(** F16 seen from the plot: view = samples 7 .. 17 at fs = 100 (x-limits = the stamps of samples 7 and 18), labelled
    cycles [7, 10] and [10, 13], unlabelled [13, 16].  The pre-repair selection loses the cycle that starts on the first
    sample of the view (100 * fl(7 / 100) > 7): samples 7 .. 9 were not highlighted and the cycle had no panel point *)
Definition f16_rows : list (srow * bool) :=
  [(Build_srow 8 7 10 0 0 0, true); (Build_srow 12 10 13 0 0 0, true); (Build_srow 15 13 16 0 0 0, false)].
Definition f16_lim : option (PrimFloat.float * PrimFloat.float * PrimFloat.float) :=
  Some (100, FloatBase.Z2F 7 / 100, FloatBase.Z2F 18 / 100)%float.
Theorem view_rows_legacy_refuted :
  burst_mask 11 7 (view_rows_legacy f16_lim f16_rows)
    = [false; false; false; true; true; true; true; false; false; false; false] /\
  burst_mask 11 7 (view_rows f16_lim f16_rows)
    = [true; true; true; true; true; true; true; false; false; false; false] /\
  map fst (panel_interp 11 7 (view_rows_legacy f16_lim f16_rows)) = [5; 8]%Z /\
  map fst (panel_interp 11 7 (view_rows f16_lim f16_rows)) = [1; 5; 8]%Z.
Proof. vm_compute. repeat split; reflexivity. Qed.

(* ------------------------------------------------------------------------------------------ *)
(** * M7: threshold lines are looked up by the parameter's name, not by its position in the dictionary *)
From Coq Require Strings.String.
Import Strings.String.StringSyntax.
Local Open Scope string_scope.

Lemma threshold_of_In (given : list (String.string * PrimFloat.float)) k v :
  NoDup (map fst given) -> In (k, v) given -> threshold_of given k = Some v.
Proof.
  unfold threshold_of. induction given as [|[k' v'] t IH]; intros Hnd Hin; [destruct Hin|].
  cbn [find fst]. destruct (String.eqb k' k) eqn:He.
  - apply String.eqb_eq in He. subst k'. cbn [option_map snd].
    destruct Hin as [Heq|Hin]; [injection Heq as Hv; subst v'; reflexivity|].
    exfalso. cbn [map fst] in Hnd. inversion Hnd as [|x l Hnot Hnd']. subst.
    apply Hnot. apply in_map_iff. exists (k, v). split; [reflexivity|exact Hin].
  - destruct Hin as [Heq|Hin].
    + injection Heq as Hk Hv. subst k'. rewrite String.eqb_refl in He. discriminate He.
    + apply IH; [|exact Hin]. cbn [map fst] in Hnd. inversion Hnd. assumption.
Qed.

Lemma threshold_of_Some (given : list (String.string * PrimFloat.float)) k v :
  threshold_of given k = Some v -> In (k, v) given.
Proof.
  unfold threshold_of. destruct (find (fun kv => String.eqb (fst kv) k) given) as [[k' v']|] eqn:Hf; [|discriminate].
  cbn [option_map snd]. intros H. injection H as H. subst v'.
  apply find_some in Hf. destruct Hf as [Hin He]. cbn [fst] in He. apply String.eqb_eq in He. subst k'. exact Hin.
Qed.

Lemma panel_keys_In (given : list (String.string * PrimFloat.float)) k :
  In k (panel_keys given) <-> In k (map fst given) /\ k <> "min_n_cycles".
Proof.
  unfold panel_keys. rewrite filter_In. split; intros [H1 H2]; (split; [exact H1|]).
  - intros He. subst k. rewrite String.eqb_refl in H2. discriminate H2.
  - destruct (String.eqb k "min_n_cycles") eqn:He; [|reflexivity].
    apply String.eqb_eq in He. contradiction.
Qed.

(** every given parameter has its panel, with the threshold line at the value given for THAT parameter *)
Theorem summary_panels_complete (given : list (String.string * PrimFloat.float)) k v :
  NoDup (map fst given) -> In (k, v) given -> k <> "min_n_cycles" -> In (k, Some v) (summary_panels given).
Proof.
  intros Hnd Hin Hk. unfold summary_panels. apply in_map_iff. exists k. split.
  - rewrite (threshold_of_In given k v Hnd Hin). reflexivity.
  - apply panel_keys_In. split; [|exact Hk]. apply in_map_iff. exists (k, v). split; [reflexivity|exact Hin].
Qed.

(** and there is no other panel: each one belongs to a given parameter other than min_n_cycles and carries that
    parameter's value *)
Theorem summary_panels_sound (given : list (String.string * PrimFloat.float)) k t :
  In (k, t) (summary_panels given) -> k <> "min_n_cycles" /\ exists v, t = Some v /\ In (k, v) given.
Proof.
  unfold summary_panels. intros H. apply in_map_iff in H. destruct H as (k' & Heq & Hin).
  injection Heq as Hk Ht. subst k'. apply panel_keys_In in Hin. destruct Hin as [Hin Hne]. split; [exact Hne|].
  apply in_map_iff in Hin. destruct Hin as ([k2 v2] & Hk2 & Hin2). cbn [fst] in Hk2. subst k2.
  destruct (threshold_of given k) as [v|] eqn:Ht'.
  - exists v. split; [symmetry; exact Ht|]. apply threshold_of_Some. exact Ht'.
  - exfalso. unfold threshold_of in Ht'.
    destruct (find (fun kv => String.eqb (fst kv) k) given) as [x|] eqn:Hf; [discriminate Ht'|].
    apply (find_none _ _ Hf) in Hin2. cbn [fst] in Hin2. rewrite String.eqb_refl in Hin2. discriminate Hin2.
Qed.

(** the order in which the dictionary was filled (min_n_cycles first, in the middle, last, keys shuffled) changes
    neither which panels there are nor any threshold line *)
Theorem summary_panels_order_free (given given' : list (String.string * PrimFloat.float)) k t :
  NoDup (map fst given) -> Permutation given given' ->
  (In (k, t) (summary_panels given) <-> In (k, t) (summary_panels given')).
Proof.
  intros Hnd Hp.
  assert (Hnd' : NoDup (map fst given')).
  { apply (Permutation_NoDup (l := map fst given)); [apply Permutation_map; exact Hp|exact Hnd]. }
  split; intros H; apply summary_panels_sound in H; destruct H as (Hne & v & Ht & Hin); subst t.
  - apply summary_panels_complete; [exact Hnd'| |exact Hne]. apply (Permutation_in _ Hp). exact Hin.
  - apply summary_panels_complete; [exact Hnd| |exact Hne]. apply (Permutation_in _ (Permutation_sym Hp)). exact Hin.
Qed.

(** the object's renaming of shorthand keys is such a re-ordering *)
Lemma object_thresholds_perm (user : list (String.string * bool * PrimFloat.float)) :
  Permutation (function_thresholds user) (object_thresholds user).
Proof.
  unfold function_thresholds, object_thresholds. apply Permutation_map.
  induction user as [|[[k s] v] t IH]; [constructor|].
  cbn [filter fst snd]. destruct s; cbn [negb].
  - apply Permutation_cons_app. exact IH.
  - cbn [app]. constructor. exact IH.
Qed.

Theorem object_panels_by_name (user : list (String.string * bool * PrimFloat.float)) k t :
  NoDup (map fst (function_thresholds user)) ->
  (In (k, t) (summary_panels (object_thresholds user)) <-> In (k, t) (summary_panels (function_thresholds user))).
Proof.
  intros Hnd. symmetry. apply summary_panels_order_free; [exact Hnd|apply object_thresholds_perm].
Qed.

(** a dictionary with min_n_cycles first (what Bycycle(thresholds = {shorthand ..., min_n_cycles}) hands to the plot) *)
Example ex_summary_panels :
  summary_panels [("min_n_cycles", 2); ("monotonicity_threshold", 0x1.3333333333333p-1); ("amp_fraction_threshold", 0x1.999999999999ap-3)]%float
  = [("monotonicity_threshold", Some 0x1.3333333333333p-1); ("amp_fraction_threshold", Some 0x1.999999999999ap-3)]%float.
Proof. vm_compute. reflexivity. Qed.
Local Close Scope string_scope.

Module Examples.
(* view = samples 100 .. 149 (n = 50); peaks at 90 100 120 148 149 160: drawn are 100, 120, 148
   (the comparison `points < times[-1] * fs` excludes the last sample 149) *)
Example ex_markers : markers 100 50 100 [90; 100; 120; 148; 149; 160]%Z = [0; 20; 48]%Z.
Proof. vm_compute. reflexivity. Qed.

(* the legacy off-by-one: with off = s0 - 1 every marker is drawn one sample late *)
Example ex_markers_legacy : markers 100 50 99 [90; 100; 120; 148; 149; 160]%Z = [1; 21; 49]%Z.
Proof. vm_compute. reflexivity. Qed.

Example ex_markers_empty : markers 100 50 100 [10; 20; 200]%Z = [].
Proof. vm_compute. reflexivity. Qed.

Definition lrow (l nx : Z) (b : bool) : srow * bool := (Build_srow 0 l nx 0 0 0, b).

(* view = samples 10 .. 21 (n = 12); cycle [12, 15] labelled, cycle [15, 19] not *)
Example ex_burst_mask :
  burst_mask 12 10 [lrow 12 15 true; lrow 15 19 false]
  = [false; false; true; true; true; true; false; false; false; false; false; false].
Proof. vm_compute. reflexivity. Qed.

(* a labelled cycle sticking out of the view on both sides is clipped *)
Example ex_burst_mask_clipped :
  (burst_mask 4 10 [lrow 5 11 true], burst_mask 4 10 [lrow 12 30 true], burst_mask 4 10 [lrow 0 40 true])
  = ([true; true; false; false], [false; false; true; true], [true; true; true; true]).
Proof. vm_compute. reflexivity. Qed.

Example ex_burst_mask_none :
  burst_mask 5 10 [lrow 10 12 false; lrow 12 14 false] = [false; false; false; false; false].
Proof. vm_compute. reflexivity. Qed.

Example ex_panel_points :
  panel_points 10 [(Build_srow 13 12 15 0 0 0, 7); (Build_srow 17 15 19 0 0 0, 9)] = [(3%Z, 7); (7%Z, 9)].
Proof. vm_compute. reflexivity. Qed.

(* view = samples 10 .. 21 (n = 12): cycle [8, 12] starts before the view, [12, 15] and [15, 19] lie inside,
   [19, 22] ends on the first sample after the view *)
Definition prows : list (srow * nat) :=
  [(Build_srow 10 8 12 0 0 0, 5); (Build_srow 13 12 15 0 0 0, 7); (Build_srow 17 15 19 0 0 0, 9);
   (Build_srow 20 19 22 0 0 0, 11)].
Example ex_panel_interp : panel_interp 12 10 prows = [(3%Z, 7); (7%Z, 9)].
Proof. vm_compute. reflexivity. Qed.
Example ex_panel_steps : panel_steps 12 10 prows = [(2%Z, 7); (5%Z, 7); (5%Z, 9); (9%Z, 9)].
Proof. vm_compute. reflexivity. Qed.

Example ex_offsets :
  (offset_legacy 100 0x1.28f5c28f5c28fp-2, offset_repaired 100 0x1.28f5c28f5c28fp-2,
   offset_legacy 100 0x1.999999999999ap-3, offset_repaired 100 0x1.999999999999ap-3)%float
  = (28, 29, 20, 20)%Z.
Proof. vm_compute. reflexivity. Qed.
End Examples.
