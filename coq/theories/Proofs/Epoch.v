(** Epoching (Model/Epoch.v, C13): epoch_df splits the table of the concatenated signal into one
    table per epoch without losing, duplicating or reordering rows; compute_features_2d(axis=None)
    keeps the labels of the flattened analysis (single option set) or re-labels every epoch with
    its own option set (per-epoch list).  No axioms. *)
From Coq Require Import List Bool Arith ZArith Lia Floats.PrimFloat.
From Coq Require Import Sorting.Sorted Sorting.Permutation.
Import ListNotations.
From ByC Require Import Base.Result Base.ListAux Model.Runs Model.Labels Model.Cycles Model.Epoch
  Proofs.Labels.

(* ------------------------------------------------------------------------------------------ *)
(** * List helpers *)

Lemma nth_map_seq_d {B} (F : nat -> B) (a n i : nat) (d : B) :
  i < n -> nth i (map F (seq a n)) d = F (a + i).
Proof.
  intros Hi.
  rewrite nth_indep with (d' := F 0) by (rewrite map_length, seq_length; exact Hi).
  rewrite map_nth, seq_nth by exact Hi. reflexivity.
Qed.

Lemma filter_none {A} (f : A -> bool) (l : list A) :
  (forall x, In x l -> f x = false) -> filter f l = [].
Proof.
  induction l as [|x l IH]; intros H; [reflexivity|].
  cbn [filter]. rewrite (H x (or_introl eq_refl)). apply IH. intros y Hy. apply H. right. exact Hy.
Qed.

Lemma filter_all {A} (f : A -> bool) (l : list A) :
  (forall x, In x l -> f x = true) -> filter f l = l.
Proof.
  induction l as [|x l IH]; intros H; [reflexivity|].
  cbn [filter]. rewrite (H x (or_introl eq_refl)). f_equal. apply IH. intros y Hy. apply H. right. exact Hy.
Qed.

Lemma combine_seq_map {B} (F : nat -> B) (a n : nat) :
  combine (seq a n) (map F (seq a n)) = map (fun k => (k, F k)) (seq a n).
Proof.
  revert a; induction n as [|n IH]; intros a; [reflexivity|].
  cbn [seq map combine]. f_equal. apply IH.
Qed.

Lemma zip_length {A B} (l1 : list A) (l2 : list B) :
  length (zip l1 l2) = Nat.min (length l1) (length l2).
Proof.
  revert l2; induction l1 as [|x l1 IH]; intros [|y l2]; cbn [zip length Nat.min]; try reflexivity.
  f_equal. apply IH.
Qed.

Lemma zip_nth {A B} (l1 : list A) (l2 : list B) i d1 d2 :
  i < length l1 -> i < length l2 -> nth i (zip l1 l2) (d1, d2) = (nth i l1 d1, nth i l2 d2).
Proof.
  revert l2 i; induction l1 as [|x l1 IH]; intros [|y l2] i H1 H2; cbn [length] in *; try lia.
  destruct i as [|i]; [reflexivity|]. cbn [zip nth]. apply IH; lia.
Qed.

Lemma mapM_ok_nth {A B} (f : A -> result B) (l : list A) (ys : list B) :
  mapM f l = Ok ys ->
  length ys = length l /\
  forall i dx dy, i < length l -> f (nth i l dx) = Ok (nth i ys dy).
Proof.
  revert ys; induction l as [|a l IH]; intros ys H.
  - cbn [mapM] in H. injection H as <-. split; [reflexivity|].
    intros i dx dy Hi. cbn [length] in Hi. lia.
  - cbn [mapM] in H.
    destruct (f a) as [y|er] eqn:Hfa; [|discriminate H].
    destruct (mapM f l) as [ys'|er] eqn:Hm; [|discriminate H].
    injection H as <-. destruct (IH ys' eq_refl) as [HL Hn].
    split; [cbn [length]; lia|].
    intros i dx dy Hi. destruct i as [|i]; cbn [nth].
    + exact Hfa.
    + apply Hn. cbn [length] in Hi. lia.
Qed.

(* ------------------------------------------------------------------------------------------ *)
(** * E1: number of epochs *)

Section EpochProofs.
Context {X : Type}.
Notation prow := (@prow X).
Implicit Types (r : prow) (rows flat : list prow) (L sig_len row_len : Z) (k : nat).

Theorem epoch_df_length rows sig_len L : length (epoch_df rows sig_len L) = n_epochs sig_len L.
Proof. unfold epoch_df. now rewrite map_length, seq_length. Qed.

Theorem n_epochs_spec sig_len L : (0 < L)%Z -> (0 < sig_len)%Z ->
  ((Z.of_nat (n_epochs sig_len L) - 1) * L < sig_len <= Z.of_nat (n_epochs sig_len L) * L)%Z.
Proof.
  intros HL Hs. unfold n_epochs.
  assert (Hq : (0 <= (sig_len + L - 1) / L)%Z) by (apply Z.div_pos; lia).
  rewrite Z2Nat.id by exact Hq.
  pose proof (Z.div_mod (sig_len + L - 1) L ltac:(lia)) as Hdm.
  pose proof (Z.mod_pos_bound (sig_len + L - 1) L HL) as Hm.
  set (q := ((sig_len + L - 1) / L)%Z) in *. set (m := ((sig_len + L - 1) mod L)%Z) in *.
  replace ((q - 1) * L)%Z with (L * q - L)%Z by ring.
  replace (q * L)%Z with (L * q)%Z by ring. lia.
Qed.

Theorem n_epochs_0 L : (0 < L)%Z -> n_epochs 0 L = 0.
Proof.
  intros HL. unfold n_epochs. replace (0 + L - 1)%Z with (L - 1)%Z by ring.
  rewrite Z.div_small by lia. reflexivity.
Qed.

Theorem n_epochs_mult n L : (0 < L)%Z -> n_epochs (Z.of_nat n * L) L = n.
Proof.
  intros HL. unfold n_epochs.
  replace (Z.of_nat n * L + L - 1)%Z with ((L - 1) + Z.of_nat n * L)%Z by ring.
  rewrite Z.div_add by lia. rewrite Z.div_small by lia. cbn [Z.add]. apply Nat2Z.id.
Qed.

(* ------------------------------------------------------------------------------------------ *)
(** * E2: which epoch owns a row *)

Theorem in_epoch_iff L k r :
  in_epoch L k r = true <-> (Z.of_nat k * L < s_next (p_s r) <= (Z.of_nat k + 1) * L)%Z.
Proof.
  unfold in_epoch. rewrite andb_true_iff, Z.ltb_lt, Z.leb_le. tauto.
Qed.

(* epoch ceil(c / L) - 1: a closing index exactly on the boundary (k+1) L belongs to epoch k *)
Theorem in_epoch_index L k r : (0 < L)%Z -> (0 < s_next (p_s r))%Z ->
  (in_epoch L k r = true <-> Z.of_nat k = ((s_next (p_s r) + L - 1) / L - 1)%Z).
Proof.
  intros HL Hc. rewrite in_epoch_iff. set (c := s_next (p_s r)) in *.
  split.
  - intros [H1 H2].
    assert (E : ((c + L - 1) / L = Z.of_nat k + 1)%Z).
    { symmetry. apply Z.div_unique with (r := (c + L - 1 - L * (Z.of_nat k + 1))%Z); [|ring].
      left. replace (L * (Z.of_nat k + 1))%Z with ((Z.of_nat k + 1) * L)%Z by ring.
      replace ((Z.of_nat k + 1) * L)%Z with (Z.of_nat k * L + L)%Z in * by ring. lia. }
    rewrite E. lia.
  - intros E.
    pose proof (Z.div_mod (c + L - 1) L ltac:(lia)) as Hdm.
    pose proof (Z.mod_pos_bound (c + L - 1) L HL) as Hm.
    set (q := ((c + L - 1) / L)%Z) in *. set (m := ((c + L - 1) mod L)%Z) in *.
    rewrite E.
    replace ((q - 1) * L)%Z with (L * q - L)%Z by ring.
    replace ((q - 1 + 1) * L)%Z with (L * q)%Z by ring. lia.
Qed.

Theorem in_epoch_unique L k k' r : (0 < L)%Z ->
  in_epoch L k r = true -> in_epoch L k' r = true -> k = k'.
Proof.
  intros HL H1 H2.
  assert (Hc : (0 < s_next (p_s r))%Z).
  { apply in_epoch_iff in H1 as [H1 _].
    assert (0 <= Z.of_nat k * L)%Z by (apply Z.mul_nonneg_nonneg; lia). lia. }
  apply (in_epoch_index L k r HL Hc) in H1. apply (in_epoch_index L k' r HL Hc) in H2. lia.
Qed.

(* every closing index in (0, n L] has an epoch below n *)
Lemma in_epoch_exists L n r : (0 < L)%Z -> (0 < s_next (p_s r) <= Z.of_nat n * L)%Z ->
  exists k, k < n /\ in_epoch L k r = true.
Proof.
  intros HL [Hc Hn]. set (c := s_next (p_s r)) in *.
  pose proof (Z.div_mod (c + L - 1) L ltac:(lia)) as Hdm.
  pose proof (Z.mod_pos_bound (c + L - 1) L HL) as Hm.
  assert (Hq1 : (1 <= (c + L - 1) / L)%Z).
  { apply Z.div_le_lower_bound; lia. }
  assert (Hq2 : ((c + L - 1) / L <= Z.of_nat n)%Z).
  { apply Z.lt_succ_r. apply Z.div_lt_upper_bound; [exact HL|].
    replace (L * Z.succ (Z.of_nat n))%Z with (Z.of_nat n * L + L)%Z by ring. lia. }
  exists (Z.to_nat ((c + L - 1) / L - 1)). split; [lia|].
  apply (in_epoch_index L _ r HL Hc). fold c. lia.
Qed.

(* a closing index outside (0, n L] has none *)
Lemma in_epoch_out_of_range L n k r : (0 < L)%Z -> k < n ->
  (s_next (p_s r) <= 0 \/ Z.of_nat n * L < s_next (p_s r))%Z -> in_epoch L k r = false.
Proof.
  intros HL Hk Hout. destruct (in_epoch L k r) eqn:E; [|reflexivity]. exfalso.
  apply in_epoch_iff in E as [H1 H2].
  assert (0 <= Z.of_nat k * L)%Z by (apply Z.mul_nonneg_nonneg; lia).
  assert ((Z.of_nat k + 1) * L <= Z.of_nat n * L)%Z by (apply Z.mul_le_mono_nonneg_r; lia).
  lia.
Qed.

(* ------------------------------------------------------------------------------------------ *)
(** * E3: contents of one epoch *)

Theorem epoch_df_nth rows sig_len L k : k < n_epochs sig_len L ->
  nth k (epoch_df rows sig_len L) [] = map (shift_row (Z.of_nat k * L)) (filter (in_epoch L k) rows).
Proof.
  intros Hk. unfold epoch_df.
  rewrite (nth_map_seq_d (fun k => map (shift_row (Z.of_nat k * L)) (filter (in_epoch L k) rows)))
    by exact Hk.
  reflexivity.
Qed.

Theorem epoch_df_In rows sig_len L k r' : k < n_epochs sig_len L ->
  (In r' (nth k (epoch_df rows sig_len L) []) <->
   exists r, In r rows /\ in_epoch L k r = true /\ r' = shift_row (Z.of_nat k * L) r).
Proof.
  intros Hk. rewrite epoch_df_nth by exact Hk. rewrite in_map_iff. split.
  - intros (r & <- & Hr). apply filter_In in Hr as [Hr He]. exists r. auto.
  - intros (r & Hr & He & ->). exists r. split; [reflexivity|]. apply filter_In. auto.
Qed.

(* ------------------------------------------------------------------------------------------ *)
(** * E4: what shifting preserves *)

Theorem shift_row_feats d r :
  p_feat (shift_row d r) = p_feat r /\ p_bf (shift_row d r) = p_bf r /\
  p_lab (shift_row d r) = p_lab r /\ p_x (shift_row d r) = p_x r.
Proof. repeat split. Qed.

Theorem shift_srow_fields d (s : srow) :
  s_center (shift_srow d s) = (s_center s - d)%Z /\ s_last (shift_srow d s) = (s_last s - d)%Z /\
  s_next (shift_srow d s) = (s_next s - d)%Z /\ s_zx_rise (shift_srow d s) = (s_zx_rise s - d)%Z /\
  s_zx_decay (shift_srow d s) = (s_zx_decay s - d)%Z /\ s_last_zx (shift_srow d s) = (s_last_zx s - d)%Z.
Proof. repeat split. Qed.

Theorem shift_row_s d r : p_s (shift_row d r) = shift_srow d (p_s r).
Proof. reflexivity. Qed.

(* differences of sample indices (period, rise / decay times, ...) are unchanged *)
Theorem shift_srow_diffs d (s : srow) :
  (s_next (shift_srow d s) - s_last (shift_srow d s) = s_next s - s_last s)%Z /\
  (s_next (shift_srow d s) - s_center (shift_srow d s) = s_next s - s_center s)%Z /\
  (s_center (shift_srow d s) - s_last (shift_srow d s) = s_center s - s_last s)%Z /\
  (s_zx_decay (shift_srow d s) - s_zx_rise (shift_srow d s) = s_zx_decay s - s_zx_rise s)%Z /\
  (s_zx_rise (shift_srow d s) - s_last_zx (shift_srow d s) = s_zx_rise s - s_last_zx s)%Z.
Proof. cbn [shift_srow s_next s_last s_center s_zx_decay s_zx_rise s_last_zx]. repeat split; lia. Qed.

Lemma shift_srow_inv d (s : srow) : shift_srow (- d) (shift_srow d s) = s.
Proof.
  destruct s as [a b c e f g]. unfold shift_srow.
  cbn [s_next s_last s_center s_zx_decay s_zx_rise s_last_zx]. f_equal; lia.
Qed.

Theorem shift_row_inv d r : shift_row (- d) (shift_row d r) = r.
Proof.
  destruct r as [s f b l x]. unfold shift_row. cbn [p_s p_feat p_bf p_lab p_x].
  rewrite shift_srow_inv. reflexivity.
Qed.

Theorem shift_row_0 r : shift_row 0 r = r.
Proof.
  destruct r as [[a b c e f g] ft bf l x]. unfold shift_row, shift_srow.
  cbn [p_s p_feat p_bf p_lab p_x s_next s_last s_center s_zx_decay s_zx_rise s_last_zx].
  rewrite !Z.sub_0_r. reflexivity.
Qed.

Lemma shift_row_inj d r1 r2 : shift_row d r1 = shift_row d r2 -> r1 = r2.
Proof.
  intros H. rewrite <- (shift_row_inv d r1), <- (shift_row_inv d r2). now rewrite H.
Qed.

(* the closing index of a row of epoch k lies in (0, L] *)
Theorem epoch_df_local_range rows sig_len L k r' : k < n_epochs sig_len L ->
  In r' (nth k (epoch_df rows sig_len L) []) -> (0 < s_next (p_s r') <= L)%Z.
Proof.
  intros Hk Hin. apply epoch_df_In in Hin as (r & _ & He & ->); [|exact Hk].
  apply in_epoch_iff in He. cbn [shift_row p_s shift_srow s_next]. lia.
Qed.

(* ------------------------------------------------------------------------------------------ *)
(** * E5: no loss, no duplication, order preserved *)

Definition unshift_all (L : Z) (eps : list (list prow)) : list prow :=
  concat (map (fun ke => map (shift_row (- (Z.of_nat (fst ke) * L))) (snd ke))
              (combine (seq 0 (length eps)) eps)).

(* undoing the shifts leaves the concatenation of the per-epoch selections (no hypotheses) *)
Lemma unshift_epoch_df rows sig_len L :
  unshift_all L (epoch_df rows sig_len L)
  = concat (map (fun k => filter (in_epoch L k) rows) (seq 0 (n_epochs sig_len L))).
Proof.
  unfold unshift_all. rewrite epoch_df_length. unfold epoch_df.
  rewrite (combine_seq_map (fun k => map (shift_row (Z.of_nat k * L)) (filter (in_epoch L k) rows))).
  rewrite map_map. f_equal. apply map_ext. intros k. cbn [fst snd].
  rewrite map_map. rewrite <- (map_id (filter (in_epoch L k) rows)) at 2.
  apply map_ext. intros r. apply shift_row_inv.
Qed.

Theorem unshift_epoch_df_In rows sig_len L r :
  In r (unshift_all L (epoch_df rows sig_len L)) <->
  In r rows /\ exists k, k < n_epochs sig_len L /\ in_epoch L k r = true.
Proof.
  rewrite unshift_epoch_df, in_concat. split.
  - intros (l & Hl & Hr). apply in_map_iff in Hl as (k & <- & Hk).
    apply in_seq in Hk. apply filter_In in Hr as [Hr He]. split; [exact Hr|]. exists k. split; [lia|exact He].
  - intros (Hr & k & Hk & He). exists (filter (in_epoch L k) rows). split.
    + apply in_map_iff. exists k. split; [reflexivity|]. apply in_seq. lia.
    + apply filter_In. auto.
Qed.

(* a row whose closing index is <= 0 or beyond the last epoch appears in no epoch *)
Theorem epoch_df_out_of_range rows sig_len L r : (0 < L)%Z ->
  (s_next (p_s r) <= 0 \/ Z.of_nat (n_epochs sig_len L) * L < s_next (p_s r))%Z ->
  ~ In r (unshift_all L (epoch_df rows sig_len L)) /\
  forall k, k < n_epochs sig_len L ->
            ~ In (shift_row (Z.of_nat k * L) r) (nth k (epoch_df rows sig_len L) []).
Proof.
  intros HL Hout. split.
  - rewrite unshift_epoch_df_In. intros (_ & k & Hk & He).
    rewrite (in_epoch_out_of_range L _ k r HL Hk Hout) in He. discriminate.
  - intros k Hk Hin. apply epoch_df_In in Hin as (r0 & _ & He & Heq); [|exact Hk].
    apply shift_row_inj in Heq. subst r0.
    rewrite (in_epoch_out_of_range L _ k r HL Hk Hout) in He. discriminate.
Qed.

(* permutation version: no sortedness needed *)
Lemma concat_filter_cons (P : nat -> prow -> bool) r rows (l1 l2 : list nat) k0 :
  (forall k, In k l1 -> P k r = false) -> (forall k, In k l2 -> P k r = false) -> P k0 r = true ->
  Permutation (concat (map (fun k => filter (P k) (r :: rows)) (l1 ++ k0 :: l2)))
              (r :: concat (map (fun k => filter (P k) rows) (l1 ++ k0 :: l2))).
Proof.
  intros H1 H2 H0.
  rewrite !map_app, !concat_app.
  rewrite (map_ext_in (fun k => filter (P k) (r :: rows)) (fun k => filter (P k) rows) l1).
  2:{ intros k Hk. cbn [filter]. now rewrite (H1 k Hk). }
  change (map (fun k => filter (P k) (r :: rows)) (k0 :: l2))
    with (filter (P k0) (r :: rows) :: map (fun k => filter (P k) (r :: rows)) l2).
  rewrite (map_ext_in (fun k => filter (P k) (r :: rows)) (fun k => filter (P k) rows) l2).
  2:{ intros k Hk. cbn [filter]. now rewrite (H2 k Hk). }
  cbn [map concat]. cbn [filter]. rewrite H0.
  symmetry. cbn [app]. apply Permutation_middle.
Qed.

Lemma seq_split3 n k0 : k0 < n -> seq 0 n = seq 0 k0 ++ k0 :: seq (S k0) (n - S k0).
Proof.
  intros Hk. replace n with (k0 + S (n - S k0)) at 1 by lia.
  rewrite seq_app. cbn [seq Nat.add]. reflexivity.
Qed.

Lemma concat_epochs_perm rows L n : (0 < L)%Z ->
  (forall r, In r rows -> (0 < s_next (p_s r) <= Z.of_nat n * L)%Z) ->
  Permutation (concat (map (fun k => filter (in_epoch L k) rows) (seq 0 n))) rows.
Proof.
  intros HL. induction rows as [|r rows IH]; intros Hrange.
  - replace (concat (map (fun k => filter (in_epoch L k) []) (seq 0 n))) with (@nil prow); [constructor|].
    symmetry. apply concat_nil_Forall. apply Forall_forall. intros l Hl.
    apply in_map_iff in Hl as (k & <- & _). reflexivity.
  - destruct (in_epoch_exists L n r HL (Hrange r (or_introl eq_refl))) as (k0 & Hk0 & He0).
    rewrite (seq_split3 n k0 Hk0).
    etransitivity.
    + apply concat_filter_cons; [| |exact He0].
      * intros k Hk. apply in_seq in Hk. destruct (in_epoch L k r) eqn:E; [|reflexivity].
        pose proof (in_epoch_unique L k k0 r HL E He0). lia.
      * intros k Hk. apply in_seq in Hk. destruct (in_epoch L k r) eqn:E; [|reflexivity].
        pose proof (in_epoch_unique L k k0 r HL E He0). lia.
    + rewrite <- (seq_split3 n k0 Hk0). constructor. apply IH.
      intros r1 Hr1. apply Hrange. right. exact Hr1.
Qed.

Theorem epoch_df_partition_perm rows sig_len L : (0 < L)%Z ->
  (forall r, In r rows -> (0 < s_next (p_s r) <= Z.of_nat (n_epochs sig_len L) * L)%Z) ->
  Permutation (unshift_all L (epoch_df rows sig_len L)) rows.
Proof.
  intros HL Hrange. rewrite unshift_epoch_df. apply concat_epochs_perm; assumption.
Qed.

Lemma concat_length_ext {A B C} (F : A -> list B) (G : A -> list C) (ks : list A) :
  (forall a, length (F a) = length (G a)) ->
  length (concat (map F ks)) = length (concat (map G ks)).
Proof.
  intros H. induction ks as [|a ks IH]; [reflexivity|].
  cbn [map concat]. rewrite !app_length, IH, H. reflexivity.
Qed.

Theorem epoch_df_count rows sig_len L : (0 < L)%Z ->
  (forall r, In r rows -> (0 < s_next (p_s r) <= Z.of_nat (n_epochs sig_len L) * L)%Z) ->
  length (concat (epoch_df rows sig_len L)) = length rows.
Proof.
  intros HL Hrange.
  rewrite <- (Permutation_length (concat_epochs_perm rows L _ HL Hrange)).
  unfold epoch_df. apply concat_length_ext. intros k. apply map_length.
Qed.

(* exact version: rows sorted by closing index *)
Definition lt_close (a b : prow) : Prop := (s_next (p_s a) < s_next (p_s b))%Z.

Lemma sorted_filter_step rows (t t' : Z) : (t <= t')%Z -> StronglySorted lt_close rows ->
  filter (fun r => s_next (p_s r) <=? t)%Z rows
    ++ filter (fun r => (t <? s_next (p_s r))%Z && (s_next (p_s r) <=? t')%Z) rows
  = filter (fun r => s_next (p_s r) <=? t')%Z rows.
Proof.
  intros Ht Hs. induction Hs as [|x l Hs IH Hx]; [reflexivity|].
  rewrite Forall_forall in Hx. unfold lt_close in Hx.
  cbn [filter].
  destruct (s_next (p_s x) <=? t)%Z eqn:E1.
  - apply Z.leb_le in E1.
    replace (t <? s_next (p_s x))%Z with false by (symmetry; apply Z.ltb_ge; lia).
    replace (s_next (p_s x) <=? t')%Z with true by (symmetry; apply Z.leb_le; lia).
    cbn [andb app]. f_equal. exact IH.
  - apply Z.leb_gt in E1.
    replace (t <? s_next (p_s x))%Z with true by (symmetry; apply Z.ltb_lt; lia).
    cbn [andb].
    rewrite (filter_none (fun r => s_next (p_s r) <=? t)%Z l).
    2:{ intros y Hy. apply Z.leb_gt. specialize (Hx y Hy). lia. }
    cbn [app].
    destruct (s_next (p_s x) <=? t')%Z eqn:E2.
    + f_equal. apply filter_ext_in. intros y Hy. specialize (Hx y Hy).
      replace (t <? s_next (p_s y))%Z with true by (symmetry; apply Z.ltb_lt; lia). reflexivity.
    + apply Z.leb_gt in E2.
      rewrite !filter_none; [reflexivity| |].
      * intros y Hy. apply Z.leb_gt. specialize (Hx y Hy). lia.
      * intros y Hy. specialize (Hx y Hy). apply andb_false_iff. right. apply Z.leb_gt. lia.
Qed.

Lemma concat_epochs_sorted rows L a n : (0 < L)%Z -> StronglySorted lt_close rows ->
  (forall r, In r rows -> (Z.of_nat a * L < s_next (p_s r))%Z) ->
  concat (map (fun k => filter (in_epoch L k) rows) (seq a n))
  = filter (fun r => s_next (p_s r) <=? Z.of_nat (a + n) * L)%Z rows.
Proof.
  intros HL Hs Hlo. induction n as [|n IH].
  - cbn [seq map concat]. rewrite Nat.add_0_r. symmetry. apply filter_none.
    intros r Hr. apply Z.leb_gt. apply Hlo. exact Hr.
  - rewrite seq_S, map_app, concat_app, IH. cbn [map concat]. rewrite app_nil_r.
    unfold in_epoch.
    replace (Z.of_nat (a + S n) * L)%Z with ((Z.of_nat (a + n) + 1) * L)%Z by lia.
    apply sorted_filter_step; [lia|exact Hs].
Qed.

Theorem epoch_df_partition rows sig_len L : (0 < L)%Z ->
  StronglySorted (fun a b => (s_next (p_s a) < s_next (p_s b))%Z) rows ->
  (forall r, In r rows -> (0 < s_next (p_s r) <= Z.of_nat (n_epochs sig_len L) * L)%Z) ->
  unshift_all L (epoch_df rows sig_len L) = rows.
Proof.
  intros HL Hs Hrange. rewrite unshift_epoch_df.
  rewrite (concat_epochs_sorted rows L 0 _ HL Hs).
  - cbn [Nat.add]. apply filter_all. intros r Hr. apply Z.leb_le. apply Hrange. exact Hr.
  - intros r Hr. cbn [Z.of_nat Z.mul]. apply Hrange. exact Hr.
Qed.

(* consequently the epochs are consecutive segments: concatenating them (shifts undone) in
   epoch order restores the table, and each epoch is itself sorted *)
Theorem epoch_df_sorted rows sig_len L k : k < n_epochs sig_len L ->
  StronglySorted lt_close rows -> StronglySorted lt_close (nth k (epoch_df rows sig_len L) []).
Proof.
  intros Hk Hs. rewrite epoch_df_nth by exact Hk.
  induction Hs as [|x l Hs IH Hx]; [constructor|].
  cbn [filter]. destruct (in_epoch L k x); [|exact IH].
  cbn [map]. constructor; [exact IH|].
  rewrite Forall_forall in *. intros y' Hy'. apply in_map_iff in Hy' as (y & <- & Hy).
  apply filter_In in Hy as [Hy _]. specialize (Hx y Hy). unfold lt_close in *.
  cbn [shift_row p_s shift_srow s_next]. lia.
Qed.

(* ------------------------------------------------------------------------------------------ *)
(** * E6: a single option set keeps the labels of the flattened analysis *)

Theorem axis_none_single flat n_rows row_len :
  group2d_axis_none flat n_rows row_len None = Ok (epoch_df flat (Z.of_nat n_rows * row_len) row_len).
Proof. reflexivity. Qed.

Theorem axis_none_single_labels flat n_rows row_len out k r' :
  group2d_axis_none flat n_rows row_len None = Ok out ->
  k < length out -> In r' (nth k out []) ->
  exists r, In r flat /\ in_epoch row_len k r = true /\
            p_lab r' = p_lab r /\ p_feat r' = p_feat r /\ p_bf r' = p_bf r /\ p_x r' = p_x r /\
            p_s r' = shift_srow (Z.of_nat k * row_len) (p_s r).
Proof.
  rewrite axis_none_single. intros [= <-] Hk Hin. rewrite epoch_df_length in Hk.
  apply epoch_df_In in Hin as (r & Hr & He & ->); [|exact Hk].
  exists r. repeat split; assumption.
Qed.

(* with one row of epochs per signal row: exactly n_rows epochs *)
Theorem axis_none_single_length flat n_rows row_len out : (0 < row_len)%Z ->
  group2d_axis_none flat n_rows row_len None = Ok out -> length out = n_rows.
Proof.
  intros HL. rewrite axis_none_single. intros [= <-].
  rewrite epoch_df_length. apply n_epochs_mult. exact HL.
Qed.

(* ------------------------------------------------------------------------------------------ *)
(** * E7: a per-epoch list re-labels every epoch with its own option set *)

Definition dflt_opt : relabel_opt := RAmp 0%float 0%Z.

Theorem axis_none_list flat n_rows row_len opts out :
  group2d_axis_none flat n_rows row_len (Some opts) = Ok out ->
  length opts = n_epochs (Z.of_nat n_rows * row_len) row_len ->
  length out = length opts /\
  forall k, k < length out ->
    relabel (nth k opts dflt_opt) (nth k (epoch_df flat (Z.of_nat n_rows * row_len) row_len) [])
    = Ok (nth k out []).
Proof.
  unfold group2d_axis_none. intros H Hlen.
  set (eps := epoch_df flat (Z.of_nat n_rows * row_len) row_len) in *.
  assert (Heps : length eps = length opts) by (unfold eps; rewrite epoch_df_length; lia).
  apply mapM_ok_nth in H as [HL Hn]. rewrite zip_length, Heps, Nat.min_id in HL.
  split; [exact HL|]. intros k Hk.
  specialize (Hn k ([], dflt_opt) [] ltac:(rewrite zip_length, Heps, Nat.min_id; lia)).
  rewrite zip_nth in Hn by lia. cbn [fst snd] in Hn. exact Hn.
Qed.

(* the list must have one option set per epoch for the result to have one table per epoch *)
Theorem axis_none_list_length flat n_rows row_len opts out :
  group2d_axis_none flat n_rows row_len (Some opts) = Ok out ->
  length out = Nat.min (n_epochs (Z.of_nat n_rows * row_len) row_len) (length opts).
Proof.
  unfold group2d_axis_none. intros H. apply mapM_ok_nth in H as [HL _].
  rewrite zip_length, epoch_df_length in HL. exact HL.
Qed.

Definition relabel_labels (o : relabel_opt) (rows : list prow) : result (list bool) :=
  match o with
  | RCycles t n => labels_cycles t n (map p_feat rows)
  | RAmp t n => labels_amp t n (map p_bf rows)
  end.

Lemma relabel_unfold o rows : relabel o rows = rmap (set_labels rows) (relabel_labels o rows).
Proof. destruct o; reflexivity. Qed.

Lemma relabel_labels_length o rows lab : relabel_labels o rows = Ok lab -> length lab = length rows.
Proof.
  destruct o as [t n|t n]; cbn [relabel_labels]; intros H.
  - apply labels_cycles_length in H. now rewrite map_length in H.
  - apply labels_amp_length in H. now rewrite map_length in H.
Qed.

Lemma set_labels_length rows lab : length lab = length rows -> length (set_labels rows lab) = length rows.
Proof. intros H. unfold set_labels. rewrite map_length, zip_length, H. apply Nat.min_id. Qed.

Lemma set_labels_nth rows lab i d : length lab = length rows -> i < length rows ->
  nth i (set_labels rows lab) d =
  {| p_s := p_s (nth i rows d); p_feat := p_feat (nth i rows d); p_bf := p_bf (nth i rows d);
     p_lab := nth i lab false; p_x := p_x (nth i rows d) |}.
Proof.
  intros Hl Hi. unfold set_labels.
  set (f := fun rl : prow * bool => _).
  rewrite nth_indep with (d' := f (d, false))
    by (rewrite map_length, zip_length, Hl, Nat.min_id; exact Hi).
  rewrite map_nth, zip_nth by lia. reflexivity.
Qed.

(* re-labelling changes only the label column *)
Theorem relabel_spec o rows out d : relabel o rows = Ok out ->
  exists lab, relabel_labels o rows = Ok lab /\ length lab = length rows /\
  length out = length rows /\
  forall i, i < length rows ->
    p_s (nth i out d) = p_s (nth i rows d) /\ p_feat (nth i out d) = p_feat (nth i rows d) /\
    p_bf (nth i out d) = p_bf (nth i rows d) /\ p_x (nth i out d) = p_x (nth i rows d) /\
    p_lab (nth i out d) = nth i lab false.
Proof.
  rewrite relabel_unfold. destruct (relabel_labels o rows) as [lab|e] eqn:El; cbn [rmap]; [|discriminate].
  intros [= <-]. pose proof (relabel_labels_length o rows lab El) as Hl.
  exists lab. split; [reflexivity|]. split; [exact Hl|]. split; [apply set_labels_length; exact Hl|].
  intros i Hi. rewrite set_labels_nth by assumption. repeat split.
Qed.

(* the two rules, spelled out *)
Corollary relabel_spec_cycles t n rows out d : relabel (RCycles t n) rows = Ok out ->
  exists lab, labels_cycles t n (map p_feat rows) = Ok lab /\ length out = length rows /\
  forall i, i < length rows ->
    p_s (nth i out d) = p_s (nth i rows d) /\ p_feat (nth i out d) = p_feat (nth i rows d) /\
    p_bf (nth i out d) = p_bf (nth i rows d) /\ p_x (nth i out d) = p_x (nth i rows d) /\
    p_lab (nth i out d) = nth i lab false.
Proof.
  intros H. destruct (relabel_spec _ _ _ d H) as (lab & H1 & _ & H2 & H3). exists lab. auto.
Qed.

Corollary relabel_spec_amp t n rows out d : relabel (RAmp t n) rows = Ok out ->
  exists lab, labels_amp t n (map p_bf rows) = Ok lab /\ length out = length rows /\
  forall i, i < length rows ->
    p_s (nth i out d) = p_s (nth i rows d) /\ p_feat (nth i out d) = p_feat (nth i rows d) /\
    p_bf (nth i out d) = p_bf (nth i rows d) /\ p_x (nth i out d) = p_x (nth i rows d) /\
    p_lab (nth i out d) = nth i lab false.
Proof.
  intros H. destruct (relabel_spec _ _ _ d H) as (lab & H1 & _ & H2 & H3). exists lab. auto.
Qed.

(* re-labelling with the consistency rule forces the first and last row of the epoch to false:
   this is why labels of an epoch differ from those of the flattened analysis *)
Theorem relabel_cycles_ends t n rows out d : relabel (RCycles t n) rows = Ok out ->
  rows <> [] -> p_lab (nth 0 out d) = false /\ p_lab (nth (length rows - 1) out d) = false.
Proof.
  intros H Hne. destruct (relabel_spec_cycles _ _ _ _ d H) as (lab & Hl & _ & Hn).
  apply labels_cycles_ends in Hl as [H0 H1]. rewrite map_length in H1.
  assert (0 < length rows) by (destruct rows; [congruence|cbn [length]; lia]).
  destruct (Hn 0 ltac:(lia)) as (_ & _ & _ & _ & ->).
  destruct (Hn (length rows - 1) ltac:(lia)) as (_ & _ & _ & _ & ->). auto.
Qed.

(* per-epoch list: every epoch keeps its rows (indices, features, payload), only labels change *)
Theorem axis_none_list_rows flat n_rows row_len opts out k d :
  group2d_axis_none flat n_rows row_len (Some opts) = Ok out ->
  length opts = n_epochs (Z.of_nat n_rows * row_len) row_len -> k < length out ->
  let ep := nth k (epoch_df flat (Z.of_nat n_rows * row_len) row_len) [] in
  length (nth k out []) = length ep /\
  forall i, i < length ep ->
    p_s (nth i (nth k out []) d) = p_s (nth i ep d) /\
    p_feat (nth i (nth k out []) d) = p_feat (nth i ep d) /\
    p_bf (nth i (nth k out []) d) = p_bf (nth i ep d) /\
    p_x (nth i (nth k out []) d) = p_x (nth i ep d).
Proof.
  intros H Hlen Hk ep. destruct (axis_none_list _ _ _ _ _ H Hlen) as [_ Hn].
  specialize (Hn k Hk). fold ep in Hn.
  destruct (relabel_spec _ _ _ d Hn) as (lab & _ & _ & HL & Hrows).
  split; [exact HL|]. intros i Hi. destruct (Hrows i Hi) as (H1 & H2 & H3 & H4 & _). auto.
Qed.

End EpochProofs.

(* ------------------------------------------------------------------------------------------ *)
(** * E8 (Legacy): re-labelling epoch 0 on its own under a single option set *)

Definition ex_row (c : Z) (lab : bool) (id : nat) : @prow nat :=
  {| p_s := Build_srow (c - 3) (c - 6) c (c - 5) (c - 2) (c - 7);
     p_feat := Build_feat4 1 1 1 1; p_bf := 1%float; p_lab := lab; p_x := id |}.

(* three cycles labelled true by the flattened analysis; epoch 0 = (0, 10] holds the first two *)
Definition legacy_flat : list (@prow nat) := [ex_row 5 true 0; ex_row 10 true 1; ex_row 15 true 2].
Definition legacy_opt : relabel_opt := RCycles (Build_thr4 0 0.5 0.5 0.5) 0.

Theorem axis_none_legacy_refuted :
  group2d_axis_none_legacy legacy_flat 2 10 legacy_opt <> group2d_axis_none legacy_flat 2 10 None.
Proof. vm_compute. intros H. discriminate H. Qed.

(* the difference is in the label column of epoch 0: its first and last rows are forced to false *)
Example axis_none_legacy_labels :
  rmap (map (map p_lab)) (group2d_axis_none_legacy legacy_flat 2 10 legacy_opt) = Ok [[false; false]; [true]] /\
  rmap (map (map p_lab)) (group2d_axis_none legacy_flat 2 10 None) = Ok [[true; true]; [true]].
Proof. split; vm_compute; reflexivity. Qed.

(* ------------------------------------------------------------------------------------------ *)
(** * E9: non-vacuity *)

Definition ex_rows : list (@prow nat) :=
  [ex_row 8 false 0; ex_row 20 true 1; ex_row 25 true 2; ex_row 41 false 3; ex_row 60 true 4].

(* (local closing index, label, original row number): closing index 20 stays in epoch 0 (local
   index 20 = L), 41 falls in epoch 2 (local index 1), 60 closes epoch 2 *)
Example epoch_df_example :
  n_epochs 60 20 = 3 /\
  map (map (fun r => (s_next (p_s r), p_lab r, p_x r))) (epoch_df ex_rows 60 20)
  = [[(8%Z, false, 0); (20%Z, true, 1)]; [(5%Z, true, 2)]; [(1%Z, false, 3); (20%Z, true, 4)]].
Proof. split; vm_compute; reflexivity. Qed.

Example epoch_df_example_full :
  epoch_df ex_rows 60 20
  = [[ex_row 8 false 0; ex_row 20 true 1]; [ex_row 5 true 2]; [ex_row 1 false 3; ex_row 20 true 4]].
Proof. vm_compute. reflexivity. Qed.

(* sig_len need not be a multiple of L: ceil(50 / 20) = 3 epochs as well *)
Example n_epochs_example : n_epochs 50 20 = 3 /\ n_epochs 40 20 = 2 /\ n_epochs 41 20 = 3.
Proof. repeat split. Qed.

Example ex_rows_sorted : StronglySorted lt_close ex_rows.
Proof. unfold ex_rows. repeat constructor. Qed.

Example ex_rows_range :
  forall r, In r ex_rows -> (0 < s_next (p_s r) <= Z.of_nat (n_epochs 60 20) * 20)%Z.
Proof.
  intros r Hr. unfold ex_rows in Hr. cbn [In] in Hr.
  repeat (destruct Hr as [<-|Hr]; [vm_compute; split; [reflexivity|discriminate]|]).
  destruct Hr.
Qed.

Example epoch_df_example_partition : unshift_all 20 (epoch_df ex_rows 60 20) = ex_rows.
Proof. apply epoch_df_partition; [reflexivity|exact ex_rows_sorted|exact ex_rows_range]. Qed.

(* per-epoch list on the same table: each epoch gets its own rule *)
Example axis_none_list_example :
  rmap (map (map p_lab))
       (group2d_axis_none ex_rows 3 20
          (Some [RAmp 0.5 1; RCycles (Build_thr4 0 0.5 0.5 0.5) 0; RAmp 0.5 3]))
  = Ok [[true; true]; [false]; [false; false]].
Proof. vm_compute. reflexivity. Qed.
