(* C07, min_n_cycles routing on the pipeline model as it is evaluated against the implementation.

   The correspondence entry point `run_features` receives, for the amplitude method, the RAW
   min_n_cycles entries of the caller's two option dictionaries (`MAmp mask t bk tk`, None = key
   absent) and resolves the count for the run filter itself (`mk_method`, Labels.filter_min_n).
   The theorems below say which count that is - the burst options' value if given, else the
   thresholds' value, else 3 (Labels.resolve_min_n, the count the sample-wise detector is
   documented to receive) - and that the labels of the returned table are the run rule with it.
   A change of the reconciliation in the implementation therefore shows up as a disagreement
   between `run_features` and the implementation on an input where the count matters; a change
   of `mk_method` / `filter_min_n` in the model breaks these theorems. *)
From Coq Require Import List Bool Arith ZArith Lia Floats.PrimFloat.
Import ListNotations.
From ByC Require Import Base.Result Base.ListAux Base.FloatBase Harness.Compare
  Model.Runs Model.Labels Model.Extrema Model.Zerox Model.Cycles Model.BurstFeat Model.Features.
From ByC Require Proofs.Cycles Proofs.Labels Proofs.FeaturesSpec.
Import ByC.Proofs.FeaturesSpec.
Close Scope float_scope.
Open Scope nat_scope.

(* the kernel record run_features builds from the flat input *)
Definition kernels_in (p : barr) (padn : nat) (amp : list float) : kernels :=
  {| k_pos := barr_bits p; k_padn := padn; k_amp := amp |}.

(* the count the model's run filter works with is the documented reconciliation of the raw values *)
Lemma filter_min_n_resolve bk tk : filter_min_n bk tk = resolve_min_n bk tk.
Proof. destruct (ByC.Proofs.Labels.min_n_consistent bk tk) as [H _]. symmetry. exact H. Qed.

Theorem mk_method_amp mask t bk tk :
  mk_method (MAmp mask t bk tk) = Amp (barr_bits mask) t (resolve_min_n bk tk).
Proof. cbn [mk_method]. rewrite filter_min_n_resolve. reflexivity. Qed.

(* run_features on an amplitude case = compute_features with the count resolved from the raw values *)
Theorem run_features_amp c raw p padn amp b mask t bk tk :
  run_features (c, raw, (p, padn, amp), b, MAmp mask t bk tk) =
  compute_features c raw (kernels_in p padn amp) b
    (Amp (barr_bits mask) t
       (match bk with Some n => n | None => match tk with Some n => n | None => 3%Z end end)).
Proof. destruct bk as [n|]; [reflexivity|]. destruct tk as [n|]; reflexivity. Qed.

(* labels of the returned table = (fraction >= t, run >= resolved count) on the table's own burst_fraction *)
Theorem run_features_amp_labels c raw p padn amp b mask t bk tk out :
  run_features (c, raw, (p, padn, amp), b, MAmp mask t bk tk) = Ok out ->
  labels_amp t (resolve_min_n bk tk) (map bf_of_row out) = Ok (map r_is_burst out).
Proof.
  intro H. unfold run_features in H. rewrite mk_method_amp in H.
  exact (compute_features_amp_self _ _ _ _ _ _ _ _ H).
Qed.

Theorem run_features_amp_label_iff c raw p padn amp b mask t bk tk out i :
  run_features (c, raw, (p, padn, amp), b, MAmp mask t bk tk) = Ok out ->
  (r_is_burst (nth i out frow0) = true <->
   exists a e, a <= i < e /\ e <= length out /\ Z.to_nat (resolve_min_n bk tk) <= e - a /\
     forall j, a <= j < e -> (t <=? b_bf (r_burst (nth j out frow0)))%float = true).
Proof.
  intro H. unfold run_features in H. rewrite mk_method_amp in H.
  exact (compute_features_amp_label_iff_cols _ _ _ _ _ _ _ _ i H).
Qed.

(* burst_fraction column of the returned table = fraction of the detector mask handed in (the mask the
   harness computes with the documented count), whatever the two raw values are *)
Theorem run_features_amp_fraction c raw p padn amp b mask t bk tk out :
  run_features (c, raw, (p, padn, amp), b, MAmp mask t bk tk) = Ok out ->
  map bf_of_row out = map (burst_fraction_row (barr_bits mask)) (map r_s out).
Proof.
  intro H. unfold run_features in H. rewrite mk_method_amp in H.
  destruct (compute_features_amp_spec _ _ _ _ _ _ _ _ H) as (tab & lab & Htab & _ & Hlen & Hrows).
  cbv zeta in Hrows.
  apply (nth_ext _ _ (bf_of_row frow0) (burst_fraction_row (barr_bits mask) srow0)).
  - rewrite !map_length. reflexivity.
  - intros i Hi. rewrite map_length, Hlen in Hi. rewrite !map_nth.
    change srow0 with (r_s frow0) at 1. rewrite map_nth.
    destruct (Hrows i Hi) as (Hs & _ & Hbf & _).
    unfold bf_of_row. rewrite Hbf, Hs. reflexivity.
Qed.

(* the routing matters in the model: on the periodic example of Proofs/Cycles.v (two rows, both reaching the
   threshold) the burst options' value wins over the thresholds' value, the thresholds' value is used when the
   burst options give none, and 3 when neither does *)
Example routing_example :
  let run bk tk := rmap (map r_is_burst)
    (compute_features Peak ByC.Proofs.Cycles.ex_raw ByC.Proofs.Cycles.ex_k 0
       (Amp ByC.Proofs.Cycles.ex_pos 0.25%float (filter_min_n bk tk))) in
  run (Some 1%Z) (Some 3%Z) = Ok [true; true] /\ run (Some 3%Z) (Some 1%Z) = Ok [false; false] /\
  run None (Some 2%Z) = Ok [true; true] /\ run None None = Ok [false; false] /\ run (Some 2%Z) None = Ok [true; true].
Proof. repeat split; vm_compute; reflexivity. Qed.
