(* The "dummy centre" fallback of flank_mid (C03) is unreachable on a genuine flank:
   strictly ordered finite extrema whose float half-height lies strictly on the near side
   of the far extremum.  Float facts come from Base/FloatFacts.v (Flocq bridge). *)
From Coq Require Import ZArith Reals Lra Lia List Bool Arith.
From Coq Require Import Floats.SpecFloat Floats.PrimFloat Floats.FloatAxioms Floats.FloatOps.
From Flocq Require Import Core.Core IEEE754.BinarySingleNaN IEEE754.PrimFloat.
From ByC Require Import Base.FloatFacts.
Import ListNotations.
From ByC Require Import Base.Result Base.ListAux Model.Zerox.
From ByC Require Proofs.Zerox.
Module PZ := ByC.Proofs.Zerox.
Close Scope R_scope.
Open Scope float_scope.

(* ------------------------------------------------------------------ *)
(* float order facts                                                   *)

Lemma ltb_asym x y : finite x = true -> finite y = true ->
  (x <? y) = true -> (y <? x) = false.
Proof.
  intros Fx Fy Hxy. destruct (y <? x) eqn:E; [exfalso|reflexivity].
  assert (H := ltb_trans x y x Fx Fy Fx Hxy E).
  rewrite ltb_irrefl in H. discriminate.
Qed.

Lemma ltb_leb x y : finite x = true -> finite y = true ->
  (x <? y) = true -> (x <=? y) = true.
Proof.
  intros Fx Fy Hxy. assert (H := ltb_asym x y Fx Fy Hxy).
  rewrite (ltb_total y x Fy Fx) in H. apply negb_false_iff in H. exact H.
Qed.

(* half_sum_between with the arguments in decreasing order (float + is not syntactically
   commutative, so this is proved again through the reals) *)
Lemma half_sum_between_rev x y : finite x = true -> finite y = true ->
  finite (x + y) = true -> (y <=? x) = true ->
  finite ((x + y) / 2) = true /\
  (y <=? (x + y) / 2) = true /\ ((x + y) / 2 <=? x) = true.
Proof.
  intros Fx Fy Fs Hyx.
  rewrite leb_R in Hyx by assumption. revert Hyx.
  case Rle_bool_spec; try easy. intros Hyx _.
  assert (Vs := add_FR_fin x y Fx Fy Fs).
  assert (Hs : (2 * FR y <= FR (x + y) <= 2 * FR x)%R).
  { rewrite Vs. split.
    - rewrite <- (rnd64_id (2 * FR y)).
      + apply rnd64_le. lra.
      + apply format64_double, generic_format_B2R.
    - rewrite <- (rnd64_id (2 * FR x)).
      + apply rnd64_le. lra.
      + apply format64_double, generic_format_B2R. }
  destruct (div_FR_between y x (x + y) 2 Fy Fx Fs finite_two) as (Fq & _ & Hq).
  { rewrite FR_two. lra. }
  { rewrite FR_two. lra. }
  split; [exact Fq|].
  rewrite !leb_R by assumption.
  split; apply Rle_bool_true; apply Hq.
Qed.

(* two floats that compare equal to 0 (either sign of zero) are not strictly ordered;
   no finiteness hypothesis *)
Lemma eqb0_not_ltb x y : (x =? 0) = true -> (y =? 0) = true -> (x <? y) = false.
Proof.
  rewrite !eqb_equiv, ltb_equiv.
  change 0 with zero. rewrite zero_equiv, Prim2B_B2Prim.
  unfold Beqb, SFeqb, Bltb, SFltb.
  destruct (Prim2B x) as [sx|sx| |sx mx ex Hx]; destruct (Prim2B y) as [sy|sy| |sy my ey Hy];
    cbn; intros H1 H2; try reflexivity; try discriminate;
    try (destruct sx; discriminate); try (destruct sy; discriminate).
Qed.

(* ------------------------------------------------------------------ *)
(* all-zero segments                                                   *)

Lemma hd_In_nonempty {A} (l : list A) d : l <> [] -> In (hd d l) l.
Proof. destruct l as [|a l']; [congruence|]. intros _. left. reflexivity. Qed.

Lemma last_In_nonempty {A} (l : list A) d : l <> [] -> In (last l d) l.
Proof.
  intros Hne. destruct (exists_last Hne) as (l' & a & ->).
  rewrite last_last. apply in_or_app. right. left. reflexivity.
Qed.

Lemma all_zero_ends seg : seg <> [] -> all_zero seg = true ->
  (hd 0 seg =? 0) = true /\ (last seg 0 =? 0) = true.
Proof.
  intros Hne Hz. unfold all_zero in Hz. rewrite forallb_forall in Hz. split.
  - apply Hz, hd_In_nonempty, Hne.
  - apply Hz, last_In_nonempty, Hne.
Qed.

Theorem all_zero_not_strict seg : seg <> [] -> all_zero seg = true ->
  (hd 0 seg <? last seg 0) = false /\ (last seg 0 <? hd 0 seg) = false.
Proof.
  intros Hne Hz. destruct (all_zero_ends seg Hne Hz) as (H0 & Hl).
  split; apply eqb0_not_ltb; assumption.
Qed.

Corollary strict_not_all_zero seg : seg <> [] ->
  (hd 0 seg <? last seg 0) = true \/ (last seg 0 <? hd 0 seg) = true ->
  all_zero seg = false.
Proof.
  intros Hne H. destruct (all_zero seg) eqn:Hz; [exfalso|reflexivity].
  destruct (all_zero_not_strict seg Hne Hz) as (H1 & H2).
  destruct H as [H|H]; congruence.
Qed.

(* ------------------------------------------------------------------ *)
(* a genuine flank always has a crossing of its half-height             *)

Theorem rise_flank_has_crossing seg : seg <> [] ->
  let x0 := hd 0 seg in
  let xl := last seg 0 in
  finite x0 = true -> finite xl = true -> finite (x0 + xl) = true ->
  (x0 <? xl) = true -> (((x0 + xl) / 2) <? xl) = true ->
  level_crossings true ((x0 + xl) / 2) 0 seg <> [].
Proof.
  intros Hne x0 xl F0 Fl Fs Hlt Hmid.
  assert (Hle : (x0 <=? xl) = true) by (apply ltb_leb; assumption).
  destruct (half_sum_between x0 xl F0 Fl Fs Hle) as (Fm & Hlo & _).
  apply PZ.level_crossings_exists.
  - exact Hne.
  - cbn [on_start]. exact Hlo.
  - cbn [on_start]. apply ltb_leb_incompat; assumption.
Qed.

Theorem decay_flank_has_crossing seg : seg <> [] ->
  let x0 := hd 0 seg in
  let xl := last seg 0 in
  finite x0 = true -> finite xl = true -> finite (x0 + xl) = true ->
  (xl <? x0) = true -> (((x0 + xl) / 2) <? x0) = true ->
  level_crossings false ((x0 + xl) / 2) 0 seg <> [].
Proof.
  intros Hne x0 xl F0 Fl Fs Hlt Hmid.
  assert (Hle : (xl <=? x0) = true) by (apply ltb_leb; assumption).
  destruct (half_sum_between_rev x0 xl F0 Fl Fs Hle) as (Fm & Hlo & _).
  apply PZ.level_crossings_exists.
  - exact Hne.
  - cbn [on_start]. exact Hmid.
  - change ((((x0 + xl) / 2) <? xl) = false).
    rewrite (ltb_total _ _ Fm Fl). rewrite Hlo. reflexivity.
Qed.

(* both flank kinds at once *)
Theorem flank_has_crossing (rise : bool) seg : seg <> [] ->
  let x0 := hd 0 seg in
  let xl := last seg 0 in
  let mid := (x0 + xl) / 2 in
  finite x0 = true -> finite xl = true -> finite (x0 + xl) = true ->
  (if rise then x0 <? xl else xl <? x0) = true ->
  (if rise then mid <? xl else mid <? x0) = true ->
  level_crossings rise mid 0 seg <> [].
Proof.
  intros Hne x0 xl mid F0 Fl Fs Hlt Hmid. destruct rise.
  - apply rise_flank_has_crossing; assumption.
  - apply decay_flank_has_crossing; assumption.
Qed.

(* ------------------------------------------------------------------ *)
(* consequence for flank_mid: the midpoint is the median crossing       *)

Lemma nth0_hd {A} (l : list A) d : nth 0 l d = hd d l.
Proof. destruct l; reflexivity. Qed.

Theorem flank_mid_genuine (rise : bool) sig s e m :
  (0 <= s <= e)%Z -> (e < Z.of_nat (length sig))%Z ->
  let seg := zslice sig s (e + 1) in
  let x0 := hd 0 seg in
  let xl := last seg 0 in
  let mid := (x0 + xl) / 2 in
  finite x0 = true -> finite xl = true -> finite (x0 + xl) = true ->
  (if rise then x0 <? xl else xl <? x0) = true ->
  (if rise then mid <? xl else mid <? x0) = true ->
  flank_mid rise sig s e = Ok m ->
  m = (s + Z.of_nat (median_floor (level_crossings rise mid 0 seg)))%Z /\
  level_crossings rise mid 0 seg <> [].
Proof.
  intros Hse He seg x0 xl mid F0 Fl Fs Hlt Hmid Hm.
  assert (Hne : seg <> []) by (apply PZ.zslice_nonempty; assumption).
  assert (Hlc : level_crossings rise mid 0 seg <> [])
    by (apply flank_has_crossing; assumption).
  split; [|exact Hlc].
  destruct (PZ.flank_mid_cases rise sig s e m Hm Hse He) as (_ & _ & _ & _ & Hcase).
  cbv zeta in Hcase. rewrite nth0_hd in Hcase.
  apply Hcase.
  - apply strict_not_all_zero; [exact Hne|].
    fold seg x0 xl. destruct rise; [left|right]; exact Hlt.
  - fold seg x0 xl. destruct rise; apply ltb_asym; assumption.
  - exact Hlc.
Qed.

Corollary rise_flank_mid_genuine sig s e m :
  (0 <= s <= e)%Z -> (e < Z.of_nat (length sig))%Z ->
  let seg := zslice sig s (e + 1) in
  let x0 := hd 0 seg in
  let xl := last seg 0 in
  let mid := (x0 + xl) / 2 in
  finite x0 = true -> finite xl = true -> finite (x0 + xl) = true ->
  (x0 <? xl) = true -> (mid <? xl) = true ->
  flank_mid true sig s e = Ok m ->
  m = (s + Z.of_nat (median_floor (level_crossings true mid 0 seg)))%Z /\
  level_crossings true mid 0 seg <> [].
Proof. intros Hse He. exact (flank_mid_genuine true sig s e m Hse He). Qed.

Corollary decay_flank_mid_genuine sig s e m :
  (0 <= s <= e)%Z -> (e < Z.of_nat (length sig))%Z ->
  let seg := zslice sig s (e + 1) in
  let x0 := hd 0 seg in
  let xl := last seg 0 in
  let mid := (x0 + xl) / 2 in
  finite x0 = true -> finite xl = true -> finite (x0 + xl) = true ->
  (xl <? x0) = true -> (mid <? x0) = true ->
  flank_mid false sig s e = Ok m ->
  m = (s + Z.of_nat (median_floor (level_crossings false mid 0 seg)))%Z /\
  level_crossings false mid 0 seg <> [].
Proof. intros Hse He. exact (flank_mid_genuine false sig s e m Hse He). Qed.

(* ------------------------------------------------------------------ *)
(* the fallback IS reachable in the degenerate situations               *)

(* equal extrema, no pair straddles the level: not all-zero, not inverted, no crossing,
   so the dummy centre s + len/2 is returned *)
Example fallback_equal_extrema :
  let seg := [1; 1] in
  all_zero seg = false /\ (last seg 0 <? hd 0 seg) = false /\
  level_crossings true ((hd 0 seg + last seg 0) / 2) 0 seg = [] /\
  flank_mid true seg 0 1 = Ok 1%Z /\
  level_crossings false ((hd 0 seg + last seg 0) / 2) 0 seg = [] /\
  flank_mid false seg 0 1 = Ok 1%Z.
Proof. vm_compute. repeat split; reflexivity. Qed.

(* the strictness hypothesis on the half-height cannot be dropped: for two adjacent
   floats x0 < xl the rounded half-height equals xl, no sample pair straddles it and the
   fallback is taken although the flank is strictly ordered and finite *)
Example fallback_adjacent_floats_rise :
  let seg := [0x1.0000000000001p+0; 0x1.0000000000002p+0] in
  (hd 0 seg <? last seg 0) = true /\
  ((hd 0 seg + last seg 0) / 2 <? last seg 0) = false /\
  level_crossings true ((hd 0 seg + last seg 0) / 2) 0 seg = [] /\
  flank_mid true seg 0 1 = Ok 1%Z.
Proof. vm_compute. repeat split; reflexivity. Qed.

Example fallback_adjacent_floats_decay :
  let seg := [0x1.0000000000002p+0; 0x1.0000000000001p+0] in
  (last seg 0 <? hd 0 seg) = true /\
  ((hd 0 seg + last seg 0) / 2 <? hd 0 seg) = false /\
  level_crossings false ((hd 0 seg + last seg 0) / 2) 0 seg = [] /\
  flank_mid false seg 0 1 = Ok 1%Z.
Proof. vm_compute. repeat split; reflexivity. Qed.

(* and a genuine flank, for non-vacuity of the hypotheses of flank_mid_genuine *)
Example genuine_rise_example :
  let seg := [-1; 0; 2; 3] in
  (hd 0 seg <? last seg 0) = true /\
  ((hd 0 seg + last seg 0) / 2 <? last seg 0) = true /\
  level_crossings true ((hd 0 seg + last seg 0) / 2) 0 seg = [1%nat] /\
  flank_mid true seg 0 3 = Ok 1%Z.
Proof. vm_compute. repeat split; reflexivity. Qed.
