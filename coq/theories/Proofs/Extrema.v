(* Structural theorems about the find_extrema model (C02).
   A: crossings; B: arg-max / arg-min; C: raw extrema = one per closed half-wave;
   D: boundary filter and first-extremum trimming.
   Only the float-order facts of Base/FloatFacts.v are used (via B); everything else is axiom-free. *)
From ByC Require Import Base.FloatFacts.
From Coq Require Import List Bool Arith ZArith Lia Sorted Floats.PrimFloat.
Import ListNotations.
From ByC Require Import Base.Result Base.ListAux Model.Extrema.
Close Scope float_scope.
Close Scope R_scope.
Open Scope nat_scope.

Definition bit (l : list bool) (i : nat) : bool := nth i l false.
(* half-wave of kind k closed by crossings at a (start) and b (end): bits a+1..b are k, bit a and bit b+1 are (negb k) *)
Definition closed_halfwave (p : list bool) (k : bool) (a b : nat) : Prop :=
  a < b /\ S b < length p /\ bit p a = negb k /\ (forall j, a < j <= b -> bit p j = k) /\ bit p (S b) = negb k.
Definition sample (raw : list PrimFloat.float) (i : nat) : PrimFloat.float := nth i raw 0%float.
(* x is the FIRST maximum of raw over the half-open window [a,b) *)
Definition first_argmax (raw : list PrimFloat.float) (a b x : nat) : Prop :=
  a <= x < b /\ (forall j, a <= j < b -> (sample raw x <? sample raw j)%float = false)
             /\ (forall j, a <= j < x -> (sample raw j <? sample raw x)%float = true).
Definition first_argmin (raw : list PrimFloat.float) (a b x : nat) : Prop :=
  a <= x < b /\ (forall j, a <= j < b -> (sample raw j <? sample raw x)%float = false)
             /\ (forall j, a <= j < x -> (sample raw x <? sample raw j)%float = true).
(* p0 < t0 < p1 < t1 < ... ; equal lengths *)
Fixpoint interleaved (ps ts : list Z) : Prop :=
  match ps, ts with
  | [], [] => True
  | p :: ps', t :: ts' => (p < t)%Z /\ (match ps' with [] => True | p' :: _ => (t < p')%Z end) /\ interleaved ps' ts'
  | _, _ => False
  end.

(* ------------------------------------------------------------------------- *)
(* A. Crossings                                                              *)
(* ------------------------------------------------------------------------- *)

Lemma events_in i l e k :
  In (e, k) (events i l) <->
  (i <= e /\ S (e - i) < length l /\ bit l (e - i) = negb k /\ bit l (S (e - i)) = k).
Proof.
  revert i; induction l as [|x t IH]; intros i; cbn [events].
  - split; [intros []|]. cbn. lia.
  - destruct t as [|y t'].
    + split; [intros []|]. cbn [length]. lia.
    + destruct (Bool.eqb x y) eqn:E.
      * rewrite IH. apply eqb_prop in E. subst y. unfold bit. split.
        -- intros (H1 & H2 & H3 & H4). replace (e - i) with (S (e - S i)) by lia.
           cbn [length nth] in *. repeat split; try lia; assumption.
        -- intros (H1 & H2 & H3 & H4).
           destruct (Nat.eq_dec e i) as [->|Hne].
           ++ rewrite Nat.sub_diag in *. cbn [nth] in *. rewrite H3 in H4. destruct k; discriminate.
           ++ replace (e - i) with (S (e - S i)) in * by lia. cbn [length nth] in *.
              repeat split; try lia; assumption.
      * cbn [In]. rewrite IH. apply eqb_false_iff in E. unfold bit. split.
        -- intros [H|(H1 & H2 & H3 & H4)].
           ++ inversion H; subst. rewrite Nat.sub_diag. cbn [length nth]. repeat split; try lia.
              destruct x, k; try reflexivity; congruence.
           ++ replace (e - i) with (S (e - S i)) by lia. cbn [length nth] in *.
              repeat split; try lia; assumption.
        -- intros (H1 & H2 & H3 & H4).
           destruct (Nat.eq_dec e i) as [->|Hne].
           ++ left. rewrite Nat.sub_diag in *. cbn [nth] in *. subst. reflexivity.
           ++ right. replace (e - i) with (S (e - S i)) in * by lia. cbn [length nth] in *.
              repeat split; try lia; assumption.
Qed.

Lemma bit_skipn l n j : bit (skipn n l) j = bit l (n + j).
Proof.
  unfold bit. revert l; induction n as [|n IH]; intros l; cbn [skipn plus]; auto.
  destruct l as [|x t]; cbn [skipn nth].
  - destruct j; reflexivity.
  - apply IH.
Qed.

Lemma events_head i l a k rest :
  events i l = (a, k) :: rest ->
  i <= a /\ (forall j, i <= j <= a -> bit l (j - i) = negb k) /\ bit l (S a - i) = k /\
  rest = events (S a) (skipn (S a - i) l).
Proof.
  revert i; induction l as [|x t IH]; intros i; cbn [events]; [discriminate|].
  destruct t as [|y t']; [discriminate|].
  destruct (Bool.eqb x y) eqn:E.
  - intros H. apply IH in H as (H1 & H2 & H3 & H4). apply eqb_prop in E; subst y.
    split; [lia|]. split; [|split].
    + intros j Hj. destruct (Nat.eq_dec j i) as [->|Hne].
      * rewrite Nat.sub_diag. specialize (H2 (S i) ltac:(lia)).
        replace (S i - S i) with 0 in H2 by lia. unfold bit in *. cbn [nth] in *. exact H2.
      * specialize (H2 j ltac:(lia)). replace (j - i) with (S (j - S i)) by lia.
        unfold bit in *. cbn [nth]. exact H2.
    + replace (S a - i) with (S (S a - S i)) by lia. unfold bit in *. cbn [nth]. exact H3.
    + rewrite H4. replace (S a - i) with (S (S a - S i)) by lia. reflexivity.
  - intros H. inversion H; subst. apply eqb_false_iff in E.
    split; [lia|]. split; [|split].
    + intros j Hj. replace j with a by lia. rewrite Nat.sub_diag. unfold bit; cbn [nth].
      destruct x, k; try reflexivity; congruence.
    + replace (S a - a) with 1 by lia. reflexivity.
    + replace (S a - a) with 1 by lia. reflexivity.
Qed.

(* A2: two adjacent events: opposite kinds, and the bits strictly between are constant *)
Lemma events_adjacent i l a k b k' rest :
  events i l = (a, k) :: (b, k') :: rest ->
  a < b /\ k' = negb k /\ forall j, a < j <= b -> bit l (j - i) = k.
Proof.
  intros H. destruct (events_head _ _ _ _ _ H) as (H1 & H2 & H3 & H4).
  symmetry in H4. destruct (events_head _ _ _ _ _ H4) as (G1 & G2 & G3 & G5).
  assert (Hk : k' = negb k).
  { specialize (G2 (S a) ltac:(lia)). rewrite bit_skipn in G2.
    replace (S a - i + (S a - S a)) with (S a - i) in G2 by lia. rewrite H3 in G2.
    destruct k, k'; try reflexivity; discriminate. }
  split; [lia|]. split; [exact Hk|].
  intros j Hj. specialize (G2 j ltac:(lia)). rewrite bit_skipn in G2.
  replace (S a - i + (j - S a)) with (j - i) in G2 by lia. rewrite G2, Hk. apply negb_involutive.
Qed.

Lemma skipn_skipn_add {A} (l : list A) x y : skipn x (skipn y l) = skipn (y + x) l.
Proof.
  revert l; induction y as [|y IH]; intros l; cbn [skipn plus]; [reflexivity|].
  destruct l as [|h t]; [apply skipn_nil|apply IH].
Qed.

(* every non-empty suffix of the event list is itself an event list *)
Lemma events_suffix i l pre e rest :
  events i l = pre ++ e :: rest ->
  exists i', i <= i' /\ e :: rest = events i' (skipn (i' - i) l).
Proof.
  revert i l; induction pre as [|[a k] pre IH]; intros i l H.
  - exists i. split; [lia|]. rewrite Nat.sub_diag. cbn [skipn app] in *. symmetry; exact H.
  - cbn [app] in H. apply events_head in H as (H1 & _ & _ & H4).
    symmetry in H4. apply IH in H4 as (i' & Hi' & Hs). exists i'. split; [lia|].
    rewrite Hs, skipn_skipn_add. f_equal. f_equal. lia.
Qed.

(* A3 (alternation and bits, anywhere in the list) *)
Lemma events_split_adjacent i l pre a k b k' post :
  events i l = pre ++ (a, k) :: (b, k') :: post ->
  k' = negb k /\ a < b /\ forall j, a < j <= b -> bit l (j - i) = k.
Proof.
  intros H. apply events_suffix in H as (i' & Hi' & Hs). symmetry in Hs.
  destruct (events_head _ _ _ _ _ Hs) as (Ha & _).
  apply events_adjacent in Hs as (H1 & H2 & H3).
  split; [exact H2|]. split; [exact H1|].
  intros j Hj. specialize (H3 j Hj). rewrite bit_skipn in H3.
  replace (i' - i + (j - i')) with (j - i) in H3 by lia. exact H3.
Qed.

Lemma events_alternate i l pre a k b k' post :
  events i l = pre ++ (a, k) :: (b, k') :: post -> k' = negb k /\ a < b.
Proof.
  intros H. apply events_split_adjacent in H as (H1 & H2 & _). split; assumption.
Qed.

(* abstract well-formedness: consecutive events increase and alternate *)
Fixpoint wf_ev (ev : list (nat * bool)) : Prop :=
  match ev with
  | (a, k) :: t => match t with
                   | (b, k') :: _ => a < b /\ k' = negb k /\ wf_ev t
                   | [] => True
                   end
  | [] => True
  end.

Lemma wf_ev_of_split ev :
  (forall pre a k b k' post, ev = pre ++ (a, k) :: (b, k') :: post -> k' = negb k /\ a < b) ->
  wf_ev ev.
Proof.
  induction ev as [|[a k] t IH]; intros H; cbn [wf_ev]; [exact I|].
  destruct t as [|[b k'] t']; [exact I|].
  destruct (H [] a k b k' t' eq_refl) as (H1 & H2).
  split; [exact H2|]. split; [exact H1|].
  apply IH. intros pre a0 k0 b0 k0' post E. apply (H ((a, k) :: pre) a0 k0 b0 k0' post).
  rewrite E. reflexivity.
Qed.

Lemma wf_ev_events i l : wf_ev (events i l).
Proof. apply wf_ev_of_split. intros. eapply events_alternate; eassumption. Qed.

Lemma wf_ev_tl e t : wf_ev (e :: t) -> wf_ev t.
Proof. destruct e as [a k]. cbn [wf_ev]. destruct t as [|[b k'] t']; [intros; exact I|]. intros (_ & _ & H); exact H. Qed.

Lemma wf_ev_sorted ev : wf_ev ev -> StronglySorted (fun x y => fst x < fst y) ev.
Proof.
  induction ev as [|[a k] t IH]; intros H; [constructor|].
  assert (Ht := wf_ev_tl _ _ H). specialize (IH Ht). constructor; [exact IH|].
  destruct t as [|[b k'] t']; [constructor|].
  cbn [wf_ev] in H. destruct H as (Hab & _ & _).
  inversion IH as [|x y Hs Hf]; subst. constructor; [exact Hab|].
  eapply Forall_impl; [|exact Hf]. cbn [fst]. intros; lia.
Qed.

Theorem events_sorted i l : StronglySorted (fun x y => fst x < fst y) (events i l).
Proof. apply wf_ev_sorted, wf_ev_events. Qed.

(* ------------------------------------------------------------------------- *)
(* B. arg-max / arg-min                                                      *)
(* ------------------------------------------------------------------------- *)

Definition allfin (l : list PrimFloat.float) : Prop := Forall (fun v => finite v = true) l.

(* range, no finiteness needed *)
Lemma argbest_range better l i bi bv :
  argbest better l i bi bv = bi \/ i <= argbest better l i bi bv < i + length l.
Proof.
  revert i bi bv; induction l as [|x t IH]; intros i bi bv; cbn [argbest length]; [left; reflexivity|].
  destruct (better x bv).
  - destruct (IH (S i) i x) as [H|H]; right; lia.
  - destruct (IH (S i) bi bv) as [H|H]; [left; exact H|right; lia].
Qed.

(* a strict order on finite floats, abstractly *)
Record strict_on_finite (lt : PrimFloat.float -> PrimFloat.float -> bool) : Prop := {
  sof_irrefl : forall x, lt x x = false;
  sof_trans : forall x y z, finite x = true -> finite y = true -> finite z = true ->
                            lt x y = true -> lt y z = true -> lt x z = true;
  sof_negtrans : forall b y x, finite b = true -> finite y = true -> finite x = true ->
                               lt b y = false -> lt b x = true -> lt y x = true }.

Lemma ltb_negtrans b y x : finite b = true -> finite y = true -> finite x = true ->
  (b <? y)%float = false -> (b <? x)%float = true -> (y <? x)%float = true.
Proof.
  intros Fb Fy Fx H1 H2.
  destruct (y <? x)%float eqn:E; [reflexivity|exfalso].
  rewrite ltb_total in E, H1 by assumption.
  apply negb_false_iff in E. apply negb_false_iff in H1.
  assert (H3 := leb_trans _ _ _ Fx Fy Fb E H1).
  rewrite (ltb_leb_incompat _ _ Fb Fx H2) in H3. discriminate.
Qed.

Lemma sof_ltb : strict_on_finite PrimFloat.ltb.
Proof.
  constructor.
  - apply ltb_irrefl.
  - intros x y z. apply ltb_trans.
  - apply ltb_negtrans.
Qed.

Lemma sof_gtb : strict_on_finite (fun a b => PrimFloat.ltb b a).
Proof.
  constructor.
  - apply ltb_irrefl.
  - intros x y z Fx Fy Fz H1 H2. exact (ltb_trans _ _ _ Fz Fy Fx H2 H1).
  - intros b y x Fb Fy Fx H1 H2.
    destruct (x <? y)%float eqn:E; [reflexivity|exfalso].
    assert (H3 := ltb_negtrans _ _ _ Fx Fy Fb E H2). rewrite H3 in H1. discriminate.
Qed.

Lemma allfin_nth l j : allfin l -> finite (nth j l 0%float) = true.
Proof.
  intros H. destruct (Nat.lt_ge_cases j (length l)) as [Hj|Hj].
  - unfold allfin in H. rewrite Forall_forall in H. apply H, nth_In, Hj.
  - rewrite nth_overflow by exact Hj. reflexivity.
Qed.

(* Invariant for argbest: bv = w[bi], bi < i, bv is a strict upper bound of everything
   before bi and a weak upper bound of everything in [bi, i). *)
Lemma argbest_spec lt (S0 : strict_on_finite lt) pre l i bi bv :
  allfin (pre ++ l) -> length pre = i -> bi < i ->
  bv = nth bi (pre ++ l) 0%float ->
  (forall j, j < bi -> lt (nth j (pre ++ l) 0%float) bv = true) ->
  (forall j, bi <= j < i -> lt bv (nth j (pre ++ l) 0%float) = false) ->
  let r := argbest (fun x b => lt b x) l i bi bv in
  r < length (pre ++ l) /\
  (forall j, j < length (pre ++ l) -> lt (nth r (pre ++ l) 0%float) (nth j (pre ++ l) 0%float) = false) /\
  (forall j, j < r -> lt (nth j (pre ++ l) 0%float) (nth r (pre ++ l) 0%float) = true).
Proof.
  revert pre i bi bv; induction l as [|x t IH]; intros pre i bi bv Hfin Hlen Hbi Hbv Hlo Hhi; cbn [argbest].
  - cbv zeta. rewrite app_nil_r in *. rewrite <- Hbv. split; [lia|]. split.
    + intros j Hj. destruct (Nat.lt_ge_cases j bi) as [Hjb|Hjb].
      * destruct (lt bv (nth j pre 0%float)) eqn:E; [|reflexivity].
        assert (Fb : finite bv = true) by (rewrite Hbv; apply allfin_nth, Hfin).
        assert (Fj := allfin_nth pre j Hfin).
        assert (H := sof_trans _ S0 _ _ _ Fb Fj Fb E (Hlo j Hjb)).
        rewrite (sof_irrefl _ S0) in H. discriminate.
      * apply Hhi. lia.
    + exact Hlo.
  - assert (Ew : pre ++ x :: t = (pre ++ [x]) ++ t) by (rewrite <- app_assoc; reflexivity).
    assert (Ei : nth i (pre ++ x :: t) 0%float = x).
    { rewrite app_nth2 by lia. replace (i - length pre) with 0 by lia. reflexivity. }
    assert (Fb : finite bv = true) by (rewrite Hbv; apply allfin_nth, Hfin).
    assert (Fx : finite x = true) by (rewrite <- Ei; apply allfin_nth, Hfin).
    destruct (lt bv x) eqn:E.
    + rewrite Ew in *. apply IH; try assumption.
      * rewrite app_length; cbn [length]; lia.
      * lia.
      * symmetry; exact Ei.
      * intros j Hj. assert (Fj := allfin_nth _ j Hfin).
        destruct (Nat.lt_ge_cases j bi) as [Hjb|Hjb].
        -- exact (sof_trans _ S0 _ _ _ Fj Fb Fx (Hlo j Hjb) E).
        -- exact (sof_negtrans _ S0 _ _ _ Fb Fj Fx (Hhi j ltac:(lia)) E).
      * intros j Hj. replace j with i by lia. rewrite Ei. apply (sof_irrefl _ S0).
    + rewrite Ew in *. apply IH; try assumption.
      * rewrite app_length; cbn [length]; lia.
      * lia.
      * intros j Hj. destruct (Nat.eq_dec j i) as [->|Hne]; [rewrite Ei; exact E|apply Hhi; lia].
Qed.

Lemma argfirst_spec lt (S0 : strict_on_finite lt) x t :
  allfin (x :: t) ->
  let r := argbest (fun x b => lt b x) t 1 0 x in
  r < length (x :: t) /\
  (forall j, j < length (x :: t) -> lt (nth r (x :: t) 0%float) (nth j (x :: t) 0%float) = false) /\
  (forall j, j < r -> lt (nth j (x :: t) 0%float) (nth r (x :: t) 0%float) = true).
Proof.
  intros Hfin. apply (argbest_spec lt S0 [x] t 1 0 x); try assumption; try reflexivity; try lia.
  intros j Hj. replace j with 0 by lia. apply (sof_irrefl _ S0).
Qed.

Theorem argmax_first_spec l k : allfin l -> argmax_first l = Some k ->
  k < length l /\
  (forall j, j < length l -> (nth k l 0 <? nth j l 0)%float = false) /\
  (forall j, j < k -> (nth j l 0 <? nth k l 0)%float = true).
Proof.
  intros Hfin. destruct l as [|x t]; [discriminate|]. unfold argmax_first. intros H; inversion H; subst k; clear H.
  exact (argfirst_spec _ sof_ltb x t Hfin).
Qed.

Theorem argmin_first_spec l k : allfin l -> argmin_first l = Some k ->
  k < length l /\
  (forall j, j < length l -> (nth j l 0 <? nth k l 0)%float = false) /\
  (forall j, j < k -> (nth k l 0 <? nth j l 0)%float = true).
Proof.
  intros Hfin. destruct l as [|x t]; [discriminate|]. unfold argmin_first. intros H; inversion H; subst k; clear H.
  exact (argfirst_spec _ sof_gtb x t Hfin).
Qed.

Theorem argmax_first_none l : argmax_first l = None <-> l = [].
Proof. destruct l; cbn; split; congruence. Qed.
Theorem argmin_first_none l : argmin_first l = None <-> l = [].
Proof. destruct l; cbn; split; congruence. Qed.

(* range of the result, without finiteness *)
Lemma argmax_first_range l k : argmax_first l = Some k -> k < length l.
Proof.
  destruct l as [|x t]; [discriminate|]. unfold argmax_first. intros H; inversion H; clear H.
  destruct (argbest_range (fun x b => (b <? x)%float) t 1 0 x) as [E|E]; cbn [length]; lia.
Qed.
Lemma argmin_first_range l k : argmin_first l = Some k -> k < length l.
Proof.
  destruct l as [|x t]; [discriminate|]. unfold argmin_first. intros H; inversion H; clear H.
  destruct (argbest_range (fun x b => (x <? b)%float) t 1 0 x) as [E|E]; cbn [length]; lia.
Qed.

(* ------------------------------------------------------------------------- *)
(* C. Raw extrema = one per closed half-wave                                 *)
(* ------------------------------------------------------------------------- *)

(* generic list facts *)
Lemma filter_map_comm {A B} (g : A -> B) (p : B -> bool) l :
  filter p (map g l) = map g (filter (fun x => p (g x)) l).
Proof.
  induction l as [|x t IH]; cbn [map filter]; [reflexivity|].
  destruct (p (g x)); cbn [map]; rewrite IH; reflexivity.
Qed.

Lemma mapM_ok_map {A B} (f : A -> result B) (g : A -> B) l :
  (forall x, In x l -> f x = Ok (g x)) -> mapM f l = Ok (map g l).
Proof.
  induction l as [|x t IH]; intros H; cbn [mapM map]; [reflexivity|].
  rewrite (H x (or_introl eq_refl)), IH; [reflexivity|].
  intros y Hy. apply H. right; exact Hy.
Qed.

Lemma find_app_skip {A} (f : A -> bool) l1 l2 :
  (forall x, In x l1 -> f x = false) -> find f (l1 ++ l2) = find f l2.
Proof.
  induction l1 as [|x t IH]; intros H; cbn [app find]; [reflexivity|].
  rewrite (H x (or_introl eq_refl)). apply IH. intros y Hy. apply H. right; exact Hy.
Qed.

Lemma ssorted_app_lt {A} (R : A -> A -> Prop) l1 l2 :
  StronglySorted R (l1 ++ l2) -> forall x y, In x l1 -> In y l2 -> R x y.
Proof.
  induction l1 as [|h t IH]; intros H x y Hx Hy; [destruct Hx|].
  cbn [app] in H. inversion H as [|? ? Hs Hf]; subst.
  destruct Hx as [->|Hx].
  - rewrite Forall_forall in Hf. apply Hf, in_or_app. right; exact Hy.
  - exact (IH Hs x y Hx Hy).
Qed.

Lemma ssorted_app_r {A} (R : A -> A -> Prop) l1 l2 :
  StronglySorted R (l1 ++ l2) -> StronglySorted R l2.
Proof.
  induction l1 as [|h t IH]; intros H; [exact H|].
  cbn [app] in H. inversion H; subst. apply IH; assumption.
Qed.

Lemma slice_length {A} (l : list A) a b : b <= length l -> length (slice l a b) = b - a.
Proof. intros H. unfold slice. rewrite firstn_length, skipn_length. lia. Qed.

Lemma nth_firstn_lt {A} (l : list A) n j d : j < n -> nth j (firstn n l) d = nth j l d.
Proof.
  revert l j; induction n as [|n IH]; intros l j H; [lia|].
  destruct l as [|x t]; [reflexivity|]. cbn [firstn]. destruct j as [|j]; [reflexivity|].
  cbn [nth]. apply IH. lia.
Qed.

Lemma nth_skipn_add {A} (l : list A) a j d : nth j (skipn a l) d = nth (a + j) l d.
Proof.
  revert l; induction a as [|a IH]; intros l; [reflexivity|].
  destruct l as [|x t]; [destruct j; reflexivity|]. cbn [skipn plus nth]. apply IH.
Qed.

Lemma nth_slice {A} (l : list A) a b j d : j < b - a -> nth j (slice l a b) d = nth (a + j) l d.
Proof.
  intros H. unfold slice. rewrite nth_firstn_lt by exact H. apply nth_skipn_add.
Qed.

(* selection by kind *)
Definition sel {A} (k : bool) (ev : list (A * bool)) : list A :=
  map fst (filter (fun e => Bool.eqb (snd e) k) ev).

Lemma rises_of_sel ev : rises_of ev = sel true ev.
Proof. unfold rises_of, sel. f_equal. apply filter_ext. intros [a []]; reflexivity. Qed.
Lemma decays_of_sel ev : decays_of ev = sel false ev.
Proof. unfold decays_of, sel. f_equal. Qed.

Lemma sel_app {A} k (l1 l2 : list (A * bool)) : sel k (l1 ++ l2) = sel k l1 ++ sel k l2.
Proof. unfold sel. rewrite filter_app, map_app. reflexivity. Qed.

Lemma sel_In {A} k (l : list (A * bool)) x : In x (sel k l) <-> In (x, k) l.
Proof.
  unfold sel. rewrite in_map_iff. split.
  - intros ([y k'] & E & H). apply filter_In in H as (H1 & H2). cbn [fst snd] in *.
    apply eqb_prop in H2. subst. exact H1.
  - intros H. exists (x, k). split; [reflexivity|]. apply filter_In. split; [exact H|].
    cbn [snd]. apply eqb_reflx.
Qed.

Lemma sel_cons_same {A} k (a : A) l : sel k ((a, k) :: l) = a :: sel k l.
Proof. unfold sel. cbn [filter snd]. rewrite eqb_reflx. reflexivity. Qed.
Lemma sel_cons_other {A} k (a : A) l : sel (negb k) ((a, k) :: l) = sel (negb k) l.
Proof. unfold sel. cbn [filter snd]. destruct k; reflexivity. Qed.
Lemma sel_cons_other' {A} k (a : A) l : sel k ((a, negb k) :: l) = sel k l.
Proof. unfold sel. cbn [filter snd]. destruct k; reflexivity. Qed.

(* half-waves = consecutive pairs of events: (start, kind, end) *)
Fixpoint pairs (ev : list (nat * bool)) : list (nat * bool * nat) :=
  match ev with
  | (a, k) :: t => match t with
                   | (b, _) :: _ => (a, k, b) :: pairs t
                   | [] => []
                   end
  | [] => []
  end.

Definition hk (h : nat * bool * nat) : bool := snd (fst h).
Definition hstart (h : nat * bool * nat) : nat := fst (fst h).

Lemma pairs_in ev a k b :
  In (a, k, b) (pairs ev) <-> exists pre k' post, ev = pre ++ (a, k) :: (b, k') :: post.
Proof.
  induction ev as [|[a0 k0] t IH]; cbn [pairs].
  - split; [intros []|]. intros (pre & k' & post & E). destruct pre; discriminate.
  - destruct t as [|[b0 k0'] t'].
    + split; [intros []|]. intros (pre & k' & post & E).
      destruct pre as [|? [|? ?]]; discriminate.
    + cbn [In]. rewrite IH. split.
      * intros [E|(pre & k' & post & E)].
        -- inversion E; subst. exists [], k0', t'. reflexivity.
        -- exists ((a0, k0) :: pre), k', post. rewrite E. reflexivity.
      * intros (pre & k' & post & E). destruct pre as [|e pre].
        -- left. inversion E; subst. reflexivity.
        -- right. exists pre, k', post. inversion E. reflexivity.
Qed.

Lemma pairs_removelast ev :
  map (fun h => (hstart h, hk h)) (pairs ev) = removelast ev.
Proof.
  induction ev as [|[a k] t IH]; [reflexivity|].
  destruct t as [|[b k'] t']; [reflexivity|].
  change (pairs ((a, k) :: (b, k') :: t')) with ((a, k, b) :: pairs ((b, k') :: t')).
  change (removelast ((a, k) :: (b, k') :: t')) with ((a, k) :: removelast ((b, k') :: t')).
  cbn [map]. rewrite IH. reflexivity.
Qed.

Lemma sel_removelast_pairs k ev :
  sel k (removelast ev) = map hstart (filter (fun h => Bool.eqb (hk h) k) (pairs ev)).
Proof.
  rewrite <- pairs_removelast. unfold sel. rewrite filter_map_comm, map_map. reflexivity.
Qed.

(* the count rule n_peaks / n_troughs drops exactly the last crossing *)
Lemma last_In_nonempty {A} (l : list A) d : l <> [] -> In (last l d) l.
Proof.
  intros H. destruct (exists_last H) as (l' & x & ->). rewrite last_last. apply in_or_app. right; left; reflexivity.
Qed.

Lemma firstn_counts ev :
  wf_ev ev -> sel true ev <> [] -> sel false ev <> [] ->
  let rises := sel true ev in
  let decays := sel false ev in
  let '(np, nt) := if Nat.ltb (last decays 0) (last rises 0)
                   then (length rises - 1, length decays)
                   else (length rises, length decays - 1) in
  firstn np rises = sel true (removelast ev) /\ firstn nt decays = sel false (removelast ev).
Proof.
  intros Hwf Hr Hd. cbv zeta.
  assert (Hne : ev <> []) by (intros ->; apply Hr; reflexivity).
  destruct (exists_last Hne) as (ev' & [c kc] & E). subst ev.
  rewrite removelast_last.
  assert (Hs := wf_ev_sorted _ Hwf).
  assert (Hlt : forall x k, In (x, k) ev' -> x < c).
  { intros x k Hx. apply (ssorted_app_lt _ _ _ Hs (x, k) (c, kc) Hx). left; reflexivity. }
  rewrite !sel_app in *.
  destruct kc.
  - change (sel true [(c, true)]) with [c] in *. change (sel false [(c, true)]) with (@nil nat) in *.
    rewrite app_nil_r in *. rewrite last_last.
    assert (Hl : last (sel false ev') 0 < c).
    { apply (Hlt _ false). apply sel_In. apply last_In_nonempty. exact Hd. }
    apply Nat.ltb_lt in Hl. rewrite Hl. rewrite app_length. cbn [length].
    replace (length (sel true ev') + 1 - 1) with (length (sel true ev') + 0) by lia.
    rewrite firstn_app_2, firstn_all. cbn [firstn]. rewrite app_nil_r. split; reflexivity.
  - change (sel false [(c, false)]) with [c] in *. change (sel true [(c, false)]) with (@nil nat) in *.
    rewrite app_nil_r in *. rewrite last_last.
    assert (Hl : last (sel true ev') 0 < c).
    { apply (Hlt _ true). apply sel_In. apply last_In_nonempty. exact Hr. }
    assert (Hl' : (c <? last (sel true ev') 0) = false) by (apply Nat.ltb_ge; lia).
    rewrite Hl'. rewrite app_length. cbn [length].
    replace (length (sel false ev') + 1 - 1) with (length (sel false ev') + 0) by lia.
    rewrite firstn_app_2, firstn_all. cbn [firstn]. rewrite app_nil_r. split; reflexivity.
Qed.

(* the pairing "first crossing of the other kind after a" selects the next crossing *)
Lemma find_other ev pre a k b k' post :
  wf_ev ev -> ev = pre ++ (a, k) :: (b, k') :: post ->
  find (fun d => Nat.ltb a d) (sel (negb k) ev) = Some b.
Proof.
  intros Hwf E. assert (Hs := wf_ev_sorted _ Hwf). rewrite E in *.
  assert (Hk : k' = negb k /\ a < b).
  { clear Hs. revert Hwf. clear E. induction pre as [|e pre IH]; intros Hwf.
    - cbn [app wf_ev] in Hwf. destruct Hwf as (H1 & H2 & _). split; assumption.
    - apply IH. exact (wf_ev_tl _ _ Hwf). }
  destruct Hk as (-> & Hab).
  rewrite sel_app, find_app_skip.
  - rewrite sel_cons_other, sel_cons_same. cbn [find].
    apply Nat.ltb_lt in Hab. rewrite Hab. reflexivity.
  - intros x Hx. apply sel_In in Hx. apply Nat.ltb_ge.
    assert (H := ssorted_app_lt _ _ _ Hs (x, negb k) (a, k) Hx (or_introl eq_refl)). cbn [fst] in H. lia.
Qed.

Definition argk (k : bool) : list PrimFloat.float -> option nat :=
  if k then argmax_first else argmin_first.

(* position of the extremum of half-wave h (total function) *)
Definition xof (sigp : list PrimFloat.float) (h : nat * bool * nat) : nat :=
  let '(a, k, b) := h in
  a + match argk k (slice sigp a b) with Some j => j | None => 0 end.

Lemma argk_some k l : l <> [] -> exists j, argk k l = Some j /\ j < length l.
Proof.
  intros H. destruct l as [|x t]; [congruence|].
  destruct k; cbn [argk].
  - destruct (argmax_first (x :: t)) eqn:E; [|discriminate]. eexists; split; [reflexivity|]. apply argmax_first_range, E.
  - destruct (argmin_first (x :: t)) eqn:E; [|discriminate]. eexists; split; [reflexivity|]. apply argmin_first_range, E.
Qed.

Lemma pairs_bounds pos a k b :
  In (a, k, b) (pairs (events 0 pos)) -> a < b /\ S b < length pos.
Proof.
  intros H. apply pairs_in in H as (pre & k' & post & E).
  destruct (events_alternate _ _ _ _ _ _ _ _ E) as (_ & Hab). split; [exact Hab|].
  assert (Hin : In (b, k') (events 0 pos)).
  { rewrite E. apply in_or_app. right. right. left. reflexivity. }
  apply events_in in Hin as (_ & H2 & _). rewrite Nat.sub_0_r in H2. exact H2.
Qed.

Lemma xof_range pos sigp a k b :
  length sigp = length pos -> In (a, k, b) (pairs (events 0 pos)) ->
  exists j, argk k (slice sigp a b) = Some j /\ j < b - a /\ xof sigp (a, k, b) = a + j.
Proof.
  intros Hlen Hin. destruct (pairs_bounds _ _ _ _ Hin) as (Hab & Hb).
  assert (Hsl : length (slice sigp a b) = b - a) by (apply slice_length; lia).
  destruct (argk_some k (slice sigp a b)) as (j & Hj & Hjl).
  { intros E. rewrite E in Hsl. cbn [length] in Hsl. lia. }
  exists j. split; [exact Hj|]. split; [lia|]. unfold xof. rewrite Hj. reflexivity.
Qed.

Lemma extremum_after_pairs pos sigp a k b :
  length sigp = length pos -> In (a, k, b) (pairs (events 0 pos)) ->
  extremum_after (argk k) sigp (sel (negb k) (events 0 pos)) a = Ok (xof sigp (a, k, b)).
Proof.
  intros Hlen Hin. destruct (xof_range _ _ _ _ _ Hlen Hin) as (j & Hj & _ & Hx).
  apply pairs_in in Hin as (pre & k' & post & E).
  unfold extremum_after. rewrite (find_other _ _ _ _ _ _ _ (wf_ev_events 0 pos) E).
  rewrite Hj, Hx. reflexivity.
Qed.

Definition raw_body (rises decays : list nat) (sigp : list PrimFloat.float) : result (list nat * list nat) :=
  let '(np, nt) := if Nat.ltb (last decays 0) (last rises 0)
                   then (length rises - 1, length decays)
                   else (length rises, length decays - 1) in
  do peaks <- mapM (extremum_after argmax_first sigp decays) (firstn np rises);
  do troughs <- mapM (extremum_after argmin_first sigp rises) (firstn nt decays);
  Ok (peaks, troughs).

Lemma raw_extrema_unfold pos sigp :
  rises_of (events 0 pos) <> [] -> decays_of (events 0 pos) <> [] ->
  raw_extrema pos sigp = raw_body (rises_of (events 0 pos)) (decays_of (events 0 pos)) sigp.
Proof.
  intros Hr Hd. unfold raw_extrema, raw_body. cbv zeta.
  destruct (rises_of (events 0 pos)); [congruence|].
  destruct (decays_of (events 0 pos)); [congruence|]. reflexivity.
Qed.

Definition hw_peaks (pos : list bool) (sigp : list PrimFloat.float) : list nat :=
  map (xof sigp) (filter (fun h => Bool.eqb (hk h) true) (pairs (events 0 pos))).
Definition hw_troughs (pos : list bool) (sigp : list PrimFloat.float) : list nat :=
  map (xof sigp) (filter (fun h => Bool.eqb (hk h) false) (pairs (events 0 pos))).

Lemma mapM_map {A B C} (f : B -> result C) (g : A -> B) l : mapM f (map g l) = mapM (fun x => f (g x)) l.
Proof. induction l as [|x t IH]; cbn [map mapM]; [reflexivity|]. rewrite IH. reflexivity. Qed.

Lemma mapM_halfwaves pos sigp k :
  length sigp = length pos ->
  mapM (extremum_after (argk k) sigp (sel (negb k) (events 0 pos)))
       (map hstart (filter (fun h => Bool.eqb (hk h) k) (pairs (events 0 pos))))
  = Ok (map (xof sigp) (filter (fun h => Bool.eqb (hk h) k) (pairs (events 0 pos)))).
Proof.
  intros Hlen. rewrite mapM_map. apply mapM_ok_map.
  intros [[a k0] b] Hin. apply filter_In in Hin as (Hin & Hk).
  unfold hk in Hk. cbn [fst snd] in Hk. apply eqb_prop in Hk. subst k0.
  unfold hstart. cbn [fst]. apply extremum_after_pairs; assumption.
Qed.

(* the code's result, in closed form *)
Theorem raw_extrema_eq pos sigp :
  length sigp = length pos ->
  rises_of (events 0 pos) <> [] -> decays_of (events 0 pos) <> [] ->
  raw_extrema pos sigp = Ok (hw_peaks pos sigp, hw_troughs pos sigp).
Proof.
  intros Hlen Hr Hd. rewrite raw_extrema_unfold by assumption.
  rewrite rises_of_sel, decays_of_sel in *. unfold raw_body.
  assert (H := firstn_counts _ (wf_ev_events 0 pos) Hr Hd). cbv zeta in H.
  assert (Hp := mapM_halfwaves pos sigp true Hlen).
  assert (Ht := mapM_halfwaves pos sigp false Hlen).
  cbn [argk negb] in Hp, Ht.
  destruct (Nat.ltb (last (sel false (events 0 pos)) 0) (last (sel true (events 0 pos)) 0));
    destruct H as (H1 & H2); rewrite H1, H2, !sel_removelast_pairs, Hp; cbn [bind]; rewrite Ht; reflexivity.
Qed.

(* C1 *)
Theorem raw_extrema_total pos sigp :
  length sigp = length pos ->
  rises_of (events 0 pos) <> [] -> decays_of (events 0 pos) <> [] ->
  exists r, raw_extrema pos sigp = Ok r.
Proof. intros. eexists. apply raw_extrema_eq; assumption. Qed.

Lemma raw_extrema_ok_inv pos sigp peaks troughs :
  raw_extrema pos sigp = Ok (peaks, troughs) -> length sigp = length pos ->
  peaks = hw_peaks pos sigp /\ troughs = hw_troughs pos sigp.
Proof.
  intros H Hlen.
  destruct (rises_of (events 0 pos)) as [|r rs] eqn:Er.
  { unfold raw_extrema in H. cbv zeta in H. rewrite Er in H. discriminate. }
  destruct (decays_of (events 0 pos)) as [|d ds] eqn:Ed.
  { unfold raw_extrema in H. cbv zeta in H. rewrite Er, Ed in H. discriminate. }
  rewrite raw_extrema_eq in H; [|exact Hlen|rewrite Er; discriminate|rewrite Ed; discriminate].
  inversion H. split; reflexivity.
Qed.

(* the merged, position-ordered list of extrema: (position, is_peak) *)
Definition merged (pos : list bool) (sigp : list PrimFloat.float) : list (nat * bool) :=
  map (fun h => (xof sigp h, hk h)) (pairs (events 0 pos)).

Lemma wf_map_pairs ev (f : nat * bool * nat -> nat) :
  wf_ev ev -> (forall a k b, In (a, k, b) (pairs ev) -> a <= f (a, k, b) < b) ->
  wf_ev (map (fun h => (f h, hk h)) (pairs ev)).
Proof.
  induction ev as [|[a k] t IH]; intros Hwf Hb; [exact I|].
  destruct t as [|[b k'] t']; [exact I|].
  assert (IH' := IH (wf_ev_tl _ _ Hwf)). clear IH.
  change (pairs ((a, k) :: (b, k') :: t')) with ((a, k, b) :: pairs ((b, k') :: t')) in *.
  cbn [map].
  assert (IH := IH' (fun a0 k0 b0 H0 => Hb a0 k0 b0 (or_intror H0))). clear IH'.
  destruct t' as [|[c k''] t'']; [exact I|].
  change (pairs ((b, k') :: (c, k'') :: t'')) with ((b, k', c) :: pairs ((c, k'') :: t'')) in *.
  cbn [map] in *. cbn [wf_ev]. 
  destruct Hwf as (_ & Hk & _).
  assert (H1 := Hb a k b (or_introl eq_refl)).
  assert (H2 := Hb b k' c (or_intror (or_introl eq_refl))).
  split; [lia|]. split; [exact Hk|]. exact IH.
Qed.

Lemma merged_wf pos sigp : length sigp = length pos -> wf_ev (merged pos sigp).
Proof.
  intros Hlen. unfold merged. apply wf_map_pairs; [apply wf_ev_events|].
  intros a k b Hin. destruct (xof_range _ _ _ _ _ Hlen Hin) as (j & _ & Hj & ->). lia.
Qed.

Lemma merged_sel pos sigp k :
  sel k (merged pos sigp) = map (xof sigp) (filter (fun h => Bool.eqb (hk h) k) (pairs (events 0 pos))).
Proof. unfold sel, merged. rewrite filter_map_comm, map_map. reflexivity. Qed.

Lemma sel_true_filter {A} (m : list (A * bool)) : map fst (filter snd m) = sel true m.
Proof. unfold sel. f_equal. apply filter_ext. intros [a []]; reflexivity. Qed.
Lemma sel_false_filter {A} (m : list (A * bool)) : map fst (filter (fun e => negb (snd e)) m) = sel false m.
Proof. unfold sel. f_equal. Qed.

Lemma ssorted_map_filter {A B} (R : B -> B -> Prop) (g : A -> B) (p : A -> bool) l :
  StronglySorted (fun x y => R (g x) (g y)) l -> StronglySorted R (map g (filter p l)).
Proof.
  induction 1 as [|x t Hs IH Hf]; cbn [filter map]; [constructor|].
  destruct (p x); [|exact IH]. cbn [map]. constructor; [exact IH|].
  rewrite Forall_forall in *. intros y Hy. apply in_map_iff in Hy as (z & <- & Hz).
  apply filter_In in Hz as (Hz & _). apply Hf, Hz.
Qed.

Lemma wf_sel_sorted k m : wf_ev m -> StronglySorted lt (sel k m).
Proof. intros H. unfold sel. apply ssorted_map_filter. apply wf_ev_sorted, H. Qed.

(* C4 *)
Theorem raw_extrema_alternate pos sigp peaks troughs :
  raw_extrema pos sigp = Ok (peaks, troughs) -> length sigp = length pos ->
  StronglySorted lt peaks /\ StronglySorted lt troughs /\
  exists m : list (nat * bool),
    wf_ev m /\  (* consecutive entries: strictly increasing positions, opposite kinds *)
    peaks = map fst (filter snd m) /\
    troughs = map fst (filter (fun e => negb (snd e)) m).
Proof.
  intros H Hlen. destruct (raw_extrema_ok_inv _ _ _ _ H Hlen) as (-> & ->).
  assert (Hwf := merged_wf pos sigp Hlen).
  unfold hw_peaks, hw_troughs. rewrite <- !merged_sel.
  split; [apply wf_sel_sorted, Hwf|]. split; [apply wf_sel_sorted, Hwf|].
  exists (merged pos sigp). split; [exact Hwf|].
  rewrite sel_true_filter, sel_false_filter. split; reflexivity.
Qed.

(* wf_ev, spelled out *)
Lemma wf_ev_split ev pre a k b k' post :
  wf_ev ev -> ev = pre ++ (a, k) :: (b, k') :: post -> k' = negb k /\ a < b.
Proof.
  intros Hwf ->. induction pre as [|e pre IH].
  - cbn [app wf_ev] in Hwf. destruct Hwf as (H1 & H2 & _). split; assumption.
  - apply IH. exact (wf_ev_tl _ _ Hwf).
Qed.

(* ------------------------------------------------------------------------- *)
(* D. Boundary filter and first-extremum trimming                            *)
(* ------------------------------------------------------------------------- *)

Definition in_bounds (n b z : Z) : bool := ((b <? z) && (z <? n - b))%Z.
Definition shift (padn : nat) (x : nat) : Z := (Z.of_nat x - Z.of_nat padn)%Z.

Lemma unpad_filter_alt padn n b xs :
  unpad_filter padn n b xs = filter (in_bounds n b) (map (shift padn) xs).
Proof. reflexivity. Qed.

Lemma in_bounds_spec n b z : in_bounds n b z = true <-> (b < z < n - b)%Z.
Proof. unfold in_bounds. rewrite andb_true_iff, !Z.ltb_lt. reflexivity. Qed.

(* D1 *)
Theorem unpad_filter_In padn n b xs z :
  In z (unpad_filter padn n b xs) <->
  exists x, In x xs /\ z = (Z.of_nat x - Z.of_nat padn)%Z /\ (b < z < n - b)%Z.
Proof.
  rewrite unpad_filter_alt, filter_In, in_map_iff, in_bounds_spec. unfold shift. split.
  - intros ((x & E & Hx) & Hb). exists x. split; [exact Hx|]. split; [symmetry; exact E|exact Hb].
  - intros (x & Hx & E & Hb). split; [|exact Hb]. exists x. split; [symmetry; exact E|exact Hx].
Qed.

Lemma ssorted_impl {A} (R1 R2 : A -> A -> Prop) l :
  (forall x y, R1 x y -> R2 x y) -> StronglySorted R1 l -> StronglySorted R2 l.
Proof.
  intros HR. induction 1 as [|x t Hs IH Hf]; constructor; [exact IH|].
  eapply Forall_impl; [|exact Hf]. intros y. apply HR.
Qed.

Theorem unpad_filter_sorted padn n b xs :
  StronglySorted lt xs -> StronglySorted Z.lt (unpad_filter padn n b xs).
Proof.
  intros H. rewrite unpad_filter_alt, filter_map_comm. apply ssorted_map_filter.
  eapply ssorted_impl; [|exact H]. intros x y Hxy. unfold shift. lia.
Qed.

(* merged lists over Z *)
Fixpoint wfz (m : list (Z * bool)) : Prop :=
  match m with
  | (a, k) :: t => match t with
                   | (b, k') :: _ => (a < b)%Z /\ k' = negb k /\ wfz t
                   | [] => True
                   end
  | [] => True
  end.

Lemma wfz_tl e t : wfz (e :: t) -> wfz t.
Proof. destruct e as [a k]. cbn [wfz]. destruct t as [|[b k'] t']; [intros; exact I|]. intros (_ & _ & H); exact H. Qed.

Lemma wfz_lt a k t : wfz ((a, k) :: t) -> forall e, In e t -> (a < fst e)%Z.
Proof.
  revert a k; induction t as [|[b k'] t' IH]; intros a k H e He; [destruct He|].
  cbn [wfz] in H. destruct H as (Hab & _ & Ht). destruct He as [<-|He]; [exact Hab|].
  specialize (IH b k' Ht e He). lia.
Qed.

Definition mshift (padn : nat) (m : list (nat * bool)) : list (Z * bool) :=
  map (fun e => (shift padn (fst e), snd e)) m.
Definition mfilter (n b : Z) (m : list (Z * bool)) : list (Z * bool) :=
  filter (fun e => in_bounds n b (fst e)) m.

Lemma wfz_mshift padn m : wf_ev m -> wfz (mshift padn m).
Proof.
  induction m as [|[a k] t IH]; intros H; [exact I|].
  specialize (IH (wf_ev_tl _ _ H)).
  destruct t as [|[c k'] t']; [exact I|].
  cbn [wf_ev] in H. destruct H as (Hac & Hk & _).
  unfold mshift in *. cbn [map fst snd] in *. cbn [wfz]. split; [unfold shift; lia|]. split; [exact Hk|exact IH].
Qed.

Lemma filter_all_false {A} (p : A -> bool) l : (forall x, In x l -> p x = false) -> filter p l = [].
Proof.
  induction l as [|x t IH]; intros H; [reflexivity|]. cbn [filter].
  rewrite (H x (or_introl eq_refl)). apply IH. intros y Hy. apply H. right; exact Hy.
Qed.

(* the boundary filter keeps a contiguous stretch, hence alternation *)
Lemma wfz_mfilter n b m : wfz m -> wfz (mfilter n b m).
Proof.
  induction m as [|[a k] t IH]; intros H; [exact I|].
  specialize (IH (wfz_tl _ _ H)). unfold mfilter in *. cbn [filter fst].
  destruct (in_bounds n b a) eqn:Ea; [|exact IH].
  destruct t as [|[c k'] t']; [exact I|].
  cbn [filter fst] in *. destruct (in_bounds n b c) eqn:Ec.
  - cbn [wfz] in H |- *. destruct H as (Hac & Hk & _). split; [exact Hac|]. split; [exact Hk|exact IH].
  - rewrite filter_all_false; [exact I|].
    intros [z kz] Hz. cbn [fst].
    cbn [wfz] in H. destruct H as (Hac & _ & Ht). assert (Hcz := wfz_lt _ _ _ Ht _ Hz). cbn [fst] in Hcz.
    apply in_bounds_spec in Ea.
    destruct (in_bounds n b z) eqn:Ez; [|reflexivity]. apply in_bounds_spec in Ez.
    assert (Hc : in_bounds n b c = true) by (apply in_bounds_spec; lia). congruence.
Qed.

Lemma sel_mfilter_mshift padn n b k m :
  sel k (mfilter n b (mshift padn m)) = unpad_filter padn n b (sel k m).
Proof.
  rewrite unpad_filter_alt. unfold sel, mfilter, mshift.
  induction m as [|[a ka] t IH]; [reflexivity|].
  cbn [map filter fst snd].
  destruct (in_bounds n b (shift padn a)) eqn:Ea; cbn [filter snd]; destruct (Bool.eqb ka k);
    cbn [map filter fst]; rewrite ?Ea, IH; reflexivity.
Qed.

(* one possible extra "first kind" extremum at the end *)
Fixpoint inter' (ps ts : list Z) : Prop :=
  match ps with
  | [] => ts = []
  | p :: ps' => match ts with
                | [] => ps' = []
                | t :: ts' => (p < t)%Z /\ (match ps' with [] => True | p' :: _ => (t < p')%Z end) /\ inter' ps' ts'
                end
  end.

Lemma wfz_inter' k n : forall mm, length mm <= n -> wfz mm ->
  (forall z kz rest, mm = (z, kz) :: rest -> kz = k) ->
  inter' (sel k mm) (sel (negb k) mm).
Proof.
  induction n as [|n IH]; intros mm Hlen Hwf Hhd.
  - destruct mm; [reflexivity|cbn [length] in Hlen; lia].
  - destruct mm as [|[p kp] rest]; [reflexivity|].
    rewrite (Hhd p kp rest eq_refl) in *. clear Hhd.
    rewrite sel_cons_same, sel_cons_other.
    destruct rest as [|[t k'] rest']; [reflexivity|].
    cbn [wfz] in Hwf. destruct Hwf as (Hpt & -> & Hwf).
    rewrite sel_cons_other', sel_cons_same. cbn [inter'].
    split; [exact Hpt|].
    destruct rest' as [|[p' k''] rest'']; [split; [exact I|reflexivity]|].
    destruct Hwf as (Htp & Hk & Hwf'). rewrite negb_involutive in Hk. subst k''.
    split.
    + rewrite sel_cons_same. exact Htp.
    + apply IH; [cbn [length] in *; lia|exact Hwf'|].
      intros z kz r E. inversion E. reflexivity.
Qed.

Lemma last_cons2 (a b : Z) l : lastZ (a :: b :: l) = lastZ (b :: l).
Proof. reflexivity. Qed.

Lemma inter'_trim ps : forall ts, inter' ps ts -> ts <> [] ->
  interleaved (if (lastZ ts <? lastZ ps)%Z then removelast ps else ps) ts.
Proof.
  induction ps as [|p ps' IH]; intros ts H Hne.
  - cbn [inter'] in H. congruence.
  - destruct ts as [|t ts']; [congruence|]. cbn [inter'] in H. destruct H as (Hpt & Hhd & Hin).
    destruct ts' as [|t' ts''].
    + destruct ps' as [|p' ps'']; cbn [inter'] in Hin.
      * unfold lastZ. cbn [last]. assert (E : (t <? p)%Z = false) by (apply Z.ltb_ge; lia).
        rewrite E. cbn [interleaved]. auto.
      * subst ps''. unfold lastZ. cbn [last]. assert (E : (t <? p')%Z = true) by (apply Z.ltb_lt; lia).
        rewrite E. cbn [removelast interleaved]. auto.
    + destruct ps' as [|p' ps'']; [cbn [inter'] in Hin; discriminate|].
      rewrite !last_cons2. specialize (IH (t' :: ts'') Hin ltac:(discriminate)).
      destruct (lastZ (t' :: ts'') <? lastZ (p' :: ps''))%Z.
      * change (removelast (p :: p' :: ps'')) with (p :: removelast (p' :: ps'')).
        cbn [interleaved]. split; [exact Hpt|]. split; [|exact IH].
        destruct ps'' as [|p'' ps''']; [exact I|]. cbn [removelast]. exact Hhd.
      * cbn [interleaved]. split; [exact Hpt|]. split; [exact Hhd|exact IH].
Qed.

Lemma removelast_incl {A} (l : list A) : incl (removelast l) l.
Proof.
  induction l as [|x [|y t] IH]; [intros ? []|intros ? []|].
  change (removelast (x :: y :: t)) with (x :: removelast (y :: t)).
  intros z [->|Hz]; [left; reflexivity|right; apply IH, Hz].
Qed.

Lemma tl_incl {A} (l : list A) : incl (tl l) l.
Proof. destruct l; [intros ? []|intros z Hz; right; exact Hz]. Qed.

(* trim_pair on the two projections of an alternating merged list *)
Lemma trim_pair_spec k mm firsts' others' :
  wfz mm -> trim_pair (sel k mm) (sel (negb k) mm) = Ok (firsts', others') ->
  interleaved firsts' others' /\ incl firsts' (sel k mm) /\ incl others' (sel (negb k) mm).
Proof.
  intros Hwf H.
  (* normalise: mm' starts with kind k, same firsts, others' = its others *)
  assert (Hn : exists mm', wfz mm' /\ (forall z kz rest, mm' = (z, kz) :: rest -> kz = k) /\
             sel k mm' = sel k mm /\ incl (sel (negb k) mm') (sel (negb k) mm) /\
             sel (negb k) mm' <> [] /\
             Ok (firsts', others') =
             Ok (if (lastZ (sel (negb k) mm') <? lastZ (sel k mm'))%Z then removelast (sel k mm') else sel k mm',
                 sel (negb k) mm')).
  { unfold trim_pair in H.
    destruct (sel k mm) as [|f0 fs] eqn:Ef; [discriminate|].
    destruct (sel (negb k) mm) as [|o0 os] eqn:Eo; [discriminate|].
    destruct mm as [|[z kz] rest]; [discriminate|].
    destruct (Bool.eqb kz k) eqn:Ek.
    - apply eqb_prop in Ek. subst kz. rewrite sel_cons_same in Ef. rewrite sel_cons_other in Eo.
      inversion Ef; subst z fs.
      assert (Hlt : (f0 < o0)%Z).
      { apply (wfz_lt _ _ _ Hwf (o0, negb k)). apply sel_In. rewrite Eo. left; reflexivity. }
      assert (E : (o0 <? f0)%Z = false) by (apply Z.ltb_ge; lia). rewrite E in H.
      exists ((f0, k) :: rest). split; [exact Hwf|]. split; [intros ? ? ? E'; inversion E'; reflexivity|].
      rewrite sel_cons_same, sel_cons_other, Eo. split; [reflexivity|]. split; [apply incl_refl|].
      split; [discriminate|]. rewrite <- H. reflexivity.
    - apply eqb_false_iff in Ek. assert (kz = negb k) by (destruct kz, k; try reflexivity; exfalso; apply Ek; reflexivity). subst kz.
      rewrite sel_cons_other' in Ef. rewrite sel_cons_same in Eo. inversion Eo; subst z os.
      assert (Hlt : (o0 < f0)%Z).
      { apply (wfz_lt _ _ _ Hwf (f0, k)). apply sel_In. rewrite Ef. left; reflexivity. }
      apply Z.ltb_lt in Hlt. rewrite Hlt in H. cbn [tl] in H.
      destruct (sel (negb k) rest) as [|o1 os'] eqn:Eo1; [discriminate|].
      exists rest. split; [exact (wfz_tl _ _ Hwf)|]. split.
      { intros z kz r E'. subst rest. cbn [wfz] in Hwf. destruct Hwf as (_ & Hk & _).
        rewrite Hk. apply negb_involutive. }
      rewrite Ef, Eo1. split; [reflexivity|]. split; [intros y Hy; right; exact Hy|].
      split; [discriminate|]. rewrite <- H. reflexivity. }
  destruct Hn as (mm' & Hwf' & Hhd & Ef & Hincl & Hne & E).
  inversion E; subst firsts' others'. clear E.
  assert (Hi := wfz_inter' k (length mm') mm' (le_n _) Hwf' Hhd).
  split; [exact (inter'_trim _ _ Hi Hne)|]. split; [|exact Hincl].
  rewrite <- Ef. destruct (lastZ (sel (negb k) mm') <? lastZ (sel k mm'))%Z; [apply removelast_incl|apply incl_refl].
Qed.

Lemma pad_length n sig : length (pad n sig) = length sig + 2 * n.
Proof. unfold pad. rewrite !app_length, !repeat_length. lia. Qed.

Definition xn (x : ext_in) : Z := Z.of_nat (length (x_raw x)).
Definition xsigp (x : ext_in) : list PrimFloat.float := pad (x_padn x) (x_raw x).

Lemma find_extrema_unfold x pk tr :
  raw_extrema (x_pos x) (xsigp x) = Ok (pk, tr) ->
  find_extrema x = trim (x_first x) (unpad_filter (x_padn x) (xn x) (x_boundary x) pk)
                                    (unpad_filter (x_padn x) (xn x) (x_boundary x) tr).
Proof. intros H. unfold find_extrema, xsigp in *. rewrite H. reflexivity. Qed.

Lemma find_extrema_ok_raw x r :
  find_extrema x = Ok r -> exists pk tr, raw_extrema (x_pos x) (xsigp x) = Ok (pk, tr).
Proof.
  unfold find_extrema, xsigp. destruct (raw_extrema (x_pos x) (pad (x_padn x) (x_raw x))) as [[pk tr]|e]; [|discriminate].
  intros _. exists pk, tr. reflexivity.
Qed.

(* the boundary-filtered extrema are the two projections of one alternating list *)
Lemma filtered_merged x pk tr :
  raw_extrema (x_pos x) (xsigp x) = Ok (pk, tr) ->
  length (x_raw x) + 2 * x_padn x = length (x_pos x) ->
  exists mm, wfz mm /\
    unpad_filter (x_padn x) (xn x) (x_boundary x) pk = sel true mm /\
    unpad_filter (x_padn x) (xn x) (x_boundary x) tr = sel false mm.
Proof.
  intros Hraw Hlen.
  assert (Hl : length (xsigp x) = length (x_pos x)) by (unfold xsigp; rewrite pad_length; exact Hlen).
  destruct (raw_extrema_alternate _ _ _ _ Hraw Hl) as (_ & _ & m & Hwf & Hp & Ht).
  rewrite sel_true_filter in Hp. rewrite sel_false_filter in Ht. subst pk tr.
  exists (mfilter (xn x) (x_boundary x) (mshift (x_padn x) m)).
  split; [apply wfz_mfilter, wfz_mshift, Hwf|]. rewrite !sel_mfilter_mshift. split; reflexivity.
Qed.

(* D2, FPeak *)
Theorem find_extrema_peak_first x peaks troughs :
  find_extrema x = Ok (peaks, troughs) -> x_first x = FPeak ->
  length (x_raw x) + 2 * x_padn x = length (x_pos x) ->
  interleaved peaks troughs /\
  (forall z, In z peaks \/ In z troughs ->
             (x_boundary x < z < Z.of_nat (length (x_raw x)) - x_boundary x)%Z) /\
  exists pk tr, raw_extrema (x_pos x) (pad (x_padn x) (x_raw x)) = Ok (pk, tr) /\
    incl peaks (unpad_filter (x_padn x) (Z.of_nat (length (x_raw x))) (x_boundary x) pk) /\
    incl troughs (unpad_filter (x_padn x) (Z.of_nat (length (x_raw x))) (x_boundary x) tr).
Proof.
  intros H Hf Hlen. destruct (find_extrema_ok_raw _ _ H) as (pk & tr & Hraw).
  rewrite (find_extrema_unfold _ _ _ Hraw), Hf in H. cbn [trim] in H.
  destruct (filtered_merged _ _ _ Hraw Hlen) as (mm & Hwf & Ep & Et).
  rewrite Ep, Et in H. destruct (trim_pair_spec true mm _ _ Hwf H) as (Hi & Hip & Hit).
  cbn [negb] in Hit. rewrite <- Ep in Hip. rewrite <- Et in Hit.
  split; [exact Hi|]. split.
  - intros z [Hz|Hz]; [apply Hip in Hz|apply Hit in Hz];
      apply unpad_filter_In in Hz as (_ & _ & _ & Hb); exact Hb.
  - exists pk, tr. split; [exact Hraw|]. split; assumption.
Qed.

(* D2, FTrough *)
Theorem find_extrema_trough_first x peaks troughs :
  find_extrema x = Ok (peaks, troughs) -> x_first x = FTrough ->
  length (x_raw x) + 2 * x_padn x = length (x_pos x) ->
  interleaved troughs peaks /\
  (forall z, In z peaks \/ In z troughs ->
             (x_boundary x < z < Z.of_nat (length (x_raw x)) - x_boundary x)%Z) /\
  exists pk tr, raw_extrema (x_pos x) (pad (x_padn x) (x_raw x)) = Ok (pk, tr) /\
    incl peaks (unpad_filter (x_padn x) (Z.of_nat (length (x_raw x))) (x_boundary x) pk) /\
    incl troughs (unpad_filter (x_padn x) (Z.of_nat (length (x_raw x))) (x_boundary x) tr).
Proof.
  intros H Hf Hlen. destruct (find_extrema_ok_raw _ _ H) as (pk & tr & Hraw).
  rewrite (find_extrema_unfold _ _ _ Hraw), Hf in H. cbn [trim] in H.
  destruct (filtered_merged _ _ _ Hraw Hlen) as (mm & Hwf & Ep & Et).
  rewrite Ep, Et in H.
  destruct (trim_pair (sel false mm) (sel true mm)) as [[f' o']|e] eqn:Etp; [|discriminate].
  cbn [bind fst snd] in H. inversion H; subst o' f'. clear H.
  destruct (trim_pair_spec false mm _ _ Hwf Etp) as (Hi & Hit & Hip).
  cbn [negb] in Hip. rewrite <- Ep in Hip. rewrite <- Et in Hit.
  split; [exact Hi|]. split.
  - intros z [Hz|Hz]; [apply Hip in Hz|apply Hit in Hz];
      apply unpad_filter_In in Hz as (_ & _ & _ & Hb); exact Hb.
  - exists pk, tr. split; [exact Hraw|]. split; assumption.
Qed.

(* D2, FNone / FInvalid *)
Theorem find_extrema_none x pk tr :
  raw_extrema (x_pos x) (pad (x_padn x) (x_raw x)) = Ok (pk, tr) -> x_first x = FNone ->
  find_extrema x = Ok (unpad_filter (x_padn x) (Z.of_nat (length (x_raw x))) (x_boundary x) pk,
                       unpad_filter (x_padn x) (Z.of_nat (length (x_raw x))) (x_boundary x) tr).
Proof. intros Hraw Hf. rewrite (find_extrema_unfold _ _ _ Hraw), Hf. reflexivity. Qed.

Theorem find_extrema_invalid x pk tr :
  raw_extrema (x_pos x) (pad (x_padn x) (x_raw x)) = Ok (pk, tr) -> x_first x = FInvalid ->
  find_extrema x = Err EValue.
Proof. intros Hraw Hf. rewrite (find_extrema_unfold _ _ _ Hraw), Hf. reflexivity. Qed.

Theorem find_extrema_raw_err x e :
  raw_extrema (x_pos x) (pad (x_padn x) (x_raw x)) = Err e -> find_extrema x = Err e.
Proof. intros H. unfold find_extrema. rewrite H. reflexivity. Qed.

(* with FNone the two lists still are the projections of one alternating sequence *)
Theorem find_extrema_none_alternate x peaks troughs :
  find_extrema x = Ok (peaks, troughs) -> x_first x = FNone ->
  length (x_raw x) + 2 * x_padn x = length (x_pos x) ->
  exists mm, wfz mm /\ peaks = sel true mm /\ troughs = sel false mm.
Proof.
  intros H Hf Hlen. destruct (find_extrema_ok_raw _ _ H) as (pk & tr & Hraw).
  rewrite (find_extrema_unfold _ _ _ Hraw), Hf in H. cbn [trim] in H.
  destruct (filtered_merged _ _ _ Hraw Hlen) as (mm & Hwf & Ep & Et).
  inversion H; subst. exists mm. split; [exact Hwf|]. split; assumption.
Qed.

(* ------------------------------------------------------------------------- *)
(* C2 / C3. Each raw extremum is the first arg-max (arg-min) of a closed      *)
(* half-wave, and conversely                                                  *)
(* ------------------------------------------------------------------------- *)

Lemma negb_neq (k : bool) : k = negb k -> False.
Proof. destruct k; discriminate. Qed.

Theorem halfwave_iff pos k a b :
  closed_halfwave pos k a b <-> In (a, k, b) (pairs (events 0 pos)).
Proof.
  split.
  - intros (Hab & Hb & Ha & Hmid & HSb).
    assert (Hina : In (a, k) (events 0 pos)).
    { apply events_in. rewrite Nat.sub_0_r. split; [lia|]. split; [lia|]. split; [exact Ha|]. apply Hmid. lia. }
    assert (Hinb : In (b, negb k) (events 0 pos)).
    { apply events_in. rewrite Nat.sub_0_r. split; [lia|]. split; [lia|]. split; [|exact HSb].
      rewrite negb_involutive. apply Hmid. lia. }
    apply in_split in Hina as (pre & rest & E).
    destruct rest as [|[c k''] post].
    + exfalso. rewrite E in Hinb. apply in_app_or in Hinb as [Hp|[Hp|[]]].
      * assert (Hs := events_sorted 0 pos). rewrite E in Hs.
        assert (H := ssorted_app_lt _ _ _ Hs (b, negb k) (a, k) Hp (or_introl eq_refl)). cbn [fst] in H. lia.
      * inversion Hp. lia.
    + destruct (events_split_adjacent _ _ _ _ _ _ _ _ E) as (-> & Hac & Hbits).
      assert (Hinc : In (c, negb k) (events 0 pos)).
      { rewrite E. apply in_or_app. right. right. left. reflexivity. }
      apply events_in in Hinc as (_ & _ & _ & HSc). rewrite Nat.sub_0_r in HSc.
      assert (c = b).
      { destruct (Nat.lt_trichotomy c b) as [Hlt|[Heq|Hgt]]; [exfalso|exact Heq|exfalso].
        - rewrite (Hmid (S c) ltac:(lia)) in HSc. exact (negb_neq _ HSc).
        - specialize (Hbits (S b) ltac:(lia)). rewrite Nat.sub_0_r in Hbits. rewrite Hbits in HSb.
          exact (negb_neq _ HSb). }
      subst c. apply pairs_in. exists pre, (negb k), post. exact E.
  - intros Hin. destruct (pairs_bounds _ _ _ _ Hin) as (Hab & Hb).
    apply pairs_in in Hin as (pre & k' & post & E).
    destruct (events_split_adjacent _ _ _ _ _ _ _ _ E) as (-> & _ & Hbits).
    assert (Hina : In (a, k) (events 0 pos)).
    { rewrite E. apply in_or_app. right. left. reflexivity. }
    assert (Hinb : In (b, negb k) (events 0 pos)).
    { rewrite E. apply in_or_app. right. right. left. reflexivity. }
    apply events_in in Hina as (_ & _ & Ha & _). rewrite Nat.sub_0_r in Ha.
    apply events_in in Hinb as (_ & _ & _ & HSb). rewrite Nat.sub_0_r in HSb.
    split; [exact Hab|]. split; [exact Hb|]. split; [exact Ha|]. split; [|exact HSb].
    intros j Hj. specialize (Hbits j Hj). rewrite Nat.sub_0_r in Hbits. exact Hbits.
Qed.

Definition first_arg (k : bool) : list PrimFloat.float -> nat -> nat -> nat -> Prop :=
  if k then first_argmax else first_argmin.

Lemma first_argmax_unique raw a b x y : first_argmax raw a b x -> first_argmax raw a b y -> x = y.
Proof.
  intros (Hx & Hx1 & Hx2) (Hy & Hy1 & Hy2).
  destruct (Nat.lt_trichotomy x y) as [Hlt|[Heq|Hgt]]; [exfalso|exact Heq|exfalso].
  - specialize (Hy2 x ltac:(lia)). specialize (Hx1 y ltac:(lia)). congruence.
  - specialize (Hx2 y ltac:(lia)). specialize (Hy1 x ltac:(lia)). congruence.
Qed.

Lemma first_argmin_unique raw a b x y : first_argmin raw a b x -> first_argmin raw a b y -> x = y.
Proof.
  intros (Hx & Hx1 & Hx2) (Hy & Hy1 & Hy2).
  destruct (Nat.lt_trichotomy x y) as [Hlt|[Heq|Hgt]]; [exfalso|exact Heq|exfalso].
  - specialize (Hy2 x ltac:(lia)). specialize (Hx1 y ltac:(lia)). congruence.
  - specialize (Hx2 y ltac:(lia)). specialize (Hy1 x ltac:(lia)). congruence.
Qed.

Lemma first_arg_unique k raw a b x y : first_arg k raw a b x -> first_arg k raw a b y -> x = y.
Proof. destruct k; [apply first_argmax_unique|apply first_argmin_unique]. Qed.

Lemma allfin_slice l a b : allfin l -> allfin (slice l a b).
Proof.
  unfold allfin, slice. intros H.
  rewrite <- (firstn_skipn a l) in H. apply Forall_app in H as (_ & H).
  rewrite <- (firstn_skipn (b - a) (skipn a l)) in H. apply Forall_app in H as (H & _). exact H.
Qed.

Lemma argmax_slice_first raw a b j :
  allfin raw -> a < b <= length raw -> argmax_first (slice raw a b) = Some j -> first_argmax raw a b (a + j).
Proof.
  intros Hfin Hab H.
  destruct (argmax_first_spec _ _ (allfin_slice raw a b Hfin) H) as (Hj & H1 & H2).
  rewrite slice_length in * by lia. unfold first_argmax, sample.
  split; [lia|]. split.
  - intros i Hi. specialize (H1 (i - a) ltac:(lia)).
    rewrite !nth_slice in H1 by lia. replace (a + (i - a)) with i in H1 by lia. exact H1.
  - intros i Hi. specialize (H2 (i - a) ltac:(lia)).
    rewrite !nth_slice in H2 by lia. replace (a + (i - a)) with i in H2 by lia. exact H2.
Qed.

Lemma argmin_slice_first raw a b j :
  allfin raw -> a < b <= length raw -> argmin_first (slice raw a b) = Some j -> first_argmin raw a b (a + j).
Proof.
  intros Hfin Hab H.
  destruct (argmin_first_spec _ _ (allfin_slice raw a b Hfin) H) as (Hj & H1 & H2).
  rewrite slice_length in * by lia. unfold first_argmin, sample.
  split; [lia|]. split.
  - intros i Hi. specialize (H1 (i - a) ltac:(lia)).
    rewrite !nth_slice in H1 by lia. replace (a + (i - a)) with i in H1 by lia. exact H1.
  - intros i Hi. specialize (H2 (i - a) ltac:(lia)).
    rewrite !nth_slice in H2 by lia. replace (a + (i - a)) with i in H2 by lia. exact H2.
Qed.

Lemma argk_slice_first k raw a b j :
  allfin raw -> a < b <= length raw -> argk k (slice raw a b) = Some j -> first_arg k raw a b (a + j).
Proof. destruct k; [apply argmax_slice_first|apply argmin_slice_first]. Qed.

Lemma hw_in_iff pos sigp k x :
  length sigp = length pos -> allfin sigp ->
  (In x (map (xof sigp) (filter (fun h => Bool.eqb (hk h) k) (pairs (events 0 pos)))) <->
   exists a b, closed_halfwave pos k a b /\ first_arg k sigp a b x).
Proof.
  intros Hlen Hfin. rewrite in_map_iff. split.
  - intros ([[a k0] b] & Hx & Hin). apply filter_In in Hin as (Hin & Hk).
    unfold hk in Hk. cbn [fst snd] in Hk. apply eqb_prop in Hk. subst k0.
    destruct (xof_range _ _ _ _ _ Hlen Hin) as (j & Hj & _ & Hxj).
    destruct (pairs_bounds _ _ _ _ Hin) as (Hab & Hb).
    exists a, b. split; [apply halfwave_iff, Hin|].
    rewrite <- Hx, Hxj. apply argk_slice_first; [exact Hfin|lia|exact Hj].
  - intros (a & b & Hhw & Hfa). apply halfwave_iff in Hhw.
    destruct (xof_range _ _ _ _ _ Hlen Hhw) as (j & Hj & _ & Hxj).
    destruct (pairs_bounds _ _ _ _ Hhw) as (Hab & Hb).
    assert (Hfa' : first_arg k sigp a b (a + j)) by (apply argk_slice_first; [exact Hfin|lia|exact Hj]).
    exists (a, k, b). split; [rewrite Hxj; exact (first_arg_unique _ _ _ _ _ _ Hfa' Hfa)|].
    apply filter_In. split; [exact Hhw|]. unfold hk. cbn [fst snd]. apply eqb_reflx.
Qed.

(* C2 *)
Theorem raw_peaks_iff pos sigp peaks troughs x :
  raw_extrema pos sigp = Ok (peaks, troughs) -> length sigp = length pos ->
  Forall (fun v => finite v = true) sigp ->
  (In x peaks <-> exists a b, closed_halfwave pos true a b /\ first_argmax sigp a b x).
Proof.
  intros H Hlen Hfin. destruct (raw_extrema_ok_inv _ _ _ _ H Hlen) as (-> & _).
  exact (hw_in_iff pos sigp true x Hlen Hfin).
Qed.

(* C3 *)
Theorem raw_troughs_iff pos sigp peaks troughs x :
  raw_extrema pos sigp = Ok (peaks, troughs) -> length sigp = length pos ->
  Forall (fun v => finite v = true) sigp ->
  (In x troughs <-> exists a b, closed_halfwave pos false a b /\ first_argmin sigp a b x).
Proof.
  intros H Hlen Hfin. destruct (raw_extrema_ok_inv _ _ _ _ H Hlen) as (_ & ->).
  exact (hw_in_iff pos sigp false x Hlen Hfin).
Qed.

(* ------------------------------------------------------------------------- *)
(* Error branches                                                             *)
(* ------------------------------------------------------------------------- *)

Lemma mapM_err {A B} (f : A -> result B) l e : mapM f l = Err e -> exists x, In x l /\ f x = Err e.
Proof.
  induction l as [|x t IH]; cbn [mapM]; [discriminate|].
  destruct (f x) as [y|e'] eqn:Ex.
  - destruct (mapM f t) as [ys|e'']; [discriminate|]. intros H; inversion H; subst e''.
    destruct (IH eq_refl) as (z & Hz & Ez). exists z. split; [right; exact Hz|exact Ez].
  - intros H; inversion H; subst e'. exists x. split; [left; reflexivity|exact Ex].
Qed.

Lemma extremum_after_err arg sigp others a e :
  extremum_after arg sigp others a = Err e -> e = EOther \/ e = EValue.
Proof.
  unfold extremum_after. destruct (find _ others); [|intros H; inversion H; left; reflexivity].
  destruct (arg _); [discriminate|]. intros H; inversion H; right; reflexivity.
Qed.

(* without any length hypothesis: Degenerate iff one kind of crossing is missing *)
Theorem raw_extrema_degenerate_iff pos sigp :
  raw_extrema pos sigp = Err EDegenerate <->
  rises_of (events 0 pos) = [] \/ decays_of (events 0 pos) = [].
Proof.
  destruct (rises_of (events 0 pos)) as [|r rs] eqn:Er.
  - unfold raw_extrema. cbv zeta. rewrite Er. split; [left; reflexivity|reflexivity].
  - destruct (decays_of (events 0 pos)) as [|d ds] eqn:Ed.
    + unfold raw_extrema. cbv zeta. rewrite Er, Ed. split; [right; reflexivity|reflexivity].
    + split; [|intros [H|H]; discriminate]. intros H. exfalso.
      rewrite raw_extrema_unfold in H by (rewrite ?Er, ?Ed; discriminate).
      unfold raw_body in H.
      destruct (if Nat.ltb (last (decays_of (events 0 pos)) 0) (last (rises_of (events 0 pos)) 0)
                then (length (rises_of (events 0 pos)) - 1, length (decays_of (events 0 pos)))
                else (length (rises_of (events 0 pos)), length (decays_of (events 0 pos)) - 1)) as [np nt].
      destruct (mapM _ (firstn np _)) as [pk|e1] eqn:E1; cbn [bind] in H.
      * destruct (mapM _ (firstn nt _)) as [tr|e2] eqn:E2; cbn [bind] in H; [discriminate|].
        inversion H; subst e2. apply mapM_err in E2 as (z & _ & Ez).
        apply extremum_after_err in Ez as [Ez|Ez]; discriminate.
      * inversion H; subst e1. apply mapM_err in E1 as (z & _ & Ez).
        apply extremum_after_err in Ez as [Ez|Ez]; discriminate.
Qed.

(* with matching lengths the only possible error is Degenerate: EOther / EValue are unreachable *)
Theorem raw_extrema_err_only_degenerate pos sigp e :
  length sigp = length pos -> raw_extrema pos sigp = Err e -> e = EDegenerate.
Proof.
  intros Hlen H.
  destruct (rises_of (events 0 pos)) as [|r rs] eqn:Er.
  { unfold raw_extrema in H. cbv zeta in H. rewrite Er in H. inversion H. reflexivity. }
  destruct (decays_of (events 0 pos)) as [|d ds] eqn:Ed.
  { unfold raw_extrema in H. cbv zeta in H. rewrite Er, Ed in H. inversion H. reflexivity. }
  rewrite raw_extrema_eq in H; [discriminate|exact Hlen|rewrite Er; discriminate|rewrite Ed; discriminate].
Qed.

(* D3 *)
Lemma trim_pair_err_iff firsts others :
  trim_pair firsts others = Err EIndex <->
  firsts = [] \/ others = [] \/ exists t, others = [t] /\ (t < headZ firsts)%Z.
Proof.
  unfold trim_pair. destruct firsts as [|f0 fs].
  - split; [left; reflexivity|reflexivity].
  - destruct others as [|o0 os].
    + split; [right; left; reflexivity|reflexivity].
    + cbn [headZ hd]. destruct (o0 <? f0)%Z eqn:E.
      * cbn [tl]. destruct os as [|o1 os'].
        -- split; [|reflexivity]. intros _. right. right. exists o0. split; [reflexivity|].
           apply Z.ltb_lt, E.
        -- split; [discriminate|]. intros [H|[H|(t & H & _)]]; discriminate.
      * split; [discriminate|]. intros [H|[H|(t & H & Hlt)]]; try discriminate.
        inversion H; subst. apply Z.ltb_ge in E. cbn [headZ hd] in Hlt. lia.
Qed.

Lemma trim_pair_err_only_index firsts others e : trim_pair firsts others = Err e -> e = EIndex.
Proof.
  unfold trim_pair. destruct firsts as [|f0 fs]; [intros H; inversion H; reflexivity|].
  destruct others as [|o0 os]; [intros H; inversion H; reflexivity|].
  destruct (if (o0 <? f0)%Z then tl (o0 :: os) else o0 :: os); [intros H; inversion H; reflexivity|discriminate].
Qed.

Theorem find_extrema_err_index x pk tr :
  raw_extrema (x_pos x) (pad (x_padn x) (x_raw x)) = Ok (pk, tr) -> x_first x = FPeak ->
  let P := unpad_filter (x_padn x) (Z.of_nat (length (x_raw x))) (x_boundary x) pk in
  let T := unpad_filter (x_padn x) (Z.of_nat (length (x_raw x))) (x_boundary x) tr in
  (find_extrema x = Err EIndex <-> P = [] \/ T = [] \/ exists t, T = [t] /\ (t < headZ P)%Z) /\
  (forall e, find_extrema x = Err e -> e = EIndex).
Proof.
  intros Hraw Hf. cbv zeta. rewrite (find_extrema_unfold _ _ _ Hraw), Hf. cbn [trim].
  split; [apply trim_pair_err_iff|apply trim_pair_err_only_index].
Qed.

Theorem find_extrema_err_index_trough x pk tr :
  raw_extrema (x_pos x) (pad (x_padn x) (x_raw x)) = Ok (pk, tr) -> x_first x = FTrough ->
  let P := unpad_filter (x_padn x) (Z.of_nat (length (x_raw x))) (x_boundary x) pk in
  let T := unpad_filter (x_padn x) (Z.of_nat (length (x_raw x))) (x_boundary x) tr in
  (find_extrema x = Err EIndex <-> T = [] \/ P = [] \/ exists p, P = [p] /\ (p < headZ T)%Z) /\
  (forall e, find_extrema x = Err e -> e = EIndex).
Proof.
  intros Hraw Hf. cbv zeta. rewrite (find_extrema_unfold _ _ _ Hraw), Hf. cbn [trim].
  rewrite <- trim_pair_err_iff.
  destruct (trim_pair _ _) as [r|e0] eqn:E; cbn [bind].
  - split; [split; discriminate|discriminate].
  - apply trim_pair_err_only_index in E. subst e0.
    split; [split; reflexivity|]. intros e H; inversion H; reflexivity.
Qed.

(* ------------------------------------------------------------------------- *)
(* Completeness of the first_extrema trimming: only the leading extremum of   *)
(* the other kind and the trailing extremum of the requested kind can go      *)
(* ------------------------------------------------------------------------- *)

Lemma trim_pair_exact firsts others firsts' others' :
  trim_pair firsts others = Ok (firsts', others') ->
  others' = (if (headZ others <? headZ firsts)%Z then tl others else others) /\
  firsts' = (if (lastZ others' <? lastZ firsts)%Z then removelast firsts else firsts).
Proof.
  unfold trim_pair. destruct firsts as [|f0 fs]; [discriminate|].
  destruct others as [|o0 os]; [discriminate|]. cbn [headZ hd].
  destruct (if (o0 <? f0)%Z then tl (o0 :: os) else o0 :: os) as [|o1 os'] eqn:Eo; [discriminate|].
  intros Hok. inversion Hok; subst firsts' others'. split; reflexivity.
Qed.

Lemma trim_pair_complete firsts others firsts' others' :
  trim_pair firsts others = Ok (firsts', others') ->
  (firsts' = firsts \/ firsts' = removelast firsts) /\ (others' = others \/ others' = tl others).
Proof.
  intros Hok. destruct (trim_pair_exact _ _ _ _ Hok) as (Ho & Hf). split.
  - rewrite Hf. destruct (lastZ others' <? lastZ firsts)%Z; [right|left]; reflexivity.
  - rewrite Ho. destruct (headZ others <? headZ firsts)%Z; [right|left]; reflexivity.
Qed.

(* first_extrema = 'peak': with P, T the boundary-filtered half-wave extrema, the reported troughs
   are T or T without its first entry (dropped iff it precedes the first peak) and the reported
   peaks are P or P without its last entry (dropped iff no reported trough follows it) *)
Theorem find_extrema_peak_first_complete x peaks troughs pk tr :
  find_extrema x = Ok (peaks, troughs) -> x_first x = FPeak ->
  raw_extrema (x_pos x) (pad (x_padn x) (x_raw x)) = Ok (pk, tr) ->
  let P := unpad_filter (x_padn x) (Z.of_nat (length (x_raw x))) (x_boundary x) pk in
  let T := unpad_filter (x_padn x) (Z.of_nat (length (x_raw x))) (x_boundary x) tr in
  (peaks = P \/ peaks = removelast P) /\ (troughs = T \/ troughs = tl T) /\
  troughs = (if (headZ T <? headZ P)%Z then tl T else T) /\
  peaks = (if (lastZ troughs <? lastZ P)%Z then removelast P else P).
Proof.
  intros Hok Hf Hraw. cbv zeta.
  rewrite (find_extrema_unfold _ _ _ Hraw), Hf in Hok. cbn [trim] in Hok. unfold xn in Hok.
  destruct (trim_pair_complete _ _ _ _ Hok) as (Hp & Ht).
  destruct (trim_pair_exact _ _ _ _ Hok) as (Ht' & Hp').
  split; [exact Hp|]. split; [exact Ht|]. split; [exact Ht'|exact Hp'].
Qed.

Theorem find_extrema_trough_first_complete x peaks troughs pk tr :
  find_extrema x = Ok (peaks, troughs) -> x_first x = FTrough ->
  raw_extrema (x_pos x) (pad (x_padn x) (x_raw x)) = Ok (pk, tr) ->
  let P := unpad_filter (x_padn x) (Z.of_nat (length (x_raw x))) (x_boundary x) pk in
  let T := unpad_filter (x_padn x) (Z.of_nat (length (x_raw x))) (x_boundary x) tr in
  (troughs = T \/ troughs = removelast T) /\ (peaks = P \/ peaks = tl P) /\
  peaks = (if (headZ P <? headZ T)%Z then tl P else P) /\
  troughs = (if (lastZ peaks <? lastZ T)%Z then removelast T else T).
Proof.
  intros Hok Hf Hraw. cbv zeta.
  rewrite (find_extrema_unfold _ _ _ Hraw), Hf in Hok. cbn [trim] in Hok. unfold xn in Hok.
  destruct (trim_pair _ _) as [[f' o']|e] eqn:Etp; [|discriminate].
  cbn [bind fst snd] in Hok. inversion Hok; subst o' f'. clear Hok.
  destruct (trim_pair_complete _ _ _ _ Etp) as (Ht & Hp).
  destruct (trim_pair_exact _ _ _ _ Etp) as (Hp' & Ht').
  split; [exact Ht|]. split; [exact Hp|]. split; [exact Hp'|exact Ht'].
Qed.

(* ------------------------------------------------------------------------- *)
(* Which entries survive the trimming, stated on membership                   *)
(* ------------------------------------------------------------------------- *)

Lemma wfz_sel_sorted k mm : wfz mm -> StronglySorted Z.lt (sel k mm).
Proof.
  induction mm as [|[a ka] t IH]; intros Hwf; [constructor|].
  specialize (IH (wfz_tl _ _ Hwf)).
  destruct (Bool.eqb ka k) eqn:Ek.
  - apply eqb_prop in Ek. subst ka. rewrite sel_cons_same. constructor; [exact IH|].
    apply Forall_forall. intros z Hz. apply sel_In in Hz.
    exact (wfz_lt _ _ _ Hwf _ Hz).
  - assert (Hka : ka = negb k) by (destruct ka, k; try reflexivity; discriminate).
    subst ka. rewrite sel_cons_other'. exact IH.
Qed.

Lemma ssortedZ_head_le l z : StronglySorted Z.lt l -> In z l -> (headZ l <= z)%Z.
Proof.
  intros Hs Hz. destruct l as [|a t]; [destruct Hz|]. cbn [headZ hd].
  destruct Hz as [<-|Hz]; [lia|].
  apply StronglySorted_inv in Hs as (_ & Hf). rewrite Forall_forall in Hf.
  specialize (Hf z Hz). lia.
Qed.

Lemma ssortedZ_le_last l z : StronglySorted Z.lt l -> In z l -> (z <= lastZ l)%Z.
Proof.
  revert z. induction l as [|a t IH]; intros z Hs Hz; [destruct Hz|].
  apply StronglySorted_inv in Hs as (Hst & Hf).
  destruct t as [|b t'].
  - destruct Hz as [<-|[]]. unfold lastZ. cbn [last]. lia.
  - change (lastZ (a :: b :: t')) with (lastZ (b :: t')).
    destruct Hz as [<-|Hz]; [|exact (IH z Hst Hz)].
    rewrite Forall_forall in Hf.
    assert (Hab := Hf b (or_introl eq_refl)).
    assert (Hbl := IH b Hst (or_introl eq_refl)). lia.
Qed.

Lemma ssortedZ_tl l : StronglySorted Z.lt l -> StronglySorted Z.lt (tl l).
Proof. destruct l as [|a t]; [intros H; exact H|]. intros H. apply StronglySorted_inv in H as (H & _). exact H. Qed.

Lemma in_removelast_or_last (l : list Z) z : In z l -> In z (removelast l) \/ z = lastZ l.
Proof.
  intros Hz. assert (Hne : l <> []) by (intros ->; destruct Hz).
  rewrite (app_removelast_last 0%Z Hne) in Hz. apply in_app_or in Hz as [Hz|[<-|[]]].
  - left; exact Hz.
  - right; reflexivity.
Qed.

Lemma interleaved_partner ps : forall ts, interleaved ps ts ->
  (forall z, In z ps -> exists t, In t ts /\ (z < t)%Z) /\
  (forall z, In z ts -> exists p, In p ps /\ (p < z)%Z).
Proof.
  induction ps as [|p ps' IH]; intros ts Hi.
  - destruct ts; [|destruct Hi]. split; intros z [].
  - destruct ts as [|t ts']; [destruct Hi|]. cbn [interleaved] in Hi. destruct Hi as (Hpt & _ & Hrest).
    destruct (IH ts' Hrest) as (IH1 & IH2). split.
    + intros z [<-|Hz].
      * exists t. split; [left; reflexivity|exact Hpt].
      * destruct (IH1 z Hz) as (t' & Ht' & Hlt). exists t'. split; [right; exact Ht'|exact Hlt].
    + intros z [<-|Hz].
      * exists p. split; [left; reflexivity|exact Hpt].
      * destruct (IH2 z Hz) as (p' & Hp' & Hlt). exists p'. split; [right; exact Hp'|exact Hlt].
Qed.

(* trim_pair on the two projections of an alternating merged list keeps exactly the requested-kind
   entries that are followed by an entry of the other kind, and the other-kind entries that are
   preceded by an entry of the requested kind *)
Lemma trim_pair_members k mm firsts' others' :
  wfz mm -> trim_pair (sel k mm) (sel (negb k) mm) = Ok (firsts', others') ->
  (forall z, In z firsts' <-> In z (sel k mm) /\ exists t, In t (sel (negb k) mm) /\ (z < t)%Z) /\
  (forall z, In z others' <-> In z (sel (negb k) mm) /\ exists p, In p (sel k mm) /\ (p < z)%Z).
Proof.
  intros Hwf Hok.
  destruct (trim_pair_spec k mm _ _ Hwf Hok) as (Hint & Hif & Hio).
  destruct (interleaved_partner _ _ Hint) as (Hpf & Hpo).
  destruct (trim_pair_exact _ _ _ _ Hok) as (Eo & Ef).
  assert (Hsf := wfz_sel_sorted k mm Hwf).
  assert (Hso := wfz_sel_sorted (negb k) mm Hwf).
  assert (Hso' : StronglySorted Z.lt others').
  { rewrite Eo. destruct (headZ (sel (negb k) mm) <? headZ (sel k mm))%Z; [apply ssortedZ_tl|]; exact Hso. }
  (* an other-kind entry preceded by a requested-kind entry survives *)
  assert (Hkeep_o : forall z p, In z (sel (negb k) mm) -> In p (sel k mm) -> (p < z)%Z -> In z others').
  { intros z p Hz Hp Hlt. rewrite Eo.
    destruct (headZ (sel (negb k) mm) <? headZ (sel k mm))%Z eqn:Eh; [|exact Hz].
    apply Z.ltb_lt in Eh. assert (Hhp := ssortedZ_head_le _ _ Hsf Hp).
    destruct (sel (negb k) mm) as [|o0 os]; [destruct Hz|]. cbn [headZ hd tl] in *.
    destruct Hz as [<-|Hz]; [lia|exact Hz]. }
  split; intros z; split.
  - intros Hz. split; [exact (Hif _ Hz)|].
    destruct (Hpf z Hz) as (t & Ht & Hlt). exists t. split; [exact (Hio _ Ht)|exact Hlt].
  - intros (Hz & t & Ht & Hlt). rewrite Ef.
    destruct (lastZ others' <? lastZ (sel k mm))%Z eqn:El; [|exact Hz].
    apply Z.ltb_lt in El.
    destruct (in_removelast_or_last _ _ Hz) as [Hr|Hl]; [exact Hr|]. exfalso.
    assert (Ht' := Hkeep_o t z Ht Hz Hlt).
    assert (Hle := ssortedZ_le_last _ _ Hso' Ht'). lia.
  - intros Hz. split; [exact (Hio _ Hz)|].
    destruct (Hpo z Hz) as (p & Hp & Hlt). exists p. split; [exact (Hif _ Hp)|exact Hlt].
  - intros (Hz & p & Hp & Hlt). exact (Hkeep_o z p Hz Hp Hlt).
Qed.

Theorem find_extrema_peak_first_members x peaks troughs pk tr :
  find_extrema x = Ok (peaks, troughs) -> x_first x = FPeak ->
  raw_extrema (x_pos x) (pad (x_padn x) (x_raw x)) = Ok (pk, tr) ->
  length (x_raw x) + 2 * x_padn x = length (x_pos x) ->
  let P := unpad_filter (x_padn x) (Z.of_nat (length (x_raw x))) (x_boundary x) pk in
  let T := unpad_filter (x_padn x) (Z.of_nat (length (x_raw x))) (x_boundary x) tr in
  (forall z, In z peaks <-> In z P /\ exists t, In t T /\ (z < t)%Z) /\
  (forall z, In z troughs <-> In z T /\ exists p, In p P /\ (p < z)%Z).
Proof.
  intros Hok Hf Hraw Hlen. cbv zeta.
  rewrite (find_extrema_unfold _ _ _ Hraw), Hf in Hok. cbn [trim] in Hok.
  destruct (filtered_merged _ _ _ Hraw Hlen) as (mm & Hwf & Ep & Et). unfold xn in *.
  rewrite Ep, Et in *. exact (trim_pair_members true mm _ _ Hwf Hok).
Qed.

Theorem find_extrema_trough_first_members x peaks troughs pk tr :
  find_extrema x = Ok (peaks, troughs) -> x_first x = FTrough ->
  raw_extrema (x_pos x) (pad (x_padn x) (x_raw x)) = Ok (pk, tr) ->
  length (x_raw x) + 2 * x_padn x = length (x_pos x) ->
  let P := unpad_filter (x_padn x) (Z.of_nat (length (x_raw x))) (x_boundary x) pk in
  let T := unpad_filter (x_padn x) (Z.of_nat (length (x_raw x))) (x_boundary x) tr in
  (forall z, In z troughs <-> In z T /\ exists p, In p P /\ (z < p)%Z) /\
  (forall z, In z peaks <-> In z P /\ exists t, In t T /\ (t < z)%Z).
Proof.
  intros Hok Hf Hraw Hlen. cbv zeta.
  rewrite (find_extrema_unfold _ _ _ Hraw), Hf in Hok. cbn [trim] in Hok.
  destruct (filtered_merged _ _ _ Hraw Hlen) as (mm & Hwf & Ep & Et). unfold xn in *.
  rewrite Ep, Et in *.
  destruct (trim_pair (sel false mm) (sel true mm)) as [[f' o']|e] eqn:Etp; [|discriminate].
  cbn [bind fst snd] in Hok. inversion Hok; subst o' f'. clear Hok.
  exact (trim_pair_members false mm _ _ Hwf Etp).
Qed.
