(* What each column of the table returned by compute_features is: one row per cycle of the
   shape table, each column its documented function of the shape table / the signal / the mask,
   and is_burst the labelling rule applied to the table's own feature columns.
     compute_features_amp_spec          (F2)
     compute_features_cycles_spec       (F1)
     compute_features_cycles_label_iff,
     compute_features_amp_label_iff,
     compute_features_amp_mono,
     compute_features_cycles_mono       (F3) *)
From Coq Require Import List Bool Arith ZArith Lia Floats.PrimFloat.
Import ListNotations.
From ByC Require Import Base.Result Base.ListAux Base.FloatBase Base.FloatFacts Harness.Compare
  Model.Runs Model.Labels Model.Extrema Model.Zerox Model.Cycles Model.BurstFeat Model.Features.
From ByC Require Proofs.Cycles Proofs.BurstFeat Proofs.Labels Proofs.LabelsOrder.
Close Scope float_scope.
Open Scope nat_scope.

(* default rows for [nth]; for an index below the length any default gives the same row *)
Definition srow0 : srow := Build_srow 0 0 0 0 0 0.
Definition pair0 : srow * shape := (srow0, shape_of [] [] srow0).
Definition brow0 : brow := Build_brow fnan fnan fnan fnan fnan.
Definition frow0 : frow :=
  {| r_s := srow0; r_shape := shape_of [] [] srow0; r_burst := brow0; r_is_burst := false |}.

Lemma nth_map_seq {A} (f : nat -> A) n k d : k < n -> nth k (map f (seq 0 n)) d = f k.
Proof. exact (ByC.Proofs.Cycles.nth_map_seq f n k d). Qed.

Lemma nth_fst_tab (tab : list (srow * shape)) i : nth i (map fst tab) srow0 = fst (nth i tab pair0).
Proof. change srow0 with (fst pair0) at 1. apply map_nth. Qed.

(* ------------------------------------------------------------------------- *)
(* F2: the amplitude method                                                  *)
(* ------------------------------------------------------------------------- *)

(* burst_fraction of a cycle is the fraction of the detector mask over [last side, next side]
   inclusive (BurstFeat.burst_fraction_row_def), and the label is the (>= threshold,
   run >= n) rule on those fractions *)
Theorem compute_features_amp_spec c raw k b mask t n out :
  compute_features c raw k b (Amp mask t n) = Ok out ->
  exists tab lab,
    shape_table c raw k b = Ok tab /\
    labels_amp t n (map (burst_fraction_row mask) (map fst tab)) = Ok lab /\
    length out = length tab /\
    forall i, i < length tab ->
      let r := nth i out frow0 in
      r_s r = fst (nth i tab pair0) /\
      r_shape r = snd (nth i tab pair0) /\
      b_bf (r_burst r) = burst_fraction_row mask (fst (nth i tab pair0)) /\
      b_af (r_burst r) = fnan /\ b_ac (r_burst r) = fnan /\
      b_pc (r_burst r) = fnan /\ b_mo (r_burst r) = fnan /\
      r_is_burst r = nth i lab false.
Proof.
  unfold compute_features. cbv zeta.
  destruct (shape_table c raw k b) as [tab|e0] eqn:E0; [|discriminate]. cbn [bind].
  destruct (labels_amp t n (map (burst_fraction_row mask) (map fst tab))) as [lab|e1] eqn:E1;
    [|discriminate].
  cbn [bind]. intros H. inversion H as [Hout]. clear H Hout.
  exists tab, lab. split; [reflexivity|]. split; [exact E1|]. split.
  - rewrite map_length, seq_length, map_length. reflexivity.
  - intros i Hi. cbv zeta. rewrite map_length.
    rewrite nth_map_seq by exact Hi. cbn [r_s r_shape r_burst r_is_burst b_af b_ac b_pc b_mo b_bf].
    rewrite nth_fst_tab.
    repeat split.
    unfold fnth.
    rewrite (nth_indep _ 0%float (burst_fraction_row mask srow0))
      by (rewrite !map_length; exact Hi).
    rewrite map_nth, nth_fst_tab. reflexivity.
Qed.

(* ------------------------------------------------------------------------- *)
(* F1: the consistency method                                                *)
(* ------------------------------------------------------------------------- *)

(* the four feature columns handed to the labelling rule, exactly as in the model *)
Definition cycles_feats (peak : bool) (raw : list float) (tab : list (srow * shape))
  (ac pc : list float) : list feat4 :=
  map (fun i => {| f_af := fnth (amp_fraction (map volt_amp (map snd tab))) i;
                   f_ac := fnth ac i; f_pc := fnth pc i;
                   f_mo := fnth (map (monotonicity_row peak raw) (map fst tab)) i |})
      (seq 0 (length (map fst tab))).

Lemma cycles_feats_length peak raw tab ac pc : length (cycles_feats peak raw tab ac pc) = length tab.
Proof. unfold cycles_feats. rewrite map_length, seq_length, map_length. reflexivity. Qed.

Lemma fnth_mono_col peak raw (tab : list (srow * shape)) i : i < length tab ->
  fnth (map (monotonicity_row peak raw) (map fst tab)) i = monotonicity_row peak raw (fst (nth i tab pair0)).
Proof.
  intros Hi. unfold fnth.
  rewrite (nth_indep _ 0%float (monotonicity_row peak raw srow0))
    by (rewrite !map_length; exact Hi).
  rewrite map_nth, nth_fst_tab. reflexivity.
Qed.

(* the i-th feature row is built from exactly the four columns of row i *)
Lemma cycles_feats_nth peak raw tab ac pc i d : i < length tab ->
  nth i (cycles_feats peak raw tab ac pc) d =
  {| f_af := fnth (amp_fraction (map volt_amp (map snd tab))) i;
     f_ac := fnth ac i; f_pc := fnth pc i;
     f_mo := monotonicity_row peak raw (fst (nth i tab pair0)) |}.
Proof.
  intros Hi. unfold cycles_feats. rewrite map_length.
  rewrite nth_map_seq by exact Hi. rewrite fnth_mono_col by exact Hi. reflexivity.
Qed.

Theorem compute_features_cycles_spec c raw k b t n out :
  compute_features c raw k b (Cycles t n) = Ok out ->
  exists tab ac pc lab,
    shape_table c raw k b = Ok tab /\
    let peak := centre_eqb c Peak in
    let rows := map fst tab in
    let shapes := map snd tab in
    amp_consistency peak Both (map volt_rise shapes) (map volt_decay shapes) = Ok ac /\
    period_consistency Both (map period shapes) = Ok pc /\
    labels_cycles t n (cycles_feats peak raw tab ac pc) = Ok lab /\
    length out = length tab /\
    forall i, i < length tab ->
      let r := nth i out frow0 in
      r_s r = fst (nth i tab pair0) /\
      r_shape r = snd (nth i tab pair0) /\
      b_af (r_burst r) = fnth (amp_fraction (map volt_amp shapes)) i /\
      b_ac (r_burst r) = fnth ac i /\
      b_pc (r_burst r) = fnth pc i /\
      b_mo (r_burst r) = monotonicity_row peak raw (fst (nth i tab pair0)) /\
      b_bf (r_burst r) = fnan /\
      r_is_burst r = nth i lab false.
Proof.
  unfold compute_features. cbv zeta.
  destruct (shape_table c raw k b) as [tab|e0] eqn:E0; [|discriminate]. cbn [bind].
  destruct (amp_consistency (centre_eqb c Peak) Both (map volt_rise (map snd tab))
              (map volt_decay (map snd tab))) as [ac|e1] eqn:E1; [|discriminate].
  cbn [bind].
  destruct (period_consistency Both (map period (map snd tab))) as [pc|e2] eqn:E2; [|discriminate].
  cbn [bind].
  fold (cycles_feats (centre_eqb c Peak) raw tab ac pc).
  destruct (labels_cycles t n (cycles_feats (centre_eqb c Peak) raw tab ac pc)) as [lab|e3] eqn:E3;
    [|discriminate].
  cbn [bind]. intros H. inversion H as [Hout]. clear H Hout.
  exists tab, ac, pc, lab. split; [reflexivity|]. cbv zeta.
  split; [exact E1|]. split; [exact E2|]. split; [exact E3|]. split.
  - rewrite map_length, seq_length, map_length. reflexivity.
  - intros i Hi. cbv zeta. rewrite map_length.
    rewrite nth_map_seq by exact Hi. cbn [r_s r_shape r_burst r_is_burst b_af b_ac b_pc b_mo b_bf].
    rewrite nth_fst_tab. rewrite fnth_mono_col by exact Hi.
    repeat split.
Qed.

(* ------------------------------------------------------------------------- *)
(* F3: is_burst is the labelling rule applied to the table's own columns     *)
(* ------------------------------------------------------------------------- *)

(* the four consistency features of a returned row, and its burst fraction *)
Definition feat_of_row (r : frow) : feat4 :=
  {| f_af := b_af (r_burst r); f_ac := b_ac (r_burst r); f_pc := b_pc (r_burst r); f_mo := b_mo (r_burst r) |}.
Definition bf_of_row (r : frow) : float := b_bf (r_burst r).

Lemma nth_is_burst out i : nth i (map r_is_burst out) false = r_is_burst (nth i out frow0).
Proof. change false with (r_is_burst frow0) at 1. apply map_nth. Qed.

(* the label column of the returned table is the consistency rule applied to the table's own
   amp_fraction / amp_consistency / period_consistency / monotonicity columns *)
Theorem compute_features_cycles_self c raw k b t n out :
  compute_features c raw k b (Cycles t n) = Ok out ->
  labels_cycles t n (map feat_of_row out) = Ok (map r_is_burst out).
Proof.
  intros H. destruct (compute_features_cycles_spec _ _ _ _ _ _ _ H)
    as (tab & ac & pc & lab & Htab & Hac & Hpc & Hlab & Hlen & Hrows).
  cbv zeta in Hac, Hpc, Hlab, Hrows.
  assert (Hll : length lab = length tab).
  { rewrite (ByC.Proofs.Labels.labels_cycles_length _ _ _ _ Hlab). apply cycles_feats_length. }
  assert (Hf : map feat_of_row out = cycles_feats (centre_eqb c Peak) raw tab ac pc).
  { apply (nth_ext _ _ (feat_of_row frow0) (feat_of_row frow0)).
    - rewrite map_length, cycles_feats_length. exact Hlen.
    - intros i Hi. rewrite map_length, Hlen in Hi. rewrite map_nth.
      rewrite cycles_feats_nth by exact Hi.
      destruct (Hrows i Hi) as (_ & _ & Haf & Hac' & Hpc' & Hmo & _).
      unfold feat_of_row at 1. rewrite Haf, Hac', Hpc', Hmo. reflexivity. }
  assert (Hl : map r_is_burst out = lab).
  { apply (nth_ext _ _ false false).
    - rewrite map_length, Hll. exact Hlen.
    - intros i Hi. rewrite map_length, Hlen in Hi. rewrite nth_is_burst.
      destruct (Hrows i Hi) as (_ & _ & _ & _ & _ & _ & _ & Hb). exact Hb. }
  rewrite Hf, Hl. exact Hlab.
Qed.

(* ... and, for the amplitude method, the (>= threshold, run) rule applied to the table's own
   burst_fraction column *)
Theorem compute_features_amp_self c raw k b mask t n out :
  compute_features c raw k b (Amp mask t n) = Ok out ->
  labels_amp t n (map bf_of_row out) = Ok (map r_is_burst out).
Proof.
  intros H. destruct (compute_features_amp_spec _ _ _ _ _ _ _ _ H)
    as (tab & lab & Htab & Hlab & Hlen & Hrows).
  cbv zeta in Hrows.
  assert (Hll : length lab = length tab).
  { rewrite (ByC.Proofs.Labels.labels_amp_length _ _ _ _ Hlab), !map_length. reflexivity. }
  assert (Hf : map bf_of_row out = map (burst_fraction_row mask) (map fst tab)).
  { apply (nth_ext _ _ (bf_of_row frow0) (burst_fraction_row mask srow0)).
    - rewrite !map_length. exact Hlen.
    - intros i Hi. rewrite map_length, Hlen in Hi. rewrite !map_nth, nth_fst_tab.
      destruct (Hrows i Hi) as (_ & _ & Hbf & _). exact Hbf. }
  assert (Hl : map r_is_burst out = lab).
  { apply (nth_ext _ _ false false).
    - rewrite map_length, Hll. exact Hlen.
    - intros i Hi. rewrite map_length, Hlen in Hi. rewrite nth_is_burst.
      destruct (Hrows i Hi) as (_ & _ & _ & _ & _ & _ & _ & Hb). exact Hb. }
  rewrite Hf, Hl. exact Hlab.
Qed.

(* whether a returned row exceeds the four thresholds / reaches the fraction threshold *)
Definition row_qualifies (t : thr4) (r : frow) : bool := qualifies t (feat_of_row r).
Definition row_reaches (t : float) (r : frow) : bool := geb (bf_of_row r) t.

(* a row is labelled iff it lies in an interior window (excluding the first and last cycle) of
   at least n consecutive rows whose four features all exceed the thresholds *)
Theorem compute_features_cycles_label_iff c raw k b t n out i :
  compute_features c raw k b (Cycles t n) = Ok out ->
  (r_is_burst (nth i out frow0) = true <->
   ByC.Proofs.Labels.interior_window (map (row_qualifies t) out) (Z.to_nat n) i).
Proof.
  intros H. apply compute_features_cycles_self in H.
  rewrite <- nth_is_burst.
  rewrite (ByC.Proofs.Labels.labels_cycles_spec _ _ _ _ i H). rewrite map_map. reflexivity.
Qed.

(* the same statement with the window spelled out on the returned columns *)
Corollary compute_features_cycles_label_iff_cols c raw k b t n out i :
  compute_features c raw k b (Cycles t n) = Ok out ->
  (r_is_burst (nth i out frow0) = true <->
   exists a e, 0 < a /\ a <= i < e /\ S e <= length out /\ Z.to_nat n <= e - a /\
     forall j, a <= j < e ->
       let bj := r_burst (nth j out frow0) in
       (t_af t <? b_af bj)%float = true /\ (t_ac t <? b_ac bj)%float = true /\
       (t_pc t <? b_pc bj)%float = true /\ (t_mo t <? b_mo bj)%float = true).
Proof.
  intros H. rewrite (compute_features_cycles_label_iff _ _ _ _ _ _ _ i H).
  unfold ByC.Proofs.Labels.interior_window. rewrite map_length.
  assert (Hq : forall j, nth j (map (row_qualifies t) out) false = true <->
                 j < length out /\ row_qualifies t (nth j out frow0) = true).
  { intros j. destruct (Nat.lt_ge_cases j (length out)) as [Hj|Hj].
    - rewrite (nth_indep _ false (row_qualifies t frow0)) by (rewrite map_length; exact Hj).
      rewrite map_nth. split; [intros E; split; [exact Hj|exact E]|intros [_ E]; exact E].
    - rewrite nth_overflow by (rewrite map_length; exact Hj). split; [discriminate|intros [Hj' _]; lia]. }
  assert (Hr : forall r, row_qualifies t r = true <->
                 (t_af t <? b_af (r_burst r))%float = true /\ (t_ac t <? b_ac (r_burst r))%float = true /\
                 (t_pc t <? b_pc (r_burst r))%float = true /\ (t_mo t <? b_mo (r_burst r))%float = true).
  { intros r. unfold row_qualifies, qualifies, gt, feat_of_row. cbn [f_af f_ac f_pc f_mo].
    rewrite !andb_true_iff. tauto. }
  split.
  - intros (a & e & Ha & Hi & He & Hn & Hall). exists a, e. repeat split; try lia;
      apply Hr, Hq, Hall; assumption.
  - intros (a & e & Ha & Hi & He & Hn & Hall). exists a, e. repeat split; try lia.
    intros j Hj. apply Hq. split; [lia|]. apply Hr. exact (Hall j Hj).
Qed.

(* amplitude method: a row is labelled iff it lies in a window of at least n consecutive rows
   whose burst_fraction reaches the threshold (no forced ends) *)
Theorem compute_features_amp_label_iff c raw k b mask t n out i :
  compute_features c raw k b (Amp mask t n) = Ok out ->
  (r_is_burst (nth i out frow0) = true <-> window (map (row_reaches t) out) (Z.to_nat n) i).
Proof.
  intros H. apply compute_features_amp_self in H.
  rewrite <- nth_is_burst.
  rewrite (ByC.Proofs.Labels.labels_amp_spec _ _ _ _ i H). rewrite map_map. reflexivity.
Qed.

Corollary compute_features_amp_label_iff_cols c raw k b mask t n out i :
  compute_features c raw k b (Amp mask t n) = Ok out ->
  (r_is_burst (nth i out frow0) = true <->
   exists a e, a <= i < e /\ e <= length out /\ Z.to_nat n <= e - a /\
     forall j, a <= j < e -> (t <=? b_bf (r_burst (nth j out frow0)))%float = true).
Proof.
  intros H. rewrite (compute_features_amp_label_iff _ _ _ _ _ _ _ _ i H).
  unfold window. rewrite map_length.
  assert (Hq : forall j, nth j (map (row_reaches t) out) false = true <->
                 j < length out /\ (t <=? b_bf (r_burst (nth j out frow0)))%float = true).
  { intros j. destruct (Nat.lt_ge_cases j (length out)) as [Hj|Hj].
    - rewrite (nth_indep _ false (row_reaches t frow0)) by (rewrite map_length; exact Hj).
      rewrite map_nth. unfold row_reaches, geb, bf_of_row.
      split; [intros E; split; [exact Hj|exact E]|intros [_ E]; exact E].
    - rewrite nth_overflow by (rewrite map_length; exact Hj). split; [discriminate|intros [Hj' _]; lia]. }
  split.
  - intros (a & e & Hi & He & Hn & Hall). exists a, e. repeat split; try lia.
    intros j Hj. apply Hq, Hall, Hj.
  - intros (a & e & Hi & He & Hn & Hall). exists a, e. repeat split; try lia.
    intros j Hj. apply Hq. split; [lia|]. exact (Hall j Hj).
Qed.

(* monotonicity in the threshold: on the same inputs, raising the fraction threshold never
   adds a label *)
Lemma compute_features_amp_mono_full c raw k b mask t t' n out out' :
  finite t = true -> finite t' = true -> PrimFloat.leb t t' = true ->
  compute_features c raw k b (Amp mask t n) = Ok out ->
  compute_features c raw k b (Amp mask t' n) = Ok out' ->
  length out' = length out /\
  forall i, r_is_burst (nth i out' frow0) = true -> r_is_burst (nth i out frow0) = true.
Proof.
  intros Ft Ft' Hle H H'.
  destruct (compute_features_amp_spec _ _ _ _ _ _ _ _ H) as (tab & lab & Htab & _ & Hlen & Hrows).
  destruct (compute_features_amp_spec _ _ _ _ _ _ _ _ H') as (tab' & lab' & Htab' & _ & Hlen' & Hrows').
  cbv zeta in Hrows, Hrows'.
  rewrite Htab in Htab'. inversion Htab' as [Et]. subst tab'. clear Htab'.
  assert (Hbf : map bf_of_row out' = map bf_of_row out).
  { apply (nth_ext _ _ (bf_of_row frow0) (bf_of_row frow0)).
    - rewrite !map_length. lia.
    - intros i Hi. rewrite map_length, Hlen' in Hi. rewrite !map_nth.
      destruct (Hrows i Hi) as (_ & _ & Hb & _). destruct (Hrows' i Hi) as (_ & _ & Hb' & _).
      unfold bf_of_row. rewrite Hb, Hb'. reflexivity. }
  split; [lia|].
  apply compute_features_amp_self in H. apply compute_features_amp_self in H'.
  rewrite Hbf in H'.
  intros i Hi. rewrite <- nth_is_burst in Hi |- *.
  exact (ByC.Proofs.LabelsOrder.labels_amp_mono _ _ _ _ _ _ Ft Ft' Hle H H' i Hi).
Qed.

Theorem compute_features_amp_mono c raw k b mask t t' n out out' :
  finite t = true -> finite t' = true -> PrimFloat.leb t t' = true ->
  compute_features c raw k b (Amp mask t n) = Ok out ->
  compute_features c raw k b (Amp mask t' n) = Ok out' ->
  forall i, r_is_burst (nth i out' frow0) = true -> r_is_burst (nth i out frow0) = true.
Proof.
  intros Ft Ft' Hle H H'.
  exact (proj2 (compute_features_amp_mono_full _ _ _ _ _ _ _ _ _ _ Ft Ft' Hle H H')).
Qed.

(* the same for the consistency method: raising any of the four thresholds (finite values) or
   the minimum run length never adds a label *)
Lemma compute_features_cycles_mono_full c raw k b t t' n n' out out' :
  ByC.Proofs.LabelsOrder.thr_finite t -> ByC.Proofs.LabelsOrder.thr_finite t' ->
  ByC.Proofs.LabelsOrder.thr_le t t' -> (n <= n')%Z ->
  compute_features c raw k b (Cycles t n) = Ok out ->
  compute_features c raw k b (Cycles t' n') = Ok out' ->
  length out' = length out /\
  forall i, r_is_burst (nth i out' frow0) = true -> r_is_burst (nth i out frow0) = true.
Proof.
  intros Ft Ft' Hle Hn H H'.
  destruct (compute_features_cycles_spec _ _ _ _ _ _ _ H)
    as (tab & ac & pc & lab & Htab & Hac & Hpc & _ & Hlen & Hrows).
  destruct (compute_features_cycles_spec _ _ _ _ _ _ _ H')
    as (tab' & ac' & pc' & lab' & Htab' & Hac' & Hpc' & _ & Hlen' & Hrows').
  cbv zeta in Hac, Hpc, Hrows, Hac', Hpc', Hrows'.
  rewrite Htab in Htab'. inversion Htab' as [Et]. subst tab'. clear Htab'.
  rewrite Hac in Hac'. inversion Hac' as [Ea]. subst ac'. clear Hac'.
  rewrite Hpc in Hpc'. inversion Hpc' as [Ep]. subst pc'. clear Hpc'.
  assert (Hf : map feat_of_row out' = map feat_of_row out).
  { apply (nth_ext _ _ (feat_of_row frow0) (feat_of_row frow0)).
    - rewrite !map_length. lia.
    - intros i Hi. rewrite map_length, Hlen' in Hi. rewrite !map_nth.
      destruct (Hrows i Hi) as (_ & _ & H1 & H2 & H3 & H4 & _).
      destruct (Hrows' i Hi) as (_ & _ & H1' & H2' & H3' & H4' & _).
      unfold feat_of_row. rewrite H1, H2, H3, H4, H1', H2', H3', H4'. reflexivity. }
  split; [lia|].
  apply compute_features_cycles_self in H. apply compute_features_cycles_self in H'.
  rewrite Hf in H'.
  intros i Hi. rewrite <- nth_is_burst in Hi |- *.
  exact (ByC.Proofs.LabelsOrder.labels_cycles_mono _ _ _ _ _ _ _ Ft Ft' Hle Hn H H' i Hi).
Qed.

Theorem compute_features_cycles_mono c raw k b t t' n n' out out' :
  ByC.Proofs.LabelsOrder.thr_finite t -> ByC.Proofs.LabelsOrder.thr_finite t' ->
  ByC.Proofs.LabelsOrder.thr_le t t' -> (n <= n')%Z ->
  compute_features c raw k b (Cycles t n) = Ok out ->
  compute_features c raw k b (Cycles t' n') = Ok out' ->
  forall i, r_is_burst (nth i out' frow0) = true -> r_is_burst (nth i out frow0) = true.
Proof.
  intros Ft Ft' Hle Hn H H'.
  exact (proj2 (compute_features_cycles_mono_full _ _ _ _ _ _ _ _ _ _ Ft Ft' Hle Hn H H')).
Qed.

(* the number of rows does not depend on the method or its thresholds *)
Theorem compute_features_length c raw k b m out :
  compute_features c raw k b m = Ok out ->
  exists tab, shape_table c raw k b = Ok tab /\ length out = length tab.
Proof.
  intros H. destruct (ByC.Proofs.Cycles.compute_features_rows_gen _ _ _ _ _ _ H) as (tab & Htab & Hs & _).
  exists tab. split; [exact Htab|].
  rewrite <- (map_length r_s out), Hs, map_length. reflexivity.
Qed.

(* non-vacuity of the monotonicity statements on the periodic example of Proofs/Cycles.v: at
   threshold 0.25 every cycle is labelled (burst_fraction = 4/9), at 0.5 none is *)
Example compute_features_amp_mono_example :
  rmap (map r_is_burst)
    (compute_features Peak ByC.Proofs.Cycles.ex_raw ByC.Proofs.Cycles.ex_k 0
       (Amp ByC.Proofs.Cycles.ex_pos 0.25%float 1)) = Ok [true; true] /\
  rmap (map r_is_burst)
    (compute_features Peak ByC.Proofs.Cycles.ex_raw ByC.Proofs.Cycles.ex_k 0
       (Amp ByC.Proofs.Cycles.ex_pos 0.5%float 1)) = Ok [false; false] /\
  finite 0.25%float = true /\ finite 0.5%float = true /\ (0.25 <=? 0.5)%float = true.
Proof. repeat split; vm_compute; reflexivity. Qed.
