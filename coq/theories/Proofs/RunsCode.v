(* The step-by-step model of the Python code of check_min_burst_cycles (diff / flatnonzero /
   (on, off) pairs / slice clearing) computes the same mask as the one-pass run filter.
   No axioms. *)
From Coq Require Import List Arith Lia Bool.
Import ListNotations.
From ByC Require Import Model.Runs.
From ByC Require Proofs.Runs.

(* the body of the Python loop over the (on, off) pairs *)
Definition step (n : nat) (acc : list bool) (p : nat * nat) : list bool :=
  if (snd p - fst p) <? n then clear_slice (fst p) (snd p) acc else acc.

(* transitions of the suffix l, whose first element has index i, after a sample prev *)
Definition trans (i : nat) (prev : bool) (l : list bool) : list nat :=
  flatnonzero i (diff_pad prev l).

Lemma minrun_code_unfold n l :
  minrun_code n l = fold_left (step n) (pairs (trans 0 false l)) l.
Proof.
  destruct l as [|x t]; [reflexivity|]. reflexivity.
Qed.

Lemma trans_nil_false i : trans i false [] = [].
Proof. reflexivity. Qed.

Lemma trans_nil_true i : trans i true [] = [i].
Proof. reflexivity. Qed.

Lemma trans_false_false i t : trans i false (false :: t) = trans (S i) false t.
Proof. reflexivity. Qed.

Lemma trans_false_true i t : trans i false (true :: t) = i :: trans (S i) true t.
Proof. reflexivity. Qed.

Lemma trans_true_true i t : trans i true (true :: t) = trans (S i) true t.
Proof. reflexivity. Qed.

Lemma trans_true_false i t : trans i true (false :: t) = i :: trans (S i) false t.
Proof. reflexivity. Qed.

(* clearing exactly a block of r Trues that starts right after pre *)
Lemma clear_slice_block pre r post :
  clear_slice (length pre) (length pre + r) (pre ++ repeat true r ++ post)
  = pre ++ repeat false r ++ post.
Proof.
  unfold clear_slice.
  rewrite firstn_app, firstn_all, Nat.sub_diag, firstn_O, app_nil_r.
  rewrite !app_length, repeat_length.
  replace (Init.Nat.min (length pre + r) (length pre + (r + length post)) - length pre)
    with r by lia.
  replace (Init.Nat.max (length pre) (length pre + r)) with (length pre + r) by lia.
  rewrite skipn_app.
  rewrite skipn_all2 by lia.
  replace (length pre + r - length pre) with r by lia.
  rewrite skipn_app, repeat_length, Nat.sub_diag.
  rewrite skipn_all2 by (rewrite repeat_length; lia).
  cbn [skipn app]. reflexivity.
Qed.

(* one loop iteration on the pair delimiting a block of r Trues: kept iff n <= r *)
Lemma step_block n pre r post :
  step n (pre ++ repeat true r ++ post) (length pre, length pre + r)
  = pre ++ repeat (n <=? r) r ++ post.
Proof.
  unfold step. cbn [fst snd].
  replace (length pre + r - length pre) with r by lia.
  destruct (r <? n) eqn:Hlt.
  - apply Nat.ltb_lt in Hlt.
    assert (Hle : (n <=? r) = false) by (apply Nat.leb_gt; lia).
    rewrite Hle. apply clear_slice_block.
  - apply Nat.ltb_ge in Hlt.
    assert (Hle : (n <=? r) = true) by (apply Nat.leb_le; lia).
    rewrite Hle. reflexivity.
Qed.

Lemma repeat_true_snoc r (t : list bool) :
  repeat true r ++ true :: t = repeat true (S r) ++ t.
Proof.
  induction r as [|r IH]; cbn [repeat app].
  - reflexivity.
  - f_equal. exact IH.
Qed.

(* The loop invariant, for both values of the previous sample.
   (A) previous sample False, the suffix l starts at index length pre, pre is final;
   (B) previous sample True, a run of r Trues starting at index length pre is open. *)
Lemma fold_go n l :
  (forall pre,
     fold_left (step n) (pairs (trans (length pre) false l)) (pre ++ l)
     = pre ++ go n 0 l)
  /\
  (forall pre r,
     fold_left (step n) (pairs (length pre :: trans (length pre + r) true l))
               (pre ++ repeat true r ++ l)
     = pre ++ go n r l).
Proof.
  induction l as [|x t IH].
  - split.
    + intros pre. rewrite trans_nil_false. cbn [pairs fold_left go repeat]. reflexivity.
    + intros pre r. rewrite trans_nil_true. cbn [pairs fold_left go].
      rewrite step_block, app_nil_r. reflexivity.
  - destruct IH as [IHA IHB]. destruct x.
    + split.
      * intros pre. rewrite trans_false_true. cbn [go].
        specialize (IHB pre 1).
        replace (length pre + 1) with (S (length pre)) in IHB by lia.
        cbn [repeat app] in IHB. exact IHB.
      * intros pre r. rewrite trans_true_true. cbn [go].
        rewrite repeat_true_snoc.
        specialize (IHB pre (S r)).
        replace (length pre + S r) with (S (length pre + r)) in IHB by lia.
        exact IHB.
    + split.
      * intros pre. rewrite trans_false_false. cbn [go repeat app].
        specialize (IHA (pre ++ [false])).
        rewrite app_length in IHA. cbn [length] in IHA.
        replace (length pre + 1) with (S (length pre)) in IHA by lia.
        rewrite <- !app_assoc in IHA. cbn [app] in IHA. exact IHA.
      * intros pre r. rewrite trans_true_false. cbn [pairs fold_left go].
        rewrite step_block.
        specialize (IHA (pre ++ repeat (n <=? r) r ++ [false])).
        rewrite !app_length, repeat_length in IHA. cbn [length] in IHA.
        replace (length pre + (r + 1)) with (S (length pre + r)) in IHA by lia.
        rewrite <- !app_assoc in IHA. cbn [app] in IHA. exact IHA.
Qed.

(* the pairs are well formed: the number of transitions of the padded array is even *)
Lemma trans_parity i prev l :
  Nat.even (length (trans i prev l)) = negb prev.
Proof.
  revert i prev; induction l as [|x t IH]; intros i prev.
  - destruct prev; reflexivity.
  - destruct prev, x.
    + rewrite trans_true_true. apply IH.
    + rewrite trans_true_false.
      change (Nat.even (S (length (trans (S i) false t))) = negb true).
      rewrite Nat.even_succ, <- Nat.negb_even, IH. reflexivity.
    + rewrite trans_false_true.
      change (Nat.even (S (length (trans (S i) true t))) = negb false).
      rewrite Nat.even_succ, <- Nat.negb_even, IH. reflexivity.
    + rewrite trans_false_false. apply IH.
Qed.

Theorem transitions_even l :
  Nat.even (length (flatnonzero 0 (diff_pad false l))) = true.
Proof. apply (trans_parity 0 false l). Qed.

Theorem minrun_code_eq n l : minrun_code n l = minrun n l.
Proof.
  rewrite minrun_code_unfold. unfold minrun.
  destruct (fold_go n l) as [HA _].
  exact (HA []).
Qed.

(* consequences transported from the one-pass filter *)
Corollary minrun_code_length n l : length (minrun_code n l) = length l.
Proof. rewrite minrun_code_eq. apply Runs.minrun_length. Qed.

Corollary minrun_code_spec n l i :
  nth i (minrun_code n l) false = true <-> window l n i.
Proof. rewrite minrun_code_eq. apply Runs.minrun_spec. Qed.

Corollary minrun_code_le n l i :
  nth i (minrun_code n l) false = true -> nth i l false = true.
Proof. rewrite minrun_code_eq. apply Runs.minrun_le. Qed.

Corollary minrun_code_idem n l : minrun_code n (minrun_code n l) = minrun_code n l.
Proof. rewrite !minrun_code_eq. apply Runs.minrun_idem. Qed.

(* ------------------------------------------------------------------ *)
(* The (on, off) pairs are exactly the maximal runs of True            *)

Definition maximal_run (l : list bool) (a b : nat) : Prop :=
  a < b /\ b <= length l /\
  (forall j, a <= j < b -> nth j l false = true) /\
  nth b l false = false /\
  (a = 0 \/ nth (a - 1) l false = false).

(* the same, for a suffix l whose first element has index i and which follows a False *)
Definition runA (i : nat) (l : list bool) (a b : nat) : Prop :=
  i <= a /\ a < b /\ b <= i + length l /\
  (forall j, a <= j < b -> nth (j - i) l false = true) /\
  nth (b - i) l false = false /\
  (a = i \/ nth (a - 1 - i) l false = false).

(* ... and for a suffix that follows a True belonging to a run opened at index s *)
Definition runB (s i : nat) (l : list bool) (a b : nat) : Prop :=
  (a = s /\ i <= b /\ b <= i + length l /\
   (forall j, i <= j < b -> nth (j - i) l false = true) /\
   nth (b - i) l false = false)
  \/ (i < a /\ runA i l a b /\ nth (a - 1 - i) l false = false).

Lemma nth_shift (x : bool) t i j : i < j -> nth (j - i) (x :: t) false = nth (j - S i) t false.
Proof. intros H. replace (j - i) with (S (j - S i)) by lia. reflexivity. Qed.

Lemma nth_here (x : bool) t i : nth (i - i) (x :: t) false = x.
Proof. rewrite Nat.sub_diag. reflexivity. Qed.

Lemma runA_false_cons i t a b : runA i (false :: t) a b <-> runA (S i) t a b.
Proof.
  unfold runA. cbn [length]. split.
  - intros (H1 & H2 & H3 & H4 & H5 & H6).
    assert (Ha : i < a).
    { destruct (Nat.eq_dec a i) as [->|Hne]; [|lia].
      specialize (H4 i ltac:(lia)). rewrite nth_here in H4. discriminate. }
    split; [lia|]. split; [lia|]. split; [lia|]. split; [|split].
    + intros j Hj. rewrite <- (nth_shift false) by lia. apply H4, Hj.
    + rewrite <- (nth_shift false) by lia. exact H5.
    + destruct (Nat.eq_dec a (S i)) as [->|Hne]; [left; reflexivity|right].
      destruct H6 as [H6|H6]; [lia|]. rewrite <- (nth_shift false) by lia. exact H6.
  - intros (H1 & H2 & H3 & H4 & H5 & H6).
    split; [lia|]. split; [lia|]. split; [lia|]. split; [|split].
    + intros j Hj. rewrite nth_shift by lia. apply H4, Hj.
    + rewrite nth_shift by lia. exact H5.
    + right. destruct H6 as [->|H6].
      * replace (S i - 1 - i) with 0 by lia. reflexivity.
      * destruct (Nat.eq_dec a (S i)) as [->|Hne].
        -- replace (S i - 1 - i) with 0 by lia. reflexivity.
        -- rewrite nth_shift by lia. exact H6.
Qed.

Lemma runA_true_cons i t a b : runA i (true :: t) a b <-> runB i (S i) t a b.
Proof.
  unfold runB, runA. cbn [length]. split.
  - intros (H1 & H2 & H3 & H4 & H5 & H6).
    destruct (Nat.eq_dec a i) as [->|Hne].
    + left. split; [reflexivity|]. split; [lia|]. split; [lia|]. split.
      * intros j Hj. rewrite <- (nth_shift true) by lia. apply H4. lia.
      * rewrite <- (nth_shift true) by lia. exact H5.
    + right. destruct H6 as [H6|H6]; [lia|].
      assert (Ha : S i < a).
      { destruct (Nat.eq_dec a (S i)) as [->|Hne']; [|lia].
        replace (S i - 1 - i) with 0 in H6 by lia. discriminate. }
      split; [exact Ha|].
      assert (H6' : nth (a - 1 - S i) t false = false)
        by (rewrite <- (nth_shift true) by lia; exact H6).
      split; [|exact H6'].
      split; [lia|]. split; [lia|]. split; [lia|]. split; [|split].
      * intros j Hj. rewrite <- (nth_shift true) by lia. apply H4, Hj.
      * rewrite <- (nth_shift true) by lia. exact H5.
      * right. exact H6'.
  - intros [(H1 & H2 & H3 & H4 & H5)|(Ha & (H1 & H2 & H3 & H4 & H5 & _) & H6)].
    + subst a. split; [lia|]. split; [lia|]. split; [lia|]. split; [|split].
      * intros j Hj. destruct (Nat.eq_dec j i) as [->|Hne]; [apply nth_here|].
        rewrite nth_shift by lia. apply H4. lia.
      * rewrite nth_shift by lia. exact H5.
      * left. reflexivity.
    + split; [lia|]. split; [lia|]. split; [lia|]. split; [|split].
      * intros j Hj. rewrite nth_shift by lia. apply H4, Hj.
      * rewrite nth_shift by lia. exact H5.
      * right. rewrite nth_shift by lia. exact H6.
Qed.

Lemma runB_true_cons s i t a b : runB s i (true :: t) a b <-> runB s (S i) t a b.
Proof.
  unfold runB. split.
  - intros [(H1 & H2 & H3 & H4 & H5)|(Ha & HA & H6)].
    + left. cbn [length] in H3.
      assert (Hb : i < b).
      { destruct (Nat.eq_dec b i) as [->|Hne]; [|lia]. rewrite nth_here in H5. discriminate. }
      split; [exact H1|]. split; [lia|]. split; [lia|]. split.
      * intros j Hj. rewrite <- (nth_shift true) by lia. apply H4. lia.
      * rewrite <- (nth_shift true) by lia. exact H5.
    + right.
      assert (Ha' : S i < a).
      { destruct (Nat.eq_dec a (S i)) as [->|Hne']; [|lia].
        replace (S i - 1 - i) with 0 in H6 by lia. discriminate. }
      assert (H6' : nth (a - 1 - S i) t false = false)
        by (rewrite <- (nth_shift true) by lia; exact H6).
      split; [exact Ha'|]. split; [|exact H6'].
      unfold runA in *. cbn [length] in HA. destruct HA as (H1 & H2 & H3 & H4 & H5 & _).
      split; [lia|]. split; [lia|]. split; [lia|]. split; [|split].
      * intros j Hj. rewrite <- (nth_shift true) by lia. apply H4, Hj.
      * rewrite <- (nth_shift true) by lia. exact H5.
      * right. exact H6'.
  - intros [(H1 & H2 & H3 & H4 & H5)|(Ha & HA & H6)].
    + left. cbn [length]. split; [exact H1|]. split; [lia|]. split; [lia|]. split.
      * intros j Hj. destruct (Nat.eq_dec j i) as [->|Hne]; [apply nth_here|].
        rewrite nth_shift by lia. apply H4. lia.
      * rewrite nth_shift by lia. exact H5.
    + right. split; [lia|].
      assert (H6' : nth (a - 1 - i) (true :: t) false = false)
        by (rewrite nth_shift by lia; exact H6).
      split; [|exact H6'].
      unfold runA in *. cbn [length]. destruct HA as (H1 & H2 & H3 & H4 & H5 & _).
      split; [lia|]. split; [lia|]. split; [lia|]. split; [|split].
      * intros j Hj. rewrite nth_shift by lia. apply H4, Hj.
      * rewrite nth_shift by lia. exact H5.
      * right. exact H6'.
Qed.

Lemma runB_false_cons s i t a b :
  runB s i (false :: t) a b <-> ((s, i) = (a, b) \/ runA (S i) t a b).
Proof.
  unfold runB. split.
  - intros [(H1 & H2 & H3 & H4 & H5)|(Ha & HA & H6)].
    + left. assert (b = i).
      { destruct (Nat.eq_dec b i) as [E|Hne]; [exact E|].
        specialize (H4 i ltac:(lia)). rewrite nth_here in H4. discriminate. }
      subst. reflexivity.
    + right. apply runA_false_cons. exact HA.
  - intros [E|HA].
    + inversion E; subst a b. left. cbn [length].
      split; [reflexivity|]. split; [lia|]. split; [lia|]. split.
      * intros j Hj. lia.
      * apply nth_here.
    + right. assert (HA' := proj2 (runA_false_cons i t a b) HA).
      destruct HA as (H1 & _ & _ & _ & _ & H6).
      split; [lia|]. split; [exact HA'|].
      destruct (Nat.eq_dec a (S i)) as [->|Hne].
      * replace (S i - 1 - i) with 0 by lia. reflexivity.
      * destruct H6 as [H6|H6]; [lia|]. rewrite nth_shift by lia. exact H6.
Qed.

Lemma pairs_runs l a b :
  (forall i, In (a, b) (pairs (trans i false l)) <-> runA i l a b) /\
  (forall s i, In (a, b) (pairs (s :: trans i true l)) <-> runB s i l a b).
Proof.
  induction l as [|x t IH].
  - split.
    + intros i. rewrite trans_nil_false. cbn [pairs In]. unfold runA. cbn [length].
      split; [intros []|lia].
    + intros s i. rewrite trans_nil_true. cbn [pairs In]. unfold runB, runA. cbn [length]. split.
      * intros [E|[]]. inversion E; subst a b. left.
        split; [reflexivity|]. split; [lia|]. split; [lia|]. split.
        -- intros j Hj. lia.
        -- destruct (i - i); reflexivity.
      * intros [(H1 & H2 & H3 & _)|(_ & H & _)]; [|lia].
        left. f_equal; lia.
  - destruct IH as [IHA IHB]. destruct x.
    + split.
      * intros i. rewrite trans_false_true, IHB. symmetry. apply runA_true_cons.
      * intros s i. rewrite trans_true_true, IHB. symmetry. apply runB_true_cons.
    + split.
      * intros i. rewrite trans_false_false, IHA. symmetry. apply runA_false_cons.
      * intros s i. rewrite trans_true_false. cbn [pairs In]. rewrite IHA.
        symmetry. apply runB_false_cons.
Qed.

Theorem pairs_maximal_runs l a b :
  In (a, b) (pairs (flatnonzero 0 (diff_pad false l))) <-> maximal_run l a b.
Proof.
  destruct (pairs_runs l a b) as [HA _]. specialize (HA 0).
  unfold trans in HA. rewrite HA. unfold runA, maximal_run.
  split.
  - intros (_ & H2 & H3 & H4 & H5 & H6).
    split; [exact H2|]. split; [lia|]. split; [|split].
    + intros j Hj. specialize (H4 j Hj). rewrite Nat.sub_0_r in H4. exact H4.
    + rewrite Nat.sub_0_r in H5. exact H5.
    + rewrite Nat.sub_0_r in H6. exact H6.
  - intros (H2 & H3 & H4 & H5 & H6).
    split; [lia|]. split; [exact H2|]. split; [lia|]. split; [|split].
    + intros j Hj. rewrite Nat.sub_0_r. apply H4, Hj.
    + rewrite Nat.sub_0_r. exact H5.
    + rewrite Nat.sub_0_r. exact H6.
Qed.
