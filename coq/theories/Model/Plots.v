(* What the plots draw (plts/cyclepoints.py, plts/burst.py), C20 — as repaired: the window
   offset is the NEAREST sample index to fs*start (not the truncation), and span ends are
   clipped to the view.  A view is (s0, n): first sample shown and number of samples shown;
   `off` is the offset the code subtracts from sample indices. *)
From Coq Require Import List Bool Arith ZArith Floats.PrimFloat.
Import ListNotations.
From ByC Require Import Base.Result Base.ListAux Base.FloatBase Harness.Compare Model.Cycles Model.Window.

(* markers of one cyclepoint series: points p with first <= p < last sample of the view
   (`points >= times[0]*fs` and `points < times[-1]*fs`), drawn at index p - off of the view *)
Definition markers (s0 : Z) (n : nat) (off : Z) (pts : list Z) : list Z :=
  map (fun p => (p - off)%Z) (filter (fun p => (s0 <=? p)%Z && (p <? s0 + Z.of_nat n - 1)%Z) pts).

(* highlighted samples of the summary: union over labelled rows of [last - off, next + 1 - off),
   clipped to the view (numpy slice assignment) *)
Definition in_burst_span (off : Z) (rows : list (srow * bool)) (i : Z) : bool :=
  existsb (fun rl => snd rl && (s_last (fst rl) - off <=? i)%Z && (i <? s_next (fst rl) + 1 - off)%Z) rows.
Definition burst_mask (n : nat) (off : Z) (rows : list (srow * bool)) : list bool :=
  map (fun i => in_burst_span off rows (Z.of_nat i)) (seq 0 n).

(* parameter panel (interp=True): one point per cycle of the window-limited table at its centre *)
Definition panel_points {V} (off : Z) (rows : list (srow * V)) : list (Z * V) :=
  map (fun rv => ((s_center (fst rv) - off)%Z, snd rv)) rows.

(* parameter panel as drawn under x-limits: of the window-limited table only the cycles whose two
   side extrema lie on the limited time axis are kept (`last - off >= 0` and `next - off < len(times)`);
   interp=True draws one point per such cycle at its centre, interp=False two points per cycle,
   at its last and its next side extremum, both carrying the cycle's value (a step).
   With no x-limits (off = 0, n = length of the recording) the restriction keeps every row. *)
Definition in_panel_view (n : nat) (off : Z) (r : srow) : bool :=
  (0 <=? s_last r - off)%Z && (s_next r - off <? Z.of_nat n)%Z.
Definition panel_rows {V} (n : nat) (off : Z) (rows : list (srow * V)) : list (srow * V) :=
  filter (fun rv => in_panel_view n off (fst rv)) rows.
Definition panel_interp {V} (n : nat) (off : Z) (rows : list (srow * V)) : list (Z * V) :=
  panel_points off (panel_rows n off rows).
Definition panel_steps {V} (n : nat) (off : Z) (rows : list (srow * V)) : list (Z * V) :=
  flat_map (fun rv => [((s_last (fst rv) - off)%Z, snd rv); ((s_next (fst rv) - off)%Z, snd rv)])
           (panel_rows n off rows).

(* the pre-repair offset (Legacy): int(times[0] * fs) truncates *)
Definition offset_legacy (fs t0 : float) : Z := F2Z_trunc (t0 * fs)%float.
Definition offset_repaired (fs t0 : float) : Z := F2Z_round (t0 * fs)%float.

(* correspondence *)
Definition run_markers (x : Z * nat * Z * list Z) : list Z := let '(s0, n, off, pts) := x in markers s0 n off pts.
Definition bad_markers := report run_markers (list_eqb Z.eqb).
Definition mk_lrow (x : (Z * Z) * bool) : srow * bool :=
  let '((l, nx), b) := x in (Build_srow 0 l nx 0 0 0, b).
Definition run_burst_mask (x : nat * Z * list ((Z * Z) * bool)) : list bool :=
  let '(n, off, rows) := x in burst_mask n off (map mk_lrow rows).
Definition eq_barr (got : list bool) (want : barr) : bool := list_eqb Bool.eqb got (barr_bits want).
Definition bad_burst_mask (cases : list (N * (nat * Z * list ((Z * Z) * bool)) * barr)) : N * list N :=
  (N.of_nat (length cases),
   map (fun c => fst (fst c)) (filter (fun c => negb (eq_barr (run_burst_mask (snd (fst c))) (snd c))) cases)).
Definition run_offset (x : float * list float) : list Z := map (offset_repaired (fst x)) (snd x).
Definition bad_offset := report run_offset (list_eqb Z.eqb).

(* ------------------------------------------------------------------------------------------ *)
(* the window selection of the summary: limit_df(df, fs, start = xlim[0], stop = xlim[1]) keeps a cycle iff the time
   stamps of its first and last sample lie within the limits (Model/Window.v keep_row, as repaired: sample / fs compared
   with the limits).  lim = (fs, start, stop); None = no x-limits *)
Definition view_rows {V} (lim : option (float * float * float)) (rows : list (srow * V)) : list (srow * V) :=
  match lim with
  | None => rows
  | Some (fs, a, b) => filter (keep_row fs (Some a) (Some b)) rows
  end.
(* before the repair (Legacy): sample indices compared with start*fs, stop*fs *)
Definition view_rows_legacy {V} (lim : option (float * float * float)) (rows : list (srow * V)) : list (srow * V) :=
  match lim with
  | None => rows
  | Some (fs, a, b) => filter (keep_row_legacy fs (Some a) (Some b)) rows
  end.

(* np.unique(np.append(last, next)): the side extrema of a table, sorted, each once *)
Fixpoint zinsert (x : Z) (l : list Z) : list Z :=
  match l with
  | [] => [x]
  | y :: t => if (x <? y)%Z then x :: l else if (x =? y)%Z then l else y :: zinsert x t
  end.
Definition zunique (l : list Z) : list Z := fold_right zinsert [] l.
Definition side_extrema (rows : list srow) : list Z := zunique (map s_last rows ++ map s_next rows).

From Coq Require Import String.   (* after everything that uses List.length *)

(* the threshold dictionary of the summary, in insertion order: (key, value).  One panel per key other than
   min_n_cycles, in dictionary order; the threshold line of a panel is the value stored under that panel's key *)
Definition threshold_of (given : list (string * float)) (k : string) : option float :=
  option_map snd (find (fun kv => String.eqb (fst kv) k) given).
Definition panel_keys (given : list (string * float)) : list string :=
  filter (fun k => negb (String.eqb k "min_n_cycles")) (map fst given).
Definition summary_panels (given : list (string * float)) : list (string * option float) :=
  map (fun k => (k, threshold_of given k)) (panel_keys given).
(* Bycycle(thresholds = ...) renames a key written in shorthand (`monotonicity` for `monotonicity_threshold`) by
   pop + re-insert, which moves it behind the keys written in full.  Entries: ((full key, written in shorthand), value) *)
Definition object_thresholds (user : list (string * bool * float)) : list (string * float) :=
  map (fun e => (fst (fst e), snd e)) (filter (fun e => negb (snd (fst e))) user ++ filter (fun e => snd (fst e)) user).
Definition function_thresholds (user : list (string * bool * float)) : list (string * float) :=
  map (fun e => (fst (fst e), snd e)) user.

(* the burst summary as a whole (plot_burst_detect_summary / Bycycle.plot): highlighted samples, the two
   extrema marker series of the window-limited table, and per parameter panel the threshold line and the point list.
   rows: ((centre, last, next), is_burst, values) of the WHOLE table, values in the order of colnames (the
   threshold keys whose columns they are); lim: the x-limits; user: the thresholds as written by the caller;
   via_object: through Bycycle(...).plot.  Markers on the first sample of the view are left out on both sides
   (their selection depends on a float product the property does not constrain). *)
Definition summ_row := ((Z * Z * Z) * bool * list float)%type.
Definition mk_vrow (x : summ_row) : srow * (bool * list float) :=
  let '((c, l, nx), b, vs) := x in (Build_srow c l nx 0 0 0, (b, vs)).
Fixpoint index_of_str (k : string) (l : list string) : nat :=
  match l with [] => O | x :: t => if String.eqb x k then O else S (index_of_str k t) end.
Definition summ_in := (nat * Z * option (float * float * float) * list string * list summ_row * bool * bool * bool
                       * list (string * bool * float))%type.
Definition summ_out := (barr * (list Z * list Z) * list (option float * list (Z * float)))%type.
Definition run_summary (x : summ_in) : list bool * (list Z * list Z) * list (option float * list (Z * float)) :=
  let '(n, off, lim, colnames, rows, interp, with_panels, via_object, user) := x in
  let kept := view_rows lim (map mk_vrow rows) in
  let lab := map (fun r => (fst r, fst (snd r))) kept in
  let drop0 := filter (fun p => negb (p =? off)%Z) in
  let given := if via_object then object_thresholds user else function_thresholds user in
  (burst_mask n off lab,
   (markers off n off (drop0 (map (fun r => s_center (fst r)) kept)),
    markers off n off (drop0 (side_extrema (map fst kept)))),
   if with_panels
   then map (fun kt => let i := index_of_str (fst kt) colnames in
                       let rv := map (fun r => (fst r, nth i (snd (snd r)) nan)) kept in
                       (snd kt, if interp then panel_interp n off rv else panel_steps n off rv))
            (summary_panels given)
   else []).
Definition zf_eqb (a b : Z * float) : bool := Z.eqb (fst a) (fst b) && fexact (snd a) (snd b).
Definition panel_eqb (a b : option float * list (Z * float)) : bool :=
  option_eqb fexact (fst a) (fst b) && list_eqb zf_eqb (snd a) (snd b).
Definition summary_eqb (got : list bool * (list Z * list Z) * list (option float * list (Z * float))) (want : summ_out) : bool :=
  let '(m, (p, t), ps) := got in
  let '(wm, (wp, wt), wps) := want in
  eq_barr m wm && list_eqb Z.eqb p wp && list_eqb Z.eqb t wt && list_eqb panel_eqb ps wps.
Definition bad_summary (cases : list (N * summ_in * summ_out)) : N * list N :=
  (N.of_nat (List.length cases),
   map (fun c => fst (fst c)) (filter (fun c => negb (summary_eqb (run_summary (snd (fst c))) (snd c))) cases)).
