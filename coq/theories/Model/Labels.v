(* Burst labelling (C06 consistency rule, C07 amplitude rule): thresholds, forced ends,
   minimum-run filter.  Sample values are binary64 (Coq primitive floats), compared with
   the IEEE predicates, so NaN features never qualify. *)
From Coq Require Import List Bool ZArith Floats.PrimFloat.
Import ListNotations.
From ByC Require Import Base.Result Harness.Compare Model.Runs.
Local Open Scope float_scope.

Record feat4 := { f_af : float; f_ac : float; f_pc : float; f_mo : float }.
Record thr4 := { t_af : float; t_ac : float; t_pc : float; t_mo : float }.

(* neurodsp check_param_range: raise when x < lo or x > hi (so NaN passes) *)
Definition in_range (x lo hi : float) : bool := negb ((x <? lo) || (hi <? x)).
Definition thr_valid (t : thr4) : bool :=
  in_range (t_af t) 0 1 && in_range (t_ac t) 0 1 && in_range (t_pc t) 0 1 && in_range (t_mo t) 0 1.

Definition gt (x t : float) : bool := t <? x.
Definition qualifies (t : thr4) (r : feat4) : bool :=
  gt (f_af r) (t_af t) && gt (f_ac r) (t_ac t) && gt (f_pc r) (t_pc t) && gt (f_mo r) (t_mo t).

(* is_burst[0] = False; is_burst[-1] = False *)
Definition force_ends (l : list bool) : list bool :=
  match l with
  | [] => []
  | _ :: t => false :: removelast t ++ (match t with [] => [] | _ => [false] end)
  end.

(* detect_bursts_cycles: range checks, then thresholds, forced ends, run filter.
   n is the caller's min_n_cycles (an integer; negative values are rejected). *)
Definition labels_cycles (t : thr4) (n : Z) (rows : list feat4) : result (list bool) :=
  if negb (thr_valid t) then Err EValue
  else match rows with
       | [] => Ok []        (* empty table: empty label column (the run filter returns early) *)
       | _ => if (n <? 0)%Z then Err EValue
              else Ok (minrun (Z.to_nat n) (force_ends (map (qualifies t) rows)))
       end.

(* detect_bursts_amp: burst_fraction >= threshold, then the run filter; no forced ends *)
Definition geb (x t : float) : bool := t <=? x.
Definition labels_amp (t : float) (n : Z) (fr : list float) : result (list bool) :=
  if negb (in_range t 0 1) then Err EValue
  else match fr with
       | [] => Ok []
       | _ => if (n <? 0)%Z then Err EValue
              else Ok (minrun (Z.to_nat n) (map (fun f => geb f t) fr))
       end.

(* min_n_cycles reconciliation in compute_features (features.py:129-137): the burst
   options' value if given, else the thresholds' value, else 3 — for both consumers *)
Definition resolve_min_n (bk tk : option Z) : Z :=
  match bk with Some b => b | None => match tk with Some t => t | None => 3%Z end end.
(* what the sample-wise detector receives / what the run filter receives *)
Definition detector_min_n (bk tk : option Z) : Z := resolve_min_n bk tk.
Definition filter_min_n (bk tk : option Z) : Z :=
  match bk with Some b => b | None => match tk with Some t => t | None => 3%Z end end.

(* correspondence entry points *)
Definition mk_feat (x : float * float * float * float) : feat4 :=
  let '(a, b, c, d) := x in {| f_af := a; f_ac := b; f_pc := c; f_mo := d |}.
Definition mk_thr (x : float * float * float * float) : thr4 :=
  let '(a, b, c, d) := x in {| t_af := a; t_ac := b; t_pc := c; t_mo := d |}.
Definition run_labels_cycles (x : (float * float * float * float) * Z * list (float * float * float * float))
  : result (list bool) :=
  let '(t, n, rows) := x in labels_cycles (mk_thr t) n (map mk_feat rows).
Definition run_labels_amp (x : float * Z * list float) : result (list bool) :=
  let '(t, n, fr) := x in labels_amp t n fr.
Definition eq_labels (a b : result (list bool)) : bool := result_eqb (list_eqb Bool.eqb) a b.
Definition bad_labels_cycles := report run_labels_cycles eq_labels.
Definition bad_labels_amp := report run_labels_amp eq_labels.
