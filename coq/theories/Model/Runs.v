(* Model of bycycle.burst.utils.check_min_burst_cycles (C08; used by C06, C07, C13, C16).
   One pass carrying the length of the current run of True; a run is emitted, kept or
   cleared as a whole, when it ends. *)
From Coq Require Import List Arith Bool NArith.
Import ListNotations.
From ByC Require Import Base.Result Harness.Compare.

Fixpoint go (n run : nat) (l : list bool) : list bool :=
  match l with
  | [] => repeat (n <=? run) run
  | true :: t => go n (S run) t
  | false :: t => repeat (n <=? run) run ++ false :: go n 0 t
  end.

Definition minrun (n : nat) (l : list bool) : list bool := go n 0 l.

(* The code path, step by step (burst/utils.py:44-57): padded first difference, indices
   of the non-zero entries, (on, off) pairs by parity, clearing of the short ones. *)
Fixpoint diff_pad (prev : bool) (l : list bool) : list bool :=   (* true = transition *)
  match l with
  | [] => [xorb prev false]
  | x :: t => xorb prev x :: diff_pad x t
  end.
Fixpoint flatnonzero (i : nat) (d : list bool) : list nat :=
  match d with
  | [] => []
  | true :: t => i :: flatnonzero (S i) t
  | false :: t => flatnonzero (S i) t
  end.
Fixpoint pairs (tr : list nat) : list (nat * nat) :=
  match tr with
  | a :: b :: t => (a, b) :: pairs t
  | _ => []
  end.
Definition clear_slice (a b : nat) (l : list bool) : list bool :=
  firstn a l ++ repeat false (min b (length l) - a) ++ skipn (max a b) l.
Definition minrun_code (n : nat) (l : list bool) : list bool :=
  match l with
  | [] => []
  | _ =>
    let tr := flatnonzero 0 (diff_pad false l) in
    fold_left (fun acc p => if (snd p - fst p) <? n then clear_slice (fst p) (snd p) acc else acc)
              (pairs tr) l
  end.

(* the window characterisation, as a Prop and as an executable test *)
Definition window (l : list bool) (n i : nat) : Prop :=
  exists a b, a <= i < b /\ b <= length l /\ n <= b - a /\
              forall j, a <= j < b -> nth j l false = true.

(* correspondence entry points *)
Definition run_minrun (x : barr * nat) : list bool := minrun (snd x) (barr_bits (fst x)).
Definition run_minrun_code (x : barr * nat) : list bool := minrun_code (snd x) (barr_bits (fst x)).
Definition eq_mask (got : list bool) (want : barr) : bool := list_eqb Bool.eqb got (barr_bits want).
Definition bad_minrun (cases : list (N * (barr * nat) * barr)) : N * list N :=
  (N.of_nat (length cases),
   map (fun c => fst (fst c))
     (filter (fun c => negb (eq_mask (run_minrun (snd (fst c))) (snd c)
                             && eq_mask (run_minrun_code (snd (fst c))) (snd c))) cases)).
