(* Correspondence instance of the purity model (C15): the environment is the list of content
   hashes of the shared argument objects; a call is identified by its kind; its result is a
   function of (kind, environment) only.  The observable is the final environment and, for every
   call, the position of the first equal call (equal calls give equal results). *)
From Coq Require Import List Bool Arith ZArith NArith.
Import ListNotations.
From ByC Require Import Base.Result Harness.Compare Model.Objects.

Definition id_call (e : list Z) (a : nat) : nat * list Z := (a, e).
Fixpoint first_pos (a : nat) (l : list nat) (i : nat) : nat :=
  match l with [] => i | x :: t => if Nat.eqb x a then i else first_pos a t (S i) end.
Definition classes (calls : list nat) : list nat :=
  map (fun ia => first_pos (snd ia) calls 0) (combine (seq 0 (length calls)) calls).
Definition run_purity (x : list Z * list nat) : list Z * list nat :=
  let '(env, calls) := x in
  let '(env', _) := run_calls id_call env calls in (env', classes calls).
Definition eq_purity (a b : list Z * list nat) : bool :=
  list_eqb Z.eqb (fst a) (fst b) && list_eqb Nat.eqb (snd a) (snd b).
Definition bad_purity := report run_purity eq_purity.

(* ------------------------------------------------------------------------------------------ *)
(* Clean-room design (WP9).  The library is modelled with everything a Python module can do to
   break C15: a call reads and updates a HIDDEN state (module globals, caches, flags), reads the
   environment of argument objects and may hand back a modified environment.  Between calls the
   USER may edit the environment in any way (in-place scaling of the signal, refilling a buffer,
   editing an option dictionary entry, replacing a table column) — that is legitimate.
   The clean-room reference of a call is the same call executed on the CURRENT environment in a
   freshly started process: hidden state [s0]. *)
Section CleanRoom.
Context {St Env Arg Res Mut : Type}.
Variable lib : St -> Env -> Arg -> St * Env * Res.
Variable s0 : St.
Variable user : Mut -> Env -> Env.

Inductive hstep : Type := HCall (a : Arg) | HMut (m : Mut).

Definition lib_st (s : St) (e : Env) (a : Arg) : St := fst (fst (lib s e a)).
Definition lib_env (s : St) (e : Env) (a : Arg) : Env := snd (fst (lib s e a)).
Definition lib_res (s : St) (e : Env) (a : Arg) : Res := snd (lib s e a).

(* a history, executed in ONE process starting in hidden state s: final hidden state, final
   environment, and for every call the environment it was made on, its argument and its result *)
Fixpoint run_hist (s : St) (e : Env) (l : list hstep) : St * Env * list (Env * Arg * Res) :=
  match l with
  | [] => (s, e, [])
  | HCall a :: t =>
      let '(s2, e2, tr) := run_hist (lib_st s e a) (lib_env s e a) t in
      (s2, e2, (e, a, lib_res s e a) :: tr)
  | HMut m :: t => run_hist s (user m e) t
  end.
Definition hist_state (s : St) (e : Env) (l : list hstep) : St := fst (fst (run_hist s e l)).
Definition hist_env (s : St) (e : Env) (l : list hstep) : Env := snd (fst (run_hist s e l)).
Definition hist_trace (s : St) (e : Env) (l : list hstep) : list (Env * Arg * Res) := snd (run_hist s e l).

(* the clean-room call: pristine hidden state, current environment *)
Definition cleanroom (e : Env) (a : Arg) : Res := lib_res s0 e a.

(* what the user alone does to the environment, and the calls as the user sees them *)
Fixpoint user_env (e : Env) (l : list hstep) : Env :=
  match l with
  | [] => e
  | HCall _ :: t => user_env e t
  | HMut m :: t => user_env (user m e) t
  end.
Fixpoint user_calls (e : Env) (l : list hstep) : list (Env * Arg) :=
  match l with
  | [] => []
  | HCall a :: t => (e, a) :: user_calls e t
  | HMut m :: t => user_calls (user m e) t
  end.

(* C15 for one call: the result is a function of the argument values, whatever happened before
   in the process, and the argument objects are handed back unchanged *)
Definition value_function : Prop :=
  forall s e a, lib_res s e a = cleanroom e a /\ lib_env s e a = e.

(* what the check observes on a history started in a fresh process: every call made on exactly
   the environment the user built, every result equal to its clean-room reference, final
   environment = the user's *)
Definition history_clean (s : St) (e : Env) (l : list hstep) : Prop :=
  hist_trace s e l = map (fun ea => (fst ea, snd ea, cleanroom (fst ea) (snd ea))) (user_calls e l)
  /\ hist_env s e l = user_env e l.

Definition reachable (s : St) : Prop := exists e l, hist_state s0 e l = s.
End CleanRoom.
Arguments HCall {Arg Mut} a.
Arguments HMut {Arg Mut} m.

(* --- three libraries that are NOT value functions; each is refuted by a short history ---------- *)
(* (1) a cache keyed by OBJECT IDENTITY: environment = (object id, contents); the analysis is
       contents + setting; the cache remembers (id, setting) -> result *)
Definition idc_env := (nat * Z)%type.
Definition idc_state := list (nat * nat * Z).
Fixpoint idc_lookup (k : nat * nat) (s : idc_state) : option Z :=
  match s with
  | [] => None
  | (i, n, r) :: t => if Nat.eqb i (fst k) && Nat.eqb n (snd k) then Some r else idc_lookup k t
  end.
Definition idc_honest (e : idc_env) (n : nat) : Z := (snd e + Z.of_nat n)%Z.
Definition idc_lib (s : idc_state) (e : idc_env) (n : nat) : idc_state * idc_env * Z :=
  match idc_lookup (fst e, n) s with
  | Some r => (s, e, r)
  | None => ((fst e, n, idc_honest e n) :: s, e, idc_honest e n)
  end.
(* the user scales the contents in place: same object, new values *)
Definition idc_user (c : Z) (e : idc_env) : idc_env := (fst e, (snd e * c)%Z).

(* (2) a cache keyed by a PARTIAL key: the contents are in the key, the setting is not *)
Definition pkc_state := list (Z * Z).
Fixpoint pkc_lookup (k : Z) (s : pkc_state) : option Z :=
  match s with [] => None | (v, r) :: t => if Z.eqb v k then Some r else pkc_lookup k t end.
Definition pkc_lib (s : pkc_state) (e : idc_env) (n : nat) : pkc_state * idc_env * Z :=
  match pkc_lookup (snd e) s with
  | Some r => (s, e, r)
  | None => ((snd e, idc_honest e n) :: s, e, idc_honest e n)
  end.

(* (3) a module-level flag set by a helper called with a non-default option (argument 0 = the
       helper, any other argument = an analysis with that setting): every later analysis is
       wrong in the same way, so repeated analyses agree with each other *)
Definition flag_lib (s : bool) (e : idc_env) (n : nat) : bool * idc_env * Z :=
  match n with
  | O => (true, e, 0%Z)
  | _ => (s, e, if s then (idc_honest e n + 1)%Z else idc_honest e n)
  end.

Definition trace_results {Env Arg Res : Type} (tr : list (Env * Arg * Res)) : list Res := map snd tr.

(* --- correspondence instance ------------------------------------------------------------------
   environment = list of content hashes of the shared argument objects; a call is identified by
   the number of its (function, settings) combination; its result is a function of (number,
   environment) only; a user edit is given by the environment it produces.  For every call the
   runner reports: the ordinal of the first call with the same number on an equal environment
   (equal calls on equal values give equal results), whether the history result equals the
   clean-room result, whether the environment came back unchanged. *)
Definition ci_lib (s : unit) (e : list Z) (a : nat) : unit * list Z * (nat * list Z) := (s, e, (a, e)).
Definition ci_user (m : list Z) (_ : list Z) : list Z := m.
Definition ci_res_eqb (x y : nat * list Z) : bool := Nat.eqb (fst x) (fst y) && list_eqb Z.eqb (snd x) (snd y).
Fixpoint ci_first (r : nat * list Z) (l : list (nat * list Z)) (i : nat) : nat :=
  match l with [] => i | x :: t => if ci_res_eqb x r then i else ci_first r t (S i) end.
Definition ci_records (tr : list (list Z * nat * (nat * list Z))) : list (nat * bool * bool) :=
  let rs := trace_results tr in
  map (fun c => let '(e, a, r) := c in
                (ci_first r rs 0,
                 ci_res_eqb r (cleanroom ci_lib tt e a),
                 list_eqb Z.eqb (lib_env ci_lib tt e a) e)) tr.
Definition run_cleanroom (x : list Z * list (@hstep nat (list Z))) : list Z * list (nat * bool * bool) :=
  let '(e0, steps) := x in
  (hist_env ci_lib ci_user tt e0 steps, ci_records (hist_trace ci_lib ci_user tt e0 steps)).
Definition eq_rec (x y : nat * bool * bool) : bool :=
  Nat.eqb (fst (fst x)) (fst (fst y)) && Bool.eqb (snd (fst x)) (snd (fst y)) && Bool.eqb (snd x) (snd y).
Definition eq_cleanroom (a b : list Z * list (nat * bool * bool)) : bool :=
  list_eqb Z.eqb (fst a) (fst b) && list_eqb eq_rec (snd a) (snd b).
Definition bad_cleanroom := report run_cleanroom eq_cleanroom.
