(* Correspondence instance of the purity model (C15): the environment is the list of content
   hashes of the shared argument objects; a call is identified by its kind; its result is a
   function of (kind, environment) only.  The observable is the final environment and, for every
   call, the position of the first equal call (equal calls give equal results). *)
From Coq Require Import List Bool Arith ZArith NArith.
Import ListNotations.
From ByC Require Import Base.Result Harness.Compare Model.Objects.

Definition id_call (e : list Z) (a : nat) : nat * list Z := (a, e).
Fixpoint first_pos (a : nat) (l : list nat) (i : nat) : nat :=
  match l with [] => i | x :: t => if Nat.eqb x a then i else first_pos a t (S i) end.
Definition classes (calls : list nat) : list nat :=
  map (fun ia => first_pos (snd ia) calls 0) (combine (seq 0 (length calls)) calls).
Definition run_purity (x : list Z * list nat) : list Z * list nat :=
  let '(env, calls) := x in
  let '(env', _) := run_calls id_call env calls in (env', classes calls).
Definition eq_purity (a b : list Z * list nat) : bool :=
  list_eqb Z.eqb (fst a) (fst b) && list_eqb Nat.eqb (snd a) (snd b).
Definition bad_purity := report run_purity eq_purity.
