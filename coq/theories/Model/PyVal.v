(* Target language of the source translator (harness/translate.py): a small dynamically typed
   value domain and the Python / numpy operations that the translated functions use, each with
   the semantics it has in CPython / numpy for the values of this domain.  A translated function
   is a Gallina term over these operations only; it is regenerated from /repo on every run and
   proved equal to the hand-written model (coq/gen/*Proof.v).
   Failing operations give VErr (a poison value); every test on a poisoned value and every
   statement that uses one makes the whole function fail with that error, as an exception would. *)
From Coq Require Import List Bool Arith.
Import ListNotations.
From ByC Require Import Base.Result.

Inductive pv :=
| VNone
| VInt (n : nat)
| VTup (l : list pv)
| VStr                      (* a string whose content no translated function inspects *)
| VDict                     (* a dict object *)
| VArr (shape : list nat)   (* an ndarray of that shape (content not inspected) *)
| VErr (e : err).

(* Python `==` on these values (False between values of different kinds) *)
Fixpoint py_eq (a b : pv) : bool :=
  match a, b with
  | VNone, VNone => true
  | VInt x, VInt y => Nat.eqb x y
  | VTup l, VTup m =>
    (fix go (l m : list pv) : bool :=
       match l, m with
       | [], [] => true
       | x :: l', y :: m' => py_eq x y && go l' m'
       | _, _ => false
       end) l m
  | _, _ => false
  end.

Definition poisoned (a : pv) : option err := match a with VErr e => Some e | _ => None end.

(* tests give `result bool`: an exception while evaluating a test aborts the function *)
Definition t_eq (a b : pv) : result bool :=
  match poisoned a, poisoned b with
  | Some e, _ => Err e
  | _, Some e => Err e
  | None, None => Ok (py_eq a b)
  end.
Definition t_ne (a b : pv) : result bool := rmap negb (t_eq a b).
(* `is None` / `is not None`: identity with the None singleton *)
Definition t_is_none (a : pv) : result bool :=
  match a with VErr e => Err e | VNone => Ok true | _ => Ok false end.
Definition t_is_not_none (a : pv) : result bool := rmap negb (t_is_none a).
Definition t_isinstance_dict (a : pv) : result bool :=
  match a with VErr e => Err e | VDict => Ok true | _ => Ok false end.
(* `a in [x1, ..., xn]`: `==` against the entries, left to right *)
Fixpoint t_in (a : pv) (l : list pv) : result bool :=
  match l with
  | [] => match a with VErr e => Err e | _ => Ok false end
  | x :: t => match t_eq a x with
              | Ok true => Ok true
              | Ok false => t_in a t
              | Err e => Err e
              end
  end.
Definition t_not_in (a : pv) (l : list pv) : result bool := rmap negb (t_in a l).
(* short-circuit `and` / `or` / `not` *)
Definition t_and (x y : result bool) : result bool :=
  match x with Ok true => y | Ok false => Ok false | Err e => Err e end.
Definition t_or (x y : result bool) : result bool :=
  match x with Ok true => Ok true | Ok false => y | Err e => Err e end.
Definition t_not (x : result bool) : result bool := rmap negb x.

(* `if test: A else: B` as a statement *)
Definition py_if {A} (c : result bool) (a b : result A) : result A :=
  match c with Ok true => a | Ok false => b | Err e => Err e end.
(* conditional expression `a if test else b` *)
Definition py_ifexp (c : result bool) (a b : pv) : pv :=
  match c with Ok true => a | Ok false => b | Err e => VErr e end.

(* np.shape(x): the shape tuple; () for a dict or None (0-d object array) *)
Definition np_shape (x : pv) : pv :=
  match x with
  | VArr s => VTup (map VInt s)
  | VDict | VNone | VInt _ | VStr => VTup []
  | VTup l => VErr EOther              (* not used by any translated function *)
  | VErr e => VErr e
  end.
(* x.ndim: only ndarrays have the attribute *)
Definition np_ndim (x : pv) : pv :=
  match x with
  | VArr s => VInt (length s)
  | VErr e => VErr e
  | _ => VErr EOther                   (* AttributeError *)
  end.
(* t[i] for a tuple and a non-negative literal index *)
Definition py_idx (t : pv) (i : nat) : pv :=
  match t with
  | VTup l => nth i l (VErr EIndex)
  | VErr e => VErr e
  | _ => VErr EType
  end.
(* tuple display (x1, ..., xn) *)
Definition py_tuple (l : list pv) : pv :=
  match find (fun x => match x with VErr _ => true | _ => false end) l with
  | Some (VErr e) => VErr e
  | _ => VTup l
  end.
(* str(x), "...".format(k=x, ...): a string, unless an argument is poisoned *)
Definition py_str (l : list pv) : pv :=
  match py_tuple l with VErr e => VErr e | _ => VStr end.

(* `raise ValueError(msg)`: the message is evaluated first *)
Definition raise_value {A} (msg : pv) : result A :=
  match msg with VErr e => Err e | _ => Err EValue end.
(* `x = e`: an exception in e aborts *)
Definition py_let {A} (e : pv) (k : pv -> result A) : result A :=
  match e with VErr err => Err err | _ => k e end.
