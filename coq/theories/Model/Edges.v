(* recompute_edges / recompute_edge (burst/utils.py:60-165), C16 — as repaired: the recomputed
   consistencies are written into the (copied) table. *)
From Coq Require Import List Bool Arith ZArith Floats.PrimFloat.
Import ListNotations.
From ByC Require Import Base.Result Base.ListAux Base.FloatBase Harness.Compare
  Model.Runs Model.Labels Model.BurstFeat.

Section Edges.
Context {X : Type}.
(* the columns the function reads or writes; X = every other column *)
Record edrow := { e_rise : float; e_decay : float; e_period : Z; e_feat : feat4; e_lab : bool; e_x : X }.

(* indices i with lab[i+1] <> lab[i] *)
Fixpoint transitions (i : nat) (lab : list bool) : list nat :=
  match lab with
  | x :: ((y :: _) as t) => if Bool.eqb x y then transitions (S i) t else i :: transitions (S i) t
  | _ => []
  end.
(* even-numbered transitions are burst starts (the cycle before the burst), odd-numbered ones +1
   are burst ends (the cycle after the burst); paired by zip *)
Fixpoint edge_pairs (tr : list nat) : list (nat * nat) :=
  match tr with
  | s :: e :: t => (s, S e) :: edge_pairs t
  | _ => []
  end.

Definition set_cons (r : edrow) (ac pc : float) : edrow :=
  {| e_rise := e_rise r; e_decay := e_decay r; e_period := e_period r;
     e_feat := {| f_af := f_af (e_feat r); f_ac := ac; f_pc := pc; f_mo := f_mo (e_feat r) |};
     e_lab := e_lab r; e_x := e_x r |}.

(* recompute_edge: three-row window clipped to the table, directional consistencies, entry [1] *)
Definition recompute_edge (peak : bool) (rows : list edrow) (i : nat) (d : direction) : result (list edrow) :=
  let lower := i - 1 in
  let upper := Nat.min (i + 2) (length rows) in
  let win := slice rows lower upper in
  do ac <- amp_consistency peak d (map e_rise win) (map e_decay win);
  do pc <- period_consistency d (map e_period win);
  match nth_error ac 1, nth_error pc 1, nth_error rows i with
  | Some a, Some p, Some r =>
    Ok (firstn i rows ++ set_cons r a p :: skipn (S i) rows)
  | _, _, _ => Err EIndex
  end.

Definition recompute_all (peak : bool) (rows : list edrow) : result (list edrow) :=
  fold_left (fun acc se => do t <- acc; do t1 <- recompute_edge peak t (fst se) Next;
                           recompute_edge peak t1 (snd se) Last)
            (edge_pairs (transitions 0 (map e_lab rows))) (Ok rows).

Definition set_lab (r : edrow) (l : bool) : edrow :=
  {| e_rise := e_rise r; e_decay := e_decay r; e_period := e_period r; e_feat := e_feat r; e_lab := l; e_x := e_x r |}.

Definition recompute_edges (peak : bool) (t : thr4) (n : Z) (rows : list edrow) : result (list edrow) :=
  do ed <- recompute_all peak rows;
  do lab <- labels_cycles t n (map e_feat ed);
  Ok (map (fun rl => set_lab (fst rl) (snd rl)) (zip ed lab)).

(* Legacy (pandas copy-on-write): the chained write never reached the table, so only the
   re-thresholding happened *)
Definition recompute_edges_legacy (peak : bool) (t : thr4) (n : Z) (rows : list edrow) : result (list edrow) :=
  do lab <- labels_cycles t n (map e_feat rows);
  Ok (map (fun rl => set_lab (fst rl) (snd rl)) (zip rows lab)).
End Edges.

(* correspondence: payload = row id *)
Definition ed_in := (float * float * Z * (float * float * float * float) * bool)%type.
Definition mk_edrow (ix : N * ed_in) : @edrow N :=
  let '(id, (r, d, p, f, l)) := ix in
  {| e_rise := r; e_decay := d; e_period := p; e_feat := mk_feat f; e_lab := l; e_x := id |}.
Definition ed_out := (float * float * bool)%type.      (* amp_consistency, period_consistency, is_burst *)
Definition run_recompute_edges (x : bool * (float * float * float * float) * Z * list ed_in) : result (list ed_out) :=
  let '(peak, t, n, rows) := x in
  rmap (map (fun r => (f_ac (e_feat r), f_pc (e_feat r), e_lab r)))
       (recompute_edges peak (mk_thr t) n
          (map mk_edrow (combine (map N.of_nat (seq 0 (length rows))) rows))).
Definition ed_out_eqb (a b : ed_out) : bool :=
  let '(x, y, l) := a in let '(x', y', l') := b in fclose x x' && fclose y y' && Bool.eqb l l'.
Definition bad_recompute_edges := report run_recompute_edges (result_eqb (list_eqb ed_out_eqb)).
