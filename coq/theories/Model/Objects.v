(* Bycycle objects (objs/fit.py), C14; call purity, C15.
   Option dictionaries are association lists from option names to value codes.  The object keeps
   the dictionaries it was given (aliases of the caller's objects); `fit` hands them to
   compute_features, which — as repaired — works on copies, so a fit observes exactly the current
   contents and leaves them alone.  The Legacy step function writes min_n_cycles back into the
   stored dictionaries, as the code did before the repair. *)
From Coq Require Import List Bool Arith ZArith String.
Import ListNotations.
From ByC Require Import Base.Result Harness.Compare.
Local Open Scope string_scope.

Definition dict := list (string * Z).
Fixpoint lookup (d : dict) (k : string) : option Z :=
  match d with [] => None | (k', v) :: t => if String.eqb k k' then Some v else lookup t k end.
Fixpoint remove (d : dict) (k : string) : dict :=
  match d with [] => [] | (k', v) :: t => if String.eqb k k' then remove t k else (k', v) :: remove t k end.
Definition set (d : dict) (k : string) (v : Z) : dict := (remove d k ++ [(k, v)])%list.
Definition dict_eqb (a b : dict) : bool :=
  forallb (fun k => option_eqb Z.eqb (lookup a k) (lookup b k)) (map fst a ++ map fst b)%list.

(* suffix test and threshold shorthand: 'monotonicity' -> 'monotonicity_threshold' *)
Fixpoint ends_with (s suf : string) : bool :=
  if String.eqb s suf then true
  else match s with EmptyString => false | String _ t => ends_with t suf end.
Definition expand_key (k : string) : string :=
  if ends_with k "_threshold" || String.eqb k "min_n_cycles" then k else k ++ "_threshold".
Definition expand_thresholds (d : dict) : dict :=
  fold_left (fun acc kv => let k := fst kv in
                           if String.eqb (expand_key k) k then acc
                           else match lookup acc k with
                                | Some v => set (remove acc k) (expand_key k) v
                                | None => acc
                                end) d d.

(* reduce_thresholds: a NEW dictionary, v - r on keys ending in 'threshold' *)
Definition reduce_thresholds (d : dict) (r : Z) : dict :=
  map (fun kv => if ends_with (fst kv) "threshold" then (fst kv, snd kv - r)%Z else kv) d.

Record settings := { st_center : bool; st_amp : bool; st_bk : dict; st_thr : dict; st_fek : Z; st_rs : bool }.
Definition settings_eqb (a b : settings) : bool :=
  Bool.eqb (st_center a) (st_center b) && Bool.eqb (st_amp a) (st_amp b) && dict_eqb (st_bk a) (st_bk b) &&
  dict_eqb (st_thr a) (st_thr b) && Z.eqb (st_fek a) (st_fek b) && Bool.eqb (st_rs a) (st_rs b).

(* symbolic tables: what was computed from what *)
Inductive table :=
| TFit (s : settings) (sig : Z)                 (* compute_features(sig, settings) *)
| TEdges (t : table) (thr : dict)               (* recompute_edges(t, thr) *)
| TLoaded (id : Z).

Record obj := { o_set : settings; o_sig : option Z; o_df : option table }.

Inductive op :=
| OFit (sig : Z)
| ORecompute (r : Z)
| OLoad (id sig : Z)
| OEditThr (k : string) (v : Z)
| OEditBk (k : string) (v : Z)
| OSetCenter (c : bool).

Definition construct (s : settings) : obj :=
  {| o_set := {| st_center := st_center s; st_amp := st_amp s; st_bk := st_bk s;
                 st_thr := expand_thresholds (st_thr s); st_fek := st_fek s; st_rs := st_rs s |};
     o_sig := None; o_df := None |}.

Definition with_thr (s : settings) (d : dict) : settings :=
  {| st_center := st_center s; st_amp := st_amp s; st_bk := st_bk s; st_thr := d; st_fek := st_fek s; st_rs := st_rs s |}.
Definition with_bk (s : settings) (d : dict) : settings :=
  {| st_center := st_center s; st_amp := st_amp s; st_bk := d; st_thr := st_thr s; st_fek := st_fek s; st_rs := st_rs s |}.
Definition with_center (s : settings) (c : bool) : settings :=
  {| st_center := c; st_amp := st_amp s; st_bk := st_bk s; st_thr := st_thr s; st_fek := st_fek s; st_rs := st_rs s |}.

(* what compute_features wrote into its arguments before the repair (features.py:129-137) *)
Definition legacy_writeback (s : settings) : settings :=
  if st_amp s then
    match lookup (st_bk s) "min_n_cycles" with
    | None => with_bk s (set (st_bk s) "min_n_cycles"
                              (match lookup (st_thr s) "min_n_cycles" with Some v => v | None => 3%Z end))
    | Some b => with_thr s (set (st_thr s) "min_n_cycles" b)
    end
  else s.

Definition step_gen (wb : settings -> settings) (o : obj) (p : op) : result obj :=
  match p with
  | OFit sig => Ok {| o_set := wb (o_set o); o_sig := Some sig; o_df := Some (TFit (o_set o) sig) |}
  | ORecompute r =>
    match o_df o with
    | Some t => Ok {| o_set := o_set o; o_sig := o_sig o; o_df := Some (TEdges t (reduce_thresholds (st_thr (o_set o)) r)) |}
    | None => Err EType                        (* rc_edges(None, ...) *)
    end
  | OLoad id sig => Ok {| o_set := o_set o; o_sig := Some sig; o_df := Some (TLoaded id) |}
  | OEditThr k v => Ok {| o_set := with_thr (o_set o) (set (st_thr (o_set o)) k v); o_sig := o_sig o; o_df := o_df o |}
  | OEditBk k v => Ok {| o_set := with_bk (o_set o) (set (st_bk (o_set o)) k v); o_sig := o_sig o; o_df := o_df o |}
  | OSetCenter c => Ok {| o_set := with_center (o_set o) c; o_sig := o_sig o; o_df := o_df o |}
  end.
Definition step := step_gen (fun s => s).
Definition step_legacy := step_gen legacy_writeback.

Fixpoint run_gen (st : obj -> op -> result obj) (o : obj) (ops : list op) : result obj :=
  match ops with [] => Ok o | p :: t => do o' <- st o p; run_gen st o' t end.
Definition run := run_gen step.
Definition run_legacy := run_gen step_legacy.

(* the settings a user intends after a history: constructor settings with the edits applied *)
Fixpoint intended (s : settings) (ops : list op) : settings :=
  match ops with
  | [] => s
  | OEditThr k v :: t => intended (with_thr s (set (st_thr s) k v)) t
  | OEditBk k v :: t => intended (with_bk s (set (st_bk s) k v)) t
  | OSetCenter c :: t => intended (with_center s c) t
  | _ :: t => intended s t
  end.

(* ------------------------------------------------------------------------------------------ *)
(* C15: a call of a pure function leaves the environment of argument objects unchanged and its
   result depends only on argument values *)
Section Purity.
Context {Env Arg Res : Type}.
Variable call : Env -> Arg -> Res.             (* reads argument values from the environment *)
Definition pure_step (e : Env) (a : Arg) : Env * Res := (e, call e a).
Fixpoint run_calls (e : Env) (l : list Arg) : Env * list Res :=
  match l with
  | [] => (e, [])
  | a :: t => let '(e1, r) := pure_step e a in let '(e2, rs) := run_calls e1 t in (e2, r :: rs)
  end.
End Purity.

(* correspondence: observable state after a history *)
Definition obs := (dict * dict * bool)%type.    (* thresholds, burst options, centre *)
Definition obs_of (o : obj) : obs := (st_thr (o_set o), st_bk (o_set o), st_center (o_set o)).
Definition run_history (x : settings * list op) : result obs := rmap obs_of (run (construct (fst x)) (snd x)).
Definition obs_eqb (a b : obs) : bool :=
  let '(t, b1, c) := a in let '(t', b1', c') := b in dict_eqb t t' && dict_eqb b1 b1' && Bool.eqb c c'.
Definition bad_history := report run_history (result_eqb obs_eqb).
