(* Bycycle objects (objs/fit.py), C14; call purity, C15.
   Option dictionaries are association lists from option names to value codes.  The object keeps
   the dictionaries it was given (aliases of the caller's objects); `fit` hands them to
   compute_features, which — as repaired — works on copies, so a fit observes exactly the current
   contents and leaves them alone.  The Legacy step function writes min_n_cycles back into the
   stored dictionaries, as the code did before the repair. *)
From Coq Require Import List Bool Arith ZArith String Floats.PrimFloat.
Import ListNotations.
From ByC Require Import Base.Result Harness.Compare.
Local Open Scope string_scope.

Definition dict := list (string * Z).
Fixpoint lookup (d : dict) (k : string) : option Z :=
  match d with [] => None | (k', v) :: t => if String.eqb k k' then Some v else lookup t k end.
Fixpoint remove (d : dict) (k : string) : dict :=
  match d with [] => [] | (k', v) :: t => if String.eqb k k' then remove t k else (k', v) :: remove t k end.
Definition set (d : dict) (k : string) (v : Z) : dict := (remove d k ++ [(k, v)])%list.
Definition dict_eqb (a b : dict) : bool :=
  forallb (fun k => option_eqb Z.eqb (lookup a k) (lookup b k)) (map fst a ++ map fst b)%list.

(* suffix test and threshold shorthand: 'monotonicity' -> 'monotonicity_threshold' *)
Fixpoint ends_with (s suf : string) : bool :=
  if String.eqb s suf then true
  else match s with EmptyString => false | String _ t => ends_with t suf end.
Definition expand_key (k : string) : string :=
  if ends_with k "_threshold" || String.eqb k "min_n_cycles" then k else k ++ "_threshold".
Definition expand_thresholds (d : dict) : dict :=
  fold_left (fun acc kv => let k := fst kv in
                           if String.eqb (expand_key k) k then acc
                           else match lookup acc k with
                                | Some v => set (remove acc k) (expand_key k) v
                                | None => acc
                                end) d d.

(* reduce_thresholds: a NEW dictionary, v - r on keys ending in 'threshold' *)
Definition reduce_thresholds (d : dict) (r : Z) : dict :=
  map (fun kv => if ends_with (fst kv) "threshold" then (fst kv, snd kv - r)%Z else kv) d.

(* the same method on the numbers themselves (objs/fit.py:72-95): thresholds are binary64 values and the
   lowered threshold is the binary64 difference v - r, nothing else (no rounding to decimals, no
   clipping); reduction=None stands for 0; every other entry (min_n_cycles) is copied.  Used by the
   correspondence runner [bad_reduce], which compares the method's result bit by bit. *)
Definition fdict := list (string * float).
Fixpoint flookup (d : fdict) (k : string) : option float :=
  match d with [] => None | (k', v) :: t => if String.eqb k k' then Some v else flookup t k end.
Definition reduce_thresholds_f (d : fdict) (r : option float) : fdict :=
  let r' := match r with Some x => x | None => 0%float end in
  map (fun kv => if ends_with (fst kv) "threshold" then (fst kv, (snd kv - r')%float) else kv) d.

Record settings := { st_center : bool; st_amp : bool; st_bk : dict; st_thr : dict; st_fek : Z; st_rs : bool }.
Definition settings_eqb (a b : settings) : bool :=
  Bool.eqb (st_center a) (st_center b) && Bool.eqb (st_amp a) (st_amp b) && dict_eqb (st_bk a) (st_bk b) &&
  dict_eqb (st_thr a) (st_thr b) && Z.eqb (st_fek a) (st_fek b) && Bool.eqb (st_rs a) (st_rs b).

(* symbolic tables: what was computed from what *)
Inductive table :=
| TFit (s : settings) (sig : Z)                 (* compute_features(sig, settings) *)
| TEdges (t : table) (thr : dict)               (* recompute_edges(t, thr) *)
| TLoaded (id : Z)
| TEpoch (s : settings) (flat : Z) (i : nat).   (* epoch i of compute_features(flattened 2-D array `flat`, settings) *)

Record obj := { o_set : settings; o_sig : option Z; o_df : option table }.

Inductive op :=
| OFit (sig : Z)
| ORecompute (r : Z)
| OLoad (id sig : Z)
| OEditThr (k : string) (v : Z)
| OEditBk (k : string) (v : Z)
| OSetCenter (c : bool)
(* attribute assignment: the stored object is REPLACED (no shorthand expansion happens there) *)
| OSetThr (d : dict)                            (* bm.thresholds = {...} *)
| OSetBk (d : dict)                             (* bm.burst_kwargs = {...} *)
| OSetMethod (amp : bool)                       (* bm.burst_method = ... *)
| OSetFek (f : Z)                               (* bm.find_extrema_kwargs = ... *)
| OSetRs (b : bool).                            (* bm.return_samples = ... *)

Definition construct (s : settings) : obj :=
  {| o_set := {| st_center := st_center s; st_amp := st_amp s; st_bk := st_bk s;
                 st_thr := expand_thresholds (st_thr s); st_fek := st_fek s; st_rs := st_rs s |};
     o_sig := None; o_df := None |}.

(* Constructor ARGUMENTS (objs/fit.py:21-63): None = the argument was not given.  Documented defaults:
   center_extrema='peak', burst_method='cycles', burst_kwargs -> {}, return_samples=True,
   find_extrema_kwargs -> {'filter_kwargs': {'n_cycles': 3}} (code 0), and for thresholds=None the
   per-method default dictionaries (values in thousandths). *)
Record cargs := { ca_center : option bool; ca_amp : option bool; ca_bk : option dict; ca_thr : option dict;
                  ca_fek : option Z; ca_rs : option bool }.
Definition default_thr (amp : bool) : dict :=
  if amp then [("burst_fraction_threshold", 1000%Z); ("min_n_cycles", 3%Z)]
  else [("amp_fraction_threshold", 0%Z); ("amp_consistency_threshold", 500%Z);
        ("period_consistency_threshold", 500%Z); ("monotonicity_threshold", 800%Z); ("min_n_cycles", 3%Z)].
Definition settings_of_args (a : cargs) : settings :=
  let amp := match ca_amp a with Some b => b | None => false end in
  {| st_center := match ca_center a with Some c => c | None => true end;
     st_amp := amp;
     st_bk := match ca_bk a with Some d => d | None => [] end;
     st_thr := match ca_thr a with Some d => d | None => default_thr amp end;
     st_fek := match ca_fek a with Some f => f | None => 0%Z end;
     st_rs := match ca_rs a with Some r => r | None => true end |}.
Definition construct_args (a : cargs) : obj := construct (settings_of_args a).
Definition no_args : cargs :=
  {| ca_center := None; ca_amp := None; ca_bk := None; ca_thr := None; ca_fek := None; ca_rs := None |}.

Definition with_thr (s : settings) (d : dict) : settings :=
  {| st_center := st_center s; st_amp := st_amp s; st_bk := st_bk s; st_thr := d; st_fek := st_fek s; st_rs := st_rs s |}.
Definition with_bk (s : settings) (d : dict) : settings :=
  {| st_center := st_center s; st_amp := st_amp s; st_bk := d; st_thr := st_thr s; st_fek := st_fek s; st_rs := st_rs s |}.
Definition with_center (s : settings) (c : bool) : settings :=
  {| st_center := c; st_amp := st_amp s; st_bk := st_bk s; st_thr := st_thr s; st_fek := st_fek s; st_rs := st_rs s |}.
Definition with_amp (s : settings) (a : bool) : settings :=
  {| st_center := st_center s; st_amp := a; st_bk := st_bk s; st_thr := st_thr s; st_fek := st_fek s; st_rs := st_rs s |}.
Definition with_fek (s : settings) (f : Z) : settings :=
  {| st_center := st_center s; st_amp := st_amp s; st_bk := st_bk s; st_thr := st_thr s; st_fek := f; st_rs := st_rs s |}.
Definition with_rs (s : settings) (b : bool) : settings :=
  {| st_center := st_center s; st_amp := st_amp s; st_bk := st_bk s; st_thr := st_thr s; st_fek := st_fek s; st_rs := b |}.

(* what compute_features wrote into its arguments before the repair (features.py:129-137) *)
Definition legacy_writeback (s : settings) : settings :=
  if st_amp s then
    match lookup (st_bk s) "min_n_cycles" with
    | None => with_bk s (set (st_bk s) "min_n_cycles"
                              (match lookup (st_thr s) "min_n_cycles" with Some v => v | None => 3%Z end))
    | Some b => with_thr s (set (st_thr s) "min_n_cycles" b)
    end
  else s.

Definition step_gen (wb : settings -> settings) (o : obj) (p : op) : result obj :=
  match p with
  | OFit sig => Ok {| o_set := wb (o_set o); o_sig := Some sig; o_df := Some (TFit (o_set o) sig) |}
  | ORecompute r =>
    match o_df o with
    | Some t => Ok {| o_set := o_set o; o_sig := o_sig o; o_df := Some (TEdges t (reduce_thresholds (st_thr (o_set o)) r)) |}
    | None => Err EType                        (* rc_edges(None, ...) *)
    end
  | OLoad id sig => Ok {| o_set := o_set o; o_sig := Some sig; o_df := Some (TLoaded id) |}
  | OEditThr k v => Ok {| o_set := with_thr (o_set o) (set (st_thr (o_set o)) k v); o_sig := o_sig o; o_df := o_df o |}
  | OEditBk k v => Ok {| o_set := with_bk (o_set o) (set (st_bk (o_set o)) k v); o_sig := o_sig o; o_df := o_df o |}
  | OSetCenter c => Ok {| o_set := with_center (o_set o) c; o_sig := o_sig o; o_df := o_df o |}
  | OSetThr d => Ok {| o_set := with_thr (o_set o) d; o_sig := o_sig o; o_df := o_df o |}
  | OSetBk d => Ok {| o_set := with_bk (o_set o) d; o_sig := o_sig o; o_df := o_df o |}
  | OSetMethod a => Ok {| o_set := with_amp (o_set o) a; o_sig := o_sig o; o_df := o_df o |}
  | OSetFek f => Ok {| o_set := with_fek (o_set o) f; o_sig := o_sig o; o_df := o_df o |}
  | OSetRs b => Ok {| o_set := with_rs (o_set o) b; o_sig := o_sig o; o_df := o_df o |}
  end.
Definition step := step_gen (fun s => s).
Definition step_legacy := step_gen legacy_writeback.

Fixpoint run_gen (st : obj -> op -> result obj) (o : obj) (ops : list op) : result obj :=
  match ops with [] => Ok o | p :: t => do o' <- st o p; run_gen st o' t end.
Definition run := run_gen step.
Definition run_legacy := run_gen step_legacy.

(* the settings a user intends after a history: constructor settings with the edits applied *)
Fixpoint intended (s : settings) (ops : list op) : settings :=
  match ops with
  | [] => s
  | OEditThr k v :: t => intended (with_thr s (set (st_thr s) k v)) t
  | OEditBk k v :: t => intended (with_bk s (set (st_bk s) k v)) t
  | OSetCenter c :: t => intended (with_center s c) t
  | OSetThr d :: t => intended (with_thr s d) t
  | OSetBk d :: t => intended (with_bk s d) t
  | OSetMethod a :: t => intended (with_amp s a) t
  | OSetFek f :: t => intended (with_fek s f) t
  | OSetRs b :: t => intended (with_rs s b) t
  | _ :: t => intended s t
  end.

(* ------------------------------------------------------------------------------------------ *)
(* C15: a call of a pure function leaves the environment of argument objects unchanged and its
   result depends only on argument values *)
Section Purity.
Context {Env Arg Res : Type}.
Variable call : Env -> Arg -> Res.             (* reads argument values from the environment *)
Definition pure_step (e : Env) (a : Arg) : Env * Res := (e, call e a).
Fixpoint run_calls (e : Env) (l : list Arg) : Env * list Res :=
  match l with
  | [] => (e, [])
  | a :: t => let '(e1, r) := pure_step e a in let '(e2, rs) := run_calls e1 t in (e2, r :: rs)
  end.
End Purity.

(* ------------------------------------------------------------------------------------------ *)
(* BycycleGroup (objs/fit.py:262-451), C14 "models mirror df_features and sigs position by position".
   Positions of a 3-D array are flattened row-major (entry [i][j] of n0 x n1 is position i*n1 + j).
   Every model is constructed with the group's settings — the same dictionary OBJECTS, so an item
   assignment on the group's thresholds / burst options is seen by every model — and loaded with its
   table and its signal.  An ASSIGNMENT to a settings attribute of the group (bg.thresholds = {...},
   bg.center_extrema = ...) replaces the group's value only: fit reads the attributes when it is called,
   so the next fit runs with the assigned values and builds models that hold them; the models of the
   previous fit keep what they were built with.  recompute_edges(r) recomputes every model (with the
   model's thresholds) and, as repaired, writes the model's new table back into the group's
   df_features; the Legacy step leaves df_features alone. *)
Inductive gshape :=
| G2Rows (n : nat)              (* 2-D, axis=0: one table per row *)
| G2Flat (n : nat)              (* 2-D, axis=None: rows = epochs of the flattened signal *)
| G3 (n0 n1 : nat)              (* 3-D, axis=(0,1): one table per 1-D signal *)
| G3Ax0 (n0 n1 : nat)           (* 3-D, axis=0: plane [i] flattened, entry [i][j] = its epoch j *)
| G3Ax1 (n0 n1 : nat).          (* 3-D, axis=1: plane [:, j] flattened, entry [i][j] = its epoch i *)
Definition npos (sh : gshape) : nat :=
  match sh with G2Rows n | G2Flat n => n | G3 a b | G3Ax0 a b | G3Ax1 a b => a * b end.
(* symbolic identifiers of the 1-D signal at position p and of the 2-D plane (axis, i) of array arr *)
Definition cell_id (arr : Z) (p : nat) : Z := (arr * 4096 + Z.of_nat p)%Z.
Definition plane_id (arr : Z) (axis i : nat) : Z := (- (arr * 4096 + Z.of_nat (axis * 2048 + i)) - 1)%Z.
Definition table_at (s : settings) (arr : Z) (sh : gshape) (p : nat) : table :=
  match sh with
  | G2Rows _ | G3 _ _ => TFit s (cell_id arr p)
  | G2Flat _ => TEpoch s arr p
  | G3Ax0 _ n1 => TEpoch s (plane_id arr 0 (p / n1)) (p mod n1)
  | G3Ax1 _ n1 => TEpoch s (plane_id arr 1 (p mod n1)) (p / n1)
  end.

(* g_shthr / g_shbk: the models' thresholds / burst options are the SAME dictionary objects as the group's
   (true after a fit, false once the user has assigned a new dictionary to the group's attribute) *)
Record group := { g_set : settings; g_sigs : list Z; g_dfs : list table; g_models : list obj;
                  g_shthr : bool; g_shbk : bool }.
Inductive gop :=
| GFit (arr : Z) (sh : gshape)
| GEditThr (k : string) (v : Z)          (* bg.thresholds[k] = v : shared with every model *)
| GEditBk (k : string) (v : Z)
| GRecompute (r : Z)
(* attribute assignment on the group (bg.thresholds = {...}, bg.center_extrema = ..., ...): the GROUP's
   setting is replaced; the models built by the last fit keep the objects / values they were built with
   until the next fit builds new ones *)
| GSetThr (d : dict)
| GSetBk (d : dict)
| GSetCenter (c : bool)
| GSetMethod (a : bool)
| GSetFek (f : Z)
| GSetRs (b : bool).

Definition construct_group (a : cargs) : group :=
  {| g_set := o_set (construct_args a); g_sigs := []; g_dfs := []; g_models := []; g_shthr := true; g_shbk := true |}.
Definition load_model (s : settings) (sig : Z) (t : table) : obj := {| o_set := s; o_sig := Some sig; o_df := Some t |}.
Definition set_settings (s : settings) (o : obj) : obj := {| o_set := s; o_sig := o_sig o; o_df := o_df o |}.
(* an item assignment on a dictionary the models share is seen through every model *)
Definition edit_model_thr (k : string) (v : Z) (o : obj) : obj :=
  set_settings (with_thr (o_set o) (set (st_thr (o_set o)) k v)) o.
Definition edit_model_bk (k : string) (v : Z) (o : obj) : obj :=
  set_settings (with_bk (o_set o) (set (st_bk (o_set o)) k v)) o.

Fixpoint mapM {A B} (f : A -> result B) (l : list A) : result (list B) :=
  match l with [] => Ok [] | a :: t => do b <- f a; do bs <- mapM f t; Ok (b :: bs) end.
Definition some_tables (l : list obj) : list table :=
  flat_map (fun o => match o_df o with Some t => [t] | None => [] end) l.

(* a group whose settings were replaced by s (tables, models and sharing flags given) *)
Definition group_with (g : group) (s : settings) (shthr shbk : bool) : group :=
  {| g_set := s; g_sigs := g_sigs g; g_dfs := g_dfs g; g_models := g_models g; g_shthr := shthr; g_shbk := shbk |}.

Definition gstep_gen (writeback : bool) (g : group) (p : gop) : result group :=
  match p with
  | GFit arr sh =>
    let pos := seq 0 (npos sh) in
    let sigs := map (cell_id arr) pos in
    let dfs := map (table_at (g_set g) arr sh) pos in
    Ok {| g_set := g_set g; g_sigs := sigs; g_dfs := dfs;
          g_models := map (fun p => load_model (g_set g) (cell_id arr p) (table_at (g_set g) arr sh p)) pos;
          g_shthr := true; g_shbk := true |}
  | GEditThr k v =>
    let s := with_thr (g_set g) (set (st_thr (g_set g)) k v) in
    Ok {| g_set := s; g_sigs := g_sigs g; g_dfs := g_dfs g;
          g_models := if g_shthr g then map (edit_model_thr k v) (g_models g) else g_models g;
          g_shthr := g_shthr g; g_shbk := g_shbk g |}
  | GEditBk k v =>
    let s := with_bk (g_set g) (set (st_bk (g_set g)) k v) in
    Ok {| g_set := s; g_sigs := g_sigs g; g_dfs := g_dfs g;
          g_models := if g_shbk g then map (edit_model_bk k v) (g_models g) else g_models g;
          g_shthr := g_shthr g; g_shbk := g_shbk g |}
  | GRecompute r =>
    match g_models g with
    | [] => Err EOther                         (* never fitted: the object has no `sigs` attribute yet *)
    | _ => do ms <- mapM (fun m => step m (ORecompute r)) (g_models g);
           Ok {| g_set := g_set g; g_sigs := g_sigs g;
                 g_dfs := if writeback then some_tables ms else g_dfs g; g_models := ms;
                 g_shthr := g_shthr g; g_shbk := g_shbk g |}
    end
  | GSetThr d => Ok (group_with g (with_thr (g_set g) d) false (g_shbk g))
  | GSetBk d => Ok (group_with g (with_bk (g_set g) d) (g_shthr g) false)
  | GSetCenter c => Ok (group_with g (with_center (g_set g) c) (g_shthr g) (g_shbk g))
  | GSetMethod a => Ok (group_with g (with_amp (g_set g) a) (g_shthr g) (g_shbk g))
  | GSetFek f => Ok (group_with g (with_fek (g_set g) f) (g_shthr g) (g_shbk g))
  | GSetRs b => Ok (group_with g (with_rs (g_set g) b) (g_shthr g) (g_shbk g))
  end.
Definition gstep := gstep_gen true.
Definition gstep_legacy := gstep_gen false.
Fixpoint grun_gen (st : group -> gop -> result group) (g : group) (ops : list gop) : result group :=
  match ops with [] => Ok g | p :: t => do g' <- st g p; grun_gen st g' t end.
Definition grun := grun_gen gstep.
Definition grun_legacy := grun_gen gstep_legacy.

(* the mirror property: position by position, the model's table is the group's table and the
   model's signal is the group's signal (and there are as many models as tables and signals) *)
Definition mirror (g : group) : Prop :=
  map o_df (g_models g) = map Some (g_dfs g) /\ map o_sig (g_models g) = map Some (g_sigs g).
(* the settings the user intends for the group after a history: item edits and attribute assignments applied *)
Fixpoint gintended (s : settings) (ops : list gop) : settings :=
  match ops with
  | [] => s
  | GEditThr k v :: t => gintended (with_thr s (set (st_thr s) k v)) t
  | GEditBk k v :: t => gintended (with_bk s (set (st_bk s) k v)) t
  | GSetThr d :: t => gintended (with_thr s d) t
  | GSetBk d :: t => gintended (with_bk s d) t
  | GSetCenter c :: t => gintended (with_center s c) t
  | GSetMethod a :: t => gintended (with_amp s a) t
  | GSetFek f :: t => gintended (with_fek s f) t
  | GSetRs b :: t => gintended (with_rs s b) t
  | _ :: t => gintended s t
  end.
(* operations that do not assign a settings attribute *)
Definition no_assignment (p : gop) : bool :=
  match p with GFit _ _ | GEditThr _ _ | GEditBk _ _ | GRecompute _ => true | _ => false end.

(* ------------------------------------------------------------------------------------------ *)
(* correspondence: observable state after a history *)
(* thresholds, burst options, centre, method, find_extrema_kwargs code, return_samples *)
Definition obs := (dict * dict * bool * bool * Z * bool)%type.
Definition obs_of_settings (s : settings) : obs := (st_thr s, st_bk s, st_center s, st_amp s, st_fek s, st_rs s).
Definition obs_of (o : obj) : obs := obs_of_settings (o_set o).
Definition run_history (x : cargs * list op) : result obs := rmap obs_of (run (construct_args (fst x)) (snd x)).
Definition obs_eqb (a b : obs) : bool :=
  let '(t, b1, c, m, f, r) := a in let '(t', b1', c', m', f', r') := b in
  dict_eqb t t' && dict_eqb b1 b1' && Bool.eqb c c' && Bool.eqb m m' && Z.eqb f f' && Bool.eqb r r'.
Definition bad_history := report run_history (result_eqb obs_eqb).

(* group: stored settings, the signal identifier held by every model (position order), whether every
   model holds the group's table of its position (decided on the symbolic tables), and whether every
   model holds the group's current settings *)
Fixpoint table_eqb (a b : table) : bool :=
  match a, b with
  | TFit s x, TFit s' x' => settings_eqb s s' && Z.eqb x x'
  | TEdges t d, TEdges t' d' => table_eqb t t' && dict_eqb d d'
  | TLoaded i, TLoaded i' => Z.eqb i i'
  | TEpoch s f i, TEpoch s' f' i' => settings_eqb s s' && Z.eqb f f' && Nat.eqb i i'
  | _, _ => false
  end.
Definition gobs := (obs * list Z * list bool * list bool)%type.
Definition gobs_of (g : group) : gobs :=
  (obs_of_settings (g_set g),
   map (fun m => match o_sig m with Some z => z | None => (-1)%Z end) (g_models g),
   map (fun mt => option_eqb table_eqb (o_df (fst mt)) (Some (snd mt))) (combine (g_models g) (g_dfs g)),
   map (fun m => settings_eqb (o_set m) (g_set g)) (g_models g)).
Definition run_group_history (x : cargs * list gop) : result gobs := rmap gobs_of (grun (construct_group (fst x)) (snd x)).
Definition gobs_eqb (a b : gobs) : bool :=
  let '(o, s, m, c) := a in let '(o', s', m', c') := b in
  obs_eqb o o' && list_eqb Z.eqb s s' && list_eqb Bool.eqb m m' && list_eqb Bool.eqb c c'.
Definition bad_group_history := report run_group_history (result_eqb gobs_eqb).

(* reduce_thresholds(r) of a freshly constructed object: the stored dictionary is the given one (keys
   already expanded by the harness) or, for thresholds=None, the documented defaults of the method *)
Definition default_thr_f (amp : bool) : fdict :=
  if amp then [("burst_fraction_threshold", 1%float); ("min_n_cycles", 3%float)]
  else [("amp_fraction_threshold", 0%float); ("amp_consistency_threshold", 0x1p-1%float);
        ("period_consistency_threshold", 0x1p-1%float); ("monotonicity_threshold", 0x1.999999999999ap-1%float);
        ("min_n_cycles", 3%float)].
Definition run_reduce (x : bool * option fdict * list (option float)) : result (list fdict) :=
  let '(amp, thr, rs) := x in
  let stored := match thr with Some d => d | None => default_thr_f amp end in
  Ok (map (reduce_thresholds_f stored) rs).
(* bit by bit, except that +0 and -0 are not told apart and any NaN equals any NaN *)
Definition fbits_eqb (a b : float) : bool := (negb (a =? a)%float && negb (b =? b)%float) || (a =? b)%float.
Definition fdict_eqb (a b : fdict) : bool :=
  Nat.eqb (List.length a) (List.length b) &&
  forallb (fun k => option_eqb fbits_eqb (flookup a k) (flookup b k)) (map fst a ++ map fst b)%list.
Definition bad_reduce := report run_reduce (result_eqb (list_eqb fdict_eqb)).
