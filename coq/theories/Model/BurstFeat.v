(* Burst features (features/burst.py): amp_fraction, amp_consistency, period_consistency,
   monotonicity, burst_fraction.  C05, C07, C09. *)
From Coq Require Import List Bool Arith ZArith Floats.PrimFloat.
Import ListNotations.
From ByC Require Import Base.Result Base.ListAux Base.FloatBase Harness.Compare Model.Cycles.

Inductive direction := Both | Next | Last.

(* pandas rank(method='average') / n ; NaN keeps NaN *)
Definition amp_fraction (va : list float) : list float :=
  let n := Z.of_nat (length va) in
  map (fun v => if isnan v then fnan
                else let less := Z.of_nat (length (filter (fun w => (w <? v)%float) va)) in
                     let eq := Z.of_nat (length (filter (fun w => (w =? v)%float) va)) in
                     ((Z2F (2 * less + eq + 1) / 2) / Z2F n)%float) va.

Definition fnth (l : list float) (i : nat) : float := nth i l 0%float.

Definition all_nan (l : list float) : bool := forallb isnan l.
Definition clamp0 (x : float) : float := if (x <? 0)%float then 0%float else x.

(* interior cycle c of amp_consistency; peak : whether the table is peak-centred *)
Definition amp_cons_at (peak : bool) (d : direction) (rises decays : list float) (c : nat) : float :=
  let cur := ratio_minmax (fnth rises c) (fnth decays c) in
  let lst := if peak then ratio_minmax (fnth rises c) (fnth decays (c - 1))
             else ratio_minmax (fnth rises (c - 1)) (fnth decays c) in
  let nxt := if peak then ratio_minmax (fnth rises (c + 1)) (fnth decays c)
             else ratio_minmax (fnth rises c) (fnth decays (c + 1)) in
  if all_nan [cur; nxt; lst] then fnan
  else match d with
       | Next => nanmin [cur; nxt]
       | Last => nanmin [cur; lst]
       | Both => nanmin [cur; nxt; lst]
       end.

(* first and last NaN, interior computed, negatives clamped; IndexError on an empty table *)
Definition ends_nan (n : nat) (f : nat -> float) : result (list float) :=
  match n with
  | O => Err EIndex
  | _ => Ok (map (fun c => if Nat.eqb c 0 || Nat.eqb c (n - 1) then fnan else f c) (seq 0 n))
  end.

Definition amp_consistency (peak : bool) (d : direction) (rises decays : list float) : result (list float) :=
  rmap (map clamp0) (ends_nan (length rises) (amp_cons_at peak d rises decays)).

Definition zratio (a b : Z) : float :=
  (Z2F (Z.min a b) / Z2F (Z.max a b))%float.
Definition period_cons_at (d : direction) (periods : list Z) (c : nat) : float :=
  let p i := nth i periods 0%Z in
  let lst := zratio (p c) (p (c - 1)) in
  let nxt := zratio (p (c + 1)) (p c) in
  match d with
  | Next => nxt
  | Last => lst
  | Both => fmin2 nxt lst
  end.
Definition period_consistency (d : direction) (periods : list Z) : result (list float) :=
  ends_nan (length periods) (period_cons_at d periods).

(* fraction of strictly increasing / decreasing first differences *)
Fixpoint steps (up : bool) (l : list float) : list bool :=
  match l with
  | x :: t => match t with
              | y :: _ => (if up then (x <? y)%float else (y <? x)%float) :: steps up t
              | [] => []
              end
  | [] => []
  end.
Definition frac_true (l : list bool) : float :=
  (Z2F (Z.of_nat (count_true l)) / Z2F (Z.of_nat (length l)))%float.
(* rise flank = [first extremum .. second] inclusive; for a peak-centred row the rise is
   last->center and the decay center->next; for a trough-centred row the decay is
   last->center and the rise center->next *)
Definition monotonicity_row (peak : bool) (sig : list float) (r : srow) : float :=
  let a := zslice sig (s_last r) (s_center r + 1) in
  let b := zslice sig (s_center r) (s_next r + 1) in
  let rise_p := if peak then a else b in
  let decay_p := if peak then b else a in
  let dm := frac_true (steps false decay_p) in
  let rm := frac_true (steps true rise_p) in
  ((dm + rm) / 2)%float.

(* mean of the 0/1 burst mask over [last, next] inclusive *)
Definition burst_fraction_row (mask : list bool) (r : srow) : float :=
  frac_true (zslice mask (s_last r) (s_next r + 1)).
