(* Row assembly (features/cyclepoints.py:60-69), shape features (features/shape.py) and the
   trough-centring rename (utils/dataframes.py:rename_extrema_df).  C01, C04, C09. *)
From Coq Require Import List Bool Arith ZArith Floats.PrimFloat.
Import ListNotations.
From ByC Require Import Base.Result Base.ListAux Base.FloatBase Harness.Compare Model.Extrema Model.Zerox.

(* sample columns.  In the frame in which they are computed (peak-centred, on the possibly
   negated signal): center = sample_peak, last/next = sample_last/next_trough,
   zx_rise = sample_zerox_rise, zx_decay = sample_zerox_decay, last_zx = sample_last_zerox_decay.
   After the trough rename the same record is read as sample_trough, sample_last/next_peak,
   sample_zerox_rise, sample_zerox_decay, sample_last_zerox_rise. *)
Record srow := { s_center : Z; s_last : Z; s_next : Z; s_zx_rise : Z; s_zx_decay : Z; s_last_zx : Z }.

(* the six shifted slices; pandas refuses columns of unequal length with ValueError *)
Definition cycle_rows (peaks troughs rises decays : list Z) : result (list srow) :=
  let c := tl peaks in
  let lzd := removelast decays in
  let zd := tl decays in
  let zr := rises in
  let lt := removelast troughs in
  let nt := tl troughs in
  let n := length c in
  if Nat.eqb (length lzd) n && Nat.eqb (length zd) n && Nat.eqb (length zr) n
     && Nat.eqb (length lt) n && Nat.eqb (length nt) n
  then Ok (map (fun i => {| s_center := nth i c 0%Z; s_last := nth i lt 0%Z; s_next := nth i nt 0%Z;
                            s_zx_rise := nth i zr 0%Z; s_zx_decay := nth i zd 0%Z; s_last_zx := nth i lzd 0%Z |})
               (seq 0 n))
  else Err EValue.

Record shape := {
  period : Z; time_peak : Z; time_trough : Z; time_decay : Z; time_rise : Z;
  volt_peak : float; volt_trough : float; volt_decay : float; volt_rise : float; volt_amp : float;
  time_rdsym : float; time_ptsym : float; band_amp : float }.

Definition at_ (sig : list float) (i : Z) : float := nth (Z.to_nat i) sig 0%float.

(* peak-frame shape features of one row on signal sigc, amplitude envelope amp *)
Definition shape_of (sigc amp : list float) (r : srow) : shape :=
  let per := (s_next r - s_last r)%Z in
  let tp := (s_zx_decay r - s_zx_rise r)%Z in
  let tt := (s_zx_rise r - s_last_zx r)%Z in
  let td := (s_next r - s_center r)%Z in
  let tr := (s_center r - s_last r)%Z in
  let vd := (at_ sigc (s_center r) - at_ sigc (s_next r))%float in
  let vr := (at_ sigc (s_center r) - at_ sigc (s_last r))%float in
  {| period := per; time_peak := tp; time_trough := tt; time_decay := td; time_rise := tr;
     volt_peak := at_ sigc (s_center r); volt_trough := at_ sigc (s_last r);
     volt_decay := vd; volt_rise := vr; volt_amp := ((vd + vr) / 2)%float;
     time_rdsym := (Z2F tr / Z2F per)%float;
     time_ptsym := (Z2F tp / Z2F (tp + tt))%float;
     band_amp := fmean (zslice amp (s_last r) (s_next r)) |}.

(* rename_extrema_df for trough centring: swap names, negate extremum voltages, 1 - symmetry *)
Definition rename_shape (f : shape) : shape :=
  {| period := period f; time_peak := time_trough f; time_trough := time_peak f;
     time_decay := time_rise f; time_rise := time_decay f;
     volt_peak := (- volt_trough f)%float; volt_trough := (- volt_peak f)%float;
     volt_decay := volt_rise f; volt_rise := volt_decay f; volt_amp := volt_amp f;
     time_rdsym := (1 - time_rdsym f)%float; time_ptsym := (1 - time_ptsym f)%float;
     band_amp := band_amp f |}.
Definition rename_srow (r : srow) : srow :=
  {| s_center := s_center r; s_last := s_last r; s_next := s_next r;
     s_zx_rise := s_zx_decay r; s_zx_decay := s_zx_rise r; s_last_zx := s_last_zx r |}.

Inductive centre := Peak | Trough.
Definition centre_eqb (a b : centre) : bool := match a, b with Peak, Peak | Trough, Trough => true | _, _ => false end.

(* what the harness supplies about the external kernels for one analysis *)
Record kernels := {
  k_pos : list bool;    (* sign bits of bandpass(pad(+-sig)) *)
  k_padn : nat;
  k_amp : list float }. (* amp_by_time(+-sig) *)

(* compute_shape_features: returns sample rows (final names) and shape features (final names) *)
Definition shape_table (c : centre) (raw : list float) (k : kernels) (boundary : Z)
  : result (list (srow * shape)) :=
  let sigc := match c with Peak => raw | Trough => map PrimFloat.opp raw end in
  do pt <- find_extrema {| x_pos := k_pos k; x_raw := sigc; x_padn := k_padn k;
                           x_boundary := boundary; x_first := FPeak |};
  do rd <- find_zerox sigc (fst pt) (snd pt);
  do rows <- cycle_rows (fst pt) (snd pt) (fst rd) (snd rd);
  match rows with
  | [] => Err EIndex                       (* compute_band_amp indexes the first row *)
  | _ => let tab := map (fun r => (r, shape_of sigc (k_amp k) r)) rows in
         Ok (match c with
             | Peak => tab
             | Trough => map (fun rs => (rename_srow (fst rs), rename_shape (snd rs))) tab
             end)
  end.
