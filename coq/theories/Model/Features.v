(* compute_features (features/features.py): shape table + burst features + labels.
   The whole-pipeline model used by C01, C04, C05, C06, C07, C09, C10. *)
From Coq Require Import List Bool Arith ZArith Floats.PrimFloat.
Import ListNotations.
From ByC Require Import Base.Result Base.ListAux Base.FloatBase Harness.Compare
  Model.Runs Model.Labels Model.Extrema Model.Zerox Model.Cycles Model.BurstFeat.

Inductive method :=
| Cycles (t : thr4) (n : Z)                                   (* thresholds as resolved with defaults *)
| Amp (mask : list bool) (t : float) (n : Z).                 (* reference detector mask, fraction threshold *)

Record brow := { b_af : float; b_ac : float; b_pc : float; b_mo : float; b_bf : float }.
Record frow := { r_s : srow; r_shape : shape; r_burst : brow; r_is_burst : bool }.

Definition compute_features (c : centre) (raw : list float) (k : kernels) (boundary : Z) (m : method)
  : result (list frow) :=
  do tab <- shape_table c raw k boundary;
  let peak := centre_eqb c Peak in
  let rows := map fst tab in
  let shapes := map snd tab in
  match m with
  | Cycles t n =>
    let af := amp_fraction (map volt_amp shapes) in
    do ac <- amp_consistency peak Both (map volt_rise shapes) (map volt_decay shapes);
    do pc <- period_consistency Both (map period shapes);
    let mo := map (monotonicity_row peak raw) rows in
    let feats := map (fun i => {| f_af := fnth af i; f_ac := fnth ac i; f_pc := fnth pc i; f_mo := fnth mo i |})
                     (seq 0 (length rows)) in
    do lab <- labels_cycles t n feats;
    Ok (map (fun i => {| r_s := nth i rows (Build_srow 0 0 0 0 0 0); r_shape := snd (nth i tab (Build_srow 0 0 0 0 0 0, shape_of [] [] (Build_srow 0 0 0 0 0 0)));
                         r_burst := {| b_af := fnth af i; b_ac := fnth ac i; b_pc := fnth pc i; b_mo := fnth mo i; b_bf := fnan |};
                         r_is_burst := nth i lab false |}) (seq 0 (length rows)))
  | Amp mask t n =>
    let bf := map (burst_fraction_row mask) rows in
    do lab <- labels_amp t n bf;
    Ok (map (fun i => {| r_s := nth i rows (Build_srow 0 0 0 0 0 0); r_shape := snd (nth i tab (Build_srow 0 0 0 0 0 0, shape_of [] [] (Build_srow 0 0 0 0 0 0)));
                         r_burst := {| b_af := fnan; b_ac := fnan; b_pc := fnan; b_mo := fnan; b_bf := fnth bf i |};
                         r_is_burst := nth i lab false |}) (seq 0 (length rows)))
  end.

(* ------------------------------------------------------------------------------------------ *)
(* correspondence: the implementation's table arrives as flat tuples *)
Definition srow_eqb (a b : srow) : bool :=
  Z.eqb (s_center a) (s_center b) && Z.eqb (s_last a) (s_last b) && Z.eqb (s_next a) (s_next b) &&
  Z.eqb (s_zx_rise a) (s_zx_rise b) && Z.eqb (s_zx_decay a) (s_zx_decay b) && Z.eqb (s_last_zx a) (s_last_zx b).
Definition shape_eqb (a b : shape) : bool :=
  Z.eqb (period a) (period b) && Z.eqb (time_peak a) (time_peak b) && Z.eqb (time_trough a) (time_trough b) &&
  Z.eqb (time_decay a) (time_decay b) && Z.eqb (time_rise a) (time_rise b) &&
  fclose (volt_peak a) (volt_peak b) && fclose (volt_trough a) (volt_trough b) &&
  fclose (volt_decay a) (volt_decay b) && fclose (volt_rise a) (volt_rise b) && fclose (volt_amp a) (volt_amp b) &&
  fclose (time_rdsym a) (time_rdsym b) && fclose (time_ptsym a) (time_ptsym b) && fclose (band_amp a) (band_amp b).
Definition brow_eqb (a b : brow) : bool :=
  fclose (b_af a) (b_af b) && fclose (b_ac a) (b_ac b) && fclose (b_pc a) (b_pc b) &&
  fclose (b_mo a) (b_mo b) && fclose (b_bf a) (b_bf b).
Definition frow_eqb (a b : frow) : bool :=
  srow_eqb (r_s a) (r_s b) && shape_eqb (r_shape a) (r_shape b) && brow_eqb (r_burst a) (r_burst b) &&
  Bool.eqb (r_is_burst a) (r_is_burst b).

Definition mk_srow (x : Z * Z * Z * Z * Z * Z) : srow :=
  let '(c, l, n, zr, zd, lz) := x in Build_srow c l n zr zd lz.
Definition mk_shape (x : (Z * Z * Z * Z * Z) * (float * float * float * float * float) * (float * float * float)) : shape :=
  let '((p, tpk, ttr, tdc, trs), (vp, vt, vd, vr, va), (rd, pt, ba)) := x in
  Build_shape p tpk ttr tdc trs vp vt vd vr va rd pt ba.
Definition mk_brow (x : float * float * float * float * float) : brow :=
  let '(a, b, c, d, e) := x in Build_brow a b c d e.
Definition flat_row := ((Z * Z * Z * Z * Z * Z) *
                        ((Z * Z * Z * Z * Z) * (float * float * float * float * float) * (float * float * float)) *
                        (float * float * float * float * float) * bool)%type.
Definition mk_frow (x : flat_row) : frow :=
  let '(s, sh, b, ib) := x in Build_frow (mk_srow s) (mk_shape sh) (mk_brow b) ib.

(* MAmp carries the RAW min_n_cycles entries of the caller's two option dictionaries (burst_kwargs' /
   threshold_kwargs', None = key absent); the count the run filter works with is resolved HERE, by the
   model (Labels.filter_min_n), not by the harness.  The detector mask is an input (reference kernel). *)
Inductive method_in :=
| MCycles (t : float * float * float * float) (n : Z)
| MAmp (mask : barr) (t : float) (bk tk : option Z).
Definition mk_method (m : method_in) : method :=
  match m with
  | MCycles t n => Cycles (mk_thr t) n
  | MAmp mask t bk tk => Amp (barr_bits mask) t (filter_min_n bk tk)
  end.

Definition features_in := (centre * list float * (barr * nat * list float) * Z * method_in)%type.
Definition run_features (x : features_in) : result (list frow) :=
  let '(c, raw, (p, padn, amp), b, m) := x in
  compute_features c raw {| k_pos := barr_bits p; k_padn := padn; k_amp := amp |} b (mk_method m).
Definition eq_features (m : result (list frow)) (i : result (list flat_row)) : bool :=
  match m, i with
  | Err EDegenerate, _ => true
  | Ok a, Ok b => list_eqb frow_eqb a (map mk_frow b)
  | Err e, Err f => err_eqb e f
  | _, _ => false
  end.
Definition bad_features (cases : list (N * features_in * result (list flat_row))) : N * list N :=
  (N.of_nat (length cases),
   map (fun c => fst (fst c)) (filter (fun c => negb (eq_features (run_features (snd (fst c))) (snd c))) cases)).
