(* Correspondence entry points for direct table-level calls of the implementation
   (C05 compute_monotonicity; C06 detect_bursts_cycles and C07 detect_bursts_amp called twice on
   the same table; C08 check_min_burst_cycles with its argument checks).
   Nothing here is used by a theorem about the pipeline: these are the functions that the case
   files evaluate, written over the models of Model/Runs.v, Model/Labels.v, Model/BurstFeat.v.
   What the model pins BEYOND the property texts (error class for arguments outside the
   quantifier, boolean dtype of a label column) lives here and only here, so that a departure is
   reported as a broken correspondence, not as a failing input of the property. *)
From Coq Require Import List Bool Arith ZArith NArith Floats.PrimFloat.
Import ListNotations.
From ByC Require Import Base.Result Base.ListAux Base.FloatBase Harness.Compare
  Model.Runs Model.Labels Model.Cycles Model.BurstFeat.

(* generic report with different model / observation types *)
Definition report2 {I M O : Type} (run : I -> M) (eq : M -> O -> bool)
  (cases : list (N * I * O)) : N * list N :=
  (N.of_nat (length cases),
   map (fun c => fst (fst c)) (filter (fun c => negb (eq (run (snd (fst c))) (snd c))) cases)).

(* what the harness observed for a label array: an error class, or (dtype is bool, values) *)
Definition lab_obs := result (bool * barr).
Definition eq_lab (m : result (list bool)) (o : lab_obs) : bool :=
  match m, o with
  | Ok l, Ok (isbool, b) => isbool && list_eqb Bool.eqb l (barr_bits b)
  | Err e, Err f => err_eqb e f
  | _, _ => false
  end.
Definition eq_lab_opt (m : option (result (list bool))) (o : option lab_obs) : bool :=
  match m, o with
  | Some a, Some b => eq_lab a b
  | None, None => true
  | _, _ => false
  end.

(* ---------------------------------------------------------------------------------------- *)
(* C08: check_min_burst_cycles (burst/utils.py:34-57) including its argument checks           *)

Inductive container := NdArray | PyList.

Definition check_min_with (f : nat -> list bool -> list bool) (k : container) (l : list bool) (n : Z)
  : result (list bool) :=
  match k with
  | PyList => Err EValue                (* "must be a numpy array" *)
  | NdArray => match l with
               | [] => Ok []            (* empty input is returned before min_n_cycles is looked at *)
               | _ => if (n <? 0)%Z then Err EValue else Ok (f (Z.to_nat n) l)
               end
  end.
Definition check_min_burst_cycles := check_min_with minrun.
Definition check_min_burst_cycles_code := check_min_with minrun_code.

Definition cm_in := (container * barr * Z)%type.
Definition run_check_min (x : cm_in) : result (list bool) * result (list bool) :=
  let '(k, a, n) := x in
  (check_min_burst_cycles k (barr_bits a) n, check_min_burst_cycles_code k (barr_bits a) n).
Definition eq_check_min (m : result (list bool) * result (list bool)) (o : lab_obs) : bool :=
  eq_lab (fst m) o && eq_lab (snd m) o.
Definition bad_check_min := report2 run_check_min eq_check_min.

(* ---------------------------------------------------------------------------------------- *)
(* C06 / C07: the detector called on a table, then called AGAIN on the table it returned (which
   now carries an is_burst column) with other settings.  The model of a call reads the feature
   columns only, so the second result is the rule applied to the same rows.                    *)

Definition f4 := (float * float * float * float)%type.
Definition lc2_in := (f4 * Z * (f4 * Z) * list f4)%type.
Definition two_calls {S R} (f : S -> R -> result (list bool)) (s s' : S) (rows : R)
  : result (list bool) * option (result (list bool)) :=
  let first := f s rows in
  (first, match first with Ok _ => Some (f s' rows) | Err _ => None end).
Definition run_labels_cycles2 (x : lc2_in) : result (list bool) * option (result (list bool)) :=
  let '(t, n, (t', n'), rows) := x in
  two_calls (fun s r => labels_cycles (mk_thr (fst s)) (snd s) r) (t, n) (t', n') (map mk_feat rows).
Definition eq_two (m : result (list bool) * option (result (list bool))) (o : lab_obs * option lab_obs) : bool :=
  eq_lab (fst m) (fst o) && eq_lab_opt (snd m) (snd o).
Definition bad_labels_cycles2 := report2 run_labels_cycles2 eq_two.

Definition la2_in := (float * Z * (float * Z) * list float)%type.
Definition run_labels_amp2 (x : la2_in) : result (list bool) * option (result (list bool)) :=
  let '(t, n, (t', n'), fr) := x in
  two_calls (fun s r => labels_amp (fst s) (snd s) r) (t, n) (t', n') fr.
Definition bad_labels_amp2 := report2 run_labels_amp2 eq_two.

(* ---------------------------------------------------------------------------------------- *)
(* C05: compute_monotonicity(df_samples, sig) on a hand-made signal and (last, centre, next)
   triples                                                                                     *)

Definition mono_in := (bool * list float * list (Z * Z * Z))%type.
Definition run_monotonicity (x : mono_in) : list float :=
  let '(peak, sig, rows) := x in
  map (fun r => let '(la, ce, nx) := r in
                monotonicity_row peak sig (Build_srow ce la nx 0 0 0)) rows.
Definition bad_monotonicity := report run_monotonicity (list_eqb fclose).
