(* Settings validation (C19): the shape/axis decision table of group/utils.py:check_kwargs_shape
   (as repaired: 2-D option lists are only valid with axis=(0,1)), enumerated options,
   dimensionality guards and range checks. *)
From Coq Require Import List Bool Arith ZArith String Floats.PrimFloat.
Import ListNotations.
From ByC Require Import Base.Result Harness.Compare.

Inductive kwshape := KNone | KDict | K1 (d0 : nat) | K2 (d0 d1 : nat) | K3 | KRagged.
Inductive axis := Ax0 | Ax1 | Ax01 | AxNone | AxOther.
Inductive sigdims := D2 (n0 : nat) | D3 (n0 n1 : nat).

(* the decision table, in the code's branch order; true = accepted (returns), false = ValueError *)
Definition check_kwargs_shape (s : sigdims) (k : kwshape) (a : axis) : bool :=
  match k with
  | KNone | KDict => true                       (* shape is not checked; axis is checked by the caller *)
  | KRagged => false                            (* np.array(list) refuses inhomogeneous lists *)
  | K3 => false
  | K1 kd0 =>
    match s, a with
    | D2 n0, (Ax0 | AxNone) => Nat.eqb kd0 n0
    | D3 n0 n1, Ax0 => Nat.eqb kd0 n0
    | D3 n0 n1, Ax1 => Nat.eqb kd0 n1
    | D3 n0 n1, Ax01 => false                   (* kwargs_dim1 (None) != sigs_dim1 *)
    | D2 _, _ => false                          (* axis check *)
    | D3 _ _, _ => false
    end
  | K2 kd0 kd1 =>
    match s, a with
    | D2 n0, (Ax0 | AxNone) => false            (* mismatch, or kwargs_dim1 is not None *)
    | D3 n0 n1, (Ax0 | Ax1) => false            (* repaired: 2-D lists need axis=(0,1) *)
    | D3 n0 n1, Ax01 => Nat.eqb kd0 n0 && Nat.eqb kd1 n1
    | D2 _, _ => false
    | D3 _ _, _ => false
    end
  end.

(* the pre-repair table (Legacy): a 2-D list was accepted for axis 0 / 1 when its first extent matched *)
Definition check_kwargs_shape_legacy (s : sigdims) (k : kwshape) (a : axis) : bool :=
  match k, s, a with
  | K2 kd0 kd1, D3 n0 n1, Ax0 => Nat.eqb kd0 n0
  | K2 kd0 kd1, D3 n0 n1, Ax1 => Nat.eqb kd0 n1
  | _, _, _ => check_kwargs_shape s k a
  end.

(* axis values accepted by the entry points themselves *)
Definition axis_ok (s : sigdims) (a : axis) : bool :=
  match s, a with
  | D2 _, (Ax0 | AxNone) => true
  | D3 _ _, (Ax0 | Ax1 | Ax01) => true
  | _, _ => false
  end.
(* compute_features_2d / _3d / BycycleGroup.fit: accepted iff both checks pass *)
Definition group_accepts (s : sigdims) (k : kwshape) (a : axis) : bool :=
  check_kwargs_shape s k a && axis_ok s a.

(* the documentation, as a specification *)
Definition documented_valid (s : sigdims) (k : kwshape) (a : axis) : Prop :=
  match s, a with
  | D2 n0, (Ax0 | AxNone) => k = KNone \/ k = KDict \/ k = K1 n0
  | D3 n0 n1, Ax0 => k = KNone \/ k = KDict \/ k = K1 n0
  | D3 n0 n1, Ax1 => k = KNone \/ k = KDict \/ k = K1 n1
  | D3 n0 n1, Ax01 => k = KNone \/ k = KDict \/ k = K2 n0 n1
  | _, _ => False
  end.

(* range checks (neurodsp check_param_range): reject iff x < lo or x > hi *)
Definition in_range (x lo hi : float) : bool := negb ((x <? lo)%float || (hi <? x)%float).
Definition amp_threshes_ok (lo hi : float) : bool := in_range lo 0 hi && in_range hi lo infinity.
Definition min_n_ok (n : Z) : bool := (0 <=? n)%Z.

(* The amplitude method reads a minimum cycle count in TWO dictionaries: burst_kwargs (b: the count of the dual-threshold
   detector) and the thresholds (t: the count of the run filter); either may be absent.  A negative count is rejected
   wherever it is given. *)
Definition opt_min_n_ok (c : option Z) : bool := match c with None => true | Some n => min_n_ok n end.
Definition min_n_pair_ok (b t : option Z) : bool := opt_min_n_ok b && opt_min_n_ok t.
(* before the repair (/repo 5602cfc) only the count the pipeline ends up using was validated (compute_features:
   burst_kwargs', else the thresholds', else 3; the thresholds' entry was overwritten before anything looked at it) *)
Definition effective_min_n (b t : option Z) : Z :=
  match b with Some n => n | None => match t with Some n => n | None => 3%Z end end.
Definition min_n_pair_ok_legacy (b t : option Z) : bool := min_n_ok (effective_min_n b t).

(* enumerated options: membership in the documented list (index of the value or "other") *)
Inductive opt := OptValid (i : nat) | OptOther.
Definition option_ok (n_valid : nat) (o : opt) : bool :=
  match o with OptValid i => Nat.ltb i n_valid | OptOther => false end.

(* the documented value tables of the enumerated options (None = Python None) *)
Inductive optname := OCenter | OBurstMethod | OFirstExtrema | ODirection | OProgress | OShapeFirstExtrema.
Definition documented_options (o : optname) : list (option string) :=
  match o with
  | OCenter => [Some "peak"; Some "trough"]%string
  | OBurstMethod => [Some "cycles"; Some "amp"]%string
  | OFirstExtrema => [Some "peak"; Some "trough"; None]%string
  | ODirection => [Some "both"; Some "next"; Some "last"]%string
  | OProgress => [None; Some "tqdm"; Some "tqdm.notebook"]%string
  | OShapeFirstExtrema => []     (* compute_shape_features refuses any first_extrema override (implementation choice) *)
  end.
Definition ostr_eqb (a b : option string) : bool := option_eqb String.eqb a b.
Fixpoint index_of (v : option string) (l : list (option string)) : option nat :=
  match l with
  | [] => None
  | x :: t => if ostr_eqb v x then Some O else option_map S (index_of v t)
  end.
Definition to_opt (o : optname) (v : option string) : opt :=
  match index_of v (documented_options o) with Some i => OptValid i | None => OptOther end.
Definition option_accepts (o : optname) (v : option string) : bool :=
  option_ok (List.length (documented_options o)) (to_opt o v).

(* a setting value as Python hands it over.  Only None and str values can be documented values of an enumerated
   option; a value of any other type (bool, int, float, bytes, tuple, list - in particular the falsy ones False, 0,
   0.0, b'', (), []) is unknown, and strings are compared exactly (case and white space matter).  Tuples / lists
   carry their items when these are strings or None. *)
Inductive pyval := PNone | PStr (s : string) | PBool (b : bool) | PInt (z : Z) | PFloat (f : float)
                 | PBytes (s : string) | PTuple (items : list (option string)) | PList (items : list (option string)).
Definition pyval_as_option (v : pyval) : option (option string) :=
  match v with PNone => Some None | PStr s => Some (Some s) | _ => None end.
Definition option_accepts_val (o : optname) (v : pyval) : bool :=
  match pyval_as_option v with Some x => option_accepts o x | None => false end.
(* Python truthiness of such a value (bool(v) is False) *)
Definition falsy (v : pyval) : bool :=
  match v with
  | PNone => true
  | PStr s | PBytes s => String.eqb s ""
  | PBool b => negb b
  | PInt z => Z.eqb z 0
  | PFloat f => (f =? 0)%float
  | PTuple l | PList l => match l with [] => true | _ => false end
  end.

(* sampling rate: positive *)
Definition fs_ok (fs : float) : bool := (0 <? fs)%float.

(* dimensionality / fitted-state guards *)
Definition bycycle_fit_dim_ok (ndim : nat) : bool := Nat.eqb ndim 1.
Definition group_fit_dim_ok (ndim : nat) : bool := Nat.eqb ndim 2 || Nat.eqb ndim 3.
Definition plot_ok (fitted : bool) : bool := fitted.

(* correspondence *)
Definition run_check_shape (x : sigdims * kwshape * axis) : bool :=
  let '(s, k, a) := x in check_kwargs_shape s k a.
Definition run_group_accepts (x : sigdims * kwshape * axis) : bool :=
  let '(s, k, a) := x in group_accepts s k a.
Definition bad_check_shape := report run_check_shape Bool.eqb.
Definition bad_group_accepts := report run_group_accepts Bool.eqb.
Definition run_in_range (x : float * float * float) : bool := let '(v, lo, hi) := x in in_range v lo hi.
Definition bad_in_range := report run_in_range Bool.eqb.
Definition run_amp_threshes (x : float * float) : bool := amp_threshes_ok (fst x) (snd x).
Definition bad_amp_threshes := report run_amp_threshes Bool.eqb.
Definition bad_min_n := report min_n_ok Bool.eqb.
Definition run_min_n_pair (x : option Z * option Z) : bool := min_n_pair_ok (fst x) (snd x).
Definition bad_min_n_pair := report run_min_n_pair Bool.eqb.
Definition run_option (x : optname * option string) : bool := option_accepts (fst x) (snd x).
Definition bad_option := report run_option Bool.eqb.
Definition run_optval (x : optname * pyval) : bool := option_accepts_val (fst x) (snd x).
Definition bad_optval := report run_optval Bool.eqb.
Definition bad_fs := report fs_ok Bool.eqb.
Inductive guard := GFit (ndim : nat) | GGroup (ndim : nat) | GPlot (fitted : bool).
Definition run_guard (g : guard) : bool :=
  match g with GFit d => bycycle_fit_dim_ok d | GGroup d => group_fit_dim_ok d | GPlot f => plot_ok f end.
Definition bad_guard := report run_guard Bool.eqb.
