(* Float-array operations for the source translator (harness/translate.py, float mode): what
   bycycle.utils.timeseries.limit_signal uses.  `a >= x`, `a < x` are numpy's element-wise binary64
   comparisons (false on NaN); `a[mask]` fails unless mask and array have the same length. *)
From Coq Require Import List Bool Arith Floats.PrimFloat.
Import ListNotations.
From ByC Require Import Base.Result Model.Window.

(* check_param_range(x, name, (lo, hi)) of neurodsp: ValueError iff x < lo or x > hi *)
Definition f_in_range (x lo hi : float) : bool := in_range x lo hi.
Definition f_ge_scalar (a : list float) (x : float) : list bool := map (fun t => (x <=? t)%float) a.
Definition f_lt_scalar (a : list float) (x : float) : list bool := map (fun t => (t <? x)%float) a.
Definition f_mask (a : list float) (m : list bool) : result (list float) :=
  if Nat.eqb (length a) (length m) then Ok (map fst (filter snd (combine a m))) else Err EIndex.
