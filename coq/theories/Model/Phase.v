(* extrema_interpolated_phase (cyclepoints/phase.py), C17.  Exact rational model in quarter-turn
   units: rise midpoint -1, peak 0, decay midpoint +1, trough -2 (the "-pi" series) or +2 (the
   "+pi" series).  None = NaN.  Both masks are the repaired ones: the span starts at the first and ends at the last
   sample where the phase changes (before the repair: first INCREASING step at the start, and a
   mis-indexed slice at the end). *)
From Coq Require Import List Bool Arith ZArith QArith Qabs.
Import ListNotations.
From ByC Require Import Base.Result Base.ListAux Harness.Compare.
Local Open Scope Q_scope.

Record cps := { c_n : nat; c_peaks : list nat; c_troughs : list nat;
                c_rises : option (list nat); c_decays : option (list nat) }.

Definition mem (i : nat) (l : list nat) : bool := existsb (Nat.eqb i) l.
Definition omem (i : nat) (l : option (list nat)) : bool := match l with Some l => mem i l | None => false end.

(* anchor value at sample i: midpoints are assigned first, extrema overwrite them *)
Definition anchor (trough_val : Z) (c : cps) (i : nat) : option Z :=
  if mem i (c_troughs c) then Some trough_val
  else if mem i (c_peaks c) then Some 0%Z
  else if omem i (c_decays c) then Some 1%Z
  else if omem i (c_rises c) then Some (-1)%Z
  else None.

Definition anchors (tv : Z) (c : cps) : list (nat * Z) :=
  flat_map (fun i => match anchor tv c i with Some v => [(i, v)] | None => [] end) (seq 0 (c_n c)).

(* np.interp at integer x over sorted anchors: constant beyond the ends *)
Fixpoint interp_at (prev : option (nat * Z)) (anc : list (nat * Z)) (x : nat) : option Q :=
  match anc with
  | [] => match prev with Some (_, v) => Some (inject_Z v) | None => None end
  | (a, v) :: rest =>
    if Nat.ltb x a then
      match prev with
      | None => Some (inject_Z v)
      | Some (a0, v0) =>
        Some (inject_Z v0 + (inject_Z (v - v0)) * (inject_Z (Z.of_nat (x - a0)) / inject_Z (Z.of_nat (a - a0))))
      end
    else if Nat.eqb x a then Some (inject_Z v)
    else interp_at (Some (a, v)) rest x
  end.
Definition interp (anc : list (nat * Z)) (n : nat) : result (list Q) :=
  match anc with
  | [] => Err EValue                                 (* np.interp refuses empty sample points *)
  | _ => Ok (map (fun x => match interp_at None anc x with Some q => q | None => 0 end) (seq 0 n))
  end.

Definition Qltb (a b : Q) : bool := negb (Qle_bool b a).
Definition qnth (l : list Q) (i : nat) : Q := nth i l 0.
Definition onth (l : list (option Q)) (i : nat) : option Q := nth i l None.

(* use the +pi series wherever the -pi series is about to decrease *)
Definition merge (tpi tnpi : list Q) : list Q :=
  map (fun i => if Nat.ltb (S i) (length tnpi) && Qltb (qnth tnpi (S i)) (qnth tnpi i)
                then qnth tpi i else qnth tnpi i) (seq 0 (length tnpi)).

(* step i of an option-valued series: Some (x[i+1] - x[i]) when both defined *)
Definition step (l : list (option Q)) (i : nat) : option Q :=
  match onth l i, onth l (S i) with Some a, Some b => Some (b - a) | _, _ => None end.
Definition is_pos (d : option Q) : bool := match d with Some q => Qltb 0 q | None => false end.
Definition is_nonzero (d : option Q) : bool :=
  match d with Some q => negb (Qeq_bool q 0) | None => false end.

Fixpoint find_idx (p : nat -> bool) (l : list nat) : option nat :=
  match l with [] => None | i :: t => if p i then Some i else find_idx p t end.

Definition mask_before (k : nat) (l : list (option Q)) : list (option Q) :=
  map (fun ix => if Nat.ltb (fst ix) k then None else snd ix) (combine (seq 0 (length l)) l).
Definition mask_from (k : nat) (l : list (option Q)) : list (option Q) :=
  map (fun ix => if Nat.leb k (fst ix) then None else snd ix) (combine (seq 0 (length l)) l).

Definition merge_phases (tpi tnpi : list Q) : result (list (option Q)) :=
  let n := length tnpi in
  let pha := map Some (merge tpi tnpi) in
  match find_idx (fun i => is_nonzero (step pha i)) (seq 0 (n - 1)) with
  | None => Err EOther                               (* StopIteration *)
  | Some first =>
    let pha1 := mask_before first pha in
    (* scan the steps from the end: k-th reversed step is step (n-2-k) *)
    match find_idx (fun k => is_nonzero (step pha1 (n - 2 - k))) (seq 0 (n - 1)) with
    | None => Err EOther
    | Some k => Ok (mask_from (n - k) pha1)
    end
  end.

(* the end mask as it was before the repair (Legacy): first reversed step > 0, then pha[-k+1:] = nan *)
Definition py_slice_from (start : Z) (n : nat) : nat :=     (* first index of l[start:] *)
  if (start <? 0)%Z then Z.to_nat (Z.max 0 (Z.of_nat n + start)) else Z.to_nat start.
Definition merge_phases_legacy (tpi tnpi : list Q) : result (list (option Q)) :=
  let n := length tnpi in
  let pha := map Some (merge tpi tnpi) in
  match find_idx (fun i => is_pos (step pha i)) (seq 0 (n - 1)) with
  | None => Err EOther
  | Some first =>
    let pha1 := mask_before first pha in
    match find_idx (fun k => is_pos (step pha1 (n - 2 - k))) (seq 0 (n - 1)) with
    | None => Err EOther
    | Some k => Ok (mask_from (py_slice_from (- Z.of_nat k + 1) n) pha1)
    end
  end.

(* the start mask as it was before its repair (first step > 0), with the repaired end mask *)
Definition merge_phases_legacy_start (tpi tnpi : list Q) : result (list (option Q)) :=
  let n := length tnpi in
  let pha := map Some (merge tpi tnpi) in
  match find_idx (fun i => is_pos (step pha i)) (seq 0 (n - 1)) with
  | None => Err EOther
  | Some first =>
    let pha1 := mask_before first pha in
    match find_idx (fun k => is_nonzero (step pha1 (n - 2 - k))) (seq 0 (n - 1)) with
    | None => Err EOther
    | Some k => Ok (mask_from (n - k) pha1)
    end
  end.

Definition phase_gen (mp : list Q -> list Q -> result (list (option Q))) (c : cps) : result (list (option Q)) :=
  do tpi <- interp (anchors 2 c) (c_n c);
  do tnpi <- interp (anchors (-2) c) (c_n c);
  mp tpi tnpi.
Definition phase := phase_gen merge_phases.
Definition phase_legacy := phase_gen merge_phases_legacy.
Definition phase_legacy_start := phase_gen merge_phases_legacy_start.

(* ------------------------------------------------------------------------------------------ *)
(* correspondence: the implementation's values arrive divided by pi/2 as decimal fractions
   (numerator, 10^9); comparison within 1e-6 quarter turns, NaN pattern exactly *)
Definition close_q (a b : Q) : bool :=
  Qltb (Qabs (a - b)) (1 # 1000000).
Definition ophase_eqb (a : option Q) (b : option Z) : bool :=
  match a, b with
  | None, None => true
  | Some q, Some z => close_q q (z # 1000000000)
  | _, _ => false
  end.
Definition run_phase (x : nat * list nat * list nat * option (list nat) * option (list nat)) : result (list (option Q)) :=
  let '(n, p, t, r, d) := x in phase {| c_n := n; c_peaks := p; c_troughs := t; c_rises := r; c_decays := d |}.
Definition eq_phase (m : result (list (option Q))) (i : result (list (option Z))) : bool :=
  match m, i with
  | Ok a, Ok b => Nat.eqb (length a) (length b) && forallb (fun ab => ophase_eqb (fst ab) (snd ab)) (combine a b)
  | Err e, Err f => err_eqb e f
  | _, _ => false
  end.
(* The theorems of Proofs/Phase.v assume wf_cps: along the sorted anchor list of the -pi series every step either
   advances the phase or wraps into a trough (from a value >= 0), and there are at least two anchors.  The boolean
   form lives here so that the runner can test it on every generated case (soundness: Proofs/Phase.v, wf_cpsb_sound);
   a case of the quantified class on which it is false would lie outside every theorem, and is reported like a
   disagreement. *)
Fixpoint wf_ancb (anc : list (nat * Z)) : bool :=
  match anc with
  | (a0, v0) :: (((a1, v1) :: _) as t) =>
      (a0 <? a1)%nat && ((-2 <=? v0)%Z && (v0 <=? 1)%Z) &&
      ((v0 <? v1)%Z || ((v1 =? -2)%Z && (0 <=? v0)%Z)) && wf_ancb t
  | [(a0, v0)] => (-2 <=? v0)%Z && (v0 <=? 1)%Z
  | [] => true
  end.
Definition wf_cpsb (c : cps) : bool :=
  wf_ancb (anchors (-2) c) && (2 <=? length (anchors (-2) c))%nat.

Definition cps_of (x : nat * list nat * list nat * option (list nat) * option (list nat)) : cps :=
  let '(n, p, t, r, d) := x in {| c_n := n; c_peaks := p; c_troughs := t; c_rises := r; c_decays := d |}.

(* a case is reported when model and implementation differ OR the case is outside the theorems' precondition *)
Definition bad_phase (cases : list (N * (nat * list nat * list nat * option (list nat) * option (list nat)) * result (list (option Z))))
  : N * list N :=
  (N.of_nat (length cases),
   map (fun c => fst (fst c))
       (filter (fun c => negb (eq_phase (run_phase (snd (fst c))) (snd c) && wf_cpsb (cps_of (snd (fst c))))) cases)).
(* the two parts separately (used when a reported case is analysed) *)
Definition bad_phase_values (cases : list (N * (nat * list nat * list nat * option (list nat) * option (list nat)) * result (list (option Z))))
  : N * list N :=
  (N.of_nat (length cases),
   map (fun c => fst (fst c)) (filter (fun c => negb (eq_phase (run_phase (snd (fst c))) (snd c))) cases)).
Definition bad_phase_wf (cases : list (N * (nat * list nat * list nat * option (list nat) * option (list nat)) * result (list (option Z))))
  : N * list N :=
  (N.of_nat (length cases),
   map (fun c => fst (fst c)) (filter (fun c => negb (wf_cpsb (cps_of (snd (fst c))))) cases)).
