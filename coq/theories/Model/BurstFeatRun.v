(* Correspondence entry points for the individual burst-feature functions (C05). *)
From Coq Require Import List Bool Arith ZArith NArith Floats.PrimFloat.
Import ListNotations.
From ByC Require Import Base.Result Base.ListAux Base.FloatBase Harness.Compare Model.Cycles Model.BurstFeat.

Definition flist_close (a b : list float) : bool := list_eqb fclose a b.

(* (peak, direction, volt_rise, volt_decay, periods, volt_amp) ->
   (amp_fraction, amp_consistency, period_consistency) *)
Definition bf_in := (bool * direction * list float * list float * list Z * list float)%type.
Definition bf_out := (list float * result (list float) * result (list float))%type.
Definition run_burst_funcs (x : bf_in) : bf_out :=
  let '(peak, d, rises, decays, periods, va) := x in
  (amp_fraction va, amp_consistency peak d rises decays, period_consistency d periods).
Definition eq_burst_funcs (a b : bf_out) : bool :=
  let '(af, ac, pc) := a in let '(af', ac', pc') := b in
  flist_close af af' && result_eqb flist_close ac ac' && result_eqb flist_close pc pc'.
Definition bad_burst_funcs := report run_burst_funcs eq_burst_funcs.
