(* Windowing utilities (C18): limit_df, limit_signal (utils/timeseries.py), split/drop_samples_df,
   flatten_dfs (utils/dataframes.py) — as repaired: optional limits, centring-aware shift by the
   nearest sample index; limit_df compares the cycles' sample TIMES k / fs (the library's own time
   axis arange(n) / fs) with the limits and rejects a sampling rate of exactly 0 (repairs 9e31bd8,
   a212b36).  The pre-repair comparison (sample index against start*fs) is kept as keep_row_legacy /
   limit_df_legacy and refuted in Proofs/Window.v. *)
From Coq Require Import List Bool Arith ZArith Floats.PrimFloat Floats.SpecFloat Floats.FloatOps.
Import ListNotations.
From ByC Require Import Base.Result Base.ListAux Base.FloatBase Harness.Compare Model.Cycles Model.Epoch.

(* int(x) for a finite float: truncation toward zero *)
Definition F2Z_trunc (x : float) : Z :=
  match Prim2SF x with
  | S754_finite s m e =>
    let mag := if (0 <=? e)%Z then (Z.pos m * 2 ^ e)%Z else (Z.pos m / 2 ^ (- e))%Z in
    if s then (- mag)%Z else mag
  | _ => 0%Z
  end.

(* int(np.round(x)): nearest integer, ties to even *)
Definition F2Z_round (x : float) : Z :=
  let t := F2Z_trunc x in
  let fr := (x - Z2F t)%float in
  if (0x1p-1 <? fr)%float then (t + 1)%Z
  else if (fr <? -0x1p-1)%float then (t - 1)%Z
  else if (fr =? 0x1p-1)%float then (if Z.even t then t else t + 1)%Z
  else if (fr =? -0x1p-1)%float then (if Z.even t then t else t - 1)%Z
  else t.

(* neurodsp check_param_range with optional bounds (None skips the check) *)
Definition in_range (x lo hi : float) : bool := negb ((x <? lo)%float || (hi <? x)%float).
Definition limits_ok (start stop : option float) : bool :=
  match start, stop with
  | Some a, Some b => in_range a 0 b && in_range b a infinity
  | Some a, None => in_range a 0 infinity
  | None, Some b => in_range b 0 infinity
  | None, None => true
  end.

(* the sampling-rate test of limit_df: check_param_range(fs, 'fs', (0, np.inf)) (inclusive bounds; a NaN
   passes because both comparisons are false) followed by `if fs == 0: raise ValueError` (+0.0 and -0.0) *)
Definition limit_fs_ok (fs : float) : bool := in_range fs 0 infinity && negb (fs =? 0)%float.
(* the pre-repair test: fs = 0 was accepted *)
Definition limit_fs_ok_legacy (fs : float) : bool := in_range fs 0 infinity.

Definition start_or_0 (start : option float) : float := match start with Some a => a | None => 0%float end.

(* int(np.round(x)): ValueError for NaN, OverflowError for an infinity, else the nearest integer *)
Definition offset_of (x : float) : result Z :=
  if is_nan x then Err EValue else if is_infinity x then Err EOther else Ok (F2Z_round x).

Section Rows.
Context {X : Type}.
Definition wrow := (srow * X)%type.      (* sample columns + all other columns *)

(* a row is kept iff the TIME of its first sample is not before start and (stop given) the time of its last
   sample is not after stop; times are sample / fs in binary64 (int64 -> float64, then one division) *)
Definition keep_row (fs : float) (start stop : option float) (r : wrow) : bool :=
  (start_or_0 start <=? Z2F (s_last (fst r)) / fs)%float &&
  match stop with
  | Some b => (Z2F (s_next (fst r)) / fs <=? b)%float
  | None => true
  end.

(* before the repair: sample indices compared with the products start*fs, stop*fs *)
Definition keep_row_legacy (fs : float) (start stop : option float) (r : wrow) : bool :=
  ((start_or_0 start * fs)%float <=? Z2F (s_last (fst r)))%float &&
  match stop with
  | Some b => (Z2F (s_next (fst r)) <=? (b * fs)%float)%float
  | None => true
  end.

Definition limit_df_with (fsok : float -> bool) (keep : float -> option float -> option float -> wrow -> bool)
  (rows : list wrow) (fs : float) (start stop : option float) (reset : bool) : result (list wrow) :=
  if negb (fsok fs) then Err EValue
  else if negb (limits_ok start stop) then Err EValue
  else
    let kept := filter (keep fs start stop) rows in
    (* the offset is the sample index NEAREST to fs*start (repaired: it used to be truncated); the conversion
       to int raises when fs*start is NaN or infinite (fs or start infinite / NaN) *)
    if reset then
      match offset_of (fs * start_or_0 start)%float with
      | Ok off => Ok (map (fun r => (shift_srow off (fst r), snd r)) kept)
      | Err e => Err e
      end
    else Ok kept.

Definition limit_df := limit_df_with limit_fs_ok keep_row.
Definition limit_df_legacy := limit_df_with limit_fs_ok_legacy keep_row_legacy.
End Rows.

(* limit_signal: samples with start <= t < stop, either limit optional *)
Definition limit_signal (tv : list (float * float)) (start stop : option float)
  : result (list (float * float)) :=
  if negb (limits_ok start stop) then Err EValue
  else
    let l1 := match start with Some a => filter (fun x => (a <=? fst x)%float) tv | None => tv end in
    Ok (match stop with Some b => filter (fun x => (fst x <? b)%float) l1 | None => l1 end).

(* split_samples_df / drop_samples_df: columns are (is_sample_column, payload) in table order *)
Definition split_samples {C} (cols : list (bool * C)) : list (bool * C) * list (bool * C) :=
  (filter (fun c => negb (fst c)) cols, filter (fun c => fst c) cols).
Definition drop_samples {C} (cols : list (bool * C)) : list (bool * C) := filter (fun c => negb (fst c)) cols.

(* flatten_dfs: every row of table k carries label k; tables concatenated in (row-major) order *)
Definition flatten1 {R L} (dfs : list (list R)) (labels : list L) : result (list (R * L)) :=
  if Nat.eqb (length labels) (length dfs)
  then Ok (concat (map (fun dl => map (fun r => (r, snd dl)) (fst dl)) (zip dfs labels)))
  else Err EValue.
Definition flatten2 {R L} (dfs : list (list (list R))) (labels : list L) : result (list (R * L)) :=
  let n1 := length (hd [] dfs) in
  if Nat.eqb (length labels) (length dfs * n1)
  then Ok (concat (map (fun dl => map (fun r => (r, snd dl)) (fst dl)) (zip (concat dfs) labels)))
  else Err EValue.

(* ------------------------------------------------------------------------------------------ *)
(* correspondence *)
Definition mk_wrow (x : (Z * Z * Z * Z * Z * Z) * N) : @wrow N :=
  let '((c, l, n, zr, zd, lz), id) := x in (Build_srow c l n zr zd lz, id).
Definition wrow_flat (r : @wrow N) : (Z * Z * Z * Z * Z * Z) * N :=
  let s := fst r in ((s_center s, s_last s, s_next s, s_zx_rise s, s_zx_decay s, s_last_zx s), snd r).
Definition limit_in := (list ((Z * Z * Z * Z * Z * Z) * N) * float * option float * option float * bool)%type.
Definition run_limit_df (x : limit_in) : result (list ((Z * Z * Z * Z * Z * Z) * N)) :=
  let '(rows, fs, a, b, reset) := x in rmap (map wrow_flat) (limit_df (map mk_wrow rows) fs a b reset).
Definition wflat_eqb (a b : (Z * Z * Z * Z * Z * Z) * N) : bool := six_eqb (fst a) (fst b) && N.eqb (snd a) (snd b).
Definition bad_limit_df := report run_limit_df (result_eqb (list_eqb wflat_eqb)).

(* limit_signal: times are k / fs ... the harness passes the time stamps themselves; payload = index *)
Definition run_limit_signal (x : list float * option float * option float) : result (list N) :=
  let '(ts, a, b) := x in
  rmap (map (fun tv => match snd tv with v => N.of_nat (Z.to_nat (F2Z_trunc v)) end))
       (limit_signal (map (fun it => (snd it, Z2F (Z.of_nat (fst it)))) (combine (seq 0 (length ts)) ts)) a b).
Definition bad_limit_signal := report run_limit_signal (result_eqb (list_eqb N.eqb)).

Definition run_flatten (x : list (list N) * list N * bool * nat) : result (list (N * N)) :=
  let '(dfs, labels, two_d, n1) := x in
  if two_d then flatten2 (map (fun i => slice dfs (i * n1) (i * n1 + n1)) (seq 0 (length dfs / Nat.max n1 1))) labels
  else flatten1 dfs labels.
Definition nn_eqb (a b : N * N) : bool := N.eqb (fst a) (fst b) && N.eqb (snd a) (snd b).
Definition bad_flatten := report run_flatten (result_eqb (list_eqb nn_eqb)).

(* ------------------------------------------------------------------------------------------ *)
From Coq Require Import String.   (* after everything that uses List.length *)

(* the columns by NAME: a column is a sample column iff its name starts with "sample_" (col.startswith('sample_')),
   not merely contains it; payload = the column's values *)
Definition is_sample_name (s : string) : bool := String.prefix "sample_" s.
Definition tag_cols {C} (cols : list (string * C)) : list (bool * (string * C)) :=
  map (fun c => (is_sample_name (fst c), c)) cols.
Definition split_named {C} (cols : list (string * C)) : list (string * C) * list (string * C) :=
  (map snd (fst (split_samples (tag_cols cols))), map snd (snd (split_samples (tag_cols cols)))).
Definition drop_named {C} (cols : list (string * C)) : list (string * C) := map snd (drop_samples (tag_cols cols)).

(* split / drop by column name; payload = column id.  The implementation's results arrive as options (None = the
   call raised): drop must succeed and agree; split is compared only when the table has a sample column (without one
   pandas refuses to concatenate nothing, which the property does not cover). *)
Definition run_split (x : list (string * N)) : list N * (list N * list N) :=
  (map snd (drop_named x), (map snd (fst (split_named x)), map snd (snd (split_named x)))).
Definition eq_split (x : list (string * N)) (o : option (list N) * option (list N * list N)) : bool :=
  let m := run_split x in
  match fst o with Some d => list_eqb N.eqb (fst m) d | None => false end &&
  (negb (existsb (fun c => is_sample_name (fst c)) x) ||
   match snd o with
   | Some (f, s) => list_eqb N.eqb (fst (snd m)) f && list_eqb N.eqb (snd (snd m)) s
   | None => false
   end).
Definition bad_split (cases : list (N * list (string * N) * (option (list N) * option (list N * list N)))) : N * list N :=
  (N.of_nat (List.length cases),
   map (fun c => fst (fst c)) (filter (fun c => negb (eq_split (snd (fst c)) (snd c))) cases)).
