(* Model of bycycle.cyclepoints.find_extrema (C02; feeds C01, C03-C05, C09, C10).

   Inputs supplied by the harness (reference calls to neurodsp, never to bycycle):
     pos   : sign bits `filt > 0` of the band-passed, zero-padded signal
     padn  : ceil(filt_len / 2) when pad=True, else 0
   The model pads the raw signal itself, finds the crossings of `pos`, takes the first
   arg-max / arg-min of the raw samples over each half-open window between consecutive
   crossings, un-pads, applies the boundary filter and the first_extrema trimming. *)
From Coq Require Import List Bool Arith ZArith Floats.PrimFloat.
Import ListNotations.
From ByC Require Import Base.Result Base.ListAux Harness.Compare.
Local Open Scope float_scope.

(* crossing events (i, k): bit i is (negb k), bit i+1 is k; k = true is a rising crossing *)
Fixpoint events (i : nat) (l : list bool) : list (nat * bool) :=
  match l with
  | x :: t => match t with
              | y :: _ => if Bool.eqb x y then events (S i) t else (i, y) :: events (S i) t
              | [] => []
              end
  | [] => []
  end.

Definition rises_of (ev : list (nat * bool)) : list nat := map fst (filter snd ev).
Definition decays_of (ev : list (nat * bool)) : list nat := map fst (filter (fun e => negb (snd e)) ev).

(* first index of a strict improvement; numpy argmax/argmin on finite data *)
Fixpoint argbest (better : float -> float -> bool) (l : list float) (i bi : nat) (bv : float) : nat :=
  match l with
  | [] => bi
  | x :: t => if better x bv then argbest better t (S i) i x else argbest better t (S i) bi bv
  end.
Definition argmax_first (l : list float) : option nat :=
  match l with [] => None | x :: t => Some (argbest (fun x b => b <? x) t 1%nat 0%nat x) end.
Definition argmin_first (l : list float) : option nat :=
  match l with [] => None | x :: t => Some (argbest (fun x b => x <? b) t 1%nat 0%nat x) end.

Definition pad (n : nat) (sig : list float) : list float := repeat 0 n ++ sig ++ repeat 0 n.

(* extremum of the raw samples over [a, b), where b is the first crossing of the other
   kind after a *)
Definition extremum_after (arg : list float -> option nat) (sigp : list float)
  (others : list nat) (a : nat) : result nat :=
  match find (fun d => Nat.ltb a d) others with
  | None => Err EOther           (* unreachable when crossings alternate (proved) *)
  | Some b => match arg (slice sigp a b) with
              | None => Err EValue
              | Some k => Ok (a + k)%nat
              end
  end.

Definition raw_extrema (pos : list bool) (sigp : list float) : result (list nat * list nat) :=
  let ev := events 0%nat pos in
  let rises := rises_of ev in
  let decays := decays_of ev in
  match rises, decays with
  | [], _ | _, [] => Err EDegenerate    (* the code substitutes a dummy crossing: outside every property *)
  | _, _ =>
    let '(np, nt) := if Nat.ltb (last decays 0%nat) (last rises 0%nat)
                     then ((length rises - 1)%nat, length decays)
                     else (length rises, (length decays - 1)%nat) in
    do peaks <- mapM (extremum_after argmax_first sigp decays) (firstn np rises);
    do troughs <- mapM (extremum_after argmin_first sigp rises) (firstn nt decays);
    Ok (peaks, troughs)
  end.

Definition unpad_filter (padn : nat) (sig_len boundary : Z) (xs : list nat) : list Z :=
  filter (fun p => (boundary <? p)%Z && (p <? sig_len - boundary)%Z)
         (map (fun x => (Z.of_nat x - Z.of_nat padn)%Z) xs).

Inductive first_ext := FPeak | FTrough | FNone | FInvalid.

(* "force the first extrema": a[1:] if b[0] > ... — IndexError on empty arrays as in the code *)
Definition trim_pair (firsts others : list Z) : result (list Z * list Z) :=
  match firsts, others with
  | f0 :: _, o0 :: _ =>
    let others' := if (o0 <? f0)%Z then tl others else others in
    match others' with
    | [] => Err EIndex
    | _ => let firsts' := if (lastZ others' <? lastZ firsts)%Z then removelast firsts else firsts in
           Ok (firsts', others')
    end
  | _, _ => Err EIndex
  end.

Definition trim (fe : first_ext) (peaks troughs : list Z) : result (list Z * list Z) :=
  match fe with
  | FPeak => trim_pair peaks troughs
  | FTrough => do r <- trim_pair troughs peaks; Ok (snd r, fst r)
  | FNone => Ok (peaks, troughs)
  | FInvalid => Err EValue
  end.

Record ext_in := {
  x_pos : list bool;     (* length = length raw + 2 padn *)
  x_raw : list float;    (* the signal as passed to find_extrema *)
  x_padn : nat;
  x_boundary : Z;
  x_first : first_ext }.

Definition find_extrema (x : ext_in) : result (list Z * list Z) :=
  let sigp := pad (x_padn x) (x_raw x) in
  do pt <- raw_extrema (x_pos x) sigp;
  let n := Z.of_nat (length (x_raw x)) in
  trim (x_first x) (unpad_filter (x_padn x) n (x_boundary x) (fst pt))
                   (unpad_filter (x_padn x) n (x_boundary x) (snd pt)).

(* correspondence *)
Definition zz_eqb (a b : list Z * list Z) : bool :=
  list_eqb Z.eqb (fst a) (fst b) && list_eqb Z.eqb (snd a) (snd b).
Definition run_find_extrema (x : barr * list float * nat * Z * first_ext) : result (list Z * list Z) :=
  let '(p, raw, padn, b, fe) := x in
  find_extrema {| x_pos := barr_bits p; x_raw := raw; x_padn := padn; x_boundary := b; x_first := fe |}.
(* a Degenerate model result means "outside the property": never counted as a mismatch *)
Definition eq_extrema (m i : result (list Z * list Z)) : bool :=
  match m with Err EDegenerate => true | _ => result_eqb zz_eqb m i end.
Definition bad_find_extrema := report run_find_extrema eq_extrema.
