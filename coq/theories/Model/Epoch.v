(* Epoching (utils/dataframes.py:epoch_df) and compute_features_2d(axis=None) (C13).
   A table row carries its six sample indices, the features used for labelling, its label and
   an opaque payload X standing for all other feature columns. *)
From Coq Require Import List Bool Arith ZArith Floats.PrimFloat.
Import ListNotations.
From ByC Require Import Base.Result Base.ListAux Harness.Compare Model.Runs Model.Labels Model.Cycles.

Section Epoch.
Context {X : Type}.
Record prow := { p_s : srow; p_feat : feat4; p_bf : float; p_lab : bool; p_x : X }.

Definition shift_srow (d : Z) (r : srow) : srow :=
  {| s_center := s_center r - d; s_last := s_last r - d; s_next := s_next r - d;
     s_zx_rise := s_zx_rise r - d; s_zx_decay := s_zx_decay r - d; s_last_zx := s_last_zx r - d |}.
Definition shift_row (d : Z) (r : prow) : prow :=
  {| p_s := shift_srow d (p_s r); p_feat := p_feat r; p_bf := p_bf r; p_lab := p_lab r; p_x := p_x r |}.

(* np.arange(L, sig_len + L, L) has ceil(sig_len / L) entries *)
Definition n_epochs (sig_len L : Z) : nat := Z.to_nat ((sig_len + L - 1) / L).
(* epoch k owns the rows whose closing side extremum lies in (k L, (k+1) L] *)
Definition in_epoch (L : Z) (k : nat) (r : prow) : bool :=
  (Z.of_nat k * L <? s_next (p_s r))%Z && (s_next (p_s r) <=? (Z.of_nat k + 1) * L)%Z.
Definition epoch_df (rows : list prow) (sig_len L : Z) : list (list prow) :=
  map (fun k => map (shift_row (Z.of_nat k * L)) (filter (in_epoch L k) rows)) (seq 0 (n_epochs sig_len L)).

(* re-labelling of one epoch with its own option set *)
Inductive relabel_opt := RCycles (t : thr4) (n : Z) | RAmp (t : float) (n : Z).
Definition set_labels (rows : list prow) (lab : list bool) : list prow :=
  map (fun rl => {| p_s := p_s (fst rl); p_feat := p_feat (fst rl); p_bf := p_bf (fst rl);
                    p_lab := snd rl; p_x := p_x (fst rl) |}) (zip rows lab).
Definition relabel (o : relabel_opt) (rows : list prow) : result (list prow) :=
  match o with
  | RCycles t n => rmap (set_labels rows) (labels_cycles t n (map p_feat rows))
  | RAmp t n => rmap (set_labels rows) (labels_amp t n (map p_bf rows))
  end.

(* compute_features_2d(axis=None): `flat` is the analysis of the concatenated signal (with the
   first / only option set); a per-epoch list re-labels every epoch, a single option set none *)
Definition group2d_axis_none (flat : list prow) (n_rows : nat) (row_len : Z)
  (per_epoch : option (list relabel_opt)) : result (list (list prow)) :=
  let eps := epoch_df flat (Z.of_nat n_rows * row_len) row_len in
  match per_epoch with
  | None => Ok eps
  | Some opts => mapM (fun ko => relabel (snd ko) (fst ko)) (zip eps opts)
  end.
(* before the repair a single option set still re-labelled epoch 0 on its own (Legacy) *)
Definition group2d_axis_none_legacy (flat : list prow) (n_rows : nat) (row_len : Z) (o : relabel_opt)
  : result (list (list prow)) :=
  let eps := epoch_df flat (Z.of_nat n_rows * row_len) row_len in
  match eps with
  | [] => Ok []
  | e0 :: rest => do e0' <- relabel o e0; Ok (e0' :: rest)
  end.
End Epoch.

(* ------------------------------------------------------------------------------------------ *)
(* correspondence: payload = original row number *)
Definition mk_prow (x : (Z * Z * Z * Z * Z * Z) * (float * float * float * float) * float * bool * N) : @prow N :=
  let '(s, f, bf, lab, id) := x in
  let '(c, l, n, zr, zd, lz) := s in
  {| p_s := Build_srow c l n zr zd lz; p_feat := mk_feat f; p_bf := bf; p_lab := lab; p_x := id |}.
Definition out_row := ((Z * Z * Z * Z * Z * Z) * bool * N)%type.
Definition flat_of (r : @prow N) : out_row :=
  let s := p_s r in ((s_center s, s_last s, s_next s, s_zx_rise s, s_zx_decay s, s_last_zx s), p_lab r, p_x r).
Inductive ropt_in := ICycles (t : float * float * float * float) (n : Z) | IAmp (t : float) (n : Z).
Definition mk_ropt (o : ropt_in) : relabel_opt :=
  match o with ICycles t n => RCycles (mk_thr t) n | IAmp t n => RAmp t n end.
Definition epoch_in := (list ((Z * Z * Z * Z * Z * Z) * (float * float * float * float) * float * bool * N)
                        * nat * Z * option (list ropt_in))%type.
Definition run_axis_none (x : epoch_in) : result (list (list out_row)) :=
  let '(rows, n_rows, row_len, opts) := x in
  rmap (map (map flat_of))
       (group2d_axis_none (map mk_prow rows) n_rows row_len
          (match opts with None => None | Some l => Some (map mk_ropt l) end)).
Definition six_eqb (a b : Z * Z * Z * Z * Z * Z) : bool :=
  let '(a1, a2, a3, a4, a5, a6) := a in let '(b1, b2, b3, b4, b5, b6) := b in
  Z.eqb a1 b1 && Z.eqb a2 b2 && Z.eqb a3 b3 && Z.eqb a4 b4 && Z.eqb a5 b5 && Z.eqb a6 b6.
Definition out_row_eqb (a b : out_row) : bool :=
  let '(s, l, i) := a in let '(s', l', i') := b in six_eqb s s' && Bool.eqb l l' && N.eqb i i'.
Definition bad_axis_none := report run_axis_none (result_eqb (list_eqb (list_eqb out_row_eqb))).
(* epoch_df alone: sig_len need not be a multiple of L *)
Definition run_epoch_df (x : list ((Z * Z * Z * Z * Z * Z) * (float * float * float * float) * float * bool * N) * Z * Z)
  : list (list out_row) :=
  let '(rows, sig_len, L) := x in map (map flat_of) (epoch_df (map mk_prow rows) sig_len L).
Definition bad_epoch_df := report run_epoch_df (list_eqb (list_eqb out_row_eqb)).
