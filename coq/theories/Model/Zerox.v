(* Model of bycycle.cyclepoints.find_zerox / _find_flank_midpoints (C03). *)
From Coq Require Import List Bool Arith ZArith Floats.PrimFloat.
Import ListNotations.
From ByC Require Import Base.Result Base.ListAux Harness.Compare.

(* find_flank_zerox(seg, flank, mid): indices k with seg[k] <= mid < seg[k+1] (rise) or
   seg[k] > mid >= seg[k+1] (decay); `pos[:-1] & ~pos[1:]` on NaN-free data *)
Definition on_start (rise : bool) (v mid : float) : bool :=
  if rise then (v <=? mid)%float else (mid <? v)%float.
Fixpoint level_crossings (rise : bool) (mid : float) (k : nat) (seg : list float) : list nat :=
  match seg with
  | x :: t => match t with
              | y :: _ => if on_start rise x mid && negb (on_start rise y mid)
                          then k :: level_crossings rise mid (S k) t
                          else level_crossings rise mid (S k) t
              | [] => []
              end
  | [] => []
  end.

(* int(np.median(xs)) for a sorted list of non-negative integers *)
Definition median_floor (xs : list nat) : nat :=
  let n := length xs in
  if Nat.even n then (nth (n / 2 - 1) xs 0 + nth (n / 2) xs 0) / 2 else nth (n / 2) xs 0.

Definition all_zero (seg : list float) : bool := forallb (fun v => (v =? 0)%float) seg.

(* midpoint of the flank from extremum s to extremum e (inclusive segment) *)
Definition flank_mid (rise : bool) (sig : list float) (s e : Z) : result Z :=
  let seg := zslice sig s (e + 1) in
  match seg with
  | [] => Err EIndex
  | x0 :: _ =>
    let xl := last seg x0 in
    let half := Z.of_nat (length seg / 2) in
    if all_zero seg then Ok (s + half)%Z
    else if (if rise then (xl <? x0)%float else (x0 <? xl)%float) then Ok (s + half)%Z   (* inverted flank *)
    else
      let mid := ((x0 + xl) / 2)%float in
      match level_crossings rise mid 0 seg with
      | [] => Ok (s + half)%Z                    (* dummy crossing int(len/2) *)
      | xs => Ok (s + Z.of_nat (median_floor xs))%Z
      end
  end.

(* flanks idx = 0 .. n-1 from starts[idx] to ends[idx + bias] *)
Definition flank_mids (rise : bool) (sig : list float) (n : Z) (starts ends : list Z) (bias : nat)
  : result (list Z) :=
  if (n <? 0)%Z then Err EValue
  else mapM (fun idx => do s <- nth_res starts idx; do e <- nth_res ends (idx + bias); flank_mid rise sig s e)
            (seq 0 (Z.to_nat n)).

Definition find_zerox (sig : list float) (peaks troughs : list Z) : result (list Z * list Z) :=
  match peaks, troughs with
  | p0 :: _, t0 :: _ =>
    let np := Z.of_nat (length peaks) in
    let nt := Z.of_nat (length troughs) in
    let '(nr, nd, bias) := if (p0 <? t0)%Z then ((np - 1)%Z, nt, 0%nat) else (np, (nt - 1)%Z, 1%nat) in
    do rises <- flank_mids true sig nr troughs peaks (1 - bias);
    do decays <- flank_mids false sig nd peaks troughs bias;
    Ok (rises, decays)
  | _, _ => Err EIndex
  end.

(* correspondence *)
Definition zz_eqb (a b : list Z * list Z) : bool :=
  list_eqb Z.eqb (fst a) (fst b) && list_eqb Z.eqb (snd a) (snd b).
Definition run_find_zerox (x : list float * list Z * list Z) : result (list Z * list Z) :=
  let '(sig, p, t) := x in find_zerox sig p t.
Definition bad_find_zerox := report run_find_zerox (result_eqb zz_eqb).
