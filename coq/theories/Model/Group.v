(* Group functions (group/features.py): placement of per-signal results (C11, C12).
   The per-signal analysis is abstract: cf : K -> S -> T (compute_features with an option set),
   epochs : K -> list S -> list T (compute_features_2d(axis=None) on one 2-D slice; one result
   per row of the slice).  What is modelled is everything the group functions decide
   themselves: option handling, the order-preserving pool, reshaping and transposition. *)
From Coq Require Import List Bool Arith.
Import ListNotations.
From ByC Require Import Base.Result Base.ListAux Harness.Compare.

(* Pool.imap as a reorder buffer: tasks complete in an arbitrary order sigma (a list of
   submission indices); a result is released only once all earlier indices were released *)
Section Pool.
Context {A R : Type}.
Fixpoint release (fuel next : nat) (buf : list (nat * R)) : list R * nat * list (nat * R) :=
  match fuel with
  | O => ([], next, buf)
  | S fuel' =>
    match find (fun e => Nat.eqb (fst e) next) buf with
    | Some e =>
      let '(out, n', b') := release fuel' (S next) (filter (fun e' => negb (Nat.eqb (fst e') next)) buf) in
      (snd e :: out, n', b')
    | None => ([], next, buf)
    end
  end.
Fixpoint imap_run (f : A -> R) (xs : list A) (dA : A) (sigma : list nat) (next : nat)
  (buf : list (nat * R)) : list R :=
  match sigma with
  | [] => []
  | i :: rest =>
    let buf1 := (i, f (nth i xs dA)) :: buf in
    let '(out, next', buf') := release (S (length buf1)) next buf1 in
    out ++ imap_run f xs dA rest next' buf'
  end.
Definition pool_imap (sigma : list nat) (f : A -> R) (xs : list A) (dA : A) : list R :=
  imap_run f xs dA sigma 0 [].
(* what imap_unordered would give (Legacy) *)
Definition pool_imap_unordered (sigma : list nat) (f : A -> R) (xs : list A) (dA : A) : list R :=
  map (fun i => f (nth i xs dA)) sigma.
End Pool.

Definition transpose {A} (d : A) (rows : list (list A)) (ncols : nat) : list (list A) :=
  map (fun j => map (fun r => nth j r d) rows) (seq 0 ncols).

Section Group.
Context {K Sg T : Type}.
Variable cf : K -> Sg -> T.
Variable epochs : K -> list Sg -> list T.
Variable dK : K.      (* the empty option set {} *)
Variable dS : Sg.
Variable dT : T.

(* option handling: None -> [{}]; dict -> [dict]; list -> the (flattened) list; a single
   entry is shared by all slices *)
Inductive kwspec := KwNone | KwOne (k : K) | KwList (l : list K).
Definition kw_list (spec : kwspec) : list K :=
  match spec with KwNone => [dK] | KwOne k => [k] | KwList l => l end.
Definition kw_for (spec : kwspec) (i : nat) : K :=
  match kw_list spec with
  | [k] => k
  | l => nth i l dK
  end.

(* compute_features_2d(axis=0): one task per row, order-preserving pool *)
Definition group2d_axis0 (sigma : list nat) (spec : kwspec) (sigs : list Sg) : list T :=
  pool_imap sigma (fun ix => cf (kw_for spec (fst ix)) (snd ix))
            (combine (seq 0 (length sigs)) sigs) (0, dS).

(* compute_features_3d: sigs is n0 rows of n1 signals (row-major) *)
Definition group3d_axis0 (sigma : list nat) (spec : kwspec) (sigs : list (list Sg)) : list (list T) :=
  pool_imap sigma (fun ix => epochs (kw_for spec (fst ix)) (snd ix))
            (combine (seq 0 (length sigs)) sigs) (0, []).

(* axis=1: swapaxes, per-column flattened-epoch analysis, then zip-transposition back *)
Definition group3d_axis1 (sigma : list nat) (spec : kwspec) (sigs : list (list Sg)) (n1 : nat)
  : list (list T) :=
  let cols := transpose dS sigs n1 in
  let res := pool_imap sigma (fun ix => epochs (kw_for spec (fst ix)) (snd ix))
                       (combine (seq 0 n1) cols) (0, []) in
  transpose dT res (length sigs).

(* axis=(0,1): reshape to (n0*n1) rows, 2-D analysis, back-indexing with idx i j *)
Definition group3d_axis01_gen (idx : nat -> nat -> nat -> nat) (sigma : list nat) (spec : kwspec)
  (sigs : list (list Sg)) (n1 : nat) : list (list T) :=
  let flat := concat sigs in
  let r := group2d_axis0 sigma spec flat in
  map (fun i => map (fun j => nth (idx n1 i j) r dT) (seq 0 n1)) (seq 0 (length sigs)).
Definition group3d_axis01 := group3d_axis01_gen (fun n1 i j => i * n1 + j).
(* the index used before the repair (Legacy) *)
Definition group3d_axis01_legacy := group3d_axis01_gen (fun n1 i j => i + j).

(* BycycleGroup.models: model [i] (or [i][j]) pairs df_features[i] with sigs[i] *)
Definition models2d (dfs : list T) (sigs : list Sg) : list (T * Sg) :=
  map (fun i => (nth i dfs dT, nth i sigs dS)) (seq 0 (length sigs)).
Definition models3d (dfs : list (list T)) (sigs : list (list Sg)) : list (list (T * Sg)) :=
  map (fun i => map (fun j => (nth j (nth i dfs []) dT, nth j (nth i sigs []) dS))
                    (seq 0 (length (nth i sigs [])))) (seq 0 (length sigs)).

(* The BycycleGroup OBJECT over its life (objs/fit.py:339-432): every call of fit assigns df_features and
   builds a NEW container of models (one per position of the array just given); nothing of an earlier fit
   - not its tables, not its models, not its shape - takes part.  A 2-D array gives flat lists, a 3-D
   array nested ones. *)
Inductive gfit :=
| Fit2 (sigma : list nat) (spec : kwspec) (sigs : list Sg)                          (* 2-D array, axis=0 *)
| Fit3 (ax : nat) (sigma : list nat) (spec : kwspec) (sigs : list (list Sg)) (n1 : nat).  (* ax: 0, 1, 2 = (0,1) *)
Inductive gobj :=
| Unfitted                                                         (* df_features = None, models = [] *)
| Fitted2 (dfs : list T) (models : list (T * Sg))
| Fitted3 (dfs : list (list T)) (models : list (list (T * Sg))).
Definition fit3_tables (ax : nat) (sigma : list nat) (spec : kwspec) (sigs : list (list Sg)) (n1 : nat)
  : list (list T) :=
  match ax with
  | 0 => group3d_axis0 sigma spec sigs
  | 1 => group3d_axis1 sigma spec sigs n1
  | _ => group3d_axis01 sigma spec sigs n1
  end.
Definition gobj_fit (o : gobj) (f : gfit) : gobj :=
  match f with
  | Fit2 sigma spec sigs =>
    let dfs := group2d_axis0 sigma spec sigs in Fitted2 dfs (models2d dfs sigs)
  | Fit3 ax sigma spec sigs n1 =>
    let dfs := fit3_tables ax sigma spec sigs n1 in Fitted3 dfs (models3d dfs sigs)
  end.
Definition gobj_run (o : gobj) (fits : list gfit) : gobj := fold_left gobj_fit fits o.

(* The object also HOLDS its settings (center_extrema, burst_method, burst_kwargs, thresholds,
   find_extrema_kwargs: together one option set k) as attributes, and the user may assign new values to
   them between two fits (bg.center_extrema = 'trough', bg.thresholds = {...}, ...).  fit builds the one
   dictionary it forwards from the attributes AT THE TIME OF THE CALL (objs/fit.py:386-392): whatever
   option argument a gfit carries is replaced by "the object's current option set, shared by all
   slices". *)
Inductive gaction :=
| ASet (k : K)            (* the option set the object holds from now on *)
| AFit (f : gfit).        (* bg.fit(array, axis, n_jobs): the spec inside f is not used *)
Definition with_spec (k : K) (f : gfit) : gfit :=
  match f with
  | Fit2 sigma _ sigs => Fit2 sigma (KwOne k) sigs
  | Fit3 ax sigma _ sigs n1 => Fit3 ax sigma (KwOne k) sigs n1
  end.
Definition gstate := (K * gobj)%type.
Definition gact (st : gstate) (a : gaction) : gstate :=
  match a with
  | ASet k => (k, snd st)
  | AFit f => (fst st, gobj_fit (snd st) (with_spec (fst st) f))
  end.
Definition gact_run (st : gstate) (acts : list gaction) : gstate := fold_left gact acts st.
(* the option set in force after a history: the last assignment, else the constructor's *)
Definition current_kw (k0 : K) (acts : list gaction) : K :=
  fold_left (fun k a => match a with ASet k' => k' | AFit _ => k end) acts k0.
End Group.

(* ------------------------------------------------------------------------------------------ *)
(* correspondence instance: signals and option sets are ids; a result records which option set
   was applied to which signal (and which epoch of a flattened slice it is) *)
Definition id_cf (k s : nat) : nat * nat * nat := (k, s, 0).
(* a slice is identified by a hash of the ids of its signals; epoch e of the slice *)
Definition slice_id (sl : list nat) : nat := fold_left (fun a x => a * 41 + x + 1) sl 0.
Definition id_epochs (k : nat) (sl : list nat) : list (nat * nat * nat) :=
  map (fun e => (k, slice_id sl, e)) (seq 0 (length sl)).

(* the caller's compute_features_kwargs argument: not given (None), one dict shared by all
   slices (id 999), or a list of option-set ids (one per slice; a singleton is shared) *)
Inductive gkw := GNone | GShared | GList (l : list nat).
Inductive gcase :=
| G2 (sigma : list nat) (kw : gkw) (n0 : nat)
| G3 (ax : nat) (sigma : list nat) (kw : gkw) (n0 n1 : nat).   (* ax: 0, 1, 2 = (0,1) *)
Definition spec_of (kw : gkw) : @kwspec nat :=
  match kw with GNone => KwNone | GShared => KwOne 999 | GList l => KwList l end.
(* the empty option set {} (what None stands for) has id 998 *)
Definition none_id : nat := 998.
(* signal ids: row-major i*n1+j *)
Definition sig_ids (n0 n1 : nat) : list (list nat) :=
  map (fun i => map (fun j => i * n1 + j) (seq 0 n1)) (seq 0 n0).
(* column slices are identified by their first signal too (id j) *)
Definition run_group (g : gcase) : list (list (nat * nat * nat)) :=
  match g with
  | G2 sigma kw n0 => [group2d_axis0 id_cf none_id 0 sigma (spec_of kw) (seq 0 n0)]
  | G3 0 sigma kw n0 n1 => group3d_axis0 id_epochs none_id sigma (spec_of kw) (sig_ids n0 n1)
  | G3 1 sigma kw n0 n1 => group3d_axis1 id_epochs none_id 0 (0, 0, 0) sigma (spec_of kw) (sig_ids n0 n1) n1
  | G3 _ sigma kw n0 n1 => group3d_axis01 id_cf none_id 0 (0, 0, 0) sigma (spec_of kw) (sig_ids n0 n1) n1
  end.
Definition triple_eqb (a b : nat * nat * nat) : bool :=
  let '(x, y, z) := a in let '(x', y', z') := b in Nat.eqb x x' && Nat.eqb y y' && Nat.eqb z z'.
Definition bad_group := report run_group (list_eqb (list_eqb triple_eqb)).


(* the same for BycycleGroup objects: a history of fits and of re-assignments of the settings attributes on
   ONE object, starting from the constructor's option set k0 (999: the dictionary given to the
   constructor, 998: the documented defaults; every later assignment block gets an id of its own);
   observed are df_features (placement triples, whose first component says WHICH option set was applied)
   and, for every model, the placement triple of the table it holds and the id of the signal it holds
   (a 2-D array is written as one row) *)
Definition fit_of_case (g : gcase) : @gfit nat nat :=
  match g with
  | G2 sigma kw n0 => Fit2 sigma (spec_of kw) (seq 0 n0)
  | G3 ax sigma kw n0 n1 => Fit3 ax sigma (spec_of kw) (sig_ids n0 n1) n1
  end.
Inductive ghist :=
| HSet (k : nat)          (* settings attributes re-assigned: the object now holds option set k *)
| HFit (g : gcase).       (* a fit; the option argument inside g is not used (with_spec) *)
Definition act_of_hist (h : ghist) : @gaction nat nat :=
  match h with HSet k => ASet k | HFit g => AFit (fit_of_case g) end.
Definition gobs := (list (list (nat * nat * nat)) * list (list ((nat * nat * nat) * nat)))%type.
Definition gobs_of (o : @gobj nat (nat * nat * nat)) : gobs :=
  match o with
  | Unfitted => ([], [])
  | Fitted2 dfs ms => ([dfs], [ms])
  | Fitted3 dfs ms => (dfs, ms)
  end.
Definition run_group_object (x : nat * list ghist) : gobs :=
  gobs_of (snd (gact_run id_cf id_epochs none_id 0 (0, 0, 0) (fst x, Unfitted) (map act_of_hist (snd x)))).
Definition gobs_eqb (a b : gobs) : bool :=
  list_eqb (list_eqb triple_eqb) (fst a) (fst b) &&
  list_eqb (list_eqb (pair_eqb triple_eqb Nat.eqb)) (snd a) (snd b).
Definition bad_group_object := report run_group_object gobs_eqb.
