(* Typed array operations for the source translator (harness/translate.py, array mode): the numpy /
   Python operations used by bycycle.burst.utils.check_min_burst_cycles, on boolean arrays (list bool),
   index arrays (list nat) and integer arrays (list Z).  Operations that numpy refuses for arrays of
   different lengths give an error here (broadcasting of length-1 arrays is not modelled: the proof of
   the translated function shows that the lengths are equal on every input, so no such branch is
   ever taken). *)
From Coq Require Import List Bool Arith ZArith.
Import ListNotations.
From ByC Require Import Base.Result Model.Runs Model.TableRuns.

Definition b2z (b : bool) : Z := if b then 1%Z else 0%Z.

(* isinstance(x, np.ndarray) *)
Definition a_is_ndarray (k : container) : bool := match k with NdArray => true | PyList => false end.
(* check_param_range(x, name, (0, np.inf)) of neurodsp: ValueError unless 0 <= x <= inf *)
Definition a_range_0_inf (x : Z) : bool := (0 <=? x)%Z.

(* np.diff(b, prepend=p, append=a) for a boolean array and integer scalars: the concatenation is an
   integer array, the differences are arithmetic *)
Fixpoint diff_from (prev : Z) (l : list Z) : list Z :=
  match l with
  | [] => []
  | x :: t => (x - prev)%Z :: diff_from x t
  end.
Definition np_diff_bool (l : list bool) (prepend append : Z) : list Z :=
  diff_from prepend (map b2z l ++ [append]).
(* np.flatnonzero *)
Fixpoint flatnonzero_z (i : nat) (d : list Z) : list nat :=
  match d with
  | [] => []
  | x :: t => if (x =? 0)%Z then flatnonzero_z (S i) t else i :: flatnonzero_z (S i) t
  end.
Definition np_flatnonzero (d : list Z) : list nat := flatnonzero_z 0 d.
(* a[start::2] *)
Fixpoint step2 (l : list nat) : list nat :=
  match l with
  | [] => []
  | a :: t => a :: match t with [] => [] | _ :: t' => step2 t' end
  end.
Definition py_slice_from_step2 (start : nat) (l : list nat) : list nat := step2 (skipn start l).
(* a - b on index arrays of equal length *)
Definition np_sub_idx (a b : list nat) : result (list Z) :=
  if Nat.eqb (length a) (length b)
  then Ok (map (fun p => (Z.of_nat (fst p) - Z.of_nat (snd p))%Z) (combine a b))
  else Err EValue.
(* d < n *)
Definition np_lt_scalar (d : list Z) (n : Z) : list bool := map (fun x => (x <? n)%Z) d.
(* a[mask] *)
Definition np_mask (a : list nat) (m : list bool) : result (list nat) :=
  if Nat.eqb (length a) (length m)
  then Ok (map fst (filter snd (combine a m)))
  else Err EIndex.
(* b[i:j] = False for non-negative i, j (numpy clips the slice to the array) *)
Definition py_setslice_false (l : list bool) (i j : nat) : list bool := clear_slice i j l.
