(* Correspondence plumbing: evaluate a model runner on (id, input, implementation output)
   triples and return the ids on which model and implementation disagree. *)
From Coq Require Import List Bool NArith ZArith.
Import ListNotations.

Definition bad_ids {I O : Type} (run : I -> O) (eq : O -> O -> bool)
  (cases : list (N * I * O)) : list N :=
  map (fun c => fst (fst c))
      (filter (fun c => negb (eq (run (snd (fst c))) (snd c))) cases).

Definition report {I O : Type} (run : I -> O) (eq : O -> O -> bool)
  (cases : list (N * I * O)) : N * list N :=
  (N.of_nat (length cases), bad_ids run eq cases).

Fixpoint list_eqb {A} (eq : A -> A -> bool) (l1 l2 : list A) : bool :=
  match l1, l2 with
  | [], [] => true
  | x :: t, y :: u => eq x y && list_eqb eq t u
  | _, _ => false
  end.

Definition option_eqb {A} (eq : A -> A -> bool) (x y : option A) : bool :=
  match x, y with
  | Some a, Some b => eq a b
  | None, None => true
  | _, _ => false
  end.

Definition pair_eqb {A B} (ea : A -> A -> bool) (eb : B -> B -> bool) (x y : A * B) : bool :=
  ea (fst x) (fst y) && eb (snd x) (snd y).

(* bit i of m, for i < len, least significant first *)
Fixpoint bits (len : nat) (m : N) : list bool :=
  match len with
  | O => []
  | S k => N.odd m :: bits k (N.div2 m)
  end.

(* boolean arrays travel either as (length, bitmask) or run-length encoded *)
Fixpoint rle (cur : bool) (runs : list nat) : list bool :=
  match runs with
  | [] => []
  | k :: t => repeat cur k ++ rle (negb cur) t
  end.
Inductive barr := AMask (len : nat) (m : N) | ARle (first : bool) (runs : list nat).
Definition barr_bits (a : barr) : list bool :=
  match a with AMask len m => bits len m | ARle f r => rle f r end.
