(* C14 — Bycycle objects reproduce the functional API and hold no stale state.
   Model: Model/Objects.v.  Tables are symbolic terms (TFit settings sig = compute_features with
   those settings on that signal), so "equals" means "is computed from the same settings".  No axioms.
   `construct s` stores the settings s as given (shorthand expanded); `construct_args a` first fills the
   documented defaults for arguments that were not given (construct_args a = construct (settings_of_args a)),
   so every theorem about `construct s` applies to it.  The BycycleGroup theorems are at the end. *)
From Coq Require Import List Bool Arith ZArith String.
Import ListNotations.
From ByC Require Import Base.Result Model.Objects Proofs.Objects Proofs.ObjectsExpand.
Local Open Scope string_scope.

(* whatever sequence of fits, edge recomputations, loads and edits preceded it, the stored
   settings are the constructor settings with the user's edits applied *)
Theorem C14_stored_settings_are_what_the_user_set : forall o ops o',
  run o ops = Ok o' -> o_set o' = intended (o_set o) ops.
Proof. exact run_settings. Qed.
Print Assumptions C14_stored_settings_are_what_the_user_set.

(* a fit after any history is compute_features of the current settings and leaves them alone *)
Theorem C14_fit_after_any_history : forall s ops o sig o',
  run (construct s) ops = Ok o -> step o (OFit sig) = Ok o' ->
  o_df o' = Some (TFit (intended (o_set (construct s)) ops) sig) /\ o_set o' = o_set o.
Proof. exact fit_after_history. Qed.
Print Assumptions C14_fit_after_any_history.

(* ... which is what any object holding the same settings (e.g. a freshly constructed one) yields *)
Theorem C14_fit_equals_fresh_object : forall s ops o sig o',
  run (construct s) ops = Ok o -> step o (OFit sig) = Ok o' ->
  forall fresh, o_set fresh = o_set o -> forall f', step fresh (OFit sig) = Ok f' -> o_df f' = o_df o'.
Proof. exact fit_equals_fresh_object. Qed.
Print Assumptions C14_fit_equals_fresh_object.

(* recompute_edges(r) = functional edge recomputation with every *_threshold lowered by r and
   min_n_cycles untouched; stored thresholds are not modified *)
Theorem C14_recompute_edges : forall o r o', step o (ORecompute r) = Ok o' ->
  o_set o' = o_set o /\ exists t, o_df o = Some t /\ o_df o' = Some (TEdges t (reduce_thresholds (st_thr (o_set o)) r)).
Proof. exact recompute_spec. Qed.
Print Assumptions C14_recompute_edges.

Theorem C14_reduction_lowers_thresholds : forall d r k v, ends_with k "threshold" = true -> lookup d k = Some v ->
  lookup (reduce_thresholds d r) k = Some (v - r)%Z.
Proof. exact reduce_lowers_thresholds. Qed.
Print Assumptions C14_reduction_lowers_thresholds.

Theorem C14_reduction_leaves_min_n_cycles : forall d r,
  lookup (reduce_thresholds d r) "min_n_cycles" = lookup d "min_n_cycles".
Proof. exact reduce_leaves_min_n_cycles. Qed.
Print Assumptions C14_reduction_leaves_min_n_cycles.

(* threshold shorthand names are expanded, idempotently *)
Theorem C14_shorthand_expansion_idempotent : forall k, expand_key (expand_key k) = expand_key k.
Proof. exact expand_key_idem. Qed.
Print Assumptions C14_shorthand_expansion_idempotent.

Theorem C14_shorthand_names :
  expand_key "monotonicity" = "monotonicity_threshold" /\
  expand_key "amp_fraction" = "amp_fraction_threshold" /\
  expand_key "amp_consistency" = "amp_consistency_threshold" /\
  expand_key "period_consistency" = "period_consistency_threshold" /\
  expand_key "burst_fraction" = "burst_fraction_threshold" /\
  expand_key "min_n_cycles" = "min_n_cycles" /\
  expand_key "monotonicity_threshold" = "monotonicity_threshold".
Proof. exact expand_key_shorthand. Qed.
Print Assumptions C14_shorthand_names.

(* Legacy: with compute_features writing min_n_cycles into its arguments (pre-repair), the
   3-step history [fit; thresholds['min_n_cycles'] = 6; fit] leaves a stale count behind *)
Theorem C14_legacy_stale_state_refuted :
  exists o o', run_legacy (construct legacy_settings) legacy_history = Ok o /\
               run (construct legacy_settings) legacy_history = Ok o' /\
               lookup (st_bk (o_set o)) "min_n_cycles" = Some 3%Z /\
               lookup (st_thr (o_set o)) "min_n_cycles" = Some 3%Z /\
               lookup (st_thr (o_set o')) "min_n_cycles" = Some 6%Z /\
               lookup (st_bk (o_set o')) "min_n_cycles" = None.
Proof. exact legacy_stale_state_refuted. Qed.
Print Assumptions C14_legacy_stale_state_refuted.


(* ------------------------------------------------------------------------------------------------ *)
(* constructor defaults (objs/fit.py:21-63) *)

(* thresholds=None: the stored thresholds are the documented per-method defaults ... *)
Theorem C14_thresholds_none_gives_documented_defaults : forall a, ca_thr a = None ->
  st_thr (o_set (construct_args a)) = default_thr (match ca_amp a with Some b => b | None => false end).
Proof. exact construct_default_thresholds. Qed.
Print Assumptions C14_thresholds_none_gives_documented_defaults.

(* ... whose values are (in thousandths): 0, .5, .5, .8, 3 cycles / 1, 3 cycles *)
Theorem C14_default_threshold_values :
  lookup (default_thr false) "amp_fraction_threshold" = Some 0%Z /\
  lookup (default_thr false) "amp_consistency_threshold" = Some 500%Z /\
  lookup (default_thr false) "period_consistency_threshold" = Some 500%Z /\
  lookup (default_thr false) "monotonicity_threshold" = Some 800%Z /\
  lookup (default_thr false) "min_n_cycles" = Some 3%Z /\
  lookup (default_thr true) "burst_fraction_threshold" = Some 1000%Z /\
  lookup (default_thr true) "min_n_cycles" = Some 3%Z.
Proof. exact default_thr_values. Qed.
Print Assumptions C14_default_threshold_values.

(* a given dictionary (complete or partial) is stored with shorthand names expanded and NOTHING filled in *)
Theorem C14_given_thresholds_are_stored_expanded : forall a d, ca_thr a = Some d ->
  st_thr (o_set (construct_args a)) = expand_thresholds d.
Proof. exact construct_given_thresholds. Qed.
Print Assumptions C14_given_thresholds_are_stored_expanded.

(* Bycycle() *)
Theorem C14_no_arguments :
  construct_args no_args =
  {| o_set := {| st_center := true; st_amp := false; st_bk := []; st_thr := default_thr false; st_fek := 0%Z; st_rs := true |};
     o_sig := None; o_df := None |}.
Proof. exact construct_no_args. Qed.
Print Assumptions C14_no_arguments.

Theorem C14_other_constructor_defaults : forall a,
  let s := o_set (construct_args a) in
  st_center s = match ca_center a with Some c => c | None => true end /\
  st_amp s = match ca_amp a with Some b => b | None => false end /\
  st_bk s = match ca_bk a with Some d => d | None => [] end /\
  st_fek s = match ca_fek a with Some f => f | None => 0%Z end /\
  st_rs s = match ca_rs a with Some r => r | None => true end.
Proof. exact construct_other_settings. Qed.
Print Assumptions C14_other_constructor_defaults.

(* shorthand expansion of ANY dictionary — complete or partial, long and shorthand names mixed — in
   which no two keys name the same threshold: every given key is found under its long name with its
   value, and nothing else is in the result (no shorthand key survives, no default is invented) *)
Theorem C14_shorthand_expansion_keeps_every_given_value : forall d k v,
  NoDup (expanded_keys d) -> In (k, v) d -> lookup (expand_thresholds d) (expand_key k) = Some v.
Proof. exact expand_thresholds_lookup. Qed.
Print Assumptions C14_shorthand_expansion_keeps_every_given_value.

Theorem C14_shorthand_expansion_adds_nothing : forall d k',
  NoDup (expanded_keys d) -> lookup (expand_thresholds d) k' <> None ->
  exists k v, In (k, v) d /\ k' = expand_key k.
Proof. exact expand_thresholds_only_given_keys. Qed.
Print Assumptions C14_shorthand_expansion_adds_nothing.

(* ------------------------------------------------------------------------------------------------ *)
(* BycycleGroup: "models mirror df_features and sigs position by position"
   mirror g := map o_df (g_models g) = map Some (g_dfs g) /\ map o_sig (g_models g) = map Some (g_sigs g) *)

(* after ANY history of group operations (fits of 2-D / 3-D arrays along any axis, re-fits with
   another shape, threshold / burst-option item edits, attribute assignments - bg.thresholds = {...},
   bg.burst_kwargs = {...}, bg.center_extrema / burst_method / find_extrema_kwargs / return_samples = ... -
   and edge recomputations) *)
Theorem C14_group_models_mirror_after_any_history : forall a ops g,
  grun (construct_group a) ops = Ok g -> mirror g.
Proof. exact group_mirror. Qed.
Print Assumptions C14_group_models_mirror_after_any_history.

(* spelled out position by position *)
Theorem C14_group_mirror_position_by_position : forall g, mirror g ->
  List.length (g_models g) = List.length (g_dfs g) /\ List.length (g_models g) = List.length (g_sigs g) /\
  forall i m, nth_error (g_models g) i = Some m ->
    exists t sg, nth_error (g_dfs g) i = Some t /\ o_df m = Some t /\
                 nth_error (g_sigs g) i = Some sg /\ o_sig m = Some sg.
Proof. exact mirror_pointwise. Qed.
Print Assumptions C14_group_mirror_position_by_position.

(* no stale settings: the group's settings are the constructor's with the item edits and the attribute
   assignments applied (gintended), whatever fits and recomputations happened in between *)
Theorem C14_group_settings_after_any_history : forall a ops g,
  grun (construct_group a) ops = Ok g -> g_set g = gintended (g_set (construct_group a)) ops.
Proof. exact group_settings. Qed.
Print Assumptions C14_group_settings_after_any_history.

(* no stale tables / models: a fit after any history - attribute assignments included - yields, for every
   position of the NEW array, the table of the CURRENT attribute values and a model loaded with that table
   and that signal and holding those settings - nothing else *)
Theorem C14_group_fit_after_any_history : forall a ops g arr sh g',
  grun (construct_group a) ops = Ok g -> gstep g (GFit arr sh) = Ok g' ->
  let s := gintended (g_set (construct_group a)) ops in
  g_set g' = s /\
  g_sigs g' = map (cell_id arr) (seq 0 (npos sh)) /\
  g_dfs g' = map (table_at s arr sh) (seq 0 (npos sh)) /\
  g_models g' = map (fun p => load_model s (cell_id arr p) (table_at s arr sh p)) (seq 0 (npos sh)).
Proof. exact group_fit_after_history. Qed.
Print Assumptions C14_group_fit_after_any_history.

(* from a fit on, through item edits, recomputations and further fits, every model holds exactly the
   group's settings (no_assignment: the operation assigns no settings attribute) ... *)
Theorem C14_group_models_hold_the_group_settings_since_the_fit : forall a ops arr sh rest g,
  grun (construct_group a) (ops ++ GFit arr sh :: rest) = Ok g -> forallb no_assignment rest = true ->
  models_current g.
Proof. exact group_models_current_since_fit. Qed.
Print Assumptions C14_group_models_hold_the_group_settings_since_the_fit.

(* ... and the restriction is needed: an assignment changes the group's attribute only, the models of the
   last fit keep their settings until the next fit rebuilds them (they still mirror tables and signals) *)
Theorem C14_group_assignment_reaches_the_models_at_the_next_fit :
  exists g, grun (construct_group no_args) [GFit 1 (G2Rows 2); GSetCenter false] = Ok g /\
            ~ models_current g /\ mirror g.
Proof. exact group_assignment_leaves_models_behind. Qed.
Print Assumptions C14_group_assignment_reaches_the_models_at_the_next_fit.

(* group recompute_edges(r) = the functional edge recomputation of every table with the group's
   thresholds lowered by r, in df_features and in the models alike *)
Theorem C14_group_recompute_edges : forall g r g', mirror g -> models_current g ->
  gstep g (GRecompute r) = Ok g' ->
  g_dfs g' = map (fun t => TEdges t (reduce_thresholds (st_thr (g_set g)) r)) (g_dfs g) /\
  map o_df (g_models g') = map Some (g_dfs g') /\ g_sigs g' = g_sigs g /\ g_set g' = g_set g.
Proof. exact group_recompute. Qed.
Print Assumptions C14_group_recompute_edges.

(* Legacy (before the repair of BycycleGroup.recompute_edges): the models were recomputed but the
   group's df_features kept the old tables — refuted by the 2-step history [fit; recompute_edges(.1)] *)
Theorem C14_group_legacy_stale_tables_refuted :
  exists g g', grun_legacy (construct_group no_args) legacy_group_history = Ok g /\ ~ mirror g /\
               grun (construct_group no_args) legacy_group_history = Ok g' /\ mirror g'.
Proof. exact group_legacy_refuted. Qed.
Print Assumptions C14_group_legacy_stale_tables_refuted.
