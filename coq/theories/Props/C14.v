(* C14 — Bycycle objects reproduce the functional API and hold no stale state.
   Model: Model/Objects.v.  Tables are symbolic terms (TFit settings sig = compute_features with
   those settings on that signal), so "equals" means "is computed from the same settings".  No axioms. *)
From Coq Require Import List Bool Arith ZArith String.
Import ListNotations.
From ByC Require Import Base.Result Model.Objects Proofs.Objects.
Local Open Scope string_scope.

(* whatever sequence of fits, edge recomputations, loads and edits preceded it, the stored
   settings are the constructor settings with the user's edits applied *)
Theorem C14_stored_settings_are_what_the_user_set : forall o ops o',
  run o ops = Ok o' -> o_set o' = intended (o_set o) ops.
Proof. exact run_settings. Qed.
Print Assumptions C14_stored_settings_are_what_the_user_set.

(* a fit after any history is compute_features of the current settings and leaves them alone *)
Theorem C14_fit_after_any_history : forall s ops o sig o',
  run (construct s) ops = Ok o -> step o (OFit sig) = Ok o' ->
  o_df o' = Some (TFit (intended (o_set (construct s)) ops) sig) /\ o_set o' = o_set o.
Proof. exact fit_after_history. Qed.
Print Assumptions C14_fit_after_any_history.

(* ... which is what any object holding the same settings (e.g. a freshly constructed one) yields *)
Theorem C14_fit_equals_fresh_object : forall s ops o sig o',
  run (construct s) ops = Ok o -> step o (OFit sig) = Ok o' ->
  forall fresh, o_set fresh = o_set o -> forall f', step fresh (OFit sig) = Ok f' -> o_df f' = o_df o'.
Proof. exact fit_equals_fresh_object. Qed.
Print Assumptions C14_fit_equals_fresh_object.

(* recompute_edges(r) = functional edge recomputation with every *_threshold lowered by r and
   min_n_cycles untouched; stored thresholds are not modified *)
Theorem C14_recompute_edges : forall o r o', step o (ORecompute r) = Ok o' ->
  o_set o' = o_set o /\ exists t, o_df o = Some t /\ o_df o' = Some (TEdges t (reduce_thresholds (st_thr (o_set o)) r)).
Proof. exact recompute_spec. Qed.
Print Assumptions C14_recompute_edges.

Theorem C14_reduction_lowers_thresholds : forall d r k v, ends_with k "threshold" = true -> lookup d k = Some v ->
  lookup (reduce_thresholds d r) k = Some (v - r)%Z.
Proof. exact reduce_lowers_thresholds. Qed.
Print Assumptions C14_reduction_lowers_thresholds.

Theorem C14_reduction_leaves_min_n_cycles : forall d r,
  lookup (reduce_thresholds d r) "min_n_cycles" = lookup d "min_n_cycles".
Proof. exact reduce_leaves_min_n_cycles. Qed.
Print Assumptions C14_reduction_leaves_min_n_cycles.

(* threshold shorthand names are expanded, idempotently *)
Theorem C14_shorthand_expansion_idempotent : forall k, expand_key (expand_key k) = expand_key k.
Proof. exact expand_key_idem. Qed.
Print Assumptions C14_shorthand_expansion_idempotent.

Theorem C14_shorthand_names :
  expand_key "monotonicity" = "monotonicity_threshold" /\
  expand_key "amp_fraction" = "amp_fraction_threshold" /\
  expand_key "amp_consistency" = "amp_consistency_threshold" /\
  expand_key "period_consistency" = "period_consistency_threshold" /\
  expand_key "burst_fraction" = "burst_fraction_threshold" /\
  expand_key "min_n_cycles" = "min_n_cycles" /\
  expand_key "monotonicity_threshold" = "monotonicity_threshold".
Proof. exact expand_key_shorthand. Qed.
Print Assumptions C14_shorthand_names.

(* Legacy: with compute_features writing min_n_cycles into its arguments (pre-repair), the
   3-step history [fit; thresholds['min_n_cycles'] = 6; fit] leaves a stale count behind *)
Theorem C14_legacy_stale_state_refuted :
  exists o o', run_legacy (construct legacy_settings) legacy_history = Ok o /\
               run (construct legacy_settings) legacy_history = Ok o' /\
               lookup (st_bk (o_set o)) "min_n_cycles" = Some 3%Z /\
               lookup (st_thr (o_set o)) "min_n_cycles" = Some 3%Z /\
               lookup (st_thr (o_set o')) "min_n_cycles" = Some 6%Z /\
               lookup (st_bk (o_set o')) "min_n_cycles" = None.
Proof. exact legacy_stale_state_refuted. Qed.
Print Assumptions C14_legacy_stale_state_refuted.
