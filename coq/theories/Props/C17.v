(* C17 — interpolated phase is anchored at cyclepoints and monotone between them.
   Model: Model/Phase.v — exact rational arithmetic in units of a quarter turn (pi/2): rise
   midpoint -1, peak 0, decay midpoint +1, trough -2 (= -pi; +2 on the branch approaching it).
   None = NaN.  wf_cps c has two clauses: along the sorted anchor list every step either advances
   the phase or wraps into a trough, and there are at least two anchors.  The former third clause
   (a first step that wraps into a trough spans two samples) is gone: it was only needed because
   the start mask looked for the first INCREASING step; the start mask was repaired (F14) to look
   for the first non-zero step, like the end mask.  C17_legacy_start_mask_refuted shows the old
   start mask losing the first cyclepoint on a well-formed input.  No axioms at all. *)
From Coq Require Import List Arith Bool ZArith QArith.
Import ListNotations.
From ByC Require Import Base.Result Model.Phase Proofs.Phase.

(* 0 at peaks, -2 (= -pi) at troughs, -1 / +1 (= -+pi/2) at rise / decay midpoints that are not
   overwritten by an extremum *)
Theorem C17_anchored_at_cyclepoints : forall c ph i v, wf_cps c -> phase c = Ok ph ->
  anchor (-2) c i = Some v -> (i < c_n c)%nat ->
  exists q, onth ph i = Some q /\ (q == inject_Z v)%Q.
Proof. exact phase_at_anchor. Qed.
Print Assumptions C17_anchored_at_cyclepoints.

(* within [-pi, pi] (no well-formedness needed) *)
Theorem C17_range : forall c ph i q, phase c = Ok ph -> onth ph i = Some q -> (-2 <= q <= 2)%Q.
Proof. exact phase_range. Qed.
Print Assumptions C17_range.

(* strictly advancing between consecutive cyclepoints; the only decrease is the wrap landing
   exactly on a trough (from a non-negative phase to -pi) *)
Theorem C17_monotone_between_cyclepoints : forall c ph i a b, wf_cps c -> phase c = Ok ph ->
  (first_idx c <= i)%nat -> (S i <= last_idx c)%nat ->
  onth ph i = Some a -> onth ph (S i) = Some b ->
  (a < b)%Q \/ (anchor (-2) c (S i) = Some (-2)%Z /\ (0 <= a)%Q /\ (b == -2)%Q).
Proof. exact phase_monotone_strict. Qed.
Print Assumptions C17_monotone_between_cyclepoints.

(* finite on the whole span from the first to the last cyclepoint, NaN outside it *)
Theorem C17_defined_exactly_on_the_span : forall c ph i, wf_cps c -> phase c = Ok ph -> (i < c_n c)%nat ->
  (onth ph i <> None <-> (first_idx c <= i <= last_idx c)%nat).
Proof. exact phase_span. Qed.
Print Assumptions C17_defined_exactly_on_the_span.

Theorem C17_never_fails_on_wellformed_cyclepoints : forall c, wf_cps c -> exists ph, phase c = Ok ph.
Proof. exact phase_ok. Qed.
Print Assumptions C17_never_fails_on_wellformed_cyclepoints.

Theorem C17_one_value_per_sample : forall c ph, phase c = Ok ph -> length ph = c_n c.
Proof. exact phase_length. Qed.
Print Assumptions C17_one_value_per_sample.

(* linear between adjacent cyclepoints, heading for +2 (= +pi) when the next one is a trough *)
Theorem C17_linear_between_cyclepoints : forall c ph a0 v0 a1 v1 x, wf_cps c -> phase c = Ok ph ->
  adjacent (a0, v0) (a1, v1) (anchors (-2) c) -> (a0 <= x < a1)%nat ->
  exists q, onth ph x = Some q /\ (q == lin a0 v0 a1 (flipv v1) x)%Q.
Proof. exact phase_between. Qed.
Print Assumptions C17_linear_between_cyclepoints.

(* the precondition is satisfiable *)
Theorem C17_wellformed_example :
  wf_cps {| c_n := 20; c_peaks := [6; 14]%nat; c_troughs := [2; 10]%nat; c_rises := Some [4; 12]%nat; c_decays := Some [8]%nat |}.
Proof. exact wf_example. Qed.
Print Assumptions C17_wellformed_example.

(* the precondition covers the class the property quantifies over: at least one peak and one trough inside the
   array, alternating; every supplied midpoint that does not coincide with an extremum lies on a flank of its kind
   (no_ext_between = no extremum strictly between), at most one of a kind per flank.  The "two samples apart"
   condition is not even needed.  The correspondence runner re-tests the boolean form wf_cpsb on every generated
   case. *)
Theorem C17_quantified_inputs_are_wellformed : forall c, cps_domain c -> wf_cps c.
Proof. exact cps_domain_wf. Qed.
Print Assumptions C17_quantified_inputs_are_wellformed.

Theorem C17_quantified_class_is_inhabited :
  cps_domain {| c_n := 20; c_peaks := [6; 14]%nat; c_troughs := [2; 10]%nat; c_rises := Some [4; 12]%nat; c_decays := Some [8]%nat |}.
Proof. exact cps_domain_example. Qed.
Print Assumptions C17_quantified_class_is_inhabited.

(* the boolean test evaluated by the correspondence runner on every case is sound for the precondition *)
Theorem C17_runner_precondition_test_is_sound : forall c, wf_cpsb c = true -> wf_cps c.
Proof. exact wf_cpsb_sound. Qed.
Print Assumptions C17_runner_precondition_test_is_sound.

(* Legacy: the end mask before the repair *)
Theorem C17_legacy_all_nan_refuted :
  phase_legacy {| c_n := 3; c_peaks := [0%nat]; c_troughs := [2%nat]; c_rises := None; c_decays := None |}
    = Ok [None; None; None] /\
  phase {| c_n := 3; c_peaks := [0%nat]; c_troughs := [2%nat]; c_rises := None; c_decays := None |}
    = Ok [Some 0%Q; Some (2 # 2)%Q; Some (-2)%Q] /\
  ((2 # 2) == 1)%Q.
Proof. exact phase_legacy_refuted_all_nan. Qed.
Print Assumptions C17_legacy_all_nan_refuted.

Theorem C17_legacy_extra_finite_sample_refuted :
  rmap (fun l => onth l 15) (phase_legacy ex_two) = Ok (Some 0%Q) /\
  rmap (fun l => onth l 15) (phase ex_two) = Ok None /\
  last (map fst (anchors (-2) ex_two)) 0%nat = 14%nat.
Proof. exact phase_legacy_refuted_extra_sample. Qed.
Print Assumptions C17_legacy_extra_finite_sample_refuted.

(* Legacy: the start mask before the repair (F14) drops the first cyclepoint when the first step is
   a one-sample wrap into a trough (decay midpoint at 0, trough at 1) *)
Theorem C17_legacy_start_mask_refuted :
  wf_cps ex_nogap /\ first_idx ex_nogap = 0%nat /\
  rmap (fun l => onth l 0) (phase_legacy_start ex_nogap) = Ok None /\
  rmap (fun l => onth l 0) (phase ex_nogap) = Ok (Some 1%Q).
Proof. exact phase_legacy_start_refuted. Qed.
Print Assumptions C17_legacy_start_mask_refuted.
