(* C17 — theorems are added below as the proofs are completed; see DESIGN.md *)
From Coq Require Import List Arith Bool ZArith QArith.
Import ListNotations.
From ByC Require Import Base.Result Model.Phase.

Theorem C17_placeholder_extrema_overwrite_midpoints : forall tv c i,
  mem i (c_troughs c) = true -> anchor tv c i = Some tv.
Proof. intros tv c i H. unfold anchor. now rewrite H. Qed.
Print Assumptions C17_placeholder_extrema_overwrite_midpoints.
