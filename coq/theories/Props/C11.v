(* C11 — 2-D group analysis equals per-signal analysis, in order.
   Model: Model/Group.v.  cf : K -> Sg -> T is compute_features with an option set (abstract);
   Pool.imap is a reorder buffer over an ARBITRARY completion order sigma.  n_jobs and the
   progress option do not occur in the model's right-hand sides at all.  No axioms. *)
From Coq Require Import List Arith Bool Permutation.
Import ListNotations.
From ByC Require Import Base.Result Model.Group Proofs.Group.

(* the pool returns results in submission order for every completion order *)
Theorem C11_pool_is_order_preserving : forall (A R : Type) (sigma : list nat) (f : A -> R) xs d,
  Permutation sigma (seq 0 (length xs)) -> pool_imap sigma f xs d = map f xs.
Proof. exact @pool_imap_perm. Qed.
Print Assumptions C11_pool_is_order_preserving.

Theorem C11_result_independent_of_completion_order :
  forall (A R : Type) (sigma1 sigma2 : list nat) (f : A -> R) (xs : list A) (d : A),
  Permutation sigma1 (seq 0 (length xs)) -> Permutation sigma2 (seq 0 (length xs)) ->
  pool_imap sigma1 f xs d = pool_imap sigma2 f xs d.
Proof. exact @pool_imap_order_independent. Qed.
Print Assumptions C11_result_independent_of_completion_order.

(* position i holds the analysis of row i with the option set for row i *)
Theorem C11_position_i_is_row_i : forall (K Sg T : Type) (cf : K -> Sg -> T) (dK : K) (dS : Sg) (dT : T)
  (sigma : list nat) (spec : kwspec) (sigs : list Sg) (i : nat),
  Permutation sigma (seq 0 (length sigs)) -> i < length sigs ->
  nth i (group2d_axis0 cf dK dS sigma spec sigs) dT = cf (kw_for dK spec i) (nth i sigs dS).
Proof. exact @group2d_axis0_nth. Qed.
Print Assumptions C11_position_i_is_row_i.

(* option handling: a dict (or None) is shared by all rows; a list of >= 2 supplies one per row *)
Theorem C11_shared_options : forall (K : Type) (dK k : K) i, kw_for dK (KwOne k) i = k.
Proof. exact @kw_for_shared. Qed.
Print Assumptions C11_shared_options.

Theorem C11_per_row_options : forall (K : Type) (dK : K) l i, 2 <= length l -> kw_for dK (KwList l) i = nth i l dK.
Proof. exact @kw_for_list. Qed.
Print Assumptions C11_per_row_options.

(* compute_features_kwargs not given (None): every row is analysed with the empty option set *)
Theorem C11_default_options : forall (K : Type) (dK : K) i, kw_for dK KwNone i = dK.
Proof. exact @kw_for_none. Qed.
Print Assumptions C11_default_options.

(* a one-element list is shared as well (the implementation switches on len(kwargs) > 1) *)
Theorem C11_singleton_list_is_shared : forall (K : Type) (dK k : K) i, kw_for dK (KwList [k]) i = k.
Proof. exact @kw_for_singleton. Qed.
Print Assumptions C11_singleton_list_is_shared.

(* BycycleGroup.models mirror df_features and sigs position by position *)
Theorem C11_models_mirror : forall (Sg T : Type) (dS : Sg) (dT : T) (dfs : list T) (sigs : list Sg) (i : nat),
  i < length sigs -> nth i (models2d dS dT dfs sigs) (dT, dS) = (nth i dfs dT, nth i sigs dS).
Proof. exact @models2d_spec. Qed.
Print Assumptions C11_models_mirror.

(* BycycleGroup.fit on an object that was fitted before (any number of times, arrays of any other shape,
   2-D or 3-D): a fit REPLACES df_features and models; the object then holds exactly what a fresh object
   fitted on the last array holds *)
Theorem C11_refit_replaces_tables_and_models : forall (K Sg T : Type) (cf : K -> Sg -> T)
  (epochs : K -> list Sg -> list T) (dK : K) (dS : Sg) (dT : T)
  (o : gobj) (fits : list gfit) (f : gfit),
  gobj_run cf epochs dK dS dT o (fits ++ [f]) = gobj_fit cf epochs dK dS dT Unfitted f.
Proof. exact @gobj_refit_replaces. Qed.
Print Assumptions C11_refit_replaces_tables_and_models.

(* ... and that has the LAST array's rows: as many tables and models as rows, table i = analysis of row i
   with the options for row i, model i = (that table, row i) *)
Theorem C11_object_after_any_fits_holds_the_last_array : forall (K Sg T : Type) (cf : K -> Sg -> T)
  (epochs : K -> list Sg -> list T) (dK : K) (dS : Sg) (dT : T)
  (o : gobj) (fits : list gfit) (sigma : list nat) (spec : kwspec) (sigs : list Sg),
  Permutation sigma (seq 0 (length sigs)) ->
  exists dfs models,
    gobj_run cf epochs dK dS dT o (fits ++ [Fit2 sigma spec sigs]) = Fitted2 dfs models /\
    length dfs = length sigs /\ length models = length sigs /\
    forall i, i < length sigs ->
      nth i dfs dT = cf (kw_for dK spec i) (nth i sigs dS) /\
      nth i models (dT, dS) = (cf (kw_for dK spec i) (nth i sigs dS), nth i sigs dS).
Proof. exact @gobj_last_fit_2d. Qed.
Print Assumptions C11_object_after_any_fits_holds_the_last_array.

(* ---------------------------------------------------------------------------------------------------- *)
(* The settings of a BycycleGroup are attributes; the user may assign new values to them between two fits
   (bg.center_extrema = 'trough', bg.burst_method = 'amp', bg.thresholds = {...}, bg.burst_kwargs = {...},
   bg.find_extrema_kwargs = {...}).  A history is a list of assignments (ASet k: the option set the object
   holds from now on) and fits, from the constructor's option set k0 and any earlier state o.
   current_kw k0 acts = the last assignment in acts, else k0. *)

(* a fit after ANY such history uses the option set in force WHEN IT IS CALLED, and leaves exactly what a
   fresh object with those settings holds after that one fit *)
Theorem C11_fit_uses_the_settings_in_force : forall (K Sg T : Type) (cf : K -> Sg -> T)
  (epochs : K -> list Sg -> list T) (dK : K) (dS : Sg) (dT : T)
  (k0 : K) (o : gobj) (acts : list gaction) (f : gfit),
  gact_run cf epochs dK dS dT (k0, o) (acts ++ [AFit f]) =
  (current_kw k0 acts, gobj_fit cf epochs dK dS dT Unfitted (with_spec (current_kw k0 acts) f)).
Proof. exact @gact_fit_uses_current. Qed.
Print Assumptions C11_fit_uses_the_settings_in_force.

Theorem C11_last_assignment_is_in_force : forall (K Sg : Type) (k0 k : K) (acts : list (@gaction K Sg)),
  current_kw k0 (acts ++ [ASet k]) = k.
Proof. exact @current_kw_set. Qed.
Print Assumptions C11_last_assignment_is_in_force.

Theorem C11_fits_leave_the_settings_alone : forall (K Sg : Type) (k0 : K) (f : gfit) (acts : list (@gaction K Sg)),
  current_kw k0 (acts ++ [AFit f]) = current_kw k0 acts.
Proof. exact @current_kw_fit. Qed.
Print Assumptions C11_fits_leave_the_settings_alone.

(* position by position on a 2-D array: table i = analysis of row i with the CURRENT option set, model i =
   (that table, row i) - whatever was assigned and fitted before *)
Theorem C11_object_after_reassignments_and_fits : forall (K Sg T : Type) (cf : K -> Sg -> T)
  (epochs : K -> list Sg -> list T) (dK : K) (dS : Sg) (dT : T)
  (k0 : K) (o : gobj) (acts : list gaction)
  (sigma : list nat) (spec : kwspec) (sigs : list Sg),
  Permutation sigma (seq 0 (length sigs)) ->
  let k := current_kw k0 acts in
  exists dfs models,
    gact_run cf epochs dK dS dT (k0, o) (acts ++ [AFit (Fit2 sigma spec sigs)]) = (k, Fitted2 dfs models) /\
    length dfs = length sigs /\ length models = length sigs /\
    forall i, i < length sigs ->
      nth i dfs dT = cf k (nth i sigs dS) /\
      nth i models (dT, dS) = (cf k (nth i sigs dS), nth i sigs dS).
Proof. exact @gact_last_fit_2d. Qed.
Print Assumptions C11_object_after_reassignments_and_fits.

(* Legacy: an unordered pool (imap_unordered) does NOT have the property *)
Theorem C11_unordered_pool_refuted : exists (sigma : list nat) (xs : list nat),
  Permutation sigma (seq 0 (length xs)) /\ pool_imap_unordered sigma (fun x => x) xs 0 <> map (fun x => x) xs.
Proof. exact pool_imap_unordered_refuted. Qed.
Print Assumptions C11_unordered_pool_refuted.
