(* C02 — extrema are raw-signal extremes of narrowband half-waves.  (theorems added below as proved) *)
From Coq Require Import List Arith Bool ZArith Floats.PrimFloat.
Import ListNotations.
From ByC Require Import Base.Result Model.Extrema.

Theorem C02_placeholder_invalid_first_extrema_rejected : forall p t, trim FInvalid p t = Err EValue.
Proof. reflexivity. Qed.
Print Assumptions C02_placeholder_invalid_first_extrema_rejected.
