(* C02 — extrema are raw-signal extremes of narrowband half-waves.
   Model: Model/Extrema.v.  `pos` are the sign bits (filtered > 0) of the padded signal;
   closed_halfwave pos k a b: bits a+1..b equal k and the half-wave is closed by crossings at a
   and at b (bit a and bit b+1 are the other sign); the code's sample window for it is [a, b).
   first_argmax raw a b x: x is the FIRST maximum of raw over [a, b).
   The "first maximum" statements need the order on finite doubles (Flocq; classical-reals
   axioms); the structural ones have no logical axioms. *)
From Coq Require Import List Arith Bool ZArith Sorted Floats.PrimFloat.
Import ListNotations.
From ByC Require Import Base.Result Base.ListAux Base.FloatFacts Model.Extrema.
From ByC Require Import Proofs.Extrema Proofs.ExtremaSpec.

(* exactly one peak per closed positive half-wave, at the first maximum of the raw signal over
   its window; nothing else is a peak *)
Theorem C02_peaks_are_first_maxima_of_closed_halfwaves : forall pos sigp peaks troughs x,
  raw_extrema pos sigp = Ok (peaks, troughs) -> length sigp = length pos ->
  Forall (fun v => finite v = true) sigp ->
  (In x peaks <-> exists a b, closed_halfwave pos true a b /\ first_argmax sigp a b x).
Proof. exact raw_peaks_iff. Qed.
Print Assumptions C02_peaks_are_first_maxima_of_closed_halfwaves.

Theorem C02_troughs_are_first_minima_of_closed_halfwaves : forall pos sigp peaks troughs x,
  raw_extrema pos sigp = Ok (peaks, troughs) -> length sigp = length pos ->
  Forall (fun v => finite v = true) sigp ->
  (In x troughs <-> exists a b, closed_halfwave pos false a b /\ first_argmin sigp a b x).
Proof. exact raw_troughs_iff. Qed.
Print Assumptions C02_troughs_are_first_minima_of_closed_halfwaves.

(* first occurrence wins, ties included *)
Theorem C02_argmax_is_first_maximum : forall l k, Forall (fun v => finite v = true) l ->
  argmax_first l = Some k ->
  k < length l /\ (forall j, j < length l -> (nth k l 0 <? nth j l 0)%float = false)
              /\ (forall j, j < k -> (nth j l 0 <? nth k l 0)%float = true).
Proof. exact argmax_first_spec. Qed.
Print Assumptions C02_argmax_is_first_maximum.

(* peaks and troughs are each strictly increasing and strictly alternate in time *)
Theorem C02_extrema_alternate : forall pos sigp peaks troughs,
  raw_extrema pos sigp = Ok (peaks, troughs) -> length sigp = length pos ->
  StronglySorted lt peaks /\ StronglySorted lt troughs /\
  exists m : list (nat * bool), wf_ev m /\
    peaks = map fst (filter snd m) /\ troughs = map fst (filter (fun e => negb (snd e)) m).
Proof. exact raw_extrema_alternate. Qed.
Print Assumptions C02_extrema_alternate.

(* the raw search succeeds whenever there is at least one crossing of each direction, and the
   only failure is the degenerate "no oscillation" input *)
Theorem C02_total_unless_no_crossing : forall pos sigp, length sigp = length pos ->
  rises_of (events 0 pos) <> [] -> decays_of (events 0 pos) <> [] -> exists r, raw_extrema pos sigp = Ok r.
Proof. exact raw_extrema_total. Qed.
Print Assumptions C02_total_unless_no_crossing.

(* boundary: an extremum is reported iff boundary < index < len - boundary (indices un-padded) *)
Theorem C02_boundary_filter : forall padn n b xs z, In z (unpad_filter padn n b xs) <->
  exists x, In x xs /\ z = (Z.of_nat x - Z.of_nat padn)%Z /\ (b < z < n - b)%Z.
Proof. exact unpad_filter_In. Qed.
Print Assumptions C02_boundary_filter.

(* first_extrema = 'peak': p0 < t0 < p1 < t1 < ... with equally many of each, all beyond the boundary,
   and nothing is invented (all come from the boundary-filtered raw extrema) *)
Theorem C02_first_extrema_peak : forall x peaks troughs,
  find_extrema x = Ok (peaks, troughs) -> x_first x = FPeak ->
  length (x_raw x) + 2 * x_padn x = length (x_pos x) ->
  interleaved peaks troughs /\
  (forall z, In z peaks \/ In z troughs ->
             (x_boundary x < z < Z.of_nat (length (x_raw x)) - x_boundary x)%Z) /\
  exists pk tr, raw_extrema (x_pos x) (pad (x_padn x) (x_raw x)) = Ok (pk, tr) /\
    incl peaks (unpad_filter (x_padn x) (Z.of_nat (length (x_raw x))) (x_boundary x) pk) /\
    incl troughs (unpad_filter (x_padn x) (Z.of_nat (length (x_raw x))) (x_boundary x) tr).
Proof. exact find_extrema_peak_first. Qed.
Print Assumptions C02_first_extrema_peak.

Theorem C02_first_extrema_trough : forall x peaks troughs,
  find_extrema x = Ok (peaks, troughs) -> x_first x = FTrough ->
  length (x_raw x) + 2 * x_padn x = length (x_pos x) ->
  interleaved troughs peaks /\
  (forall z, In z peaks \/ In z troughs ->
             (x_boundary x < z < Z.of_nat (length (x_raw x)) - x_boundary x)%Z) /\
  exists pk tr, raw_extrema (x_pos x) (pad (x_padn x) (x_raw x)) = Ok (pk, tr) /\
    incl peaks (unpad_filter (x_padn x) (Z.of_nat (length (x_raw x))) (x_boundary x) pk) /\
    incl troughs (unpad_filter (x_padn x) (Z.of_nat (length (x_raw x))) (x_boundary x) tr).
Proof. exact find_extrema_trough_first. Qed.
Print Assumptions C02_first_extrema_trough.

(* first_extrema = None: nothing is removed beyond the boundary filter; invalid value: ValueError *)
Theorem C02_first_extrema_none : forall x pk tr,
  raw_extrema (x_pos x) (pad (x_padn x) (x_raw x)) = Ok (pk, tr) -> x_first x = FNone ->
  find_extrema x = Ok (unpad_filter (x_padn x) (Z.of_nat (length (x_raw x))) (x_boundary x) pk,
                       unpad_filter (x_padn x) (Z.of_nat (length (x_raw x))) (x_boundary x) tr).
Proof. exact find_extrema_none. Qed.
Print Assumptions C02_first_extrema_none.

Theorem C02_first_extrema_invalid : forall x pk tr,
  raw_extrema (x_pos x) (pad (x_padn x) (x_raw x)) = Ok (pk, tr) -> x_first x = FInvalid ->
  find_extrema x = Err EValue.
Proof. exact find_extrema_invalid. Qed.
Print Assumptions C02_first_extrema_invalid.

(* when trimming fails: exactly when no peak, no trough, or a single trough before the first peak survive *)
Theorem C02_trimming_failure : forall x pk tr,
  raw_extrema (x_pos x) (pad (x_padn x) (x_raw x)) = Ok (pk, tr) -> x_first x = FPeak ->
  let P := unpad_filter (x_padn x) (Z.of_nat (length (x_raw x))) (x_boundary x) pk in
  let T := unpad_filter (x_padn x) (Z.of_nat (length (x_raw x))) (x_boundary x) tr in
  (find_extrema x = Err EIndex <-> P = [] \/ T = [] \/ exists t, T = [t] /\ (t < headZ P)%Z) /\
  (forall e, find_extrema x = Err e -> e = EIndex).
Proof. exact find_extrema_err_index. Qed.
Print Assumptions C02_trimming_failure.

(* end to end, first_extrema = None: what find_extrema REPORTS (un-padded indices) is exactly the
   first maxima of the closed positive half-waves that lie beyond the boundary — nothing else *)
Theorem C02_reported_peaks_end_to_end : forall x peaks troughs z,
  find_extrema x = Ok (peaks, troughs) -> x_first x = FNone ->
  length (x_raw x) + 2 * x_padn x = length (x_pos x) ->
  Forall (fun v => finite v = true) (x_raw x) ->
  (In z peaks <->
   exists a b p, closed_halfwave (x_pos x) true a b /\
     first_argmax (pad (x_padn x) (x_raw x)) a b p /\
     z = (Z.of_nat p - Z.of_nat (x_padn x))%Z /\
     (x_boundary x < z < Z.of_nat (length (x_raw x)) - x_boundary x)%Z).
Proof. exact find_extrema_none_spec. Qed.
Print Assumptions C02_reported_peaks_end_to_end.

Theorem C02_reported_troughs_end_to_end : forall x peaks troughs z,
  find_extrema x = Ok (peaks, troughs) -> x_first x = FNone ->
  length (x_raw x) + 2 * x_padn x = length (x_pos x) ->
  Forall (fun v => finite v = true) (x_raw x) ->
  (In z troughs <->
   exists a b p, closed_halfwave (x_pos x) false a b /\
     first_argmin (pad (x_padn x) (x_raw x)) a b p /\
     z = (Z.of_nat p - Z.of_nat (x_padn x))%Z /\
     (x_boundary x < z < Z.of_nat (length (x_raw x)) - x_boundary x)%Z).
Proof. exact find_extrema_none_spec_troughs. Qed.
Print Assumptions C02_reported_troughs_end_to_end.

(* completeness of the first_extrema trimming.  P, T: the boundary-filtered half-wave extrema.
   'peak': at most the FIRST trough (exactly when it precedes the first peak) and at most the LAST
   peak (exactly when no reported trough follows it) are removed; nothing in between can go *)
Theorem C02_first_extrema_peak_trimming_complete : forall x peaks troughs pk tr,
  find_extrema x = Ok (peaks, troughs) -> x_first x = FPeak ->
  raw_extrema (x_pos x) (pad (x_padn x) (x_raw x)) = Ok (pk, tr) ->
  let P := unpad_filter (x_padn x) (Z.of_nat (length (x_raw x))) (x_boundary x) pk in
  let T := unpad_filter (x_padn x) (Z.of_nat (length (x_raw x))) (x_boundary x) tr in
  (peaks = P \/ peaks = removelast P) /\ (troughs = T \/ troughs = tl T) /\
  troughs = (if (headZ T <? headZ P)%Z then tl T else T) /\
  peaks = (if (lastZ troughs <? lastZ P)%Z then removelast P else P).
Proof. exact find_extrema_peak_first_complete. Qed.
Print Assumptions C02_first_extrema_peak_trimming_complete.

Theorem C02_first_extrema_trough_trimming_complete : forall x peaks troughs pk tr,
  find_extrema x = Ok (peaks, troughs) -> x_first x = FTrough ->
  raw_extrema (x_pos x) (pad (x_padn x) (x_raw x)) = Ok (pk, tr) ->
  let P := unpad_filter (x_padn x) (Z.of_nat (length (x_raw x))) (x_boundary x) pk in
  let T := unpad_filter (x_padn x) (Z.of_nat (length (x_raw x))) (x_boundary x) tr in
  (troughs = T \/ troughs = removelast T) /\ (peaks = P \/ peaks = tl P) /\
  peaks = (if (headZ P <? headZ T)%Z then tl P else P) /\
  troughs = (if (lastZ peaks <? lastZ T)%Z then removelast T else T).
Proof. exact find_extrema_trough_first_complete. Qed.
Print Assumptions C02_first_extrema_trough_trimming_complete.

(* the trough-first counterpart of C02_trimming_failure *)
Theorem C02_trimming_failure_trough : forall x pk tr,
  raw_extrema (x_pos x) (pad (x_padn x) (x_raw x)) = Ok (pk, tr) -> x_first x = FTrough ->
  let P := unpad_filter (x_padn x) (Z.of_nat (length (x_raw x))) (x_boundary x) pk in
  let T := unpad_filter (x_padn x) (Z.of_nat (length (x_raw x))) (x_boundary x) tr in
  (find_extrema x = Err EIndex <-> T = [] \/ P = [] \/ exists p, P = [p] /\ (p < headZ T)%Z) /\
  (forall e, find_extrema x = Err e -> e = EIndex).
Proof. exact find_extrema_err_index_trough. Qed.
Print Assumptions C02_trimming_failure_trough.

(* peak_spec x z / trough_spec x z: z is the un-padded first maximum (minimum) of the padded raw
   samples over a closed positive (negative) half-wave of the sign bits, inside the boundary margins *)
Theorem C02_meaning_of_peak_spec : forall x z,
  peak_spec x z <->
  exists a b p, closed_halfwave (x_pos x) true a b /\
    first_argmax (pad (x_padn x) (x_raw x)) a b p /\
    z = (Z.of_nat p - Z.of_nat (x_padn x))%Z /\
    (x_boundary x < z < Z.of_nat (length (x_raw x)) - x_boundary x)%Z.
Proof. exact peak_spec_unfold. Qed.
Print Assumptions C02_meaning_of_peak_spec.

Theorem C02_meaning_of_trough_spec : forall x z,
  trough_spec x z <->
  exists a b p, closed_halfwave (x_pos x) false a b /\
    first_argmin (pad (x_padn x) (x_raw x)) a b p /\
    z = (Z.of_nat p - Z.of_nat (x_padn x))%Z /\
    (x_boundary x < z < Z.of_nat (length (x_raw x)) - x_boundary x)%Z.
Proof. exact trough_spec_unfold. Qed.
Print Assumptions C02_meaning_of_trough_spec.

(* end to end with first_extrema = 'peak': the reported peaks are EXACTLY the half-wave peaks inside
   the margins that are followed by a half-wave trough inside the margins, and the reported troughs
   EXACTLY the half-wave troughs inside the margins that are preceded by such a peak -- so only a
   leading trough / a trailing peak is ever withheld, and nothing is invented *)
Theorem C02_reported_extrema_end_to_end_peak_first : forall x peaks troughs,
  find_extrema x = Ok (peaks, troughs) -> x_first x = FPeak ->
  length (x_raw x) + 2 * x_padn x = length (x_pos x) ->
  Forall (fun v => finite v = true) (x_raw x) ->
  (forall z, In z peaks <-> peak_spec x z /\ exists t, trough_spec x t /\ (z < t)%Z) /\
  (forall z, In z troughs <-> trough_spec x z /\ exists p, peak_spec x p /\ (p < z)%Z).
Proof. exact find_extrema_peak_first_spec. Qed.
Print Assumptions C02_reported_extrema_end_to_end_peak_first.

Theorem C02_reported_extrema_end_to_end_trough_first : forall x peaks troughs,
  find_extrema x = Ok (peaks, troughs) -> x_first x = FTrough ->
  length (x_raw x) + 2 * x_padn x = length (x_pos x) ->
  Forall (fun v => finite v = true) (x_raw x) ->
  (forall z, In z troughs <-> trough_spec x z /\ exists p, peak_spec x p /\ (z < p)%Z) /\
  (forall z, In z peaks <-> peak_spec x z /\ exists t, trough_spec x t /\ (t < z)%Z).
Proof. exact find_extrema_trough_first_spec. Qed.
Print Assumptions C02_reported_extrema_end_to_end_trough_first.
