(* C01 — complete, ordered, gap-free segmentation. (theorems added as proved) *)
From Coq Require Import List Arith Bool ZArith Floats.PrimFloat.
Import ListNotations.
From ByC Require Import Base.Result Model.Cycles.

Theorem C01_placeholder_rows_need_equal_columns : forall p t r d rows,
  cycle_rows p t r d = Ok rows -> length rows = length (tl p).
Proof.
  intros p t r d rows. unfold cycle_rows.
  destruct (_ && _)%bool; [|discriminate]. intros [= <-]. now rewrite map_length, seq_length.
Qed.
Print Assumptions C01_placeholder_rows_need_equal_columns.
